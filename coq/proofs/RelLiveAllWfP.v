(* Lemmas about RelLiveAll.v (C11, liberal layouts; the mirror of RelLiveWfP.v), part 3: live layouts
   stay well-formed ([lwf]: shapes, token lists the lexer can produce, operators the accessors can
   read) under every abstract operation, and every operation whose positions exist is defined on
   a well-formed layout. *)
From V.model Require Import Base RelLex RelParse RelAcc RelGrammar RelGrammarAll.
From V.model Require Import RelEdit RelEditSpec RelEditTree RelLiveAll.
From V.proofs Require Import BaseP RelEditP RelEditStP RelEditTreeP RelLexInvP RelLiveAllP RelLiveAllStepP.

Ltac andb_hyps :=
  repeat match goal with
         | H : _ && _ = true |- _ => apply andb_prop in H; destruct H
         end.
Ltac andb_goal := repeat match goal with |- _ && _ = true => apply andb_true_intro; split end.

(* ------------------------------------------------------------------ identifier texts are IDENT tokens *)
Lemma ident_not_single c : is_ident_char c = true -> single_char_kind c = None.
Proof.
  intros H. unfold single_char_kind.
  repeat match goal with
         | |- context [(c =? ?k)%N] => destruct (N.eqb_spec c k) as [E|_]; [subst c; vm_compute in H; discriminate|]
         end.
  reflexivity.
Qed.
Lemma ident_not_ws c : is_ident_char c = true -> is_rel_ws c = false.
Proof. intros H. destruct (is_rel_ws c) eqn:E; [|reflexivity]. apply ws_not_ident in E. congruence. Qed.
Lemma name_ok_ident s : ident_text s = true -> name_ok s = true.
Proof.
  destruct s as [|c w]; [discriminate|]. cbn [ident_text forallb]. intros H. apply andb_prop in H as [Hc Hw].
  unfold name_ok, tok_valid. cbn [fst snd]. rewrite (ident_not_single c Hc), (ident_not_ws c Hc), Hc, Hw. reflexivity.
Qed.
Lemma lexable_cons t r : lexable (t :: r) = tok_valid t && match r with t' :: _ => adj_ok (fst t) (fst t') | [] => true end && lexable r.
Proof. reflexivity. Qed.

(* ------------------------------------------------------------------ relations *)
Lemma wsl_ok_app a b : wsl_ok (a ++ b) = wsl_ok a && wsl_ok b.
Proof. apply forallb_app. Qed.
Lemma wsl_ok_sp : wsl_ok [w_sp] = true. Proof. reflexivity. Qed.

Lemma qual_new_ok q : ident_text q = true -> qual_in_ok (qual_new q) = true.
Proof.
  intros H. unfold qual_in_ok, qual_new, aqual_body. cbn [aq_ws1 aq_name wsk forallb app andb].
  rewrite !lexable_cons. change (tok_valid t_colon) with true. change (tok_valid (IDENT, q)) with (name_ok q).
  rewrite (name_ok_ident q H). reflexivity.
Qed.
Lemma vclause_new_ok vc ver : ident_text ver = true -> vclause_in_ok (vclause_new vc ver) = true.
Proof.
  intros H. pose proof (name_ok_ident ver H) as Hn. unfold name_ok in Hn.
  unfold vclause_in_ok, vclause_new, aver_body_toks. cbn [av_ws1 av_ws2 av_ws3 av_op av_ver wsk forallb app nonempty is_nil map vpiece_tok].
  destruct vc; cbn [vc_text map op_tok app]; rewrite !lexable_cons; cbn [fst snd]; rewrite Hn; reflexivity.
Qed.
Lemma atoms_rest_ok a : forall i, forallb ident_text a = true ->
  lexable (flat_map watom_toks (atoms_new (S i) a) ++ [(R_BRACKET, [93%N])]) = true /\
  forallb (fun wa : list rtoken * atom => wsk (fst wa)) (atoms_new (S i) a) = true.
Proof.
  induction a as [|x r IH]; intros i H; [split; reflexivity|]. cbn [forallb] in H. andb_hyps.
  destruct (IH (S i) H0) as [IH1 IH2]. pose proof (name_ok_ident x H) as Hn. unfold name_ok in Hn.
  split; [|cbn [atoms_new forallb fst]; now rewrite IH2].
  cbn [atoms_new flat_map watom_toks fst snd atom_tok app]. rewrite !lexable_cons. cbn [fst snd]. rewrite Hn, IH1.
  change (tok_valid tok_sp) with true. destruct r; reflexivity.
Qed.
Lemma archs_new_ok a : forallb ident_text a = true -> group_in_ok (archs_new a) = true.
Proof.
  intros H. unfold group_in_ok, archs_new, agroup_body_toks. cbn [ag_atoms ag_ws1 wsk forallb app].
  destruct a as [|x r]; [reflexivity|]. cbn [forallb] in H. andb_hyps.
  destruct (atoms_rest_ok r 0 H0) as [R1 R2]. pose proof (name_ok_ident x H) as Hn. unfold name_ok in Hn.
  cbn [atoms_new forallb fst wsk]. rewrite R2. cbn [andb flat_map watom_toks fst snd atom_tok app].
  rewrite !lexable_cons. cbn [fst snd]. rewrite Hn, R1. change (tok_valid (L_BRACKET, [91%N])) with true. destruct r; reflexivity.
Qed.
Lemma pterm_new_toks p : wf_profile p = true ->
  forall rest, (match rest with t' :: _ => adj_ok IDENT (fst t') | [] => true end) = true -> lexable rest = true ->
  lexable (pterm_toks (match p with PDisabled n => PNot [] n | PEnabled n => PId n end) ++ rest) = true.
Proof.
  intros Hp rest Hadj Hrest. destruct p as [n|n]; cbn [wf_profile] in Hp; pose proof (name_ok_ident n Hp) as Hn; unfold name_ok in Hn;
    cbn [pterm_toks app]; rewrite !lexable_cons; cbn [fst snd]; rewrite Hn, Hrest, Hadj; reflexivity.
Qed.
Lemma pterms_rest_ok g : forall i, forallb wf_profile g = true ->
  lexable (flat_map wpterm_toks (pterms_new (S i) g) ++ [(R_ANGLE, [62%N])]) = true /\
  forallb (fun wp : list rtoken * pterm => wsk (fst wp) && pterm_ok (snd wp)) (pterms_new (S i) g) = true.
Proof.
  induction g as [|x r IH]; intros i H; [split; reflexivity|]. cbn [forallb] in H. andb_hyps.
  destruct (IH (S i) H0) as [IH1 IH2].
  split; [|cbn [pterms_new forallb fst snd]; rewrite IH2; destruct x; reflexivity].
  cbn [pterms_new flat_map wpterm_toks fst snd app]. rewrite <- app_assoc. rewrite lexable_cons.
  change (tok_valid tok_sp) with true. cbn [andb].
  assert (Hl : lexable (pterm_toks (match x with PDisabled n => PNot [] n | PEnabled n => PId n end)
                        ++ flat_map wpterm_toks (pterms_new (S (S i)) r) ++ [(R_ANGLE, [62%N])]) = true).
  { apply pterm_new_toks; [exact H| |exact IH1]. destruct r; reflexivity. }
  rewrite Hl. destruct x; reflexivity.
Qed.
Lemma profs_new_ok g : forallb wf_profile g = true -> pgroup_in_ok (profs_new g) = true.
Proof.
  intros H. unfold pgroup_in_ok, profs_new, pgroup_body_toks. cbn [pg_terms pg_ws1 wsk forallb app].
  destruct g as [|x r]; [reflexivity|]. cbn [forallb] in H. andb_hyps.
  destruct (pterms_rest_ok r 0 H0) as [R1 R2].
  cbn [pterms_new forallb fst snd wsk]. rewrite R2.
  assert (Hx : pterm_ok (match x with PDisabled n => PNot [] n | PEnabled n => PId n end) = true) by (destruct x; reflexivity).
  rewrite Hx. cbn [andb flat_map wpterm_toks fst snd app]. rewrite <- app_assoc. rewrite lexable_cons.
  change (tok_valid (L_ANGLE, [60%N])) with true.
  assert (Hl : lexable (pterm_toks (match x with PDisabled n => PNot [] n | PEnabled n => PId n end)
                        ++ flat_map wpterm_toks (pterms_new 1 r) ++ [(R_ANGLE, [62%N])]) = true).
  { apply pterm_new_toks; [exact H| |exact R1]. destruct r; reflexivity. }
  rewrite Hl. destruct x; reflexivity.
Qed.

Lemma lrel_new_ok r : wf_relrec r = true -> lrel_ok (lrel_new r) = true.
Proof.
  unfold wf_relrec, lrel_ok, lrel_new. intros H. andb_hyps.
  cbn [l_name l_qual l_ver l_archs l_profs l_trail wsl_ok forallb]. rewrite (name_ok_ident _ H). cbn [andb]. rewrite andb_true_r.
  andb_goal.
  - destruct (rr_qual r) as [q|]; [|reflexivity]. cbn [inner_ok wsl_ok forallb andb]. now apply qual_new_ok.
  - destruct (rr_ver r) as [[vc ver]|]; [|reflexivity]. cbn [inner_ok]. rewrite wsl_ok_sp. now apply vclause_new_ok.
  - destruct (rr_archs r) as [a|]; [|reflexivity]. cbn [inner_ok]. rewrite wsl_ok_sp. andb_hyps. now apply archs_new_ok.
  - rewrite forallb_forall. intros x Hx. apply in_map_iff in Hx as (g & <- & Hin). cbn [fst snd]. rewrite wsl_ok_sp.
    rewrite forallb_forall in H0. specialize (H0 g Hin). andb_hyps. now apply profs_new_ok.
Qed.
Lemma lentry_new_ok r rs : forallb wf_relrec (r :: rs) = true -> lentry_ok (lentry_new r rs) = true.
Proof.
  cbn [forallb]. intros H. andb_hyps. unfold lentry_ok, lentry_new. cbn [e_first e_alts e_trail].
  rewrite (lrel_new_ok r H). cbn [andb wsl_ok forallb]. rewrite andb_true_r.
  rewrite forallb_forall. intros x Hx. apply in_map_iff in Hx as (r' & <- & Hin). cbn [fst snd].
  rewrite forallb_forall in H0. now rewrite (lrel_new_ok r' (H0 _ Hin)).
Qed.

Lemma set_version_ok v r : match v with Some (_, ver) => ident_text ver | None => true end = true ->
  lrel_ok r = true -> lrel_ok (a_set_version v r) = true.
Proof.
  intros Hv H. unfold lrel_ok in *. andb_hyps. unfold a_set_version. cbn [l_name l_qual l_ver l_archs l_profs l_trail].
  andb_goal; auto. destruct v as [[vc ver]|]; [|reflexivity].
  pose proof (vclause_new_ok vc ver Hv) as Hn.
  destruct (l_ver r) as [[w v0]|]; cbn [inner_ok] in *; andb_hyps; andb_goal; auto.
Qed.
Lemma set_archqual_ok q r : ident_text q = true -> lrel_ok r = true -> lrel_ok (a_set_archqual q r) = true.
Proof.
  intros Hq H. unfold lrel_ok in *. andb_hyps. unfold a_set_archqual. cbn [l_name l_qual l_ver l_archs l_profs l_trail].
  andb_goal; auto.
  pose proof (qual_new_ok q Hq) as Hn.
  destruct (l_qual r) as [[w q0]|]; cbn [inner_ok] in *; andb_hyps; andb_goal; auto.
Qed.
Lemma set_archs_ok a r : forallb ident_text a = true -> lrel_ok r = true -> lrel_ok (a_set_archs a r) = true.
Proof.
  intros Ha H. pose proof (archs_new_ok a Ha) as Hg. unfold lrel_ok in *. andb_hyps. unfold a_set_archs.
  destruct (l_archs r) as [[w g0]|] eqn:Ea.
  - cbn [l_name l_qual l_ver l_archs l_profs l_trail inner_ok] in *. andb_hyps. andb_goal; auto.
  - destruct (l_profs r) as [|[w g] rest] eqn:Ep; cbn [l_name l_qual l_ver l_archs l_profs l_trail inner_ok forallb fst snd] in *.
    + andb_goal; auto. rewrite wsl_ok_app. now andb_goal.
    + andb_hyps. andb_goal; auto. rewrite wsl_ok_app. now andb_goal.
Qed.
Lemma add_profile_ok g r : forallb wf_profile g = true -> lrel_ok r = true -> lrel_ok (a_add_profile g r) = true.
Proof.
  intros Hp H. pose proof (profs_new_ok g Hp) as Hg. unfold lrel_ok in *. andb_hyps. unfold a_add_profile.
  destruct (l_profs r) as [|p0 ps] eqn:Ep; cbn [l_name l_qual l_ver l_archs l_profs l_trail forallb fst snd] in *.
  - andb_goal; auto. rewrite wsl_ok_app. now andb_goal.
  - andb_goal; auto. change (p0 :: ps ++ [([w_sp], profs_new g)]) with ((p0 :: ps) ++ [([w_sp], profs_new g)]).
    rewrite forallb_app. andb_goal; auto. cbn [forallb fst snd]. now rewrite Hg.
Qed.
Lemma with_trail_ok t r : wsl_ok t = true -> lrel_ok r = true -> lrel_ok (with_trail t r) = true.
Proof. intros Ht H. unfold lrel_ok in *. andb_hyps. cbn [with_trail l_name l_qual l_ver l_archs l_profs l_trail]. andb_goal; auto. Qed.
Lemma lrel_ok_trail r : lrel_ok r = true -> wsl_ok (l_trail r) = true.
Proof. intros H. unfold lrel_ok in H. now andb_hyps. Qed.

(* ------------------------------------------------------------------ entries *)
Definition alt_ok (a : wsl * wsl * lrel) : bool := wsl_ok (fst (fst a)) && wsl_ok (snd (fst a)) && lrel_ok (snd a).
Lemma lentry_ok_eq e : lentry_ok e = lrel_ok (e_first e) && forallb alt_ok (e_alts e) && wsl_ok (e_trail e).
Proof. reflexivity. Qed.

Lemma upd_rel_ok e j g : (forall r, lrel_ok r = true -> lrel_ok (g r) = true) -> lentry_ok e = true -> lentry_ok (upd_rel e j g) = true.
Proof.
  intros Hg H. rewrite lentry_ok_eq in *. andb_hyps. destruct j as [|j]; cbn [upd_rel e_first e_alts e_trail]; andb_goal; auto.
  clear H H0. revert j. induction (e_alts e) as [|a r IH]; intros j; [destruct j; reflexivity|].
  cbn [forallb] in H1. andb_hyps. destruct j as [|j]; cbn [upd_nth forallb].
  - andb_goal; auto. unfold alt_ok in *. cbn [fst snd]. andb_hyps. andb_goal; auto.
  - andb_goal; auto.
Qed.
Lemma epush_ok e r : lrel_ok r = true -> lentry_ok e = true -> lentry_ok (a_epush e r) = true.
Proof.
  intros Hr H. rewrite lentry_ok_eq in *. andb_hyps. cbn [a_epush e_first e_alts e_trail]. andb_goal; auto.
  rewrite forallb_app. andb_goal; auto. cbn [forallb]. unfold alt_ok. cbn [fst snd wsl_ok forallb]. now rewrite Hr.
Qed.
Lemma ereplace_ok e j r : lrel_ok r = true -> lentry_ok e = true -> lentry_ok (a_ereplace e j r) = true.
Proof.
  intros Hr H. unfold a_ereplace. apply upd_rel_ok; [|exact H]. intros r0 H0. apply with_trail_ok; [now apply lrel_ok_trail|exact Hr].
Qed.
Lemma forallb_firstn {A} (p : A -> bool) n l : forallb p l = true -> forallb p (firstn n l) = true.
Proof. revert n; induction l as [|x r IH]; intros [|n] H; cbn in *; auto. andb_hyps. andb_goal; auto. Qed.
Lemma forallb_skipn {A} (p : A -> bool) n l : forallb p l = true -> forallb p (skipn n l) = true.
Proof. revert n; induction l as [|x r IH]; intros [|n] H; cbn [skipn] in *; auto. cbn [forallb] in H. andb_hyps. auto. Qed.
Lemma remove_rel_ok e j e' : a_remove_rel e j = Some e' -> lentry_ok e = true -> lentry_ok e' = true.
Proof.
  intros Hr H. rewrite lentry_ok_eq in H. andb_hyps. unfold a_remove_rel in Hr. destruct j as [|j].
  - destruct (e_alts e) as [|[[w1 w2] r1] rest]; [discriminate|]. injection Hr as <-. cbn [forallb] in H1. andb_hyps.
    unfold alt_ok in H1. cbn [fst snd] in H1. andb_hyps. rewrite lentry_ok_eq. cbn [e_first e_alts e_trail]. andb_goal; auto.
  - injection Hr as <-. rewrite lentry_ok_eq. cbn [e_first e_alts e_trail]. andb_goal; auto.
    unfold remove_nth. rewrite forallb_app. andb_goal; [now apply forallb_firstn|now apply forallb_skipn].
Qed.

(* ------------------------------------------------------------------ the separators of the root *)
Fixpoint sep_run (need : bool) (l : lroot) : option bool :=
  match l with
  | [] => Some need
  | RW _ :: r => sep_run need r
  | RC :: r => sep_run false r
  | _ :: r => if need then None else sep_run true r
  end.
Lemma separated_run l : forall need, separated need l = match sep_run need l with Some _ => true | None => false end.
Proof.
  induction l as [|x r IH]; intros need; [reflexivity|]. destruct x; cbn [separated sep_run]; auto.
  - destruct need; cbn [negb andb]; auto.
  - destruct need; cbn [negb andb]; auto.
Qed.
Lemma sep_run_app a b : forall need, sep_run need (a ++ b) = match sep_run need a with Some s => sep_run s b | None => None end.
Proof.
  induction a as [|x r IH]; intros need; [reflexivity|]. destruct x; cbn [app sep_run]; auto; destruct need; auto.
Qed.
Lemma sep_run_item need x r : is_item x = true -> sep_run need (x :: r) = if need then None else sep_run true r.
Proof. destruct x; try discriminate; reflexivity. Qed.
Lemma sep_run_ws l : forall need, sep_run need (skipn (wlen l) l) = sep_run need l.
Proof. induction l as [|x r IH]; intros need; [reflexivity|]. destruct x; try reflexivity. cbn [wlen skipn sep_run]. apply IH. Qed.
Lemma sep_run_all_ws l need : forallb is_rw l = true -> sep_run need l = Some need.
Proof. induction l as [|x r IH]; [reflexivity|]. cbn [forallb]. intros H. andb_hyps. destruct x; try discriminate. cbn [sep_run]. auto. Qed.
Lemma firstn_wlen_ws l : forallb is_rw (firstn (wlen l) l) = true.
Proof. induction l as [|x r IH]; [reflexivity|]. destruct x; try reflexivity. cbn [wlen firstn forallb is_rw]. exact IH. Qed.
Lemma forallb_rev {A} (p : A -> bool) l : forallb p (rev l) = forallb p l.
Proof. induction l as [|x r IH]; [reflexivity|]. cbn [rev forallb]. rewrite forallb_app, IH. cbn [forallb]. rewrite andb_true_r. apply andb_comm. Qed.

(* the state after a layout, from what it ends with *)
Lemma sep_run_last l : forall need s, sep_run need l = Some s ->
  s = match hd_error (skipn (wlen (rev l)) (rev l)) with
      | None => need
      | Some RC => false
      | Some _ => true
      end.
Proof.
  induction l as [|x r IH] using rev_ind; intros need s H; [cbn in *; congruence|].
  rewrite sep_run_app in H. destruct (sep_run need r) as [s1|] eqn:E1; [|discriminate].
  rewrite rev_app_distr. cbn [rev app]. destruct x; cbn [sep_run] in H.
  - cbn [wlen skipn]. injection H as <-. now apply IH.
  - cbn [wlen skipn hd_error]. congruence.
  - cbn [wlen skipn hd_error]. destruct s1; congruence.
  - cbn [wlen skipn hd_error]. destruct s1; congruence.
Qed.
Lemma hd_skip_ws_not_rw l w : hd_error (skipn (wlen l) l) <> Some (RW w).
Proof. induction l as [|x r IH]; [discriminate|]. destruct x; try discriminate. exact IH. Qed.

(* which entry stands at a place does not matter *)
Lemma sep_run_entry pre e e' post need : sep_run need (pre ++ RE e :: post) = sep_run need (pre ++ RE e' :: post).
Proof. rewrite !sep_run_app. destruct (sep_run need pre); reflexivity. Qed.
Lemma sep_run_before_entry pre e post s : sep_run false (pre ++ RE e :: post) = Some s ->
  sep_run false pre = Some false /\ sep_run true post = Some s.
Proof.
  rewrite sep_run_app. destruct (sep_run false pre) as [[|]|]; cbn [sep_run]; try discriminate. auto.
Qed.

Lemma lwf_eq b l : lwf b l = forallb (relem_ok b) l && match sep_run false l with Some _ => true | None => false end.
Proof. unfold lwf. now rewrite separated_run. Qed.
Lemma lwf_split b l : lwf b l = true -> forallb (relem_ok b) l = true /\ exists s, sep_run false l = Some s.
Proof. rewrite lwf_eq. intros H. andb_hyps. split; [assumption|]. destruct (sep_run false l); [eauto|discriminate]. Qed.
Lemma lwf_intro b l s : forallb (relem_ok b) l = true -> sep_run false l = Some s -> lwf b l = true.
Proof. intros H1 H2. rewrite lwf_eq, H1, H2. reflexivity. Qed.

(* ------------------------------------------------------------------ insert / push / replace *)
Lemma insert_lwf b l idx e : lentry_ok e = true -> lwf b l = true -> lwf b (a_insert l idx e) = true.
Proof.
  intros He H. destruct (lwf_split _ _ H) as (Hok & s & Hs). unfold a_insert.
  destruct (nth_index is_re idx l) as [ci|] eqn:E.
  - destruct (nth_index_re_split _ _ _ E) as (pre & e0 & post & -> & <- & _).
    destruct (sep_run_before_entry _ _ _ _ Hs) as [Hp Hq]. rewrite insert_at_app_len.
    apply (lwf_intro _ _ s).
    + rewrite forallb_app in *. cbn [app forallb relem_ok] in *. andb_hyps. andb_goal; auto.
    + rewrite sep_run_app, Hp. cbn [app sep_run]. exact Hq.
  - pose proof (sep_run_last _ _ _ Hs) as Hl.
    destruct (hd_error (skipn (wlen (rev l)) (rev l))) as [x|] eqn:Eh.
    + destruct x as [w| |e0|body].
      * exfalso. eapply hd_skip_ws_not_rw. exact Eh.
      * subst s. destruct (wlen (rev l)).
        -- apply (lwf_intro _ _ true); [rewrite forallb_app, Hok; cbn; now rewrite He|]. now rewrite sep_run_app, Hs.
        -- apply (lwf_intro _ _ true); [rewrite forallb_app, Hok; cbn; now rewrite He|]. now rewrite sep_run_app, Hs.
      * apply (lwf_intro _ _ true); [rewrite forallb_app, Hok; cbn; now rewrite He|]. now rewrite sep_run_app, Hs.
      * apply (lwf_intro _ _ true); [rewrite forallb_app, Hok; cbn; now rewrite He|]. now rewrite sep_run_app, Hs.
    + subst s. apply (lwf_intro _ _ true); [rewrite forallb_app, Hok; cbn; now rewrite He|]. now rewrite sep_run_app, Hs.
Qed.

Lemma replace_entry_lwf b pre e post e' : lentry_ok e' = true -> lwf b (pre ++ RE e :: post) = true ->
  lwf b (replace_at (length pre) (RE e') (pre ++ RE e :: post)) = true.
Proof.
  intros He H. destruct (lwf_split _ _ H) as (Hok & s & Hs). rewrite replace_at_split. apply (lwf_intro _ _ s).
  - rewrite forallb_app in *. cbn [forallb relem_ok] in *. andb_hyps. andb_goal; auto.
  - now rewrite (sep_run_entry pre e' e post).
Qed.

(* ------------------------------------------------------------------ Entry::remove *)
Lemma sep_prefix a b need s : sep_run need (a ++ b) = Some s -> exists s', sep_run need a = Some s'.
Proof. rewrite sep_run_app. destruct (sep_run need a); [eauto|discriminate]. Qed.

Lemma remove_at_lwf b pre e post : lwf b (pre ++ RE e :: post) = true ->
  exists l', a_remove_at (pre ++ RE e :: post) (length pre) = Some l' /\ lwf b l' = true.
Proof.
  intros H. destruct (lwf_split _ _ H) as (Hok & s & Hs). destruct (sep_run_before_entry _ _ _ _ Hs) as [Hp Hq].
  rewrite forallb_app in Hok. cbn [forallb] in Hok. andb_hyps. rename H0 into Hokp. rename H2 into Hokq.
  unfold a_remove_at. rewrite firstn_app_len, skipn_S_app_len.
  rewrite <- (sep_run_ws post) in Hq.
  (* what follows the entry *)
  assert (Hk : exists k1 rc, (match skipn (wlen post) post with [] => Some (wlen post, false) | RC :: _ => Some (S (wlen post), true) | _ => None end)
                              = Some (k1, rc) /\
                             forallb (relem_ok b) (skipn k1 post) = true /\
                             sep_run false (skipn k1 post) = Some (if rc then s else false) /\
                             (rc = false -> skipn k1 post = [])).
  { destruct (skipn (wlen post) post) as [|x r] eqn:E.
    - exists (wlen post), false. rewrite E. repeat split; auto.
    - destruct x as [w| |e0|body]; cbn [sep_run] in Hq; try discriminate.
      + exfalso. apply (hd_skip_ws_not_rw post w). now rewrite E.
      + exists (S (wlen post)), true. rewrite (skipn_S_of _ _ _ _ E). repeat split; auto; [|discriminate].
        pose proof (forallb_skipn (relem_ok b) (wlen post) post Hokq) as Hr. rewrite E in Hr. cbn [forallb] in Hr. now andb_hyps. }
  destruct Hk as (k1 & rc & -> & HokR & HsR & HnilR).
  set (R := skipn k1 post) in *.
  destruct (negb (existsb is_item pre)).
  - eexists. split; [reflexivity|]. apply (lwf_intro _ _ (if rc then s else false)).
    + rewrite forallb_app. andb_goal; auto. now apply forallb_skipn.
    + now rewrite sep_run_app, Hp, sep_run_ws.
  - eexists. split; [reflexivity|].
    set (rp := rev pre). set (m := wlen rp).
    (* the white space at the end of pre does not count *)
    assert (Hm : sep_run false (firstn (length pre - m) pre) = Some false).
    { rewrite <- (firstn_skipn (length pre - m) pre) in Hp. rewrite sep_run_app in Hp.
      destruct (sep_run false (firstn (length pre - m) pre)) as [s1|] eqn:E1; [|discriminate].
      rewrite sep_run_all_ws in Hp; [congruence|].
      replace (skipn (length pre - m) pre) with (rev (firstn m rp)).
      - rewrite forallb_rev. apply firstn_wlen_ws.
      - unfold rp. rewrite firstn_rev, rev_involutive. reflexivity. }
    destruct (skipn m rp) as [|x r] eqn:E2.
    + apply (lwf_intro _ _ (if rc then s else false)); [rewrite forallb_app; andb_goal; auto; now apply forallb_firstn|].
      now rewrite sep_run_app, Hm.
    + destruct x as [w| |e0|body];
        try (apply (lwf_intro _ _ (if rc then s else false)); [rewrite forallb_app; andb_goal; auto; now apply forallb_firstn|];
             now rewrite sep_run_app, Hm).
      destruct rc.
      * apply (lwf_intro _ _ s); [rewrite forallb_app; andb_goal; auto; now apply forallb_firstn|].
        now rewrite sep_run_app, Hm.
      * rewrite (HnilR eq_refl), app_nil_r.
        destruct (sep_prefix (firstn (length pre - S m) pre) (skipn (length pre - S m) pre) false false) as (s' & Hs').
        { now rewrite firstn_skipn. }
        apply (lwf_intro _ _ s'); [now apply forallb_firstn|exact Hs'].
Qed.

(* ------------------------------------------------------------------ every operation *)
Lemma entry_at_ok b pre e post : forallb (relem_ok b) (pre ++ RE e :: post) = true -> lentry_ok e = true.
Proof. rewrite forallb_app. cbn [forallb relem_ok]. intros H. now andb_hyps. Qed.
Lemma nth_index_re_lt l i : i < length (lentries l) -> exists ci, nth_index is_re i l = Some ci.
Proof.
  intros H. destruct (nth_error (lentries l) i) as [e|] eqn:E; [|apply nth_error_None in E; lia].
  destruct (nth_error_entries_some _ _ _ E) as (pre & post & -> & <-). exists (length pre). apply nth_index_re_at.
Qed.
Lemma operand_lentry_ok e : negb (match e with [] => true | _ => false end) && forallb wf_relrec e = true ->
  exists le, operand_lentry e = Some le /\ lentry_ok le = true.
Proof. destruct e as [|r rs]; [discriminate|]. cbn [negb andb]. intros H. exists (lentry_new r rs). split; [reflexivity|now apply lentry_new_ok]. Qed.

Lemma on_relation_lwf b l i j g : (forall r, lrel_ok r = true -> lrel_ok (g r) = true) ->
  lwf b l = true -> match nth_error (lentries l) i with Some e => j <? n_rels e | None => false end = true ->
  exists l', a_on_relation l i j g = Some l' /\ lwf b l' = true.
Proof.
  intros Hg H Hr. destruct (nth_error (lentries l) i) as [e|] eqn:E; [|discriminate].
  destruct (nth_error_entries_some _ _ _ E) as (pre & post & -> & <-).
  unfold a_on_relation. rewrite nth_entry_at, Hr. eexists. split; [reflexivity|].
  apply replace_entry_lwf; [|exact H]. apply upd_rel_ok; [exact Hg|].
  destruct (lwf_split _ _ H) as (Hok & _). now apply (entry_at_ok b pre e post).
Qed.
Lemma rel_range l i j : rel_in_range (map lentry_content (lentries l)) i j = true ->
  match nth_error (lentries l) i with Some e => j <? n_rels e | None => false end = true.
Proof.
  unfold rel_in_range. destruct (nth_error (lentries l) i) as [e|] eqn:E; [now rewrite (map_nth_error _ _ _ E), length_content|].
  rewrite (proj2 (nth_error_None (map lentry_content (lentries l)) i)); [discriminate|]. rewrite map_length. now apply nth_error_None.
Qed.

Theorem a_op_lwf b o l : lwf b l = true -> operands_ok o = true -> x_in_range (fst (lcontent l)) o = true ->
  exists l', a_op o l = Some l' /\ lwf b l' = true.
Proof.
  unfold operands_ok, x_in_range. intros H Ho Hr. rewrite lcontent_entries in Hr. cbn [fst] in Hr.
  destruct o; cbn [a_op wf_operands aop_in_range] in *; rewrite ?map_length in Hr.
  - destruct (operand_lentry_ok e Ho) as (le & -> & Hle). cbn [option_map]. eexists. split; [reflexivity|]. now apply insert_lwf.
  - destruct (operand_lentry_ok e Ho) as (le & -> & Hle). cbn [option_map]. eexists. split; [reflexivity|]. now apply insert_lwf.
  - destruct (operand_lentry_ok e Ho) as (le & -> & Hle).
    apply Nat.ltb_lt in Hr. destruct (nth_index_re_lt l i Hr) as (ci & Hci). unfold a_replace. rewrite Hci.
    eexists. split; [reflexivity|]. destruct (nth_index_re_split _ _ _ Hci) as (pre & e0 & post & -> & <- & _).
    now apply replace_entry_lwf.
  - apply Nat.ltb_lt in Hr. destruct (nth_index_re_lt l i Hr) as (ci & Hci). unfold a_remove_entry. rewrite Hci.
    destruct (nth_index_re_split _ _ _ Hci) as (pre & e0 & post & -> & <- & _). now apply remove_at_lwf.
  - apply Nat.ltb_lt in Hr. destruct (nth_error (lentries l) i) as [e|] eqn:E; [|apply nth_error_None in E; lia].
    destruct (nth_error_entries_some _ _ _ E) as (pre & post & -> & <-).
    unfold a_on_entry. rewrite nth_entry_at. eexists. split; [reflexivity|].
    apply replace_entry_lwf; [|exact H]. destruct (lwf_split _ _ H) as (Hok & _).
    apply epush_ok; [now apply lrel_new_ok|now apply (entry_at_ok b pre e post)].
  - apply rel_range in Hr. destruct (nth_error (lentries l) i) as [e|] eqn:E; [|discriminate].
    destruct (nth_error_entries_some _ _ _ E) as (pre & post & -> & <-). rewrite nth_entry_at, Hr.
    eexists. split; [reflexivity|]. apply replace_entry_lwf; [|exact H]. destruct (lwf_split _ _ H) as (Hok & _).
    apply ereplace_ok; [now apply lrel_new_ok|now apply (entry_at_ok b pre e post)].
  - apply rel_range in Hr. destruct (nth_error (lentries l) i) as [e|] eqn:E; [|discriminate].
    destruct (nth_error_entries_some _ _ _ E) as (pre & post & -> & <-). unfold a_remove_relation. rewrite nth_entry_at, Hr.
    destruct (a_remove_rel e j) as [e'|] eqn:Er.
    + eexists. split; [reflexivity|]. apply replace_entry_lwf; [|exact H]. destruct (lwf_split _ _ H) as (Hok & _).
      eapply remove_rel_ok; [exact Er|now apply (entry_at_ok b pre e post)].
    + now apply remove_at_lwf.
  - apply on_relation_lwf; auto using rel_range. intros r. apply set_version_ok. destruct v as [[vc ver]|]; auto.
  - apply on_relation_lwf; auto using rel_range. intros r. now apply set_version_ok.
  - apply on_relation_lwf; auto using rel_range. intros r. now apply set_archqual_ok.
  - andb_hyps. apply on_relation_lwf; auto using rel_range. intros r. now apply set_archs_ok.
  - andb_hyps. apply on_relation_lwf; auto using rel_range. intros r. now apply add_profile_ok.
Qed.
