(* Lemmas about RelLive.v (C11), part 1: the pure tree functions of the editing operations
   (RelEditTree.v), evaluated on the tree of a live layout, give the tree of the layout the
   abstract operation produces:  t_op o (ltree l) = Ok (ltree l')  whenever  a_op o l = Some l'. *)
From V.model Require Import Base RelLex RelParse RelAcc RelGrammar.
From V.model Require Import RelEdit RelEditSpec RelEditTree RelLive.
From V.proofs Require Import BaseP RelEditP RelEditTreeP.
Set Default Timeout 60.

Notation rt := relem_tree.

(* ------------------------------------------------------------------ kinds of the elements *)
Lemma ws_elem_wtree w : ws_elem (wtree w) = true.
Proof. destruct w as [[|] s]; reflexivity. Qed.
Lemma is_entry_wtree w : is_entry (wtree w) = false.
Proof. destruct w as [[|] s]; reflexivity. Qed.
Lemma is_relation_wtree w : is_relation (wtree w) = false.
Proof. destruct w as [[|] s]; reflexivity. Qed.
Lemma kind_wtree k w : is_ws_kind k = false -> kind_is k (wtree w) = false.
Proof. destruct w as [[|] s]; destruct k; cbn; intros H; try discriminate; reflexivity. Qed.
Lemma node_is_wtree k w : node_is k (wtree w) = false.
Proof. destruct w as [[|] s]; reflexivity. Qed.

Lemma ws_elem_rt x : ws_elem (rt x) = is_rw x.
Proof. destruct x; try reflexivity. apply ws_elem_wtree. Qed.
Lemma is_entry_rt x : is_entry (rt x) = is_re x.
Proof. destruct x; try reflexivity. apply is_entry_wtree. Qed.
Lemma is_comma_rt x : kind_is COMMA (rt x) = is_rc x.
Proof. destruct x; try reflexivity. now apply kind_wtree. Qed.
Lemma is_item_rt x : is_entry (rt x) || node_is SUBSTVAR (rt x) = is_item x.
Proof. destruct x; try reflexivity. cbn [relem_tree]. now rewrite is_entry_wtree, node_is_wtree. Qed.

(* ------------------------------------------------------------------ list functions through map *)
Lemma nth_index_map {A B} (f : A -> B) (p : B -> bool) (q : A -> bool) n l :
  (forall x, p (f x) = q x) -> nth_index p n (map f l) = nth_index q n l.
Proof.
  intros H. revert n; induction l as [|x r IH]; intros n; [reflexivity|]. cbn [map nth_index].
  rewrite H. destruct (q x); [destruct n|]; now rewrite ?IH.
Qed.
Lemma find_index_map {A B} (f : A -> B) (p : B -> bool) (q : A -> bool) l :
  (forall x, p (f x) = q x) -> find_index p (map f l) = find_index q l.
Proof. intros H. induction l as [|x r IH]; [reflexivity|]. cbn [map find_index]. rewrite H. now rewrite IH. Qed.
Lemma last_index_map {A B} (f : A -> B) (p : B -> bool) (q : A -> bool) l :
  (forall x, p (f x) = q x) -> last_index p (map f l) = last_index q l.
Proof. intros H. induction l as [|x r IH]; [reflexivity|]. cbn [map last_index]. rewrite H. now rewrite IH. Qed.
Lemma existsb_map {A B} (f : A -> B) (p : B -> bool) (q : A -> bool) l :
  (forall x, p (f x) = q x) -> existsb p (map f l) = existsb q l.
Proof. intros H. induction l as [|x r IH]; [reflexivity|]. cbn. now rewrite H, IH. Qed.
Lemma count_if_map {A B} (f : A -> B) (p : B -> bool) (q : A -> bool) l :
  (forall x, p (f x) = q x) -> count_if p (map f l) = count_if q l.
Proof.
  intros H. unfold count_if. induction l as [|x r IH]; [reflexivity|]. cbn [map filter]. rewrite H.
  destruct (q x); cbn [length]; now rewrite IH.
Qed.
Lemma ws_prefix_len_rt l : ws_prefix_len (map rt l) = wlen l.
Proof.
  induction l as [|x r IH]; [reflexivity|]. cbn [map ws_prefix_len wlen]. rewrite ws_elem_rt.
  destruct x; cbn [is_rw]; try reflexivity. now rewrite IH.
Qed.
Lemma insert_at_map {A B} (f : A -> B) i new l : map f (insert_at i new l) = insert_at i (map f new) (map f l).
Proof. unfold insert_at. now rewrite !map_app, firstn_map, skipn_map. Qed.
Lemma replace_at_map {A B} (f : A -> B) i x l : map f (replace_at i x l) = replace_at i (f x) (map f l).
Proof. unfold replace_at. rewrite map_app. cbn [map]. now rewrite firstn_map, skipn_map. Qed.

(* ------------------------------------------------------------------ Relations::insert / push / replace *)
Lemma last_significant_rt l :
  last_significant (map rt l) = (option_map rt (hd_error (skipn (wlen (rev l)) (rev l))), wlen (rev l)).
Proof.
  unfold last_significant. rewrite <- map_rev, ws_prefix_len_rt, skipn_map.
  destruct (skipn (wlen (rev l)) (rev l)); reflexivity.
Qed.

Lemma insert_commute l idx e :
  relations_insert_green fixed (ltree l) idx (lentry_tree e) = ltree (a_insert l idx e).
Proof.
  unfold relations_insert_green, ltree, a_insert, insert_plan. cbn [children set_children ekind].
  rewrite (nth_index_map rt is_entry is_re) by apply is_entry_rt.
  destruct (nth_index is_re idx l) as [ci|].
  - cbn [fx_insert_first fixed negb andb]. now rewrite insert_at_map.
  - cbn [fx_append_sep fixed]. rewrite last_significant_rt, map_length.
    destruct (hd_error (skipn (wlen (rev l)) (rev l))) as [x|]; cbn [option_map].
    + rewrite is_comma_rt. destruct x; cbn [is_rc];
        try (rewrite insert_at_end by (rewrite map_length; lia); now rewrite map_app).
      destruct (wlen (rev l)); rewrite insert_at_end by (rewrite map_length; lia); now rewrite map_app.
    + rewrite insert_at_end by (rewrite map_length; lia). now rewrite map_app.
Qed.
Lemma push_commute l e :
  relations_insert_green fixed (ltree l) (count_if is_entry (children (ltree l))) (lentry_tree e) = ltree (a_push l e).
Proof.
  unfold a_push. rewrite <- insert_commute. f_equal. unfold ltree. cbn [children].
  apply count_if_map, is_entry_rt.
Qed.
Lemma entry_pos_ltree l idx : entry_pos (ltree l) idx = nth_index is_re idx l.
Proof. unfold entry_pos, ltree. cbn [children]. apply nth_index_map, is_entry_rt. Qed.

(* ------------------------------------------------------------------ Entry::remove *)
Lemma remove_at_commute l ci :
  entry_remove_cs fixed (map rt l) ci =
  match a_remove_at l ci with Some l' => Ok (map rt l') | None => Panic 42 end.
Proof.
  unfold entry_remove_cs, a_remove_at, entry_remove_scan_next, entry_remove_scan_prev.
  rewrite firstn_map, skipn_map. set (pre := firstn ci l). set (post := skipn (S ci) l).
  rewrite ws_prefix_len_rt, skipn_map.
  assert (Ef : existsb (fun c => is_entry c || (fx_first_substvar fixed && node_is SUBSTVAR c)) (map rt pre)
               = existsb is_item pre).
  { apply existsb_map. intros x. cbn [fx_first_substvar fixed andb]. apply is_item_rt. }
  rewrite Ef.
  assert (Hprev : forall rc,
    (let rp := rev (map rt pre) in let n := ws_prefix_len rp in
     match skipn n rp with
     | c :: _ => if negb rc && kind_is COMMA c then S n else n
     | [] => n
     end) =
    (let rp := rev pre in let m := wlen rp in
     match skipn m rp with RC :: _ => if rc then m else S m | _ => m end)).
  { intros rc. cbv zeta. rewrite <- map_rev, ws_prefix_len_rt, skipn_map.
    destruct (skipn (wlen (rev pre)) (rev pre)) as [|y r']; [reflexivity|]. cbn [map]. rewrite is_comma_rt.
    destruct y, rc; reflexivity. }
  destruct (skipn (wlen post) post) as [|x r] eqn:E.
  - cbn [map]. destruct (negb (existsb is_item pre)).
    + rewrite !skipn_map, ws_prefix_len_rt, ?skipn_map. now rewrite map_app.
    + cbv zeta in Hprev. rewrite (Hprev false). rewrite ?skipn_map, ?firstn_map. now rewrite map_app.
  - cbn [map]. rewrite is_comma_rt. destruct x; cbn [is_rc]; try reflexivity.
    destruct (negb (existsb is_item pre)).
    + rewrite !skipn_map, ws_prefix_len_rt, ?skipn_map. now rewrite map_app.
    + cbv zeta in Hprev. rewrite (Hprev true). rewrite ?skipn_map, ?firstn_map. now rewrite map_app.
Qed.

Lemma remove_entry_commute l idx l' : a_remove_entry l idx = Some l' ->
  t_op (ARemoveEntry idx) (ltree l) = Ok (ltree l').
Proof.
  unfold a_remove_entry. cbn [t_op]. rewrite entry_pos_ltree.
  destruct (nth_index is_re idx l) as [ci|]; [|discriminate]. intros H.
  unfold t_remove_entry_at, ltree. cbn [children]. rewrite remove_at_commute, H. reflexivity.
Qed.
Lemma replace_commute l idx e l' : a_replace l idx e = Some l' ->
  match entry_pos (ltree l) idx with
  | Some ci => Ok (set_children (replace_at ci (lentry_tree e) (children (ltree l))) (ltree l))
  | None => Panic 40
  end = Ok (ltree l').
Proof.
  unfold a_replace. rewrite entry_pos_ltree. destruct (nth_index is_re idx l) as [ci|]; [|discriminate].
  intros [= <-]. unfold ltree. cbn [children set_children ekind]. now rewrite replace_at_map.
Qed.

(* ------------------------------------------------------------------ searching the children of a relation *)
Lemma find_index_none {A} (p : A -> bool) l : Forall (fun x => p x = false) l -> find_index p l = None.
Proof. induction 1 as [|x r Hx _ IH]; [reflexivity|]. cbn. now rewrite Hx, IH. Qed.
Lemma find_index_app_none {A} (p : A -> bool) a b : Forall (fun x => p x = false) a ->
  find_index p (a ++ b) = option_map (fun i => length a + i) (find_index p b).
Proof.
  induction 1 as [|x r Hx _ IH]; cbn [app length].
  - destruct (find_index p b); reflexivity.
  - cbn [find_index]. rewrite Hx, IH. destruct (find_index p b); reflexivity.
Qed.
Lemma find_index_here {A} (p : A -> bool) x b : p x = true -> find_index p (x :: b) = Some 0.
Proof. intros H. cbn. now rewrite H. Qed.
Lemma last_index_none {A} (p : A -> bool) l : Forall (fun x => p x = false) l -> last_index p l = None.
Proof. induction 1 as [|x r Hx _ IH]; [reflexivity|]. cbn. now rewrite IH, Hx. Qed.
Lemma last_index_app_none {A} (p : A -> bool) a b : Forall (fun x => p x = false) b ->
  last_index p (a ++ b) = last_index p a.
Proof.
  intros H. induction a as [|x r IH]; cbn [app last_index]; [now apply last_index_none|]. now rewrite IH.
Qed.
Lemma last_index_snoc {A} (p : A -> bool) a x : p x = true -> last_index p (a ++ [x]) = Some (length a).
Proof.
  intros H. induction a as [|y r IH]; cbn [app last_index length]; [now rewrite H|]. now rewrite IH.
Qed.

Lemma Forall_wtrees (p : rtree -> bool) w : (forall t, p (wtree t) = false) -> Forall (fun x => p x = false) (wtrees w).
Proof. intros H. unfold wtrees. induction w; cbn; constructor; auto. Qed.
Lemma ws_prefix_len_wtrees w rest : ws_prefix_len (wtrees w ++ rest) = length w + ws_prefix_len rest.
Proof. induction w as [|t r IH]; [reflexivity|]. cbn [wtrees map app ws_prefix_len length]. rewrite ws_elem_wtree. fold (wtrees r). rewrite IH. reflexivity. Qed.
Lemma ws_prefix_len_wtrees_all w : ws_prefix_len (wtrees w) = length w.
Proof. rewrite <- (app_nil_r (wtrees w)), ws_prefix_len_wtrees. cbn. lia. Qed.
Lemma wtrees_app a b : wtrees (a ++ b) = wtrees a ++ wtrees b.
Proof. apply map_app. Qed.
Lemma wtrees_length w : length (wtrees w) = length w.
Proof. apply map_length. Qed.
Lemma rev_wtrees w : rev (wtrees w) = wtrees (rev w).
Proof. unfold wtrees. now rewrite map_rev. Qed.

(* no part of a relation is a node of a kind it is not *)
Lemma Forall_part {A} (p : rtree -> bool) (f : A -> rtree) o :
  (forall t, p (wtree t) = false) -> (forall a, p (f a) = false) -> Forall (fun x => p x = false) (part f o).
Proof.
  intros Hw Hf. destruct o as [[w a]|]; cbn [part]; [|constructor].
  apply Forall_app. split; [now apply Forall_wtrees|]. constructor; [apply Hf|constructor].
Qed.
Lemma Forall_profs (p : rtree -> bool) ps :
  (forall t, p (wtree t) = false) -> (forall g, p (prof_node g) = false) ->
  Forall (fun x => p x = false) (flat_map prof_part ps).
Proof.
  intros Hw Hf. induction ps as [|[w g] r IH]; cbn [flat_map prof_part fst snd]; [constructor|].
  apply Forall_app. split; [|exact IH]. apply Forall_app. split; [now apply Forall_wtrees|].
  constructor; [apply Hf|constructor].
Qed.
Ltac not_kind :=
  repeat first
    [ apply Forall_nil
    | apply Forall_app; split
    | apply Forall_wtrees; intros; apply node_is_wtree
    | apply Forall_part; intros; try apply node_is_wtree; reflexivity
    | apply Forall_profs; intros; try apply node_is_wtree; reflexivity
    | apply Forall_cons; [reflexivity|] ].

Lemma archqual_is_qual q : archqual_node q = qual_node (qual_new q).
Proof. reflexivity. Qed.
Lemma version_is_vnode vc ver : version_node vc ver = vnode (vclause_new vc ver).
Proof. destruct vc; reflexivity. Qed.

(* ------------------------------------------------------------------ set_archqual *)
Lemma set_archqual_commute q r : set_archqual_cs q (lrel_children r) = lrel_children (a_set_archqual q r).
Proof.
  unfold set_archqual_cs, lrel_children, a_set_archqual. destruct r as [n oq ov oa ps tr]. cbn [l_name l_qual l_ver l_archs l_profs l_trail].
  destruct oq as [[w q0]|]; cbn [part].
  - assert (E : find_index (node_is ARCHQUAL)
                  (Tok IDENT n :: (wtrees w ++ [qual_node q0]) ++ part vnode ov ++ part arch_node oa ++ flat_map prof_part ps ++ wtrees tr)
                = Some (S (length (wtrees w)))).
    { cbn [find_index]. change (node_is ARCHQUAL (Tok IDENT n)) with false. cbn iota.
      rewrite <- app_assoc. rewrite find_index_app_none by (apply Forall_wtrees; intros; apply node_is_wtree).
      cbn [app find_index]. change (node_is ARCHQUAL (qual_node q0)) with true. cbn. f_equal. lia. }
    rewrite E. set (R := part vnode ov ++ part arch_node oa ++ flat_map prof_part ps ++ wtrees tr).
    assert (Ecs : Tok IDENT n :: (wtrees w ++ [qual_node q0]) ++ R = (Tok IDENT n :: wtrees w) ++ qual_node q0 :: R)
      by (cbn [app]; now rewrite <- app_assoc).
    rewrite Ecs. change (S (length (wtrees w))) with (length (Tok IDENT n :: wtrees w)).
    rewrite replace_at_split. cbn [app]. rewrite <- app_assoc. now rewrite archqual_is_qual.
  - assert (E : find_index (node_is ARCHQUAL)
                  (Tok IDENT n :: [] ++ part vnode ov ++ part arch_node oa ++ flat_map prof_part ps ++ wtrees tr) = None).
    { apply find_index_none. cbn [app]. apply Forall_cons; [reflexivity|]. not_kind. }
    rewrite E. unfold after_name. cbn [find_index]. change (kind_is IDENT (Tok IDENT n)) with true. cbn iota.
    unfold insert_at. cbn [firstn skipn app wtrees map]. now rewrite archqual_is_qual.
Qed.

(* ------------------------------------------------------------------ finding / replacing / dropping one part *)
Lemma find_part {A} (p : rtree -> bool) (f : A -> rtree) pre w a post :
  Forall (fun x => p x = false) pre -> (forall t, p (wtree t) = false) -> p (f a) = true ->
  find_index p (pre ++ part f (Some (w, a)) ++ post) = Some (length pre + length w).
Proof.
  intros Hpre Hw Hf. rewrite find_index_app_none by exact Hpre. cbn [part]. rewrite <- app_assoc.
  rewrite find_index_app_none by now apply Forall_wtrees. cbn [app find_index]. rewrite Hf. cbn.
  now rewrite wtrees_length, Nat.add_0_r.
Qed.
Lemma replace_part {A} (f : A -> rtree) pre w a post y :
  replace_at (length pre + length w) y (pre ++ part f (Some (w, a)) ++ post) = pre ++ (wtrees w ++ [y]) ++ post.
Proof.
  cbn [part]. rewrite <- (wtrees_length w), <- app_length.
  replace (pre ++ (wtrees w ++ [f a]) ++ post) with ((pre ++ wtrees w) ++ f a :: post)
    by (rewrite <- !app_assoc; reflexivity).
  rewrite replace_at_split. now rewrite <- !app_assoc.
Qed.

Lemma lrel_children_eq r : lrel_children r =
  [Tok IDENT (l_name r)] ++ part qual_node (l_qual r) ++ part vnode (l_ver r) ++ part arch_node (l_archs r)
  ++ flat_map prof_part (l_profs r) ++ wtrees (l_trail r).
Proof. reflexivity. Qed.

(* the children in front of the version clause never end in white space *)
Lemma ws_tail_head n (oq : option (wsl * qual)) :
  ws_prefix_len (rev ([Tok IDENT n] ++ part qual_node oq)) = 0.
Proof.
  destruct oq as [[w q]|]; cbn [part]; [|reflexivity].
  rewrite app_assoc, rev_app_distr. reflexivity.
Qed.

Lemma set_version_commute v r : set_version_cs v (lrel_children r) = lrel_children (a_set_version v r).
Proof.
  rewrite !lrel_children_eq. destruct r as [n oq ov oa ps tr].
  unfold a_set_version. cbn [l_name l_qual l_ver l_archs l_profs l_trail].
  set (A := [Tok IDENT n] ++ part qual_node oq).
  set (B := part arch_node oa ++ flat_map prof_part ps ++ wtrees tr).
  assert (HA : Forall (fun x => node_is VERSION x = false) A) by (unfold A; not_kind).
  assert (HB : Forall (fun x => node_is VERSION x = false) B) by (unfold B; not_kind).
  assert (Ecs : forall ov', [Tok IDENT n] ++ part qual_node oq ++ part vnode ov' ++ part arch_node oa ++ flat_map prof_part ps ++ wtrees tr
                = A ++ part vnode ov' ++ B) by (intros; unfold A, B; now rewrite <- !app_assoc).
  rewrite !Ecs.
  destruct v as [[vc ver]|]; cbn [set_version_cs].
  - destruct ov as [[w v0]|].
    + rewrite (find_part (node_is VERSION) vnode A w v0 B HA (fun t => node_is_wtree VERSION t) eq_refl).
      rewrite replace_part. cbn [part]. now rewrite version_is_vnode.
    + cbn [part app]. rewrite (find_index_none _ (A ++ B)) by (apply Forall_app; split; assumption).
      assert (Ep : version_pos fixed (A ++ B) = length A).
      { unfold version_pos. cbn [fx_version_pos fixed]. unfold A.
        destruct oq as [[w q]|]; cbn [part].
        - rewrite <- !app_assoc. cbn [app find_index]. change (node_is ARCHQUAL (Tok IDENT n)) with false. cbn iota.
          rewrite find_index_app_none by (apply Forall_wtrees; intros; apply node_is_wtree).
          cbn [app find_index]. change (node_is ARCHQUAL (qual_node q)) with true. cbn.
          rewrite app_length, wtrees_length. cbn [length]. lia.
        - cbn [app]. rewrite (find_index_none (node_is ARCHQUAL)) by (apply Forall_cons; [reflexivity|]; unfold B; not_kind).
          reflexivity. }
      rewrite Ep, insert_at_app_len. cbn [part wtrees map wtree w_sp app]. now rewrite version_is_vnode.
  - unfold drop_constraint_cs. destruct ov as [[w v0]|].
    + rewrite (find_part (node_is VERSION) vnode A w v0 B HA (fun t => node_is_wtree VERSION t) eq_refl).
      cbn [part]. replace (A ++ (wtrees w ++ [vnode v0]) ++ B) with ((A ++ wtrees w) ++ vnode v0 :: B)
        by (rewrite <- !app_assoc; reflexivity).
      rewrite <- (wtrees_length w), <- app_length. rewrite firstn_app_len, skipn_S_app_len.
      rewrite rev_app_distr, rev_wtrees, ws_prefix_len_wtrees. unfold A at 2. rewrite ws_tail_head.
      rewrite app_length, rev_length, Nat.add_0_r.
      replace (length A + length (wtrees w) - length w) with (length A) by (rewrite wtrees_length; lia).
      rewrite <- app_assoc. rewrite firstn_app_len. reflexivity.
    + cbn [part app]. now rewrite (find_index_none _ (A ++ B)) by (apply Forall_app; split; assumption).
Qed.

(* ------------------------------------------------------------------ set_architectures / add_profile *)
Lemma arch_toks_terms i l :
  arch_toks i l = elems (flat_map term_toks (terms_new i l)).
Proof.
  revert i; induction l as [|a r IH]; intros i; [reflexivity|].
  cbn [arch_toks terms_new flat_map]. unfold elems in *. rewrite map_app, <- IH.
  destruct i; reflexivity.
Qed.
Lemma architectures_is_arch_node a : architectures_node a = arch_node (archs_new a).
Proof.
  unfold architectures_node, arch_node, group_node, group_body_toks, archs_new. cbn [g_terms g_ws1 ws_toks app].
  unfold elems at 1. cbn [map tk fst snd]. f_equal. f_equal. fold (elems (flat_map term_toks (terms_new 0 a) ++ [(R_BRACKET, [93%N])])).
  unfold elems. rewrite map_app. cbn [map tk fst snd]. f_equal. apply arch_toks_terms.
Qed.
Lemma profile_toks_terms i l :
  profile_toks i l = elems (flat_map term_toks (pterms_new i l)).
Proof.
  revert i; induction l as [|p r IH]; intros i; [reflexivity|].
  cbn [profile_toks pterms_new flat_map]. unfold elems in *. rewrite map_app, <- IH.
  destruct i; destruct p; reflexivity.
Qed.
Lemma profiles_is_prof_node g : profiles_node g = prof_node (profs_new g).
Proof.
  unfold profiles_node, prof_node, group_node, group_body_toks, profs_new. cbn [g_terms g_ws1 ws_toks app].
  unfold elems at 1. cbn [map tk fst snd]. f_equal. f_equal.
  unfold elems. rewrite map_app. cbn [map tk fst snd]. f_equal. apply profile_toks_terms.
Qed.

Lemma lrel_children_split n oq ov oa ps tr :
  lrel_children (mk_lrel n oq ov oa ps tr) =
  ([Tok IDENT n] ++ part qual_node oq ++ part vnode ov) ++ part arch_node oa ++ (flat_map prof_part ps ++ wtrees tr).
Proof. rewrite lrel_children_eq. cbn [l_name l_qual l_ver l_archs l_profs l_trail]. now rewrite <- !app_assoc. Qed.

Lemma set_archs_commute a r : set_architectures_cs a (lrel_children r) = lrel_children (a_set_archs a r).
Proof.
  destruct r as [n oq ov oa ps tr]. unfold a_set_archs, set_architectures_cs. cbn [l_name l_qual l_ver l_archs l_profs l_trail].
  rewrite (lrel_children_split n oq ov oa ps tr).
  set (A := [Tok IDENT n] ++ part qual_node oq ++ part vnode ov).
  assert (HA : Forall (fun x => node_is ARCHITECTURES x = false) A) by (unfold A; not_kind).
  assert (HAp : Forall (fun x => node_is PROFILES x = false) A) by (unfold A; not_kind).
  destruct oa as [[w g0]|].
  - set (B := flat_map prof_part ps ++ wtrees tr).
    rewrite (find_part (node_is ARCHITECTURES) arch_node A w g0 B HA (fun t => node_is_wtree ARCHITECTURES t) eq_refl).
    rewrite replace_part. rewrite lrel_children_split. fold A B. cbn [part].
    now rewrite architectures_is_arch_node.
  - cbn [part app].
    assert (Hnone : find_index (node_is ARCHITECTURES) (A ++ flat_map prof_part ps ++ wtrees tr) = None).
    { apply find_index_none. apply Forall_app. split; [exact HA|]. not_kind. }
    rewrite Hnone. unfold architectures_pos.
    destruct ps as [|[w g] rest].
    + cbn [flat_map app].
      rewrite (find_index_none (node_is PROFILES)) by (apply Forall_app; split; [exact HAp|not_kind]).
      rewrite insert_at_end by lia. rewrite lrel_children_split. fold A. cbn [part flat_map app].
      rewrite wtrees_app. cbn [wtrees map wtree w_sp].
      rewrite architectures_is_arch_node. rewrite <- !app_assoc. cbn [app]. reflexivity.
    + cbn [flat_map prof_part fst snd].
      set (B := flat_map prof_part rest ++ wtrees tr).
      replace (A ++ (prof_part (w, g) ++ flat_map prof_part rest) ++ wtrees tr)
        with (A ++ part prof_node (Some (w, g)) ++ B) by (unfold B, prof_part; cbn [part fst snd]; now rewrite <- !app_assoc).
      rewrite (find_part (node_is PROFILES) prof_node A w g B HAp (fun t => node_is_wtree PROFILES t) eq_refl).
      cbn [part]. replace (A ++ (wtrees w ++ [prof_node g]) ++ B) with ((A ++ wtrees w) ++ prof_node g :: B)
        by (now rewrite <- !app_assoc).
      rewrite <- (wtrees_length w), <- app_length, insert_at_app_len.
      rewrite lrel_children_split. fold A. cbn [part flat_map prof_part fst snd]. fold B.
      rewrite wtrees_app. cbn [wtrees map wtree w_sp app]. rewrite architectures_is_arch_node.
      rewrite <- !app_assoc. cbn [app]. reflexivity.
Qed.

Lemma flat_prof_snoc ps w g : flat_map prof_part (ps ++ [(w, g)]) = flat_map prof_part ps ++ wtrees w ++ [prof_node g].
Proof. rewrite flat_map_app. cbn [flat_map prof_part fst snd]. now rewrite app_nil_r. Qed.

Lemma add_profile_commute g r : add_profile_cs g (lrel_children r) = lrel_children (a_add_profile g r).
Proof.
  destruct r as [n oq ov oa ps tr]. unfold a_add_profile, add_profile_cs. cbn [l_name l_qual l_ver l_archs l_profs l_trail].
  assert (Esp : forall ps' tr', lrel_children (mk_lrel n oq ov oa ps' tr') =
            (([Tok IDENT n] ++ part qual_node oq ++ part vnode ov ++ part arch_node oa) ++ flat_map prof_part ps') ++ wtrees tr').
  { intros. rewrite lrel_children_eq. cbn [l_name l_qual l_ver l_archs l_profs l_trail]. now rewrite <- !app_assoc. }
  rewrite (Esp ps tr).
  set (A := [Tok IDENT n] ++ part qual_node oq ++ part vnode ov ++ part arch_node oa) in *.
  assert (HAp : Forall (fun x => node_is PROFILES x = false) A) by (unfold A; not_kind).
  rewrite last_index_app_none by (apply Forall_wtrees; intros; apply node_is_wtree).
  destruct (list_snoc_cases ps) as [->|(ps' & [w0 g0] & ->)].
  - cbn [flat_map]. rewrite app_nil_r. rewrite (last_index_none _ A HAp).
    rewrite insert_at_end by lia. rewrite Esp. cbn [flat_map]. unfold prof_part. cbn [fst snd].
    rewrite wtrees_app. cbn [wtrees map wtree w_sp app]. rewrite profiles_is_prof_node.
    rewrite <- !app_assoc. cbn [app]. rewrite ?app_nil_r. reflexivity.
  - rewrite flat_prof_snoc.
    replace (A ++ flat_map prof_part ps' ++ wtrees w0 ++ [prof_node g0])
      with ((A ++ flat_map prof_part ps' ++ wtrees w0) ++ [prof_node g0]) by (now rewrite <- !app_assoc).
    rewrite last_index_snoc by reflexivity.
    replace (S (length (A ++ flat_map prof_part ps' ++ wtrees w0)))
      with (length ((A ++ flat_map prof_part ps' ++ wtrees w0) ++ [prof_node g0])) by (rewrite app_length; cbn; lia).
    rewrite insert_at_app_len.
    destruct (ps' ++ [(w0, g0)]) as [|x xs] eqn:E; [destruct ps'; discriminate|]. rewrite <- E.
    rewrite Esp. rewrite !flat_prof_snoc.
    cbn [wtrees map wtree w_sp]. rewrite profiles_is_prof_node. rewrite <- !app_assoc. cbn [app]. reflexivity.
Qed.
