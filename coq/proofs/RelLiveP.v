(* Lemmas about RelLive.v (C11), part 1: the pure tree functions of the editing operations
   (RelEditTree.v), evaluated on the tree of a live layout, give the tree of the layout the
   abstract operation produces:  t_op o (ltree l) = Ok (ltree l')  whenever  a_op o l = Some l'. *)
From V.model Require Import Base RelLex RelParse RelAcc RelGrammar.
From V.model Require Import RelEdit RelEditSpec RelEditTree RelLive.
From V.proofs Require Import BaseP RelEditP RelEditTreeP.

Notation rt := relem_tree.

(* ------------------------------------------------------------------ kinds of the elements *)
Lemma ws_elem_wtree w : ws_elem (wtree w) = true.
Proof. destruct w as [[|] s]; reflexivity. Qed.
Lemma is_entry_wtree w : is_entry (wtree w) = false.
Proof. destruct w as [[|] s]; reflexivity. Qed.
Lemma is_relation_wtree w : is_relation (wtree w) = false.
Proof. destruct w as [[|] s]; reflexivity. Qed.
Lemma kind_wtree k w : is_ws_kind k = false -> kind_is k (wtree w) = false.
Proof. destruct w as [[|] s]; destruct k; cbn; intros H; try discriminate; reflexivity. Qed.
Lemma node_is_wtree k w : node_is k (wtree w) = false.
Proof. destruct w as [[|] s]; reflexivity. Qed.

Lemma ws_elem_rt x : ws_elem (rt x) = is_rw x.
Proof. destruct x; try reflexivity. apply ws_elem_wtree. Qed.
Lemma is_entry_rt x : is_entry (rt x) = is_re x.
Proof. destruct x; try reflexivity. apply is_entry_wtree. Qed.
Lemma is_comma_rt x : kind_is COMMA (rt x) = is_rc x.
Proof. destruct x; try reflexivity. now apply kind_wtree. Qed.
Lemma is_item_rt x : is_entry (rt x) || node_is SUBSTVAR (rt x) = is_item x.
Proof. destruct x; try reflexivity. cbn [relem_tree]. now rewrite is_entry_wtree, node_is_wtree. Qed.

(* ------------------------------------------------------------------ list functions through map *)
Lemma nth_index_map {A B} (f : A -> B) (p : B -> bool) (q : A -> bool) n l :
  (forall x, p (f x) = q x) -> nth_index p n (map f l) = nth_index q n l.
Proof.
  intros H. revert n; induction l as [|x r IH]; intros n; [reflexivity|]. cbn [map nth_index].
  rewrite H. destruct (q x); [destruct n|]; now rewrite ?IH.
Qed.
Lemma find_index_map {A B} (f : A -> B) (p : B -> bool) (q : A -> bool) l :
  (forall x, p (f x) = q x) -> find_index p (map f l) = find_index q l.
Proof. intros H. induction l as [|x r IH]; [reflexivity|]. cbn [map find_index]. rewrite H. now rewrite IH. Qed.
Lemma last_index_map {A B} (f : A -> B) (p : B -> bool) (q : A -> bool) l :
  (forall x, p (f x) = q x) -> last_index p (map f l) = last_index q l.
Proof. intros H. induction l as [|x r IH]; [reflexivity|]. cbn [map last_index]. rewrite H. now rewrite IH. Qed.
Lemma existsb_map {A B} (f : A -> B) (p : B -> bool) (q : A -> bool) l :
  (forall x, p (f x) = q x) -> existsb p (map f l) = existsb q l.
Proof. intros H. induction l as [|x r IH]; [reflexivity|]. cbn. now rewrite H, IH. Qed.
Lemma count_if_map {A B} (f : A -> B) (p : B -> bool) (q : A -> bool) l :
  (forall x, p (f x) = q x) -> count_if p (map f l) = count_if q l.
Proof.
  intros H. unfold count_if. induction l as [|x r IH]; [reflexivity|]. cbn [map filter]. rewrite H.
  destruct (q x); cbn [length]; now rewrite IH.
Qed.
Lemma ws_prefix_len_rt l : ws_prefix_len (map rt l) = wlen l.
Proof.
  induction l as [|x r IH]; [reflexivity|]. cbn [map ws_prefix_len wlen]. rewrite ws_elem_rt.
  destruct x; cbn [is_rw]; try reflexivity. now rewrite IH.
Qed.
Lemma insert_at_map {A B} (f : A -> B) i new l : map f (insert_at i new l) = insert_at i (map f new) (map f l).
Proof. unfold insert_at. now rewrite !map_app, firstn_map, skipn_map. Qed.
Lemma replace_at_map {A B} (f : A -> B) i x l : map f (replace_at i x l) = replace_at i (f x) (map f l).
Proof. unfold replace_at. rewrite map_app. cbn [map]. now rewrite firstn_map, skipn_map. Qed.

(* ------------------------------------------------------------------ Relations::insert / push / replace *)
Lemma last_significant_rt l :
  last_significant (map rt l) = (option_map rt (hd_error (skipn (wlen (rev l)) (rev l))), wlen (rev l)).
Proof.
  unfold last_significant. rewrite <- map_rev, ws_prefix_len_rt, skipn_map.
  destruct (skipn (wlen (rev l)) (rev l)); reflexivity.
Qed.

Lemma insert_commute l idx e :
  relations_insert_green fixed (ltree l) idx (lentry_tree e) = ltree (a_insert l idx e).
Proof.
  unfold relations_insert_green, ltree, a_insert, insert_plan. cbn [children set_children ekind].
  rewrite (nth_index_map rt is_entry is_re) by apply is_entry_rt.
  destruct (nth_index is_re idx l) as [ci|].
  - cbn [fx_insert_first fixed negb andb]. now rewrite insert_at_map.
  - cbn [fx_append_sep fixed]. rewrite last_significant_rt, map_length.
    destruct (hd_error (skipn (wlen (rev l)) (rev l))) as [x|]; cbn [option_map].
    + rewrite is_comma_rt. destruct x; cbn [is_rc];
        try (rewrite insert_at_end by (rewrite map_length; lia); now rewrite map_app).
      destruct (wlen (rev l)); rewrite insert_at_end by (rewrite map_length; lia); now rewrite map_app.
    + rewrite insert_at_end by (rewrite map_length; lia). now rewrite map_app.
Qed.
Lemma push_commute l e :
  relations_insert_green fixed (ltree l) (count_if is_entry (children (ltree l))) (lentry_tree e) = ltree (a_push l e).
Proof.
  unfold a_push. rewrite <- insert_commute. f_equal. unfold ltree. cbn [children].
  apply count_if_map, is_entry_rt.
Qed.
Lemma entry_pos_ltree l idx : entry_pos (ltree l) idx = nth_index is_re idx l.
Proof. unfold entry_pos, ltree. cbn [children]. apply nth_index_map, is_entry_rt. Qed.

(* ------------------------------------------------------------------ Entry::remove *)
Lemma remove_at_commute l ci :
  entry_remove_cs fixed (map rt l) ci =
  match a_remove_at l ci with Some l' => Ok (map rt l') | None => Panic 42 end.
Proof.
  unfold entry_remove_cs, a_remove_at, entry_remove_scan_next, entry_remove_scan_prev.
  rewrite firstn_map, skipn_map. set (pre := firstn ci l). set (post := skipn (S ci) l).
  rewrite ws_prefix_len_rt, skipn_map.
  assert (Ef : existsb (fun c => is_entry c || (fx_first_substvar fixed && node_is SUBSTVAR c)) (map rt pre)
               = existsb is_item pre).
  { apply existsb_map. intros x. cbn [fx_first_substvar fixed andb]. apply is_item_rt. }
  rewrite Ef.
  assert (Hprev : forall rc,
    (let rp := rev (map rt pre) in let n := ws_prefix_len rp in
     match skipn n rp with
     | c :: _ => if negb rc && kind_is COMMA c then S n else n
     | [] => n
     end) =
    (let rp := rev pre in let m := wlen rp in
     match skipn m rp with RC :: _ => if rc then m else S m | _ => m end)).
  { intros rc. cbv zeta. rewrite <- map_rev, ws_prefix_len_rt, skipn_map.
    destruct (skipn (wlen (rev pre)) (rev pre)) as [|y r']; [reflexivity|]. cbn [map]. rewrite is_comma_rt.
    destruct y, rc; reflexivity. }
  destruct (skipn (wlen post) post) as [|x r] eqn:E.
  - cbn [map]. destruct (negb (existsb is_item pre)).
    + rewrite !skipn_map, ws_prefix_len_rt, ?skipn_map. now rewrite map_app.
    + cbv zeta in Hprev. rewrite (Hprev false). rewrite ?skipn_map, ?firstn_map. now rewrite map_app.
  - cbn [map]. rewrite is_comma_rt. destruct x; cbn [is_rc]; try reflexivity.
    destruct (negb (existsb is_item pre)).
    + rewrite !skipn_map, ws_prefix_len_rt, ?skipn_map. now rewrite map_app.
    + cbv zeta in Hprev. rewrite (Hprev true). rewrite ?skipn_map, ?firstn_map. now rewrite map_app.
Qed.

Lemma remove_entry_commute l idx l' : a_remove_entry l idx = Some l' ->
  t_op (ARemoveEntry idx) (ltree l) = Ok (ltree l').
Proof.
  unfold a_remove_entry. cbn [t_op]. rewrite entry_pos_ltree.
  destruct (nth_index is_re idx l) as [ci|]; [|discriminate]. intros H.
  unfold t_remove_entry_at, ltree. cbn [children]. rewrite remove_at_commute, H. reflexivity.
Qed.
Lemma replace_commute l idx e l' : a_replace l idx e = Some l' ->
  match entry_pos (ltree l) idx with
  | Some ci => Ok (set_children (replace_at ci (lentry_tree e) (children (ltree l))) (ltree l))
  | None => Panic 40
  end = Ok (ltree l').
Proof.
  unfold a_replace. rewrite entry_pos_ltree. destruct (nth_index is_re idx l) as [ci|]; [|discriminate].
  intros [= <-]. unfold ltree. cbn [children set_children ekind]. now rewrite replace_at_map.
Qed.

(* ------------------------------------------------------------------ searching the children of a relation *)
Lemma find_index_none {A} (p : A -> bool) l : Forall (fun x => p x = false) l -> find_index p l = None.
Proof. induction 1 as [|x r Hx _ IH]; [reflexivity|]. cbn. now rewrite Hx, IH. Qed.
Lemma find_index_app_none {A} (p : A -> bool) a b : Forall (fun x => p x = false) a ->
  find_index p (a ++ b) = option_map (fun i => length a + i) (find_index p b).
Proof.
  induction 1 as [|x r Hx _ IH]; cbn [app length].
  - destruct (find_index p b); reflexivity.
  - cbn [find_index]. rewrite Hx, IH. destruct (find_index p b); reflexivity.
Qed.
Lemma find_index_here {A} (p : A -> bool) x b : p x = true -> find_index p (x :: b) = Some 0.
Proof. intros H. cbn. now rewrite H. Qed.
Lemma last_index_none {A} (p : A -> bool) l : Forall (fun x => p x = false) l -> last_index p l = None.
Proof. induction 1 as [|x r Hx _ IH]; [reflexivity|]. cbn. now rewrite IH, Hx. Qed.
Lemma last_index_app_none {A} (p : A -> bool) a b : Forall (fun x => p x = false) b ->
  last_index p (a ++ b) = last_index p a.
Proof.
  intros H. induction a as [|x r IH]; cbn [app last_index]; [now apply last_index_none|]. now rewrite IH.
Qed.
Lemma last_index_snoc {A} (p : A -> bool) a x : p x = true -> last_index p (a ++ [x]) = Some (length a).
Proof.
  intros H. induction a as [|y r IH]; cbn [app last_index length]; [now rewrite H|]. now rewrite IH.
Qed.

Lemma Forall_wtrees (p : rtree -> bool) w : (forall t, p (wtree t) = false) -> Forall (fun x => p x = false) (wtrees w).
Proof. intros H. unfold wtrees. induction w; cbn; constructor; auto. Qed.
Lemma ws_prefix_len_wtrees w rest : ws_prefix_len (wtrees w ++ rest) = length w + ws_prefix_len rest.
Proof. induction w as [|t r IH]; [reflexivity|]. cbn [wtrees map app ws_prefix_len length]. rewrite ws_elem_wtree. fold (wtrees r). rewrite IH. reflexivity. Qed.
Lemma ws_prefix_len_wtrees_all w : ws_prefix_len (wtrees w) = length w.
Proof. rewrite <- (app_nil_r (wtrees w)), ws_prefix_len_wtrees. cbn. lia. Qed.
Lemma wtrees_app a b : wtrees (a ++ b) = wtrees a ++ wtrees b.
Proof. apply map_app. Qed.
Lemma wtrees_length w : length (wtrees w) = length w.
Proof. apply map_length. Qed.
Lemma rev_wtrees w : rev (wtrees w) = wtrees (rev w).
Proof. unfold wtrees. now rewrite map_rev. Qed.

(* no part of a relation is a node of a kind it is not *)
Lemma Forall_part {A} (p : rtree -> bool) (f : A -> rtree) o :
  (forall t, p (wtree t) = false) -> (forall a, p (f a) = false) -> Forall (fun x => p x = false) (part f o).
Proof.
  intros Hw Hf. destruct o as [[w a]|]; cbn [part]; [|constructor].
  apply Forall_app. split; [now apply Forall_wtrees|]. constructor; [apply Hf|constructor].
Qed.
Lemma Forall_profs (p : rtree -> bool) ps :
  (forall t, p (wtree t) = false) -> (forall g, p (prof_node g) = false) ->
  Forall (fun x => p x = false) (flat_map prof_part ps).
Proof.
  intros Hw Hf. induction ps as [|[w g] r IH]; cbn [flat_map prof_part fst snd]; [constructor|].
  apply Forall_app. split; [|exact IH]. apply Forall_app. split; [now apply Forall_wtrees|].
  constructor; [apply Hf|constructor].
Qed.
Ltac not_kind :=
  repeat first
    [ apply Forall_nil
    | apply Forall_app; split
    | apply Forall_wtrees; intros; apply node_is_wtree
    | apply Forall_part; intros; try apply node_is_wtree; reflexivity
    | apply Forall_profs; intros; try apply node_is_wtree; reflexivity
    | apply Forall_cons; [reflexivity|] ].

Lemma archqual_is_qual q : archqual_node q = qual_node (qual_new q).
Proof. reflexivity. Qed.
Lemma version_is_vnode vc ver : version_node vc ver = vnode (vclause_new vc ver).
Proof. destruct vc; reflexivity. Qed.

(* ------------------------------------------------------------------ set_archqual *)
Lemma set_archqual_commute q r : set_archqual_cs q (lrel_children r) = lrel_children (a_set_archqual q r).
Proof.
  unfold set_archqual_cs, lrel_children, a_set_archqual. destruct r as [n oq ov oa ps tr]. cbn [l_name l_qual l_ver l_archs l_profs l_trail].
  destruct oq as [[w q0]|]; cbn [part].
  - assert (E : find_index (node_is ARCHQUAL)
                  (Tok IDENT n :: (wtrees w ++ [qual_node q0]) ++ part vnode ov ++ part arch_node oa ++ flat_map prof_part ps ++ wtrees tr)
                = Some (S (length (wtrees w)))).
    { cbn [find_index]. change (node_is ARCHQUAL (Tok IDENT n)) with false. cbn iota.
      rewrite <- app_assoc. rewrite find_index_app_none by (apply Forall_wtrees; intros; apply node_is_wtree).
      cbn [app find_index]. change (node_is ARCHQUAL (qual_node q0)) with true. cbn. f_equal. lia. }
    rewrite E. set (R := part vnode ov ++ part arch_node oa ++ flat_map prof_part ps ++ wtrees tr).
    assert (Ecs : Tok IDENT n :: (wtrees w ++ [qual_node q0]) ++ R = (Tok IDENT n :: wtrees w) ++ qual_node q0 :: R)
      by (cbn [app]; now rewrite <- app_assoc).
    rewrite Ecs. change (S (length (wtrees w))) with (length (Tok IDENT n :: wtrees w)).
    rewrite replace_at_split. cbn [app]. rewrite <- app_assoc. now rewrite archqual_is_qual.
  - assert (E : find_index (node_is ARCHQUAL)
                  (Tok IDENT n :: [] ++ part vnode ov ++ part arch_node oa ++ flat_map prof_part ps ++ wtrees tr) = None).
    { apply find_index_none. cbn [app]. apply Forall_cons; [reflexivity|]. not_kind. }
    rewrite E. unfold after_name. cbn [find_index]. change (kind_is IDENT (Tok IDENT n)) with true. cbn iota.
    unfold insert_at. cbn [firstn skipn app wtrees map]. now rewrite archqual_is_qual.
Qed.

(* ------------------------------------------------------------------ finding / replacing / dropping one part *)
Lemma find_part {A} (p : rtree -> bool) (f : A -> rtree) pre w a post :
  Forall (fun x => p x = false) pre -> (forall t, p (wtree t) = false) -> p (f a) = true ->
  find_index p (pre ++ part f (Some (w, a)) ++ post) = Some (length pre + length w).
Proof.
  intros Hpre Hw Hf. rewrite find_index_app_none by exact Hpre. cbn [part]. rewrite <- app_assoc.
  rewrite find_index_app_none by now apply Forall_wtrees. cbn [app find_index]. rewrite Hf. cbn.
  now rewrite wtrees_length, Nat.add_0_r.
Qed.
Lemma replace_part {A} (f : A -> rtree) pre w a post y :
  replace_at (length pre + length w) y (pre ++ part f (Some (w, a)) ++ post) = pre ++ (wtrees w ++ [y]) ++ post.
Proof.
  cbn [part]. rewrite <- (wtrees_length w), <- app_length.
  replace (pre ++ (wtrees w ++ [f a]) ++ post) with ((pre ++ wtrees w) ++ f a :: post)
    by (rewrite <- !app_assoc; reflexivity).
  rewrite replace_at_split. now rewrite <- !app_assoc.
Qed.

Lemma lrel_children_eq r : lrel_children r =
  [Tok IDENT (l_name r)] ++ part qual_node (l_qual r) ++ part vnode (l_ver r) ++ part arch_node (l_archs r)
  ++ flat_map prof_part (l_profs r) ++ wtrees (l_trail r).
Proof. reflexivity. Qed.

(* the children in front of the version clause never end in white space *)
Lemma ws_tail_head n (oq : option (wsl * qual)) :
  ws_prefix_len (rev ([Tok IDENT n] ++ part qual_node oq)) = 0.
Proof.
  destruct oq as [[w q]|]; cbn [part]; [|reflexivity].
  rewrite app_assoc, rev_app_distr. reflexivity.
Qed.

Lemma set_version_commute v r : set_version_cs v (lrel_children r) = lrel_children (a_set_version v r).
Proof.
  rewrite !lrel_children_eq. destruct r as [n oq ov oa ps tr].
  unfold a_set_version. cbn [l_name l_qual l_ver l_archs l_profs l_trail].
  set (A := [Tok IDENT n] ++ part qual_node oq).
  set (B := part arch_node oa ++ flat_map prof_part ps ++ wtrees tr).
  assert (HA : Forall (fun x => node_is VERSION x = false) A) by (unfold A; not_kind).
  assert (HB : Forall (fun x => node_is VERSION x = false) B) by (unfold B; not_kind).
  assert (Ecs : forall ov', [Tok IDENT n] ++ part qual_node oq ++ part vnode ov' ++ part arch_node oa ++ flat_map prof_part ps ++ wtrees tr
                = A ++ part vnode ov' ++ B) by (intros; unfold A, B; now rewrite <- !app_assoc).
  rewrite !Ecs.
  destruct v as [[vc ver]|]; cbn [set_version_cs].
  - destruct ov as [[w v0]|].
    + rewrite (find_part (node_is VERSION) vnode A w v0 B HA (fun t => node_is_wtree VERSION t) eq_refl).
      rewrite replace_part. cbn [part]. now rewrite version_is_vnode.
    + cbn [part app]. rewrite (find_index_none _ (A ++ B)) by (apply Forall_app; split; assumption).
      assert (Ep : version_pos fixed (A ++ B) = length A).
      { unfold version_pos. cbn [fx_version_pos fixed]. unfold A.
        destruct oq as [[w q]|]; cbn [part].
        - rewrite <- !app_assoc. cbn [app find_index]. change (node_is ARCHQUAL (Tok IDENT n)) with false. cbn iota.
          rewrite find_index_app_none by (apply Forall_wtrees; intros; apply node_is_wtree).
          cbn [app find_index]. change (node_is ARCHQUAL (qual_node q)) with true. cbn.
          rewrite app_length, wtrees_length. cbn [length]. lia.
        - cbn [app]. rewrite (find_index_none (node_is ARCHQUAL)) by (apply Forall_cons; [reflexivity|]; unfold B; not_kind).
          reflexivity. }
      rewrite Ep, insert_at_app_len. cbn [part wtrees map wtree w_sp app]. now rewrite version_is_vnode.
  - unfold drop_constraint_cs. destruct ov as [[w v0]|].
    + rewrite (find_part (node_is VERSION) vnode A w v0 B HA (fun t => node_is_wtree VERSION t) eq_refl).
      cbn [part]. replace (A ++ (wtrees w ++ [vnode v0]) ++ B) with ((A ++ wtrees w) ++ vnode v0 :: B)
        by (rewrite <- !app_assoc; reflexivity).
      rewrite <- (wtrees_length w), <- app_length. rewrite firstn_app_len, skipn_S_app_len.
      rewrite rev_app_distr, rev_wtrees, ws_prefix_len_wtrees. unfold A at 2. rewrite ws_tail_head.
      rewrite app_length, rev_length, Nat.add_0_r.
      replace (length A + length (wtrees w) - length w) with (length A) by (rewrite wtrees_length; lia).
      rewrite <- app_assoc. rewrite firstn_app_len. reflexivity.
    + cbn [part app]. now rewrite (find_index_none _ (A ++ B)) by (apply Forall_app; split; assumption).
Qed.

(* ------------------------------------------------------------------ set_architectures / add_profile *)
Lemma arch_toks_terms i l :
  arch_toks i l = elems (flat_map term_toks (terms_new i l)).
Proof.
  revert i; induction l as [|a r IH]; intros i; [reflexivity|].
  cbn [arch_toks terms_new flat_map]. unfold elems in *. rewrite map_app, <- IH.
  destruct i; reflexivity.
Qed.
Lemma architectures_is_arch_node a : architectures_node a = arch_node (archs_new a).
Proof.
  unfold architectures_node, arch_node, group_node, group_body_toks, archs_new. cbn [g_terms g_ws1 ws_toks app].
  unfold elems at 1. cbn [map tk fst snd]. f_equal. f_equal. fold (elems (flat_map term_toks (terms_new 0 a) ++ [(R_BRACKET, [93%N])])).
  unfold elems. rewrite map_app. cbn [map tk fst snd]. f_equal. apply arch_toks_terms.
Qed.
Lemma profile_toks_terms i l :
  profile_toks i l = elems (flat_map term_toks (pterms_new i l)).
Proof.
  revert i; induction l as [|p r IH]; intros i; [reflexivity|].
  cbn [profile_toks pterms_new flat_map]. unfold elems in *. rewrite map_app, <- IH.
  destruct i; destruct p; reflexivity.
Qed.
Lemma profiles_is_prof_node g : profiles_node g = prof_node (profs_new g).
Proof.
  unfold profiles_node, prof_node, group_node, group_body_toks, profs_new. cbn [g_terms g_ws1 ws_toks app].
  unfold elems at 1. cbn [map tk fst snd]. f_equal. f_equal.
  unfold elems. rewrite map_app. cbn [map tk fst snd]. f_equal. apply profile_toks_terms.
Qed.

Lemma lrel_children_split n oq ov oa ps tr :
  lrel_children (mk_lrel n oq ov oa ps tr) =
  ([Tok IDENT n] ++ part qual_node oq ++ part vnode ov) ++ part arch_node oa ++ (flat_map prof_part ps ++ wtrees tr).
Proof. rewrite lrel_children_eq. cbn [l_name l_qual l_ver l_archs l_profs l_trail]. now rewrite <- !app_assoc. Qed.

Lemma set_archs_commute a r : set_architectures_cs a (lrel_children r) = lrel_children (a_set_archs a r).
Proof.
  destruct r as [n oq ov oa ps tr]. unfold a_set_archs, set_architectures_cs. cbn [l_name l_qual l_ver l_archs l_profs l_trail].
  rewrite (lrel_children_split n oq ov oa ps tr).
  set (A := [Tok IDENT n] ++ part qual_node oq ++ part vnode ov).
  assert (HA : Forall (fun x => node_is ARCHITECTURES x = false) A) by (unfold A; not_kind).
  assert (HAp : Forall (fun x => node_is PROFILES x = false) A) by (unfold A; not_kind).
  destruct oa as [[w g0]|].
  - set (B := flat_map prof_part ps ++ wtrees tr).
    rewrite (find_part (node_is ARCHITECTURES) arch_node A w g0 B HA (fun t => node_is_wtree ARCHITECTURES t) eq_refl).
    rewrite replace_part. rewrite lrel_children_split. fold A B. cbn [part].
    now rewrite architectures_is_arch_node.
  - cbn [part app].
    assert (Hnone : find_index (node_is ARCHITECTURES) (A ++ flat_map prof_part ps ++ wtrees tr) = None).
    { apply find_index_none. apply Forall_app. split; [exact HA|]. not_kind. }
    rewrite Hnone. unfold architectures_pos.
    destruct ps as [|[w g] rest].
    + cbn [flat_map app].
      rewrite (find_index_none (node_is PROFILES)) by (apply Forall_app; split; [exact HAp|not_kind]).
      rewrite insert_at_end by lia. rewrite lrel_children_split. fold A. cbn [part flat_map app].
      rewrite wtrees_app. cbn [wtrees map wtree w_sp].
      rewrite architectures_is_arch_node. rewrite <- !app_assoc. cbn [app]. reflexivity.
    + cbn [flat_map prof_part fst snd].
      set (B := flat_map prof_part rest ++ wtrees tr).
      replace (A ++ (prof_part (w, g) ++ flat_map prof_part rest) ++ wtrees tr)
        with (A ++ part prof_node (Some (w, g)) ++ B) by (unfold B, prof_part; cbn [part fst snd]; now rewrite <- !app_assoc).
      rewrite (find_part (node_is PROFILES) prof_node A w g B HAp (fun t => node_is_wtree PROFILES t) eq_refl).
      cbn [part]. replace (A ++ (wtrees w ++ [prof_node g]) ++ B) with ((A ++ wtrees w) ++ prof_node g :: B)
        by (now rewrite <- !app_assoc).
      rewrite <- (wtrees_length w), <- app_length, insert_at_app_len.
      rewrite lrel_children_split. fold A. cbn [part flat_map prof_part fst snd]. fold B.
      rewrite wtrees_app. cbn [wtrees map wtree w_sp app]. rewrite architectures_is_arch_node.
      rewrite <- !app_assoc. cbn [app]. reflexivity.
Qed.

Lemma flat_prof_snoc ps w g : flat_map prof_part (ps ++ [(w, g)]) = flat_map prof_part ps ++ wtrees w ++ [prof_node g].
Proof. rewrite flat_map_app. cbn [flat_map prof_part fst snd]. now rewrite app_nil_r. Qed.

Lemma add_profile_commute g r : add_profile_cs g (lrel_children r) = lrel_children (a_add_profile g r).
Proof.
  destruct r as [n oq ov oa ps tr]. unfold a_add_profile, add_profile_cs. cbn [l_name l_qual l_ver l_archs l_profs l_trail].
  assert (Esp : forall ps' tr', lrel_children (mk_lrel n oq ov oa ps' tr') =
            (([Tok IDENT n] ++ part qual_node oq ++ part vnode ov ++ part arch_node oa) ++ flat_map prof_part ps') ++ wtrees tr').
  { intros. rewrite lrel_children_eq. cbn [l_name l_qual l_ver l_archs l_profs l_trail]. now rewrite <- !app_assoc. }
  rewrite (Esp ps tr).
  set (A := [Tok IDENT n] ++ part qual_node oq ++ part vnode ov ++ part arch_node oa) in *.
  assert (HAp : Forall (fun x => node_is PROFILES x = false) A) by (unfold A; not_kind).
  rewrite last_index_app_none by (apply Forall_wtrees; intros; apply node_is_wtree).
  destruct (list_snoc_cases ps) as [->|(ps' & [w0 g0] & ->)].
  - cbn [flat_map]. rewrite app_nil_r. rewrite (last_index_none _ A HAp).
    rewrite insert_at_end by lia. rewrite Esp. cbn [flat_map]. unfold prof_part. cbn [fst snd].
    rewrite wtrees_app. cbn [wtrees map wtree w_sp app]. rewrite profiles_is_prof_node.
    rewrite <- !app_assoc. cbn [app]. rewrite ?app_nil_r. reflexivity.
  - rewrite flat_prof_snoc.
    replace (A ++ flat_map prof_part ps' ++ wtrees w0 ++ [prof_node g0])
      with ((A ++ flat_map prof_part ps' ++ wtrees w0) ++ [prof_node g0]) by (now rewrite <- !app_assoc).
    rewrite last_index_snoc by reflexivity.
    replace (S (length (A ++ flat_map prof_part ps' ++ wtrees w0)))
      with (length ((A ++ flat_map prof_part ps' ++ wtrees w0) ++ [prof_node g0])) by (rewrite app_length; cbn; lia).
    rewrite insert_at_app_len.
    destruct (ps' ++ [(w0, g0)]) as [|x xs] eqn:E; [destruct ps'; discriminate|]. rewrite <- E.
    rewrite Esp. rewrite !flat_prof_snoc.
    cbn [wtrees map wtree w_sp]. rewrite profiles_is_prof_node. rewrite <- !app_assoc. cbn [app]. reflexivity.
Qed.

(* ------------------------------------------------------------------ the children of an entry *)
Lemma is_relation_lrel r : is_relation (lrel_tree r) = true. Proof. reflexivity. Qed.
Lemma ws_elem_lrel r : ws_elem (lrel_tree r) = false. Proof. reflexivity. Qed.

Lemma alts_split (alts : list (wsl * wsl * lrel)) j a : nth_error alts j = Some a ->
  exists a1 a2, alts = a1 ++ a :: a2 /\ length a1 = j.
Proof.
  intros H. destruct (nth_error_split_eq _ _ _ H) as [E L]. now exists (firstn j alts), (skipn (S j) alts).
Qed.

Lemma alt_part_eq w1 w2 r : alt_part (w1, w2, r) = (wtrees w1 ++ t_pipe :: wtrees w2) ++ [lrel_tree r].
Proof. unfold alt_part. cbn [fst snd]. now rewrite <- app_assoc. Qed.
(* the last child of "first relation + alternatives" is a relation *)
Lemma alts_end_not_ws x a1 : ws_elem x = false -> ws_prefix_len (rev (x :: flat_map alt_part a1)) = 0.
Proof.
  intros Hx. destruct (list_snoc_cases a1) as [->|(a' & [[w1 w2] r] & ->)].
  - cbn. now rewrite Hx.
  - rewrite flat_map_app. cbn [flat_map]. rewrite app_nil_r, alt_part_eq.
    rewrite app_comm_cons, !app_assoc, rev_app_distr. reflexivity.
Qed.

(* the relations among the children, by position *)
Lemma filter_relation_wtrees w : filter is_relation (wtrees w) = [].
Proof. induction w as [|t ws IHw]; [reflexivity|]. cbn [wtrees map filter]. rewrite is_relation_wtree. exact IHw. Qed.
Lemma filter_relations_alts alts :
  filter is_relation (flat_map alt_part alts) = map (fun a => lrel_tree (snd a)) alts.
Proof.
  induction alts as [|[[w1 w2] r] rest IH]; [reflexivity|].
  cbn [flat_map map snd]. rewrite alt_part_eq, !filter_app. cbn [filter].
  rewrite ?filter_relation_wtrees. change (is_relation t_pipe) with false. cbn iota.
  rewrite ?filter_relation_wtrees. rewrite is_relation_lrel. cbn [app]. now rewrite IH.
Qed.

Lemma nth_index_skip_false {A} (p : A -> bool) n a b : Forall (fun x => p x = false) a ->
  nth_index p n (a ++ b) = option_map (fun i => length a + i) (nth_index p n b).
Proof.
  induction 1 as [|x r Hx _ IH]; cbn [app length].
  - destruct (nth_index p n b); reflexivity.
  - cbn [nth_index]. rewrite Hx, IH. destruct (nth_index p n b); reflexivity.
Qed.

Lemma sep_no_relation w1 w2 : Forall (fun x => is_relation x = false) (wtrees w1 ++ t_pipe :: wtrees w2).
Proof.
  apply Forall_app. split; [apply Forall_wtrees, is_relation_wtree|].
  constructor; [reflexivity|apply Forall_wtrees, is_relation_wtree].
Qed.

Lemma nth_index_rel_alts j : forall alts w1 w2 r a1 a2,
  alts = a1 ++ (w1, w2, r) :: a2 -> length a1 = j ->
  nth_index is_relation j (flat_map alt_part alts) =
  Some (length (flat_map alt_part a1 ++ wtrees w1 ++ t_pipe :: wtrees w2)).
Proof.
  induction j as [|j IH]; intros alts w1 w2 r a1 a2 -> L.
  - destruct a1; [|discriminate]. cbn [app flat_map]. rewrite alt_part_eq, <- app_assoc.
    rewrite nth_index_skip_false by apply sep_no_relation. cbn [app nth_index]. rewrite is_relation_lrel.
    cbn [option_map]. now rewrite Nat.add_0_r.
  - destruct a1 as [|[[v1 v2] r1] a1']; [discriminate|]. cbn [app flat_map]. cbn in L.
    rewrite alt_part_eq, <- app_assoc. rewrite nth_index_skip_false by apply sep_no_relation.
    cbn [app nth_index]. rewrite is_relation_lrel.
    rewrite (IH (a1' ++ (w1, w2, r) :: a2) w1 w2 r a1' a2 eq_refl ltac:(lia)). cbn [option_map].
    f_equal. rewrite !app_length. cbn [length]. rewrite ?app_length. cbn [length]. lia.
Qed.

Lemma nth_index_app_some {A} (p : A -> bool) n a b i :
  nth_index p n a = Some i -> nth_index p n (a ++ b) = Some i.
Proof.
  revert n i; induction a as [|x r IH]; intros n i H; cbn in H; [discriminate|]. cbn [app nth_index].
  destruct (p x).
  - destruct n; [exact H|]. destruct (nth_index p n r) eqn:E; [|discriminate]. now rewrite (IH _ _ E).
  - destruct (nth_index p n r) eqn:E; [|discriminate]. now rewrite (IH _ _ E).
Qed.

(* the j-th alternative of an entry, seen among its children *)
Lemma entry_rel_split e j r : nth_rel e j = Some r ->
  exists pre post,
    lentry_children e = pre ++ lrel_tree r :: post /\
    nth_index is_relation j (lentry_children e) = Some (length pre) /\
    (forall g, lentry_children (upd_rel e j g) = pre ++ lrel_tree (g r) :: post).
Proof.
  destruct e as [r0 alts tr]. destruct j as [|j]; cbn [nth_rel e_first e_alts].
  - intros [= <-]. exists [], (flat_map alt_part alts ++ wtrees tr). repeat split.
  - intros H. destruct (nth_error alts j) as [[[w1 w2] r']|] eqn:E; [|discriminate]. cbn in H. injection H as <-.
    destruct (alts_split _ _ _ E) as (a1 & a2 & -> & L).
    exists (lrel_tree r0 :: flat_map alt_part a1 ++ wtrees w1 ++ t_pipe :: wtrees w2),
           (flat_map alt_part a2 ++ wtrees tr).
    assert (Esplit : forall r'', lentry_children (mk_lentry r0 (a1 ++ (w1, w2, r'') :: a2) tr) =
              (lrel_tree r0 :: flat_map alt_part a1 ++ wtrees w1 ++ t_pipe :: wtrees w2) ++ lrel_tree r'' :: flat_map alt_part a2 ++ wtrees tr).
    { intros r''. unfold lentry_children. cbn [e_first e_alts e_trail]. rewrite flat_map_app. cbn [flat_map].
      rewrite alt_part_eq. rewrite <- !app_assoc. cbn [app]. rewrite <- !app_assoc. reflexivity. }
    repeat split.
    + apply Esplit.
    + unfold lentry_children. cbn [e_first e_alts e_trail nth_index]. rewrite is_relation_lrel.
      rewrite (nth_index_app_some _ _ _ _ _ (nth_index_rel_alts j _ w1 w2 r' a1 a2 eq_refl L)).
      cbn [option_map length]. reflexivity.
    + intros g. cbn [upd_rel e_first e_alts e_trail]. rewrite <- L, upd_nth_app_r. cbn [fst snd]. apply Esplit.
Qed.

(* ------------------------------------------------------------------ Entry::push *)
Lemma entry_body_snoc r0 alts : exists init last,
  lrel_tree r0 :: flat_map alt_part alts = init ++ [lrel_tree last].
Proof.
  destruct (list_snoc_cases alts) as [->|(a' & [[w1 w2] r] & ->)].
  - now exists [], r0.
  - exists (lrel_tree r0 :: flat_map alt_part a' ++ wtrees w1 ++ t_pipe :: wtrees w2), r.
    rewrite flat_map_app. cbn [flat_map]. rewrite app_nil_r, alt_part_eq.
    cbn [app]. now rewrite <- !app_assoc.
Qed.

Lemma epush_commute e r : entry_push_green (lentry_tree e) (lrel_tree r) = lentry_tree (a_epush e r).
Proof.
  destruct e as [r0 alts tr]. unfold entry_push_green, entry_push_plan, lentry_tree, a_epush.
  cbn [children set_children ekind]. unfold lentry_children. cbn [e_first e_alts e_trail].
  cbn [existsb]. change (kind_is RELATION (lrel_tree r0)) with true. rewrite orb_true_r. cbn [orb negb].
  rewrite app_comm_cons. rewrite last_index_app_none by (apply Forall_wtrees, is_relation_wtree).
  destruct (entry_body_snoc r0 alts) as (init & lst & E). rewrite E.
  rewrite last_index_snoc by apply is_relation_lrel.
  replace (S (length init)) with (length (init ++ [lrel_tree lst])) by (rewrite app_length; cbn; lia).
  rewrite insert_at_app_len. rewrite <- E.
  rewrite flat_map_app. cbn [flat_map]. rewrite alt_part_eq. cbn [wtrees map wtree w_sp app set_children ekind].
  rewrite ?app_nil_r. rewrite <- !app_assoc. reflexivity.
Qed.

(* ------------------------------------------------------------------ Relation::remove inside its entry *)
Lemma scan_next_trail tr : relation_remove_scan_next (wtrees tr) = Ok (length (wtrees tr)).
Proof.
  unfold relation_remove_scan_next. rewrite ws_prefix_len_wtrees_all, <- (wtrees_length tr), skipn_all.
  reflexivity.
Qed.
Lemma scan_next_sep w1 w2 x R : ws_elem x = false ->
  relation_remove_scan_next ((wtrees w1 ++ t_pipe :: wtrees w2) ++ x :: R) = Ok (length (wtrees w1 ++ t_pipe :: wtrees w2)).
Proof.
  intros Hx. unfold relation_remove_scan_next. rewrite <- app_assoc. rewrite ws_prefix_len_wtrees. cbn [app ws_prefix_len].
  change (ws_elem t_pipe) with false. cbn iota. rewrite Nat.add_0_r. rewrite <- (wtrees_length w1), skipn_app_len.
  change (kind_is PIPE t_pipe) with true. cbn iota. rewrite ws_prefix_len_wtrees. cbn [app ws_prefix_len]. rewrite Hx.
  f_equal. rewrite app_length. cbn [length]. rewrite !wtrees_length. lia.
Qed.

Lemma remove_rel_commute e j r pre post : nth_rel e j = Some r ->
  lentry_children e = pre ++ lrel_tree r :: post ->
  nth_index is_relation j (lentry_children e) = Some (length pre) ->
  relation_remove_cs (lentry_children e) (length pre) =
  Ok (match a_remove_rel e j with Some e' => lentry_children e' | None => [] end).
Proof.
  intros Hr Ecs Hn. destruct e as [r0 alts tr]. destruct j as [|j].
  - (* the first alternative *)
    cbn [nth_rel e_first] in Hr. injection Hr as <-.
    assert (pre = []).
    { unfold lentry_children in Hn. cbn [e_first nth_index] in Hn. rewrite is_relation_lrel in Hn.
      injection Hn as Hn. destruct pre; [reflexivity|discriminate]. }
    subst pre. cbn [app length] in *. unfold relation_remove_cs. cbn [firstn existsb negb].
    unfold lentry_children, a_remove_rel. cbn [e_first e_alts e_trail skipn].
    destruct alts as [|[[w1 w2] r1] rest].
    + cbn [flat_map app]. rewrite scan_next_trail, skipn_all. reflexivity.
    + cbn [flat_map e_first e_alts e_trail]. rewrite alt_part_eq. rewrite <- !app_assoc. cbn [app].
      replace (wtrees w1 ++ t_pipe :: wtrees w2 ++ lrel_tree r1 :: flat_map alt_part rest ++ wtrees tr)
        with ((wtrees w1 ++ t_pipe :: wtrees w2) ++ lrel_tree r1 :: flat_map alt_part rest ++ wtrees tr)
        by (now rewrite <- app_assoc).
      rewrite scan_next_sep by reflexivity. rewrite skipn_app_len. reflexivity.
  - (* a later one *)
    cbn [nth_rel e_alts] in Hr. destruct (nth_error alts j) as [[[w1 w2] r']|] eqn:E; [|discriminate].
    cbn in Hr. injection Hr as <-.
    destruct (alts_split _ _ _ E) as (a1 & a2 & -> & L).
    set (body := lrel_tree r0 :: flat_map alt_part a1).
    assert (Ecs' : lentry_children (mk_lentry r0 (a1 ++ (w1, w2, r') :: a2) tr)
                   = (body ++ wtrees w1 ++ t_pipe :: wtrees w2) ++ lrel_tree r' :: flat_map alt_part a2 ++ wtrees tr).
    { unfold lentry_children, body. cbn [e_first e_alts e_trail]. rewrite flat_map_app. cbn [flat_map].
      rewrite alt_part_eq. rewrite <- !app_assoc. cbn [app]. rewrite <- ?app_assoc. reflexivity. }
    assert (Hlen : length pre = length (body ++ wtrees w1 ++ t_pipe :: wtrees w2)).
    { unfold lentry_children in Hn. cbn [e_first e_alts e_trail nth_index] in Hn. rewrite is_relation_lrel in Hn.
      rewrite (nth_index_app_some _ _ _ _ _ (nth_index_rel_alts j _ w1 w2 r' a1 a2 eq_refl L)) in Hn.
      cbn [option_map] in Hn. injection Hn as Hn. rewrite <- Hn. unfold body. cbn [app length]. now rewrite app_length. }
    rewrite Ecs' in Ecs. destruct (split_unique _ _ _ _ _ _ Ecs (eq_sym Hlen)) as (Epre & _ & Epost).
    rewrite Ecs'. rewrite <- Epre. unfold relation_remove_cs. rewrite firstn_app_len, skipn_S_app_len.
    assert (Hex : existsb is_relation (body ++ wtrees w1 ++ t_pipe :: wtrees w2) = true) by reflexivity.
    rewrite Hex. cbn [negb].
    unfold relation_remove_scan_prev.
    rewrite !rev_app_distr. cbn [rev]. rewrite <- !app_assoc. cbn [app].
    rewrite rev_wtrees, ws_prefix_len_wtrees. cbn [ws_prefix_len]. change (ws_elem t_pipe) with false. cbn iota.
    rewrite Nat.add_0_r, rev_length.
    replace (skipn (length w2) (wtrees (rev w2) ++ t_pipe :: rev (wtrees w1) ++ rev body))
      with (t_pipe :: rev (wtrees w1) ++ rev body)
      by (rewrite <- (rev_length w2), <- (wtrees_length (rev w2)), skipn_app_len; reflexivity).
    change (kind_is PIPE t_pipe) with true. cbn iota.
    rewrite rev_wtrees, ws_prefix_len_wtrees.
    replace (ws_prefix_len (rev body)) with 0 by (symmetry; apply alts_end_not_ws; reflexivity).
    rewrite Nat.add_0_r, rev_length.
    replace (length (body ++ wtrees w1 ++ t_pipe :: wtrees w2) - (S (length w2) + length w1)) with (length body)
      by (rewrite !app_length; cbn [length]; rewrite !wtrees_length; lia).
    rewrite firstn_app_len. unfold a_remove_rel. cbn [e_first e_alts e_trail].
    rewrite <- L, remove_nth_app_len. f_equal. unfold lentry_children, body. cbn [e_first e_alts e_trail].
    rewrite flat_map_app. cbn [app]. now rewrite <- !app_assoc.
Qed.

(* ------------------------------------------------------------------ Entry::replace *)
Definition lrel_core (r : lrel) : list rtree :=
  Tok IDENT (l_name r) :: part qual_node (l_qual r) ++ part vnode (l_ver r) ++ part arch_node (l_archs r)
  ++ flat_map prof_part (l_profs r).
Lemma lrel_children_core r : lrel_children r = lrel_core r ++ wtrees (l_trail r).
Proof. unfold lrel_children, lrel_core. cbn [app]. now rewrite <- !app_assoc. Qed.

Lemma snoc_nonws a x : ws_elem x = false -> ws_prefix_len (rev (a ++ [x])) = 0.
Proof. intros H. rewrite rev_app_distr. cbn [rev app ws_prefix_len]. now rewrite H. Qed.
Lemma part_end {A} (f : A -> rtree) a o : (forall x, ws_elem (f x) = false) ->
  ws_prefix_len (rev a) = 0 -> ws_prefix_len (rev (a ++ part f o)) = 0.
Proof.
  intros Hf Ha. destruct o as [[w x]|]; cbn [part]; [|now rewrite app_nil_r].
  rewrite app_assoc. apply snoc_nonws, Hf.
Qed.
Lemma profs_end ps : forall a, ws_prefix_len (rev a) = 0 -> ws_prefix_len (rev (a ++ flat_map prof_part ps)) = 0.
Proof.
  induction ps as [|[w g] r IH]; intros a Ha; cbn [flat_map]; [now rewrite app_nil_r|].
  unfold prof_part at 1. cbn [fst snd]. rewrite app_assoc. apply IH. rewrite app_assoc. now apply snoc_nonws.
Qed.
Lemma core_end r : ws_prefix_len (rev (lrel_core r)) = 0.
Proof.
  unfold lrel_core.
  change (Tok IDENT (l_name r) :: part qual_node (l_qual r) ++ part vnode (l_ver r) ++ part arch_node (l_archs r) ++ flat_map prof_part (l_profs r))
    with ([Tok IDENT (l_name r)] ++ part qual_node (l_qual r) ++ part vnode (l_ver r) ++ part arch_node (l_archs r) ++ flat_map prof_part (l_profs r)).
  rewrite !app_assoc. apply profs_end. apply part_end; [reflexivity|]. apply part_end; [reflexivity|].
  apply part_end; [reflexivity|]. reflexivity.
Qed.

Lemma dressed_commute old new : dressed (lrel_tree old) (lrel_tree new) = lrel_tree (with_trail (l_trail old) new).
Proof.
  unfold dressed, lrel_tree. cbn [children set_children ekind]. f_equal.
  assert (Hh : forall r, ws_prefix_len (lrel_children r) = 0) by reflexivity.
  unfold ws_head, strip_ws, ws_tail. rewrite !Hh. cbn [firstn skipn app].
  rewrite !lrel_children_core. rewrite !rev_app_distr, !rev_wtrees, !ws_prefix_len_wtrees, !core_end, !Nat.add_0_r, !rev_length.
  replace (length (lrel_core new ++ wtrees (l_trail new)) - length (l_trail new)) with (length (lrel_core new))
    by (rewrite app_length, wtrees_length; lia).
  replace (length (lrel_core old ++ wtrees (l_trail old)) - length (l_trail old)) with (length (lrel_core old))
    by (rewrite app_length, wtrees_length; lia).
  rewrite firstn_app_len, skipn_app_len. reflexivity.
Qed.

(* ------------------------------------------------------------------ the operands *)
Lemma crel_is_lrel r : new_only r = true -> crel_tree r = lrel_tree (lrel_new r).
Proof.
  unfold new_only, plain. destruct r as [n q v a p]. cbn [rr_name rr_qual rr_ver rr_archs rr_profs].
  destruct a; [rewrite andb_false_l; discriminate|]. destruct p; [|rewrite andb_false_l; discriminate].
  destruct q; [rewrite andb_false_r; discriminate|]. intros _.
  unfold crel_tree, lrel_tree, lrel_children, lrel_new. cbn [rr_name rr_qual rr_ver l_name l_qual l_ver l_archs l_profs l_trail part app flat_map wtrees map].
  destruct v as [[vc ver]|]; cbn [part wtrees map wtree w_sp app]; [|reflexivity]. now rewrite version_is_vnode.
Qed.
Lemma join_relations_alts rs : forall i, forallb new_only rs = true ->
  join_relations fixed (S i) (map crel_tree rs) = flat_map alt_part (map (fun r' => ([w_sp], [w_sp], lrel_new r')) rs).
Proof.
  induction rs as [|r rest IH]; intros i H; [reflexivity|]. cbn [forallb] in H. apply andb_prop in H as [H1 H2].
  cbn [map join_relations flat_map fx_pipe fixed]. rewrite (IH (S i) H2), (crel_is_lrel r H1). reflexivity.
Qed.
Lemma centry_is_lentry r rs : forallb new_only (r :: rs) = true -> centry_tree (r :: rs) = lentry_tree (lentry_new r rs).
Proof.
  cbn [forallb]. intros H. apply andb_prop in H as [H1 H2].
  unfold centry_tree, entry_from_relations, lentry_tree, lentry_children, lentry_new. cbn [map join_relations app e_first e_alts e_trail wtrees].
  rewrite (crel_is_lrel r H1), (join_relations_alts rs 0 H2), app_nil_r. reflexivity.
Qed.

(* ------------------------------------------------------------------ positions in the field *)
Lemma nth_entry_inv l i ci e : nth_entry l i = Some (ci, e) ->
  exists pre post, l = pre ++ RE e :: post /\ length pre = ci /\ nth_index is_re i l = Some ci.
Proof.
  unfold nth_entry. destruct (nth_index is_re i l) as [c|] eqn:E; [|discriminate].
  destruct (nth_error l c) as [[| |e'|]|] eqn:E2; try discriminate. intros [= <- <-].
  destruct (nth_error_split_eq _ _ _ E2) as [Sp L]. exists (firstn c l), (skipn (S c) l). auto.
Qed.
Lemma nth_rel_some e j : j <? n_rels e = true -> exists r, nth_rel e j = Some r.
Proof.
  unfold n_rels. intros H. apply Nat.ltb_lt in H. destruct j as [|j]; cbn [nth_rel]; [eauto|].
  destruct (nth_error (e_alts e) j) eqn:E; [cbn; eauto|]. apply nth_error_None in E. lia.
Qed.
Lemma child_at_ltree pre x post : child_at (ltree (pre ++ x :: post)) (length pre) = Some (rt x).
Proof.
  unfold child_at, ltree. cbn [children]. rewrite map_app. cbn [map]. rewrite <- (map_length rt pre).
  apply nth_error_app_len.
Qed.
Lemma upd_entry pre e post F e' : F (lentry_tree e) = lentry_tree e' ->
  upd_path (ltree (pre ++ RE e :: post)) [length pre] F = ltree (replace_at (length pre) (RE e') (pre ++ RE e :: post)).
Proof.
  intros H. rewrite replace_at_split. unfold ltree. rewrite !map_app. cbn [map upd_path].
  rewrite <- (map_length rt pre), upd_nth_app_r. cbn [upd_path relem_tree]. now rewrite H.
Qed.

(* an edit of one alternative *)
Lemma rel_update_commute l i j (g : lrel -> lrel) (F : rtree -> rtree) ci e :
  (forall r, F (lrel_tree r) = lrel_tree (g r)) ->
  nth_entry l i = Some (ci, e) -> j <? n_rels e = true ->
  exists cj, rel_pos (ltree l) i j = Some (ci, cj) /\
             upd_path (ltree l) [ci; cj] F = ltree (replace_at ci (RE (upd_rel e j g)) l).
Proof.
  intros HF He Hj. destruct (nth_entry_inv _ _ _ _ He) as (pre & post & -> & <- & Hi).
  destruct (nth_rel_some e j Hj) as (r & Hr).
  destruct (entry_rel_split e j r Hr) as (rp & rq & Ech & Hn & Hupd).
  exists (length rp). split.
  - unfold rel_pos. rewrite entry_pos_ltree, Hi, child_at_ltree. cbn [relem_tree lentry_tree children]. now rewrite Hn.
  - change [length pre; length rp] with ([length pre] ++ [length rp]).
    rewrite (upd_path_app _ _ _ _ (lentry_tree e)).
    + apply upd_entry. unfold lentry_tree. cbn [upd_path]. rewrite Ech, upd_nth_app_r. cbn [upd_path].
      now rewrite HF, Hupd.
    + cbn [get_path]. fold (child_at (ltree (pre ++ RE e :: post)) (length pre)). now rewrite child_at_ltree.
Qed.

Lemma on_relation_commute l i j (g : lrel -> lrel) f l' :
  (forall r, f (lrel_children r) = lrel_children (g r)) ->
  a_on_relation l i j g = Some l' -> t_on_relation (ltree l) i j f = Ok (ltree l').
Proof.
  intros Hf. unfold a_on_relation. destruct (nth_entry l i) as [[ci e]|] eqn:He; [|discriminate].
  destruct (j <? n_rels e) eqn:Hj; [|discriminate]. intros [= <-].
  destruct (rel_update_commute l i j g (fun n => set_children (f (children n)) n) ci e) as (cj & Hp & Hu); auto.
  - intros r. unfold lrel_tree. cbn [children set_children ekind]. now rewrite Hf.
  - unfold t_on_relation. now rewrite Hp, Hu.
Qed.

(* ------------------------------------------------------------------ Relation::remove in the field *)
Lemma entry_remove_cs_hole v pre x y post :
  entry_remove_cs v (pre ++ x :: post) (length pre) = entry_remove_cs v (pre ++ y :: post) (length pre).
Proof. unfold entry_remove_cs. now rewrite !firstn_app_len, !skipn_S_app_len. Qed.

Lemma count_relations_lentry e : count_if is_relation (lentry_children e) =? 0 = false.
Proof. reflexivity. Qed.

Lemma remove_relation_commute l i j l' : a_remove_relation l i j = Some l' ->
  t_op (ARemoveRelation i j) (ltree l) = Ok (ltree l').
Proof.
  unfold a_remove_relation. destruct (nth_entry l i) as [[ci e]|] eqn:He; [|discriminate].
  destruct (j <? n_rels e) eqn:Hj; [|discriminate]. intros Hl'.
  destruct (nth_entry_inv _ _ _ _ He) as (pre & post & -> & <- & Hi).
  destruct (nth_rel_some e j Hj) as (r & Hr).
  destruct (entry_rel_split e j r Hr) as (rp & rq & Ech & Hn & Hupd).
  assert (Hp : rel_pos (ltree (pre ++ RE e :: post)) i j = Some (length pre, length rp)).
  { unfold rel_pos. rewrite entry_pos_ltree, Hi, child_at_ltree. cbn [relem_tree lentry_tree children]. now rewrite Hn. }
  cbn [t_op]. rewrite Hp. unfold t_remove_relation. rewrite Hp, child_at_ltree.
  cbn [relem_tree lentry_tree children]. rewrite (remove_rel_commute e j r rp rq Hr Ech Hn).
  destruct (a_remove_rel e j) as [e'|].
  - injection Hl' as <-. rewrite count_relations_lentry.
    rewrite (upd_entry pre e post (fun _ => Node ENTRY (lentry_children e')) e') by reflexivity. reflexivity.
  - cbn [count_if filter length Nat.eqb]. unfold t_remove_entry_at.
    unfold ltree at 1 2. rewrite map_app. cbn [map upd_path]. rewrite <- (map_length rt pre), upd_nth_app_r.
    cbn [upd_path children set_children ekind].
    rewrite (entry_remove_cs_hole fixed (map rt pre) (Node ENTRY []) (rt (RE e)) (map rt post)).
    change (map rt pre ++ rt (RE e) :: map rt post) with (map rt pre ++ map rt (RE e :: post)). rewrite <- map_app.
    rewrite map_length, remove_at_commute, Hl'. reflexivity.
Qed.

(* ------------------------------------------------------------------ every operation, on the tree of a live layout *)
Definition operands_plain (o : aop) : bool :=
  match o with
  | APush e | AInsert _ e | AReplace _ e => forallb new_only e
  | AEPush _ r | AEReplace _ _ r => new_only r
  | _ => true
  end.

Theorem a_op_tree o l l' : operands_plain o = true -> a_op o l = Some l' -> t_op o (ltree l) = Ok (ltree l').
Proof.
  intros Hn H. destruct o; cbn [a_op operands_plain] in *.
  - (* push *)
    destruct e as [|r rs]; [discriminate|]. cbn [operand_lentry option_map] in H. injection H as <-.
    cbn [t_op]. unfold operand_entry. rewrite (centry_is_lentry r rs Hn). now rewrite push_commute.
  - destruct e as [|r rs]; [discriminate|]. cbn [operand_lentry option_map] in H. injection H as <-.
    cbn [t_op]. unfold operand_entry. rewrite (centry_is_lentry r rs Hn). now rewrite insert_commute.
  - destruct e as [|r rs]; [discriminate|]. cbn [operand_lentry] in H.
    cbn [t_op]. unfold operand_entry. rewrite (centry_is_lentry r rs Hn). now apply replace_commute.
  - now apply remove_entry_commute.
  - (* Entry::push *)
    unfold a_on_entry in H. destruct (nth_entry l i) as [[ci e]|] eqn:He; [|discriminate]. injection H as <-.
    destruct (nth_entry_inv _ _ _ _ He) as (pre & post & -> & <- & Hi).
    cbn [t_op]. rewrite entry_pos_ltree, Hi. unfold operand_rel. rewrite (crel_is_lrel r Hn).
    now rewrite (upd_entry pre e post _ (a_epush e (lrel_new r))) by apply epush_commute.
  - (* Entry::replace *)
    destruct (nth_entry l i) as [[ci e]|] eqn:He; [|discriminate].
    destruct (j <? n_rels e) eqn:Hj; [|discriminate]. injection H as <-.
    destruct (rel_update_commute l i j (fun old => with_trail (l_trail old) (lrel_new r))
                (fun old => dressed old (operand_rel r)) ci e) as (cj & Hp & Hu); auto.
    { intros r0. unfold operand_rel. rewrite (crel_is_lrel r Hn). apply dressed_commute. }
    cbn [t_op]. rewrite Hp, Hu. reflexivity.
  - now apply remove_relation_commute.
  - cbn [t_op]. eapply on_relation_commute; [|exact H]. apply set_version_commute.
  - cbn [t_op]. eapply on_relation_commute; [|exact H]. intros r. apply (set_version_commute None).
  - cbn [t_op]. eapply on_relation_commute; [|exact H]. apply set_archqual_commute.
  - cbn [t_op]. eapply on_relation_commute; [|exact H]. apply set_archs_commute.
  - cbn [t_op]. eapply on_relation_commute; [|exact H]. apply add_profile_commute.
Qed.
