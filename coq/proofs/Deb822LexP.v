(* Lexer: token partition and totality. *)
From V.model Require Import Base Deb822Lex.
From V.proofs Require Import BaseP.

Definition ttext (ts : list token) : str := concat (map snd ts).

Lemma lex_step_spec st c r k t st' r' :
  lex_step st c r = Ok ((k, t), st', r') ->
  t ++ r' = c :: r /\ t <> [] /\ length r' <= length r.
Proof.
  unfold lex_step. intros H.
  repeat match type of H with
  | (if ?b then _ else _) = _ => destruct b
  | (let '(_, _) := span ?p ?s in _) = _ => let E := fresh "E" in destruct (span p s) as [w rr] eqn:E
  end;
  try (inversion H; subst; clear H;
       try (pose proof (span_app _ _ _ _ E) as Ha; pose proof (span_length _ _ _ _ E) as Hl);
       repeat split; cbn; try congruence; try lia).
Qed.

Lemma lex_go_partition fuel : forall st s ts,
  lex_go fuel st s = Ok ts -> ttext ts = s /\ Forall (fun t => snd t <> []) ts.
Proof.
  induction fuel as [|f IH]; intros st s ts H.
  - destruct s; cbn in H; inversion H. split; [reflexivity|constructor].
  - destruct s as [|c r]; cbn [lex_go] in H.
    + inversion H. split; [reflexivity|constructor].
    + destruct (lex_step st c r) as [[[[k t] st'] r']| | |] eqn:E; try discriminate.
      destruct (lex_go f st' r') as [ts'| | |] eqn:E2; try discriminate.
      inversion H; subst ts; clear H.
      apply lex_step_spec in E. destruct E as (Ha & Hn & _).
      apply IH in E2. destruct E2 as (Hb & Hf).
      split.
      * unfold ttext in *. cbn. rewrite Hb. exact Ha.
      * constructor; [exact Hn|exact Hf].
Qed.

Theorem lex_partition sol s ts :
  lex_ sol s = Ok ts -> ttext ts = s /\ Forall (fun t => snd t <> []) ts.
Proof. apply lex_go_partition. Qed.

(* ---- totality: the lexer returns a token list for every input (no panic, enough fuel) ---- *)
Lemma lex_step_total st c r : exists k t st' r',
  lex_step st c r = Ok ((k, t), st', r') /\ length r' <= length r.
Proof.
  unfold lex_step.
  repeat match goal with
  | |- context [if ?b then _ else _] => destruct b
  | |- context [span ?p ?s] => let E := fresh "E" in destruct (span p s) as [w rr] eqn:E;
                               pose proof (span_length _ _ _ _ E)
  end; do 4 eexists; (split; [reflexivity|]); try lia.
Qed.

Lemma lex_go_total fuel : forall st s, length s <= fuel -> exists ts, lex_go fuel st s = Ok ts.
Proof.
  induction fuel as [|f IH]; intros st s Hl.
  - destruct s; [|cbn in Hl; lia]. exists []. reflexivity.
  - destruct s as [|c r]; [exists []; reflexivity|]. cbn [lex_go].
    destruct (lex_step_total st c r) as (k & t & st' & r' & E & Hr). rewrite E.
    destruct (IH st' r') as [ts Ets]; [cbn in Hl; lia|]. rewrite Ets. eexists; reflexivity.
Qed.

Theorem lex_total sol s : exists ts, lex_ sol s = Ok ts.
Proof. apply lex_go_total. lia. Qed.

(* the number of tokens never exceeds the number of characters *)
Lemma lex_go_count fuel : forall st s ts, lex_go fuel st s = Ok ts -> length ts <= length s.
Proof.
  induction fuel as [|f IH]; intros st s ts H.
  - destruct s; cbn in H; inversion H; cbn; lia.
  - destruct s as [|c r]; cbn [lex_go] in H; [inversion H; cbn; lia|].
    destruct (lex_step st c r) as [[[[k t] st'] r']| | |] eqn:E; try discriminate.
    destruct (lex_go f st' r') as [ts'| | |] eqn:E2; try discriminate.
    inversion H; subst. apply lex_step_spec in E. destruct E as (_ & _ & Hr).
    apply IH in E2. cbn. lia.
Qed.
