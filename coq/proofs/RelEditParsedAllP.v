(* Lemmas about RelEdit.v (C11): operands obtained by parsing ANY text read without error as one
   entry (model/RelLiveAllParsed.v) — the mirror of the last part of RelEditParsedP.v, whose store-level
   lemmas (the operand is a node INSIDE another tree) are used as they are. *)
From V.model Require Import Base RelLex RelParse RelAcc RelGrammar RelGrammarAll.
From V.model Require Import RelEdit RelEditSpec RelEditTree RelLiveAll RelLiveAllParsed.
From V.proofs Require Import BaseP RelEditP RelEditStP RelEditHistP RelEditTreeP RelEditReplaceP RelEditParsedP.
From V.proofs Require Import RelGrammarAllParseP RelLiveAllP.
Set Default Timeout 60.

Lemma arels_left_last alts : forall r, arels_left r alts true = [].
Proof. induction alts as [|[w r'] alts' IH]; intros r; [reflexivity|]. apply IH. Qed.
Lemma entry_afield_children lead r alts :
  children (atree_of (entry_afield lead r alts)) = elems lead ++ [Node ENTRY (arels_elems r alts true)].
Proof.
  unfold atree_of, entry_afield. cbn [children af_lead af_first af_rest aitems_elems aitem_elems is_nil].
  rewrite arels_left_last. cbn [elems map app]. now rewrite ?app_nil_r.
Qed.
Lemma elems_not_entry ts : Forall (fun x => is_entry x = false) (elems ts).
Proof. unfold elems. induction ts as [|t r IH]; constructor; [reflexivity|exact IH]. Qed.
Lemma elems_not_relation ts : Forall (fun x => is_relation x = false) (elems ts).
Proof. unfold elems. induction ts as [|t r IH]; constructor; [reflexivity|exact IH]. Qed.
Lemma entry_afield_positions lead r alts :
  nth_index is_entry 0 (children (atree_of (entry_afield lead r alts))) = Some (length (elems lead)) /\
  nth_index is_entry 1 (children (atree_of (entry_afield lead r alts))) = None.
Proof.
  rewrite entry_afield_children. rewrite !nth_index_skip_false by apply elems_not_entry.
  cbn [nth_index]. change (is_entry (Node ENTRY (arels_elems r alts true))) with true. cbn [option_map]. split; [now rewrite Nat.add_0_r|reflexivity].
Qed.
Lemma from_str_arender g : awf false g = true -> relations_from_str (arender g) = Ok (atree_of g).
Proof. intros H. unfold relations_from_str. now rewrite (parse_arender false g H). Qed.

(* ONewEntry 1 (ESParse text): register 3 then points at the entry inside the parsed tree *)
Lemma parse_entry_runs lead r alts ts tid ri T a b c d : awf false (entry_afield lead r alts) = true ->
  nth_error ts tid = Some (mk_slot true ri T) ->
  exists txt,
    runs (run_op fixed (ONewEntry 1 (ESParse (entry_text lead r alts)))) (st5 ts (mk_hnd tid []) a b c d) (4%N, txt)
         (st5 (ts ++ [mk_slot true 0 (atree_of (entry_afield lead r alts))]) (mk_hnd tid []) a b
              (Some (mk_hnd (length ts) ([] ++ [length (elems lead)]))) d) /\
    get_path (atree_of (entry_afield lead r alts)) ([] ++ [length (elems lead)]) = Some (Node ENTRY (arels_elems r alts true)) /\
    length ts <> tid.
Proof.
  intros Hw HT. pose proof (nth_error_Some_lt _ _ _ HT) as Hlt.
  destruct (entry_afield_positions lead r alts) as [P0 P1].
  assert (HGe : get_path (atree_of (entry_afield lead r alts)) ([] ++ [length (elems lead)]) = Some (Node ENTRY (arels_elems r alts true))).
  { cbn [app get_path]. rewrite entry_afield_children, nth_error_app_len. reflexivity. }
  eexists. split; [|split; [exact HGe|lia]].
  cbn [run_op]. unfold st5. eapply runs_try_build.
  - cbn [build_entry]. unfold entry_parse, entry_text. rbind.
    { unfold lift, runs. rewrite (from_str_arender _ Hw). reflexivity. }
    rewrite P0, P1. rbind; [apply runs_alloc|]. apply runs_set_reg.
  - cbn [ereg Nat.mul Nat.add set_reg_l child_h h_tid h_path]. unfold reg_text, node_of_reg.
    rbind; [rbind; [apply runs_get_reg; reflexivity|]; eapply runs_node_of; [apply nth_error_app_at|exact HGe]|].
    rdone.
Qed.
(* ONewRel 1 (RSParse text): register 4 then points at the relation inside the parsed tree *)
Lemma parse_rel_runs lead r ts tid ri T a b c d : awf false (entry_afield lead r []) = true ->
  nth_error ts tid = Some (mk_slot true ri T) ->
  exists txt,
    runs (run_op fixed (ONewRel 1 (RSParse (entry_text lead r [])))) (st5 ts (mk_hnd tid []) a b c d) (4%N, txt)
         (st5 (ts ++ [mk_slot true 0 (atree_of (entry_afield lead r []))]) (mk_hnd tid []) a b c
              (Some (mk_hnd (length ts) ([length (elems lead)] ++ [0])))) /\
    get_path (atree_of (entry_afield lead r [])) ([length (elems lead)] ++ [0]) = Some (arel_tree r true) /\
    length ts <> tid.
Proof.
  intros Hw HT. pose proof (nth_error_Some_lt _ _ _ HT) as Hlt.
  destruct (entry_afield_positions lead r []) as [P0 P1].
  assert (HGe : nth_error (children (atree_of (entry_afield lead r []))) (length (elems lead)) = Some (Node ENTRY (arels_elems r [] true))).
  { rewrite entry_afield_children, nth_error_app_len. reflexivity. }
  assert (HGr : get_path (atree_of (entry_afield lead r [])) ([length (elems lead)] ++ [0]) = Some (arel_tree r true)).
  { cbn [app get_path]. rewrite HGe. reflexivity. }
  assert (R0 : nth_index is_relation 0 (arels_elems r [] true) = Some 0) by reflexivity.
  assert (R1 : nth_index is_relation 1 (arels_elems r [] true) = None).
  { cbn [arels_elems nth_index]. change (is_relation (arel_tree r true)) with true. cbn iota.
    rewrite <- (app_nil_r (elems (arel_left r true))).
    rewrite nth_index_skip_false by apply elems_not_relation. reflexivity. }
  eexists. split; [|split; [exact HGr|lia]].
  cbn [run_op]. unfold st5. eapply runs_try_build.
  - cbn [build_relation]. unfold relation_parse, entry_text. rbind.
    { unfold lift, runs. rewrite (from_str_arender _ Hw). reflexivity. }
    rewrite P0, P1, HGe. cbn [children]. rewrite R0, R1. rbind; [apply runs_alloc|]. apply runs_set_reg.
  - change (rreg 1) with 4. cbn [set_reg_l child_h h_tid h_path app]. unfold reg_text, node_of_reg.
    rbind; [rbind; [apply runs_get_reg; reflexivity|]; eapply runs_node_of; [apply nth_error_app_at|exact HGr]|].
    rdone.
Qed.

(* ------------------------------------------------------------------ one operation with a parsed operand, on any tree *)
Definition preplace_ready (o : pop) (T : rtree) : Prop :=
  match o with
  | PEReplace i j _ _ => forall ci cj O, rel_pos T i j = Some (ci, cj) -> get_path T [ci; cj] = Some O ->
                                         ws_prefix_len (children O) = 0
  | _ => True
  end.

Definition popen_ok (o : pop) : bool :=
  match o with
  | PPush lead r alts | PInsert _ lead r alts | PReplace _ lead r alts => awf false (entry_afield lead r alts)
  | PEPush _ lead r | PEReplace _ _ lead r => awf false (entry_afield lead r [])
  end.
Theorem pop_step_tree o T T' st :
  popen_ok o = true -> is_node T = true -> preplace_ready o T -> holds st T -> tt_op (ptop o) T = Ok T' ->
  exists st', run_ops fixed (pcompile o) st = Ok st' /\ holds st' T'.
Proof.
  intros Hw HnT Hready (ts & tid & ri & a & b & c & d & -> & HT) Ht.
  destruct o; cbn [popen_ok ptop tt_op pcompile preplace_ready] in *.
  - (* push *)
    injection Ht as <-. destruct T as [kT sT|kT csT]; [discriminate|].
    destruct (parse_entry_runs lead r alts ts tid ri _ a b c d Hw HT) as (txt & R1 & HG & Ne).
    destruct (push_runs (ts ++ [mk_slot true 0 (atree_of (entry_afield lead r alts))]) tid ri kT csT a b d (length ts) ([] ++ [length (elems lead)]) _ _
                (nth_error_app_l _ _ _ _ HT) (nth_error_app_at _ _) HG) as (ts2 & a2 & b2 & d2 & R2 & T2).
    eexists. split.
    + eapply run_ops_cons; [exact R1|]. eapply run_ops_cons; [exact R2|reflexivity].
    + eapply holds_st5. exact T2.
  - (* insert *)
    injection Ht as <-. destruct T as [kT sT|kT csT]; [discriminate|].
    destruct (parse_entry_runs lead r alts ts tid ri _ a b c d Hw HT) as (txt & R1 & HG & Ne).
    destruct (insert_runs i (ts ++ [mk_slot true 0 (atree_of (entry_afield lead r alts))]) tid ri kT csT a b d (length ts) ([] ++ [length (elems lead)]) _ _
                (nth_error_app_l _ _ _ _ HT) (nth_error_app_at _ _) HG) as (ts2 & a2 & b2 & d2 & R2 & T2).
    eexists. split.
    + eapply run_ops_cons; [exact R1|]. eapply run_ops_cons; [exact R2|reflexivity].
    + eapply holds_st5. exact T2.
  - (* replace *)
    destruct (entry_pos T i) as [ci|] eqn:Ep; [|discriminate]. injection Ht as <-.
    destruct (entry_pos_split _ _ _ Ep) as (k & pre & E & post & -> & <- & PE).
    destruct (parse_entry_runs lead r alts ts tid ri _ a b c d Hw HT) as (txt & R1 & HG & Ne).
    destruct (replace_runs_sub k pre E post _ (ts ++ [mk_slot true 0 (atree_of (entry_afield lead r alts))]) tid ri a b d
                (length ts) 0 _ [] (length (elems lead)) i (nth_error_app_l _ _ _ _ HT) Ep (nth_error_app_at _ _) HG ltac:(congruence))
      as (ts2 & a2 & b2 & d2 & R2 & T2).
    eexists. split.
    + eapply run_ops_cons; [exact R1|]. eapply run_ops_cons; [exact R2|reflexivity].
    + eapply holds_st5. rewrite T2. cbn [children set_children ekind]. now rewrite replace_at_split.
  - (* Entry::push *)
    destruct (entry_pos T i) as [ci|] eqn:Ep; [|discriminate]. injection Ht as <-.
    destruct (entry_pos_split _ _ _ Ep) as (k & pre & E & post & -> & <- & PE).
    destruct (parse_rel_runs lead r ts tid ri _ a b c d Hw HT) as (txt & R1 & HG & Ne).
    set (ts1 := ts ++ [mk_slot true 0 (atree_of (entry_afield lead r []))]) in *.
    pose proof (get_entry_runs_gen _ i (length pre) ts1 tid ri a b c
                  (Some (mk_hnd (length ts) ([length (elems lead)] ++ [0]))) (nth_error_app_l _ _ _ _ HT) Ep) as R2.
    destruct (is_entry_node _ PE) as (ecs & ->).
    destruct (epush_runs_gen k pre ENTRY ecs post (arel_tree r true) ts1 tid ri b c (length ts) ([length (elems lead)] ++ [0]) _
                (nth_error_app_l _ _ _ _ HT) (nth_error_app_at _ _) HG) as (ts3 & a3 & b3 & c3 & x & R3 & T3).
    eexists. split.
    + eapply run_ops_cons; [exact R1|]. eapply run_ops_cons; [exact R2|]. eapply run_ops_cons; [exact R3|reflexivity].
    + eapply holds_st5. rewrite T3. f_equal. f_equal. cbn [upd_path]. now rewrite upd_nth_app_r.
  - (* Entry::replace *)
    destruct (rel_pos T i j) as [[ci cj]|] eqn:Ep; [|destruct (entry_pos T i); discriminate]. injection Ht as <-.
    destruct (rel_pos_inv _ _ _ _ _ Ep) as (E & P1 & P2 & P3 & _).
    destruct (entry_pos_split _ _ _ P1) as (k & epre & E' & epost & -> & <- & PE).
    unfold child_at in P2. cbn [children] in P2. rewrite nth_error_app_len in P2. injection P2 as <-.
    destruct (is_entry_node _ PE) as (ecs & ->). cbn [children] in *.
    destruct (nth_index_split _ _ _ _ P3) as (pre & x & post & -> & <- & Px).
    destruct (is_relation_node _ Px) as (ocs & ->).
    assert (Hh : ws_prefix_len ocs = 0).
    { apply (Hready (length epre) (length pre) (Node RELATION ocs) eq_refl).
      cbn [get_path children]. rewrite nth_error_app_len. cbn [children]. now rewrite nth_error_app_len. }
    destruct (parse_rel_runs lead r ts tid ri _ a b c d Hw HT) as (txt & R1 & HG & Ne).
    set (ts1 := ts ++ [mk_slot true 0 (atree_of (entry_afield lead r []))]) in *.
    pose proof (get_entry_runs_gen _ i (length epre) ts1 tid ri a b c
                  (Some (mk_hnd (length ts) ([length (elems lead)] ++ [0]))) (nth_error_app_l _ _ _ _ HT) P1) as R2.
    assert (Hrel : exists ncs, arel_tree r true = Node RELATION ncs /\ ws_prefix_len ncs = 0) by (eexists; split; reflexivity).
    destruct Hrel as (ncs & Encs & Wh). rewrite Encs in *.
    destruct (ereplace_runs_sub k epre epost pre ocs post ncs j ts1 tid ri b c (length ts) 0 _ [length (elems lead)] 0
                (nth_error_app_l _ _ _ _ HT) (nth_error_app_at _ _) HG ltac:(congruence) P3 Hh Wh) as (ts3 & a3 & b3 & c3 & xx & R3 & T3).
    eexists. split.
    + eapply run_ops_cons; [exact R1|]. eapply run_ops_cons; [exact R2|]. eapply run_ops_cons; [exact R3|reflexivity].
    + eapply holds_st5. rewrite T3. f_equal. f_equal. cbn [upd_path]. rewrite upd_nth_app_r. cbn [upd_path].
      now rewrite upd_nth_app_r.
Qed.
