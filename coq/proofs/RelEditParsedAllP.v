(* Lemmas about RelEdit.v (C11): operands obtained by parsing ANY text read without error as one
   entry (model/RelLiveAllParsed.v) — the mirror of the last part of RelEditParsedP.v, whose store-level
   lemmas (the operand is a node INSIDE another tree) are used as they are. *)
From V.model Require Import Base RelLex RelParse RelAcc RelGrammar RelGrammarAll.
From V.model Require Import RelEdit RelEditSpec RelEditTree RelLiveAll RelLiveAllParsed.
From V.proofs Require Import BaseP RelEditP RelEditStP RelEditHistP RelEditTreeP RelEditReplaceP RelEditParsedP.
From V.proofs Require Import RelGrammarAllParseP RelLiveAllP.

Lemma elems_app a b : elems (a ++ b) = elems a ++ elems b.
Proof. apply map_app. Qed.
Definition more_elems (more : list (list rtoken * aitem)) : list rtree :=
  match more with [] => [] | (w, i') :: more' => Tok COMMA [44%N] :: elems w ++ aitems_elems i' more' end.
Lemma aitems_elems_eq i more : aitems_elems i more = aitem_elems i (is_nil more) ++ more_elems more.
Proof. destruct more as [|[w i'] more']; reflexivity. Qed.
Lemma more_elems_emp post : more_elems (map emp post) = elems (flat_map comma_w post).
Proof.
  induction post as [|w post' IH]; [reflexivity|]. cbn [map emp more_elems flat_map comma_w]. fold (emp w).
  rewrite aitems_elems_eq, IH. cbn [aitem_elems app]. change (elems (((COMMA, [44%N]) :: w) ++ flat_map comma_w post'))
    with (Tok COMMA [44%N] :: elems (w ++ flat_map comma_w post')). now rewrite elems_app.
Qed.
Lemma is_nil_map {A B} (f : A -> B) l : is_nil (map f l) = is_nil l.
Proof. now destruct l. Qed.
Lemma aitems_place e post : forall pre w,
  aitems_elems AEmpty (place w pre e post) = elems (flat_map comma_w (w :: pre)) ++ aitems_elems e post.
Proof.
  induction pre as [|w' pre' IH]; intros w; cbn [place aitems_elems aitem_elems app is_nil]; [|rewrite IH];
    cbn [flat_map comma_w]; unfold elems; rewrite ?map_app; cbn [map app tk fst snd]; rewrite <- ?app_assoc; reflexivity.
Qed.
Lemma entry_afield_children lead pre r alts post :
  children (atree_of (entry_afield lead pre r alts post)) =
  elems (pre_toks lead pre) ++ Node ENTRY (arels_elems r alts (is_nil post)) :: elems (arels_left r alts (is_nil post) ++ flat_map comma_w post).
Proof.
  assert (E : aitems_elems (AEntry r alts) (map emp post) =
              Node ENTRY (arels_elems r alts (is_nil post)) :: elems (arels_left r alts (is_nil post) ++ flat_map comma_w post)).
  { rewrite aitems_elems_eq, more_elems_emp, is_nil_map. cbn [aitem_elems app]. now rewrite elems_app. }
  unfold atree_of, entry_afield, pre_toks. destruct pre as [|w pre']; cbn [children af_lead af_first af_rest].
  - cbn [flat_map]. now rewrite app_nil_r, E.
  - rewrite aitems_place, E, ?elems_app, <- ?app_assoc. reflexivity.
Qed.
Lemma elems_not_entry ts : Forall (fun x => is_entry x = false) (elems ts).
Proof. unfold elems. induction ts as [|t r IH]; constructor; [reflexivity|exact IH]. Qed.
Lemma elems_not_relation ts : Forall (fun x => is_relation x = false) (elems ts).
Proof. unfold elems. induction ts as [|t r IH]; constructor; [reflexivity|exact IH]. Qed.
Lemma nth_index_all_false {A} (p : A -> bool) n l : Forall (fun x => p x = false) l -> nth_index p n l = None.
Proof. intros H. rewrite <- (app_nil_r l). now rewrite nth_index_skip_false by exact H. Qed.
Lemma entry_at_len lead pre : length (elems (pre_toks lead pre)) = entry_at lead pre.
Proof. unfold entry_at, elems. apply map_length. Qed.
Lemma entry_afield_positions lead pre r alts post :
  nth_index is_entry 0 (children (atree_of (entry_afield lead pre r alts post))) = Some (entry_at lead pre) /\
  nth_index is_entry 1 (children (atree_of (entry_afield lead pre r alts post))) = None /\
  nth_error (children (atree_of (entry_afield lead pre r alts post))) (entry_at lead pre) = Some (Node ENTRY (arels_elems r alts (is_nil post))).
Proof.
  rewrite entry_afield_children, <- entry_at_len. rewrite !nth_index_skip_false by apply elems_not_entry.
  cbn [nth_index]. change (is_entry (Node ENTRY (arels_elems r alts (is_nil post)))) with true. cbn iota.
  rewrite (nth_index_all_false is_entry 0) by apply elems_not_entry. cbn [option_map].
  split; [now rewrite Nat.add_0_r|]. split; [reflexivity|]. now rewrite nth_error_app_len.
Qed.
Lemma from_str_arender g : awf false g = true -> relations_from_str (arender g) = Ok (atree_of g).
Proof. intros H. unfold relations_from_str. now rewrite (parse_arender false g H). Qed.

(* ONewEntry 1 (ESParse text): register 3 then points at the entry inside the parsed tree *)
Lemma parse_entry_runs x r alts ts tid ri T a b c d : awf false (ptext_field x r alts) = true ->
  nth_error ts tid = Some (mk_slot true ri T) ->
  exists txt,
    runs (run_op fixed (ONewEntry 1 (ESParse (ptext_text x r alts)))) (st5 ts (mk_hnd tid []) a b c d) (4%N, txt)
         (st5 (ts ++ [mk_slot true 0 (atree_of (ptext_field x r alts))]) (mk_hnd tid []) a b
              (Some (mk_hnd (length ts) ([] ++ [entry_at (p_lead x) (p_pre x)]))) d) /\
    get_path (atree_of (ptext_field x r alts)) ([] ++ [entry_at (p_lead x) (p_pre x)]) = Some (Node ENTRY (arels_elems r alts (p_last x))) /\
    length ts <> tid.
Proof.
  intros Hw HT. pose proof (nth_error_Some_lt _ _ _ HT) as Hlt. unfold ptext_text, ptext_field, p_last in *.
  destruct (entry_afield_positions (p_lead x) (p_pre x) r alts (p_post x)) as (P0 & P1 & PE).
  set (g := entry_afield (p_lead x) (p_pre x) r alts (p_post x)) in *.
  assert (HGe : get_path (atree_of g) ([] ++ [entry_at (p_lead x) (p_pre x)]) = Some (Node ENTRY (arels_elems r alts (is_nil (p_post x))))).
  { cbn [app get_path]. rewrite PE. reflexivity. }
  eexists. split; [|split; [exact HGe|lia]].
  cbn [run_op]. unfold st5. eapply runs_try_build.
  - cbn [build_entry]. unfold entry_parse. rbind.
    { unfold lift, runs. rewrite (from_str_arender _ Hw). reflexivity. }
    rewrite P0, P1. rbind; [apply runs_alloc|]. apply runs_set_reg.
  - cbn [ereg Nat.mul Nat.add set_reg_l child_h h_tid h_path]. unfold reg_text, node_of_reg.
    rbind; [rbind; [apply runs_get_reg; reflexivity|]; eapply runs_node_of; [apply nth_error_app_at|exact HGe]|].
    rdone.
Qed.
(* ONewRel 1 (RSParse text): register 4 then points at the relation inside the parsed tree *)
Lemma parse_rel_runs x r ts tid ri T a b c d : awf false (ptext_field x r []) = true ->
  nth_error ts tid = Some (mk_slot true ri T) ->
  exists txt,
    runs (run_op fixed (ONewRel 1 (RSParse (ptext_text x r [])))) (st5 ts (mk_hnd tid []) a b c d) (4%N, txt)
         (st5 (ts ++ [mk_slot true 0 (atree_of (ptext_field x r []))]) (mk_hnd tid []) a b c
              (Some (mk_hnd (length ts) ([entry_at (p_lead x) (p_pre x)] ++ [0])))) /\
    get_path (atree_of (ptext_field x r [])) ([entry_at (p_lead x) (p_pre x)] ++ [0]) = Some (arel_tree r (p_last x)) /\
    length ts <> tid.
Proof.
  intros Hw HT. pose proof (nth_error_Some_lt _ _ _ HT) as Hlt. unfold ptext_text, ptext_field, p_last in *.
  destruct (entry_afield_positions (p_lead x) (p_pre x) r [] (p_post x)) as (P0 & P1 & HGe).
  set (g := entry_afield (p_lead x) (p_pre x) r [] (p_post x)) in *. set (last := is_nil (p_post x)) in *.
  assert (HGr : get_path (atree_of g) ([entry_at (p_lead x) (p_pre x)] ++ [0]) = Some (arel_tree r last)).
  { cbn [app get_path]. rewrite HGe. reflexivity. }
  assert (R0 : nth_index is_relation 0 (arels_elems r [] last) = Some 0) by reflexivity.
  assert (R1 : nth_index is_relation 1 (arels_elems r [] last) = None).
  { cbn [arels_elems nth_index]. change (is_relation (arel_tree r last)) with true. cbn iota.
    rewrite nth_index_all_false; [reflexivity|]. destruct last; [apply elems_not_relation|constructor]. }
  eexists. split; [|split; [exact HGr|lia]].
  cbn [run_op]. unfold st5. eapply runs_try_build.
  - cbn [build_relation]. unfold relation_parse. rbind.
    { unfold lift, runs. rewrite (from_str_arender _ Hw). reflexivity. }
    rewrite P0, P1, HGe. cbn [children]. rewrite R0, R1. rbind; [apply runs_alloc|]. apply runs_set_reg.
  - change (rreg 1) with 4. cbn [set_reg_l child_h h_tid h_path app]. unfold reg_text, node_of_reg.
    rbind; [rbind; [apply runs_get_reg; reflexivity|]; eapply runs_node_of; [apply nth_error_app_at|exact HGr]|].
    rdone.
Qed.

(* ------------------------------------------------------------------ one operation with a parsed operand, on any tree *)
Definition preplace_ready (o : pop) (T : rtree) : Prop :=
  match o with
  | PEReplace i j _ _ => forall ci cj O, rel_pos T i j = Some (ci, cj) -> get_path T [ci; cj] = Some O ->
                                         ws_prefix_len (children O) = 0
  | _ => True
  end.

Definition popen_ok (o : pop) : bool :=
  match o with
  | PPush x r alts | PInsert _ x r alts | PReplace _ x r alts => awf false (ptext_field x r alts)
  | PEPush _ x r | PEReplace _ _ x r => awf false (ptext_field x r [])
  end.
Theorem pop_step_tree o T T' st :
  popen_ok o = true -> is_node T = true -> preplace_ready o T -> holds st T -> tt_op (ptop o) T = Ok T' ->
  exists st', run_ops fixed (pcompile o) st = Ok st' /\ holds st' T'.
Proof.
  intros Hw HnT Hready (ts & tid & ri & a & b & c & d & -> & HT) Ht.
  destruct o; cbn [popen_ok ptop tt_op pcompile preplace_ready] in *.
  - (* push *)
    injection Ht as <-. destruct T as [kT sT|kT csT]; [discriminate|].
    destruct (parse_entry_runs x r alts ts tid ri _ a b c d Hw HT) as (txt & R1 & HG & Ne).
    destruct (push_runs (ts ++ [mk_slot true 0 (atree_of (ptext_field x r alts))]) tid ri kT csT a b d (length ts) ([] ++ [entry_at (p_lead x) (p_pre x)]) _ _
                (nth_error_app_l _ _ _ _ HT) (nth_error_app_at _ _) HG) as (ts2 & a2 & b2 & d2 & R2 & T2).
    eexists. split.
    + eapply run_ops_cons; [exact R1|]. eapply run_ops_cons; [exact R2|reflexivity].
    + eapply holds_st5. exact T2.
  - (* insert *)
    injection Ht as <-. destruct T as [kT sT|kT csT]; [discriminate|].
    destruct (parse_entry_runs x r alts ts tid ri _ a b c d Hw HT) as (txt & R1 & HG & Ne).
    destruct (insert_runs i (ts ++ [mk_slot true 0 (atree_of (ptext_field x r alts))]) tid ri kT csT a b d (length ts) ([] ++ [entry_at (p_lead x) (p_pre x)]) _ _
                (nth_error_app_l _ _ _ _ HT) (nth_error_app_at _ _) HG) as (ts2 & a2 & b2 & d2 & R2 & T2).
    eexists. split.
    + eapply run_ops_cons; [exact R1|]. eapply run_ops_cons; [exact R2|reflexivity].
    + eapply holds_st5. exact T2.
  - (* replace *)
    destruct (entry_pos T i) as [ci|] eqn:Ep; [|discriminate]. injection Ht as <-.
    destruct (entry_pos_split _ _ _ Ep) as (k & pre & E & post & -> & <- & PE).
    destruct (parse_entry_runs x r alts ts tid ri _ a b c d Hw HT) as (txt & R1 & HG & Ne).
    destruct (replace_runs_sub k pre E post _ (ts ++ [mk_slot true 0 (atree_of (ptext_field x r alts))]) tid ri a b d
                (length ts) 0 _ [] (entry_at (p_lead x) (p_pre x)) i (nth_error_app_l _ _ _ _ HT) Ep (nth_error_app_at _ _) HG ltac:(congruence))
      as (ts2 & a2 & b2 & d2 & R2 & T2).
    eexists. split.
    + eapply run_ops_cons; [exact R1|]. eapply run_ops_cons; [exact R2|reflexivity].
    + eapply holds_st5. rewrite T2. cbn [children set_children ekind]. now rewrite replace_at_split.
  - (* Entry::push *)
    destruct (entry_pos T i) as [ci|] eqn:Ep; [|discriminate]. injection Ht as <-.
    destruct (entry_pos_split _ _ _ Ep) as (k & pre & E & post & -> & <- & PE).
    destruct (parse_rel_runs x r ts tid ri _ a b c d Hw HT) as (txt & R1 & HG & Ne).
    set (ts1 := ts ++ [mk_slot true 0 (atree_of (ptext_field x r []))]) in *.
    pose proof (get_entry_runs_gen _ i (length pre) ts1 tid ri a b c
                  (Some (mk_hnd (length ts) ([entry_at (p_lead x) (p_pre x)] ++ [0]))) (nth_error_app_l _ _ _ _ HT) Ep) as R2.
    destruct (is_entry_node _ PE) as (ecs & ->).
    destruct (epush_runs_gen k pre ENTRY ecs post (arel_tree r (p_last x)) ts1 tid ri b c (length ts) ([entry_at (p_lead x) (p_pre x)] ++ [0]) _
                (nth_error_app_l _ _ _ _ HT) (nth_error_app_at _ _) HG) as (ts3 & a3 & b3 & c3 & x0 & R3 & T3).
    eexists. split.
    + eapply run_ops_cons; [exact R1|]. eapply run_ops_cons; [exact R2|]. eapply run_ops_cons; [exact R3|reflexivity].
    + eapply holds_st5. rewrite T3. f_equal. f_equal. cbn [upd_path]. now rewrite upd_nth_app_r.
  - (* Entry::replace *)
    destruct (rel_pos T i j) as [[ci cj]|] eqn:Ep; [|destruct (entry_pos T i); discriminate]. injection Ht as <-.
    destruct (rel_pos_inv _ _ _ _ _ Ep) as (E & P1 & P2 & P3 & _).
    destruct (entry_pos_split _ _ _ P1) as (k & epre & E' & epost & -> & <- & PE).
    unfold child_at in P2. cbn [children] in P2. rewrite nth_error_app_len in P2. injection P2 as <-.
    destruct (is_entry_node _ PE) as (ecs & ->). cbn [children] in *.
    destruct (nth_index_split _ _ _ _ P3) as (pre & x0 & post & -> & <- & Px).
    destruct (is_relation_node _ Px) as (ocs & ->).
    assert (Hh : ws_prefix_len ocs = 0).
    { apply (Hready (length epre) (length pre) (Node RELATION ocs) eq_refl).
      cbn [get_path children]. rewrite nth_error_app_len. cbn [children]. now rewrite nth_error_app_len. }
    destruct (parse_rel_runs x r ts tid ri _ a b c d Hw HT) as (txt & R1 & HG & Ne).
    set (ts1 := ts ++ [mk_slot true 0 (atree_of (ptext_field x r []))]) in *.
    pose proof (get_entry_runs_gen _ i (length epre) ts1 tid ri a b c
                  (Some (mk_hnd (length ts) ([entry_at (p_lead x) (p_pre x)] ++ [0]))) (nth_error_app_l _ _ _ _ HT) P1) as R2.
    assert (Hrel : exists ncs, arel_tree r (p_last x) = Node RELATION ncs /\ ws_prefix_len ncs = 0) by (eexists; split; reflexivity).
    destruct Hrel as (ncs & Encs & Wh). rewrite Encs in *.
    destruct (ereplace_runs_sub k epre epost pre ocs post ncs j ts1 tid ri b c (length ts) 0 _ [entry_at (p_lead x) (p_pre x)] 0
                (nth_error_app_l _ _ _ _ HT) (nth_error_app_at _ _) HG ltac:(congruence) P3 Hh Wh) as (ts3 & a3 & b3 & c3 & xx & R3 & T3).
    eexists. split.
    + eapply run_ops_cons; [exact R1|]. eapply run_ops_cons; [exact R2|]. eapply run_ops_cons; [exact R3|reflexivity].
    + eapply holds_st5. rewrite T3. f_equal. f_equal. cbn [upd_path]. rewrite upd_nth_app_r. cbn [upd_path].
      now rewrite upd_nth_app_r.
Qed.
