(* C05: add / insert / remove paragraph on live documents. *)
From V.model Require Import Base Deb822Lex Deb822Parse Grammar Lossy LossySpec Deb822Edit LiveDoc.
From V.proofs Require Import BaseP GrammarAccP LossyRtP Deb822EditP LiveDocP.

(* ---- list surgery ---- *)
Lemma insert_at_length {A} (l new : list A) : insert_at (length l) new l = l ++ new.
Proof. induction l as [|x r IH]; [cbn; rewrite app_nil_r; reflexivity|]. cbn. rewrite IH. reflexivity. Qed.

Lemma is_node_lblock_tree b : is_node (lblock_tree b) = true.
Proof. destruct b; reflexivity. Qed.

Lemma count_nodes_ltree d : count_nodes (map lblock_tree d) = length d.
Proof.
  unfold count_nodes. induction d as [|b r IH]; [reflexivity|]. cbn [map filter]. rewrite is_node_lblock_tree. cbn [length]. rewrite IH. reflexivity.
Qed.

(* ---- ensure_trailing_newline on the root ---- *)
Lemma ensure_nl_lblock b :
  ensure_nl (lblock_tree b) = lblock_tree (match b with LBlank => LBlank | LComment c _ => LComment c true | LPara its => LPara (terminate_last its) end).
Proof.
  destruct b as [|c nl|its]; cbn [lblock_tree].
  - reflexivity.
  - unfold comment_elems. destruct nl; reflexivity.
  - change (ensure_nl (Node PARAGRAPH ?l)) with (Node PARAGRAPH (ensure_nl_list l)). rewrite ensure_nl_items. reflexivity.
Qed.

Lemma ensure_nl_root d : ensure_nl_list (map lblock_tree d) = map lblock_tree (terminate_doc d).
Proof.
  induction d as [|b r IH]; [reflexivity|]. destruct r as [|b2 r2].
  - rewrite ensure_nl_list_spec. cbn [map rev app].
    assert (E : match lblock_tree b with
                | Tok NEWLINE _ => [lblock_tree b]
                | Tok _ _ => [lblock_tree b; Tok NEWLINE [10%N]]
                | Node _ _ => [ensure_nl (lblock_tree b)]
                end = [ensure_nl (lblock_tree b)]) by (destruct b; reflexivity).
    rewrite E, ensure_nl_lblock. destruct b; reflexivity.
  - assert (Et : terminate_doc (b :: b2 :: r2) = b :: terminate_doc (b2 :: r2)) by (destruct b; reflexivity).
    rewrite Et. cbn [map] in *. rewrite <- IH.
    assert (G : forall (a c : list tree), c <> [] -> ensure_nl_list (a ++ c) = a ++ ensure_nl_list c).
    { intros a c Hc. rewrite !ensure_nl_list_spec. rewrite rev_app_distr.
      destruct (rev c) as [|x w] eqn:Er.
      - exfalso. apply Hc. rewrite <- (rev_involutive c), Er. reflexivity.
      - cbn [app]. rewrite rev_app_distr, rev_involutive, <- app_assoc. reflexivity. }
    apply (G [lblock_tree b]). discriminate.
Qed.

(* ---- add_paragraph ---- *)
Theorem commute_add d : add_paragraph (ltree_of d) = ltree_of (a_add d).
Proof.
  unfold add_paragraph, ltree_of, insert_empty_paragraph. cbn [children]. f_equal.
  rewrite ensure_nl_root, count_nodes_ltree.
  destruct d as [|b r]; [reflexivity|].
  assert (El : length (terminate_doc (b :: r)) = length (b :: r)).
  { generalize (b :: r). induction l as [|x l IH]; [reflexivity|]. destruct l as [|y l2]; [destruct x; reflexivity|].
    assert (Et : terminate_doc (x :: y :: l2) = x :: terminate_doc (y :: l2)) by (destruct x; reflexivity).
    rewrite Et. cbn [length] in *. rewrite IH. reflexivity. }
  rewrite El at 2. cbn [length].
  rewrite <- (map_length lblock_tree (terminate_doc (b :: r))), insert_at_length.
  cbn [a_add]. rewrite map_app. reflexivity.
Qed.

(* ---- remove_paragraph ---- *)
Lemma is_paragraph_lblock b : is_paragraph (lblock_tree b) = negb (is_empty_line_block b).
Proof. destruct b; reflexivity. Qed.

Lemma para_slot_ltree d : forall n i,
  para_slot n (map lblock_tree d) i =
  match nth_para d n with
  | None => None
  | Some _ => para_slot n (map lblock_tree d) i
  end.
Proof.
  induction d as [|b r IH]; intros n i; [reflexivity|]. cbn [map para_slot nth_para].
  rewrite is_paragraph_lblock. destruct b as [|c nl|its]; cbn [is_empty_line_block negb]; try apply IH.
  destruct n; [reflexivity|apply IH].
Qed.

Theorem commute_remove_para d : forall i, remove_paragraph (ltree_of d) i = ltree_of (a_remove_para d i).
Proof.
  unfold remove_paragraph, ltree_of. cbn [children].
  assert (G : forall d i off,
    match para_slot i (map lblock_tree d) off with
    | Some slot => off <= slot /\
        delete_trailing_space (delete_at (slot - off) (map lblock_tree d)) (slot - off) = map lblock_tree (a_remove_para d i)
    | None => a_remove_para d i = d
    end).
  { clear d. induction d as [|b r IH]; intros i off; [reflexivity|]. cbn [map para_slot a_remove_para].
    rewrite is_paragraph_lblock.
    destruct b as [|c nl|its]; cbn [is_empty_line_block negb].
    - specialize (IH i (S off)). destruct (para_slot i (map lblock_tree r) (S off)) as [slot|].
      + destruct IH as [Hl IH]. split; [lia|]. replace (slot - off) with (S (slot - S off)) by lia.
        cbn [delete_at]. unfold delete_trailing_space in *. cbn [nth_error].
        destruct (nth_error (delete_at (slot - S off) (map lblock_tree r)) (slot - S off)) as [x|];
          [destruct (kind_eqb (ekind x) EMPTY_LINE); cbn [delete_at map]; rewrite <- IH; reflexivity|cbn [map]; rewrite <- IH; reflexivity].
      + rewrite IH. reflexivity.
    - specialize (IH i (S off)). destruct (para_slot i (map lblock_tree r) (S off)) as [slot|].
      + destruct IH as [Hl IH]. split; [lia|]. replace (slot - off) with (S (slot - S off)) by lia.
        cbn [delete_at]. unfold delete_trailing_space in *. cbn [nth_error].
        destruct (nth_error (delete_at (slot - S off) (map lblock_tree r)) (slot - S off)) as [x|];
          [destruct (kind_eqb (ekind x) EMPTY_LINE); cbn [delete_at map]; rewrite <- IH; reflexivity|cbn [map]; rewrite <- IH; reflexivity].
      + rewrite IH. reflexivity.
    - destruct i as [|i'].
      + split; [lia|]. rewrite Nat.sub_diag. cbn [delete_at]. unfold delete_trailing_space. 
        destruct r as [|b2 r2]; [reflexivity|]. cbn [map nth_error]. 
        destruct b2 as [|c2 nl2|its2]; cbn [lblock_tree ekind is_empty_line_block]; reflexivity.
      + specialize (IH i' (S off)). destruct (para_slot i' (map lblock_tree r) (S off)) as [slot|].
        * destruct IH as [Hl IH]. split; [lia|]. replace (slot - off) with (S (slot - S off)) by lia.
          cbn [delete_at]. unfold delete_trailing_space in *. cbn [nth_error].
          destruct (nth_error (delete_at (slot - S off) (map lblock_tree r)) (slot - S off)) as [x|];
            [destruct (kind_eqb (ekind x) EMPTY_LINE); cbn [delete_at map]; rewrite <- IH; reflexivity|cbn [map]; rewrite <- IH; reflexivity].
        * rewrite IH. reflexivity. }
  intros i. specialize (G d i 0). destruct (para_slot i (map lblock_tree d) 0) as [slot|].
  - destruct G as [_ G]. rewrite Nat.sub_0_r in G. rewrite G. reflexivity.
  - rewrite G. reflexivity.
Qed.

(* ---- insert_paragraph ---- *)
Lemma para_slot_insert d : forall n off new,
  match para_slot n (map lblock_tree d) off with
  | Some slot => off <= slot /\
      exists d', insert_before_para n new d = Some d' /\
                 insert_at (slot - off) (map lblock_tree new) (map lblock_tree d) = map lblock_tree d'
  | None => insert_before_para n new d = None
  end.
Proof.
  induction d as [|b r IH]; intros n off new; [reflexivity|]. cbn [map para_slot insert_before_para].
  rewrite is_paragraph_lblock. destruct b as [|c nl|its]; cbn [is_empty_line_block negb].
  - specialize (IH n (S off) new). destruct (para_slot n (map lblock_tree r) (S off)) as [slot|].
    + destruct IH as (Hl & d' & E1 & E2). split; [lia|]. rewrite E1. eexists. split; [reflexivity|].
      replace (slot - off) with (S (slot - S off)) by lia. cbn [insert_at map]. rewrite E2. reflexivity.
    + rewrite IH. reflexivity.
  - specialize (IH n (S off) new). destruct (para_slot n (map lblock_tree r) (S off)) as [slot|].
    + destruct IH as (Hl & d' & E1 & E2). split; [lia|]. rewrite E1. eexists. split; [reflexivity|].
      replace (slot - off) with (S (slot - S off)) by lia. cbn [insert_at map]. rewrite E2. reflexivity.
    + rewrite IH. reflexivity.
  - destruct n as [|n'].
    + split; [lia|]. eexists. split; [reflexivity|]. rewrite Nat.sub_diag. cbn [insert_at]. rewrite map_app. reflexivity.
    + specialize (IH n' (S off) new). destruct (para_slot n' (map lblock_tree r) (S off)) as [slot|].
      * destruct IH as (Hl & d' & E1 & E2). split; [lia|]. rewrite E1. eexists. split; [reflexivity|].
        replace (slot - off) with (S (slot - S off)) by lia. cbn [insert_at map]. rewrite E2. reflexivity.
      * rewrite IH. reflexivity.
Qed.

Theorem commute_insert_para d i : insert_paragraph (ltree_of d) i = ltree_of (a_insert_para d i).
Proof.
  destruct d as [|b r].
  - unfold insert_paragraph, ltree_of, insert_empty_paragraph, convert_index. cbn [children map].
    destruct i; reflexivity.
  - destruct i as [|i'].
    + unfold insert_paragraph, ltree_of, insert_empty_paragraph, convert_index. cbn [children]. f_equal.
      rewrite count_nodes_ltree. cbn [length insert_at a_insert_para map app]. reflexivity.
    + unfold insert_paragraph. cbn [convert_index]. remember (b :: r) as d eqn:Ed.
      pose proof (para_slot_insert d (S i') 0 [LPara []; LBlank]) as G.
      change (children (ltree_of d)) with (map lblock_tree d).
      destruct (para_slot (S i') (map lblock_tree d) 0) as [slot|] eqn:Es.
      * destruct G as (_ & d' & E1 & E2). rewrite Nat.sub_0_r in E2.
        unfold insert_empty_paragraph. rewrite count_nodes_ltree.
        assert (Hl : length d <> 0) by (subst d; discriminate).
        destruct (length d) eqn:El; [congruence|].
        unfold ltree_of. f_equal. subst d. cbn [a_insert_para]. rewrite E1.
        change [Node PARAGRAPH []; blank_line_node] with (map lblock_tree [LPara []; LBlank]). exact E2.
      * change (Node ROOT (insert_empty_paragraph (map lblock_tree d) None)) with (add_paragraph (ltree_of d)).
        rewrite commute_add. subst d. cbn [a_insert_para]. rewrite G. reflexivity.
Qed.

(* ---- well-formedness is preserved ---- *)
Lemma lwf_cons b r : lwf (b :: r) =
  match b with
  | LBlank => true
  | LComment c nl => wf_comment c nl (match r with [] => false | _ => true end)
  | LPara its => wf_items its (match r with [] => false | _ => true end) &&
                 match r with [] => true | LBlank :: _ => true | _ => false end
  end && lwf r.
Proof. reflexivity. Qed.

Lemma lwf_terminate_doc d next : lwf d = true -> d <> [] ->
  (match next with LBlank :: _ => True | _ => False end) -> lwf next = true ->
  lwf (terminate_doc d ++ next) = true.
Proof.
  intros H Hne Hn Hnext. induction d as [|b r IH]; [congruence|].
  rewrite lwf_cons in H. apply andb_true_iff in H. destruct H as [Hb Hr].
  destruct r as [|b2 r2].
  - destruct next as [|nb nr]; [contradiction|]. destruct nb; try contradiction.
    destruct b as [|c nl|its]; cbn [terminate_doc app]; rewrite lwf_cons, Hnext, andb_true_r.
    + reflexivity.
    + unfold wf_comment in *. apply andb_true_iff in Hb. destruct Hb as [Hc _]. rewrite Hc. reflexivity.
    + apply andb_true_iff in Hb. destruct Hb as [Hi _]. rewrite andb_true_r. eapply wf_terminate_last. exact Hi.
  - assert (Et : terminate_doc (b :: b2 :: r2) = b :: terminate_doc (b2 :: r2)) by (destruct b; reflexivity).
    rewrite Et. cbn [app]. rewrite lwf_cons, (IH Hr ltac:(discriminate)), andb_true_r.
    assert (Em : match terminate_doc (b2 :: r2) ++ next with [] => false | _ => true end = true)
      by (destruct b2; destruct r2; reflexivity).
    assert (Eh : match terminate_doc (b2 :: r2) ++ next with LBlank :: _ => true | [] => true | _ => false end =
                 match b2 :: r2 with LBlank :: _ => true | [] => true | _ => false end)
      by (destruct b2; destruct r2; reflexivity).
    rewrite Em, Eh. exact Hb.
Qed.

Theorem lwf_add d : lwf d = true -> lwf (a_add d) = true.
Proof.
  intros H. destruct d as [|b r]; [reflexivity|]. cbn [a_add].
  apply lwf_terminate_doc; [exact H|discriminate|exact I|reflexivity].
Qed.

Lemma lwf_insert_before d : forall n d', lwf d = true ->
  insert_before_para n [LPara []; LBlank] d = Some d' -> lwf d' = true.
Proof.
  induction d as [|b r IH]; intros n d' H E; [discriminate|].
  rewrite lwf_cons in H. apply andb_true_iff in H. destruct H as [Hb Hr].
  assert (Hne : forall n' r', insert_before_para n' [LPara []; LBlank] r = Some r' ->
            (match r' with [] => false | _ => true end) = (match r with [] => false | _ => true end) /\
            (match r' with [] => true | LBlank :: _ => true | _ => false end) = (match r with [] => true | LBlank :: _ => true | _ => false end) \/
            (exists its r2, r = LPara its :: r2)).
  { intros n' r' E'. destruct r as [|x r2]; [discriminate|]. destruct x as [|c2 nl2|its2]; cbn [insert_before_para] in E'.
    - left. destruct (insert_before_para n' _ r2); [|discriminate]. inversion E'; subst. split; reflexivity.
    - left. destruct (insert_before_para n' _ r2); [|discriminate]. inversion E'; subst. split; reflexivity.
    - right. eauto. }
  destruct b as [|c nl|its]; cbn [insert_before_para] in E.
  - destruct (insert_before_para n _ r) as [r'|] eqn:E'; [|discriminate]. inversion E; subst.
    rewrite lwf_cons. apply (IH n r' Hr E').
  - destruct (insert_before_para n _ r) as [r'|] eqn:E'; [|discriminate]. inversion E; subst.
    rewrite lwf_cons, (IH n r' Hr E'), andb_true_r.
    destruct (Hne n r' E') as [[A _]|(its2 & r2 & ->)]; [rewrite A; exact Hb|].
    destruct r'; [destruct n; cbn in E'; [discriminate|destruct (insert_before_para n _ r2); discriminate]|exact Hb].
  - destruct n as [|n'].
    + inversion E; subst. cbn [app]. rewrite !lwf_cons. cbn [wf_items andb]. rewrite Hb, Hr. reflexivity.
    + destruct (insert_before_para n' _ r) as [r'|] eqn:E'; [|discriminate]. inversion E; subst.
      rewrite lwf_cons, (IH n' r' Hr E'), andb_true_r.
      destruct (Hne n' r' E') as [[A B]|(its2 & r2 & ->)]; [rewrite A, B; exact Hb|].
      (* a paragraph directly followed by a paragraph is not well-formed *)
      apply andb_true_iff in Hb. destruct Hb as [_ Hb]. discriminate.
Qed.

Theorem lwf_insert_para d i : lwf d = true -> lwf (a_insert_para d i) = true.
Proof.
  intros H. destruct d as [|b r]; [reflexivity|]. destruct i as [|i'].
  - cbn [a_insert_para]. rewrite !lwf_cons. cbn [wf_items andb]. exact H.
  - cbn [a_insert_para]. destruct (insert_before_para (S i') [LPara []; LBlank] (b :: r)) as [d'|] eqn:E.
    + eapply lwf_insert_before; eassumption.
    + apply lwf_add. exact H.
Qed.

Theorem lwf_remove_para d : forall i, lwf d = true -> lwf (a_remove_para d i) = true.
Proof.
  induction d as [|b r IH]; intros i H; [reflexivity|].
  rewrite lwf_cons in H. apply andb_true_iff in H. destruct H as [Hb Hr].
  (* what follows b after the removal, compared with before *)
  assert (Hsame : forall j, (exists its r2, r = LPara its :: r2 /\ j = 0) \/
            ((match a_remove_para r j with [] => false | _ => true end) = true -> (match r with [] => false | _ => true end) = true) /\
            ((match r with [] => true | LBlank :: _ => true | _ => false end) = true ->
             (match a_remove_para r j with [] => true | LBlank :: _ => true | _ => false end) = true)).
  { intros j. destruct r as [|x r2]; [right; split; intros; assumption|].
    destruct x as [|c2 nl2|its2].
    - right. split; intros; reflexivity.
    - right. split; [intros; reflexivity|intros; discriminate].
    - destruct j; [left; eauto|right; split; [intros; reflexivity|intros; discriminate]]. }
  destruct b as [|c nl|its]; cbn [a_remove_para].
  - rewrite lwf_cons. apply IH. exact Hr.
  - rewrite lwf_cons, (IH i Hr), andb_true_r.
    destruct (Hsame i) as [(its2 & r2 & -> & ->)|[A _]].
    + (* the comment was followed by the removed paragraph *)
      unfold wf_comment in *. apply andb_true_iff in Hb. destruct Hb as [Hc Hn]. rewrite Hc. cbn [andb].
      destruct nl; [reflexivity|discriminate].
    + eapply wf_comment_mono; [exact Hb|]. intros E. apply A. exact E.
  - destruct i as [|i'].
    + destruct r as [|x r2]; [reflexivity|]. destruct (is_empty_line_block x) eqn:Ex; [|exact Hr].
      rewrite lwf_cons in Hr. apply andb_true_iff in Hr. apply Hr.
    + rewrite lwf_cons, (IH i' Hr), andb_true_r.
      apply andb_true_iff in Hb. destruct Hb as [Hi Hx].
      destruct (Hsame i') as [(its2 & r2 & -> & _)|[A B]]; [discriminate|].
      rewrite (B Hx), andb_true_r. eapply wf_items_mono; [exact Hi|]. intros E. apply A. exact E.
Qed.

(* ---- the paragraph list ---- *)
Lemma pairs_terminate_last its : flat_map item_pairs (terminate_last its) = flat_map item_pairs its.
Proof.
  induction its as [|it r IH]; [reflexivity|]. destruct r as [|it2 r2].
  - destruct it; reflexivity.
  - assert (Et : terminate_last (it :: it2 :: r2) = it :: terminate_last (it2 :: r2)) by (destruct it; reflexivity).
    rewrite Et. cbn [flat_map] in *. rewrite IH. reflexivity.
Qed.

Lemma lcontent_app a b : lcontent (a ++ b) = lcontent a ++ lcontent b.
Proof. unfold lcontent. apply flat_map_app. Qed.

Lemma lcontent_terminate_doc d : lcontent (terminate_doc d) = lcontent d.
Proof.
  induction d as [|b r IH]; [reflexivity|]. destruct r as [|b2 r2].
  - destruct b as [|c nl|its]; try reflexivity. unfold lcontent. cbn [terminate_doc flat_map]. rewrite pairs_terminate_last. reflexivity.
  - assert (Et : terminate_doc (b :: b2 :: r2) = b :: terminate_doc (b2 :: r2)) by (destruct b; reflexivity).
    rewrite Et. change (b :: terminate_doc (b2 :: r2)) with ([b] ++ terminate_doc (b2 :: r2)).
    change (b :: b2 :: r2) with ([b] ++ b2 :: r2). rewrite !lcontent_app, IH. reflexivity.
Qed.

Theorem lcontent_add d : lcontent (a_add d) = lcontent d ++ [[]].
Proof. destruct d as [|b r]; [reflexivity|]. cbn [a_add]. rewrite lcontent_app, lcontent_terminate_doc. reflexivity. Qed.

Lemma lcontent_insert_before d : forall n d', insert_before_para n [LPara []; LBlank] d = Some d' ->
  n < length (lcontent d) /\ lcontent d' = insert_at n [[]] (lcontent d).
Proof.
  induction d as [|b r IH]; intros n d' E; [discriminate|].
  destruct b as [|c nl|its]; cbn [insert_before_para] in E.
  - destruct (insert_before_para n _ r) as [r'|] eqn:E'; [|discriminate]. inversion E; subst. apply (IH n r' E').
  - destruct (insert_before_para n _ r) as [r'|] eqn:E'; [|discriminate]. inversion E; subst. apply (IH n r' E').
  - destruct n as [|n'].
    + inversion E; subst. split; [cbn; lia|reflexivity].
    + destruct (insert_before_para n' _ r) as [r'|] eqn:E'; [|discriminate]. inversion E; subst.
      destruct (IH n' r' E') as [Hl Hc]. split; [unfold lcontent in *; cbn [flat_map app length]; lia|].
      unfold lcontent in *. cbn [flat_map app insert_at]. rewrite Hc. reflexivity.
Qed.

Lemma insert_before_none d : forall n, insert_before_para n [LPara []; LBlank] d = None -> length (lcontent d) <= n.
Proof.
  induction d as [|b r IH]; intros n E; [cbn; lia|].
  destruct b as [|c nl|its]; cbn [insert_before_para] in E.
  - destruct (insert_before_para n _ r) eqn:E'; [discriminate|]. apply (IH n E').
  - destruct (insert_before_para n _ r) eqn:E'; [discriminate|]. apply (IH n E').
  - destruct n as [|n']; [discriminate|]. destruct (insert_before_para n' _ r) eqn:E'; [discriminate|].
    specialize (IH n' E'). unfold lcontent in *. cbn [flat_map app length]. lia.
Qed.

Lemma insert_at_beyond {A} (l new : list A) n : length l <= n -> insert_at n new l = l ++ new.
Proof.
  revert n. induction l as [|x r IH]; intros n H; [destruct n; cbn; rewrite ?app_nil_r; reflexivity|].
  destruct n; [cbn in H; lia|]. cbn. rewrite IH; [reflexivity|cbn in H; lia].
Qed.

Theorem lcontent_insert_para d i : lcontent (a_insert_para d i) = insert_at i [[]] (lcontent d).
Proof.
  destruct d as [|b r]; [destruct i; reflexivity|]. destruct i as [|i']; [reflexivity|].
  cbn [a_insert_para]. destruct (insert_before_para (S i') [LPara []; LBlank] (b :: r)) as [d'|] eqn:E.
  - apply (lcontent_insert_before _ _ _ E).
  - rewrite lcontent_add. symmetry. apply insert_at_beyond. apply insert_before_none. exact E.
Qed.

Theorem lcontent_remove_para d : forall i, lcontent (a_remove_para d i) = delete_at i (lcontent d).
Proof.
  induction d as [|b r IH]; intros i; [destruct i; reflexivity|].
  destruct b as [|c nl|its]; cbn [a_remove_para]; try apply IH.
  destruct i as [|i'].
  - unfold lcontent. cbn [flat_map app delete_at]. destruct r as [|x r2]; [reflexivity|].
    destruct x; reflexivity.
  - unfold lcontent in *. cbn [flat_map app delete_at]. rewrite IH. reflexivity.
Qed.

(* ================= C05: histories of paragraph operations interleaved with field edits ================= *)
Inductive dop := DF (o : fop) | DAdd | DInsert (i : nat) | DRemove (i : nat).

Definition tstep2 (t : tree) (o : dop) : tree :=
  match o with
  | DF o => tstep t o
  | DAdd => add_paragraph t
  | DInsert i => insert_paragraph t i
  | DRemove i => remove_paragraph t i
  end.
Definition sstep2 (c : list (list (str * str))) (o : dop) : list (list (str * str)) :=
  match o with
  | DF o => sstep c o
  | DAdd => c ++ [[]]                  (* push *)
  | DInsert i => insert_at i [[]] c    (* insert(i); beyond the end appends *)
  | DRemove i => delete_at i c         (* remove(i); beyond the end does nothing *)
  end.
Definition astep2 (d : ldocl) (o : dop) : ldocl :=
  match o with
  | DF o => astep d o
  | DAdd => a_add d
  | DInsert i => a_insert_para d i
  | DRemove i => a_remove_para d i
  end.
Definition op_ok2 (d : ldocl) (o : dop) : Prop := match o with DF o => op_ok d o | _ => True end.
Fixpoint ops_ok2 (d : ldocl) (ops : list dop) : Prop :=
  match ops with [] => True | o :: r => op_ok2 d o /\ ops_ok2 (astep2 d o) r end.

Theorem tstep2_live d o : lwf d = true -> op_ok2 d o ->
  tstep2 (ltree_of d) o = ltree_of (astep2 d o) /\ lwf (astep2 d o) = true /\
  lcontent (astep2 d o) = sstep2 (lcontent d) o.
Proof.
  intros H Hok. destruct o as [o| |i|i]; cbn [tstep2 astep2 sstep2 op_ok2] in *.
  - destruct (tstep_live d o H Hok) as [E W]. split; [exact E|]. split; [exact W|].
    rewrite <- !doc_items_ltree_of, <- E. apply tstep_refines.
  - split; [apply commute_add|]. split; [apply lwf_add; exact H|apply lcontent_add].
  - split; [apply commute_insert_para|]. split; [apply lwf_insert_para; exact H|apply lcontent_insert_para].
  - split; [apply commute_remove_para|]. split; [apply lwf_remove_para; exact H|apply lcontent_remove_para].
Qed.

Theorem C05_history_all ops : forall d, lwf d = true -> ops_ok2 d ops ->
  let t' := fold_left tstep2 ops (ltree_of d) in
  t' = ltree_of (fold_left astep2 ops d) /\ lwf (fold_left astep2 ops d) = true /\
  doc_items t' = fold_left sstep2 ops (doc_items (ltree_of d)) /\
  exists t'', from_str (text t') = Ok t'' /\ doc_items t'' = nonempty_paras (doc_items t').
Proof.
  induction ops as [|o r IH]; intros d Hwf Hok; cbn [fold_left].
  - split; [reflexivity|]. split; [exact Hwf|]. split; [reflexivity|]. apply live_reread. exact Hwf.
  - destruct Hok as [Ho Hr]. destruct (tstep2_live d o Hwf Ho) as (E & W & C). rewrite E.
    destruct (IH (astep2 d o) W Hr) as (A & B & C' & D). cbn zeta in *.
    split; [exact A|]. split; [exact B|]. split; [|exact D].
    rewrite C', !doc_items_ltree_of, C. reflexivity.
Qed.

(* the separation invariant, stated on the printed text: lwf implies that between two paragraph
   blocks there is a blank line *)
Fixpoint separated (d : ldocl) : bool :=
  match d with
  | [] => true
  | LPara _ :: r => match r with [] => true | LBlank :: _ => separated r | _ => false end
  | _ :: r => separated r
  end.
Lemma lwf_separated d : lwf d = true -> separated d = true.
Proof.
  induction d as [|b r IH]; [reflexivity|]. rewrite lwf_cons. intros H. apply andb_true_iff in H. destruct H as [Hb Hr].
  destruct b as [|c nl|its]; cbn [separated]; try (apply IH; exact Hr).
  apply andb_true_iff in Hb. destruct Hb as [_ Hx]. destruct r as [|x r2]; [reflexivity|]. destruct x; try discriminate. apply IH. exact Hr.
Qed.

(* Deb822::new and FromIterator<Paragraph> *)
Lemma new_is_live : deb822_of_paragraphs [] = ltree_of [] /\ lwf [] = true.
Proof. split; reflexivity. Qed.

(* ---- a document collected from paragraphs (impl FromIterator<Paragraph> for Deb822) ---- *)
Fixpoint layout_paras (ps : list (list item)) : ldocl :=
  match ps with
  | [] => []
  | [its] => [LPara its]
  | its :: r => LPara (terminate_last its) :: LBlank :: layout_paras r
  end.

Lemma join_paras_layout ps : forall i,
  join_paras (S i) (map (fun its => lblock_tree (LPara its)) ps) =
  match ps with [] => [] | _ => map lblock_tree (LBlank :: layout_paras ps) end.
Proof.
  induction ps as [|its r IH]; intros i; [reflexivity|].
  cbn [map join_paras]. destruct r as [|its2 r2].
  - reflexivity.
  - cbn [map] in *. rewrite (ensure_nl_lblock (LPara its)). rewrite (IH (S i)). reflexivity.
Qed.

Theorem from_paragraphs_live ps : Forall (fun its => wf_items its false = true) ps ->
  deb822_of_paragraphs (map (fun its => lblock_tree (LPara its)) ps) = ltree_of (layout_paras ps) /\
  lwf (layout_paras ps) = true /\
  lcontent (layout_paras ps) = map (flat_map item_pairs) ps.
Proof.
  intros H. split; [|split].
  - unfold deb822_of_paragraphs, ltree_of. f_equal. destruct ps as [|its r]; [reflexivity|].
    cbn [map join_paras]. destruct r as [|its2 r2]; [reflexivity|].
    cbn [app]. rewrite (ensure_nl_lblock (LPara its)). rewrite join_paras_layout. reflexivity.
  - induction H as [|its r Hits Hr IH]; [reflexivity|]. destruct r as [|its2 r2].
    + cbn [layout_paras lwf]. rewrite Hits. reflexivity.
    + change (layout_paras (its :: its2 :: r2)) with (LPara (terminate_last its) :: LBlank :: layout_paras (its2 :: r2)).
      cbn [lwf]. rewrite (wf_terminate_last _ _ Hits). cbn [andb]. exact IH.
  - induction ps as [|its r IH]; [reflexivity|]. inversion H as [|x y Hx Hy]; subst. destruct r as [|its2 r2].
    + reflexivity.
    + change (layout_paras (its :: its2 :: r2)) with (LPara (terminate_last its) :: LBlank :: layout_paras (its2 :: r2)).
      cbn [lcontent flat_map app map]. rewrite pairs_terminate_last. f_equal. apply IH. exact Hy.
Qed.

(* the code before fix 316b0fc fused an unterminated paragraph with the next one *)
Lemma from_paragraphs_before_fix_refuted :
  let a := lblock_tree (LPara [IField (mk_field [65%N] [32%N] [49%N] [] false)]) in      (* "A: 1" *)
  let b := lblock_tree (LPara [IField (mk_field [66%N] [32%N] [50%N] [] false)]) in      (* "B: 2" *)
  let t := Node ROOT (join_paras_before_fix 0 [a; b]) in
  length (doc_items t) = 2 /\ exists t', from_str (text t) = Ok t' /\ length (doc_items t') = 1.
Proof. cbv zeta. split; [reflexivity|]. eexists. split; vm_compute; reflexivity. Qed.
