(* The parsed-text path of C12: what this cone's typed view ([Sat.tree_field], built from
   name()/version() as the evaluator calls them) is on trees the reader produced.  Links
   Sat.v / DebVersion.v to the C10 cone: RelAcc.racc (the accessors, versions as Display prints
   them), RelGrammar (the well-formed fields), RelGrammarAll (the liberal layouts = every text read
   without error).  No hypothesis about the tree is left: for every error-free text the typed view
   exists and is what the accessors report, or the tree is in one of the two finding classes. *)
From Coq Require Import DecimalPos DecimalN.
From V.model Require Import Base RelLex RelParse DebVersion Sat.
From V.model Require RelAcc RelGrammar RelGrammarAll.
From V.proofs Require Import BaseP DebVersionP SatP.
From V.proofs Require RelGrammarAccP RelGrammarAllAccP.

(* ------------------------------------------------------------------ two transcriptions of debversion's reader *)
Lemma is_digit_same c : RelAcc.is_digit c = is_digit c.
Proof. reflexivity. Qed.

Lemma num_acc e : forall acc, forallb is_digit e = true ->
  Npos (Pos.of_uint_acc (RelAcc.uint_of_digits e) acc) = num_of_digits (Npos acc) e.
Proof.
  induction e as [|c r IH]; intros acc H; [reflexivity|].
  cbn [forallb] in H. apply andb_true_iff in H. destruct H as [Hc Hr].
  cbn [RelAcc.uint_of_digits num_of_digits].
  destruct (RelGrammarAccP.digit_cases c Hc) as [->|[->|[->|[->|[->|[->|[->|[->|[->| ->]]]]]]]]];
    cbn [N.sub Pos.sub Pos.sub_mask Pos.pred_double Pos.succ_double_mask Pos.double_mask Pos.double_pred_mask Pos.of_uint_acc];
    rewrite (IH _ Hr); f_equal; lia.
Qed.

Lemma num_uint e : forallb is_digit e = true -> N.of_uint (RelAcc.uint_of_digits e) = num_of_digits 0 e.
Proof.
  induction e as [|c r IH]; intros H; [reflexivity|].
  cbn [forallb] in H. apply andb_true_iff in H. destruct H as [Hc Hr].
  cbn [RelAcc.uint_of_digits num_of_digits]. unfold N.of_uint.
  destruct (RelGrammarAccP.digit_cases c Hc) as [->|[->|[->|[->|[->|[->|[->|[->|[->| ->]]]]]]]]];
    cbn [N.sub Pos.sub Pos.sub_mask Pos.pred_double Pos.succ_double_mask Pos.double_mask Pos.double_pred_mask Pos.of_uint N.mul N.add];
    [exact (IH Hr)|..]; rewrite (num_acc r _ Hr); reflexivity.
Qed.

Lemma digits_of_uint_digits u : forallb is_digit (RelAcc.digits_of_uint u) = true.
Proof. induction u; cbn [RelAcc.digits_of_uint forallb]; try rewrite IHu; reflexivity. Qed.

Lemma uint_of_digits_of_uint u : RelAcc.uint_of_digits (RelAcc.digits_of_uint u) = u.
Proof. induction u; cbn [RelAcc.digits_of_uint RelAcc.uint_of_digits]; try rewrite IHu; reflexivity. Qed.

Lemma digits_of_uint_nonnil u : u <> Decimal.Nil -> RelAcc.digits_of_uint u <> [].
Proof. destruct u; cbn; congruence. Qed.

Lemma N_to_uint_nonnil n : N.to_uint n <> Decimal.Nil.
Proof. destruct n as [|p]; cbn; [discriminate|apply Unsigned.to_uint_nonnil]. Qed.

Lemma canon_epoch_value e : num_of_digits 0 (RelAcc.digits_of_uint (N.to_uint e)) = e.
Proof.
  rewrite <- (num_uint _ (digits_of_uint_digits _)), uint_of_digits_of_uint. apply DecimalN.Unsigned.of_to.
Qed.

Lemma version_char_same c : RelAcc.is_version_char c = is_upstream_char c.
Proof.
  unfold RelAcc.is_version_char, is_upstream_char, is_alnum, is_ascii_alnum, is_digit, is_alpha.
  destruct ((48 <=? c) && (c <=? 57))%N, ((65 <=? c) && (c <=? 90))%N, ((97 <=? c) && (c <=? 122))%N; reflexivity.
Qed.

Lemma version_chars_same s : forallb RelAcc.is_version_char s = forallb is_upstream_char s.
Proof. induction s as [|c s IH]; [reflexivity|]. cbn [forallb]. rewrite version_char_same, IH. reflexivity. Qed.

(* what RelAcc.debversion_roundtrip (FromStr then Display, on text) and DebVersion.parse_version
   (FromStr, to a value) say about the same text *)
Theorem roundtrip_parse vt s' : RelAcc.debversion_roundtrip vt = Ok s' ->
  exists v, parse_version vt = Some v /\ parse_version s' = Some v.
Proof.
  unfold RelAcc.debversion_roundtrip. destruct vt as [|c0 w0] eqn:Evt; [discriminate|]. rewrite <- Evt.
  destruct (forallb RelAcc.is_version_char vt) eqn:Hall; cbn [negb]; [|discriminate].
  rewrite version_chars_same in Hall.
  assert (Hne : vt <> []) by (rewrite Evt; discriminate).
  unfold parse_version. change RelAcc.is_digit with is_digit.
  destruct (span is_digit vt) as [d r] eqn:Es.
  pose proof (span_app _ _ _ _ Es) as Happ. pose proof (span_all _ _ _ _ Es) as Hd.
  assert (Hbody : body_ok vt = true) by (unfold body_ok; destruct vt; [congruence|exact Hall]).
  assert (Hno : forall (P : option str),
            P = None -> (if body_ok vt then let '(u, rv) := split_revision vt in Some (mk_version None u rv) else None)
            = (let '(u, rv) := split_revision vt in Some (mk_version None u rv))) by (intros; rewrite Hbody; reflexivity).
  destruct d as [|d0 dr].
  - intros H. injection H as <-. rewrite Es. rewrite Hbody. destruct (split_revision vt) as [u rv]. eexists. split; reflexivity.
  - destruct r as [|c rest].
    + intros H. injection H as <-. rewrite Es, Hbody. destruct (split_revision vt) as [u rv]. eexists. split; reflexivity.
    + destruct rest as [|c1 rest1].
      * (* "12:" : no epoch *)
        intros H. injection H as <-. rewrite Es. cbn [body_ok]. rewrite andb_false_r, Hbody.
        destruct (split_revision vt) as [u rv]. eexists. split; reflexivity.
      * destruct (c =? 58)%N eqn:Ec.
        -- (* an epoch *)
           apply N.eqb_eq in Ec. subst c.
           assert (Hrest : body_ok (c1 :: rest1) = true).
           { rewrite <- Happ, forallb_app in Hall. apply andb_true_iff in Hall. destruct Hall as [_ Hall].
             cbn [forallb] in Hall. apply andb_true_iff in Hall. destruct Hall as [_ Hall]. exact Hall. }
           rewrite (num_uint _ Hd).
           remember (num_of_digits 0 (d0 :: dr)) as e eqn:He.
           change RelAcc.u32_max with u32_max.
           destruct (e <=? u32_max)%N eqn:Eu; [|discriminate].
           intros H. injection H as <-.
           rewrite Hrest. cbn [andb].
           destruct (split_revision (c1 :: rest1)) as [u rv] eqn:Er. eexists. split; [reflexivity|].
           rewrite (span_digits_colon _ (c1 :: rest1) (digits_of_uint_digits (N.to_uint e))).
           destruct (RelAcc.digits_of_uint (N.to_uint e)) as [|x xs] eqn:Ex.
           { exfalso. apply (digits_of_uint_nonnil (N.to_uint e) (N_to_uint_nonnil e)). exact Ex. }
           rewrite <- Ex, N.eqb_refl, Hrest. cbn [andb]. rewrite canon_epoch_value, Eu, Er. reflexivity.
        -- intros H. injection H as <-. rewrite Es, Ec. cbn [andb]. rewrite Hbody.
           destruct (split_revision vt) as [u rv]. eexists. split; reflexivity.
Qed.

Theorem roundtrip_err vt e : RelAcc.debversion_roundtrip vt = Err e -> parse_version vt = None.
Proof.
  unfold RelAcc.debversion_roundtrip. destruct vt as [|c0 w0] eqn:Evt; [intros _; reflexivity|]. rewrite <- Evt.
  assert (Hne : vt <> []) by (rewrite Evt; discriminate).
  unfold parse_version. change RelAcc.is_digit with is_digit.
  destruct (span is_digit vt) as [d r] eqn:Es.
  pose proof (span_app _ _ _ _ Es) as Happ. pose proof (span_all _ _ _ _ Es) as Hd.
  destruct (forallb RelAcc.is_version_char vt) eqn:Hall; cbn [negb].
  - rewrite version_chars_same in Hall.
    destruct d as [|d0 dr]; [discriminate|]. destruct r as [|c rest]; [discriminate|].
    destruct rest as [|c1 rest1]; [discriminate|].
    destruct (c =? 58)%N eqn:Ec; [|discriminate].
    rewrite (num_uint _ Hd). change RelAcc.u32_max with u32_max.
    destruct (num_of_digits 0 (d0 :: dr) <=? u32_max)%N eqn:Eu; [discriminate|]. intros _.
    assert (Hrest : body_ok (c1 :: rest1) = true).
    { rewrite <- Happ, forallb_app in Hall. apply andb_true_iff in Hall. destruct Hall as [_ Hall].
      cbn [forallb] in Hall. apply andb_true_iff in Hall. destruct Hall as [_ Hall]. exact Hall. }
    cbn [andb]. rewrite Hrest. reflexivity.
  - intros _. rewrite version_chars_same in Hall.
    assert (Hb : body_ok vt = false) by (unfold body_ok; destruct vt; [reflexivity|exact Hall]).
    assert (Hr : forall rest, r = 58%N :: rest -> d <> [] -> body_ok rest = false).
    { intros rest -> Hdn. unfold body_ok. destruct rest as [|x xs]; [reflexivity|].
      rewrite <- Happ, forallb_app in Hall. apply andb_false_iff in Hall. destruct Hall as [Hall|Hall].
      - exfalso. clear -Hd Hall. induction d as [|y d IH]; [discriminate|]. cbn [forallb] in *.
        apply andb_true_iff in Hd. destruct Hd as [Hy Hd]. apply andb_false_iff in Hall. destruct Hall as [Hall|Hall]; [|auto].
        unfold is_upstream_char, is_alnum in Hall. rewrite Hy in Hall. discriminate.
      - cbn [forallb] in Hall. exact Hall. }
    destruct d as [|d0 dr]; [rewrite Hb; reflexivity|]. destruct r as [|c rest]; [rewrite Hb; reflexivity|].
    destruct (c =? 58)%N eqn:Ec; cbn [andb]; [|rewrite Hb; reflexivity].
    apply N.eqb_eq in Ec. subst c. rewrite (Hr rest eq_refl) by discriminate. rewrite Hb. reflexivity.
Qed.

(* ------------------------------------------------------------------ C10's accessors and this cone's *)
Definition acc_op (o : vop) : RelAcc.vop :=
  match o with OpGe => RelAcc.VGe | OpLe => RelAcc.VLe | OpEq => RelAcc.VEq | OpGt => RelAcc.VGt | OpLt => RelAcc.VLt end.
Definition sat_op (o : RelAcc.vop) : vop :=
  match o with RelAcc.VGe => OpGe | RelAcc.VLe => OpLe | RelAcc.VEq => OpEq | RelAcc.VGt => OpGt | RelAcc.VLt => OpLt end.

Lemma vop_of_text_parse s : RelAcc.vop_of_text s = option_map acc_op (parse_vop s).
Proof.
  unfold RelAcc.vop_of_text, parse_vop.
  repeat match goal with |- context [if ?b then _ else _] => destruct b; [reflexivity|] end. reflexivity.
Qed.
Lemma sat_acc_op o : sat_op (acc_op o) = o.
Proof. destruct o; reflexivity. Qed.

Lemma first_tok_find k cs :
  RelAcc.first_tok_of_kind k cs = match find (is_tok_of k) cs with Some t => Some (text t) | None => None end.
Proof.
  induction cs as [|c cs IH]; [reflexivity|]. destruct c as [k' s|k' l]; cbn [RelAcc.first_tok_of_kind find is_tok_of].
  - destruct (rkind_eqb k' k); [reflexivity|exact IH].
  - exact IH.
Qed.

Lemma first_node_find k cs : RelAcc.first_node_of_kind k cs = find (is_node_of k) cs.
Proof.
  induction cs as [|c cs IH]; [reflexivity|]. destruct c as [k' s|k' l]; cbn [RelAcc.first_node_of_kind find is_node_of].
  - exact IH.
  - destruct (rkind_eqb k' k); [reflexivity|exact IH].
Qed.

Lemma version_text_string vn :
  version_string vn = match RelAcc.version_text_of (children vn) with [] => None | s => Some s end.
Proof.
  unfold version_string. f_equal || idtac.
  assert (E : concat (map text (filter (fun e => is_tok_of IDENT e || is_tok_of COLON e) (children vn)))
              = RelAcc.version_text_of (children vn)).
  { induction (children vn) as [|c cs IH]; [reflexivity|]. destruct c as [k s|k l]; cbn [filter is_tok_of orb RelAcc.version_text_of flat_map].
    - destruct (rkind_eqb k IDENT || rkind_eqb k COLON); cbn [map concat text]; [rewrite IH; reflexivity|exact IH].
    - exact IH. }
  rewrite E. reflexivity.
Qed.

Lemma name_same r : RelAcc.relation_name r = ll_name r.
Proof. unfold RelAcc.relation_name, ll_name, first_ident. rewrite first_tok_find. destruct (find (is_tok_of IDENT) (children r)); reflexivity. Qed.

(* Relation::version(): RelAcc reports the version as text (what Display prints), this cone as a value *)
Lemma version_same r :
  match RelAcc.relation_version r with
  | Ok None => ll_version version parse_version r = Ok None
  | Ok (Some (o, s')) => exists v, ll_version version parse_version r = Ok (Some (sat_op o, v)) /\ parse_version s' = Some v
  | Panic p => ll_version version parse_version r = Panic p
  | Err _ => False
  | OutOfFuel => False
  end.
Proof.
  unfold RelAcc.relation_version, ll_version. rewrite first_node_find.
  destruct (find (is_node_of VERSION) (children r)) as [vn|]; [|reflexivity].
  rewrite first_node_find, version_text_string.
  destruct (find (is_node_of CONSTRAINT) (children vn)) as [cn|]; [|reflexivity].
  destruct (RelAcc.version_text_of (children vn)) as [|c0 w0] eqn:Ev; [reflexivity|]. rewrite <- Ev.
  rewrite vop_of_text_parse. destruct (parse_vop (text cn)) as [o|]; cbn [option_map]; [|reflexivity].
  destruct (RelAcc.debversion_roundtrip (RelAcc.version_text_of (children vn))) as [s'|e| |] eqn:Er.
  - destruct (roundtrip_parse _ _ Er) as (v & H1 & H2). exists v. rewrite H1, sat_acc_op. split; [reflexivity|exact H2].
  - rewrite (roundtrip_err _ _ Er). reflexivity.
  - unfold RelAcc.debversion_roundtrip in Er. rewrite Ev in Er. rewrite <- Ev in Er.
    destruct (negb (forallb RelAcc.is_version_char (RelAcc.version_text_of (children vn)))); [discriminate|].
    destruct (span RelAcc.is_digit (RelAcc.version_text_of (children vn))) as [d rr].
    destruct d; [discriminate|]. destruct rr as [|c rest]; [discriminate|]. destruct rest; [discriminate|].
    destruct (c =? 58)%N; [|discriminate]. destruct (_ <=? _)%N; discriminate.
  - unfold RelAcc.debversion_roundtrip in Er. rewrite Ev in Er. rewrite <- Ev in Er.
    destruct (negb (forallb RelAcc.is_version_char (RelAcc.version_text_of (children vn)))); [discriminate|].
    destruct (span RelAcc.is_digit (RelAcc.version_text_of (children vn))) as [d rr].
    destruct d; [discriminate|]. destruct rr as [|c rest]; [discriminate|]. destruct rest; [discriminate|].
    destruct (c =? 58)%N; [|discriminate]. destruct (_ <=? _)%N; discriminate.
Qed.

(* the typed view of what C10's accessors report *)
Definition typed_relc (c : RelAcc.relc) : rel version :=
  mk_rel (RelAcc.c_name c)
         (match RelAcc.c_ver c with
          | Some (o, s) => option_map (fun v => (sat_op o, v)) (parse_version s)
          | None => None
          end).
Definition typed_content (es : list (list RelAcc.relc)) : list (list (rel version)) := map (map typed_relc) es.

Lemma acc_tree_rel r :
  match RelAcc.relation_acc r with
  | Ok c => tree_rel version parse_version r = Ok (typed_relc c)
  | Panic p => tree_rel version parse_version r = Panic p
  | Err _ => False
  | OutOfFuel => False
  end.
Proof.
  unfold RelAcc.relation_acc, tree_rel. rewrite name_same. destruct (ll_name r) as [n| e | p |] eqn:En; cbn [bind].
  - pose proof (version_same r) as Hv. destruct (RelAcc.relation_version r) as [[[o s']|]| | |].
    + destruct Hv as (v & H1 & H2). rewrite H1. cbn [bind]. unfold typed_relc. cbn [RelAcc.c_name RelAcc.c_ver]. rewrite H2. reflexivity.
    + rewrite Hv. reflexivity.
    + exact Hv.
    + rewrite Hv. reflexivity.
    + exact Hv.
  - unfold ll_name in En. destruct (first_ident r); discriminate.
  - reflexivity.
  - unfold ll_name in En. destruct (first_ident r); discriminate.
Qed.

Lemma res_all_mapM {A B C} (f : A -> res B) (g : A -> res C) (h : B -> C) (l : list A) :
  (forall x, match f x with Ok b => g x = Ok (h b) | Panic p => g x = Panic p | Err _ => False | OutOfFuel => False end) ->
  match RelAcc.res_all f l with
  | Ok bs => mapM g l = Ok (map h bs)
  | Panic p => mapM g l = Panic p
  | Err _ => False
  | OutOfFuel => False
  end.
Proof.
  intros H. induction l as [|x l IH]; [reflexivity|]. cbn [RelAcc.res_all mapM]. specialize (H x).
  destruct (f x) as [b| | |]; try contradiction.
  - rewrite H. cbn [bind]. destruct (RelAcc.res_all f l) as [bs| | |]; try contradiction.
    + rewrite IH. reflexivity.
    + rewrite IH. reflexivity.
  - rewrite H. reflexivity.
Qed.

Theorem racc_tree_field t :
  match RelAcc.racc t with
  | Ok a => tree_field version parse_version t = Ok (typed_content (fst a))
  | Panic p => tree_field version parse_version t = Panic p
  | Err _ => False
  | OutOfFuel => False
  end.
Proof.
  unfold RelAcc.racc, tree_field, RelAcc.relations_entries.
  pose proof (res_all_mapM RelAcc.entry_acc (tree_entry version parse_version) (map typed_relc) (r_entries t)) as H.
  destruct (RelAcc.res_all RelAcc.entry_acc (r_entries t)) as [es| | |]; cbn [fst]; apply H;
    intros en; unfold RelAcc.entry_acc, tree_entry, RelAcc.entry_relations;
    apply (res_all_mapM RelAcc.relation_acc (tree_rel version parse_version) typed_relc); intros r; apply acc_tree_rel.
Qed.

(* ------------------------------------------------------------------ parsed text *)
Lemma mapM_panic_inv {A B} (f : A -> res B) l p : mapM f l = Panic p -> exists x, In x l /\ f x = Panic p.
Proof.
  induction l as [|x l IH]; cbn [mapM]; [discriminate|].
  destruct (f x) as [y| | |] eqn:E; cbn [bind]; try discriminate.
  - destruct (mapM f l) as [ys| | |]; cbn [bind]; try discriminate.
    intros H. injection H as <-. destruct (IH eq_refl) as (z & Hz & Ez). exists z. split; [right; exact Hz|exact Ez].
  - intros H. injection H as <-. exists x. split; [left; reflexivity|exact E].
Qed.

(* a panic of the typed view names the finding class (or a missing name) *)
Lemma tree_field_panic t p : tree_field version parse_version t = Panic p ->
  (p = 10%N /\ ~ names_present t) \/ (p = 11%N /\ Known_nonstandard_operator t) \/
  (p = 12%N /\ Known_unreadable_version version parse_version t).
Proof.
  unfold tree_field. intros H. destruct (mapM_panic_inv _ _ _ H) as (e & He & H1).
  unfold tree_entry in H1. destruct (mapM_panic_inv _ _ _ H1) as (r & Hr & H2).
  assert (Hin : In r (alternatives t)) by (unfold alternatives; apply in_flat_map; exists e; split; assumption).
  unfold tree_rel, ll_name in H2. destruct (first_ident r) as [n|] eqn:En; cbn [bind] in H2.
  - rewrite ll_version_parts in H2. destruct (version_parts r) as [[cn vt]|] eqn:Ev; [|discriminate].
    destruct (parse_vop (text cn)) eqn:Eo.
    + destruct (parse_version vt) eqn:Ep; [discriminate|]. injection H2 as <-.
      right. right. split; [reflexivity|]. exists r, cn, vt. repeat split; assumption.
    + injection H2 as <-. right. left. split; [reflexivity|]. exists r, cn, vt. repeat split; assumption.
  - injection H2 as <-. left. split; [reflexivity|]. intros Hn. apply (Hn r Hin). exact En.
Qed.

Lemma res_all_shape {A B} (P : N -> Prop) (f : A -> res B) l :
  (forall x, (exists y, f x = Ok y) \/ (exists p, f x = Panic p /\ P p)) ->
  (exists ys, RelAcc.res_all f l = Ok ys) \/ (exists p, RelAcc.res_all f l = Panic p /\ P p).
Proof.
  intros H. induction l as [|x l IH]; [left; eexists; reflexivity|]. cbn [RelAcc.res_all].
  destruct (H x) as [(y & Ey)|(p & Ep & Hp)].
  - rewrite Ey. destruct IH as [(ys & Eys)|(p & Ep & Hp)].
    + rewrite Eys. left. eexists. reflexivity.
    + rewrite Ep. right. exists p. split; [reflexivity|exact Hp].
  - rewrite Ep. right. exists p. split; [reflexivity|exact Hp].
Qed.

Lemma acontent_shape g :
  (exists a, RelGrammarAll.acontent g = Ok a) \/
  (exists p, RelGrammarAll.acontent g = Panic p /\ (p = 11%N \/ p = 12%N)).
Proof.
  unfold RelGrammarAll.acontent.
  destruct (res_all_shape (fun p => p = 11%N \/ p = 12%N) (RelAcc.res_all RelGrammarAll.arel_content)
              (flat_map RelGrammarAll.aitem_rels (RelGrammarAll.af_items g))) as [(ys & E)|(p & E & Hp)].
  - intros rs. apply res_all_shape. intros r. unfold RelGrammarAll.arel_content.
    destruct (RelGrammarAll.a_ver r) as [v|]; [|left; eexists; reflexivity].
    unfold RelGrammarAll.aver_content. destruct (RelGrammarAll.rttext_of _) as [|c0 w0]; [left; eexists; reflexivity|].
    destruct (RelAcc.vop_of_text _); [|right; exists 11%N; split; [reflexivity|left; reflexivity]].
    destruct (RelAcc.debversion_roundtrip _); try (right; exists 12%N; split; [reflexivity|right; reflexivity]).
    left. eexists. reflexivity.
  - rewrite E. left. eexists. reflexivity.
  - rewrite E. right. exists p. split; [reflexivity|exact Hp].
Qed.

(* EVERY text the reader accepts without error: either the accessors answer and the typed view is
   what they report, or the tree is in one of the two finding classes *)
Theorem parsed_text_view s allow t : parse_relaxed s allow = Ok (t, 0) ->
  (exists a, RelAcc.racc t = Ok a /\ tree_field version parse_version t = Ok (typed_content (fst a))) \/
  (RelAcc.racc t = Panic 11%N /\ Known_nonstandard_operator t) \/
  (RelAcc.racc t = Panic 12%N /\ Known_unreadable_version version parse_version t).
Proof.
  intros H. destruct (RelGrammarAllAccP.reader_image s allow t H) as (g & _ & _ & _ & Hc).
  pose proof (racc_tree_field t) as Hv. rewrite Hc in *.
  destruct (acontent_shape g) as [(a & Ea)|(p & Ep & Hp)].
  - rewrite Ea in Hv. left. exists a. split; [exact Ea|exact Hv].
  - rewrite Ep in Hv. destruct (tree_field_panic t p Hv) as [[-> _]|[[-> Hk]|[-> Hk]]].
    + destruct Hp; discriminate.
    + right. left. split; [exact Ep|exact Hk].
    + right. right. split; [exact Ep|exact Hk].
Qed.

(* the well-formed fields of C10: the typed view is the field as written *)
Definition typed_relx (x : RelGrammar.relx) : rel version :=
  mk_rel (RelGrammar.x_name x)
         (match RelGrammar.x_ver x with
          | Some (o, s) => option_map (fun v => (sat_op o, v)) (parse_version s)
          | None => None
          end).
Definition typed_written (f : RelGrammar.rfield) : list (list (rel version)) :=
  map (map typed_relx) (fst (RelGrammar.rcontent f)).

Theorem wellformed_view allow f : RelGrammar.wf_rfield allow f = true ->
  parse_relaxed (RelGrammar.rrender f) allow = Ok (RelGrammar.rtree_of f, 0) /\
  (allow = false -> relations_from_str (RelGrammar.rrender f) = Ok (RelGrammar.rtree_of f)) /\
  tree_field version parse_version (RelGrammar.rtree_of f) = Ok (typed_written f).
Proof.
  intros H. destruct (RelGrammarAccP.C10_lossless_all allow f H) as (_ & _ & P & _ & A).
  split; [exact P|]. split.
  - intros ->. apply RelGrammarAccP.from_str_rrender. exact H.
  - pose proof (racc_tree_field (RelGrammar.rtree_of f)) as Hv. rewrite A in Hv. rewrite Hv.
    unfold typed_content, typed_written, RelGrammar.rcontent_acc. cbn [fst]. rewrite map_map. f_equal.
    apply map_ext. intros e. rewrite map_map. reflexivity.
Qed.

(* ------------------------------------------------------------------ the parsed relation the harness starts from *)
Definition dec_rel (name : str) : RelGrammar.rel :=
  RelGrammar.mk_rel name (Some (RelGrammar.mk_qual [] [] any_str)) None
    (Some (RelGrammar.mk_group [32%N] [RelGrammar.mk_term [] false [97; 109; 100; 54; 52]%N] []))
    [RelGrammar.mk_group [32%N] [RelGrammar.mk_term [] true [110; 111; 99; 104; 101; 99; 107]%N] []] [].
Definition dec_field (name : str) : RelGrammar.rfield :=
  RelGrammar.mk_rfield [] (RelGrammar.IEntry (dec_rel name) []) [].

Lemma decorated_start name : RelGrammar.ident_ok name = true -> parsed_start_ok name.
Proof.
  intros Hn.
  assert (Hw : RelGrammar.wf_rfield false (dec_field name) = true).
  { unfold RelGrammar.wf_rfield, dec_field, RelGrammar.wf_item, RelGrammar.wf_rel, dec_rel.
    cbn [RelGrammar.f_lead RelGrammar.f_first RelGrammar.f_rest RelGrammar.r_name RelGrammar.r_qual RelGrammar.r_ver
         RelGrammar.r_archs RelGrammar.r_profs RelGrammar.r_trail forallb RelGrammar.opt_ok RelGrammar.ws_ok].
    rewrite Hn. reflexivity. }
  assert (Hr : RelGrammar.rrender (dec_field name) = decorated name).
  { unfold decorated. cbn. rewrite ?app_nil_r. reflexivity. }
  pose proof (RelGrammarAccP.from_str_rrender (dec_field name) Hw) as Hp. rewrite Hr in Hp.
  unfold parsed_start_ok, relation_from_str, entry_from_str. rewrite Hp.
  cbn. eexists. split; [reflexivity|]. repeat split.
Qed.

(* ------------------------------------------------------------------ assembled for props/C12.v *)
Definition names_ok (f : list (list (rel version))) : Prop :=
  Forall (Forall (fun r => RelGrammar.ident_ok (r_name r) = true)) f.

Lemma names_start_ok f : names_ok f -> Forall (Forall (fun r => parsed_start_ok (r_name r))) f.
Proof.
  intros H. eapply Forall_impl; [|exact H]. intros e He. eapply Forall_impl; [|exact He].
  intros r Hr. apply decorated_start. exact Hr.
Qed.

Theorem deb_main_names (f : list (list (rel version))) (asg : list (str * version)) :
  Forall (Forall good_rel) f -> Forall (fun kv => ver_safe (snd kv) = true) asg -> names_ok f ->
  let installed := find_last asg in
  let answer := deb_spec installed f in
  exists t_set,
    deb_sv_field f = Ok t_set /\
    deb_ll_sat (deb_build_field f) installed = Ok answer /\
    deb_ll_sat t_set installed = Ok answer /\
    deb_lossy_sat f installed = Ok answer /\
    deb_by_relation f (LFn installed) = Ok answer /\
    deb_by_relation f (LMap (hm_of_list asg)) = Ok answer /\
    (forall n v, asg = [(n, v)] -> deb_by_relation f (LPair n v) = Ok answer).
Proof. intros Hf Ha Hn. apply deb_main; [exact Hf|exact Ha|apply names_start_ok; exact Hn]. Qed.

(* every text the reader accepts without error, outside the two finding classes, on versions
   without an oversized digit run: the evaluators answer, with the decision table of the typed
   view, which is what the accessors report *)
Theorem parsed_text_sat s allow t :
  parse_relaxed s allow = Ok (t, 0) ->
  ~ Known_nonstandard_operator t -> ~ Known_unreadable_version version parse_version t ->
  exists a F, RelAcc.racc t = Ok a /\ F = typed_content (fst a) /\
    tree_field version parse_version t = Ok F /\
    forall g, field_dom version deb_ok F -> closure_dom version deb_ok g ->
      deb_ll_sat t g = Ok (deb_spec g F) /\ deb_lossy_sat F g = Ok (deb_spec g F).
Proof.
  intros Hp H1 H2. destruct (parsed_text_view s allow t Hp) as [(a & Ea & Et)|[[_ Hk]|[_ Hk]]]; [|contradiction|contradiction].
  exists a, (typed_content (fst a)). split; [exact Ea|]. split; [reflexivity|]. split; [exact Et|].
  intros g Hf Hg. apply deb_sat_spec; assumption.
Qed.
