(* Clause 3 of the conversion part of C14: the lossless reader reads the text printed by a lossy
   value as the same structure.  The printed text is exhibited as the rendering of a well-formed
   abstract field of cone C10 (RelGrammar.rfield, canonical layout), so C10's reader theorem gives
   the tree the parser builds for it; the conversion back (RelConv.to_lossy) is evaluated on it. *)
From Coq Require Import DecimalN DecimalFacts DecimalPos ZifyBool.
From V.model Require Import Base RelLex RelParse RelLossy RelConv.
From V.proofs Require RelLossyP RelConvP.
From V.model Require Import RelAcc RelGrammar.
From V.proofs Require Import BaseP RelLexP RelParseP RelGrammarLexP RelGrammarParseP RelGrammarAccP.
Set Default Timeout 60.

(* ================================================================== decimal: dec_digits vs Coq's Decimal *)
Lemma digit_cases' c : RelAcc.is_digit c = true ->
  c = 48%N \/ c = 49%N \/ c = 50%N \/ c = 51%N \/ c = 52%N \/ c = 53%N \/ c = 54%N \/ c = 55%N \/ c = 56%N \/ c = 57%N.
Proof. apply digit_cases. Qed.

Lemma of_lu_revapp_digits s : forall acc, forallb RelAcc.is_digit s = true ->
  Unsigned.of_lu (Decimal.revapp (uint_of_digits s) acc) = fold_left RelLossyP.dec_step s (Unsigned.of_lu acc).
Proof.
  induction s as [|c r IH]; intros acc H; [reflexivity|]. cbn [forallb] in H. apply andb_true_iff in H. destruct H as [Hc Hr].
  cbn [fold_left]. unfold RelLossyP.dec_step at 2.
  destruct (digit_cases' c Hc) as [->|[->|[->|[->|[->|[->|[->|[->|[->| ->]]]]]]]]];
    cbn [uint_of_digits N.sub Pos.sub Pos.sub_mask Pos.pred_double Pos.succ_double_mask Pos.double_mask Pos.double_pred_mask Decimal.revapp];
    rewrite (IH _ Hr); f_equal; cbn [Unsigned.of_lu]; lia.
Qed.

Lemma of_uint_digits s : forallb RelAcc.is_digit s = true -> N.of_uint (uint_of_digits s) = RelLossy.dec_value s.
Proof.
  intros H. unfold N.of_uint. rewrite Unsigned.of_uint_alt. unfold Decimal.rev. rewrite of_lu_revapp_digits by exact H.
  reflexivity.
Qed.

Lemma is_digit_same c : RelAcc.is_digit c = RelLossy.is_digit c.
Proof. reflexivity. Qed.

(* no leading zero *)
Lemma dec_go_head fuel : forall n acc, (0 < n)%N -> (n < 2 ^ N.of_nat fuel)%N ->
  exists c r, dec_digits_go fuel n acc = c :: r /\ (c =? 48)%N = false.
Proof.
  induction fuel as [|f IH]; intros n acc Hpos Hn; [cbn in Hn; lia|].
  cbn [dec_digits_go]. destruct (N.ltb_spec n 10) as [Hlt|Hge].
  - exists (48 + n mod 10)%N, acc. split; [reflexivity|]. rewrite N.mod_small by exact Hlt. lia.
  - apply IH.
    + apply N.div_str_pos. lia.
    + rewrite Nat2N.inj_succ, N.pow_succ_r' in Hn. apply N.div_lt_upper_bound; [lia|].
      generalize dependent (2 ^ N.of_nat f)%N. intros; lia.
Qed.

Lemma epoch_ok_dec e : (e <=? 4294967295)%N = true -> epoch_ok (dec_digits e) = true.
Proof.
  intros He. unfold epoch_ok.
  pose proof (RelLossyP.dec_digits_digits e) as Hd. pose proof (RelLossyP.dec_digits_nonempty e) as Hne.
  rewrite (of_uint_digits _ Hd), RelLossyP.dec_digits_value. unfold u32_max. rewrite He, andb_true_r.
  assert (Hn : nonempty (dec_digits e) = true) by (destruct (dec_digits e); [congruence|reflexivity]).
  rewrite Hn. change (forallb RelAcc.is_digit (dec_digits e)) with (forallb RelLossy.is_digit (dec_digits e)). rewrite Hd.
  cbn [andb]. destruct e as [|p]; [reflexivity|].
  destruct (dec_go_head (S (N.to_nat (N.log2 (Npos p)))) (Npos p) [] ltac:(lia)) as (c & r & E & Hc).
  { rewrite Nat2N.inj_succ, N2Nat.id. apply N.log2_lt_pow2; lia. }
  unfold dec_digits. rewrite E. destruct r as [|c2 r2]; [reflexivity|]. rewrite Hc. reflexivity.
Qed.

(* ================================================================== the pieces of a version *)
Lemma split_on_go_join sep s : forall acc p ps, split_on_go sep s acc = p :: ps ->
  acc ++ s = p ++ flat_map (fun x => sep :: x) ps.
Proof.
  induction s as [|c r IH]; intros acc p ps H; cbn [split_on_go] in H.
  - inversion H; subst. reflexivity.
  - destruct (N.eqb_spec c sep) as [->|Hne].
    + inversion H; subst. destruct (split_on_go sep r []) as [|q qs] eqn:E.
      * exfalso. revert E. clear. generalize (@nil N). induction r as [|c r IH]; intros acc; cbn; [discriminate|].
        destruct (c =? sep)%N; [discriminate|apply IH].
      * cbn [flat_map]. pose proof (IH [] q qs E) as J. cbn [app] in J. rewrite J. reflexivity.
    + rewrite <- (IH _ _ _ H), <- app_assoc. reflexivity.
Qed.

Lemma split_on_go_no_sep sep s : forall acc, Forall (fun p => forallb (fun c => negb (c =? sep)%N) p = true) (split_on_go sep s acc)
                                               \/ forallb (fun c => negb (c =? sep)%N) acc = false.
Proof.
  induction s as [|c r IH]; intros acc; cbn [split_on_go].
  - destruct (forallb (fun c => negb (c =? sep)%N) acc) eqn:E; [left; constructor; [exact E|constructor]|right; reflexivity].
  - destruct (N.eqb_spec c sep) as [->|Hne].
    + destruct (forallb (fun c => negb (c =? sep)%N) acc) eqn:E; [|right; reflexivity].
      left. constructor; [exact E|]. destruct (IH []) as [H|H]; [exact H|discriminate].
    + destruct (IH (acc ++ [c])) as [H|H]; [left; exact H|].
      rewrite forallb_app in H. cbn [forallb] in H. apply N.eqb_neq in Hne. rewrite Hne in H. cbn in H.
      rewrite andb_true_r in H. right. exact H.
Qed.

Lemma split_on_pieces sep s : exists p ps, split_on sep s = p :: ps /\ s = p ++ flat_map (fun x => sep :: x) ps /\
  Forall (fun q => forallb (fun c => negb (c =? sep)%N) q = true) (p :: ps).
Proof.
  unfold split_on. destruct (split_on_go sep s []) as [|p ps] eqn:E.
  - exfalso. revert E. generalize (@nil N). induction s as [|c r IH]; intros acc; cbn; [discriminate|].
    destruct (c =? sep)%N; [discriminate|apply IH].
  - exists p, ps. split; [reflexivity|]. split; [apply (split_on_go_join sep s [] p ps E)|].
    destruct (split_on_go_no_sep sep s []) as [H|H]; [rewrite E in H; exact H|discriminate].
Qed.

(* ================================================================== the abstract field of a lossy value *)
Definition vop_of (c : vconstraint) : vop :=
  match c with VC_ge => VGe | VC_le => VLe | VC_eq => VEq | VC_gt => VGt | VC_lt => VLt end.
Definition mk_terms (l : list (bool * str)) : list term :=
  match l with
  | [] => []
  | t :: r => mk_term [] (fst t) (snd t) :: map (fun t => mk_term [32%N] (fst t) (snd t)) r
  end.
Definition group_of (l : list (bool * str)) : group := mk_group [32%N] (mk_terms l) [].
Definition vbody (v : dversion) : str := dv_upstream v ++ RelLossyP.rev_text (dv_revision v).
Definition vclause_of (c : vconstraint) (v : dversion) : vclause :=
  match split_on 58%N (vbody v) with
  | p :: ps => mk_vclause [32%N] [] (vop_of c) [32%N] (option_map dec_digits (dv_epoch v)) p ps []
  | [] => mk_vclause [32%N] [] (vop_of c) [32%N] None [] [] []
  end.
Definition rel_of (bp : bool) (r : relation dversion) : rel :=
  mk_rel (RelLossy.r_name r)
         (option_map (mk_qual [] []) (r_archqual r))
         (option_map (fun cv => vclause_of (fst cv) (snd cv)) (r_version r))
         (option_map (fun a => group_of (map RelLossyP.arch_term a)) (RelLossy.r_archs r))
         (map (fun g => group_of (map RelLossyP.prof_term g)) (r_profiles r))
         (if bp then [32%N] else []).

Lemma ident_ok_same s : RelLossy.ident_ok s = true -> RelGrammar.ident_ok s = true.
Proof. destruct s; [discriminate|]. intros H. exact H. Qed.

(* ---- the version ---- *)
Lemma dv_print_vbody v : dv_print v = match dv_epoch v with Some e => dec_digits e ++ [58%N] | None => [] end ++ vbody v.
Proof. unfold dv_print, vbody, RelLossyP.rev_text. destruct (dv_revision v); rewrite <- ?app_assoc; reflexivity. Qed.

Lemma vtext_of c v : vtext (vclause_of c v) = dv_print v.
Proof.
  rewrite dv_print_vbody. unfold vclause_of. destruct (split_on_pieces 58%N (vbody v)) as (p & ps & E & J & _).
  rewrite E. unfold vtext. cbn [v_epoch v_ver v_more]. rewrite J. destruct (dv_epoch v); reflexivity.
Qed.

Lemma canonical_vbody_chars v : dv_canonical v = true ->
  forallb (fun c => is_ident_char c || (c =? 58)%N) (vbody v) = true /\
  (dv_epoch v = None -> forallb (fun c => negb (c =? 58)%N) (vbody v) = true).
Proof.
  intros H. destruct (RelLossyP.dv_canonical_ok v H) as [Ht _]. rewrite dv_print_vbody in Ht.
  unfold version_text_ok in Ht. rewrite forallb_app in Ht. apply andb_true_iff in Ht. destruct Ht as [_ Hb].
  split; [exact Hb|]. intros He.
  destruct v as [ep up rv]. cbn [dv_epoch] in He. subst ep. unfold dv_canonical in H. cbn [dv_epoch dv_upstream dv_revision] in H.
  apply andb_true_iff in H. destruct H as [H Hrv]. apply andb_true_iff in H. destruct H as [_ Hup].
  unfold vbody. cbn [dv_upstream dv_revision]. rewrite forallb_app. apply andb_true_iff. split.
  - eapply RelLossyP.forallb_impl; [|exact Hup]. intros c Hc. apply orb_true_iff in Hc.
    destruct Hc as [Hc|Hc]; apply andb_true_iff in Hc; destruct Hc as [Hc1 Hc2]; [|discriminate].
    unfold is_ident_char, is_ascii_alnum in Hc1. lia.
  - destruct rv as [r|]; [|reflexivity]. cbn [RelLossyP.rev_text forallb]. cbn [N.eqb Pos.eqb negb andb].
    destruct r; [discriminate|]. eapply RelLossyP.forallb_impl; [|exact Hrv]. intros c Hc.
    destruct (RelLossyP.revision_char_facts c Hc) as (_ & _ & ->). reflexivity.
Qed.

Lemma vclause_ok_of c v : dv_canonical v = true -> version_pieces_ok v = true -> vclause_ok (vclause_of c v) = true.
Proof.
  intros Hc Hp. destruct (canonical_vbody_chars v Hc) as [Hch Hnc].
  unfold vclause_of. destruct (split_on_pieces 58%N (vbody v)) as (p & ps & E & J & Hns). rewrite E.
  assert (Hpieces : forallb RelGrammar.ident_ok (p :: ps) = true).
  { unfold version_pieces_ok in Hp. change (match dv_revision v with Some r => 45%N :: r | None => [] end) with (RelLossyP.rev_text (dv_revision v)) in Hp.
    fold (vbody v) in Hp. rewrite E in Hp.
    assert (Hall : Forall (fun q => forallb (fun c => is_ident_char c || (c =? 58)%N) q = true) (p :: ps)).
    { rewrite J in Hch. rewrite forallb_app in Hch. apply andb_true_iff in Hch. destruct Hch as [H1 H2].
      constructor; [exact H1|]. clear -H2. induction ps as [|q r IH]; [constructor|]. cbn [flat_map] in H2.
      rewrite forallb_app in H2. apply andb_true_iff in H2. destruct H2 as [Hq Hr]. cbn [forallb] in Hq.
      apply andb_true_iff in Hq. constructor; [apply Hq|apply IH, Hr]. }
    clear -Hp Hall Hns. induction (p :: ps) as [|q r IH]; [reflexivity|].
    inversion Hall as [|? ? Hq Hr]; subst. inversion Hns as [|? ? Nq Nr]; subst. cbn [forallb] in Hp |- *.
    apply andb_true_iff in Hp. destruct Hp as [Hq0 Hp]. rewrite (IH Hp Nr Hr), andb_true_r.
    unfold RelGrammar.ident_ok. destruct q as [|c0 w]; [discriminate|]. cbn [nonempty andb].
    clear -Hq Nq. induction (c0 :: w) as [|c r IH]; [reflexivity|]. cbn [forallb] in *.
    apply andb_true_iff in Hq, Nq. destruct Hq as [Hc Hr], Nq as [Nc Nr]. rewrite (IH Hr Nr), andb_true_r.
    apply negb_true_iff in Nc. rewrite Nc, orb_false_r in Hc. exact Hc. }
  cbn [forallb] in Hpieces. apply andb_true_iff in Hpieces. destruct Hpieces as [Hp0 Hps].
  unfold vclause_ok. cbn [v_ws0 v_ws1 v_ws2 v_ws3 v_epoch v_ver v_more ws_ok forallb is_fws N.eqb Pos.eqb orb andb].
  rewrite Hp0, Hps. cbn [andb].
  assert (He : opt_ok epoch_ok (option_map dec_digits (dv_epoch v)) = true).
  { destruct v as [[e|] up rv]; cbn [dv_epoch option_map opt_ok]; [|reflexivity]. apply epoch_ok_dec.
    unfold dv_canonical in Hc. cbn [dv_epoch] in Hc. repeat (apply andb_true_iff in Hc; destruct Hc as [Hc ?]). exact Hc. }
  rewrite He. cbn [andb]. destruct (dv_epoch v) as [e|] eqn:Ee; [reflexivity|]. cbn [option_map].
  specialize (Hnc eq_refl). rewrite (RelLossyP.split_on_last 58%N (vbody v) Hnc) in E. inversion E; subst. reflexivity.
Qed.

(* ---- bracketed terms ---- *)
Lemma term_text_mk ws t : RelGrammar.term_text (mk_term ws (fst t) (snd t)) = ws ++ RelLossyP.term_text t.
Proof. unfold RelGrammar.term_text, RelLossyP.term_text, neg_text. cbn [t_ws t_neg t_name]. reflexivity. Qed.

Lemma terms_text l : flat_map RelGrammar.term_text (mk_terms l) = join [32%N] (map RelLossyP.term_text l).
Proof.
  destruct l as [|t r]; [reflexivity|]. cbn [mk_terms flat_map map]. rewrite term_text_mk. cbn [app].
  rewrite RelConvP.join_flat. f_equal. rewrite RelConvP.flat_map_map. induction r as [|x r IH]; [reflexivity|].
  cbn [map flat_map]. rewrite term_text_mk, IH. reflexivity.
Qed.

Lemma group_text_of o c l : RelGrammar.group_text o c (group_of l) = [32%N; o] ++ join [32%N] (map RelLossyP.term_text l) ++ [c].
Proof. unfold RelGrammar.group_text, group_body_text, group_of. cbn [g_ws0 g_terms g_ws1 app]. rewrite terms_text. reflexivity. Qed.

Lemma group_ok_of l : l <> [] -> Forall (fun t => RelLossy.ident_ok (snd t) = true) l -> group_ok (group_of l) = true.
Proof.
  intros Hne Hall. destruct l as [|t r]; [congruence|]. inversion Hall as [|? ? Ht Hr]; subst.
  unfold group_ok, group_of. cbn [g_ws0 g_terms g_ws1 mk_terms terms_ok ws_ok forallb is_fws N.eqb Pos.eqb orb andb].
  unfold term_ok at 1. cbn [t_ws t_name ws_ok forallb orb andb]. rewrite (ident_ok_same _ Ht). cbn [andb]. rewrite andb_true_r.
  clear -Hr. induction r as [|x r IH]; [reflexivity|]. inversion Hr as [|? ? Hx Hr']; subst. cbn [map forallb].
  rewrite (IH Hr'), andb_true_r. unfold term_ok. cbn [t_ws t_name ws_ok forallb is_fws N.eqb Pos.eqb orb andb nonempty].
  rewrite (ident_ok_same _ Hx). reflexivity.
Qed.

(* ---- one relation: text, well-formedness ---- *)
Lemma vop_text_of c : vop_text (vop_of c) = vc_print c.
Proof. destruct c; reflexivity. Qed.

Lemma arch_terms_text a : forallb arch_ok a = true -> map RelLossyP.term_text (map RelLossyP.arch_term a) = a.
Proof.
  induction a as [|x r IH]; [reflexivity|]. cbn [forallb]. intros H. apply andb_true_iff in H. destruct H as [Hx Hr].
  cbn [map]. rewrite (IH Hr). destruct (RelLossyP.arch_term_text x Hx) as [-> _]. reflexivity.
Qed.
Lemma prof_terms_text g : map RelLossyP.term_text (map RelLossyP.prof_term g) = map profile_print g.
Proof. induction g as [|p r IH]; [reflexivity|]. cbn [map]. rewrite IH. destruct p; reflexivity. Qed.

Lemma rel_text_of bp r : relation_okb r = true ->
  rel_text (rel_of bp r) = print_relation dv_print r ++ (if bp then [32%N] else []).
Proof.
  destruct r as [n q a v ps]. unfold relation_okb. cbn [RelLossy.r_name r_archqual RelLossy.r_archs r_version r_profiles]. intros H.
  apply andb_true_iff in H. destruct H as [H _]. apply andb_true_iff in H. destruct H as [_ Ha].
  unfold rel_text, rel_of, print_relation.
  cbn [RelGrammar.r_name r_qual r_ver RelGrammar.r_archs r_profs r_trail RelLossy.r_name r_archqual RelLossy.r_archs r_version r_profiles].
  rewrite <- !app_assoc. f_equal. f_equal; [destruct q; reflexivity|]. f_equal.
  { destruct v as [[c x]|]; [|reflexivity]. cbn [option_map opt_text fst snd]. unfold vclause_text, vbody_text.
    rewrite vtext_of. unfold vclause_of. destruct (split_on 58%N (vbody x)); cbn [v_ws0 v_ws1 v_ws2 v_ws3 v_op];
      rewrite vop_text_of; cbn [app]; rewrite <- ?app_assoc; reflexivity. }
  f_equal.
  { destruct a as [l|]; [|reflexivity]. cbn [option_map opt_text]. unfold arch_text. rewrite group_text_of, arch_terms_text by exact Ha.
    reflexivity. }
  f_equal. induction ps as [|g r IH]; [reflexivity|]. cbn [map flat_map]. rewrite IH. f_equal.
  unfold prof_text. rewrite group_text_of, prof_terms_text. reflexivity.
Qed.

Lemma arch_terms_ident a : forallb arch_ok a = true -> Forall (fun t => RelLossy.ident_ok (snd t) = true) (map RelLossyP.arch_term a).
Proof.
  induction a as [|x r IH]; [constructor|]. cbn [forallb]. intros H. apply andb_true_iff in H. destruct H as [Hx Hr].
  cbn [map]. constructor; [apply (RelLossyP.arch_term_text x Hx)|apply IH, Hr].
Qed.
Lemma prof_terms_ident g : forallb profile_ok g = true -> Forall (fun t => RelLossy.ident_ok (snd t) = true) (map RelLossyP.prof_term g).
Proof.
  induction g as [|p r IH]; [constructor|]. cbn [forallb]. intros H. apply andb_true_iff in H. destruct H as [Hp Hr].
  cbn [map]. constructor; [destruct p; exact Hp|apply IH, Hr].
Qed.

Lemma wf_rel_of bp r : relation_policy_ok r = true -> wf_rel (rel_of bp r) = true.
Proof.
  destruct r as [n q a v ps]. unfold relation_policy_ok, relation_okb, relation_pieces_ok.
  cbn [RelLossy.r_name r_archqual RelLossy.r_archs r_version r_profiles]. intros H.
  apply andb_true_iff in H. destruct H as [H Hpn]. apply andb_true_iff in H. destruct H as [H Han].
  apply andb_true_iff in H. destruct H as [H Hvp]. apply andb_true_iff in H. destruct H as [H Hp].
  apply andb_true_iff in H. destruct H as [H Ha]. apply andb_true_iff in H. destruct H as [H Hv].
  apply andb_true_iff in H. destruct H as [Hn Hq].
  unfold wf_rel, rel_of.
  cbn [RelGrammar.r_name r_qual r_ver RelGrammar.r_archs r_profs r_trail RelLossy.r_name r_archqual RelLossy.r_archs r_version r_profiles].
  rewrite (ident_ok_same _ Hn). cbn [andb].
  assert (E1 : opt_ok qual_ok (option_map (mk_qual [] []) q) = true).
  { destruct q as [s|]; [|reflexivity]. cbn [option_map opt_ok]. unfold qual_ok. cbn [q_ws0 q_ws1 q_name ws_ok forallb andb].
    apply ident_ok_same, Hq. }
  assert (E2 : opt_ok vclause_ok (option_map (fun cv => vclause_of (fst cv) (snd cv)) v) = true).
  { destruct v as [[c x]|]; [|reflexivity]. cbn [option_map opt_ok fst snd]. apply vclause_ok_of; assumption. }
  assert (E3 : opt_ok group_ok (option_map (fun a0 => group_of (map RelLossyP.arch_term a0)) a) = true).
  { destruct a as [l|]; [|reflexivity]. cbn [option_map opt_ok]. apply group_ok_of; [|apply arch_terms_ident, Ha].
    destruct l; [discriminate|discriminate]. }
  assert (E4 : forallb group_ok (map (fun g => group_of (map RelLossyP.prof_term g)) ps) = true).
  { clear -Hp Hpn. induction ps as [|g r IH]; [reflexivity|]. cbn [forallb map] in *.
    apply andb_true_iff in Hp, Hpn. destruct Hp as [Hg Hr], Hpn as [Hgn Hrn]. rewrite (IH Hr Hrn), andb_true_r.
    apply group_ok_of; [destruct g; [discriminate|discriminate]|apply prof_terms_ident, Hg]. }
  rewrite E1, E2, E3, E4. destruct bp; reflexivity.
Qed.

(* ---- one relation: the conversion back on the tree the parser builds ---- *)
Lemma conv_version_tree rr last : wf_rel rr = true ->
  conv_version (rel_tree rr last) =
  match r_ver rr with
  | None => Ok None
  | Some vcl => match vc_of_str (vop_text (v_op vcl)) with
                | None => Panic 11%N
                | Some o => match dv_parse (vtext vcl) with Some x => Ok (Some (o, x)) | None => Panic 12%N end
                end
  end.
Proof.
  intros H. unfold wf_rel in H. andb_split H.
  unfold conv_version. rewrite fn_rel by discriminate. cbn [rkind_eqb rkind_code N.eqb Pos.eqb].
  destruct (r_ver rr) as [v|]; cbn [option_map]; [|reflexivity].
  cbn [opt_ok] in W2. destruct (vclause_ok_inv v W2) as (_ & _ & _ & _ & _ & W4 & _ & _).
  cbn [vnode children first_node_of_kind]. rewrite first_node_app, fn_ws.
  cbn [app first_node_of_kind rkind_eqb rkind_code N.eqb Pos.eqb].
  assert (E : version_text_of
      (Tok L_PARENS [40%N] :: ws_elems (v_ws1 v) ++ Node CONSTRAINT (elems (vop_toks (v_op v)))
        :: ws_elems (v_ws2 v) ++ elems (vtext_toks v) ++ ws_elems (v_ws3 v) ++ [Tok R_PARENS [41%N]]) = vtext v).
  { change (version_text_of (Tok L_PARENS [40%N] :: ?x)) with (version_text_of x).
    rewrite version_text_app, version_text_ws. cbn [app].
    change (version_text_of (Node CONSTRAINT ?l :: ?x)) with (version_text_of x).
    rewrite !version_text_app, !version_text_ws, version_text_vtoks. cbn [app]. rewrite app_nil_r. reflexivity. }
  rewrite E.
  destruct (vtext v) as [|c0 w0] eqn:Ev; [destruct (vtext_nonempty v W4 Ev)|]. rewrite <- Ev.
  replace (text (Node CONSTRAINT (elems (vop_toks (v_op v))))) with (vop_text (v_op v)) by (destruct (v_op v); reflexivity).
  reflexivity.
Qed.

Lemma vc_of_vop c : vc_of_str (vop_text (vop_of c)) = Some c.
Proof. destruct c; reflexivity. Qed.

Lemma term_arch_mk ws t : arch_acc_text (term_arch (mk_term ws (fst t) (snd t))) = RelLossyP.term_text t.
Proof. reflexivity. Qed.
Lemma terms_arch l : map (fun t => arch_acc_text (term_arch t)) (mk_terms l) = map RelLossyP.term_text l.
Proof.
  destruct l as [|t r]; [reflexivity|]. cbn [mk_terms map]. rewrite term_arch_mk, map_map. f_equal.
Qed.
Lemma terms_profile g : map lprofile_of (map term_profile (mk_terms (map RelLossyP.prof_term g))) = g.
Proof.
  destruct g as [|p r]; [reflexivity|]. cbn [map mk_terms]. f_equal; [destruct p; reflexivity|].
  rewrite !map_map. rewrite <- (map_id r) at 2. apply map_ext. intros x. destruct x; reflexivity.
Qed.

Theorem to_lossy_rel_tree bp last r : relation_policy_ok r = true -> to_lossy (rel_tree (rel_of bp r) last) = Ok r.
Proof.
  intros Hpol. pose proof (wf_rel_of bp r Hpol) as Hwf.
  unfold relation_policy_ok in Hpol. apply andb_true_iff in Hpol. destruct Hpol as [Hpol _].
  apply andb_true_iff in Hpol. destruct Hpol as [Hpol _]. apply andb_true_iff in Hpol. destruct Hpol as [Hok _].
  destruct r as [n q a v ps]. unfold relation_okb in Hok. cbn [RelLossy.r_name r_archqual RelLossy.r_archs r_version r_profiles] in Hok.
  apply andb_true_iff in Hok. destruct Hok as [Hok _]. apply andb_true_iff in Hok. destruct Hok as [Hok Ha].
  apply andb_true_iff in Hok. destruct Hok as [_ Hv].
  unfold to_lossy. rewrite acc_name, (conv_version_tree _ last Hwf), acc_qual, acc_archs, (acc_profs _ last Hwf).
  unfold rel_of at 1 2 3 4 5. cbn [RelGrammar.r_name r_qual r_ver RelGrammar.r_archs r_profs RelLossy.r_name r_archqual RelLossy.r_archs r_version r_profiles].
  assert (Ev : match option_map (fun cv => vclause_of (fst cv) (snd cv)) v with
               | None => Ok None
               | Some vcl => match vc_of_str (vop_text (v_op vcl)) with
                             | None => Panic 11%N
                             | Some o => match dv_parse (vtext vcl) with Some x => Ok (Some (o, x)) | None => Panic 12%N end
                             end
               end = Ok v).
  { destruct v as [[c x]|]; [|reflexivity]. cbn [option_map fst snd]. rewrite vtext_of.
    replace (v_op (vclause_of c x)) with (vop_of c) by (unfold vclause_of; destruct (split_on 58%N (vbody x)); reflexivity).
    rewrite vc_of_vop. destruct (RelLossyP.dv_canonical_ok x Hv) as [_ ->]. reflexivity. }
  rewrite Ev. f_equal.
  assert (Eq : option_map q_name (option_map (mk_qual [] []) q) = q) by (destruct q; reflexivity).
  assert (Ea : option_map (fun g => map (fun t => arch_acc_text (term_arch t)) (g_terms g))
                 (option_map (fun a0 => group_of (map RelLossyP.arch_term a0)) a) = a).
  { destruct a as [l|]; [|reflexivity]. cbn [option_map group_of g_terms]. rewrite terms_arch, arch_terms_text by exact Ha. reflexivity. }
  assert (Ep : map (map lprofile_of) (map (fun g => map term_profile (g_terms g)) (map (fun g => group_of (map RelLossyP.prof_term g)) ps)) = ps).
  { rewrite !map_map. rewrite <- (map_id ps) at 2. apply map_ext. intros g. cbn [group_of g_terms]. apply terms_profile. }
  rewrite Eq, Ea, Ep. reflexivity.
Qed.

(* ================================================================== entries and the whole field *)
Fixpoint alts_of (rs : list (relation dversion)) : list (str * rel) :=
  match rs with
  | [] => []
  | r :: rest => ([32%N], rel_of (nonempty_list rest) r) :: alts_of rest
  end.
Definition item_of (e : list (relation dversion)) : item :=
  match e with
  | [] => IEmpty
  | r :: rs => IEntry (rel_of (nonempty_list rs) r) (alts_of rs)
  end.
Definition rf_of (rs : list (list (relation dversion))) : rfield :=
  match rs with
  | [] => mk_rfield [] IEmpty []
  | e :: es => mk_rfield [] (item_of e) (map (fun e' => ([32%N], item_of e')) es)
  end.

Lemma entry_policy_inv e : entry_policy_ok e = true ->
  exists r rs, e = r :: rs /\ forallb relation_policy_ok (r :: rs) = true.
Proof. unfold entry_policy_ok. destruct e as [|r rs]; [discriminate|]. cbn [nonempty_list andb]. intros H. exists r, rs. split; [reflexivity|exact H]. Qed.
Lemma policy_okb r : relation_policy_ok r = true -> relation_okb r = true.
Proof. unfold relation_policy_ok. intros H. do 3 (apply andb_true_iff in H; destruct H as [H _]). exact H. Qed.

(* ---- text ---- *)
Lemma rels_text_of rs : forall r, forallb relation_policy_ok (r :: rs) = true ->
  rels_text (rel_of (nonempty_list rs) r) (alts_of rs) = print_entry dv_print (r :: rs).
Proof.
  induction rs as [|r' rs IH]; intros r H; cbn [forallb] in H; apply andb_true_iff in H; destruct H as [Hr Hrs].
  - cbn [alts_of rels_text nonempty_list]. rewrite (rel_text_of false r (policy_okb r Hr)), !app_nil_r. reflexivity.
  - cbn [alts_of rels_text nonempty_list]. rewrite (rel_text_of true r (policy_okb r Hr)), (IH r' Hrs).
    rewrite (RelLossyP.print_entry_cons dversion dv_print r (r' :: rs)) by discriminate. rewrite <- !app_assoc. reflexivity.
Qed.
Lemma item_text_of e : entry_policy_ok e = true -> item_text (item_of e) = print_entry dv_print e.
Proof. intros H. destruct (entry_policy_inv e H) as (r & rs & -> & Hrs). cbn [item_of item_text]. apply rels_text_of, Hrs. Qed.

Lemma rrender_rf_of rs : relations_policy_ok rs = true -> rrender (rf_of rs) = print_relations dv_print rs.
Proof.
  unfold relations_policy_ok. destruct rs as [|e es]; [reflexivity|]. cbn [forallb]. intros H.
  apply andb_true_iff in H. destruct H as [He Hes]. unfold rrender, rf_of. cbn [f_lead f_first f_rest app].
  revert e He; induction es as [|e' es IH]; intros e He.
  - cbn [map items_text]. rewrite (item_text_of e He), app_nil_r. reflexivity.
  - cbn [forallb] in Hes. apply andb_true_iff in Hes. destruct Hes as [He' Hes].
    cbn [map items_text]. rewrite (item_text_of e He), (IH Hes e' He').
    rewrite (RelLossyP.print_relations_cons dversion dv_print e (e' :: es)) by discriminate. reflexivity.
Qed.

(* ---- well-formedness ---- *)
Lemma wf_alts_of rs : forallb relation_policy_ok rs = true -> forallb wf_alt (alts_of rs) = true.
Proof.
  induction rs as [|r rs IH]; [reflexivity|]. cbn [forallb alts_of]. intros H. apply andb_true_iff in H. destruct H as [H1 H2].
  rewrite (IH H2), andb_true_r. unfold wf_alt. cbn [fst snd ws_ok forallb is_fws N.eqb Pos.eqb orb andb]. apply wf_rel_of, H1.
Qed.
Lemma wf_item_of a e : entry_policy_ok e = true -> wf_item a (item_of e) = true.
Proof.
  intros H. destruct (entry_policy_inv e H) as (r & rs & -> & Hrs). cbn [forallb] in Hrs. apply andb_true_iff in Hrs.
  destruct Hrs as [H1 H2]. cbn [item_of wf_item]. rewrite (wf_rel_of _ r H1), (wf_alts_of rs H2). reflexivity.
Qed.
Lemma wf_rf_of a rs : relations_policy_ok rs = true -> wf_rfield a (rf_of rs) = true.
Proof.
  unfold relations_policy_ok. destruct rs as [|e es]; [reflexivity|]. cbn [forallb]. intros H.
  apply andb_true_iff in H. destruct H as [He Hes]. unfold wf_rfield, rf_of. cbn [f_lead f_first f_rest ws_ok forallb andb].
  rewrite (wf_item_of a e He). cbn [andb]. induction es as [|e' es IH]; [reflexivity|]. cbn [forallb map] in *.
  apply andb_true_iff in Hes. destruct Hes as [He' Hes]. rewrite (IH Hes), andb_true_r.
  unfold wf_more. cbn [fst snd ws_ok forallb is_fws N.eqb Pos.eqb orb andb]. apply wf_item_of, He'.
Qed.

(* ---- the conversion back on the tree the parser builds ---- *)
Lemma conv_rels_elems rs : forall r last, forallb relation_policy_ok (r :: rs) = true ->
  res_all to_lossy (nodes_of RELATION (rels_elems (rel_of (nonempty_list rs) r) (alts_of rs) last)) = Ok (r :: rs).
Proof.
  induction rs as [|r' rs IH]; intros r last H; cbn [forallb] in H; apply andb_true_iff in H; destruct H as [Hr Hrs];
    cbn [alts_of rels_elems nonempty_list].
  - change (nodes_of RELATION (rel_tree ?x last :: ?y)) with (rel_tree x last :: nodes_of RELATION y).
    assert (E : nodes_of RELATION (if last then ws_elems (rel_left (rel_of false r) last) else []) = [])
      by (destruct last; [apply nodes_of_ws|reflexivity]).
    rewrite E. cbn [res_all]. rewrite (to_lossy_rel_tree false last r Hr). reflexivity.
  - change (nodes_of RELATION (rel_tree ?x false :: ?y)) with (rel_tree x false :: nodes_of RELATION y).
    rewrite nodes_of_app, nodes_of_ws. cbn [app].
    change (nodes_of RELATION (Tok PIPE [124%N] :: ?x)) with (nodes_of RELATION x).
    rewrite nodes_of_app, nodes_of_ws. cbn [app res_all].
    rewrite (to_lossy_rel_tree true false r Hr), (IH r' last Hrs). reflexivity.
Qed.

Lemma entry_to_lossy_entry r rs last : forallb relation_policy_ok (r :: rs) = true ->
  entry_to_lossy (Node ENTRY (rels_elems (rel_of (nonempty_list rs) r) (alts_of rs) last)) = Ok (r :: rs).
Proof. intros H. exact (conv_rels_elems rs r last H). Qed.

Lemma conv_items_elems es : forall e, forallb entry_policy_ok (e :: es) = true ->
  res_all entry_to_lossy (nodes_of ENTRY (items_elems (item_of e) (map (fun e' => ([32%N], item_of e')) es))) = Ok (e :: es).
Proof.
  induction es as [|e' es IH]; intros e H; cbn [forallb] in H; apply andb_true_iff in H; destruct H as [He Hes];
    destruct (entry_policy_inv e He) as (r & rs & -> & Hrs).
  - cbn [map items_elems item_of item_elems is_nil app]. rewrite app_nil_r.
    change (nodes_of ENTRY (Node ENTRY ?c :: ?x)) with (Node ENTRY c :: nodes_of ENTRY x).
    rewrite nodes_of_ws. cbn [res_all]. rewrite (entry_to_lossy_entry r rs true Hrs). reflexivity.
  - cbn [map items_elems item_of item_elems is_nil]. rewrite nodes_of_app.
    change (nodes_of ENTRY (Node ENTRY ?c :: ?x)) with (Node ENTRY c :: nodes_of ENTRY x).
    rewrite nodes_of_ws. change (nodes_of ENTRY (Tok COMMA [44%N] :: ?x)) with (nodes_of ENTRY x).
    rewrite nodes_of_app, nodes_of_ws. cbn [app res_all]. rewrite (entry_to_lossy_entry r rs false Hrs).
    change (map (fun e'0 => ([32%N], item_of e'0)) es) with (map (fun e'0 => ([32%N], item_of e'0)) es).
    rewrite (IH e' Hes). reflexivity.
Qed.

Lemma field_to_lossy_rtree rs : relations_policy_ok rs = true -> field_to_lossy (rtree_of (rf_of rs)) = Ok rs.
Proof.
  intros H. destruct rs as [|e es]; [reflexivity|].
  unfold field_to_lossy, relations_entries, r_entries, rnodes_of_kind, rtree_of, rf_of. cbn [children f_lead f_first f_rest].
  change (ws_elems []) with (@nil rtree). cbn [app].
  fold (nodes_of ENTRY (items_elems (item_of e) (map (fun e' => ([32%N], item_of e')) es))).
  apply conv_items_elems. exact H.
Qed.

(* clause 3, field level: lossless::Relations::from_str(rs.to_string()) converts back to rs *)
Theorem read_field rs : relations_policy_ok rs = true ->
  exists t, RelParse.relations_from_str (print_relations dv_print rs) = Ok t /\
            parse_relaxed (print_relations dv_print rs) true = Ok (t, 0) /\
            text t = print_relations dv_print rs /\
            field_to_lossy t = Ok rs.
Proof.
  intros H. exists (rtree_of (rf_of rs)).
  destruct (C10_lossless_all true (rf_of rs) (wf_rf_of true rs H)) as (_ & _ & P & T & _).
  pose proof (from_str_rrender (rf_of rs) (wf_rf_of false rs H)) as S.
  rewrite (rrender_rf_of rs H) in P, T, S. repeat split; auto. apply field_to_lossy_rtree, H.
Qed.

Theorem read_field_as_lossy_rt rs : relations_policy_ok rs = true ->
  read_field_as_lossy (print_relations dv_print rs) = Ok rs.
Proof. intros H. destruct (read_field rs H) as (t & S & _ & _ & L). unfold read_field_as_lossy. rewrite S. exact L. Qed.

(* ---- Entry::from_str and Relation::from_str on the printed text ---- *)
Lemma entries_single e r rs : e = r :: rs ->
  r_entries (rtree_of (rf_of [e])) = [Node ENTRY (rels_elems (rel_of (nonempty_list rs) r) (alts_of rs) true)].
Proof.
  intros ->. unfold r_entries, rnodes_of_kind, rtree_of, rf_of. cbn [children f_lead f_first f_rest map].
  change (ws_elems []) with (@nil rtree). cbn [app items_elems item_of item_elems is_nil]. rewrite app_nil_r.
  fold (nodes_of ENTRY (Node ENTRY (rels_elems (rel_of (nonempty_list rs) r) (alts_of rs) true)
                        :: ws_elems (rels_left (rel_of (nonempty_list rs) r) (alts_of rs) true))).
  change (nodes_of ENTRY (Node ENTRY ?c :: ?x)) with (Node ENTRY c :: nodes_of ENTRY x). rewrite nodes_of_ws. reflexivity.
Qed.

Theorem read_entry_as_lossy_rt e : entry_policy_ok e = true -> read_entry_as_lossy (print_entry dv_print e) = Ok e.
Proof.
  intros H. assert (Hf : relations_policy_ok [e] = true) by (cbn; rewrite H; reflexivity).
  pose proof (from_str_rrender (rf_of [e]) (wf_rf_of false [e] Hf)) as S. rewrite (rrender_rf_of [e] Hf) in S.
  change (print_relations dv_print [e]) with (print_entry dv_print e) in S.
  destruct (entry_policy_inv e H) as (r & rs & E & Hrs).
  unfold read_entry_as_lossy, entry_from_str. rewrite S, (entries_single e r rs E). cbn [bind].
  subst e. apply entry_to_lossy_entry, Hrs.
Qed.

Theorem read_as_lossy_rt r : relation_policy_ok r = true -> read_as_lossy (print_relation dv_print r) = Ok r.
Proof.
  intros H. assert (He : entry_policy_ok [r] = true) by (cbn; rewrite H; reflexivity).
  assert (Hf : relations_policy_ok [[r]] = true) by (cbn; rewrite H; reflexivity).
  pose proof (from_str_rrender (rf_of [[r]]) (wf_rf_of false [[r]] Hf)) as S. rewrite (rrender_rf_of [[r]] Hf) in S.
  change (print_relations dv_print [[r]]) with (print_relation dv_print r) in S.
  unfold read_as_lossy, RelParse.relation_from_str, entry_from_str. rewrite S, (entries_single [r] r [] eq_refl).
  cbn [alts_of nonempty_list rels_elems]. unfold r_relations, rnodes_of_kind. cbn [children].
  fold (nodes_of RELATION (rel_tree (rel_of false r) true :: ws_elems (rel_left (rel_of false r) true))).
  change (nodes_of RELATION (rel_tree ?x true :: ?y)) with (rel_tree x true :: nodes_of RELATION y). rewrite nodes_of_ws.
  cbn [bind]. apply to_lossy_rel_tree, H.
Qed.
