(* ParsedVcs::from_str and get_pool_path at the byte level (C02): every slice the source performs
   is on a character boundary, for every input; the byte-level function is the char-level model. *)
From V.model Require Import Base Utf8 CodecStr Vcs ByteVcs.
From V.gen Require Import ByteSites_gen.
From V.proofs Require Import BaseP Utf8P CodecStrP VcsP.

Lemma slice_to_b_prefix (a b : str) : slice_to_b (a ++ b) (len_b a) = Ok a.
Proof. unfold slice_to_b. rewrite split_at_b_prefix. reflexivity. Qed.
Lemma slice_from_b_prefix (a b : str) : slice_from_b (a ++ b) (len_b a) = Ok b.
Proof. unfold slice_from_b. rewrite split_at_b_prefix. reflexivity. Qed.

(* &s[len a .. len a + len m] of a ++ m ++ b *)
Lemma slice_b_mid (a m b : str) : slice_b (a ++ m ++ b) (len_b a) (len_b a + len_b m) = Ok m.
Proof.
  unfold slice_b. replace (len_b a + len_b m <? len_b a) with false by (symmetry; apply Nat.ltb_ge; lia).
  rewrite app_assoc, <- len_b_app, slice_to_b_prefix. cbn [bind]. apply slice_from_b_prefix.
Qed.

Lemma vcs_sites_src_ok :
  vcs_sites_recognised = true /\ pool_sites_recognised = true /\
  vcs_regex_src = [32; 92; 91; 40; 91; 94; 93; 32; 93; 43; 41; 92; 93]%N /\      (* ` \[([^] ]+)\]` *)
  vcs_sub_from_src = 2 /\ vcs_sub_back_src = 1 /\ vcs_branch_from_src = 4 /\
  vcs_find_lit_src = lit_dash_b /\
  pool_guard_src = [108; 105; 98]%N /\ pool_prefix_src = 1.
Proof. repeat split; reflexivity. Qed.

(* For EVERY input: no slice of ParsedVcs::from_str is off a boundary or out of range, and the
   result is the char-level model's. *)
Theorem pvcs_bytes (s : str) : parsed_vcs_from_str_b s = parsed_vcs_from_str s.
Proof.
  unfold parsed_vcs_from_str_b, parsed_vcs_from_str_k, parsed_vcs_from_str, re_find_b.
  set (s0 := trim s).
  assert (Tail : forall sub s1,
    match find_str_b lit_dash_b s1 with
    | Some index =>
        bind (split_at_b s1 index) (fun '(url, branch_str) =>
        bind (slice_from_b branch_str 4) (fun br =>
        Ok {| repo_url := url; branch := Some br; subpath := sub |}))
    | None => Ok {| repo_url := s1; branch := None; subpath := sub |}
    end =
    match find_sub lit_dash_b s1 with
    | Some (url, br) => Ok {| repo_url := url; branch := Some (skipn 4 br); subpath := sub |}
    | None => Ok {| repo_url := s1; branch := None; subpath := sub |}
    end).
  { intros sub s1. rewrite find_str_b_sub. destruct (find_sub lit_dash_b s1) as [[url br]|] eqn:F; [|reflexivity].
    destruct (find_sub_some _ _ _ _ F) as [E Hst]. subst s1. rewrite split_at_b_prefix. cbn [bind].
    apply starts_with_split in Hst. change (length lit_dash_b) with 4 in Hst.
    rewrite Hst at 1. change 4 with (len_b lit_dash_b) at 1. rewrite slice_from_b_prefix. reflexivity. }
  destruct (re_find s0) as [[[a run] b]|] eqn:R.
  - apply re_find_some in R. rewrite R.
    replace ([32; 91] ++ run ++ 93 :: b)%N with (([32; 91] ++ run ++ [93]) ++ b)%N
      by (rewrite <- !app_assoc; reflexivity).
    set (m := ([32; 91] ++ run ++ [93])%N).
    rewrite slice_b_mid. cbn [bind].
    assert (Lm : len_b m = len_b ([32; 91]%N ++ run) + 1).
    { unfold m. rewrite app_assoc, len_b_app. reflexivity. }
    unfold sub_b. replace (len_b m <? 1) with false by (symmetry; apply Nat.ltb_ge; lia). cbn [bind].
    replace (len_b m - 1) with (len_b [32; 91]%N + len_b run) by (rewrite Lm, len_b_app; lia).
    change 2 with (len_b [32; 91]%N) at 1.
    assert (Em : m = [32; 91]%N ++ run ++ [93%N]) by reflexivity. rewrite Em at 1.
    rewrite slice_b_mid. cbn [bind].
    rewrite slice_to_b_prefix. cbn [bind].
    rewrite app_assoc, <- len_b_app, slice_from_b_prefix. cbn [bind]. apply Tail.
  - cbn [bind]. apply Tail.
Qed.

Corollary pvcs_bytes_total (s : str) : exists v, parsed_vcs_from_str_b s = Ok v.
Proof. rewrite pvcs_bytes. apply pvcs_total. Qed.

(* ... with the constants read from the source on this run *)
Theorem pvcs_bytes_src (s : str) :
  parsed_vcs_from_str_k vcs_sub_from_src vcs_sub_back_src vcs_branch_from_src vcs_find_lit_src s
  = parsed_vcs_from_str s.
Proof. exact (pvcs_bytes s). Qed.

(* the constants matter: were the subpath taken from byte 3 of the match text (`[3..len - 1]`),
   " [é]" would be sliced in the middle of "é" (bytes: ' ' 0, '[' 1, 'é' 2-3, ']' 4) *)
Lemma pvcs_slice_needed :
  parsed_vcs_from_str_k 3 1 4 lit_dash_b [117; 32; 91; 233; 93]%N = Panic site_not_boundary.
Proof. reflexivity. Qed.

(* ------------------------------------------------------------------ get_pool_path *)
(* `source[..1]`: a value exactly when the first character is one byte long; the char-level model
   (Accessors.changes_get_pool_path: Panic 5 on an empty name or a first character >= 128) is
   exactly this, for any per-character lowercase mapping *)
Theorem pool_prefix_bytes (lower : char -> char) (source : str) :
  res_sim (pool_prefix_b lower source)
          (match source with
           | [] => Panic 5%N
           | x :: _ => if (x <? 128)%N then Ok [lower x] else Panic 5%N
           end).
Proof.
  unfold pool_prefix_b, pool_prefix_k, slice_to_b. destruct source as [|x r]; [exact I|].
  destruct (x <? 128)%N eqn:L.
  - apply N.ltb_lt in L. apply ulen_ascii in L.
    rewrite <- L, split_at_b_first. reflexivity.
  - apply N.ltb_ge in L. assert (U : ulen x <> 1) by (intros U; apply ulen_ascii in U; lia).
    pose proof (ulen_pos x). rewrite split_at_b_inside by lia. exact I.
Qed.

Theorem pool_prefix_bytes_src (lower : char -> char) (source : str) :
  res_sim (pool_prefix_k pool_prefix_src lower source)
          (match source with
           | [] => Panic 5%N
           | x :: _ => if (x <? 128)%N then Ok [lower x] else Panic 5%N
           end).
Proof. exact (pool_prefix_bytes lower source). Qed.

(* the site list is complete: translate/bytesites.py scans the library code of the five crates for
   every byte-range slicing expression; the files and counts it finds are exactly the sites
   transcribed in ByteLex.v / ByteVcs.v (a new slicing expression anywhere makes this false) *)
Lemma slice_sites_complete_ok : slice_sites_complete = true.
Proof. reflexivity. Qed.
