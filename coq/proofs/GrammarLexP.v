(* The lexer on rendered well-formed documents: lex (render d) = Ok (doc_toks d). *)
From V.model Require Import Base Deb822Lex Deb822Parse Grammar.
From V.proofs Require Import BaseP Deb822LexP.

(* ---- fuel irrelevance ---- *)
Lemma lex_go_fuel f1 : forall f2 st s, length s <= f1 -> length s <= f2 -> lex_go f1 st s = lex_go f2 st s.
Proof.
  induction f1 as [|f1 IH]; intros f2 st s H1 H2.
  - destruct s; [|cbn in H1; lia]. destruct f2; reflexivity.
  - destruct s as [|c r]; [destruct f2; reflexivity|].
    destruct f2 as [|f2]; [cbn in H2; lia|]. cbn [lex_go].
    destruct (lex_step st c r) as [[[t st'] r']| | |] eqn:E; try reflexivity.
    destruct t as [k tx]. apply lex_step_spec in E. destruct E as (_ & _ & Hr).
    rewrite (IH f2 st' r'); [reflexivity|cbn in H1; lia|cbn in H2; lia].
Qed.

Definition lexf (st : lst) (s : str) : res (list token) := lex_go (length s) st s.

Lemma lexf_nil st : lexf st [] = Ok [].
Proof. reflexivity. Qed.

Lemma lexf_cons st c r :
  lexf st (c :: r) =
  match lex_step st c r with
  | Ok (t, st', r') => match lexf st' r' with Ok ts => Ok (t :: ts) | Err e => Err e | Panic n => Panic n | OutOfFuel => OutOfFuel end
  | Err e => Err e | Panic n => Panic n | OutOfFuel => OutOfFuel
  end.
Proof.
  unfold lexf. cbn [length lex_go].
  destruct (lex_step st c r) as [[[t st'] r']| | |] eqn:E; try reflexivity.
  destruct t as [k tx]. apply lex_step_spec in E. destruct E as (_ & _ & Hr).
  rewrite (lex_go_fuel (length r) (length r') st' r'); [reflexivity|lia|lia].
Qed.

Lemma lex_is_lexf s : lex s = lexf (lst_init true) s.
Proof. reflexivity. Qed.

(* ---- spans that stop exactly where a token ends ---- *)
Definition stops {A} (p : A -> bool) (rest : list A) : Prop :=
  match rest with [] => True | x :: _ => p x = false end.

Lemma span_app_stop {A} (p : A -> bool) (w rest : list A) :
  forallb p w = true -> stops p rest -> span p (w ++ rest) = (w, rest).
Proof.
  induction w as [|c w IH]; intros Hw Hs; cbn [app span].
  - destruct rest as [|x r]; [reflexivity|]. cbn in Hs. cbn [span]. rewrite Hs. reflexivity.
  - cbn in Hw. apply andb_true_iff in Hw. destruct Hw as [Hc Hw]. rewrite Hc, (IH Hw Hs). reflexivity.
Qed.

Definition st_init := mk_lst true false false.       (* at the start of a line *)
Definition st_key := mk_lst false false false.       (* after the field name *)
Definition st_val := mk_lst false true false.        (* after the colon on the first line *)
Definition st_ind := mk_lst true false true.         (* after the indentation of a continuation line *)

Definition at_eol (rest : str) : Prop := match rest with [] => True | x :: _ => x = LF end.

Lemma at_eol_stops_noeol rest : at_eol rest -> stops (fun x => negb (is_newline x)) rest.
Proof. destruct rest as [|x r]; [trivial|]. cbn. intros ->. reflexivity. Qed.
Lemma at_eol_stops_indent rest : at_eol rest -> stops is_indent rest.
Proof. destruct rest as [|x r]; [trivial|]. cbn. intros ->. reflexivity. Qed.
Lemma at_eol_stops_key rest : at_eol rest -> stops is_valid_key_char rest.
Proof. destruct rest as [|x r]; [trivial|]. cbn. intros ->. reflexivity. Qed.

Ltac lex1 := rewrite lexf_cons; unfold lex_step; cbn [sol colon ind st_init st_key st_val st_ind negb andb orb].

(* KEY *)
Lemma lexf_key name rest ts :
  valid_name name = true -> stops is_valid_key_char rest ->
  lexf st_key rest = Ok ts -> lexf st_init (name ++ rest) = Ok ((KEY, name) :: ts).
Proof.
  intros Hn Hs Hr. destruct name as [|c w]; [discriminate|]. cbn [valid_name] in Hn.
  apply andb_true_iff in Hn. destruct Hn as [Hn Hw]. apply andb_true_iff in Hn. destruct Hn as [Hi H35].
  cbn [app]. lex1.
  assert (H58 : (c =? 58)%N = false).
  { unfold is_valid_initial_key_char, is_valid_key_char in Hi. destruct (c =? 58)%N; [|reflexivity].
    rewrite !andb_false_r in Hi. discriminate. }
  assert (Hnl : is_newline c = false).
  { unfold is_valid_initial_key_char, is_valid_key_char, is_ascii_graphic, is_newline in *.
    destruct (c =? 10)%N eqn:E1; [apply N.eqb_eq in E1; subst; discriminate|].
    destruct (c =? 13)%N eqn:E2; [apply N.eqb_eq in E2; subst; discriminate|]. reflexivity. }
  assert (Hin : is_indent c = false).
  { unfold is_valid_initial_key_char, is_valid_key_char, is_ascii_graphic, is_indent in *.
    destruct (c =? 32)%N eqn:E1; [apply N.eqb_eq in E1; subst; discriminate|].
    destruct (c =? 9)%N eqn:E2; [apply N.eqb_eq in E2; subst; discriminate|]. reflexivity. }
  rewrite H58, Hnl, Hin. cbn [andb]. apply negb_true_iff in H35. rewrite H35, Hi. cbn [andb].
  rewrite (span_app_stop _ w rest Hw Hs). fold st_key. rewrite Hr. reflexivity.
Qed.

(* COLON after the name *)
Lemma lexf_colon rest ts : lexf st_val rest = Ok ts -> lexf st_key (58%N :: rest) = Ok ((COLON, [58%N]) :: ts).
Proof. intros Hr. lex1. cbn. fold st_val. rewrite Hr. reflexivity. Qed.

(* optional WHITESPACE after the colon *)
Lemma lexf_ws ws rest ts :
  ws_ok ws = true -> stops is_indent rest ->
  lexf st_val rest = Ok ts -> lexf st_val (ws ++ rest) = Ok (opt_tok WHITESPACE ws ++ ts).
Proof.
  intros Hw Hs Hr. destruct ws as [|c w]; [exact Hr|]. cbn [ws_ok forallb] in Hw.
  apply andb_true_iff in Hw. destruct Hw as [Hc Hw]. cbn [app opt_tok]. lex1.
  assert (Hnl : is_newline c = false).
  { unfold is_indent, is_newline in *. destruct (c =? 32)%N eqn:E1; [apply N.eqb_eq in E1; subst; reflexivity|].
    destruct (c =? 9)%N eqn:E2; [apply N.eqb_eq in E2; subst; reflexivity|]. discriminate. }
  rewrite andb_false_r, Hnl, Hc. cbn [andb]. rewrite (span_app_stop _ w rest Hw Hs). cbv beta iota. rewrite Hr. reflexivity.
Qed.

(* a VALUE token: the rest of a line, in a state where a value is expected *)
Definition value_state (st : lst) : Prop := (st = st_val \/ st = st_ind).

Lemma lexf_value st t rest ts :
  value_state st -> no_eol t = true ->
  match t with x :: _ => is_indent x = false /\ (st = st_ind -> (x =? 35)%N = false) | [] => True end ->
  at_eol rest ->
  lexf st rest = Ok ts -> lexf st (t ++ rest) = Ok (opt_tok VALUE t ++ ts).
Proof.
  intros Hst Hne Hx Hs Hr. destruct t as [|c w]; [exact Hr|]. destruct Hx as [Hin H35].
  cbn [no_eol forallb] in Hne. apply andb_true_iff in Hne. destruct Hne as [Hc Hw].
  apply negb_true_iff in Hc. cbn [app opt_tok].
  pose proof (span_app_stop _ w rest Hw (at_eol_stops_noeol _ Hs)) as Hsp.
  destruct Hst as [-> | ->]; lex1.
  - rewrite andb_false_r, Hc, Hin. rewrite !andb_false_r. cbn [andb orb]. rewrite Hsp. cbv beta iota. rewrite Hr. reflexivity.
  - rewrite andb_false_r, Hc, Hin, (H35 eq_refl). cbn [andb]. rewrite !andb_false_r. cbn [andb orb].
    rewrite Hsp. cbv beta iota. rewrite Hr. reflexivity.
Qed.

(* NEWLINE (LF) from any state *)
Lemma lexf_lf st rest ts : ind st = true \/ colon st = true \/ True ->
  lexf st_init rest = Ok ts -> lexf st (LF :: rest) = Ok ((NEWLINE, [LF]) :: ts).
Proof.
  intros _ Hr. rewrite lexf_cons. unfold lex_step, LF. cbn. fold st_init. unfold LF in Hr. rewrite Hr. reflexivity.
Qed.

(* optional final LF *)
Lemma lexf_nl st b rest ts :
  (b = false -> rest = []) ->
  lexf st_init rest = Ok ts -> lexf st (nl_text b ++ rest) = Ok (nl_tok b ++ ts).
Proof.
  intros Hb Hr. destruct b; cbn [nl_text nl_tok app].
  - apply lexf_lf; [tauto|exact Hr].
  - rewrite (Hb eq_refl) in *. rewrite lexf_nil in Hr. rewrite lexf_nil. exact Hr.
Qed.

(* INDENT at the start of a continuation line *)
Lemma lexf_indent i rest ts :
  i <> [] -> ws_ok i = true -> stops is_indent rest ->
  lexf st_ind rest = Ok ts -> lexf st_init (i ++ rest) = Ok ((INDENT, i) :: ts).
Proof.
  intros Hne Hw Hs Hr. destruct i as [|c w]; [congruence|]. cbn [ws_ok forallb] in Hw.
  apply andb_true_iff in Hw. destruct Hw as [Hc Hw]. cbn [app]. lex1.
  assert (Hnl : is_newline c = false).
  { unfold is_indent, is_newline in *. destruct (c =? 32)%N eqn:E1; [apply N.eqb_eq in E1; subst; reflexivity|].
    destruct (c =? 9)%N eqn:E2; [apply N.eqb_eq in E2; subst; reflexivity|]. discriminate. }
  assert (H58 : (c =? 58)%N = false).
  { unfold is_indent in Hc. destruct (c =? 58)%N eqn:E; [apply N.eqb_eq in E; subst; discriminate|reflexivity]. }
  rewrite H58, Hnl, Hc. cbn [andb]. rewrite (span_app_stop _ w rest Hw Hs). fold st_ind. rewrite Hr. reflexivity.
Qed.

(* COMMENT line *)
Lemma lexf_comment c rest ts :
  no_eol c = true -> at_eol rest ->
  lexf st_init rest = Ok ts -> lexf st_init (35%N :: c ++ rest) = Ok ((COMMENT, 35%N :: c) :: ts).
Proof.
  intros Hc Hs Hr. lex1. cbn.
  rewrite (span_app_stop _ c rest Hc (at_eol_stops_noeol _ Hs)). fold st_init. rewrite Hr. reflexivity.
Qed.

(* ---- lines, fields, items, blocks, documents ---- *)
Lemma tail_at_eol cs b rest : (b = false -> rest = []) -> at_eol (flat_map cont_text cs ++ nl_text b ++ rest).
Proof.
  intros Hb. destruct cs as [|c cs]; cbn [flat_map app].
  - destruct b; cbn; [reflexivity|]. rewrite (Hb eq_refl). exact I.
  - unfold cont_text. cbn. reflexivity.
Qed.

Lemma lexf_conts st cs b rest ts :
  value_state st -> forallb cont_ok cs = true -> (b = false -> rest = []) ->
  lexf st_init rest = Ok ts ->
  lexf st (flat_map cont_text cs ++ nl_text b ++ rest) = Ok (flat_map cont_toks cs ++ nl_tok b ++ ts).
Proof.
  revert st. induction cs as [|[i t] cs IH]; intros st Hst Hcs Hb Hr; cbn [flat_map app].
  - apply lexf_nl; assumption.
  - cbn [forallb] in Hcs. apply andb_true_iff in Hcs. destruct Hcs as [Hc Hcs].
    unfold cont_ok in Hc. apply andb_true_iff in Hc. destruct Hc as [Hc Ht].
    apply andb_true_iff in Hc. destruct Hc as [Hi Hne].
    change (cont_text (i, t)) with (LF :: i ++ t).
    change (cont_toks (i, t)) with [(NEWLINE, [LF]); (INDENT, i); (VALUE, t)].
    rewrite <- !app_assoc. cbn [app].
    apply lexf_lf; [tauto|]. rewrite <- app_assoc.
    destruct t as [|x t']; [discriminate|].
    apply andb_true_iff in Ht. destruct Ht as [Hx1 Hx2].
    apply negb_true_iff in Hx1. apply negb_true_iff in Hx2.
    apply lexf_indent.
    + destruct i; [discriminate|congruence].
    + destruct i; [discriminate|exact Hi].
    + cbn. exact Hx1.
    + apply (lexf_value st_ind (x :: t') (flat_map cont_text cs ++ nl_text b ++ rest)
                        (flat_map cont_toks cs ++ nl_tok b ++ ts)).
      * right; reflexivity.
      * exact Hne.
      * split; [exact Hx1|intros _; exact Hx2].
      * apply tail_at_eol; exact Hb.
      * apply IH; [right; reflexivity|exact Hcs|exact Hb|exact Hr].
Qed.

Lemma lexf_field f more rest ts :
  wf_field f more = true -> (more = false -> rest = []) ->
  lexf st_init rest = Ok ts -> lexf st_init (field_text f ++ rest) = Ok (field_toks f ++ ts).
Proof.
  intros Hwf Hm Hr. unfold wf_field in Hwf.
  repeat (apply andb_true_iff in Hwf; let H := fresh "W" in destruct Hwf as [Hwf H]).
  assert (Hb : f_nl f = false -> rest = []).
  { intros E. rewrite E in W. cbn in W. apply negb_true_iff in W. exact (Hm W). }
  unfold field_text, field_toks. rewrite <- !app_assoc. cbn [app]. rewrite <- !app_assoc.
  apply lexf_key; [exact Hwf|reflexivity|].
  apply lexf_colon.
  pose proof (tail_at_eol (f_cont f) (f_nl f) rest Hb) as Hte.
  unfold first_ok in W1. apply andb_true_iff in W1. destruct W1 as [F1 F2].
  apply lexf_ws; [exact W2| |].
  { destruct (f_first f) as [|x t]; cbn [app]; [apply at_eol_stops_indent; exact Hte|].
    cbn. apply negb_true_iff in F2. exact F2. }
  apply lexf_value; [left; reflexivity|exact F1| |exact Hte|].
  { destruct (f_first f) as [|x t]; [exact I|]. apply negb_true_iff in F2. split; [exact F2|discriminate]. }
  apply lexf_conts; [left; reflexivity|exact W0|exact Hb|exact Hr].
Qed.

Lemma lexf_comment_line c nl more rest ts :
  wf_comment c nl more = true -> (more = false -> rest = []) ->
  lexf st_init rest = Ok ts -> lexf st_init (comment_text c nl ++ rest) = Ok (comment_toks c nl ++ ts).
Proof.
  intros Hwf Hm Hr. unfold wf_comment in Hwf. apply andb_true_iff in Hwf. destruct Hwf as [Hc Hn].
  assert (Hb : nl = false -> rest = []).
  { intros E. rewrite E in Hn. cbn in Hn. apply negb_true_iff in Hn. exact (Hm Hn). }
  unfold comment_text, comment_toks. cbn [app]. rewrite <- app_assoc.
  apply lexf_comment; [exact Hc| |].
  - apply (tail_at_eol [] nl rest Hb).
  - apply lexf_nl; assumption.
Qed.

Lemma lexf_items its more rest ts :
  wf_items its more = true -> (more = false -> rest = []) ->
  lexf st_init rest = Ok ts ->
  lexf st_init (flat_map item_text its ++ rest) = Ok (flat_map item_toks its ++ ts).
Proof.
  revert rest ts. induction its as [|it r IH]; intros rest ts Hwf Hm Hr; [exact Hr|].
  cbn [wf_items] in Hwf. apply andb_true_iff in Hwf. destruct Hwf as [Hit Hr'].
  cbn [flat_map]. rewrite <- !app_assoc.
  assert (Hm' : (match r with [] => more | _ => true end) = false -> flat_map item_text r ++ rest = []).
  { destruct r; [intros E; rewrite (Hm E); reflexivity|discriminate]. }
  specialize (IH rest ts Hr' Hm Hr).
  destruct it as [f|c nl]; cbn [item_text item_toks].
  - eapply lexf_field; eassumption.
  - eapply lexf_comment_line; eassumption.
Qed.

Theorem lexf_doc d : wf_doc d = true -> lexf st_init (render d) = Ok (doc_toks d).
Proof.
  induction d as [|b r IH]; intros Hwf; [reflexivity|].
  cbn [wf_doc] in Hwf. apply andb_true_iff in Hwf. destruct Hwf as [Hb Hr].
  specialize (IH Hr). unfold render, doc_toks in *. cbn [flat_map].
  assert (Hm : (match r with [] => false | _ => true end) = false -> flat_map block_text r = []).
  { destruct r; [reflexivity|discriminate]. }
  destruct b as [|c nl|f its]; cbn [block_text block_toks].
  - cbn [app]. apply lexf_lf; [tauto|exact IH].
  - eapply lexf_comment_line; eassumption.
  - apply andb_true_iff in Hb. destruct Hb as [Hb _]. apply andb_true_iff in Hb. destruct Hb as [Hf Hits].
    rewrite <- !app_assoc.
    eapply lexf_field; [exact Hf| |].
    + destruct its; [exact (fun E => ltac:(rewrite (Hm E); reflexivity))|discriminate].
    + eapply lexf_items; eassumption.
Qed.

Theorem lex_render d : wf_doc d = true -> lex (render d) = Ok (doc_toks d).
Proof. intros H. rewrite lex_is_lexf. apply lexf_doc. exact H. Qed.
