(* Lemmas about RelEdit.v (C11), part 6: histories on constructor-built fields, with the re-read
   of the printed text after the last step (hence, the histories being arbitrary, after every step). *)
From V.model Require Import Base RelLex RelParse RelEdit RelEditSpec RelEditTree.
From V.proofs Require Import BaseP RelEditP RelEditStP RelEditHistP RelEditReparseP.

Lemma ident_text_nonempty s : ident_text s = true -> s <> [].
Proof. destruct s; [discriminate|discriminate]. Qed.

Lemma aop_ok_plain o : aop_ok o = true -> aop_plain o = true.
Proof.
  destruct o; cbn [aop_ok aop_plain]; try discriminate; auto.
  - intros H. apply andb_prop in H. tauto.
  - intros H. apply andb_prop in H. tauto.
  - intros H. apply andb_prop in H. tauto.
  - intros H. apply andb_prop in H. tauto.
  - intros H. apply andb_prop in H. tauto.
  - destruct v as [[vc [|c ver]]|]; [discriminate|reflexivity|reflexivity].
Qed.

Lemma relrec_ok_plain r : relrec_ok r = true -> plain r = true.
Proof. unfold relrec_ok. intros H. repeat (apply andb_prop in H; destruct H as [H ?]). exact H. Qed.
Lemma lfield_ok_plain f : lfield_ok f = true -> plain_field f = true.
Proof.
  unfold lfield_ok, plain_field. induction f as [|e f IH]; [reflexivity|]. cbn [forallb]. intros H.
  apply andb_prop in H. destruct H as [He Hf]. rewrite (IH Hf), andb_true_r.
  unfold entry_ok in He. apply andb_prop in He. destruct He as [_ He]. unfold plain_entry.
  clear -He. induction e as [|r e IH]; [reflexivity|]. cbn [forallb] in *.
  apply andb_prop in He. destruct He as [H1 H2]. now rewrite (relrec_ok_plain _ H1), IH.
Qed.

Lemma has_more_upd_nth {A} j (g : A -> A) e : has_more (upd_nth j g e) = has_more e.
Proof. destruct e as [|x r]; destruct j; reflexivity. Qed.

Lemma entry_ok_on j g e : entry_ok e = true -> (forall r, relrec_ok r = true -> relrec_ok (g r) = true) ->
  entry_ok (upd_nth j g e) = true.
Proof.
  unfold entry_ok. intros H Hg. apply andb_prop in H. destruct H as [H1 H2].
  rewrite has_more_upd_nth, H1. cbn [andb]. now apply forallb_upd_nth.
Qed.

Lemma astep_ok f o : lfield_ok f = true -> aop_ok o = true -> lfield_ok (astep f o) = true.
Proof.
  unfold lfield_ok. intros Hf Ho. destruct o; cbn [aop_ok] in Ho; try discriminate; cbn [astep].
  - apply andb_prop in Ho. destruct Ho as [He _]. rewrite forallb_app. cbn [forallb]. now rewrite Hf, He.
  - apply andb_prop in Ho. destruct Ho as [He _]. now apply forallb_l_insert.
  - apply andb_prop in Ho. destruct Ho as [He _]. now apply forallb_l_replace.
  - now apply forallb_l_remove.
  - (* Entry::push *)
    apply andb_prop in Ho. destruct Ho as [Hr _]. apply forallb_upd_nth; [exact Hf|]. intros e He.
    unfold entry_ok in *. apply andb_prop in He. destruct He as [H1 H2].
    rewrite forallb_app. cbn [forallb]. rewrite H2, Hr. destruct e; reflexivity.
  - (* Entry::replace *)
    apply andb_prop in Ho. destruct Ho as [Hr _]. apply forallb_upd_nth; [exact Hf|]. intros e He.
    unfold entry_ok in *. apply andb_prop in He. destruct He as [H1 H2].
    rewrite forallb_l_replace by auto. unfold l_replace. destruct (firstn j e); reflexivity.
  - (* remove_relation *)
    unfold l_remove_relation. destruct (nth_error f i) as [e|] eqn:E; [|exact Hf].
    assert (He : entry_ok e = true).
    { rewrite forallb_forall in Hf. apply Hf. eapply nth_error_In; eauto. }
    destruct (l_remove j e) as [|y e'] eqn:El.
    + now apply forallb_l_remove.
    + apply forallb_l_replace; [exact Hf|]. rewrite <- El. unfold entry_ok in *.
      apply andb_prop in He. destruct He as [_ He]. rewrite El at 1. cbn [has_more andb].
      now apply forallb_l_remove.
  - (* set_version *)
    unfold l_on_relation. apply forallb_upd_nth; [exact Hf|]. intros e He. apply entry_ok_on; [exact He|].
    intros r Hr. unfold relrec_ok, rr_set_version, plain in *. cbn [rr_name rr_qual rr_ver rr_archs rr_profs] in *.
    repeat (apply andb_prop in Hr; destruct Hr as [Hr ?]).
    destruct (rr_archs r); [discriminate|]. destruct (rr_profs r); [|discriminate].
    rewrite H1, H0. destruct v as [[vc ver]|]; cbn [ver_ok]; [|reflexivity].
    rewrite Ho. destruct ver; [discriminate|reflexivity].
  - (* drop_constraint *)
    unfold l_on_relation. apply forallb_upd_nth; [exact Hf|]. intros e He. apply entry_ok_on; [exact He|].
    intros r Hr. unfold relrec_ok, rr_set_version, plain in *. cbn [rr_name rr_qual rr_ver rr_archs rr_profs] in *.
    repeat (apply andb_prop in Hr; destruct Hr as [Hr ?]).
    destruct (rr_archs r); [discriminate|]. destruct (rr_profs r); [|discriminate].
    now rewrite H1, H0.
  - (* set_archqual *)
    unfold l_on_relation. apply forallb_upd_nth; [exact Hf|]. intros e He. apply entry_ok_on; [exact He|].
    intros r Hr. unfold relrec_ok, rr_set_qual, plain in *. cbn [rr_name rr_qual rr_ver rr_archs rr_profs] in *.
    repeat (apply andb_prop in Hr; destruct Hr as [Hr ?]).
    destruct (rr_archs r); [discriminate|]. destruct (rr_profs r); [|discriminate].
    now rewrite Hr, H1, Ho, H.
Qed.

Lemma fold_astep_ok ops : forall f, lfield_ok f = true -> forallb aop_ok ops = true ->
  lfield_ok (fold_left astep ops f) = true.
Proof.
  induction ops as [|o ops IH]; intros f Hf Ho; [exact Hf|]. cbn [forallb] in Ho.
  apply andb_prop in Ho. destruct Ho as [H1 H2]. cbn [fold_left]. apply IH; [now apply astep_ok|exact H2].
Qed.

Lemma forallb_impl {A} (p q : A -> bool) l : (forall x, p x = true -> q x = true) ->
  forallb p l = true -> forallb q l = true.
Proof.
  intros H. induction l as [|x r IH]; [reflexivity|]. cbn [forallb]. intros Hp.
  apply andb_prop in Hp. destruct Hp as [H1 H2]. now rewrite (H _ H1), IH.
Qed.

(* C11 on constructor-built fields: every in-range history of the eight operations; after the
   last step (and so, all histories being covered, after every step): no panic, the root holds
   the list model's field, it reads as the list model through the accessors, it prints the
   canonical text, and that text parses back — strictly, without error — to the list model *)
Theorem history_constructed_full ops f st :
  lfield_ok f = true -> forallb aop_ok ops = true -> hist_in_range f ops = true ->
  state_with_root st (cfield_tree f) ->
  let f' := fold_left astep ops f in
  exists st', run_ops fixed (compile_all ops) st = Ok st' /\
              state_with_root st' (cfield_tree f') /\
              root_tree st' = Ok (cfield_tree f') /\
              structure (cfield_tree f') = Ok f' /\
              root_text st' = Ok (render_field f') /\
              exists t'', parse_relaxed (render_field f') true = Ok (t'', 0) /\
                          relations_from_str (render_field f') = Ok t'' /\
                          structure t'' = Ok f'.
Proof.
  intros Hf Ho Hr Hs f'.
  destruct (history_constructed ops f st (lfield_ok_plain f Hf) (forallb_impl _ _ _ aop_ok_plain Ho) Hr Hs)
    as (st' & R & S & RT & ST & RX).
  exists st'. repeat split; auto.
  destruct (reparse_constructed f' (fold_astep_ok ops f Hf Ho)) as (t & P & Q & _ & W).
  now exists t.
Qed.
