(* C05's history theorem with C04's field edits in their full domain (every rename): the
   paragraph operations respect "same tree up to empty VALUE tokens" (LiveDocEvP.tsim). *)
From V.model Require Import Base Deb822Lex Deb822Parse Grammar Lossy LossySpec Deb822Edit LiveDoc LiveTree.
From V.proofs Require Import BaseP GrammarAccP LossyRtP Deb822EditP LiveDocP LiveDocEvP LiveParaP.

Definition rsim (rs rs' : list tree) : Prop := Forall2 bsim rs rs'.
Lemma rsim_refl rs : rsim rs rs.
Proof. apply Forall2_refl_of. exact bsim_refl. Qed.

Lemma bsim_is_node b b' : bsim b b' -> is_node b = is_node b'.
Proof. intros [x|cs cs' H]; reflexivity. Qed.
Lemma bsim_ekind b b' : bsim b b' -> ekind b = ekind b'.
Proof. intros [x|cs cs' H]; reflexivity. Qed.
Lemma bsim_ensure_nl b b' : bsim b b' -> bsim (ensure_nl b) (ensure_nl b').
Proof.
  intros [x|cs cs' H]; [constructor|].
  change (ensure_nl (Node PARAGRAPH cs)) with (Node PARAGRAPH (ensure_nl_list cs)).
  change (ensure_nl (Node PARAGRAPH cs')) with (Node PARAGRAPH (ensure_nl_list cs')).
  apply bsim_para. apply psim_ensure_nl_list. exact H.
Qed.

Lemma rsim_ensure_nl_list rs rs' : rsim rs rs' -> rsim (ensure_nl_list rs) (ensure_nl_list rs').
Proof.
  intros H. induction H as [|x y a b Hxy Hab IH]; [constructor|].
  destruct Hab as [|x2 y2 a2 b2 Hxy2 Hab2].
  - rewrite !ensure_nl_list_one. destruct Hxy as [e|cs cs' Hp].
    + apply rsim_refl.
    + constructor; [|constructor]. apply bsim_ensure_nl. apply bsim_para. exact Hp.
  - rewrite !ensure_nl_list_cons2. constructor; [exact Hxy|exact IH].
Qed.

Lemma rsim_count_nodes rs rs' : rsim rs rs' -> count_nodes rs = count_nodes rs'.
Proof.
  unfold count_nodes. intros H. induction H as [|x y a b Hxy Hab IH]; [reflexivity|].
  cbn [filter]. rewrite <- (bsim_is_node x y Hxy). destruct (is_node x); cbn [length]; rewrite IH; reflexivity.
Qed.

Lemma rsim_insert_at new new' l l' : rsim new new' -> rsim l l' -> forall i, rsim (insert_at i new l) (insert_at i new' l').
Proof.
  intros Hn H. induction H as [|x y a b Hxy Hab IH]; intros i.
  - destruct i; cbn [insert_at]; [rewrite !app_nil_r|]; exact Hn.
  - destruct i as [|i']; cbn [insert_at].
    + apply Forall2_app; [exact Hn|constructor; assumption].
    + constructor; [exact Hxy|apply IH].
Qed.

Lemma rsim_delete_at l l' : rsim l l' -> forall i, rsim (delete_at i l) (delete_at i l').
Proof.
  intros H. induction H as [|x y a b Hxy Hab IH]; intros i; [destruct i; constructor|].
  destruct i as [|i']; cbn [delete_at]; [exact Hab|]. constructor; [exact Hxy|apply IH].
Qed.

Lemma rsim_para_slot rs rs' : rsim rs rs' -> forall n i, para_slot n rs i = para_slot n rs' i.
Proof.
  intros H. induction H as [|x y a b Hxy Hab IH]; intros n i; [reflexivity|].
  cbn [para_slot]. rewrite <- (bsim_is_paragraph x y Hxy). destruct (is_paragraph x); [destruct n|]; try reflexivity; apply IH.
Qed.

Lemma rsim_nth_error rs rs' : rsim rs rs' -> forall s,
  match nth_error rs s, nth_error rs' s with
  | Some x, Some y => bsim x y
  | None, None => True
  | _, _ => False
  end.
Proof.
  intros H. induction H as [|x y a b Hxy Hab IH]; intros s; [destruct s; exact I|].
  destruct s as [|s']; cbn [nth_error]; [exact Hxy|apply IH].
Qed.

Lemma rsim_delete_trailing_space rs rs' s : rsim rs rs' ->
  rsim (delete_trailing_space rs s) (delete_trailing_space rs' s).
Proof.
  intros H. unfold delete_trailing_space. pose proof (rsim_nth_error rs rs' H s) as G.
  destruct (nth_error rs s) as [x|], (nth_error rs' s) as [y|]; try contradiction; [|exact H].
  rewrite <- (bsim_ekind x y G). destruct (kind_eqb (ekind x) EMPTY_LINE); [apply rsim_delete_at; exact H|exact H].
Qed.

Lemma rsim_insert_empty_paragraph rs rs' idx : rsim rs rs' ->
  rsim (insert_empty_paragraph rs idx) (insert_empty_paragraph rs' idx).
Proof.
  intros H. unfold insert_empty_paragraph.
  assert (H1 : rsim (match idx with None => ensure_nl_list rs | Some _ => rs end)
                    (match idx with None => ensure_nl_list rs' | Some _ => rs' end)).
  { destruct idx; [exact H|apply rsim_ensure_nl_list; exact H]. }
  revert H1. generalize (match idx with None => ensure_nl_list rs | Some _ => rs end) as q.
  generalize (match idx with None => ensure_nl_list rs' | Some _ => rs' end) as q'. intros q' q H1.
  cbv zeta. rewrite <- (rsim_count_nodes q q' H1).
  destruct idx as [i|]; apply rsim_insert_at; try exact H1; apply rsim_refl.
Qed.

Theorem tstep2_sim t u o : tsim t u -> tsim (tstep2 t o) (tstep2 u o).
Proof.
  intros H. destruct o as [o| |i|i]; cbn [tstep2]; [apply tstep_sim; exact H| | |];
    destruct H as (rs & rs' & -> & -> & H).
  - unfold add_paragraph. cbn [children]. eexists _, _. split; [reflexivity|]. split; [reflexivity|].
    apply rsim_insert_empty_paragraph. exact H.
  - unfold insert_paragraph, convert_index. cbn [children]. eexists _, _. split; [reflexivity|]. split; [reflexivity|].
    rewrite <- (rsim_para_slot rs rs' H). apply rsim_insert_empty_paragraph. exact H.
  - unfold remove_paragraph. cbn [children]. rewrite <- (rsim_para_slot rs rs' H).
    destruct (para_slot i rs 0) as [slot|].
    + eexists _, _. split; [reflexivity|]. split; [reflexivity|].
      apply rsim_delete_trailing_space. apply rsim_delete_at. exact H.
    + eexists _, _. split; [reflexivity|]. split; [reflexivity|]. exact H.
Qed.

(* ================= C05, field edits in their full domain ================= *)
Definition op_dom2 (o : dop) : Prop := match o with DF o => op_dom o | _ => True end.

Theorem tstep2_live_every d o t : lwf d = true -> op_dom2 o -> tsim t (ltree_of d) ->
  tsim (tstep2 t o) (ltree_of (astep2 d o)) /\ lwf (astep2 d o) = true /\
  lcontent (astep2 d o) = sstep2 (lcontent d) o.
Proof.
  intros Hwf Hok Hs. pose proof (tstep2_sim t (ltree_of d) o Hs) as S1.
  destruct o as [o| |i|i].
  - cbn [tstep2 astep2 sstep2 op_dom2] in *.
    destruct (tstep_live_every d o t Hwf Hok Hs) as [S W]. split; [exact S|]. split; [exact W|].
    destruct (tstep_live_every d o (ltree_of d) Hwf Hok (tsim_refl _)) as [S0 _].
    rewrite <- !doc_items_ltree_of, <- (tsim_doc_items _ _ S0). apply tstep_refines.
  - destruct (tstep2_live d DAdd Hwf I) as (E & W & C). rewrite E in S1. split; [exact S1|]. split; assumption.
  - destruct (tstep2_live d (DInsert i) Hwf I) as (E & W & C). rewrite E in S1. split; [exact S1|]. split; assumption.
  - destruct (tstep2_live d (DRemove i) Hwf I) as (E & W & C). rewrite E in S1. split; [exact S1|]. split; assumption.
Qed.

Theorem history2_sim ops : forall t d, lwf d = true -> Forall op_dom2 ops -> tsim t (ltree_of d) ->
  tsim (fold_left tstep2 ops t) (ltree_of (fold_left astep2 ops d)) /\ lwf (fold_left astep2 ops d) = true /\
  lcontent (fold_left astep2 ops d) = fold_left sstep2 ops (lcontent d).
Proof.
  induction ops as [|o r IH]; intros t d Hwf Hok Hs; cbn [fold_left].
  - split; [exact Hs|]. split; [exact Hwf|reflexivity].
  - inversion Hok as [|o' r' Ho Hr]; subst. destruct (tstep2_live_every d o t Hwf Ho Hs) as (S & W & C).
    rewrite <- C. apply IH; assumption.
Qed.

Theorem C05_history_every ops : forall d, lwf d = true -> Forall op_dom2 ops ->
  let t' := fold_left tstep2 ops (ltree_of d) in
  let d' := fold_left astep2 ops d in
  live_tree t' d' /\ lwf d' = true /\
  doc_items t' = fold_left sstep2 ops (doc_items (ltree_of d)) /\
  exists t'', from_str (text t') = Ok t'' /\ doc_items t'' = nonempty_paras (doc_items t').
Proof.
  intros d Hwf Hok. cbv zeta.
  destruct (history2_sim ops (ltree_of d) d Hwf Hok (tsim_refl _)) as (S & W & C).
  split; [unfold live_tree; rewrite (tsim_drop _ _ S); apply drop_ltree_of; exact W|].
  split; [exact W|]. split; [rewrite (tsim_doc_items _ _ S), !doc_items_ltree_of; exact C|].
  rewrite (tsim_text _ _ S), (tsim_doc_items _ _ S). apply live_reread. exact W.
Qed.
