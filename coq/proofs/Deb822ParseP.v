(* Parser: text conservation (every token ends up in the tree, in order), progress and totality. *)
From V.model Require Import Base Deb822Lex Deb822Parse.
From V.proofs Require Import BaseP Deb822LexP.

(* conservation invariant: emitted text ++ remaining token text = input token text *)
Definition cons_inv (e : list tree) (ts' ts : list token) : Prop :=
  texts e ++ ttext ts' = ttext ts /\ length ts' <= length ts.

Lemma ttext_cons k s r : ttext ((k, s) :: r) = s ++ ttext r.
Proof. reflexivity. Qed.

Lemma cons_inv_refl ts : cons_inv [] ts ts.
Proof. split; [reflexivity|lia]. Qed.

Lemma cons_inv_trans e1 e2 a b c :
  cons_inv e1 b a -> cons_inv e2 c b -> cons_inv (e1 ++ e2) c a.
Proof.
  intros [H1 L1] [H2 L2]. split; [|lia].
  rewrite texts_app, <- app_assoc, H2. exact H1.
Qed.

Lemma cons_inv_bump k s e r r' :
  cons_inv e r' r -> cons_inv (Tok k s :: e) r' ((k, s) :: r).
Proof.
  intros [H L]. split; [|cbn; lia].
  rewrite texts_cons, text_tok, ttext_cons, <- app_assoc, H. reflexivity.
Qed.

Lemma cons_inv_node k e a b : cons_inv e b a -> cons_inv [Node k e] b a.
Proof.
  intros [H L]. split; [|exact L].
  rewrite texts_cons, text_node, texts_nil, app_nil_r. exact H.
Qed.

Lemma cons_inv_errtok k s r : cons_inv [Node ERROR [Tok k s]] r ((k, s) :: r).
Proof. apply cons_inv_node. apply cons_inv_bump. apply cons_inv_refl. Qed.

Lemma bump_while_cons p ts e r : bump_while p ts = (e, r) -> cons_inv e r ts.
Proof.
  revert e r; induction ts as [|[k s] t IH]; intros e r H; cbn [bump_while] in H.
  - inversion H. apply cons_inv_refl.
  - destruct (p k).
    + destruct (bump_while p t) as [e' r'] eqn:E. inversion H; subst.
      apply cons_inv_bump. apply IH. reflexivity.
    + inversion H; subst. apply cons_inv_refl.
Qed.

Lemma pe_comments_cons_n m : forall ts e r n b,
  length ts <= m -> pe_comments ts = (e, r, n, b) -> cons_inv e r ts.
Proof.
  induction m as [|m IH]; intros ts e r n b Hl H.
  - destruct ts; [|cbn in Hl; lia]. inversion H. apply cons_inv_refl.
  - destruct ts as [|[k s] t]; cbn [pe_comments] in H.
    + inversion H. apply cons_inv_refl.
    + destruct k; try (inversion H; subst; apply cons_inv_refl).
      destruct t as [|[g s'] t'].
      * inversion H; subst. apply cons_inv_bump. apply cons_inv_refl.
      * destruct (pe_comments t') as [[[e' rest] n'] early] eqn:E.
        assert (Hrec : cons_inv e' rest t') by (eapply IH; [cbn in Hl; lia|exact E]).
        destruct g; inversion H; subst;
          try (apply cons_inv_bump; apply (cons_inv_trans [_] e' _ t' _); [apply cons_inv_errtok|exact Hrec]).
        apply cons_inv_bump. apply cons_inv_bump. exact Hrec.
Qed.

Lemma pe_comments_cons ts e r n b : pe_comments ts = (e, r, n, b) -> cons_inv e r ts.
Proof. apply (pe_comments_cons_n (length ts)). lia. Qed.

Lemma pe_expect_cons k ts e r n : pe_expect k ts = (e, r, n) -> cons_inv e r ts.
Proof.
  unfold pe_expect. intros H. destruct ts as [|[k' s] t].
  - inversion H; subst. apply cons_inv_node. apply cons_inv_refl.
  - destruct (kind_eqb k' k).
    + unfold skip_ws in H. destruct (bump_while is_ws_or_comment t) as [e' r'] eqn:E.
      inversion H; subst. apply cons_inv_bump. eapply bump_while_cons. exact E.
    + inversion H; subst. apply cons_inv_errtok.
Qed.

Lemma pe_lines_cons fuel : forall ts e r n, pe_lines fuel ts = Ok (e, r, n) -> cons_inv e r ts.
Proof.
  induction fuel as [|f IH]; intros ts e r n H; cbn [pe_lines] in H; [discriminate|].
  destruct (bump_while is_ws_or_value ts) as [e1 r1] eqn:E1.
  pose proof (bump_while_cons _ _ _ _ E1) as C1.
  destruct r1 as [|[k s] r2].
  - inversion H; subst. exact C1.
  - assert (C2 : forall e2 n2, (e2, n2) = match k with NEWLINE => ([Tok k s], 0) | _ => ([Node ERROR [Tok k s]], 1) end ->
                 cons_inv e2 r2 ((k, s) :: r2)).
    { intros e2 n2 Heq. destruct k; inversion Heq; subst; try apply cons_inv_errtok.
      apply cons_inv_bump. apply cons_inv_refl. }
    destruct (match k with NEWLINE => ([Tok k s], 0) | _ => ([Node ERROR [Tok k s]], 1) end) as [e2 n2] eqn:E2.
    specialize (C2 e2 n2 eq_refl).
    assert (Cdone : cons_inv (e1 ++ e2) r2 ts) by (eapply cons_inv_trans; eassumption).
    destruct r2 as [|[k3 si] r3]; [inversion H; subst; exact Cdone|].
    destruct k3; try (inversion H; subst; exact Cdone).
    unfold skip_ws in H. destruct (bump_while is_ws_or_comment r3) as [e3 r4] eqn:E3.
    pose proof (bump_while_cons _ _ _ _ E3) as C3.
    destruct (pe_lines f r4) as [[[e5 r5] n5]| | |] eqn:E5; try discriminate.
    inversion H; subst. apply IH in E5.
    rewrite app_assoc. eapply cons_inv_trans; [exact Cdone|].
    apply cons_inv_bump. eapply cons_inv_trans; eassumption.
Qed.

Lemma parse_entry_cons ts e r n : parse_entry ts = Ok (e, r, n) -> cons_inv e r ts.
Proof.
  unfold parse_entry. intros H.
  destruct (pe_comments ts) as [[[e0 r0] n0] early] eqn:E0.
  pose proof (pe_comments_cons _ _ _ _ _ E0) as C0.
  destruct early; [inversion H; subst; exact C0|].
  assert (Hmain : (let '(e1, r1, n1) := pe_expect KEY r0 in
                   let '(e2, r2, n2) := pe_expect COLON r1 in
                   match pe_lines (S (length r2)) r2 with
                   | Ok (e3, r3, n3) => Ok (e0 ++ [Node ENTRY (e1 ++ e2 ++ e3)], r3, n0 + n1 + n2 + n3)
                   | Err x => Err x | Panic x => Panic x | OutOfFuel => OutOfFuel
                   end) = Ok (e, r, n) -> cons_inv e r ts).
  { clear H. intros H.
    destruct (pe_expect KEY r0) as [[e1 r1] n1] eqn:E1.
    destruct (pe_expect COLON r1) as [[e2 r2] n2] eqn:E2.
    destruct (pe_lines (S (length r2)) r2) as [[[e3 r3] n3]| | |] eqn:E3; try discriminate.
    inversion H; subst.
    apply pe_expect_cons in E1. apply pe_expect_cons in E2. apply pe_lines_cons in E3.
    eapply cons_inv_trans; [exact C0|]. apply cons_inv_node.
    eapply cons_inv_trans; [exact E1|]. eapply cons_inv_trans; eassumption. }
  destruct (cur r0) as [k|]; [|inversion H; subst; exact C0].
  destruct k; try (apply Hmain; exact H). inversion H; subst; exact C0.
Qed.

Lemma pp_entries_cons fuel : forall ts e r n, pp_entries fuel ts = Ok (e, r, n) -> cons_inv e r ts.
Proof.
  induction fuel as [|f IH]; intros ts e r n H; cbn [pp_entries] in H.
  - destruct (cur ts) as [k|]; [destruct k|]; try discriminate; inversion H; subst; apply cons_inv_refl.
  - destruct (cur ts) as [k|] eqn:Ec; [|inversion H; subst; apply cons_inv_refl].
    destruct k; try (inversion H; subst; apply cons_inv_refl; fail);
    (destruct (parse_entry ts) as [[[e1 r1] n1]| | |] eqn:E1; try discriminate;
     destruct (pp_entries f r1) as [[[e2 r2] n2]| | |] eqn:E2; try discriminate;
     inversion H; subst; eapply cons_inv_trans; [eapply parse_entry_cons; exact E1|eapply IH; exact E2]).
Qed.

Lemma parse_paragraph_cons ts e r n : parse_paragraph ts = Ok (e, r, n) -> cons_inv e r ts.
Proof.
  unfold parse_paragraph. intros H.
  destruct (pp_entries (length ts) ts) as [[[e1 r1] n1]| | |] eqn:E; try discriminate.
  inversion H; subst. apply cons_inv_node. eapply pp_entries_cons; exact E.
Qed.

Lemma empty_line_cons ts : forall e r, empty_line ts = (e, r) -> cons_inv e r ts.
Proof.
  induction ts as [|[k s] t IH]; intros e r H; cbn [empty_line] in H.
  - inversion H; apply cons_inv_refl.
  - destruct k; try (destruct (empty_line t) as [e' r'] eqn:E; inversion H; subst;
                     apply cons_inv_bump; apply IH; reflexivity).
    inversion H; subst. apply cons_inv_bump. apply cons_inv_refl.
Qed.

Lemma skip_wsnl_cons fuel : forall ts e r, skip_wsnl fuel ts = Ok (e, r) -> cons_inv e r ts.
Proof.
  induction fuel as [|f IH]; intros ts e r H; cbn [skip_wsnl] in H.
  - destruct (starts_blank ts); [discriminate|]. inversion H; subst; apply cons_inv_refl.
  - destruct (starts_blank ts); [|inversion H; subst; apply cons_inv_refl].
    destruct (empty_line ts) as [e1 r1] eqn:E1.
    destruct (skip_wsnl f r1) as [[e2 r2]| | |] eqn:E2; try discriminate.
    inversion H; subst.
    change (Node EMPTY_LINE e1 :: e2) with ([Node EMPTY_LINE e1] ++ e2).
    eapply cons_inv_trans; [apply cons_inv_node; eapply empty_line_cons; exact E1|eapply IH; exact E2].
Qed.

Lemma parse_root_text fuel : forall ts e n, parse_root fuel ts = Ok (e, n) -> texts e = ttext ts.
Proof.
  induction fuel as [|f IH]; intros ts e n H; cbn [parse_root] in H.
  - destruct ts; [|discriminate]. inversion H; reflexivity.
  - destruct ts as [|t0 ts0]; [inversion H; reflexivity|].
    remember (t0 :: ts0) as ts.
    destruct (skip_wsnl (length ts) ts) as [[e1 r1]| | |] eqn:E1; try discriminate.
    apply skip_wsnl_cons in E1. destruct E1 as [H1 _].
    destruct r1 as [|t1 r1'].
    + inversion H; subst e. rewrite <- H1. cbn. now rewrite app_nil_r.
    + remember (t1 :: r1') as r1.
      destruct (parse_paragraph r1) as [[[e2 r2] n2]| | |] eqn:E2; try discriminate.
      destruct (parse_root f r2) as [[e3 n3]| | |] eqn:E3; try discriminate.
      inversion H; subst e. apply parse_paragraph_cons in E2. destruct E2 as [H2 _].
      apply IH in E3. rewrite !texts_app, E3, H2. exact H1.
Qed.

Theorem parse_tokens_text ts t n : parse_tokens ts = Ok (t, n) -> text t = ttext ts.
Proof.
  unfold parse_tokens. intros H.
  destruct (parse_root (length ts) ts) as [[e n']| | |] eqn:E; try discriminate.
  inversion H; subst. rewrite text_node. eapply parse_root_text; exact E.
Qed.

Theorem parse_text s t n : parse s = Ok (t, n) -> text t = s.
Proof.
  unfold parse. intros H. destruct (lex s) as [ts| | |] eqn:E; try discriminate.
  apply parse_tokens_text in H. apply lex_partition in E. destruct E as [E _]. congruence.
Qed.

(* ================= totality, progress and the error-count bound ================= *)

Lemma bump_while_len p ts e r : bump_while p ts = (e, r) -> length r <= length ts.
Proof. intros H. apply bump_while_cons in H. apply H. Qed.

Lemma pe_comments_bound_n m : forall ts e r n b,
  length ts <= m -> pe_comments ts = (e, r, n, b) ->
  n + length r <= length ts /\
  match ts with
  | (COMMENT, _) :: _ => length r < length ts
  | _ => r = ts /\ n = 0 /\ b = false
  end.
Proof.
  induction m as [|m IH]; intros ts e r n b Hl H.
  - destruct ts; [|cbn in Hl; lia]. inversion H; subst. cbn. auto.
  - destruct ts as [|[k s] t]; cbn [pe_comments] in H.
    + inversion H; subst. cbn. auto.
    + destruct k; try (inversion H; subst; cbn; split; [lia|auto]; fail).
      destruct t as [|[g s'] t'].
      * inversion H; subst. cbn. lia.
      * destruct (pe_comments t') as [[[e' rest] n'] early] eqn:E.
        assert (Hrec : n' + length rest <= length t') by (eapply IH; [cbn in Hl; lia|exact E]).
        destruct g; inversion H; subst; cbn [length]; lia.
Qed.

Lemma pe_comments_bound ts e r n b : pe_comments ts = (e, r, n, b) ->
  n + length r <= length ts /\
  match ts with
  | (COMMENT, _) :: _ => length r < length ts
  | _ => r = ts /\ n = 0 /\ b = false
  end.
Proof. apply (pe_comments_bound_n (length ts)). lia. Qed.

Lemma pe_expect_bound k ts e r n : pe_expect k ts = (e, r, n) ->
  length r <= length ts /\ n <= 1 /\ (ts <> [] -> length r < length ts).
Proof.
  unfold pe_expect. intros H. destruct ts as [|[k' s] t].
  - inversion H; subst. cbn. repeat split; try lia. congruence.
  - destruct (kind_eqb k' k).
    + unfold skip_ws in H. destruct (bump_while is_ws_or_comment t) as [e' r'] eqn:E.
      apply bump_while_len in E. inversion H; subst. cbn. repeat split; lia.
    + inversion H; subst. cbn. repeat split; lia.
Qed.

Lemma pe_lines_total fuel : forall ts, length ts < fuel ->
  exists e r n, pe_lines fuel ts = Ok (e, r, n) /\ n + length r <= length ts.
Proof.
  induction fuel as [|f IH]; intros ts Hl; [lia|]. cbn [pe_lines].
  destruct (bump_while is_ws_or_value ts) as [e1 r1] eqn:E1.
  pose proof (bump_while_len _ _ _ _ E1) as L1.
  destruct r1 as [|[k s] r2].
  - do 3 eexists. split; [reflexivity|cbn; lia].
  - destruct (match k with NEWLINE => ([Tok k s], 0) | _ => ([Node ERROR [Tok k s]], 1) end) as [e2 n2] eqn:E2.
    assert (N2 : n2 <= 1) by (destruct k; inversion E2; lia).
    cbn [length] in L1.
    destruct r2 as [|[k3 si] r3]; [do 3 eexists; split; [reflexivity|cbn [length] in *; lia]|].
    destruct k3; try (do 3 eexists; split; [reflexivity|cbn [length] in *; lia]; fail).
    unfold skip_ws. destruct (bump_while is_ws_or_comment r3) as [e3 r4] eqn:E3.
    pose proof (bump_while_len _ _ _ _ E3) as L3. cbn [length] in *.
    destruct (IH r4) as (e5 & r5 & n5 & E5 & B5); [lia|]. rewrite E5.
    do 3 eexists. split; [reflexivity|lia].
Qed.

Lemma parse_entry_total ts : exists e r n,
  parse_entry ts = Ok (e, r, n) /\ n + length r <= length ts + 2 /\ length r <= length ts /\
  (match cur ts with None | Some NEWLINE => False | _ => True end -> length r < length ts).
Proof.
  unfold parse_entry.
  destruct (pe_comments ts) as [[[e0 r0] n0] early] eqn:E0.
  pose proof (pe_comments_bound _ _ _ _ _ E0) as [B0 S0].
  assert (Hprog : match cur ts with None | Some NEWLINE => False | _ => True end ->
                  (match ts with (COMMENT, _) :: _ => length r0 < length ts | _ => r0 = ts end)).
  { intros Hc. destruct ts as [|[k s] t]; [contradiction|]. destruct k; try (apply S0). }
  destruct early.
  - do 3 eexists. split; [reflexivity|]. repeat split; try lia.
    intros Hc. specialize (Hprog Hc). destruct ts as [|[k s] t]; [contradiction|].
    destruct k; try (destruct S0 as (_ & _ & F); discriminate). exact Hprog.
  - assert (Hstop : exists e r n, Ok (e0, r0, n0) = Ok (e, r, n) /\ n + length r <= length ts + 2 /\ length r <= length ts /\
              (match cur ts with None | Some NEWLINE => False | _ => True end ->
               match cur r0 with None | Some NEWLINE => True | _ => False end -> length r < length ts)).
    { do 3 eexists. split; [reflexivity|]. repeat split; try lia.
      intros Hc Hr. specialize (Hprog Hc). destruct ts as [|[k s] t]; [contradiction|].
      destruct k; try (subst r0; cbn in Hc, Hr; contradiction). exact Hprog. }
    assert (Hgo : exists e r n,
       (let '(e1, r1, n1) := pe_expect KEY r0 in
        let '(e2, r2, n2) := pe_expect COLON r1 in
        match pe_lines (S (length r2)) r2 with
        | Ok (e3, r3, n3) => Ok (e0 ++ [Node ENTRY (e1 ++ e2 ++ e3)], r3, n0 + n1 + n2 + n3)
        | Err x => Err x | Panic x => Panic x | OutOfFuel => OutOfFuel
        end) = Ok (e, r, n) /\ n + length r <= length ts + 2 /\ length r <= length ts /\
       (r0 <> [] -> length r < length ts)).
    { destruct (pe_expect KEY r0) as [[e1 r1] n1] eqn:E1.
      destruct (pe_expect COLON r1) as [[e2 r2] n2] eqn:E2.
      apply pe_expect_bound in E1. apply pe_expect_bound in E2.
      destruct E1 as (L1 & N1 & P1). destruct E2 as (L2 & N2 & P2).
      destruct (pe_lines_total (S (length r2)) r2) as (e3 & r3 & n3 & E3 & B3); [lia|]. rewrite E3.
      do 3 eexists. split; [reflexivity|]. repeat split; try lia.
      intros Hne. specialize (P1 Hne). lia. }
    destruct (cur r0) as [k|] eqn:Ec.
    + assert (Hne : r0 <> []) by (intro; subst; discriminate).
      destruct Hstop as (e & r & n & Es & B1 & B2 & B3).
      destruct Hgo as (e' & r' & n' & Eg & G1 & G2 & G3).
      destruct k; try (exists e', r', n'; split; [exact Eg|]; repeat split; try lia; intros _; apply G3; exact Hne).
      exists e, r, n. split; [exact Es|]. repeat split; try lia. intros Hc. apply B3; [exact Hc|exact I].
    + destruct Hstop as (e & r & n & Es & B1 & B2 & B3).
      exists e, r, n. split; [exact Es|]. repeat split; try lia. intros Hc. apply B3; [exact Hc|exact I].
Qed.

Lemma pp_entries_total fuel : forall ts, length ts <= fuel -> exists e r n,
  pp_entries fuel ts = Ok (e, r, n) /\ n + 3 * length r <= 3 * length ts /\ length r <= length ts /\
  (match cur ts with None | Some NEWLINE => False | _ => True end -> length r < length ts).
Proof.
  induction fuel as [|f IH]; intros ts Hl.
  - destruct ts; [|cbn in Hl; lia]. cbn. do 3 eexists. split; [reflexivity|]. cbn. repeat split; try lia; tauto.
  - cbn [pp_entries]. destruct ts as [|[k s] t].
    + cbn. do 3 eexists. split; [reflexivity|]. cbn. repeat split; try lia; tauto.
    + remember ((k, s) :: t) as ts.
      assert (Hc : cur ts = Some k) by (subst; reflexivity). rewrite Hc.
      destruct (parse_entry_total ts) as (e1 & r1 & n1 & E1 & B1 & L1 & P1).
      rewrite Hc in P1.
      destruct k;
        try (specialize (P1 I); destruct (IH r1) as (e2 & r2 & n2 & E2 & B2 & L2 & _); [lia|];
             rewrite E1, E2; do 3 eexists; split; [reflexivity|]; repeat split; try lia; intros _; lia).
      do 3 eexists. split; [reflexivity|]. repeat split; try lia; tauto.
Qed.

Lemma empty_line_len ts : forall e r, empty_line ts = (e, r) -> length r <= length ts /\ (ts <> [] -> length r < length ts).
Proof.
  induction ts as [|[k s] t IH]; intros e r H; cbn [empty_line] in H.
  - inversion H; subst. split; [lia|congruence].
  - destruct k; try (destruct (empty_line t) as [e' r'] eqn:E; inversion H; subst;
                     destruct (IH _ _ eq_refl) as [L _]; cbn [length]; split; [lia|intros _; lia]).
    all: try (inversion H; subst; cbn; split; [lia|intros _; lia]).
Qed.

Lemma skip_wsnl_total fuel : forall ts, length ts <= fuel -> exists e r,
  skip_wsnl fuel ts = Ok (e, r) /\ length r <= length ts /\ starts_blank r = false.
Proof.
  induction fuel as [|f IH]; intros ts Hl.
  - destruct ts; [|cbn in Hl; lia]. cbn. do 2 eexists. repeat split; lia.
  - cbn [skip_wsnl]. destruct (starts_blank ts) eqn:Sb.
    + destruct (empty_line ts) as [e1 r1] eqn:E1. apply empty_line_len in E1. destruct E1 as [L1 P1].
      assert (ts <> []) by (intro; subst; discriminate).
      destruct (IH r1) as (e2 & r2 & E2 & L2 & S2); [specialize (P1 H); lia|]. rewrite E2.
      do 2 eexists. repeat split; [lia|exact S2].
    + do 2 eexists. repeat split; [lia|exact Sb].
Qed.

Lemma parse_root_total fuel : forall ts, length ts <= fuel -> exists e n,
  parse_root fuel ts = Ok (e, n) /\ n <= 3 * length ts.
Proof.
  induction fuel as [|f IH]; intros ts Hl.
  - destruct ts; [|cbn in Hl; lia]. do 2 eexists. split; [reflexivity|cbn; lia].
  - cbn [parse_root]. destruct ts as [|t0 ts0]; [do 2 eexists; split; [reflexivity|cbn; lia]|].
    remember (t0 :: ts0) as ts.
    destruct (skip_wsnl_total (length ts) ts) as (e1 & r1 & E1 & L1 & S1); [lia|]. rewrite E1.
    destruct r1 as [|t1 r1']; [do 2 eexists; split; [reflexivity|lia]|].
    remember (t1 :: r1') as r1. unfold parse_paragraph.
    destruct (pp_entries_total (length r1) r1) as (e2 & r2 & n2 & E2 & B2 & L2 & P2); [lia|]. rewrite E2.
    assert (Hp : length r2 < length r1).
    { apply P2. subst r1. destruct t1 as [k1 s1]. cbn. unfold starts_blank in S1. cbn in S1.
      destruct k1; try exact I; discriminate. }
    destruct (IH r2) as (e3 & n3 & E3 & B3); [subst ts; cbn [length] in *; lia|]. rewrite E3.
    do 2 eexists. split; [reflexivity|lia].
Qed.

Theorem parse_tokens_total ts : exists t n, parse_tokens ts = Ok (t, n) /\ n <= 3 * length ts.
Proof.
  unfold parse_tokens. destruct (parse_root_total (length ts) ts) as (e & n & E & B); [lia|].
  rewrite E. do 2 eexists. split; [reflexivity|exact B].
Qed.

Theorem parse_total s : exists t n, parse s = Ok (t, n) /\ n <= 3 * length s.
Proof.
  unfold parse. destruct (lex_total true s) as [ts E]. unfold lex. rewrite E.
  destruct (parse_tokens_total ts) as (t & n & Ep & B). exists t, n. split; [exact Ep|].
  apply lex_go_count in E. lia.
Qed.

(* the statement of C01 *)
Theorem C01_all s :
  exists t n, from_str_relaxed s = Ok (t, n) /\ text t = s /\
              (n = 0 -> from_str s = Ok t) /\ (n <> 0 -> from_str s = Err 1%N).
Proof.
  destruct (parse_total s) as (t & n & E & _). exists t, n. unfold from_str_relaxed, from_str. rewrite E.
  split; [reflexivity|]. split; [eapply parse_text; exact E|]. split; intros H; destruct n; congruence.
Qed.

(* ================= nesting depth (the stack clause of C02) ================= *)
Definition dle (k : nat) (l : list tree) : Prop := Forall (fun e => depth e <= k) l.

Lemma depth_node k cs d : dle d cs -> depth (Node k cs) <= S d.
Proof.
  intros H. cbn [depth]. apply le_n_S. induction H as [|x l Hx Hl IH]; [lia|]. cbn. lia.
Qed.
Lemma dle_app k a b : dle k a -> dle k b -> dle k (a ++ b).
Proof. intros Ha Hb. apply Forall_app. split; assumption. Qed.
Lemma dle_mono k k' l : k <= k' -> dle k l -> dle k' l.
Proof. intros Hk H. eapply Forall_impl; [|exact H]. cbn. intros; lia. Qed.

Lemma bump_while_depth p ts e r : bump_while p ts = (e, r) -> dle 0 e.
Proof.
  revert e r. induction ts as [|[k s] t IH]; intros e r H; cbn [bump_while] in H.
  - inversion H. constructor.
  - destruct (p k).
    + destruct (bump_while p t) as [e' r'] eqn:E. inversion H; subst. constructor; [cbn; lia|eapply IH; reflexivity].
    + inversion H. constructor.
Qed.

Lemma pe_comments_depth m : forall ts e r n b, length ts <= m -> pe_comments ts = (e, r, n, b) -> dle 1 e.
Proof.
  induction m as [|m IH]; intros ts e r n b Hl H.
  - destruct ts; [|cbn in Hl; lia]. inversion H. constructor.
  - destruct ts as [|[k s] t]; cbn [pe_comments] in H; [inversion H; constructor|].
    destruct k; try (inversion H; constructor).
    destruct t as [|[g s'] t']; [inversion H; subst; constructor; [cbn; lia|constructor]|].
    destruct (pe_comments t') as [[[e' rest] n'] early] eqn:E.
    assert (Hrec : dle 1 e') by (eapply (IH t'); [cbn in Hl; lia|exact E]).
    destruct g; inversion H; subst; (constructor; [cbn; lia|]); (constructor; [cbn; lia|exact Hrec]).
Qed.

Lemma pe_expect_depth k ts e r n : pe_expect k ts = (e, r, n) -> dle 1 e.
Proof.
  unfold pe_expect. intros H. destruct ts as [|[k' s] t].
  - inversion H; subst. constructor; [cbn; lia|constructor].
  - destruct (kind_eqb k' k).
    + unfold skip_ws in H. destruct (bump_while is_ws_or_comment t) as [e' r'] eqn:E. inversion H; subst.
      constructor; [cbn; lia|]. eapply dle_mono; [|eapply bump_while_depth; exact E]. lia.
    + inversion H; subst. constructor; [cbn; lia|constructor].
Qed.

Lemma pe_lines_depth fuel : forall ts e r n, pe_lines fuel ts = Ok (e, r, n) -> dle 1 e.
Proof.
  induction fuel as [|f IH]; intros ts e r n H; cbn [pe_lines] in H; [discriminate|].
  destruct (bump_while is_ws_or_value ts) as [e1 r1] eqn:E1.
  pose proof (dle_mono 0 1 _ ltac:(lia) (bump_while_depth _ _ _ _ E1)) as D1.
  destruct r1 as [|[k s] r2]; [inversion H; subst; exact D1|].
  destruct (match k with NEWLINE => ([Tok k s], 0) | _ => ([Node ERROR [Tok k s]], 1) end) as [e2 n2] eqn:E2.
  assert (D2 : dle 1 e2) by (destruct k; inversion E2; subst; (constructor; [cbn; lia|constructor])).
  destruct r2 as [|[k3 si] r3]; [inversion H; subst; apply dle_app; assumption|].
  destruct k3; try (inversion H; subst; apply dle_app; assumption).
  unfold skip_ws in H. destruct (bump_while is_ws_or_comment r3) as [e3 r4] eqn:E3.
  pose proof (dle_mono 0 1 _ ltac:(lia) (bump_while_depth _ _ _ _ E3)) as D3.
  destruct (pe_lines f r4) as [[[e5 r5] n5]| | |] eqn:E5; try discriminate.
  inversion H; subst. apply IH in E5.
  apply dle_app; [exact D1|]. apply dle_app; [exact D2|]. constructor; [cbn; lia|]. apply dle_app; assumption.
Qed.

Lemma parse_entry_depth ts e r n : parse_entry ts = Ok (e, r, n) -> dle 2 e.
Proof.
  unfold parse_entry. intros H.
  destruct (pe_comments ts) as [[[e0 r0] n0] early] eqn:E0.
  pose proof (dle_mono 1 2 _ ltac:(lia) (pe_comments_depth (length ts) _ _ _ _ _ (le_n _) E0)) as D0.
  destruct early; [inversion H; subst; exact D0|].
  assert (Hmain : (let '(e1, r1, n1) := pe_expect KEY r0 in
                   let '(e2, r2, n2) := pe_expect COLON r1 in
                   match pe_lines (S (length r2)) r2 with
                   | Ok (e3, r3, n3) => Ok (e0 ++ [Node ENTRY (e1 ++ e2 ++ e3)], r3, n0 + n1 + n2 + n3)
                   | Err x => Err x | Panic x => Panic x | OutOfFuel => OutOfFuel
                   end) = Ok (e, r, n) -> dle 2 e).
  { clear H. intros H.
    destruct (pe_expect KEY r0) as [[e1 r1] n1] eqn:E1.
    destruct (pe_expect COLON r1) as [[e2 r2] n2] eqn:E2.
    destruct (pe_lines (S (length r2)) r2) as [[[e3 r3] n3]| | |] eqn:E3; try discriminate.
    inversion H; subst. apply dle_app; [exact D0|]. constructor; [|constructor].
    apply depth_node. apply dle_app; [eapply pe_expect_depth; exact E1|].
    apply dle_app; [eapply pe_expect_depth; exact E2|eapply pe_lines_depth; exact E3]. }
  destruct (cur r0) as [k|]; [|inversion H; subst; exact D0].
  destruct k; try (apply Hmain; exact H). inversion H; subst; exact D0.
Qed.

Lemma pp_entries_depth fuel : forall ts e r n, pp_entries fuel ts = Ok (e, r, n) -> dle 2 e.
Proof.
  induction fuel as [|f IH]; intros ts e r n H; cbn [pp_entries] in H.
  - destruct (cur ts) as [k|]; [destruct k|]; try discriminate; inversion H; constructor.
  - destruct (cur ts) as [k|] eqn:Ec; [|inversion H; constructor].
    destruct k; try (inversion H; constructor; fail);
    (destruct (parse_entry ts) as [[[e1 r1] n1]| | |] eqn:E1; try discriminate;
     destruct (pp_entries f r1) as [[[e2 r2] n2]| | |] eqn:E2; try discriminate;
     inversion H; subst; apply dle_app; [eapply parse_entry_depth; exact E1|eapply IH; exact E2]).
Qed.

Lemma empty_line_depth ts : forall e r, empty_line ts = (e, r) -> dle 0 e.
Proof.
  induction ts as [|[k s] t IH]; intros e r H; cbn [empty_line] in H; [inversion H; constructor|].
  destruct k; try (destruct (empty_line t) as [e' r'] eqn:E; inversion H; subst; constructor; [cbn; lia|eapply IH; reflexivity]).
  inversion H; subst. constructor; [cbn; lia|constructor].
Qed.

Lemma skip_wsnl_depth fuel : forall ts e r, skip_wsnl fuel ts = Ok (e, r) -> dle 1 e.
Proof.
  induction fuel as [|f IH]; intros ts e r H; cbn [skip_wsnl] in H.
  - destruct (starts_blank ts); [discriminate|]. inversion H; constructor.
  - destruct (starts_blank ts); [|inversion H; constructor].
    destruct (empty_line ts) as [e1 r1] eqn:E1. destruct (skip_wsnl f r1) as [[e2 r2]| | |] eqn:E2; try discriminate.
    inversion H; subst. constructor; [apply depth_node; eapply empty_line_depth; exact E1|eapply IH; exact E2].
Qed.

Lemma parse_root_depth fuel : forall ts e n, parse_root fuel ts = Ok (e, n) -> dle 3 e.
Proof.
  induction fuel as [|f IH]; intros ts e n H; cbn [parse_root] in H.
  - destruct ts; [|discriminate]. inversion H; constructor.
  - destruct ts as [|t0 ts0]; [inversion H; constructor|]. remember (t0 :: ts0) as ts.
    destruct (skip_wsnl (length ts) ts) as [[e1 r1]| | |] eqn:E1; try discriminate.
    pose proof (dle_mono 1 3 _ ltac:(lia) (skip_wsnl_depth _ _ _ _ E1)) as D1.
    destruct r1 as [|t1 r1']; [inversion H; subst; exact D1|]. remember (t1 :: r1') as r1.
    unfold parse_paragraph in H.
    destruct (pp_entries (length r1) r1) as [[[e2 r2] n2]| | |] eqn:E2; try discriminate.
    destruct (parse_root f r2) as [[e3 n3]| | |] eqn:E3; try discriminate.
    inversion H; subst e. apply dle_app; [exact D1|]. cbn [app].
    constructor; [apply depth_node; eapply pp_entries_depth; exact E2|eapply IH; exact E3].
Qed.

Theorem parse_depth s t n : parse s = Ok (t, n) -> depth t <= 4.
Proof.
  unfold parse. destruct (lex s) as [ts| | |]; try discriminate. unfold parse_tokens.
  destruct (parse_root (length ts) ts) as [[e n']| | |] eqn:E; try discriminate. intros H. inversion H; subst.
  apply depth_node. eapply parse_root_depth. exact E.
Qed.
