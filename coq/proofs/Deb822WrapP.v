(* Lemmas about the wrap-and-sort model (coq/model/Deb822Wrap.v, variant [fixed]) on the abstract
   layouts: the transcription over trees does, on the tree of a layout, what WrapSpec says on
   the layout. *)
From V.model Require Import Base Deb822Lex Deb822Parse Grammar Lossy LossySpec Deb822Edit LiveDoc Deb822Wrap WrapSpec.
From V.proofs Require Import BaseP GrammarLexP GrammarParseP GrammarAccP LiveDocP LiveParaP.
From Coq Require Import Permutation.
Set Default Timeout 60.

(* ---------------------------------------------------------------- res_map *)
Lemma res_map_ok {A B} (f : A -> res B) (g : A -> B) l :
  (forall x, In x l -> f x = Ok (g x)) -> res_map f l = Ok (map g l).
Proof.
  induction l as [|x r IH]; intros H; [reflexivity|].
  cbn [res_map map]. rewrite (H x (or_introl eq_refl)). cbn [bind].
  rewrite IH by (intros y Hy; apply H; right; exact Hy). reflexivity.
Qed.

Lemma res_map_id {A} (f : A -> res A) l : (forall x, In x l -> f x = Ok x) -> res_map f l = Ok l.
Proof. intros H. rewrite (res_map_ok f (fun x => x)) by exact H. rewrite map_id. reflexivity. Qed.

Lemma res_map_ok_map {A B C} (f : B -> res C) (h : A -> B) (g : A -> C) l :
  (forall x, In x l -> f (h x) = Ok (g x)) -> res_map f (map h l) = Ok (map g l).
Proof.
  induction l as [|x r IH]; intros H; [reflexivity|].
  cbn [res_map map]. rewrite (H x (or_introl eq_refl)). cbn [bind].
  rewrite IH by (intros y Hy; apply H; right; exact Hy). reflexivity.
Qed.

(* ---------------------------------------------------------------- sort_by *)
Section SortLemmas.
  Context {A : Type} (cmp : A -> A -> comparison).

  Lemma insert_sorted_map {B} (h : A -> B) (cmpB : B -> B -> comparison) x l :
    (forall a b, cmpB (h a) (h b) = cmp a b) ->
    insert_sorted cmpB (h x) (map h l) = map h (insert_sorted cmp x l).
  Proof.
    intros H. induction l as [|y r IH]; [reflexivity|].
    cbn [map insert_sorted]. unfold gtb. rewrite H. destruct (cmp x y); cbn [map]; try reflexivity.
    rewrite IH. reflexivity.
  Qed.

  Lemma sort_by_map {B} (h : A -> B) (cmpB : B -> B -> comparison) l :
    (forall a b, cmpB (h a) (h b) = cmp a b) -> sort_by cmpB (map h l) = map h (sort_by cmp l).
  Proof.
    intros H. induction l as [|x r IH]; [reflexivity|].
    cbn [map sort_by]. rewrite IH. apply insert_sorted_map. exact H.
  Qed.

  (* x does not have to move behind y *)
  Definition le_cmp (x y : A) : Prop := gtb cmp x y = false.
  Fixpoint lsorted (l : list A) : Prop :=
    match l with
    | [] => True
    | x :: r => match r with [] => True | y :: _ => le_cmp x y end /\ lsorted r
    end.

  Lemma sort_by_sorted l : lsorted l -> sort_by cmp l = l.
  Proof.
    induction l as [|x r IH]; [reflexivity|]. cbn [lsorted]. intros [Hx Hr].
    cbn [sort_by]. rewrite (IH Hr). destruct r as [|y r']; [reflexivity|].
    cbn [insert_sorted]. unfold le_cmp in Hx. rewrite Hx. reflexivity.
  Qed.

  (* the answers of the comparator do not contradict each other *)
  Definition cmp_consistent : Prop := forall a b, cmp a b = Gt -> cmp b a <> Gt.

  Lemma insert_sorted_head x l : exists r, insert_sorted cmp x l = x :: r \/
    (exists y l', l = y :: l' /\ gtb cmp x y = true /\ insert_sorted cmp x l = y :: r).
  Proof.
    destruct l as [|y l']; [exists []; left; reflexivity|].
    cbn [insert_sorted]. destruct (gtb cmp x y) eqn:E.
    - exists (insert_sorted cmp x l'). right. exists y, l'. repeat split. exact E.
    - exists (y :: l'). left. reflexivity.
  Qed.

  Lemma insert_sorted_lsorted x l : cmp_consistent -> lsorted l -> lsorted (insert_sorted cmp x l).
  Proof.
    intros Hc. induction l as [|y r IH]; [intros _; cbn; auto|].
    intros Hs. cbn [insert_sorted]. destruct (gtb cmp x y) eqn:E.
    - cbn [lsorted] in Hs. destruct Hs as [Hy Hr]. specialize (IH Hr).
      cbn [lsorted]. split; [|exact IH].
      destruct (insert_sorted_head x r) as [t [Ht|(z & r' & -> & Ez & Ht)]]; rewrite Ht.
      + unfold le_cmp, gtb in *. destruct (cmp x y) eqn:Exy; try discriminate.
        pose proof (Hc x y Exy) as Hn. destruct (cmp y x); try reflexivity. contradiction.
      + exact Hy.
    - cbn [lsorted]. split; [exact E|exact Hs].
  Qed.

  Lemma sort_by_lsorted l : cmp_consistent -> lsorted (sort_by cmp l).
  Proof.
    intros Hc. induction l as [|x r IH]; [exact I|]. cbn [sort_by]. apply insert_sorted_lsorted; assumption.
  Qed.

  Theorem sort_by_idem l : cmp_consistent -> sort_by cmp (sort_by cmp l) = sort_by cmp l.
  Proof. intros Hc. apply sort_by_sorted. apply sort_by_lsorted. exact Hc. Qed.

  Lemma insert_sorted_perm x l : Permutation (insert_sorted cmp x l) (x :: l).
  Proof.
    induction l as [|y r IH]; [apply Permutation_refl|].
    cbn [insert_sorted]. destruct (gtb cmp x y).
    - eapply perm_trans; [apply perm_skip; exact IH|apply perm_swap].
    - apply Permutation_refl.
  Qed.

  Theorem sort_by_perm l : Permutation (sort_by cmp l) l.
  Proof.
    induction l as [|x r IH]; [apply perm_nil|]. cbn [sort_by].
    eapply perm_trans; [apply insert_sorted_perm|apply perm_skip; exact IH].
  Qed.
End SortLemmas.

Lemma sort_opt_perm {A} (c : option (A -> A -> comparison)) l : Permutation (sort_opt c l) l.
Proof. destruct c; [apply sort_by_perm|apply Permutation_refl]. Qed.

Lemma sort_opt_In {A} (c : option (A -> A -> comparison)) l x : In x (sort_opt c l) -> In x l.
Proof. apply Permutation_in. apply sort_opt_perm. Qed.

Lemma sort_opt_map {A B} (h : A -> B) (cA : option (A -> A -> comparison)) (cB : option (B -> B -> comparison)) l :
  match cA, cB with
  | Some a, Some b => forall x y, b (h x) (h y) = a x y
  | None, None => True
  | _, _ => False
  end -> sort_opt cB (map h l) = map h (sort_opt cA l).
Proof.
  destruct cA as [a|], cB as [b|]; intros H; try contradiction; [|reflexivity].
  apply sort_by_map. exact H.
Qed.

(* ---------------------------------------------------------------- Entry::wrap_and_sort on a field *)
(* the value tokens of (whitespace, first line, continuation lines) *)
Definition triple_toks (w first : str) (conts : list str) : list token :=
  opt_tok WHITESPACE w ++ opt_tok VALUE first ++ flat_map (fun t => [(NEWLINE, [LF]); (VALUE, t)]) conts.

Definition vpart (c : tree) : bool :=
  match c with Tok (VALUE | WHITESPACE | NEWLINE | INDENT | COMMENT) _ => true | _ => false end.
Definition not_indent (c : tree) : bool := negb (kind_eqb (ekind c) INDENT).

Lemma ews_scan_vparts vs : forall ind built content, forallb vpart vs = true ->
  ews_scan vs ind built content = Ok (ind, built, content ++ filter not_indent vs).
Proof.
  induction vs as [|c r IH]; intros ind built content H.
  - cbn [ews_scan filter]. rewrite app_nil_r. reflexivity.
  - cbn [forallb] in H. apply andb_true_iff in H. destruct H as [Hc Hr].
    destruct c as [k s|k cs]; [|discriminate].
    destruct k; try discriminate; cbn [ews_scan ekind filter not_indent kind_eqb kind_code N.eqb Pos.eqb negb];
      rewrite (IH _ _ _ Hr); try rewrite <- app_assoc; reflexivity.
Qed.

Lemma forallb_vpart_opt k s : vpart (Tok k []) = true -> forallb vpart (opt_elem k s) = true.
Proof. intros H. destruct s; [reflexivity|]. cbn [opt_elem forallb]. destruct k; try discriminate; reflexivity. Qed.

Lemma filter_opt_elem k s : not_indent (Tok k []) = true -> filter not_indent (opt_elem k s) = opt_elem k s.
Proof. intros H. destruct s; [reflexivity|]. cbn [opt_elem filter]. unfold not_indent in *. cbn [ekind] in *. rewrite H. reflexivity. Qed.

Definition value_parts (f : field) : list tree :=
  opt_elem WHITESPACE (f_ws f) ++ opt_elem VALUE (f_first f)
  ++ flat_map (fun c => [Tok NEWLINE [LF]; Tok VALUE (snd c)]) (f_cont f) ++ nl_elem (f_nl f).

Lemma filter_conts cs :
  filter not_indent (flat_map cont_elems cs) = flat_map (fun c => [Tok NEWLINE [LF]; Tok VALUE (snd c)]) cs.
Proof.
  induction cs as [|c r IH]; [reflexivity|].
  cbn [flat_map cont_elems app filter not_indent ekind kind_eqb kind_code N.eqb Pos.eqb negb]. rewrite IH. reflexivity.
Qed.
Lemma vpart_conts cs : forallb vpart (flat_map cont_elems cs) = true.
Proof. induction cs as [|c r IH]; [reflexivity|]. cbn [flat_map cont_elems app forallb vpart andb]. exact IH. Qed.

Lemma ews_scan_field f ind :
  ews_scan (children (field_tree f)) ind [] [] =
  Ok (match ind with FieldNameLength => Spaces (utf8_size (f_name f)) | _ => ind end,
      [Tok KEY (f_name f); Tok COLON [58%N]], value_parts f).
Proof.
  unfold field_tree. cbn [children ews_scan ekind app].
  rewrite ews_scan_vparts.
  - cbn [app]. unfold value_parts.
    rewrite !filter_app, !filter_opt_elem by reflexivity. rewrite filter_conts.
    replace (filter not_indent (nl_elem (f_nl f))) with (nl_elem (f_nl f)) by (destruct (f_nl f); reflexivity).
    reflexivity.
  - rewrite !forallb_app, !forallb_vpart_opt by reflexivity. rewrite vpart_conts. cbn [andb].
    destruct (f_nl f); reflexivity.
Qed.

Lemma strip_trailing_nil : strip_trailing [] = [].
Proof. reflexivity. Qed.
Lemma strip_trailing_snoc_drop l x : is_nl_or_ws x = true -> strip_trailing (l ++ [x]) = strip_trailing l.
Proof. intros H. unfold strip_trailing. rewrite rev_app_distr. cbn [rev app drop_while]. rewrite H. reflexivity. Qed.
Lemma strip_trailing_snoc_keep l x : is_nl_or_ws x = false -> strip_trailing (l ++ [x]) = l ++ [x].
Proof.
  intros H. unfold strip_trailing. rewrite rev_app_distr. cbn [rev app drop_while]. rewrite H.
  cbn [rev]. rewrite rev_involutive. reflexivity.
Qed.
Lemma strip_trailing_nl l b : strip_trailing (l ++ nl_elem b) = strip_trailing l.
Proof. destruct b; cbn [nl_elem]; [apply strip_trailing_snoc_drop; reflexivity|rewrite app_nil_r; reflexivity]. Qed.
Lemma strip_trailing_opt_ws w : strip_trailing (opt_elem WHITESPACE w) = [].
Proof. destruct w; [reflexivity|]. cbn [opt_elem]. apply (strip_trailing_snoc_drop [] _). reflexivity. Qed.

Lemma map_tok_elem_opt k s : map tok_elem (opt_tok k s) = opt_elem k s.
Proof. destruct s; reflexivity. Qed.

Lemma field_ws0_conts f : f_cont f <> [] -> field_ws0 f = f_ws f.
Proof. unfold field_ws0. destruct (f_first f); [|reflexivity]. destruct (f_cont f); [contradiction|reflexivity]. Qed.
Lemma field_ws0_first f : f_first f <> [] -> field_ws0 f = f_ws f.
Proof. unfold field_ws0. destruct (f_first f); [contradiction|reflexivity]. Qed.
Lemma field_ws0_empty f : f_first f = [] -> f_cont f = [] -> field_ws0 f = [].
Proof. unfold field_ws0. intros -> ->. reflexivity. Qed.

Lemma map_tok_elem_lines ls :
  map tok_elem (flat_map (fun t : str => [(NEWLINE, [LF]); (VALUE, t)]) ls) =
  flat_map (fun t => [Tok NEWLINE [LF]; Tok VALUE t]) ls.
Proof. induction ls as [|x r IH]; [reflexivity|]. cbn [flat_map map app tok_elem fst snd]. rewrite IH. reflexivity. Qed.
Lemma flat_map_snd_conts (cs : list (str * str)) :
  flat_map (fun c => [Tok NEWLINE [LF]; Tok VALUE (snd c)]) cs = flat_map (fun t => [@Tok kind NEWLINE [LF]; Tok VALUE t]) (map snd cs).
Proof. induction cs as [|x r IH]; [reflexivity|]. cbn [flat_map map app]. rewrite IH. reflexivity. Qed.

Lemma strip_trailing_field f :
  strip_trailing (value_parts f) = map tok_elem (triple_toks (field_ws0 f) (f_first f) (map snd (f_cont f))).
Proof.
  unfold value_parts, triple_toks. rewrite !map_app, !map_tok_elem_opt, map_tok_elem_lines, flat_map_snd_conts.
  destruct (f_cont f) as [|c0 cs] eqn:Ec.
  - cbn [flat_map map app]. rewrite !app_nil_r. rewrite app_assoc, strip_trailing_nl.
    destruct (f_first f) as [|a first'] eqn:Ef.
    + rewrite field_ws0_empty by assumption. cbn [opt_elem app]. rewrite !app_nil_r. apply strip_trailing_opt_ws.
    + rewrite field_ws0_first by (rewrite Ef; discriminate). cbn [opt_elem]. apply strip_trailing_snoc_keep. reflexivity.
  - rewrite field_ws0_conts by (rewrite Ec; discriminate).
    assert (Hne : map snd (c0 :: cs) <> []) by discriminate.
    destruct (exists_last Hne) as (ls & l & E). rewrite E.
    rewrite flat_map_app. cbn [flat_map app].
    rewrite !app_assoc. rewrite strip_trailing_nl.
    match goal with |- strip_trailing (?a ++ [?x; ?y]) = _ => change (a ++ [x; y]) with (a ++ ([x] ++ [y])); rewrite (app_assoc a [x] [y]) end.
    rewrite strip_trailing_snoc_keep by reflexivity. rewrite <- !app_assoc. reflexivity.
Qed.

Lemma res_map_into_token toks : res_map into_token (map tok_elem toks) = Ok toks.
Proof.
  induction toks as [|[k s] r IH]; [reflexivity|]. cbn [map res_map tok_elem into_token fst snd bind]. rewrite IH. reflexivity.
Qed.

(* ---- rebuild_value on the tokens of a value ---- *)
Definition line_toks (ls : list str) : list token := flat_map (fun t => [(NEWLINE, [LF]); (VALUE, t)]) ls.
Definition nonempty_line (t : str) : bool := negb (is_nil t).

Lemma fll_triple w first conts kl :
  first_line_len (triple_toks w first conts) kl = (utf8_size w + utf8_size first + kl + 2)%N.
Proof.
  unfold first_line_len, triple_toks.
  assert (E : forall rest, take_while (fun t : token => negb (is_nl_tok t)) (opt_tok WHITESPACE w ++ opt_tok VALUE first ++ line_toks rest)
                         = opt_tok WHITESPACE w ++ opt_tok VALUE first).
  { intros rest. destruct w as [|a w]; destruct first as [|b first]; destruct rest as [|t rest]; reflexivity. }
  fold (line_toks conts). rewrite E.
  destruct w as [|a w]; destruct first as [|b first]; cbn [opt_tok app fold_right snd utf8_size]; lia.
Qed.

Lemma has_newline_triple w first conts : has_newline (triple_toks w first conts) = negb (is_nil conts).
Proof.
  unfold has_newline, triple_toks. rewrite !existsb_app.
  replace (existsb is_nl_tok (opt_tok WHITESPACE w)) with false by (destruct w; reflexivity).
  replace (existsb is_nl_tok (opt_tok VALUE first)) with false by (destruct first; reflexivity).
  destruct conts; reflexivity.
Qed.

Lemma drop_triple w first conts : forallb nonempty_line conts = true ->
  drop_while is_nl_or_ws_tok (triple_toks w first conts) =
  match value_lines first conts with [] => [] | l1 :: rest => (VALUE, l1) :: line_toks rest end.
Proof.
  intros H. unfold triple_toks, value_lines.
  destruct first as [|b first].
  - destruct conts as [|t rest].
    + destruct w; reflexivity.
    + cbn [forallb] in H. apply andb_true_iff in H. destruct H as [Ht _].
      destruct t as [|x t]; [discriminate|]. destruct w; reflexivity.
  - destruct w; reflexivity.
Qed.

Lemma emit_line_toks n rest :
  emit_indented n false (line_toks rest) =
  (flat_map (fun t => [Tok NEWLINE [LF]; Tok INDENT (spaces n); Tok VALUE t]) rest, false).
Proof.
  induction rest as [|t r IH]; [reflexivity|].
  unfold line_toks in *. cbn [flat_map app emit_indented is_nl_tok fst kind_eqb kind_code N.eqb Pos.eqb tok_elem snd].
  rewrite IH. reflexivity.
Qed.

Lemma emit_lines n (lwn : bool) l1 rest :
  emit_indented n lwn ((VALUE, l1) :: line_toks rest) =
  ((if lwn then [Tok INDENT (spaces n)] else []) ++ Tok VALUE l1 ::
   flat_map (fun t => [Tok NEWLINE [LF]; Tok INDENT (spaces n); Tok VALUE t]) rest, false).
Proof.
  cbn [emit_indented is_nl_tok fst kind_eqb kind_code N.eqb Pos.eqb tok_elem snd]. rewrite emit_line_toks. reflexivity.
Qed.

Lemma cont_elems_indent n ls :
  flat_map cont_elems (indent_lines n ls) = flat_map (fun t => [Tok NEWLINE [LF]; Tok INDENT (spaces n); Tok VALUE t]) ls.
Proof. induction ls as [|t r IH]; [reflexivity|]. unfold indent_lines in *. cbn [map flat_map cont_elems app fst snd]. rewrite IH. reflexivity. Qed.

Lemma value_lines_head_nonempty first conts l1 rest :
  forallb nonempty_line conts = true -> value_lines first conts = l1 :: rest -> l1 <> [].
Proof.
  unfold value_lines. destruct first as [|b first].
  - intros H E. subst conts. cbn [forallb] in H. apply andb_true_iff in H. destruct H as [H _].
    destruct l1; [discriminate|discriminate].
  - intros _ E. injection E as <- _. discriminate.
Qed.

Theorem rebuild_triple c name w first conts : forallb nonempty_line conts = true ->
  [Tok KEY name; Tok COLON [58%N]]
    ++ rebuild_value fixed (triple_toks w first conts) (utf8_size name) (width c name) (c_iel c) (c_mll c)
  = children (field_tree (rebuild_field c name w first conts)).
Proof.
  intros Hne. unfold rebuild_value, rebuild_field. rewrite fll_triple, has_newline_triple, negb_involutive.
  fold (fits c name w first).
  destruct (fits c name w first && is_nil conts) eqn:Efit.
  - apply andb_true_iff in Efit. destruct Efit as [_ En]. destruct conts; [|discriminate].
    unfold triple_toks, field_tree. cbn [flat_map app children f_name f_ws f_first f_cont f_nl nl_elem].
    rewrite !app_nil_r, map_app, !map_tok_elem_opt, <- app_assoc. reflexivity.
  - rewrite (drop_triple w first conts Hne).
    destruct (value_lines first conts) as [|l1 rest] eqn:El.
    + assert (En : conts = []) by (unfold value_lines in El; destruct first; [exact El|discriminate]).
      subst conts. unfold keep_first, comment_first. cbn [v_hash fixed is_nil negb andb orb emit_indented app].
      rewrite andb_false_r. cbn [orb app]. reflexivity.
    + unfold keep_first, comment_first. cbn [v_hash fixed andb]. rewrite orb_false_r.
      pose proof (value_lines_head_nonempty first conts l1 rest Hne El) as Hl1.
      destruct (c_iel c && negb (is_nil conts) && negb (starts_with_hash l1)) eqn:Ed.
      * rewrite emit_lines. unfold field_tree. cbn [children f_name f_ws f_first f_cont f_nl nl_elem opt_elem app].
        rewrite cont_elems_indent. cbn [flat_map app]. repeat rewrite <- app_assoc. reflexivity.
      * rewrite emit_lines. unfold field_tree. cbn [children f_name f_ws f_first f_cont f_nl nl_elem opt_elem app].
        rewrite cont_elems_indent. destruct l1; [contradiction|]. cbn [opt_elem app]. repeat rewrite <- app_assoc. reflexivity.
Qed.

(* ---- Entry::wrap_and_sort ---- *)
(* a formatter that returns (never panics) *)
Definition pure_fmt (g : str -> str -> str) : str -> str -> res str := fun k v => Ok (g k v).

Definition conts_nonempty (f : field) : bool := forallb (fun ct => nonempty_line (snd ct)) (f_cont f).
Lemma conts_nonempty_map f : conts_nonempty f = true -> forallb nonempty_line (map snd (f_cont f)) = true.
Proof. unfold conts_nonempty. induction (f_cont f) as [|x r IH]; [reflexivity|]. cbn [forallb map]. intros H. apply andb_true_iff in H. destruct H as [H1 H2]. rewrite H1, (IH H2). reflexivity. Qed.

(* the formatter's output lexes to the tokens of the value it is read as *)
Definition fmt_lexes (fmt : option (str -> str -> str)) (f : field) : Prop :=
  match fmt with
  | None => True
  | Some g =>
    let o := g (f_name f) (value_text (field_ws0 f) (f_first f) (map snd (f_cont f))) in
    let '(w, first, conts) := parse_value o in
    fmt_tokens fixed o = Ok (triple_toks w first conts) /\ forallb nonempty_line conts = true
  end.

Lemma utf8_len_pos c : (1 <= utf8_len c)%N.
Proof. unfold utf8_len. destruct (c <? 128)%N; [lia|]. destruct (c <? 2048)%N; [lia|]. destruct (c <? 65536)%N; lia. Qed.
Lemma utf8_size_pos s : s <> [] -> (utf8_size s =? 0)%N = false.
Proof.
  destruct s as [|c r]; [congruence|]. intros _. cbn [utf8_size fold_right].
  pose proof (utf8_len_pos c). apply N.eqb_neq. lia.
Qed.

Lemma token_text_triple w first conts :
  flat_map token_text (map tok_elem (triple_toks w first conts)) = value_text w first conts.
Proof.
  unfold triple_toks, value_text. rewrite !map_app, !flat_map_app, !map_tok_elem_opt.
  replace (flat_map token_text (opt_elem WHITESPACE w)) with w by (destruct w; cbn; rewrite ?app_nil_r; reflexivity).
  replace (flat_map token_text (opt_elem VALUE first)) with first by (destruct first; cbn; rewrite ?app_nil_r; reflexivity).
  f_equal. f_equal. induction conts as [|t r IH]; [reflexivity|].
  cbn [flat_map map app tok_elem fst snd token_text]. rewrite IH. reflexivity.
Qed.

Lemma no_err_comment_triple w first conts :
  existsb is_err_or_comment (map tok_elem (triple_toks w first conts)) = false.
Proof.
  unfold triple_toks. rewrite !map_app, !existsb_app, !map_tok_elem_opt.
  replace (existsb is_err_or_comment (opt_elem WHITESPACE w)) with false by (destruct w; reflexivity).
  replace (existsb is_err_or_comment (opt_elem VALUE first)) with false by (destruct first; reflexivity).
  cbn [orb]. induction conts as [|t r IH]; [reflexivity|]. cbn [flat_map map app existsb]. exact IH.
Qed.

Theorem entry_ws_field c fmt f :
  ind_ok c = true -> f_name f <> [] -> conts_nonempty f = true -> fmt_lexes fmt f ->
  entry_ws fixed (c_ind c) (c_iel c) (c_mll c) (option_map pure_fmt fmt) (field_tree f)
  = Ok (field_tree (a_ws_field c fmt f)).
Proof.
  intros Hind Hname Hne Hfmt. unfold entry_ws. rewrite ews_scan_field. cbn [bind].
  assert (En : (match (match c_ind c with FieldNameLength => Spaces (utf8_size (f_name f)) | Spaces n => Spaces n end) with
               | Spaces i => i | FieldNameLength => 1%N end) = width c (f_name f)).
  { unfold width. destruct (c_ind c); reflexivity. }
  replace (match c_ind c with FieldNameLength => Spaces (utf8_size (f_name f)) | Spaces _ => c_ind c end)
    with (match c_ind c with FieldNameLength => Spaces (utf8_size (f_name f)) | Spaces n => Spaces n end)
    by (destruct (c_ind c); reflexivity).
  rewrite En.
  assert (Hw : (width c (f_name f) =? 0)%N = false).
  { unfold width, ind_ok in *. destruct (c_ind c); [apply utf8_size_pos; exact Hname|apply negb_true_iff; exact Hind]. }
  rewrite Hw, strip_trailing_field, entry_key_field.
  destruct fmt as [g|].
  - cbn [option_map entry_tokens]. rewrite no_err_comment_triple, token_text_triple, entry_key_field.
    unfold pure_fmt. cbn [bind]. cbn [fmt_lexes] in Hfmt. cbv zeta in Hfmt.
    unfold a_ws_field.
    destruct (parse_value (g (f_name f) (value_text (field_ws0 f) (f_first f) (map snd (f_cont f))))) as [[w first] conts].
    destruct Hfmt as [Hl Hn]. rewrite Hl. cbn [bind].
    f_equal. unfold field_tree at 1. f_equal.
    rewrite (rebuild_triple c (f_name f) w first conts Hn). reflexivity.
  - cbn [option_map entry_tokens]. rewrite res_map_into_token. cbn [bind]. unfold a_ws_field.
    f_equal.
    rewrite (rebuild_triple c (f_name f) (field_ws0 f) (f_first f) (map snd (f_cont f)) (conts_nonempty_map f Hne)).
    destruct (rebuild_field c (f_name f) (field_ws0 f) (f_first f) (map snd (f_cont f))); reflexivity.
Qed.

(* ---------------------------------------------------------------- Paragraph::wrap_and_sort on items *)
Definition pre_elems (cs : list comment) : list tree := flat_map (fun c => comment_elems (fst c) (snd c)) cs.
Definition group_tree (g : list comment * field) : list tree * tree := (pre_elems (fst g), field_tree (snd g)).

Lemma pre_elems_app a b : pre_elems (a ++ b) = pre_elems a ++ pre_elems b.
Proof. unfold pre_elems. apply flat_map_app. Qed.

Lemma pws_scan_items its : forall cur acc,
  pws_scan fixed (flat_map item_elems its) (pre_elems cur) acc =
  Ok (acc ++ map group_tree (fst (group_items its cur)), pre_elems (snd (group_items its cur))).
Proof.
  induction its as [|it r IH]; intros cur acc.
  - cbn [flat_map pws_scan group_items fst snd map]. rewrite app_nil_r. reflexivity.
  - destruct it as [f|c nl].
    + cbn [flat_map item_elems app]. unfold field_tree at 1. cbn [pws_scan ekind is_node].
      change (@nil tree) with (pre_elems []). rewrite IH.
      cbn [group_items]. destruct (group_items r []) as [gs tr]. cbn [fst snd map].
      rewrite <- app_assoc. reflexivity.
    + cbn [flat_map item_elems comment_elems app pws_scan ekind].
      cbn [group_items].
      destruct nl; cbn [nl_elem app pws_scan ekind v_para_nl fixed].
      * rewrite <- app_assoc. cbn [app].
        replace (pre_elems cur ++ [Tok COMMENT (35%N :: c); Tok NEWLINE [LF]]) with (pre_elems (cur ++ [(c, true)]))
          by (rewrite pre_elems_app; unfold pre_elems at 2; cbn [flat_map fst snd comment_elems nl_elem app]; reflexivity).
        apply IH.
      * replace (pre_elems cur ++ [Tok COMMENT (35%N :: c)]) with (pre_elems (cur ++ [(c, false)]))
          by (rewrite pre_elems_app; unfold pre_elems at 2; cbn [flat_map fst snd comment_elems nl_elem app]; reflexivity).
        apply IH.
Qed.

Lemma group_items_In its : forall cur g, In g (fst (group_items its cur)) -> In (IField (snd g)) its.
Proof.
  induction its as [|it r IH]; intros cur g H; [contradiction|].
  destruct it as [f|c nl]; cbn [group_items] in H.
  - destruct (group_items r []) as [gs tr] eqn:E. cbn [fst] in H. destruct H as [<-|H]; [left; reflexivity|].
    right. apply (IH [] g). rewrite E. exact H.
  - right. apply (IH _ g H).
Qed.

Lemma res_map_emit_pre cs : res_map emit_token (pre_elems cs) = Ok (pre_elems cs).
Proof.
  apply res_map_id. intros x Hx. unfold pre_elems in Hx. apply in_flat_map in Hx. destruct Hx as (c & _ & Hx).
  unfold comment_elems in Hx. destruct Hx as [<-|Hx]; [reflexivity|]. destruct (snd c); [|contradiction].
  destruct Hx as [<-|[]]. reflexivity.
Qed.

Lemma item_elems_comments cs : flat_map item_elems (map comment_item cs) = pre_elems cs.
Proof.
  unfold pre_elems. induction cs as [|x l IHl]; [reflexivity|].
  cbn [map flat_map comment_item item_elems]. rewrite IHl. reflexivity.
Qed.

Lemma item_elems_ungroup gs tr :
  flat_map item_elems (ungroup gs tr) =
  concat (map (fun g => pre_elems (fst g) ++ [field_tree (snd g)]) gs) ++ pre_elems tr.
Proof.
  unfold ungroup. rewrite flat_map_app, item_elems_comments. f_equal.
  induction gs as [|g r IH]; [reflexivity|]. cbn [flat_map map concat]. rewrite flat_map_app, IH.
  rewrite flat_map_app, item_elems_comments. reflexivity.
Qed.

(* the caller's comparator on entries depends only on names and values *)
Definition ecmp_agrees (esort : option (tree -> tree -> comparison)) (ecmp : option pair_cmp) : Prop :=
  match esort, ecmp with
  | Some a, Some b => forall f g, a (field_tree f) (field_tree g) = b (field_pair f) (field_pair g)
  | None, None => True
  | _, _ => False
  end.

Definition field_ok (fmt : option (str -> str -> str)) (f : field) : Prop :=
  f_name f <> [] /\ conts_nonempty f = true /\ fmt_lexes fmt f.
Definition items_ok (fmt : option (str -> str -> str)) (its : list item) : Prop :=
  forall f, In (IField f) its -> field_ok fmt f.

Theorem para_ws_items c esort ecmp fmt its :
  ind_ok c = true -> ecmp_agrees esort ecmp -> items_ok fmt its ->
  para_ws fixed (c_ind c) (c_iel c) (c_mll c) esort (option_map pure_fmt fmt) (Node PARAGRAPH (flat_map item_elems its))
  = Ok (Node PARAGRAPH (flat_map item_elems (a_ws_items c ecmp fmt its))).
Proof.
  intros Hind Hcmp Hok. unfold para_ws. cbn [children].
  change (@nil tree) with (pre_elems []) at 1. rewrite pws_scan_items. cbn [bind app].
  unfold a_ws_items. pose proof (group_items_In its []) as HIn.
  destruct (group_items its []) as [gs tr]. cbn [fst snd] in *.
  assert (Es : sort_opt (option_map on_snd esort) (map group_tree gs) = map group_tree (sort_opt (option_map on_field ecmp) gs)).
  { apply sort_opt_map. unfold ecmp_agrees in Hcmp. destruct esort as [a|], ecmp as [b|]; cbn [option_map]; try contradiction; [|exact I].
    intros x y. unfold on_snd, on_field, group_tree. cbn [snd]. apply Hcmp. }
  rewrite Es. set (sorted := sort_opt (option_map on_field ecmp) gs).
  assert (Hs : forall g, In g sorted -> field_ok fmt (snd g)).
  { intros g Hg. apply Hok. apply HIn. apply (sort_opt_In _ _ _ Hg). }
  rewrite (res_map_ok_map _ group_tree (fun g => pre_elems (fst g) ++ [field_tree (a_ws_field c fmt (snd g))])).
  - cbn [bind]. rewrite res_map_emit_pre. cbn [bind]. f_equal. f_equal.
    rewrite item_elems_ungroup, !map_map. cbn [fst snd]. reflexivity.
  - intros g Hg. unfold group_tree. cbn [fst snd].
    rewrite res_map_emit_pre. cbn [bind]. destruct (Hs g Hg) as (Hn & Hc & Hf).
    rewrite (entry_ws_field c fmt (snd g) Hind Hn Hc Hf). reflexivity.
Qed.

(* ---------------------------------------------------------------- Deb822::wrap_and_sort on blocks *)
Definition comment_node (c : comment) : tree := lblock_tree (comment_block c).
Definition dgroup_tree (g : list comment * list item) : list tree * tree :=
  (map comment_node (fst g), lblock_tree (LPara (snd g))).

Lemma dws_scan_blocks l : forall cur acc,
  dws_scan fixed (map lblock_tree l) (map comment_node cur) acc =
  Ok (acc ++ map dgroup_tree (fst (group_blocks l cur)), map comment_node (snd (group_blocks l cur))).
Proof.
  induction l as [|b r IH]; intros cur acc.
  - cbn [map dws_scan group_blocks fst snd]. rewrite app_nil_r. reflexivity.
  - destruct b as [|c nl|its]; cbn [map lblock_tree dws_scan ekind is_node v_doc_lines fixed group_blocks].
    + cbn [children existsb is_blank_kind ekind negb orb]. apply IH.
    + cbn [children comment_elems existsb is_blank_kind ekind negb orb].
      replace (map comment_node cur ++ [Node EMPTY_LINE (comment_elems c nl)])
        with (map comment_node (cur ++ [(c, nl)])) by (rewrite map_app; reflexivity).
      apply IH.
    + change (@nil tree) with (map comment_node []). rewrite IH.
      destruct (group_blocks r []) as [gs tr]. cbn [fst snd map]. rewrite <- app_assoc. reflexivity.
Qed.

Lemma group_blocks_In l : forall cur g, In g (fst (group_blocks l cur)) -> In (LPara (snd g)) l.
Proof.
  induction l as [|b r IH]; intros cur g H; [contradiction|].
  destruct b as [|c nl|its]; cbn [group_blocks] in H.
  - right. apply (IH _ g H).
  - right. apply (IH _ g H).
  - destruct (group_blocks r []) as [gs tr] eqn:E. cbn [fst] in H. destruct H as [<-|H]; [left; reflexivity|].
    right. apply (IH [] g). rewrite E. exact H.
Qed.

Definition pcmp_agrees (psort : option (tree -> tree -> comparison)) (pcmp : option para_cmp) : Prop :=
  match psort, pcmp with
  | Some a, Some b => forall x y, a (lblock_tree (LPara x)) (lblock_tree (LPara y)) = b (flat_map item_pairs x) (flat_map item_pairs y)
  | None, None => True
  | _, _ => False
  end.

(* the caller's paragraph function does on the tree what [pf] does on the items *)
Definition pfun_agrees (pfun : option (tree -> res tree)) (pf : list item -> list item) (its : list item) : Prop :=
  match pfun with
  | Some f => f (lblock_tree (LPara its)) = Ok (lblock_tree (LPara (pf its)))
  | None => pf its = its
  end.

Lemma ensure_nl_para its : ensure_nl (lblock_tree (LPara its)) = lblock_tree (LPara (terminate_last its)).
Proof.
  cbn [lblock_tree]. rewrite <- ensure_nl_items. reflexivity.
Qed.

Lemma dws_emit_blocks pfun pf gs : forall first,
  (forall g, In g gs -> pfun_agrees pfun pf (snd g)) ->
  dws_emit fixed pfun first (map dgroup_tree gs) =
  Ok (map lblock_tree (emit_blocks first (map (fun g => (fst g, terminate_last (pf (snd g)))) gs))).
Proof.
  induction gs as [|g r IH]; intros first H; [reflexivity|].
  cbn [map dws_emit dgroup_tree fst snd].
  change (dgroup_tree g) with (map comment_node (fst g), lblock_tree (LPara (snd g))).
  rewrite (res_map_id (emit_current fixed)) by (intros x _; reflexivity). cbn [bind].
  pose proof (H g (or_introl eq_refl)) as Hg. unfold pfun_agrees in Hg.
  assert (Ep : match pfun with Some f => f (lblock_tree (LPara (snd g))) | None => Ok (lblock_tree (LPara (snd g))) end
               = Ok (lblock_tree (LPara (pf (snd g))))).
  { destruct pfun; [exact Hg|rewrite Hg; reflexivity]. }
  rewrite Ep. cbn [bind v_terminate fixed]. rewrite ensure_nl_para.
  rewrite (IH false) by (intros y Hy; apply H; right; exact Hy). cbn [bind emit_blocks fst snd].
  f_equal. rewrite !map_app. cbn [map]. f_equal.
  - destruct first; reflexivity.
  - f_equal. rewrite map_map. reflexivity.
Qed.

Theorem doc_ws_blocks psort pcmp pfun pf l :
  pcmp_agrees psort pcmp -> (forall its, In (LPara its) l -> pfun_agrees pfun pf its) ->
  doc_ws fixed psort pfun (ltree_of l) = Ok (ltree_of (a_ws_doc pcmp pf l)).
Proof.
  intros Hcmp Hpf. unfold doc_ws, ltree_of. cbn [children].
  change (@nil tree) with (map comment_node []) at 1. rewrite dws_scan_blocks. cbn [bind app].
  unfold a_ws_doc. pose proof (group_blocks_In l []) as HIn.
  destruct (group_blocks l []) as [gs tr]. cbn [fst snd] in *.
  assert (Es : sort_opt (option_map on_snd psort) (map dgroup_tree gs) = map dgroup_tree (sort_opt (option_map on_para pcmp) gs)).
  { apply sort_opt_map. unfold pcmp_agrees in Hcmp. destruct psort as [a|], pcmp as [b|]; cbn [option_map]; try contradiction; [|exact I].
    intros x y. unfold on_snd, on_para, dgroup_tree. cbn [snd]. apply Hcmp. }
  rewrite Es. set (sorted := sort_opt (option_map on_para pcmp) gs).
  rewrite (dws_emit_blocks pfun pf sorted true).
  - cbn [bind]. rewrite (res_map_id (emit_current fixed)) by (intros x _; reflexivity). cbn [bind v_terminate fixed].
    f_equal. change (ensure_nl (Node ROOT ?cs)) with (Node ROOT (ensure_nl_list cs)).
    f_equal. rewrite <- ensure_nl_root. f_equal. rewrite map_app, map_map. reflexivity.
  - intros g Hg. apply Hpf. apply HIn. apply (sort_opt_In _ _ _ Hg).
Qed.
