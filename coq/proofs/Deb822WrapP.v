(* Lemmas about the wrap-and-sort model (coq/model/Deb822Wrap.v, variant [fixed]) on the abstract
   layouts: the transcription over trees does, on the tree of a layout, what WrapSpec says on
   the layout. *)
From V.model Require Import Base Deb822Lex Deb822Parse Grammar Lossy LossySpec Deb822Edit LiveDoc Deb822Wrap WrapSpec.
From V.model Require Export WrapSpecInst.
From V.proofs Require Import BaseP GrammarLexP GrammarParseP GrammarAccP LiveDocP LiveParaP.
From Coq Require Import Permutation.

(* ---------------------------------------------------------------- res_map *)
Lemma res_map_ok {A B} (f : A -> res B) (g : A -> B) l :
  (forall x, In x l -> f x = Ok (g x)) -> res_map f l = Ok (map g l).
Proof.
  induction l as [|x r IH]; intros H; [reflexivity|].
  cbn [res_map map]. rewrite (H x (or_introl eq_refl)). cbn [bind].
  rewrite IH by (intros y Hy; apply H; right; exact Hy). reflexivity.
Qed.

Lemma res_map_id {A} (f : A -> res A) l : (forall x, In x l -> f x = Ok x) -> res_map f l = Ok l.
Proof. intros H. rewrite (res_map_ok f (fun x => x)) by exact H. rewrite map_id. reflexivity. Qed.

Lemma res_map_ok_map {A B C} (f : B -> res C) (h : A -> B) (g : A -> C) l :
  (forall x, In x l -> f (h x) = Ok (g x)) -> res_map f (map h l) = Ok (map g l).
Proof.
  induction l as [|x r IH]; intros H; [reflexivity|].
  cbn [res_map map]. rewrite (H x (or_introl eq_refl)). cbn [bind].
  rewrite IH by (intros y Hy; apply H; right; exact Hy). reflexivity.
Qed.

(* ---------------------------------------------------------------- sort_by *)
Section SortLemmas.
  Context {A : Type} (cmp : A -> A -> comparison).

  Lemma insert_sorted_map {B} (h : A -> B) (cmpB : B -> B -> comparison) x l :
    (forall a b, cmpB (h a) (h b) = cmp a b) ->
    insert_sorted cmpB (h x) (map h l) = map h (insert_sorted cmp x l).
  Proof.
    intros H. induction l as [|y r IH]; [reflexivity|].
    cbn [map insert_sorted]. unfold gtb. rewrite H. destruct (cmp x y); cbn [map]; try reflexivity.
    rewrite IH. reflexivity.
  Qed.

  Lemma sort_by_map {B} (h : A -> B) (cmpB : B -> B -> comparison) l :
    (forall a b, cmpB (h a) (h b) = cmp a b) -> sort_by cmpB (map h l) = map h (sort_by cmp l).
  Proof.
    intros H. induction l as [|x r IH]; [reflexivity|].
    cbn [map sort_by]. rewrite IH. apply insert_sorted_map. exact H.
  Qed.

  (* x does not have to move behind y *)
  Definition le_cmp (x y : A) : Prop := gtb cmp x y = false.
  Fixpoint lsorted (l : list A) : Prop :=
    match l with
    | [] => True
    | x :: r => match r with [] => True | y :: _ => le_cmp x y end /\ lsorted r
    end.

  Lemma sort_by_sorted l : lsorted l -> sort_by cmp l = l.
  Proof.
    induction l as [|x r IH]; [reflexivity|]. cbn [lsorted]. intros [Hx Hr].
    cbn [sort_by]. rewrite (IH Hr). destruct r as [|y r']; [reflexivity|].
    cbn [insert_sorted]. unfold le_cmp in Hx. rewrite Hx. reflexivity.
  Qed.


  Lemma insert_sorted_head x l : exists r, insert_sorted cmp x l = x :: r \/
    (exists y l', l = y :: l' /\ gtb cmp x y = true /\ insert_sorted cmp x l = y :: r).
  Proof.
    destruct l as [|y l']; [exists []; left; reflexivity|].
    cbn [insert_sorted]. destruct (gtb cmp x y) eqn:E.
    - exists (insert_sorted cmp x l'). right. exists y, l'. repeat split. exact E.
    - exists (y :: l'). left. reflexivity.
  Qed.

  Lemma insert_sorted_lsorted x l : cmp_consistent cmp -> lsorted l -> lsorted (insert_sorted cmp x l).
  Proof.
    intros Hc. induction l as [|y r IH]; [intros _; cbn; auto|].
    intros Hs. cbn [insert_sorted]. destruct (gtb cmp x y) eqn:E.
    - cbn [lsorted] in Hs. destruct Hs as [Hy Hr]. specialize (IH Hr).
      cbn [lsorted]. split; [|exact IH].
      destruct (insert_sorted_head x r) as [t [Ht|(z & r' & -> & Ez & Ht)]]; rewrite Ht.
      + unfold le_cmp, gtb in *. destruct (cmp x y) eqn:Exy; try discriminate.
        pose proof (Hc x y Exy) as Hn. destruct (cmp y x); try reflexivity. contradiction.
      + exact Hy.
    - cbn [lsorted]. split; [exact E|exact Hs].
  Qed.

  Lemma sort_by_lsorted l : cmp_consistent cmp -> lsorted (sort_by cmp l).
  Proof.
    intros Hc. induction l as [|x r IH]; [exact I|]. cbn [sort_by]. apply insert_sorted_lsorted; assumption.
  Qed.

  Theorem sort_by_idem l : cmp_consistent cmp -> sort_by cmp (sort_by cmp l) = sort_by cmp l.
  Proof. intros Hc. apply sort_by_sorted. apply sort_by_lsorted. exact Hc. Qed.

  Lemma insert_sorted_perm x l : Permutation (insert_sorted cmp x l) (x :: l).
  Proof.
    induction l as [|y r IH]; [apply Permutation_refl|].
    cbn [insert_sorted]. destruct (gtb cmp x y).
    - eapply perm_trans; [apply perm_skip; exact IH|apply perm_swap].
    - apply Permutation_refl.
  Qed.

  Theorem sort_by_perm l : Permutation (sort_by cmp l) l.
  Proof.
    induction l as [|x r IH]; [apply perm_nil|]. cbn [sort_by].
    eapply perm_trans; [apply insert_sorted_perm|apply perm_skip; exact IH].
  Qed.
End SortLemmas.

Lemma sort_opt_perm {A} (c : option (A -> A -> comparison)) l : Permutation (sort_opt c l) l.
Proof. destruct c; [apply sort_by_perm|apply Permutation_refl]. Qed.

Lemma sort_opt_In {A} (c : option (A -> A -> comparison)) l x : In x (sort_opt c l) -> In x l.
Proof. apply Permutation_in. apply sort_opt_perm. Qed.

Lemma sort_opt_map {A B} (h : A -> B) (cA : option (A -> A -> comparison)) (cB : option (B -> B -> comparison)) l :
  match cA, cB with
  | Some a, Some b => forall x y, b (h x) (h y) = a x y
  | None, None => True
  | _, _ => False
  end -> sort_opt cB (map h l) = map h (sort_opt cA l).
Proof.
  destruct cA as [a|], cB as [b|]; intros H; try contradiction; [|reflexivity].
  apply sort_by_map. exact H.
Qed.


Definition vpart (c : tree) : bool :=
  match c with Tok (VALUE | WHITESPACE | NEWLINE | INDENT | COMMENT) _ => true | _ => false end.
Definition not_indent (c : tree) : bool := negb (kind_eqb (ekind c) INDENT).

Lemma ews_scan_vparts vs : forall ind built content, forallb vpart vs = true ->
  ews_scan vs ind built content = Ok (ind, built, content ++ filter not_indent vs).
Proof.
  induction vs as [|c r IH]; intros ind built content H.
  - cbn [ews_scan filter]. rewrite app_nil_r. reflexivity.
  - cbn [forallb] in H. apply andb_true_iff in H. destruct H as [Hc Hr].
    destruct c as [k s|k cs]; [|discriminate].
    destruct k; try discriminate; cbn [ews_scan ekind filter not_indent kind_eqb kind_code N.eqb Pos.eqb negb];
      rewrite (IH _ _ _ Hr); try rewrite <- app_assoc; reflexivity.
Qed.

Lemma forallb_vpart_opt k s : vpart (Tok k []) = true -> forallb vpart (opt_elem k s) = true.
Proof. intros H. destruct s; [reflexivity|]. cbn [opt_elem forallb]. destruct k; try discriminate; reflexivity. Qed.

Lemma filter_opt_elem k s : not_indent (Tok k []) = true -> filter not_indent (opt_elem k s) = opt_elem k s.
Proof. intros H. destruct s; [reflexivity|]. cbn [opt_elem filter]. unfold not_indent in *. cbn [ekind] in *. rewrite H. reflexivity. Qed.

Definition value_parts (f : field) : list tree :=
  opt_elem WHITESPACE (f_ws f) ++ opt_elem VALUE (f_first f)
  ++ flat_map (fun c => [Tok NEWLINE [LF]; Tok VALUE (snd c)]) (f_cont f) ++ nl_elem (f_nl f).

Lemma filter_conts cs :
  filter not_indent (flat_map cont_elems cs) = flat_map (fun c => [Tok NEWLINE [LF]; Tok VALUE (snd c)]) cs.
Proof.
  induction cs as [|c r IH]; [reflexivity|].
  cbn [flat_map cont_elems app filter not_indent ekind kind_eqb kind_code N.eqb Pos.eqb negb]. rewrite IH. reflexivity.
Qed.
Lemma vpart_conts cs : forallb vpart (flat_map cont_elems cs) = true.
Proof. induction cs as [|c r IH]; [reflexivity|]. cbn [flat_map cont_elems app forallb vpart andb]. exact IH. Qed.

Lemma ews_scan_field f ind :
  ews_scan (children (field_tree f)) ind [] [] =
  Ok (match ind with FieldNameLength => Spaces (utf8_size (f_name f)) | _ => ind end,
      [Tok KEY (f_name f); Tok COLON [58%N]], value_parts f).
Proof.
  unfold field_tree. cbn [children ews_scan ekind app].
  rewrite ews_scan_vparts.
  - cbn [app]. unfold value_parts.
    rewrite !filter_app, !filter_opt_elem by reflexivity. rewrite filter_conts.
    replace (filter not_indent (nl_elem (f_nl f))) with (nl_elem (f_nl f)) by (destruct (f_nl f); reflexivity).
    reflexivity.
  - rewrite !forallb_app, !forallb_vpart_opt by reflexivity. rewrite vpart_conts. cbn [andb].
    destruct (f_nl f); reflexivity.
Qed.

Lemma strip_trailing_nil : strip_trailing [] = [].
Proof. reflexivity. Qed.
Lemma strip_trailing_snoc_drop l x : is_nl_or_ws x = true -> strip_trailing (l ++ [x]) = strip_trailing l.
Proof. intros H. unfold strip_trailing. rewrite rev_app_distr. cbn [rev app drop_while]. rewrite H. reflexivity. Qed.
Lemma strip_trailing_snoc_keep l x : is_nl_or_ws x = false -> strip_trailing (l ++ [x]) = l ++ [x].
Proof.
  intros H. unfold strip_trailing. rewrite rev_app_distr. cbn [rev app drop_while]. rewrite H.
  cbn [rev]. rewrite rev_involutive. reflexivity.
Qed.
Lemma strip_trailing_nl l b : strip_trailing (l ++ nl_elem b) = strip_trailing l.
Proof. destruct b; cbn [nl_elem]; [apply strip_trailing_snoc_drop; reflexivity|rewrite app_nil_r; reflexivity]. Qed.
Lemma strip_trailing_opt_ws w : strip_trailing (opt_elem WHITESPACE w) = [].
Proof. destruct w; [reflexivity|]. cbn [opt_elem]. apply (strip_trailing_snoc_drop [] _). reflexivity. Qed.

Lemma map_tok_elem_opt k s : map tok_elem (opt_tok k s) = opt_elem k s.
Proof. destruct s; reflexivity. Qed.

Lemma field_ws0_conts f : f_cont f <> [] -> field_ws0 f = f_ws f.
Proof. unfold field_ws0. destruct (f_first f); [|reflexivity]. destruct (f_cont f); [contradiction|reflexivity]. Qed.
Lemma field_ws0_first f : f_first f <> [] -> field_ws0 f = f_ws f.
Proof. unfold field_ws0. destruct (f_first f); [contradiction|reflexivity]. Qed.
Lemma field_ws0_empty f : f_first f = [] -> f_cont f = [] -> field_ws0 f = [].
Proof. unfold field_ws0. intros -> ->. reflexivity. Qed.

Lemma map_tok_elem_lines ls :
  map tok_elem (flat_map (fun t : str => [(NEWLINE, [LF]); (VALUE, t)]) ls) =
  flat_map (fun t => [Tok NEWLINE [LF]; Tok VALUE t]) ls.
Proof. induction ls as [|x r IH]; [reflexivity|]. cbn [flat_map map app tok_elem fst snd]. rewrite IH. reflexivity. Qed.
Lemma flat_map_snd_conts (cs : list (str * str)) :
  flat_map (fun c => [Tok NEWLINE [LF]; Tok VALUE (snd c)]) cs = flat_map (fun t => [@Tok kind NEWLINE [LF]; Tok VALUE t]) (map snd cs).
Proof. induction cs as [|x r IH]; [reflexivity|]. cbn [flat_map map app]. rewrite IH. reflexivity. Qed.

Lemma strip_trailing_field f :
  strip_trailing (value_parts f) = map tok_elem (triple_toks (field_ws0 f) (f_first f) (map snd (f_cont f))).
Proof.
  unfold value_parts, triple_toks. rewrite !map_app, !map_tok_elem_opt, map_tok_elem_lines, flat_map_snd_conts.
  destruct (f_cont f) as [|c0 cs] eqn:Ec.
  - cbn [flat_map map app]. rewrite !app_nil_r. rewrite app_assoc, strip_trailing_nl.
    destruct (f_first f) as [|a first'] eqn:Ef.
    + rewrite field_ws0_empty by assumption. cbn [opt_elem app]. rewrite !app_nil_r. apply strip_trailing_opt_ws.
    + rewrite field_ws0_first by (rewrite Ef; discriminate). cbn [opt_elem]. apply strip_trailing_snoc_keep. reflexivity.
  - rewrite field_ws0_conts by (rewrite Ec; discriminate).
    assert (Hne : map snd (c0 :: cs) <> []) by discriminate.
    destruct (exists_last Hne) as (ls & l & E). rewrite E.
    rewrite flat_map_app. cbn [flat_map app].
    rewrite !app_assoc. rewrite strip_trailing_nl.
    match goal with |- strip_trailing (?a ++ [?x; ?y]) = _ => change (a ++ [x; y]) with (a ++ ([x] ++ [y])); rewrite (app_assoc a [x] [y]) end.
    rewrite strip_trailing_snoc_keep by reflexivity. rewrite <- !app_assoc. reflexivity.
Qed.

Lemma res_map_into_token toks : res_map into_token (map tok_elem toks) = Ok toks.
Proof.
  induction toks as [|[k s] r IH]; [reflexivity|]. cbn [map res_map tok_elem into_token fst snd bind]. rewrite IH. reflexivity.
Qed.

(* ---- rebuild_value on the tokens of a value ---- *)
Definition line_toks (ls : list str) : list token := flat_map (fun t => [(NEWLINE, [LF]); (VALUE, t)]) ls.

Lemma fll_triple w first conts kl :
  first_line_len (triple_toks w first conts) kl = (utf8_size w + utf8_size first + kl + 2)%N.
Proof.
  unfold first_line_len, triple_toks.
  assert (E : forall rest, take_while (fun t : token => negb (is_nl_tok t)) (opt_tok WHITESPACE w ++ opt_tok VALUE first ++ line_toks rest)
                         = opt_tok WHITESPACE w ++ opt_tok VALUE first).
  { intros rest. destruct w as [|a w]; destruct first as [|b first]; destruct rest as [|t rest]; reflexivity. }
  fold (line_toks conts). rewrite E.
  destruct w as [|a w]; destruct first as [|b first]; cbn [opt_tok app fold_right snd utf8_size]; lia.
Qed.

Lemma has_newline_triple w first conts : has_newline (triple_toks w first conts) = negb (is_nil conts).
Proof.
  unfold has_newline, triple_toks. rewrite !existsb_app.
  replace (existsb is_nl_tok (opt_tok WHITESPACE w)) with false by (destruct w; reflexivity).
  replace (existsb is_nl_tok (opt_tok VALUE first)) with false by (destruct first; reflexivity).
  destruct conts; reflexivity.
Qed.

Lemma drop_triple w first conts : forallb nonempty_line conts = true ->
  drop_while is_nl_or_ws_tok (triple_toks w first conts) =
  match value_lines first conts with [] => [] | l1 :: rest => (VALUE, l1) :: line_toks rest end.
Proof.
  intros H. unfold triple_toks, value_lines.
  destruct first as [|b first].
  - destruct conts as [|t rest].
    + destruct w; reflexivity.
    + cbn [forallb] in H. apply andb_true_iff in H. destruct H as [Ht _].
      destruct t as [|x t]; [discriminate|]. destruct w; reflexivity.
  - destruct w; reflexivity.
Qed.

Lemma emit_line_toks n rest :
  emit_indented n false (line_toks rest) =
  (flat_map (fun t => [Tok NEWLINE [LF]; Tok INDENT (spaces n); Tok VALUE t]) rest, false).
Proof.
  induction rest as [|t r IH]; [reflexivity|].
  unfold line_toks in *. cbn [flat_map app emit_indented is_nl_tok fst kind_eqb kind_code N.eqb Pos.eqb tok_elem snd].
  rewrite IH. reflexivity.
Qed.

Lemma emit_lines n (lwn : bool) l1 rest :
  emit_indented n lwn ((VALUE, l1) :: line_toks rest) =
  ((if lwn then [Tok INDENT (spaces n)] else []) ++ Tok VALUE l1 ::
   flat_map (fun t => [Tok NEWLINE [LF]; Tok INDENT (spaces n); Tok VALUE t]) rest, false).
Proof.
  cbn [emit_indented is_nl_tok fst kind_eqb kind_code N.eqb Pos.eqb tok_elem snd]. rewrite emit_line_toks. reflexivity.
Qed.

Lemma cont_elems_indent n ls :
  flat_map cont_elems (indent_lines n ls) = flat_map (fun t => [Tok NEWLINE [LF]; Tok INDENT (spaces n); Tok VALUE t]) ls.
Proof. induction ls as [|t r IH]; [reflexivity|]. unfold indent_lines in *. cbn [map flat_map cont_elems app fst snd]. rewrite IH. reflexivity. Qed.

Lemma value_lines_head_nonempty first conts l1 rest :
  forallb nonempty_line conts = true -> value_lines first conts = l1 :: rest -> l1 <> [].
Proof.
  unfold value_lines. destruct first as [|b first].
  - intros H E. subst conts. cbn [forallb] in H. apply andb_true_iff in H. destruct H as [H _].
    destruct l1; [discriminate|discriminate].
  - intros _ E. injection E as <- _. discriminate.
Qed.

Theorem rebuild_triple c name w first conts : forallb nonempty_line conts = true ->
  [Tok KEY name; Tok COLON [58%N]]
    ++ rebuild_value fixed (triple_toks w first conts) (utf8_size name) (width c name) (c_iel c) (c_mll c)
  = children (field_tree (rebuild_field c name w first conts)).
Proof.
  intros Hne. unfold rebuild_value, rebuild_field. rewrite fll_triple, has_newline_triple, negb_involutive.
  fold (fits c name w first).
  destruct (fits c name w first && is_nil conts) eqn:Efit.
  - apply andb_true_iff in Efit. destruct Efit as [_ En]. destruct conts; [|discriminate].
    unfold triple_toks, field_tree. cbn [flat_map app children f_name f_ws f_first f_cont f_nl nl_elem].
    rewrite !app_nil_r, map_app, !map_tok_elem_opt, <- app_assoc. reflexivity.
  - rewrite (drop_triple w first conts Hne).
    destruct (value_lines first conts) as [|l1 rest] eqn:El.
    + assert (En : conts = []) by (unfold value_lines in El; destruct first; [exact El|discriminate]).
      subst conts. unfold keep_first, comment_first. cbn [v_hash fixed is_nil negb andb orb emit_indented app].
      rewrite andb_false_r. cbn [orb app]. reflexivity.
    + unfold keep_first, comment_first. cbn [v_hash fixed andb]. rewrite orb_false_r.
      pose proof (value_lines_head_nonempty first conts l1 rest Hne El) as Hl1.
      destruct (c_iel c && negb (is_nil conts) && negb (starts_with_hash l1)) eqn:Ed.
      * rewrite emit_lines. unfold field_tree. cbn [children f_name f_ws f_first f_cont f_nl nl_elem opt_elem app].
        rewrite cont_elems_indent. cbn [flat_map app]. repeat rewrite <- app_assoc. reflexivity.
      * rewrite emit_lines. unfold field_tree. cbn [children f_name f_ws f_first f_cont f_nl nl_elem opt_elem app].
        rewrite cont_elems_indent. destruct l1; [contradiction|]. cbn [opt_elem app]. repeat rewrite <- app_assoc. reflexivity.
Qed.

(* ---- Entry::wrap_and_sort ---- *)

Definition conts_nonempty (f : field) : bool := forallb (fun ct => nonempty_line (snd ct)) (f_cont f).
Lemma conts_nonempty_map f : conts_nonempty f = true -> forallb nonempty_line (map snd (f_cont f)) = true.
Proof. unfold conts_nonempty. induction (f_cont f) as [|x r IH]; [reflexivity|]. cbn [forallb map]. intros H. apply andb_true_iff in H. destruct H as [H1 H2]. rewrite H1, (IH H2). reflexivity. Qed.


Lemma utf8_len_pos c : (1 <= utf8_len c)%N.
Proof. unfold utf8_len. destruct (c <? 128)%N; [lia|]. destruct (c <? 2048)%N; [lia|]. destruct (c <? 65536)%N; lia. Qed.
Lemma utf8_size_pos s : s <> [] -> (utf8_size s =? 0)%N = false.
Proof.
  destruct s as [|c r]; [congruence|]. intros _. cbn [utf8_size fold_right].
  pose proof (utf8_len_pos c). apply N.eqb_neq. lia.
Qed.

Lemma token_text_triple w first conts :
  flat_map token_text (map tok_elem (triple_toks w first conts)) = value_text w first conts.
Proof.
  unfold triple_toks, value_text. rewrite !map_app, !flat_map_app, !map_tok_elem_opt.
  replace (flat_map token_text (opt_elem WHITESPACE w)) with w by (destruct w; cbn; rewrite ?app_nil_r; reflexivity).
  replace (flat_map token_text (opt_elem VALUE first)) with first by (destruct first; cbn; rewrite ?app_nil_r; reflexivity).
  f_equal. f_equal. induction conts as [|t r IH]; [reflexivity|].
  cbn [flat_map map app tok_elem fst snd token_text]. rewrite IH. reflexivity.
Qed.

Lemma no_err_comment_triple w first conts :
  existsb is_err_or_comment (map tok_elem (triple_toks w first conts)) = false.
Proof.
  unfold triple_toks. rewrite !map_app, !existsb_app, !map_tok_elem_opt.
  replace (existsb is_err_or_comment (opt_elem WHITESPACE w)) with false by (destruct w; reflexivity).
  replace (existsb is_err_or_comment (opt_elem VALUE first)) with false by (destruct first; reflexivity).
  cbn [orb]. induction conts as [|t r IH]; [reflexivity|]. cbn [flat_map map app existsb]. exact IH.
Qed.

Theorem entry_ws_field c fmt f :
  ind_ok c = true -> f_name f <> [] -> conts_nonempty f = true -> fmt_lexes fmt f ->
  entry_ws fixed (c_ind c) (c_iel c) (c_mll c) (option_map pure_fmt fmt) (field_tree f)
  = Ok (field_tree (a_ws_field c fmt f)).
Proof.
  intros Hind Hname Hne Hfmt. unfold entry_ws. rewrite ews_scan_field. cbn [bind].
  assert (En : (match (match c_ind c with FieldNameLength => Spaces (utf8_size (f_name f)) | Spaces n => Spaces n end) with
               | Spaces i => i | FieldNameLength => 1%N end) = width c (f_name f)).
  { unfold width. destruct (c_ind c); reflexivity. }
  replace (match c_ind c with FieldNameLength => Spaces (utf8_size (f_name f)) | Spaces _ => c_ind c end)
    with (match c_ind c with FieldNameLength => Spaces (utf8_size (f_name f)) | Spaces n => Spaces n end)
    by (destruct (c_ind c); reflexivity).
  rewrite En.
  assert (Hw : (width c (f_name f) =? 0)%N = false).
  { unfold width, ind_ok in *. destruct (c_ind c); [apply utf8_size_pos; exact Hname|apply negb_true_iff; exact Hind]. }
  rewrite Hw, strip_trailing_field, entry_key_field.
  destruct fmt as [g|].
  - cbn [option_map entry_tokens]. rewrite no_err_comment_triple, token_text_triple, entry_key_field.
    unfold pure_fmt. cbn [bind]. cbn [fmt_lexes] in Hfmt. cbv zeta in Hfmt.
    unfold a_ws_field.
    destruct (parse_value (g (f_name f) (value_text (field_ws0 f) (f_first f) (map snd (f_cont f))))) as [[w first] conts].
    destruct Hfmt as [Hl Hn]. rewrite Hl. cbn [bind].
    f_equal. unfold field_tree at 1. f_equal.
    rewrite (rebuild_triple c (f_name f) w first conts Hn). reflexivity.
  - cbn [option_map entry_tokens]. rewrite res_map_into_token. cbn [bind]. unfold a_ws_field.
    f_equal.
    rewrite (rebuild_triple c (f_name f) (field_ws0 f) (f_first f) (map snd (f_cont f)) (conts_nonempty_map f Hne)).
    destruct (rebuild_field c (f_name f) (field_ws0 f) (f_first f) (map snd (f_cont f))); reflexivity.
Qed.

(* ---------------------------------------------------------------- Paragraph::wrap_and_sort on items *)
Definition pre_elems (cs : list comment) : list tree := flat_map (fun c => comment_elems (fst c) (snd c)) cs.
Definition group_tree (g : list comment * field) : list tree * tree := (pre_elems (fst g), field_tree (snd g)).

Lemma pre_elems_app a b : pre_elems (a ++ b) = pre_elems a ++ pre_elems b.
Proof. unfold pre_elems. apply flat_map_app. Qed.

Lemma pws_scan_items its : forall cur acc,
  pws_scan fixed (flat_map item_elems its) (pre_elems cur) acc =
  Ok (acc ++ map group_tree (fst (group_items its cur)), pre_elems (snd (group_items its cur))).
Proof.
  induction its as [|it r IH]; intros cur acc.
  - cbn [flat_map pws_scan group_items fst snd map]. rewrite app_nil_r. reflexivity.
  - destruct it as [f|c nl].
    + cbn [flat_map item_elems app]. unfold field_tree at 1. cbn [pws_scan ekind is_node].
      change (@nil tree) with (pre_elems []). rewrite IH.
      cbn [group_items]. destruct (group_items r []) as [gs tr]. cbn [fst snd map].
      rewrite <- app_assoc. reflexivity.
    + cbn [flat_map item_elems comment_elems app pws_scan ekind].
      cbn [group_items].
      destruct nl; cbn [nl_elem app pws_scan ekind v_para_nl fixed].
      * rewrite <- app_assoc. cbn [app].
        replace (pre_elems cur ++ [Tok COMMENT (35%N :: c); Tok NEWLINE [LF]]) with (pre_elems (cur ++ [(c, true)]))
          by (rewrite pre_elems_app; unfold pre_elems at 2; cbn [flat_map fst snd comment_elems nl_elem app]; reflexivity).
        apply IH.
      * replace (pre_elems cur ++ [Tok COMMENT (35%N :: c)]) with (pre_elems (cur ++ [(c, false)]))
          by (rewrite pre_elems_app; unfold pre_elems at 2; cbn [flat_map fst snd comment_elems nl_elem app]; reflexivity).
        apply IH.
Qed.

Lemma group_items_In its : forall cur g, In g (fst (group_items its cur)) -> In (IField (snd g)) its.
Proof.
  induction its as [|it r IH]; intros cur g H; [contradiction|].
  destruct it as [f|c nl]; cbn [group_items] in H.
  - destruct (group_items r []) as [gs tr] eqn:E. cbn [fst] in H. destruct H as [<-|H]; [left; reflexivity|].
    right. apply (IH [] g). rewrite E. exact H.
  - right. apply (IH _ g H).
Qed.

Lemma res_map_emit_pre cs : res_map emit_token (pre_elems cs) = Ok (pre_elems cs).
Proof.
  apply res_map_id. intros x Hx. unfold pre_elems in Hx. apply in_flat_map in Hx. destruct Hx as (c & _ & Hx).
  unfold comment_elems in Hx. destruct Hx as [<-|Hx]; [reflexivity|]. destruct (snd c); [|contradiction].
  destruct Hx as [<-|[]]. reflexivity.
Qed.

Lemma item_elems_comments cs : flat_map item_elems (map comment_item cs) = pre_elems cs.
Proof.
  unfold pre_elems. induction cs as [|x l IHl]; [reflexivity|].
  cbn [map flat_map comment_item item_elems]. rewrite IHl. reflexivity.
Qed.

Lemma item_elems_ungroup gs tr :
  flat_map item_elems (ungroup gs tr) =
  concat (map (fun g => pre_elems (fst g) ++ [field_tree (snd g)]) gs) ++ pre_elems tr.
Proof.
  unfold ungroup. rewrite flat_map_app, item_elems_comments. f_equal.
  induction gs as [|g r IH]; [reflexivity|]. cbn [flat_map map concat]. rewrite flat_map_app, IH.
  rewrite flat_map_app, item_elems_comments. reflexivity.
Qed.

Definition field_ok (fmt : option (str -> str -> str)) (f : field) : Prop :=
  f_name f <> [] /\ conts_nonempty f = true /\ fmt_lexes fmt f.
Definition items_ok (fmt : option (str -> str -> str)) (its : list item) : Prop :=
  forall f, In (IField f) its -> field_ok fmt f.

Theorem para_ws_items c esort ecmp fmt its :
  ind_ok c = true -> ecmp_agrees esort ecmp -> items_ok fmt its ->
  para_ws fixed (c_ind c) (c_iel c) (c_mll c) esort (option_map pure_fmt fmt) (Node PARAGRAPH (flat_map item_elems its))
  = Ok (Node PARAGRAPH (flat_map item_elems (a_ws_items c ecmp fmt its))).
Proof.
  intros Hind Hcmp Hok. unfold para_ws. cbn [children].
  change (@nil tree) with (pre_elems []) at 1. rewrite pws_scan_items. cbn [bind app].
  unfold a_ws_items. pose proof (group_items_In its []) as HIn.
  destruct (group_items its []) as [gs tr]. cbn [fst snd] in *.
  assert (Es : sort_opt (option_map on_snd esort) (map group_tree gs) = map group_tree (sort_opt (option_map on_field ecmp) gs)).
  { apply sort_opt_map. unfold ecmp_agrees in Hcmp. destruct esort as [a|], ecmp as [b|]; cbn [option_map]; try contradiction; [|exact I].
    intros x y. unfold on_snd, on_field, group_tree. cbn [snd]. apply Hcmp. }
  rewrite Es. set (sorted := sort_opt (option_map on_field ecmp) gs).
  assert (Hs : forall g, In g sorted -> field_ok fmt (snd g)).
  { intros g Hg. apply Hok. apply HIn. apply (sort_opt_In _ _ _ Hg). }
  rewrite (res_map_ok_map _ group_tree (fun g => pre_elems (fst g) ++ [field_tree (a_ws_field c fmt (snd g))])).
  - cbn [bind]. rewrite res_map_emit_pre. cbn [bind]. f_equal. f_equal.
    rewrite item_elems_ungroup, !map_map. cbn [fst snd]. reflexivity.
  - intros g Hg. unfold group_tree. cbn [fst snd].
    rewrite res_map_emit_pre. cbn [bind]. destruct (Hs g Hg) as (Hn & Hc & Hf).
    rewrite (entry_ws_field c fmt (snd g) Hind Hn Hc Hf). reflexivity.
Qed.

(* ---------------------------------------------------------------- Deb822::wrap_and_sort on blocks *)
Definition comment_node (c : comment) : tree := lblock_tree (comment_block c).
Definition dgroup_tree (g : list comment * list item) : list tree * tree :=
  (map comment_node (fst g), lblock_tree (LPara (snd g))).

Lemma dws_scan_blocks l : forall cur acc,
  dws_scan fixed (map lblock_tree l) (map comment_node cur) acc =
  Ok (acc ++ map dgroup_tree (fst (group_blocks l cur)), map comment_node (snd (group_blocks l cur))).
Proof.
  induction l as [|b r IH]; intros cur acc.
  - cbn [map dws_scan group_blocks fst snd]. rewrite app_nil_r. reflexivity.
  - destruct b as [|c nl|its]; cbn [map lblock_tree dws_scan ekind is_node v_doc_lines fixed group_blocks].
    + cbn [children existsb is_blank_kind ekind negb orb]. apply IH.
    + cbn [children comment_elems existsb is_blank_kind ekind negb orb].
      replace (map comment_node cur ++ [Node EMPTY_LINE (comment_elems c nl)])
        with (map comment_node (cur ++ [(c, nl)])) by (rewrite map_app; reflexivity).
      apply IH.
    + change (@nil tree) with (map comment_node []). rewrite IH.
      destruct (group_blocks r []) as [gs tr]. cbn [fst snd map]. rewrite <- app_assoc. reflexivity.
Qed.

Lemma group_blocks_In l : forall cur g, In g (fst (group_blocks l cur)) -> In (LPara (snd g)) l.
Proof.
  induction l as [|b r IH]; intros cur g H; [contradiction|].
  destruct b as [|c nl|its]; cbn [group_blocks] in H.
  - right. apply (IH _ g H).
  - right. apply (IH _ g H).
  - destruct (group_blocks r []) as [gs tr] eqn:E. cbn [fst] in H. destruct H as [<-|H]; [left; reflexivity|].
    right. apply (IH [] g). rewrite E. exact H.
Qed.

(* the caller's paragraph function does on the tree what [pf] does on the items *)
Definition pfun_agrees (pfun : option (tree -> res tree)) (pf : list item -> list item) (its : list item) : Prop :=
  match pfun with
  | Some f => f (lblock_tree (LPara its)) = Ok (lblock_tree (LPara (pf its)))
  | None => pf its = its
  end.

Lemma ensure_nl_para its : ensure_nl (lblock_tree (LPara its)) = lblock_tree (LPara (terminate_last its)).
Proof.
  cbn [lblock_tree]. rewrite <- ensure_nl_items. reflexivity.
Qed.

Lemma dws_emit_blocks pfun pf gs : forall first,
  (forall g, In g gs -> pfun_agrees pfun pf (snd g)) ->
  dws_emit fixed pfun first (map dgroup_tree gs) =
  Ok (map lblock_tree (emit_blocks first (map (fun g => (fst g, terminate_last (pf (snd g)))) gs))).
Proof.
  induction gs as [|g r IH]; intros first H; [reflexivity|].
  cbn [map dws_emit dgroup_tree fst snd].
  change (dgroup_tree g) with (map comment_node (fst g), lblock_tree (LPara (snd g))).
  rewrite (res_map_id (emit_current fixed)) by (intros x _; reflexivity). cbn [bind].
  pose proof (H g (or_introl eq_refl)) as Hg. unfold pfun_agrees in Hg.
  assert (Ep : match pfun with Some f => f (lblock_tree (LPara (snd g))) | None => Ok (lblock_tree (LPara (snd g))) end
               = Ok (lblock_tree (LPara (pf (snd g))))).
  { destruct pfun; [exact Hg|rewrite Hg; reflexivity]. }
  rewrite Ep. cbn [bind v_terminate fixed]. rewrite ensure_nl_para.
  rewrite (IH false) by (intros y Hy; apply H; right; exact Hy). cbn [bind emit_blocks fst snd].
  f_equal. rewrite !map_app. cbn [map]. f_equal.
  - destruct first; reflexivity.
  - f_equal. rewrite map_map. reflexivity.
Qed.

Theorem doc_ws_blocks psort pcmp pfun pf l :
  pcmp_agrees psort pcmp -> (forall its, In (LPara its) l -> pfun_agrees pfun pf its) ->
  doc_ws fixed psort pfun (ltree_of l) = Ok (ltree_of (a_ws_doc pcmp pf l)).
Proof.
  intros Hcmp Hpf. unfold doc_ws, ltree_of. cbn [children].
  change (@nil tree) with (map comment_node []) at 1. rewrite dws_scan_blocks. cbn [bind app].
  unfold a_ws_doc. pose proof (group_blocks_In l []) as HIn.
  destruct (group_blocks l []) as [gs tr]. cbn [fst snd] in *.
  assert (Es : sort_opt (option_map on_snd psort) (map dgroup_tree gs) = map dgroup_tree (sort_opt (option_map on_para pcmp) gs)).
  { apply sort_opt_map. unfold pcmp_agrees in Hcmp. destruct psort as [a|], pcmp as [b|]; cbn [option_map]; try contradiction; [|exact I].
    intros x y. unfold on_snd, on_para, dgroup_tree. cbn [snd]. apply Hcmp. }
  rewrite Es. set (sorted := sort_opt (option_map on_para pcmp) gs).
  rewrite (dws_emit_blocks pfun pf sorted true).
  - cbn [bind]. rewrite (res_map_id (emit_current fixed)) by (intros x _; reflexivity). cbn [bind v_terminate fixed].
    f_equal. change (ensure_nl (Node ROOT ?cs)) with (Node ROOT (ensure_nl_list cs)).
    f_equal. rewrite <- ensure_nl_root. f_equal. rewrite map_app, map_map. reflexivity.
  - intros g Hg. apply Hpf. apply HIn. apply (sort_opt_In _ _ _ Hg).
Qed.

(* ---------------------------------------------------------------- content *)
Lemma field_value_lines f : field_value f = join [LF] (value_lines (f_first f) (map snd (f_cont f))).
Proof. unfold field_value, value_lines. destruct (f_first f); reflexivity. Qed.

Lemma map_snd_indent n ls : map snd (indent_lines n ls) = ls.
Proof. unfold indent_lines. rewrite map_map. cbn [snd]. apply map_id. Qed.

Lemma rebuild_field_name c name w first conts : f_name (rebuild_field c name w first conts) = name.
Proof.
  unfold rebuild_field. destruct (fits c name w first && is_nil conts); [reflexivity|].
  destruct (value_lines first conts); [reflexivity|].
  destruct (c_iel c && negb (is_nil conts) && negb (starts_with_hash l)); reflexivity.
Qed.

Lemma rebuild_field_value c name w first conts : forallb nonempty_line conts = true ->
  field_value (rebuild_field c name w first conts) = join [LF] (value_lines first conts).
Proof.
  intros Hne. unfold rebuild_field. destruct (fits c name w first && is_nil conts) eqn:Ef.
  - apply andb_true_iff in Ef. destruct Ef as [_ En]. destruct conts; [|discriminate].
    rewrite field_value_lines. reflexivity.
  - destruct (value_lines first conts) as [|l1 rest] eqn:El; [reflexivity|].
    pose proof (value_lines_head_nonempty first conts l1 rest Hne El) as Hl1.
    destruct (c_iel c && negb (is_nil conts) && negb (starts_with_hash l1)).
    + rewrite field_value_lines. cbn [f_first f_cont]. rewrite map_snd_indent. reflexivity.
    + rewrite field_value_lines. cbn [f_first f_cont]. rewrite map_snd_indent. unfold value_lines.
      destruct l1; [contradiction|reflexivity].
Qed.

Theorem a_ws_field_pair c fmt f : conts_nonempty f = true -> fmt_lexes fmt f ->
  field_pair (a_ws_field c fmt f) = a_pair fmt f.
Proof.
  intros Hne Hf. unfold field_pair, a_pair, a_ws_field, a_value. destruct fmt as [g|].
  - cbn [fmt_lexes] in Hf. cbv zeta in Hf.
    destruct (parse_value (g (f_name f) (value_text (field_ws0 f) (f_first f) (map snd (f_cont f))))) as [[w first] conts].
    destruct Hf as [_ Hn]. rewrite rebuild_field_name, (rebuild_field_value _ _ _ _ _ Hn). reflexivity.
  - rewrite rebuild_field_name, (rebuild_field_value _ _ _ _ _ (conts_nonempty_map f Hne)), <- field_value_lines. reflexivity.
Qed.

Lemma group_items_fields its : forall cur, map snd (fst (group_items its cur)) = fields_of its.
Proof.
  induction its as [|it r IH]; intros cur; [reflexivity|]. destruct it as [f|c nl]; cbn [group_items fields_of flat_map].
  - specialize (IH []). destruct (group_items r []) as [gs tr]. cbn [fst map snd app] in *. rewrite IH. reflexivity.
  - apply IH.
Qed.

Lemma item_pairs_ungroup gs tr : flat_map item_pairs (ungroup gs tr) = map (fun g => field_pair (snd g)) gs.
Proof.
  unfold ungroup. rewrite flat_map_app.
  replace (flat_map item_pairs (map comment_item tr)) with (@nil (str * str))
    by (induction tr as [|x l IHl]; [reflexivity|exact IHl]).
  rewrite app_nil_r. induction gs as [|g r IH]; [reflexivity|]. cbn [flat_map map]. rewrite flat_map_app, IH.
  replace (flat_map item_pairs (map comment_item (fst g) ++ [IField (snd g)])) with [field_pair (snd g)]; [reflexivity|].
  rewrite flat_map_app. cbn [flat_map item_pairs app].
  induction (fst g) as [|x l IHl]; [reflexivity|exact IHl].
Qed.

Lemma sort_groups_fields ecmp (gs : list (list comment * field)) :
  map snd (sort_opt (option_map on_field ecmp) gs) = sort_opt (option_map on_pair ecmp) (map snd gs).
Proof.
  symmetry. apply sort_opt_map. destruct ecmp as [b|]; cbn [option_map]; [|exact I]. intros x y. reflexivity.
Qed.

Theorem a_ws_items_pairs c ecmp fmt its : items_ok fmt its ->
  flat_map item_pairs (a_ws_items c ecmp fmt its) = spec_para ecmp fmt its.
Proof.
  intros Hok. unfold a_ws_items, spec_para. pose proof (group_items_In its []) as HIn.
  pose proof (group_items_fields its []) as Hf.
  destruct (group_items its []) as [gs tr]. cbn [fst snd] in *.
  rewrite item_pairs_ungroup, map_map. cbn [snd]. rewrite <- Hf, <- sort_groups_fields, map_map.
  apply map_ext_in. intros g Hg. destruct (Hok (snd g) (HIn g (sort_opt_In _ _ _ Hg))) as (_ & Hc & Hl).
  apply a_ws_field_pair; assumption.
Qed.

(* without a formatter the new content is a function of the old content alone *)
Lemma spec_para_nofmt ecmp its : spec_para ecmp None its = sort_opt ecmp (flat_map item_pairs its).
Proof.
  unfold spec_para. replace (flat_map item_pairs its) with (map field_pair (fields_of its)).
  - symmetry. apply sort_opt_map. destruct ecmp; cbn [option_map]; [|exact I]. intros x y. reflexivity.
  - induction its as [|it r IH]; [reflexivity|]. destruct it; cbn [fields_of flat_map item_pairs app map]; [f_equal|]; exact IH.
Qed.


Lemma group_blocks_paras l : forall cur, map snd (fst (group_blocks l cur)) = paras_of l.
Proof.
  induction l as [|b r IH]; intros cur; [reflexivity|]. destruct b as [|c nl|its]; cbn [group_blocks paras_of flat_map app].
  - apply IH.
  - apply IH.
  - specialize (IH []). destruct (group_blocks r []) as [gs tr]. cbn [fst map snd] in *. rewrite IH. reflexivity.
Qed.

Lemma lcontent_comments cs : lcontent (map comment_block cs) = [].
Proof. induction cs as [|x l IH]; [reflexivity|exact IH]. Qed.

Lemma lcontent_emit_blocks gs : forall first, lcontent (emit_blocks first gs) = map (fun g => flat_map item_pairs (snd g)) gs.
Proof.
  induction gs as [|g r IH]; intros first; [reflexivity|]. cbn [emit_blocks map].
  rewrite !lcontent_app, lcontent_comments. replace (lcontent (if first then [] else [LBlank])) with (@nil (list (str * str))) by (destruct first; reflexivity).
  cbn [app]. change (LPara (snd g) :: emit_blocks false r) with ([LPara (snd g)] ++ emit_blocks false r).
  rewrite lcontent_app, IH. reflexivity.
Qed.

Theorem a_ws_doc_content pcmp pf l :
  lcontent (a_ws_doc pcmp pf l) =
  map (fun its => flat_map item_pairs (pf its)) (sort_opt (option_map on_items pcmp) (paras_of l)).
Proof.
  unfold a_ws_doc. pose proof (group_blocks_paras l []) as Hp.
  destruct (group_blocks l []) as [gs tr]. cbn [fst] in Hp.
  rewrite lcontent_terminate_doc, lcontent_app, lcontent_comments, app_nil_r, lcontent_emit_blocks, map_map. cbn [snd].
  rewrite <- Hp.
  assert (E : sort_opt (option_map on_items pcmp) (map snd gs) = map snd (sort_opt (option_map on_para pcmp) gs)).
  { apply sort_opt_map. destruct pcmp; cbn [option_map]; [|exact I]. intros x y. reflexivity. }
  rewrite E, map_map. apply map_ext. intros g. apply pairs_terminate_last.
Qed.

(* ---------------------------------------------------------------- well-formedness of the result *)
Lemma cont_ok_canon i t : cont_ok (i, t) = (match i with [] => false | _ => ws_ok i end) && canon_cont t.
Proof. unfold cont_ok, canon_cont. rewrite andb_assoc. reflexivity. Qed.

Lemma spaces_ok n : (n =? 0)%N = false -> cont_ok (spaces n, []) = false /\ forall t, cont_ok (spaces n, t) = canon_cont t.
Proof.
  intros Hn. assert (E : (match spaces n with [] => false | _ => ws_ok (spaces n) end) = true).
  { unfold spaces. apply N.eqb_neq in Hn. destruct (N.to_nat n) as [|k] eqn:Ek; [lia|].
    cbn [repeat]. unfold ws_ok. cbn [forallb]. apply andb_true_iff. split; [reflexivity|].
    clear. induction k as [|k IH]; [reflexivity|]. cbn [repeat forallb]. rewrite IH. reflexivity. }
  split; [rewrite cont_ok_canon, E; reflexivity|]. intros t. rewrite cont_ok_canon, E. reflexivity.
Qed.

Lemma forallb_cont_ok_indent n ls : (n =? 0)%N = false ->
  forallb cont_ok (indent_lines n ls) = forallb canon_cont ls.
Proof.
  intros Hn. unfold indent_lines. induction ls as [|t r IH]; [reflexivity|]. cbn [map forallb].
  rewrite IH. f_equal. apply (spaces_ok n Hn).
Qed.

Lemma canon_cont_first_ok t : canon_cont t = true -> first_ok t = true.
Proof.
  unfold canon_cont, first_ok. intros H. apply andb_true_iff in H. destruct H as [H1 H2]. rewrite H1. cbn [andb].
  destruct t; [discriminate|]. apply andb_true_iff in H2. destruct H2 as [H2 _]. exact H2.
Qed.

Lemma canon_cont_nonempty ls : forallb canon_cont ls = true -> forallb nonempty_line ls = true.
Proof.
  induction ls as [|t r IH]; [reflexivity|]. cbn [forallb]. intros H. apply andb_true_iff in H. destruct H as [Ht Hr].
  rewrite (IH Hr), andb_true_r. unfold canon_cont in Ht. apply andb_true_iff in Ht. destruct Ht as [_ Ht]. destruct t; [discriminate|reflexivity].
Qed.

Lemma width_nonzero c name : ind_ok c = true -> valid_name name = true -> (width c name =? 0)%N = false.
Proof.
  intros Hi Hn. unfold width, ind_ok in *. destruct (c_ind c); [|apply negb_true_iff; exact Hi].
  apply utf8_size_pos. destruct name; [discriminate|discriminate].
Qed.

Theorem wf_rebuild_field c name w first conts more :
  ind_ok c = true -> valid_name name = true -> ws_ok w = true -> first_ok first = true ->
  forallb canon_cont conts = true ->
  wf_field (rebuild_field c name w first conts) more = true.
Proof.
  intros Hi Hn Hw Hf Hc. pose proof (width_nonzero c name Hi Hn) as Hwd.
  unfold rebuild_field. destruct (fits c name w first && is_nil conts) eqn:Ef.
  - apply andb_true_iff in Ef. destruct Ef as [_ En]. destruct conts; [|discriminate].
    unfold wf_field. cbn [f_name f_ws f_first f_cont f_nl forallb]. rewrite Hn, Hw, Hf. reflexivity.
  - destruct (value_lines first conts) as [|l1 rest] eqn:El.
    + unfold wf_field. cbn [f_name f_ws f_first f_cont f_nl forallb]. rewrite Hn. reflexivity.
    + assert (Hl : first_ok l1 = true /\ forallb canon_cont rest = true /\ (starts_with_hash l1 = false -> canon_cont l1 = true)).
      { unfold value_lines in El. destruct first as [|b first'].
        - subst conts. cbn [forallb] in Hc. apply andb_true_iff in Hc. destruct Hc as [H1 H2].
          split; [apply canon_cont_first_ok; exact H1|]. split; [exact H2|intros _; exact H1].
        - injection El as <- <-. split; [exact Hf|]. split; [exact Hc|].
          intros Hh. unfold first_ok in Hf. unfold canon_cont. apply andb_true_iff in Hf. destruct Hf as [H1 H2]. rewrite H1.
          cbn [andb]. rewrite H2. cbn [starts_with_hash] in Hh. rewrite Hh. reflexivity. }
      destruct Hl as (Hl1 & Hrest & Hh).
      destruct (c_iel c && negb (is_nil conts) && negb (starts_with_hash l1)) eqn:Ed.
      * apply andb_true_iff in Ed. destruct Ed as [_ Ed]. apply negb_true_iff in Ed.
        unfold wf_field. cbn [f_name f_ws f_first f_cont f_nl]. rewrite Hn.
        rewrite (forallb_cont_ok_indent _ _ Hwd). cbn [forallb]. rewrite (Hh Ed), Hrest. reflexivity.
      * unfold wf_field. cbn [f_name f_ws f_first f_cont f_nl]. rewrite Hn, Hl1.
        rewrite (forallb_cont_ok_indent _ _ Hwd), Hrest. reflexivity.
Qed.

(* the parts of a well-formed field *)
Lemma wf_field_parts f m : wf_field f m = true ->
  valid_name (f_name f) = true /\ ws_ok (f_ws f) = true /\ first_ok (f_first f) = true /\
  forallb canon_cont (map snd (f_cont f)) = true.
Proof.
  unfold wf_field. intros H. repeat (apply andb_true_iff in H; let X := fresh "W" in destruct H as [H X]).
  repeat split; try assumption.
  clear - W0. induction (f_cont f) as [|[i t] r IH]; [reflexivity|]. cbn [forallb map snd] in *.
  apply andb_true_iff in W0. destruct W0 as [H1 H2]. rewrite (IH H2), andb_true_r.
  rewrite cont_ok_canon in H1. apply andb_true_iff in H1. destruct H1 as [_ H1]. exact H1.
Qed.

Lemma ws_ok_field_ws0 f : ws_ok (f_ws f) = true -> ws_ok (field_ws0 f) = true.
Proof. unfold field_ws0. destruct (f_first f); [destruct (f_cont f); [reflexivity|]|]; intros H; exact H. Qed.

Lemma parse_value_ws_ok o : ws_ok (fst (fst (parse_value o))) = true.
Proof.
  unfold parse_value. destruct (span is_indent o) as [w r] eqn:E.
  pose proof (span_all _ _ _ _ E) as Hw. destruct (split_lf r); exact Hw.
Qed.

Theorem wf_a_ws_field c fmt f m more :
  ind_ok c = true -> wf_field f m = true -> fmt_shaped_on fmt f = true ->
  wf_field (a_ws_field c fmt f) more = true.
Proof.
  intros Hi Hwf Hs. destruct (wf_field_parts f m Hwf) as (Hn & Hw & Hf & Hc).
  unfold a_ws_field. destruct fmt as [g|].
  - cbn [fmt_shaped_on] in Hs. unfold shaped in Hs.
    pose proof (parse_value_ws_ok (g (f_name f) (value_text (field_ws0 f) (f_first f) (map snd (f_cont f))))) as Hpw.
    destruct (parse_value (g (f_name f) (value_text (field_ws0 f) (f_first f) (map snd (f_cont f))))) as [[w first] conts].
    cbn [fst] in Hpw. apply andb_true_iff in Hs. destruct Hs as [Hs _]. apply andb_true_iff in Hs. destruct Hs as [H1 H2].
    apply wf_rebuild_field; assumption.
  - apply wf_rebuild_field; try assumption. apply ws_ok_field_ws0. exact Hw.
Qed.

(* ---- items ---- *)
Lemma wf_items_app_intro a b more : wf_items a true = true -> wf_items b more = true -> wf_items (a ++ b) more = true.
Proof.
  intros Ha Hb. destruct b as [|x b'].
  - rewrite app_nil_r. apply (wf_items_mono a true more Ha). intros _. reflexivity.
  - rewrite wf_items_app by discriminate. rewrite Ha, Hb. reflexivity.
Qed.

Lemma wf_items_app_elim a b more : b <> [] -> wf_items (a ++ b) more = true -> wf_items a true = true /\ wf_items b more = true.
Proof. intros Hb H. rewrite wf_items_app in H by exact Hb. apply andb_true_iff in H. exact H. Qed.

Lemma group_items_wf its : forall cur more, wf_items (map comment_item cur ++ its) more = true ->
  (forall g, In g (fst (group_items its cur)) ->
     wf_items (map comment_item (fst g)) true = true /\ exists m, wf_field (snd g) m = true) /\
  wf_items (map comment_item (snd (group_items its cur))) more = true.
Proof.
  induction its as [|it r IH]; intros cur more H.
  - cbn [group_items fst snd]. rewrite app_nil_r in H. split; [intros g []|exact H].
  - destruct it as [f|c nl]; cbn [group_items].
    + apply wf_items_app_elim in H; [|discriminate]. destruct H as [Hcur Hr].
      rewrite wf_items_cons in Hr. apply andb_true_iff in Hr. destruct Hr as [Hf Hr].
      specialize (IH [] more Hr). destruct (group_items r []) as [gs tr]. cbn [fst snd] in *. destruct IH as [IH1 IH2].
      split; [|exact IH2]. intros g [<-|Hg]; [|apply IH1; exact Hg]. cbn [fst snd]. split; [exact Hcur|eexists; exact Hf].
    + apply IH. rewrite map_app, <- app_assoc. exact H.
Qed.

Lemma wf_items_ungroup gs tr more :
  (forall g, In g gs -> wf_items (map comment_item (fst g)) true = true /\ wf_field (snd g) true = true) ->
  wf_items (map comment_item tr) more = true -> wf_items (ungroup gs tr) more = true.
Proof.
  intros Hg Ht. unfold ungroup. apply wf_items_app_intro; [|exact Ht].
  induction gs as [|g r IH]; [reflexivity|]. cbn [flat_map].
  destruct (Hg g (or_introl eq_refl)) as [H1 H2].
  apply wf_items_app_intro; [|apply IH; intros y Hy; apply Hg; right; exact Hy].
  apply wf_items_app_intro; [exact H1|]. cbn [wf_items]. rewrite H2. reflexivity.
Qed.


Theorem wf_a_ws_items c ecmp fmt its more :
  ind_ok c = true -> wf_items its more = true -> items_shaped fmt its ->
  wf_items (a_ws_items c ecmp fmt its) more = true.
Proof.
  intros Hi Hwf Hs. unfold a_ws_items.
  pose proof (group_items_wf its [] more Hwf) as Hg. pose proof (group_items_In its []) as HIn.
  destruct (group_items its []) as [gs tr]. cbn [fst snd] in *. destruct Hg as [Hg Ht].
  apply wf_items_ungroup; [|exact Ht].
  intros g' Hg'. apply in_map_iff in Hg'. destruct Hg' as (g & <- & Hin). cbn [fst snd].
  apply sort_opt_In in Hin. destruct (Hg g Hin) as [H1 [m H2]]. split; [exact H1|].
  apply (wf_a_ws_field c fmt (snd g) m true Hi H2). apply Hs. apply HIn. exact Hin.
Qed.

(* ---- blocks: the printed result is a well-formed document ---- *)
Definition ltext (d : ldocl) : str := flat_map (fun b => text (lblock_tree b)) d.
Lemma text_ltree d : text (ltree_of d) = ltext d.
Proof.
  unfold ltree_of, ltext. rewrite text_node. unfold texts. induction d as [|b r IH]; [reflexivity|].
  cbn [map flat_map]. rewrite IH. reflexivity.
Qed.
Lemma ltext_app a b : ltext (a ++ b) = ltext a ++ ltext b.
Proof. apply flat_map_app. Qed.
Lemma ltext_para its : ltext [LPara its] = flat_map item_text its.
Proof. unfold ltext. cbn [flat_map lblock_tree]. rewrite app_nil_r, text_node. apply texts_item_elems. Qed.
Lemma ltext_comments cs : ltext (map comment_block cs) = flat_map item_text (map comment_item cs).
Proof.
  unfold ltext. induction cs as [|c r IH]; [reflexivity|]. cbn [map flat_map comment_block lblock_tree comment_item item_text].
  rewrite IH, text_node, texts_comment_elems. reflexivity.
Qed.

Fixpoint term_comments (cs : list comment) : list comment :=
  match cs with
  | [] => []
  | [c] => [(fst c, true)]
  | c :: r => c :: term_comments r
  end.
Fixpoint merge_last (G : list (list comment * list item)) (cs : list comment) : list (list comment * list item) :=
  match G with
  | [] => []
  | [g] => [(fst g, snd g ++ map comment_item cs)]
  | g :: r => g :: merge_last r cs
  end.

Lemma emit_blocks_cons first g r :
  emit_blocks first (g :: r) = ((if first then [] else [LBlank]) ++ map comment_block (fst g)) ++ [LPara (snd g)] ++ emit_blocks false r.
Proof. cbn [emit_blocks]. rewrite <- app_assoc. reflexivity. Qed.

Lemma ltext_merge G : forall first cs, G <> [] ->
  ltext (emit_blocks first G ++ map comment_block cs) = ltext (emit_blocks first (merge_last G cs)).
Proof.
  induction G as [|g r IH]; intros first cs Hne; [congruence|].
  destruct r as [|g2 r2].
  - cbn [merge_last]. rewrite !emit_blocks_cons. cbn [emit_blocks fst snd]. rewrite !app_nil_r.
    rewrite !ltext_app, !ltext_para, !ltext_comments, flat_map_app, <- !app_assoc. reflexivity.
  - change (merge_last (g :: g2 :: r2) cs) with (g :: merge_last (g2 :: r2) cs).
    rewrite (emit_blocks_cons first g (g2 :: r2)), (emit_blocks_cons first g (merge_last (g2 :: r2) cs)).
    rewrite <- !app_assoc, !ltext_app. rewrite <- ltext_app, (IH false cs ltac:(discriminate)). reflexivity.
Qed.

Lemma pairs_comments cs : flat_map item_pairs (map comment_item cs) = [].
Proof. induction cs as [|c r IH]; [reflexivity|exact IH]. Qed.

Lemma lcontent_merge G : forall first cs, G <> [] ->
  lcontent (emit_blocks first G ++ map comment_block cs) = lcontent (emit_blocks first (merge_last G cs)).
Proof.
  intros first cs Hne. rewrite lcontent_app, lcontent_comments, app_nil_r, !lcontent_emit_blocks.
  clear first. induction G as [|g r IH]; [congruence|]. destruct r as [|g2 r2].
  - cbn [merge_last map snd]. rewrite flat_map_app, pairs_comments, app_nil_r. reflexivity.
  - change (merge_last (g :: g2 :: r2) cs) with (g :: merge_last (g2 :: r2) cs). cbn [map]. f_equal.
    apply IH. discriminate.
Qed.

Lemma terminate_doc_app d1 d2 : d2 <> [] -> terminate_doc (d1 ++ d2) = d1 ++ terminate_doc d2.
Proof.
  intros Hne. induction d1 as [|b r IH]; [reflexivity|]. cbn [app].
  assert (E : r ++ d2 <> []) by (destruct r; [exact Hne|discriminate]).
  destruct (r ++ d2) as [|x y] eqn:Er; [congruence|]. rewrite <- IH. destruct b; reflexivity.
Qed.

Lemma terminate_doc_comments cs : terminate_doc (map comment_block cs) = map comment_block (term_comments cs).
Proof.
  induction cs as [|c r IH]; [reflexivity|]. destruct r as [|c2 r2]; [reflexivity|].
  change (term_comments (c :: c2 :: r2)) with (c :: term_comments (c2 :: r2)). cbn [map] in *. rewrite <- IH. reflexivity.
Qed.

Lemma terminate_last_idem its : terminate_last (terminate_last its) = terminate_last its.
Proof.
  induction its as [|it r IH]; [reflexivity|]. destruct r as [|it2 r2].
  - destruct it; reflexivity.
  - assert (E : terminate_last (it :: it2 :: r2) = it :: terminate_last (it2 :: r2)) by (destruct it; reflexivity).
    rewrite E. destruct (terminate_last (it2 :: r2)) as [|x y] eqn:Et; [destruct it2; destruct r2; discriminate|].
    assert (E2 : terminate_last (it :: x :: y) = it :: terminate_last (x :: y)) by (destruct it; reflexivity).
    rewrite E2, IH. reflexivity.
Qed.

Lemma terminate_doc_emit G : forall first, (forall g, In g G -> terminate_last (snd g) = snd g) ->
  terminate_doc (emit_blocks first G) = emit_blocks first G.
Proof.
  induction G as [|g r IH]; intros first H; [reflexivity|]. rewrite emit_blocks_cons.
  destruct r as [|g2 r2].
  - cbn [emit_blocks]. rewrite app_nil_r, terminate_doc_app by discriminate. cbn [terminate_doc].
    rewrite (H g (or_introl eq_refl)). reflexivity.
  - rewrite terminate_doc_app by discriminate. f_equal. rewrite terminate_doc_app by (cbn [emit_blocks]; discriminate).
    f_equal. apply IH. intros y Hy. apply H. right. exact Hy.
Qed.

Lemma map_term_comments cs : map comment_item (term_comments cs) = terminate_last (map comment_item cs).
Proof.
  induction cs as [|c r IH]; [reflexivity|]. destruct r as [|c2 r2]; [reflexivity|].
  change (term_comments (c :: c2 :: r2)) with (c :: term_comments (c2 :: r2)). cbn [map] in *. rewrite IH. reflexivity.
Qed.

Lemma lwf_comments cs : wf_items (map comment_item cs) false = true -> lwf (map comment_block cs) = true.
Proof.
  induction cs as [|c r IH]; [reflexivity|]. cbn [map]. rewrite wf_items_cons, lwf_cons. intros H.
  apply andb_true_iff in H. destruct H as [H1 H2]. rewrite (IH H2), andb_true_r.
  cbn [comment_block comment_item wf_item] in *. destruct r; exact H1.
Qed.

Lemma lwf_comments_app cs Y : wf_items (map comment_item cs) true = true -> Y <> [] ->
  lwf (map comment_block cs ++ Y) = lwf Y.
Proof.
  intros H HY. induction cs as [|c r IH]; [reflexivity|]. cbn [map app]. rewrite lwf_cons.
  cbn [map] in H. rewrite wf_items_cons in H. apply andb_true_iff in H. destruct H as [H1 H2].
  rewrite (IH H2). cbn [comment_block comment_item wf_item] in *.
  assert (E : wf_comment (fst c) (snd c) (match map comment_block r ++ Y with [] => false | _ => true end) = true).
  { destruct (map comment_block r ++ Y) eqn:Ey.
    - destruct r; [cbn [map app] in Ey; congruence|discriminate].
    - destruct r; exact H1. }
  rewrite E. reflexivity.
Qed.

Definition group_ok (g : list comment * list item) : Prop :=
  wf_items (map comment_item (fst g)) true = true /\ wf_items (snd g) true = true.

Lemma lwf_emit G : forall first, (forall g, In g G -> group_ok g) -> lwf (emit_blocks first G) = true.
Proof.
  induction G as [|g r IH]; intros first H; [reflexivity|].
  destruct (H g (or_introl eq_refl)) as [H1 H2].
  assert (Hr : lwf (emit_blocks false r) = true) by (apply IH; intros y Hy; apply H; right; exact Hy).
  assert (Hp : lwf (map comment_block (fst g) ++ LPara (snd g) :: emit_blocks false r) = true).
  { rewrite (lwf_comments_app _ _ H1) by discriminate. rewrite lwf_cons, Hr, andb_true_r.
    destruct r as [|g2 r2]; cbn [emit_blocks app].
    - rewrite andb_true_r. apply (wf_items_mono _ true false H2). intros; reflexivity.
    - rewrite H2. reflexivity. }
  cbn [emit_blocks]. destruct first; cbn [app]; [exact Hp|]. rewrite lwf_cons. exact Hp.
Qed.

Lemma group_blocks_wf l : forall cur, lwf l = true ->
  wf_items (map comment_item cur) (match l with [] => false | _ => true end) = true ->
  (forall g, In g (fst (group_blocks l cur)) ->
     wf_items (map comment_item (fst g)) true = true /\ exists m, wf_items (snd g) m = true) /\
  wf_items (map comment_item (snd (group_blocks l cur))) false = true.
Proof.
  induction l as [|b r IH]; intros cur Hl Hc.
  - cbn [group_blocks fst snd]. split; [intros g []|exact Hc].
  - rewrite lwf_cons in Hl. apply andb_true_iff in Hl. destruct Hl as [Hb Hr].
    destruct b as [|c nl|its]; cbn [group_blocks].
    + apply IH; [exact Hr|]. apply (wf_items_mono _ true _ Hc). intros; reflexivity.
    + apply IH; [exact Hr|]. rewrite map_app. apply wf_items_app_intro; [exact Hc|].
      cbn [map comment_item fst snd wf_items]. rewrite Hb. reflexivity.
    + apply andb_true_iff in Hb. destruct Hb as [Hi _].
      assert (H0 : wf_items (map comment_item []) (match r with [] => false | _ => true end) = true) by reflexivity.
      specialize (IH [] Hr H0). destruct (group_blocks r []) as [gs tr]. cbn [fst snd] in *. destruct IH as [IH1 IH2].
      split; [|exact IH2]. intros g [<-|Hg]; [|apply IH1; exact Hg]. cbn [fst snd]. split; [exact Hc|eexists; exact Hi].
Qed.

(* the paragraph function keeps paragraphs well-formed *)
Definition pf_keeps_wf (pf : list item -> list item) (l : ldocl) : Prop :=
  forall its m, In (LPara its) l -> wf_items its m = true -> exists m', wf_items (pf its) m' = true.

Theorem a_ws_doc_reread pcmp pf l : lwf l = true -> pf_keeps_wf pf l ->
  exists t', from_str (text (ltree_of (a_ws_doc pcmp pf l))) = Ok t' /\
             doc_items t' = nonempty_paras (lcontent (a_ws_doc pcmp pf l)).
Proof.
  intros Hl Hpf. unfold a_ws_doc.
  pose proof (group_blocks_wf l [] Hl) as Hg. pose proof (group_blocks_In l []) as HIn.
  destruct (group_blocks l []) as [gs tr]. cbn [fst snd] in *.
  assert (H0 : wf_items (map comment_item []) (match l with [] => false | _ => true end) = true) by reflexivity.
  destruct (Hg H0) as [Hgs Htr]. clear Hg H0.
  set (G := map (fun g => (fst g, terminate_last (pf (snd g)))) (sort_opt (option_map on_para pcmp) gs)).
  assert (HG : forall g, In g G -> group_ok g /\ terminate_last (snd g) = snd g).
  { intros g' Hg'. unfold G in Hg'. apply in_map_iff in Hg'. destruct Hg' as (g & <- & Hin). cbn [fst snd].
    apply sort_opt_In in Hin. destruct (Hgs g Hin) as [H1 [m H2]].
    destruct (Hpf (snd g) m (HIn g Hin) H2) as [m' H3].
    split; [split; [exact H1|apply (wf_terminate_last _ _ H3)]|apply terminate_last_idem]. }
  (* the same text as a live document in which the comment lines after the last paragraph belong to it *)
  assert (Hlive : exists R', lwf R' = true /\
            ltext R' = ltext (terminate_doc (emit_blocks true G ++ map comment_block tr)) /\
            lcontent R' = lcontent (terminate_doc (emit_blocks true G ++ map comment_block tr))).
  { destruct tr as [|c0 tr0].
    - cbn [map]. rewrite app_nil_r. exists (emit_blocks true G).
      rewrite terminate_doc_emit by (intros g Hg; apply (HG g Hg)).
      split; [apply lwf_emit; intros g Hg; apply (HG g Hg)|split; reflexivity].
    - rewrite terminate_doc_app by discriminate. rewrite terminate_doc_comments.
      assert (Ht : wf_items (map comment_item (term_comments (c0 :: tr0))) true = true)
        by (rewrite map_term_comments; apply (wf_terminate_last _ _ Htr)).
      destruct G as [|g0 G0] eqn:EG.
      + exists (map comment_block (term_comments (c0 :: tr0))). cbn [emit_blocks app].
        split; [|split; reflexivity]. apply lwf_comments. apply (wf_items_mono _ true false Ht). intros; reflexivity.
      + exists (emit_blocks true (merge_last (g0 :: G0) (term_comments (c0 :: tr0)))).
        rewrite <- ltext_merge, <- lcontent_merge by discriminate. split; [|split; reflexivity].
        apply lwf_emit. rewrite <- EG in *. clear EG.
        assert (Hm : forall G1, (forall g, In g G1 -> group_ok g) ->
                     forall g, In g (merge_last G1 (term_comments (c0 :: tr0))) -> group_ok g).
        { induction G1 as [|g1 r1 IH1]; intros Hok g Hin; [contradiction|].
          destruct r1 as [|g2 r2].
          - cbn [merge_last] in Hin. destruct Hin as [<-|[]]. destruct (Hok g1 (or_introl eq_refl)) as [A B].
            split; [exact A|]. cbn [snd]. apply wf_items_app_intro; assumption.
          - change (merge_last (g1 :: g2 :: r2) (term_comments (c0 :: tr0))) with (g1 :: merge_last (g2 :: r2) (term_comments (c0 :: tr0))) in Hin.
            destruct Hin as [<-|Hin]; [apply Hok; left; reflexivity|].
            apply IH1; [intros y Hy; apply Hok; right; exact Hy|exact Hin]. }
        apply Hm. intros g Hg. apply (HG g Hg). }
  destruct Hlive as (R' & Hwf & Ht & Hc).
  destruct (live_reread R' Hwf) as (t' & E1 & E2).
  exists t'. rewrite text_ltree, <- Ht, <- text_ltree. split; [exact E1|].
  rewrite E2, doc_items_ltree_of, Hc. reflexivity.
Qed.

(* ---------------------------------------------------------------- indentation and separation *)
Lemma str_eqb_refl s : str_eqb s s = true.
Proof. unfold str_eqb. induction s as [|c r IH]; [reflexivity|]. cbn [list_eqb]. rewrite N.eqb_refl, IH. reflexivity. Qed.

Lemma rebuild_field_indented c name w first conts : field_indented c (rebuild_field c name w first conts) = true.
Proof.
  unfold field_indented. rewrite rebuild_field_name. unfold rebuild_field.
  assert (H : forall ls, forallb (fun ct : str * str => str_eqb (fst ct) (spaces (width c name))) (indent_lines (width c name) ls) = true).
  { intros ls. unfold indent_lines. induction ls as [|t r IH]; [reflexivity|]. cbn [map forallb fst]. rewrite str_eqb_refl, IH. reflexivity. }
  destruct (fits c name w first && is_nil conts); [reflexivity|].
  destruct (value_lines first conts); [reflexivity|].
  destruct (c_iel c && negb (is_nil conts) && negb (starts_with_hash l)); cbn [f_cont]; apply H.
Qed.

Lemma a_ws_field_indented c fmt f : field_indented c (a_ws_field c fmt f) = true.
Proof.
  unfold a_ws_field. destruct fmt as [g|]; [|apply rebuild_field_indented].
  destruct (parse_value (g (f_name f) (value_text (field_ws0 f) (f_first f) (map snd (f_cont f))))) as [[w first] conts].
  apply rebuild_field_indented.
Qed.

Lemma items_indented_ungroup c gs tr :
  (forall g, In g gs -> field_indented c (snd g) = true) -> items_indented c (ungroup gs tr) = true.
Proof.
  intros H. unfold items_indented, ungroup. rewrite forallb_app. apply andb_true_iff. split.
  - induction gs as [|g r IH]; [reflexivity|]. cbn [flat_map]. rewrite !forallb_app.
    rewrite IH by (intros y Hy; apply H; right; exact Hy). cbn [forallb]. rewrite (H g (or_introl eq_refl)).
    rewrite !andb_true_r. induction (fst g) as [|x l IHl]; [reflexivity|exact IHl].
  - induction tr as [|x l IHl]; [reflexivity|exact IHl].
Qed.

Theorem a_ws_items_indented c ecmp fmt its : items_indented c (a_ws_items c ecmp fmt its) = true.
Proof.
  unfold a_ws_items. destruct (group_items its []) as [gs tr]. apply items_indented_ungroup.
  intros g Hg. apply in_map_iff in Hg. destruct Hg as (g0 & <- & _). apply a_ws_field_indented.
Qed.

Lemma items_indented_terminate_last c its : items_indented c (terminate_last its) = items_indented c its.
Proof.
  unfold items_indented. induction its as [|it r IH]; [reflexivity|]. destruct r as [|it2 r2].
  - destruct it; reflexivity.
  - assert (E : terminate_last (it :: it2 :: r2) = it :: terminate_last (it2 :: r2)) by (destruct it; reflexivity).
    rewrite E. cbn [forallb] in *. rewrite IH. reflexivity.
Qed.

Lemma doc_indented_terminate_doc c d : doc_indented c (terminate_doc d) = doc_indented c d.
Proof.
  unfold doc_indented. induction d as [|b r IH]; [reflexivity|]. destruct r as [|b2 r2].
  - destruct b; try reflexivity. cbn [terminate_doc forallb]. rewrite items_indented_terminate_last. reflexivity.
  - assert (E : terminate_doc (b :: b2 :: r2) = b :: terminate_doc (b2 :: r2)) by (destruct b; reflexivity).
    rewrite E. cbn [forallb] in *. rewrite IH. reflexivity.
Qed.

Lemma doc_indented_comments c cs : doc_indented c (map comment_block cs) = true.
Proof. induction cs as [|x l0 IHl]; [reflexivity|exact IHl]. Qed.
Lemma doc_indented_app c a b : doc_indented c (a ++ b) = doc_indented c a && doc_indented c b.
Proof. apply forallb_app. Qed.

Lemma doc_indented_emit c G : forall first, (forall g, In g G -> items_indented c (snd g) = true) ->
  doc_indented c (emit_blocks first G) = true.
Proof.
  induction G as [|g r IH]; intros first H; [reflexivity|]. rewrite emit_blocks_cons, !doc_indented_app, doc_indented_comments.
  rewrite IH by (intros y Hy; apply H; right; exact Hy).
  unfold doc_indented at 2. cbn [forallb]. rewrite (H g (or_introl eq_refl)). destruct first; reflexivity.
Qed.

Theorem a_ws_doc_indented c pcmp pf l : (forall its, items_indented c (pf its) = true) ->
  doc_indented c (a_ws_doc pcmp pf l) = true.
Proof.
  intros H. unfold a_ws_doc. destruct (group_blocks l []) as [gs tr]. rewrite doc_indented_terminate_doc.
  rewrite doc_indented_app, doc_indented_comments, andb_true_r. apply doc_indented_emit.
  intros g Hg. apply in_map_iff in Hg. destruct Hg as (g0 & <- & _). cbn [snd].
  rewrite items_indented_terminate_last. apply H.
Qed.

Lemma single_blanks_terminate_doc d : forall st, single_blanks st (terminate_doc d) = single_blanks st d.
Proof.
  induction d as [|b r IH]; intros st; [reflexivity|]. destruct r as [|b2 r2].
  - destruct b; reflexivity.
  - assert (E : terminate_doc (b :: b2 :: r2) = b :: terminate_doc (b2 :: r2)) by (destruct b; reflexivity).
    rewrite E. destruct b; cbn [single_blanks]; destruct st; try reflexivity; apply IH.
Qed.

Definition after_comments (st : sep_state) : sep_state :=
  match st with SepStart => SepStart | SepAfterBlank => SepAfterBlank | _ => SepTrailing end.
Lemma single_blanks_comments cs : forall st X, cs <> [] ->
  single_blanks st (map comment_block cs ++ X) = single_blanks (after_comments st) X.
Proof.
  induction cs as [|c r IH]; intros st X Hne; [congruence|]. cbn [map app comment_block single_blanks].
  destruct r as [|c2 r2].
  - destruct st; reflexivity.
  - destruct st; cbn [after_comments]; rewrite IH by discriminate; reflexivity.
Qed.
Lemma single_blanks_comments' cs st X : (st = SepStart \/ st = SepAfterBlank) ->
  single_blanks st (map comment_block cs ++ X) = single_blanks st X.
Proof.
  intros Hst. destruct cs as [|c r]; [reflexivity|]. rewrite single_blanks_comments by discriminate.
  destruct Hst as [-> | ->]; reflexivity.
Qed.

Lemma single_blanks_emit G tr : forall first : bool,
  single_blanks (if first then SepStart else SepAfterPara) (emit_blocks first G ++ map comment_block tr) = true.
Proof.
  induction G as [|g r IH]; intros first.
  - cbn [emit_blocks app]. destruct tr as [|c0 tr0]; [destruct first; reflexivity|].
    rewrite <- (app_nil_r (map comment_block (c0 :: tr0))), single_blanks_comments by discriminate.
    destruct first; reflexivity.
  - cbn [emit_blocks]. rewrite <- !app_assoc. destruct first; cbn [app single_blanks].
    + rewrite single_blanks_comments' by (left; reflexivity). cbn [app single_blanks]. apply (IH false).
    + rewrite single_blanks_comments' by (right; reflexivity). cbn [app single_blanks]. apply (IH false).
Qed.

Theorem a_ws_doc_single_blanks pcmp pf l : single_blanks SepStart (a_ws_doc pcmp pf l) = true.
Proof.
  unfold a_ws_doc. destruct (group_blocks l []) as [gs tr]. rewrite single_blanks_terminate_doc.
  apply (single_blanks_emit _ tr true).
Qed.

(* ---------------------------------------------------------------- idempotence *)
Definition triple_ok (w first : str) (conts : list str) : Prop :=
  forallb nonempty_line conts = true /\ (first = [] -> conts = [] -> w = []).

Theorem rebuild_idem c name w first conts : triple_ok w first conts ->
  rebuild_field c name (field_ws0 (rebuild_field c name w first conts))
                       (f_first (rebuild_field c name w first conts))
                       (map snd (f_cont (rebuild_field c name w first conts)))
  = rebuild_field c name w first conts.
Proof.
  intros [Hne Hw]. remember (rebuild_field c name w first conts) as F eqn:EF. unfold rebuild_field in EF.
  destruct (fits c name w first && is_nil conts) eqn:Efit.
  - pose proof Efit as Efit'. apply andb_true_iff in Efit'. destruct Efit' as [_ En]. destruct conts; [|discriminate].
    subst F. cbn [f_first f_cont map]. destruct first as [|b first'].
    + rewrite (Hw eq_refl eq_refl) in *. unfold field_ws0. cbn [f_first f_cont f_ws]. unfold rebuild_field. rewrite Efit. reflexivity.
    + unfold field_ws0. cbn [f_first f_cont f_ws]. unfold rebuild_field. rewrite Efit. reflexivity.
  - destruct (value_lines first conts) as [|l1 rest] eqn:El.
    + assert (first = [] /\ conts = []) as [-> ->] by (unfold value_lines in El; destruct first; [split; [reflexivity|exact El]|discriminate]).
      subst F. rewrite (Hw eq_refl eq_refl) in *. unfold field_ws0. cbn [f_first f_cont f_ws map]. unfold rebuild_field. rewrite Efit. reflexivity.
    + pose proof (value_lines_head_nonempty first conts l1 rest Hne El) as Hl1.
      destruct (c_iel c && negb (is_nil conts) && negb (starts_with_hash l1)) eqn:Ed; subst F.
      * cbn [f_first f_cont]. rewrite map_snd_indent. unfold field_ws0. cbn [f_first f_cont f_ws indent_lines map].
        unfold rebuild_field. cbn [is_nil]. rewrite andb_false_r. cbn [value_lines negb].
        apply andb_true_iff in Ed. destruct Ed as [Ed Eh]. apply andb_true_iff in Ed. destruct Ed as [Ei _].
        rewrite Ei, Eh. reflexivity.
      * cbn [f_first f_cont]. rewrite map_snd_indent.
        replace (field_ws0 (mk_field name [32%N] l1 (indent_lines (width c name) rest) true)) with [32%N]
          by (unfold field_ws0; cbn [f_first f_cont f_ws]; destruct l1; [contradiction|reflexivity]).
        unfold rebuild_field. destruct (fits c name [32%N] l1 && is_nil rest) eqn:Ef2.
        -- apply andb_true_iff in Ef2. destruct Ef2 as [_ En]. destruct rest; [reflexivity|discriminate].
        -- assert (Ev : value_lines l1 rest = l1 :: rest) by (unfold value_lines; destruct l1; [contradiction|reflexivity]).
           rewrite Ev. destruct rest as [|r1 rest'].
           ++ cbn [is_nil negb]. rewrite andb_false_r. reflexivity.
           ++ assert (Hc : is_nil conts = false).
              { unfold value_lines in El. destruct first; [subst conts; reflexivity|]. injection El as _ ->. reflexivity. }
              rewrite Hc in Ed. cbn [is_nil negb] in *. rewrite Ed. reflexivity.
Qed.

Theorem a_ws_field_idem_nofmt c f : conts_nonempty f = true ->
  a_ws_field c None (a_ws_field c None f) = a_ws_field c None f.
Proof.
  intros Hne. unfold a_ws_field. rewrite rebuild_field_name. apply rebuild_idem. split; [apply conts_nonempty_map; exact Hne|].
  unfold field_ws0. intros -> E. destruct (f_cont f); [reflexivity|discriminate].
Qed.

(* ---- items: the result is a fixed point ---- *)
Lemma group_items_comments cs : forall X cur, group_items (map comment_item cs ++ X) cur = group_items X (cur ++ cs).
Proof.
  induction cs as [|c r IH]; intros X cur; [rewrite app_nil_r; reflexivity|].
  cbn [map app comment_item group_items]. rewrite IH, <- app_assoc. destruct c; reflexivity.
Qed.

Lemma group_ungroup gs tr : forall cur,
  group_items (ungroup gs tr) cur =
  match gs with [] => ([], cur ++ tr) | g :: r => ((cur ++ fst g, snd g) :: r, tr) end.
Proof.
  induction gs as [|g r IH]; intros cur.
  - unfold ungroup. cbn [flat_map app]. rewrite <- (app_nil_r (map comment_item tr)), group_items_comments. reflexivity.
  - assert (E : ungroup (g :: r) tr = map comment_item (fst g) ++ IField (snd g) :: ungroup r tr).
    { unfold ungroup. cbn [flat_map]. rewrite <- !app_assoc. reflexivity. }
    rewrite E, group_items_comments. cbn [group_items]. rewrite IH.
    destruct r as [|g2 r2]; [reflexivity|]. destruct g2; reflexivity.
Qed.

Lemma group_ungroup_nil gs tr : group_items (ungroup gs tr) [] = (gs, tr).
Proof. rewrite group_ungroup. destruct gs as [|g r]; [reflexivity|]. destruct g; reflexivity. Qed.

Lemma sort_opt_sorted {A} (cmp : option (A -> A -> comparison)) l :
  match cmp with Some c => lsorted c l | None => True end -> sort_opt cmp l = l.
Proof. destruct cmp; [apply sort_by_sorted|reflexivity]. Qed.

Lemma lsorted_map {A B} (cmpA : A -> A -> comparison) (cmpB : B -> B -> comparison) (h : A -> B) l :
  (forall a b, cmpB (h a) (h b) = cmpA a b) -> lsorted cmpA l -> lsorted cmpB (map h l).
Proof.
  intros H. induction l as [|x r IH]; [trivial|]. cbn [lsorted map]. intros [Hx Hr]. split; [|apply IH; exact Hr].
  destruct r as [|y r']; [exact I|]. cbn [map]. unfold le_cmp, gtb in *. rewrite H. exact Hx.
Qed.

Definition canon_groups (c : wcfg) (ecmp : option pair_cmp) (fmt : option (str -> str -> str))
                        (gs : list (list comment * field)) : Prop :=
  match option_map on_field ecmp with Some e => lsorted e gs | None => True end /\
  forall g, In g gs -> a_ws_field c fmt (snd g) = snd g /\ f_nl (snd g) = true.

Lemma a_ws_items_ungroup_canon c ecmp fmt gs tr : canon_groups c ecmp fmt gs ->
  a_ws_items c ecmp fmt (ungroup gs tr) = ungroup gs tr.
Proof.
  intros [Hs Hf]. unfold a_ws_items. rewrite group_ungroup_nil, (sort_opt_sorted _ _ Hs). f_equal.
  rewrite <- (map_id gs) at 2. apply map_ext_in. intros g Hg. destruct (Hf g Hg) as [E _]. rewrite E. destruct g; reflexivity.
Qed.

Lemma rebuild_field_nl c name w first conts : f_nl (rebuild_field c name w first conts) = true.
Proof.
  unfold rebuild_field. destruct (fits c name w first && is_nil conts); [reflexivity|].
  destruct (value_lines first conts); [reflexivity|].
  destruct (c_iel c && negb (is_nil conts) && negb (starts_with_hash l)); reflexivity.
Qed.
Lemma a_ws_field_nl c fmt f : f_nl (a_ws_field c fmt f) = true.
Proof.
  unfold a_ws_field. destruct fmt as [g|]; [|apply rebuild_field_nl].
  destruct (parse_value (g (f_name f) (value_text (field_ws0 f) (f_first f) (map snd (f_cont f))))) as [[w first] conts].
  apply rebuild_field_nl.
Qed.



Lemma a_ws_items_is_canon c ecmp fmt its :
  pair_cmp_consistent ecmp ->
  (forall f, In (IField f) its -> field_stable c fmt f) ->
  (forall f g, In (IField f) its -> In (IField g) its ->
     match ecmp with Some e => e (a_pair fmt f) (a_pair fmt g) = e (field_pair f) (field_pair g) | None => True end) ->
  exists gs tr, a_ws_items c ecmp fmt its = ungroup gs tr /\ canon_groups c ecmp fmt gs.
Proof.
  intros Hc Hst Hinv. unfold a_ws_items. pose proof (group_items_In its []) as HIn.
  destruct (group_items its []) as [gs0 tr]. cbn [fst] in HIn.
  exists (map (fun g => (fst g, a_ws_field c fmt (snd g))) (sort_opt (option_map on_field ecmp) gs0)), tr.
  split; [reflexivity|]. split.
  - destruct ecmp as [e|]; cbn [option_map sort_opt]; [|exact I].
    assert (Hs : lsorted (on_field e) (sort_by (on_field e) gs0)).
    { apply sort_by_lsorted. intros a b H. unfold on_field in *. apply Hc. exact H. }
    revert Hs. assert (Hsub : forall g, In g (sort_by (on_field e) gs0) -> In g gs0)
      by (intros g Hg; apply (sort_opt_In (Some (on_field e)) _ _ Hg)).
    revert Hsub. generalize (sort_by (on_field e) gs0) as l. induction l as [|x r IH]; intros Hsub Hs; [exact I|].
    cbn [lsorted map] in *. destruct Hs as [Hx Hr]. split; [|apply IH; [intros g Hg; apply Hsub; right; exact Hg|exact Hr]].
    destruct r as [|y r']; [exact I|]. cbn [map]. unfold le_cmp, gtb, on_field in *. cbn [snd].
    destruct (Hst (snd x) (HIn x (Hsub x (or_introl eq_refl)))) as [_ E1].
    destruct (Hst (snd y) (HIn y (Hsub y (or_intror (or_introl eq_refl))))) as [_ E2].
    rewrite E1, E2. cbn [pair_cmp_consistent] in *.
    rewrite (Hinv (snd x) (snd y) (HIn x (Hsub x (or_introl eq_refl))) (HIn y (Hsub y (or_intror (or_introl eq_refl))))).
    exact Hx.
  - intros g' Hg'. apply in_map_iff in Hg'. destruct Hg' as (g & <- & Hin). cbn [snd].
    apply sort_opt_In in Hin. split; [apply (Hst (snd g) (HIn g Hin))|apply a_ws_field_nl].
Qed.

Theorem a_ws_items_idem c ecmp fmt its :
  pair_cmp_consistent ecmp ->
  (forall f, In (IField f) its -> field_stable c fmt f) ->
  (forall f g, In (IField f) its -> In (IField g) its ->
     match ecmp with Some e => e (a_pair fmt f) (a_pair fmt g) = e (field_pair f) (field_pair g) | None => True end) ->
  a_ws_items c ecmp fmt (a_ws_items c ecmp fmt its) = a_ws_items c ecmp fmt its.
Proof.
  intros Hc Hst Hinv. destruct (a_ws_items_is_canon c ecmp fmt its Hc Hst Hinv) as (gs & tr & E & Hcan).
  rewrite E. apply a_ws_items_ungroup_canon. exact Hcan.
Qed.

(* terminating the last line of a canonical paragraph *)
Lemma terminate_last_app a b : b <> [] -> terminate_last (a ++ b) = a ++ terminate_last b.
Proof.
  intros Hb. induction a as [|x r IH]; [reflexivity|]. cbn [app].
  destruct (r ++ b) as [|y z] eqn:E; [destruct r; [cbn [app] in E; congruence|discriminate]|]. rewrite <- IH. destruct x; reflexivity.
Qed.

Lemma terminate_last_ungroup gs tr : (forall g, In g gs -> f_nl (snd g) = true) ->
  terminate_last (ungroup gs tr) = ungroup gs (term_comments tr).
Proof.
  intros H. unfold ungroup. destruct tr as [|c0 tr0].
  - cbn [map term_comments]. rewrite !app_nil_r.
    destruct gs as [|g0 gs0]; [reflexivity|]. assert (Hne : g0 :: gs0 <> []) by discriminate.
    destruct (exists_last Hne) as (gs' & g & E). rewrite E in *. rewrite flat_map_app. cbn [flat_map]. rewrite app_nil_r.
    rewrite !app_assoc, terminate_last_app by discriminate. f_equal.
    assert (Hn : f_nl (snd g) = true) by (apply H; apply in_or_app; right; left; reflexivity).
    cbn [terminate_last]. destruct (snd g) as [n w f cs nl]. cbn [f_nl] in Hn. subst nl. reflexivity.
  - rewrite terminate_last_app by discriminate. rewrite <- map_term_comments. reflexivity.
Qed.

Lemma term_comments_idem cs : term_comments (term_comments cs) = term_comments cs.
Proof.
  induction cs as [|c r IH]; [reflexivity|]. destruct r as [|c2 r2]; [reflexivity|].
  change (term_comments (c :: c2 :: r2)) with (c :: term_comments (c2 :: r2)).
  destruct (term_comments (c2 :: r2)) as [|x y] eqn:E; [destruct r2; discriminate|].
  change (term_comments (c :: x :: y)) with (c :: term_comments (x :: y)). rewrite IH. reflexivity.
Qed.

(* the step Deb822::wrap_and_sort applies to a paragraph is idempotent *)
Theorem a_ws_items_term_idem c ecmp fmt its :
  pair_cmp_consistent ecmp ->
  (forall f, In (IField f) its -> field_stable c fmt f) ->
  (forall f g, In (IField f) its -> In (IField g) its ->
     match ecmp with Some e => e (a_pair fmt f) (a_pair fmt g) = e (field_pair f) (field_pair g) | None => True end) ->
  terminate_last (a_ws_items c ecmp fmt (terminate_last (a_ws_items c ecmp fmt its)))
  = terminate_last (a_ws_items c ecmp fmt its).
Proof.
  intros Hc Hst Hinv. destruct (a_ws_items_is_canon c ecmp fmt its Hc Hst Hinv) as (gs & tr & E & Hcan).
  rewrite E. assert (Hnl : forall g, In g gs -> f_nl (snd g) = true) by (intros g Hg; apply (proj2 Hcan g Hg)).
  rewrite (terminate_last_ungroup _ _ Hnl), (a_ws_items_ungroup_canon _ _ _ _ _ Hcan), (terminate_last_ungroup _ _ Hnl), term_comments_idem.
  reflexivity.
Qed.

(* ---- blocks: the result is a fixed point ---- *)
Lemma group_blocks_comments cs : forall X cur, group_blocks (map comment_block cs ++ X) cur = group_blocks X (cur ++ cs).
Proof.
  induction cs as [|c r IH]; intros X cur; [rewrite app_nil_r; reflexivity|].
  cbn [map app comment_block group_blocks]. rewrite IH, <- app_assoc. destruct c; reflexivity.
Qed.

Lemma group_blocks_emit G tr : forall first cur,
  group_blocks (emit_blocks first G ++ map comment_block tr) cur =
  match G with [] => ([], cur ++ tr) | g :: r => ((cur ++ fst g, snd g) :: r, tr) end.
Proof.
  induction G as [|g r IH]; intros first cur.
  - cbn [emit_blocks app]. rewrite <- (app_nil_r (map comment_block tr)), group_blocks_comments. reflexivity.
  - cbn [emit_blocks]. rewrite <- !app_assoc.
    assert (E : group_blocks ((if first then [] else [LBlank]) ++ map comment_block (fst g) ++ (LPara (snd g) :: emit_blocks false r) ++ map comment_block tr) cur
              = group_blocks (map comment_block (fst g) ++ (LPara (snd g) :: emit_blocks false r) ++ map comment_block tr) cur)
      by (destruct first; reflexivity).
    rewrite E, group_blocks_comments. cbn [app group_blocks]. rewrite (IH false []).
    destruct r as [|g2 r2]; [reflexivity|]. destruct g2; reflexivity.
Qed.

Lemma terminate_doc_emit_comments G tr first : (forall g, In g G -> terminate_last (snd g) = snd g) ->
  terminate_doc (emit_blocks first G ++ map comment_block tr) = emit_blocks first G ++ map comment_block (term_comments tr).
Proof.
  intros H. destruct tr as [|c0 tr0].
  - cbn [map term_comments]. rewrite !app_nil_r. apply terminate_doc_emit. exact H.
  - rewrite terminate_doc_app by discriminate. rewrite terminate_doc_comments. reflexivity.
Qed.


Theorem a_ws_doc_idem pcmp pf l :
  para_cmp_consistent pcmp ->
  (forall a b, In (LPara a) l -> In (LPara b) l ->
     match pcmp with Some p => p (flat_map item_pairs (pf a)) (flat_map item_pairs (pf b)) = p (flat_map item_pairs a) (flat_map item_pairs b) | None => True end) ->
  (forall its, In (LPara its) l -> terminate_last (pf (terminate_last (pf its))) = terminate_last (pf its)) ->
  a_ws_doc pcmp pf (a_ws_doc pcmp pf l) = a_ws_doc pcmp pf l.
Proof.
  intros Hc Hinv Hpf. unfold a_ws_doc at 2 3. pose proof (group_blocks_In l []) as HIn.
  destruct (group_blocks l []) as [gs tr]. cbn [fst] in HIn.
  set (h := fun g : list comment * list item => (fst g, terminate_last (pf (snd g)))).
  set (S0 := sort_opt (option_map on_para pcmp) gs).
  assert (Hsub : forall g, In g S0 -> In (LPara (snd g)) l) by (intros g Hg; apply HIn; apply (sort_opt_In _ _ _ Hg)).
  assert (Hclosed : forall g, In g (map h S0) -> terminate_last (snd g) = snd g).
  { intros g Hg. apply in_map_iff in Hg. destruct Hg as (g0 & <- & _). cbn [h snd]. apply terminate_last_idem. }
  rewrite (terminate_doc_emit_comments _ _ _ Hclosed).
  unfold a_ws_doc. rewrite group_blocks_emit.
  assert (Hsorted : match option_map on_para pcmp with Some e => lsorted e (map h S0) | None => True end).
  { destruct pcmp as [p|]; cbn [option_map]; [|exact I].
    assert (Hs : lsorted (on_para p) S0).
    { unfold S0. cbn [option_map sort_opt]. apply sort_by_lsorted. intros a b H. unfold on_para in *. apply Hc. exact H. }
    revert Hs Hsub. generalize S0 as L. induction L as [|x r IH]; intros Hs Hsub; [exact I|].
    cbn [lsorted map] in *. destruct Hs as [Hx Hr]. split; [|apply IH; [exact Hr|intros g Hg; apply Hsub; right; exact Hg]].
    destruct r as [|y r']; [exact I|]. cbn [map]. unfold le_cmp, gtb, on_para, h in *. cbn [snd].
    rewrite !pairs_terminate_last.
    rewrite (Hinv (snd x) (snd y) (Hsub x (or_introl eq_refl)) (Hsub y (or_intror (or_introl eq_refl)))). exact Hx. }
  assert (Hfix : map h (map h S0) = map h S0).
  { rewrite map_map. apply map_ext_in. intros g Hg. unfold h. cbn [fst snd]. rewrite (Hpf (snd g) (Hsub g Hg)). reflexivity. }
  destruct (map h S0) as [|g0 G0] eqn:EG.
  - cbn [sort_opt map emit_blocks app]. destruct (option_map on_para pcmp); cbn [sort_opt sort_by map emit_blocks app];
      rewrite terminate_doc_comments, term_comments_idem; reflexivity.
  - replace (([] ++ fst g0, snd g0) :: G0) with (g0 :: G0) by (destruct g0; reflexivity).
    rewrite (sort_opt_sorted _ _ Hsorted). fold h. rewrite Hfix.
    rewrite (terminate_doc_emit_comments _ _ _ Hclosed), term_comments_idem. reflexivity.
Qed.

(* ---------------------------------------------------------------- the formatter's output, lexed line by line *)
Lemma split_lf_go_nonempty s acc : split_lf_go s acc <> [].
Proof. revert acc. induction s as [|c r IH]; intros acc; cbn [split_lf_go]; [discriminate|]. destruct (c =? 10)%N; [discriminate|apply IH]. Qed.

Lemma split_lf_go_join s : forall acc l1 rest, split_lf_go s acc = l1 :: rest ->
  acc ++ s = l1 ++ flat_map (fun t => LF :: t) rest.
Proof.
  induction s as [|c r IH]; intros acc l1 rest H; cbn [split_lf_go] in H.
  - injection H as <- <-. reflexivity.
  - destruct (c =? 10)%N eqn:E.
    + apply N.eqb_eq in E. subst c. injection H as <- H. destruct rest as [|t rest'].
      * exfalso. apply (split_lf_go_nonempty r [] H).
      * cbn [flat_map]. f_equal. unfold LF. cbn [app]. f_equal. apply (IH [] t rest' H).
    + rewrite <- (IH _ _ _ H), <- app_assoc. reflexivity.
Qed.

Lemma parse_value_text o w first conts : parse_value o = (w, first, conts) -> o = value_text w first conts.
Proof.
  unfold parse_value. destruct (span is_indent o) as [w0 r] eqn:Es. pose proof (span_app _ _ _ _ Es) as Eo.
  destruct (split_lf r) as [|l1 rest] eqn:El; [exfalso; apply (split_lf_go_nonempty r [] El)|].
  intros H. injection H as <- <- <-. unfold value_text. rewrite <- Eo. f_equal.
  apply (split_lf_go_join r [] l1 rest El).
Qed.

Fixpoint pieces (cur : str) (conts : list str) : list str :=
  match conts with
  | [] => match cur with [] => [] | _ => [cur] end
  | t :: r => (cur ++ [LF]) :: pieces t r
  end.

Lemma split_incl_noeol cur : forall X acc, no_eol cur = true ->
  split_incl_go acc (cur ++ X) = split_incl_go (rev cur ++ acc) X.
Proof.
  induction cur as [|c r IH]; intros X acc H; [reflexivity|]. cbn [no_eol forallb] in H.
  apply andb_true_iff in H. destruct H as [Hc Hr]. apply negb_true_iff in Hc.
  cbn [app split_incl_go rev]. rewrite Hc, (IH X (c :: acc) Hr), <- app_assoc. reflexivity.
Qed.

Lemma split_incl_pieces conts : forall cur, no_eol cur = true -> forallb no_eol conts = true ->
  split_inclusive_nl (cur ++ flat_map (fun t => LF :: t) conts) = pieces cur conts.
Proof.
  unfold split_inclusive_nl. induction conts as [|t r IH]; intros cur Hc Hr.
  - cbn [flat_map pieces]. rewrite (split_incl_noeol cur [] [] Hc), app_nil_r. cbn [split_incl_go].
    destruct cur as [|c cur']; [reflexivity|]. destruct (rev (c :: cur')) eqn:E.
    + apply (f_equal (@length N)) in E. rewrite rev_length in E. discriminate.
    + rewrite <- E, rev_involutive. reflexivity.
  - cbn [forallb] in Hr. apply andb_true_iff in Hr. destruct Hr as [Ht Hr].
    cbn [flat_map pieces]. rewrite (split_incl_noeol cur _ [] Hc), app_nil_r. cbn [app split_incl_go].
    change (is_newline LF) with true. cbv iota. cbn [rev]. rewrite rev_involutive. f_equal. apply IH; assumption.
Qed.

Lemma lex_inline_lexf s : lex_inline s = lexf st_val s.
Proof. reflexivity. Qed.

Lemma canon_cont_parts t : canon_cont t = true ->
  no_eol t = true /\ match t with x :: _ => is_indent x = false | [] => False end.
Proof.
  unfold canon_cont. intros H. apply andb_true_iff in H. destruct H as [H1 H2]. split; [exact H1|].
  destruct t; [discriminate|]. apply andb_true_iff in H2. destruct H2 as [H2 _]. apply negb_true_iff in H2. exact H2.
Qed.

Lemma lex_inline_line w first (nl : bool) :
  ws_ok w = true -> first_ok first = true ->
  lex_inline (w ++ first ++ (if nl then [LF] else [])) =
  Ok (opt_tok WHITESPACE w ++ opt_tok VALUE first ++ (if nl then [(NEWLINE, [LF])] else [])).
Proof.
  intros Hw Hf. rewrite lex_inline_lexf. unfold first_ok in Hf. apply andb_true_iff in Hf. destruct Hf as [Hne Hhd].
  assert (Hend : lexf st_val (if nl then [LF] else []) = Ok (if nl then [(NEWLINE, [LF])] else [])).
  { destruct nl; [|reflexivity]. apply lexf_lf; [tauto|reflexivity]. }
  apply lexf_ws; [exact Hw| |].
  - destruct first as [|x first']; [destruct nl; [reflexivity|exact I]|]. cbn [app stops]. apply negb_true_iff. exact Hhd.
  - apply lexf_value; [left; reflexivity|exact Hne| |destruct nl; [reflexivity|exact I]|exact Hend].
    destruct first as [|x first']; [exact I|]. split; [apply negb_true_iff; exact Hhd|discriminate].
Qed.

Fixpoint ptoks (t : str) (r : list str) : list (list token) :=
  match r with
  | [] => [[(VALUE, t)]]
  | t2 :: r2 => [(VALUE, t); (NEWLINE, [LF])] :: ptoks t2 r2
  end.

Lemma res_map_lex_pieces r : forall t, canon_cont t = true -> forallb canon_cont r = true ->
  res_map lex_inline (pieces t r) = Ok (ptoks t r).
Proof.
  induction r as [|t2 r2 IH]; intros t Ht Hr.
  - destruct (canon_cont_parts t Ht) as [Hne Hhd]. destruct t as [|x t']; [contradiction|].
    cbn [pieces res_map ptoks]. pose proof (lex_inline_line [] (x :: t') false eq_refl (canon_cont_first_ok _ Ht)) as E.
    cbn [app opt_tok] in E. rewrite app_nil_r in E. rewrite E. reflexivity.
  - cbn [forallb] in Hr. apply andb_true_iff in Hr. destruct Hr as [Ht2 Hr2].
    cbn [pieces res_map ptoks]. pose proof (lex_inline_line [] t true eq_refl (canon_cont_first_ok _ Ht)) as E.
    cbn [app] in E. rewrite E. cbn [bind]. rewrite (IH t2 Ht2 Hr2). cbn [bind].
    destruct (canon_cont_parts t Ht) as [_ Hhd]. destruct t; [contradiction|]. reflexivity.
Qed.

Lemma concat_ptoks r : forall t, concat (ptoks t r) = (VALUE, t) :: line_toks r.
Proof. induction r as [|t2 r2 IH]; intros t; [reflexivity|]. cbn [ptoks concat app]. rewrite IH. reflexivity. Qed.

Lemma ws_ok_no_eol w : ws_ok w = true -> no_eol w = true.
Proof.
  unfold ws_ok, no_eol. induction w as [|c r IH]; [reflexivity|]. cbn [forallb]. intros H.
  apply andb_true_iff in H. destruct H as [Hc Hr]. rewrite (IH Hr), andb_true_r.
  unfold is_indent, is_newline in *. destruct (c =? 32)%N eqn:E1; [apply N.eqb_eq in E1; subst; reflexivity|].
  destruct (c =? 9)%N eqn:E2; [apply N.eqb_eq in E2; subst; reflexivity|]. discriminate.
Qed.

Lemma no_eol_app a b : no_eol (a ++ b) = no_eol a && no_eol b.
Proof. apply forallb_app. Qed.

Theorem fmt_tokens_value_text w first conts :
  ws_ok w = true -> first_ok first = true -> forallb canon_cont conts = true ->
  fmt_tokens fixed (value_text w first conts) = Ok (triple_toks w first conts).
Proof.
  intros Hw Hf Hc. unfold fmt_tokens. cbn [v_fmt_lines fixed]. unfold value_text. rewrite app_assoc.
  assert (Hnf : no_eol first = true) by (unfold first_ok in Hf; apply andb_true_iff in Hf; apply Hf).
  assert (Hnc : forallb no_eol conts = true).
  { clear - Hc. induction conts as [|t r IH]; [reflexivity|]. cbn [forallb] in *. apply andb_true_iff in Hc. destruct Hc as [H1 H2].
    rewrite (IH H2), andb_true_r. apply (canon_cont_parts t H1). }
  rewrite split_incl_pieces; [|rewrite no_eol_app, (ws_ok_no_eol w Hw), Hnf; reflexivity|exact Hnc].
  unfold triple_toks. destruct conts as [|t r].
  - cbn [pieces flat_map]. rewrite app_nil_r. destruct (w ++ first) as [|x y] eqn:E.
    + apply app_eq_nil in E. destruct E as [-> ->]. reflexivity.
    + rewrite <- E. cbn [res_map]. pose proof (lex_inline_line w first false Hw Hf) as El. rewrite !app_nil_r in El.
      rewrite El. cbn [bind concat]. rewrite app_nil_r. reflexivity.
  - cbn [forallb] in Hc. apply andb_true_iff in Hc. destruct Hc as [Ht Hr].
    cbn [pieces res_map]. rewrite <- app_assoc. rewrite (lex_inline_line w first true Hw Hf). cbn [bind].
    rewrite (res_map_lex_pieces r t Ht Hr). cbn [bind concat]. rewrite concat_ptoks.
    rewrite <- !app_assoc. reflexivity.
Qed.

Theorem shaped_lexes fmt f : fmt_shaped_on fmt f = true -> fmt_lexes fmt f.
Proof.
  destruct fmt as [g|]; [|intros _; exact I]. cbn [fmt_shaped_on fmt_lexes]. cbv zeta. unfold shaped.
  set (o := g (f_name f) (value_text (field_ws0 f) (f_first f) (map snd (f_cont f)))).
  pose proof (parse_value_ws_ok o) as Hw. pose proof (parse_value_text o) as Ho.
  destruct (parse_value o) as [[w first] conts]. cbn [fst] in Hw. intros H.
  apply andb_true_iff in H. destruct H as [H _]. apply andb_true_iff in H. destruct H as [H1 H2].
  split; [|apply canon_cont_nonempty; exact H2].
  rewrite (Ho w first conts eq_refl). apply fmt_tokens_value_text; assumption.
Qed.

(* ---------------------------------------------------------------- assembling the document-level statements *)
Definition doc_fields_ok (fmt : option (str -> str -> str)) (l : ldocl) : Prop :=
  forall its f, In (LPara its) l -> In (IField f) its -> field_ok fmt f.

Lemma lwf_para_wf l : forall its, lwf l = true -> In (LPara its) l -> exists m, wf_items its m = true.
Proof.
  induction l as [|b r IH]; intros its Hl Hin; [contradiction|]. rewrite lwf_cons in Hl.
  apply andb_true_iff in Hl. destruct Hl as [Hb Hr]. destruct Hin as [->|Hin]; [|apply IH; assumption].
  apply andb_true_iff in Hb. destruct Hb as [Hi _]. eexists; exact Hi.
Qed.

Lemma wf_field_ok fmt f m : wf_field f m = true -> fmt_shaped_on fmt f = true -> field_ok fmt f.
Proof.
  intros Hwf Hs. destruct (wf_field_parts f m Hwf) as (Hn & _ & _ & Hc). split; [|split].
  - destruct (f_name f); [discriminate|discriminate].
  - unfold conts_nonempty. apply canon_cont_nonempty in Hc. clear - Hc.
    induction (f_cont f) as [|x r IH]; [reflexivity|]. cbn [map forallb] in *. apply andb_true_iff in Hc. destruct Hc as [H1 H2].
    rewrite H1, (IH H2). reflexivity.
  - apply shaped_lexes. exact Hs.
Qed.

Lemma lwf_fields_ok fmt l : lwf l = true -> doc_shaped fmt l -> doc_fields_ok fmt l.
Proof.
  intros Hl Hs its f Hi Hf. destruct (lwf_para_wf l its Hl Hi) as [m Hm].
  destruct (wf_items_In its m f Hm Hf) as [m' Hm']. apply (wf_field_ok fmt f m' Hm'). apply (Hs its f Hi Hf).
Qed.

Section Top.
  Variable c : wcfg.
  Variable psort : option (tree -> tree -> comparison).
  Variable pcmp : option para_cmp.
  Variable esort : option (tree -> tree -> comparison).
  Variable ecmp : option pair_cmp.
  Variable fmt : option (str -> str -> str).

  (* Deb822::wrap_and_sort(sort_paragraphs, |p| p.wrap_and_sort(indentation, immediate_empty_line,
     max_line_length_one_liner, sort_entries, format_value)) *)
  Local Notation std_ws' := (std_ws fixed c psort esort (option_map pure_fmt fmt)).
  Definition a_std (l : ldocl) : ldocl := a_ws_doc pcmp (a_ws_items c ecmp fmt) l.

  Hypothesis Hind : ind_ok c = true.
  Hypothesis Hp : pcmp_agrees psort pcmp.
  Hypothesis He : ecmp_agrees esort ecmp.

  Theorem std_ws_commute l : doc_fields_ok fmt l -> std_ws' (ltree_of l) = Ok (ltree_of (a_std l)).
  Proof.
    intros Hok. unfold std_ws. apply doc_ws_blocks; [exact Hp|]. intros its Hi. unfold pfun_agrees. cbn [lblock_tree].
    apply para_ws_items; [exact Hind|exact He|]. intros f Hf. apply (Hok its f Hi Hf).
  Qed.

  Lemma In_ungroup gs tr f : In (IField f) (ungroup gs tr) -> exists g, In g gs /\ f = snd g.
  Proof.
    unfold ungroup. intros H. apply in_app_or in H. destruct H as [H|H].
    - apply in_flat_map in H. destruct H as (g & Hg & H). exists g. split; [exact Hg|].
      apply in_app_or in H. destruct H as [H|[H|[]]]; [|injection H as <-; reflexivity].
      apply in_map_iff in H. destruct H as (x & Hx & _). discriminate.
    - apply in_map_iff in H. destruct H as (x & Hx & _). discriminate.
  Qed.

  Lemma In_a_ws_items its f : In (IField f) (terminate_last (a_ws_items c ecmp fmt its)) ->
    exists f0, In (IField f0) its /\ f = a_ws_field c fmt f0.
  Proof.
    unfold a_ws_items. pose proof (group_items_In its []) as HIn. destruct (group_items its []) as [gs tr]. cbn [fst] in HIn.
    rewrite terminate_last_ungroup.
    - intros H. apply In_ungroup in H. destruct H as (g & Hg & ->). apply in_map_iff in Hg. destruct Hg as (g0 & <- & Hg0).
      exists (snd g0). split; [apply HIn; apply (sort_opt_In _ _ _ Hg0)|reflexivity].
    - intros g Hg. apply in_map_iff in Hg. destruct Hg as (g0 & <- & _). apply a_ws_field_nl.
  Qed.

  Lemma In_emit_blocks G : forall first x, In (LPara x) (emit_blocks first G) -> exists g, In g G /\ x = snd g.
  Proof.
    induction G as [|g r IH]; intros first x H; [contradiction|]. rewrite emit_blocks_cons in H.
    apply in_app_or in H. destruct H as [H|H].
    - exfalso. apply in_app_or in H. destruct H as [H|H]; [destruct first; [contradiction|destruct H as [H|[]]; discriminate]|].
      apply in_map_iff in H. destruct H as (y & Hy & _). discriminate.
    - apply in_app_or in H. destruct H as [[H|[]]|H]; [injection H as <-; exists g; split; [left|]; reflexivity|].
      destruct (IH false x H) as (g' & Hg' & ->). exists g'. split; [right; exact Hg'|reflexivity].
  Qed.

  Lemma In_a_ws_doc pf l x : In (LPara x) (a_ws_doc pcmp pf l) ->
    exists its, In (LPara its) l /\ x = terminate_last (pf its).
  Proof.
    unfold a_ws_doc. pose proof (group_blocks_In l []) as HIn. destruct (group_blocks l []) as [gs tr]. cbn [fst] in HIn.
    rewrite terminate_doc_emit_comments.
    - intros H. apply in_app_or in H. destruct H as [H|H].
      + apply In_emit_blocks in H. destruct H as (g & Hg & ->). apply in_map_iff in Hg. destruct Hg as (g0 & <- & Hg0).
        exists (snd g0). split; [apply HIn; apply (sort_opt_In _ _ _ Hg0)|reflexivity].
      + apply in_map_iff in H. destruct H as (y & Hy & _). discriminate.
    - intros g Hg. apply in_map_iff in Hg. destruct Hg as (g0 & <- & _). apply terminate_last_idem.
  Qed.

  Lemma conts_nonempty_rebuild name w first conts : forallb nonempty_line conts = true ->
    conts_nonempty (rebuild_field c name w first conts) = true.
  Proof.
    intros Hne. unfold conts_nonempty, rebuild_field.
    assert (H : forall ls, forallb nonempty_line ls = true ->
                forallb (fun ct : str * str => nonempty_line (snd ct)) (indent_lines (width c name) ls) = true).
    { intros ls Hl. unfold indent_lines. induction ls as [|t r IH]; [reflexivity|]. cbn [map forallb snd] in *.
      apply andb_true_iff in Hl. destruct Hl as [H1 H2]. rewrite H1, (IH H2). reflexivity. }
    destruct (fits c name w first && is_nil conts); [reflexivity|].
    destruct (value_lines first conts) as [|l1 rest] eqn:El; [reflexivity|].
    pose proof (value_lines_head_nonempty first conts l1 rest Hne El) as Hl1.
    assert (Hrest : forallb nonempty_line rest = true).
    { unfold value_lines in El. destruct first; [subst conts; cbn [forallb] in Hne; apply andb_true_iff in Hne; apply Hne|].
      injection El as _ <-. exact Hne. }
    destruct (c_iel c && negb (is_nil conts) && negb (starts_with_hash l1)); cbn [f_cont]; apply H; [|exact Hrest].
    cbn [forallb]. rewrite Hrest, andb_true_r. destruct l1; [contradiction|reflexivity].
  Qed.

  (* the fields of the result are again fields the transcription handles *)
  Lemma fields_ok_a_std l : doc_fields_ok fmt l ->
    (forall its f, In (LPara its) l -> In (IField f) its -> fmt_lexes fmt (a_ws_field c fmt f)) ->
    doc_fields_ok fmt (a_std l).
  Proof.
    intros Hok Hlex x f Hx Hf. unfold a_std in Hx. apply In_a_ws_doc in Hx. destruct Hx as (its & Hi & ->).
    apply In_a_ws_items in Hf. destruct Hf as (f0 & Hf0 & ->). destruct (Hok its f0 Hi Hf0) as (Hn & Hc & Hl).
    split; [|split; [|apply (Hlex its f0 Hi Hf0)]].
    - unfold a_ws_field. destruct fmt as [g|]; [|rewrite rebuild_field_name; exact Hn].
      destruct (parse_value (g (f_name f0) (value_text (field_ws0 f0) (f_first f0) (map snd (f_cont f0))))) as [[w first] conts].
      rewrite rebuild_field_name. exact Hn.
    - unfold a_ws_field. destruct fmt as [g|]; [|apply conts_nonempty_rebuild; apply conts_nonempty_map; exact Hc].
      cbn [fmt_lexes] in Hl. cbv zeta in Hl.
      destruct (parse_value (g (f_name f0) (value_text (field_ws0 f0) (f_first f0) (map snd (f_cont f0))))) as [[w first] conts].
      apply conts_nonempty_rebuild. apply Hl.
  Qed.

  (* a second application changes nothing *)
  (* stable_on, ecmp_invariant_on, pcmp_invariant_on: model/WrapSpecInst.v *)

  Theorem a_std_idem l : doc_fields_ok fmt l -> stable_on c fmt l ->
    pair_cmp_consistent ecmp -> para_cmp_consistent pcmp -> ecmp_invariant_on ecmp fmt l -> pcmp_invariant_on pcmp ecmp fmt l ->
    a_std (a_std l) = a_std l.
  Proof.
    intros Hok Hst Hce Hcp Hie Hip. unfold a_std. apply a_ws_doc_idem; [exact Hcp| |].
    - intros a b Ha Hb. specialize (Hip a b Ha Hb). destruct pcmp as [p|]; [|exact I].
      rewrite !a_ws_items_pairs; [exact Hip| |]; intros f Hf; [apply (Hok b f Hb Hf)|apply (Hok a f Ha Hf)].
    - intros its Hi. apply a_ws_items_term_idem; [exact Hce| |].
      + intros f Hf. apply (Hst its f Hi Hf).
      + intros f g Hf Hg. apply (Hie its f g Hi Hf Hg).
  Qed.

  Theorem std_ws_idem l : doc_fields_ok fmt l -> stable_on c fmt l ->
    pair_cmp_consistent ecmp -> para_cmp_consistent pcmp -> ecmp_invariant_on ecmp fmt l -> pcmp_invariant_on pcmp ecmp fmt l ->
    std_ws' (ltree_of (a_std l)) = Ok (ltree_of (a_std l)).
  Proof.
    intros Hok Hst Hce Hcp Hie Hip. rewrite std_ws_commute.
    - rewrite (a_std_idem l Hok Hst Hce Hcp Hie Hip). reflexivity.
    - apply fields_ok_a_std; [exact Hok|]. intros its f Hi Hf. apply (Hst its f Hi Hf).
  Qed.
End Top.

(* ---------------------------------------------------------------- without a formatter *)
Lemma field_stable_nofmt c f : conts_nonempty f = true -> field_stable c None f.
Proof. intros H. split; [apply a_ws_field_idem_nofmt; exact H|apply a_ws_field_pair; [exact H|exact I]]. Qed.

Lemma stable_on_nofmt c l : doc_fields_ok None l -> stable_on c None l.
Proof.
  intros Hok its f Hi Hf. destruct (Hok its f Hi Hf) as (_ & Hc & _). split; [apply field_stable_nofmt; exact Hc|exact I].
Qed.

Lemma ecmp_invariant_nofmt ecmp l : ecmp_invariant_on ecmp None l.
Proof. intros its f g _ _ _. destruct ecmp; [reflexivity|exact I]. Qed.

Lemma lcontent_paras l : lcontent l = map (flat_map item_pairs) (paras_of l).
Proof. unfold lcontent, paras_of. induction l as [|b r IH]; [reflexivity|]. destruct b; cbn [flat_map map app]; rewrite IH; reflexivity. Qed.

(* the content afterwards, as a function of the content before *)
Theorem a_std_content_nofmt c pcmp ecmp l : doc_fields_ok None l ->
  lcontent (a_std c pcmp ecmp None l) = map (sort_opt ecmp) (sort_opt pcmp (lcontent l)).
Proof.
  intros Hok. unfold a_std. rewrite a_ws_doc_content, lcontent_paras.
  assert (E : sort_opt pcmp (map (flat_map item_pairs) (paras_of l)) = map (flat_map item_pairs) (sort_opt (option_map on_items pcmp) (paras_of l))).
  { apply sort_opt_map. destruct pcmp; cbn [option_map]; [|exact I]. intros x y. reflexivity. }
  rewrite E, map_map. apply map_ext_in. intros its Hi.
  assert (Hin : In (LPara its) l).
  { apply sort_opt_In in Hi. unfold paras_of in Hi. apply in_flat_map in Hi. destruct Hi as (b & Hb & Hi).
    destruct b; try contradiction. destruct Hi as [<-|[]]. exact Hb. }
  rewrite a_ws_items_pairs by (intros f Hf; apply (Hok its f Hin Hf)). apply spec_para_nofmt.
Qed.

Lemma filter_all_id {A} (p : A -> bool) l : forallb p l = true -> filter p l = l.
Proof.
  induction l as [|x r IH]; [reflexivity|]. cbn [forallb filter]. intros H. apply andb_true_iff in H. destruct H as [H1 H2].
  rewrite H1, (IH H2). reflexivity.
Qed.

(* a parsed well-formed document has no empty paragraph, and sorting does not make one *)
Lemma nonempty_paras_sorted (pcmp : option para_cmp) (ecmp : option pair_cmp) (cs : list (list (str * str))) :
  nonempty_paras cs = cs -> nonempty_paras (map (sort_opt ecmp) (sort_opt pcmp cs)) = map (sort_opt ecmp) (sort_opt pcmp cs).
Proof.
  intros H. unfold nonempty_paras in *.
  assert (Hall : forall p, In p cs -> p <> []).
  { intros p Hp. rewrite <- H in Hp. apply filter_In in Hp. destruct Hp as [_ Hp]. destruct p; [discriminate|discriminate]. }
  apply filter_all_id. apply forallb_forall. intros q Hq. apply in_map_iff in Hq. destruct Hq as (p & <- & Hp).
  apply sort_opt_In in Hp. specialize (Hall p Hp).
  pose proof (Permutation_length (sort_opt_perm ecmp p)) as Hlen.
  destruct (sort_opt ecmp p); [destruct p; [congruence|discriminate]|reflexivity].
Qed.

(* ---------------------------------------------------------------- C07 for the repaired code *)
Lemma ldoc_of_lift d : ldoc_of d = lift d.
Proof. reflexivity. Qed.

Lemma nonempty_paras_content d : nonempty_paras (content d) = content d.
Proof.
  unfold nonempty_paras, content. induction d as [|b r IH]; [reflexivity|]. cbn [flat_map]. rewrite filter_app, IH.
  destruct b; reflexivity.
Qed.

Lemma lcontent_lift d : lcontent (lift d) = content d.
Proof. rewrite <- doc_items_ltree_of, ltree_of_lift. apply doc_items_tree_of. Qed.

Lemma pf_keeps_wf_items c ecmp fmt l : ind_ok c = true -> doc_shaped fmt l -> pf_keeps_wf (a_ws_items c ecmp fmt) l.
Proof.
  intros Hi Hs its m Hin Hwf. exists m. apply wf_a_ws_items; [exact Hi|exact Hwf|]. intros f Hf. apply (Hs its f Hin Hf).
Qed.

Theorem C07_full_fixed : C07_full fixed.
Proof.
  intros c psort pcmp esort ecmp d Hind Hp He Hce Hcp Hpi Hwf l1.
  assert (Hl : lwf (lift d) = true) by (apply lwf_lift; exact Hwf).
  assert (Hsh : doc_shaped None (lift d)) by (intros its f _ _; reflexivity).
  pose proof (lwf_fields_ok None (lift d) Hl Hsh) as Hok.
  exists (ltree_of l1). subst l1. rewrite ldoc_of_lift.
  change (a_ws_doc pcmp (a_ws_items c ecmp None) (lift d)) with (a_std c pcmp ecmp None (lift d)).
  assert (Hcontent : doc_items (ltree_of (a_std c pcmp ecmp None (lift d))) = map (sort_opt ecmp) (sort_opt pcmp (content d))).
  { rewrite doc_items_ltree_of, (a_std_content_nofmt c pcmp ecmp (lift d) Hok), lcontent_lift. reflexivity. }
  split; [|split; [reflexivity|split; [exact Hcontent|split; [|split; [|split]]]]].
  - rewrite <- ltree_of_lift. apply (std_ws_commute c psort pcmp esort ecmp None Hind Hp He (lift d) Hok).
  - destruct (a_ws_doc_reread pcmp (a_ws_items c ecmp None) (lift d) Hl (pf_keeps_wf_items c ecmp None (lift d) Hind Hsh)) as (t' & E1 & E2).
    exists t'. split; [exact E1|]. rewrite E2. unfold a_std in *. rewrite <- doc_items_ltree_of, Hcontent.
    apply nonempty_paras_sorted. apply nonempty_paras_content.
  - apply a_ws_doc_indented. intros its. apply a_ws_items_indented.
  - apply a_ws_doc_single_blanks.
  - apply (std_ws_idem c psort pcmp esort ecmp None Hind Hp He (lift d) Hok (stable_on_nofmt c (lift d) Hok) Hce Hcp (ecmp_invariant_nofmt ecmp (lift d))).
    intros a b _ _. specialize (Hpi (flat_map item_pairs a) (flat_map item_pairs b)). destruct pcmp as [p|]; [|exact I].
    rewrite !spec_para_nofmt. exact Hpi.
Qed.
