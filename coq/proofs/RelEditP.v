(* Lemmas about RelEdit.v (C11), part 1: lists, paths, texts, and the pure parts of the
   editing operations on the trees the constructors build. *)
From V.model Require Import Base RelLex RelParse RelEdit RelEditSpec RelEditTree.
From V.proofs Require Import BaseP.

(* ------------------------------------------------------------------ lists *)
Lemma insert_at_nil {A} i (l : list A) : insert_at i [] l = l.
Proof. unfold insert_at. cbn. apply firstn_skipn. Qed.

Lemma insert_at_length {A} i (new l : list A) : length (insert_at i new l) = length new + length l.
Proof.
  unfold insert_at. rewrite !app_length.
  assert (H := firstn_skipn i l). apply (f_equal (@length A)) in H. rewrite app_length in H. lia.
Qed.

Lemma insert_at_end {A} i (new l : list A) : length l <= i -> insert_at i new l = l ++ new.
Proof.
  intros H. unfold insert_at. rewrite firstn_all2 by lia. rewrite skipn_all2 by lia.
  now rewrite app_nil_r.
Qed.

Lemma insert_at_0 {A} (new l : list A) : insert_at 0 new l = new ++ l.
Proof. reflexivity. Qed.

Lemma insert_at_S {A} i (new : list A) x l : insert_at (S i) new (x :: l) = x :: insert_at i new l.
Proof. reflexivity. Qed.

Lemma remove_nth_0 {A} (x : A) l : remove_nth 0 (x :: l) = l.
Proof. reflexivity. Qed.
Lemma remove_nth_S {A} i (x : A) l : remove_nth (S i) (x :: l) = x :: remove_nth i l.
Proof. reflexivity. Qed.

Lemma upd_nth_length {A} i (f : A -> A) l : length (upd_nth i f l) = length l.
Proof. revert i; induction l as [|x r IH]; intros [|i]; cbn; auto. Qed.

Lemma nth_error_upd_nth_eq {A} i (f : A -> A) l x :
  nth_error l i = Some x -> nth_error (upd_nth i f l) i = Some (f x).
Proof.
  revert i; induction l as [|y r IH]; intros [|i] H; cbn in *; try discriminate.
  - now inversion H.
  - now apply IH.
Qed.
Lemma nth_error_upd_nth_neq {A} i j (f : A -> A) l :
  i <> j -> nth_error (upd_nth i f l) j = nth_error l j.
Proof.
  revert i j; induction l as [|y r IH]; intros [|i] [|j] H; cbn; auto; try lia.
Qed.

Lemma upd_nth_app_r {A} (f : A -> A) a x b : upd_nth (length a) f (a ++ x :: b) = a ++ f x :: b.
Proof. induction a as [|y r IH]; cbn; [reflexivity|]. now rewrite IH. Qed.

Lemma nth_error_split_eq {A} (l : list A) i x :
  nth_error l i = Some x -> l = firstn i l ++ x :: skipn (S i) l /\ length (firstn i l) = i.
Proof.
  revert i; induction l as [|y r IH]; intros [|i] H; cbn in *; try discriminate.
  - inversion H; subst. split; reflexivity.
  - destruct (IH _ H) as [E L]. split; [now rewrite <- E | now rewrite L].
Qed.

Lemma split_last_app {A} (p : list A) (i : A) : split_last (p ++ [i]) = Some (p, i).
Proof.
  induction p as [|x r IH]; cbn; [reflexivity|]. now rewrite IH.
Qed.

Lemma strip_prefix_app p q : strip_prefix p (p ++ q) = Some q.
Proof. induction p as [|x r IH]; cbn; [reflexivity|]. now rewrite Nat.eqb_refl. Qed.

(* ------------------------------------------------------------------ paths *)
Lemma get_path_app t p q :
  get_path t (p ++ q) = match get_path t p with Some n => get_path n q | None => None end.
Proof.
  revert t; induction p as [|i r IH]; intros t; cbn; [reflexivity|].
  destruct (nth_error (children t) i); [apply IH | reflexivity].
Qed.

Lemma get_path_upd_path t p f n :
  get_path t p = Some n -> get_path (upd_path t p f) p = Some (f n).
Proof.
  revert t; induction p as [|i r IH]; intros t H; cbn in *.
  - now inversion H.
  - destruct t as [k s|k cs]; cbn in H.
    + destruct i; discriminate.
    + cbn. destruct (nth_error cs i) as [c|] eqn:E; [|discriminate].
      rewrite (nth_error_upd_nth_eq _ _ _ _ E). now apply IH.
Qed.

Lemma upd_nth_split {A} i (f : A -> A) l x :
  nth_error l i = Some x -> upd_nth i f l = firstn i l ++ f x :: skipn (S i) l.
Proof.
  revert i; induction l as [|y r IH]; intros [|i] H; cbn in *; try discriminate.
  - now inversion H.
  - now rewrite (IH _ H).
Qed.
Lemma upd_nth_upd_nth {A} i (f g : A -> A) l :
  upd_nth i g (upd_nth i f l) = upd_nth i (fun x => g (f x)) l.
Proof. revert i; induction l as [|y r IH]; intros [|i]; cbn; auto. now rewrite IH. Qed.
Lemma upd_nth_ext_at {A} i (f g : A -> A) l x :
  nth_error l i = Some x -> f x = g x -> upd_nth i f l = upd_nth i g l.
Proof.
  revert i; induction l as [|y r IH]; intros [|i] H E; cbn in *; try discriminate.
  - inversion H; subst. now rewrite E.
  - now rewrite (IH _ H E).
Qed.
Lemma upd_nth_id {A} i (l : list A) : upd_nth i (fun x => x) l = l.
Proof. revert i; induction l as [|y r IH]; intros [|i]; cbn; auto. now rewrite IH. Qed.

Lemma upd_path_upd_path t p f g n :
  get_path t p = Some n -> upd_path (upd_path t p f) p g = upd_path t p (fun x => g (f x)).
Proof.
  revert t; induction p as [|i r IH]; intros t H; cbn in *; [reflexivity|].
  destruct t as [k s|k cs]; cbn in *; [reflexivity|].
  destruct (nth_error cs i) as [c|] eqn:E; [|discriminate].
  f_equal. rewrite upd_nth_upd_nth. eapply upd_nth_ext_at; [exact E|]. now apply IH.
Qed.

Lemma upd_path_ext t p f g n :
  get_path t p = Some n -> f n = g n -> upd_path t p f = upd_path t p g.
Proof.
  revert t; induction p as [|i r IH]; intros t H E; cbn in *.
  - now inversion H; subst.
  - destruct t as [k s|k cs]; cbn in *; [reflexivity|].
    destruct (nth_error cs i) as [c|] eqn:Ec; [|discriminate].
    f_equal. eapply upd_nth_ext_at; [exact Ec|]. now apply IH.
Qed.

Lemma upd_path_id t p n : get_path t p = Some n -> upd_path t p (fun x => x) = t.
Proof.
  revert t; induction p as [|i r IH]; intros t H; cbn in *; [reflexivity|].
  destruct t as [k s|k cs]; cbn in *; [reflexivity|].
  destruct (nth_error cs i) as [c|] eqn:Ec; [|discriminate].
  f_equal. rewrite <- (upd_nth_id i cs) at 2. eapply upd_nth_ext_at; [exact Ec|]. now apply IH.
Qed.

(* frame: an update below a path changes the text of that node only *)
Lemma text_upd_path t p f n :
  get_path t p = Some n ->
  exists a b, text t = a ++ text n ++ b /\ text (upd_path t p f) = a ++ text (f n) ++ b.
Proof.
  revert t; induction p as [|i r IH]; intros t H; cbn in *.
  - inversion H; subst. exists [], []. now rewrite !app_nil_r.
  - destruct t as [k s|k cs]; cbn in H; [destruct i; discriminate|].
    destruct (nth_error cs i) as [c|] eqn:Ec; [|discriminate].
    destruct (IH _ H) as (a & b & E1 & E2).
    destruct (nth_error_split_eq _ _ _ Ec) as [Ecs L].
    exists (texts (firstn i cs) ++ a), (b ++ texts (skipn (S i) cs)).
    cbn [upd_path]. rewrite !text_node. split.
    + rewrite Ecs at 1. rewrite texts_app, texts_cons, E1. now rewrite !app_assoc.
    + rewrite (upd_nth_split _ _ _ _ Ec), texts_app, texts_cons, E2.
      now rewrite !app_assoc.
Qed.

Lemma texts_insert_at i new (l : list rtree) :
  texts (insert_at i new l) = texts (firstn i l) ++ texts new ++ texts (skipn i l).
Proof. unfold insert_at. now rewrite !texts_app. Qed.
Lemma texts_remove_nth i (l : list rtree) x :
  nth_error l i = Some x -> texts l = texts (firstn i l) ++ text x ++ texts (skipn (S i) l) /\
  texts (remove_nth i l) = texts (firstn i l) ++ texts (skipn (S i) l).
Proof.
  intros H. destruct (nth_error_split_eq _ _ _ H) as [E _]. split.
  - rewrite E at 1. now rewrite texts_app, texts_cons.
  - unfold remove_nth. now rewrite texts_app.
Qed.

(* ------------------------------------------------------------------ the shape of constructor-built fields *)
Definition entryish (e : rtree) : Prop := exists cs, e = Node ENTRY cs.
Definition relationish (e : rtree) : Prop := exists cs, e = Node RELATION cs.
Definition sepE (es : list rtree) : list rtree := flat_map (fun e => [t_comma; t_space; e]) es.
Definition sepR (rs : list rtree) : list rtree := flat_map (fun r => [t_space; t_pipe; t_space; r]) rs.

Lemma join_entries_S i es : join_entries (S i) es = sepE es.
Proof. revert i; induction es as [|e r IH]; intros i; cbn; [reflexivity|]. now rewrite IH. Qed.
Lemma join_entries_0 e es : join_entries 0 (e :: es) = e :: sepE es.
Proof. cbn. now rewrite join_entries_S. Qed.
Lemma join_relations_S i rs : join_relations fixed (S i) rs = sepR rs.
Proof. revert i; induction rs as [|e r IH]; intros i; cbn; [reflexivity|]. now rewrite IH. Qed.
Lemma join_relations_0 r rs : join_relations fixed 0 (r :: rs) = r :: sepR rs.
Proof. cbn. now rewrite join_relations_S. Qed.

Lemma sepE_app a b : sepE (a ++ b) = sepE a ++ sepE b.
Proof. apply flat_map_app. Qed.
Lemma sepR_app a b : sepR (a ++ b) = sepR a ++ sepR b.
Proof. apply flat_map_app. Qed.
Lemma sepE_length es : length (sepE es) = 3 * length es.
Proof. unfold sepE. induction es as [|e r IH]; cbn; [reflexivity|]. rewrite IH. lia. Qed.
Lemma sepR_length rs : length (sepR rs) = 4 * length rs.
Proof. unfold sepR. induction rs as [|e r IH]; cbn; [reflexivity|]. rewrite IH. lia. Qed.

Lemma entryish_is_entry e : entryish e -> is_entry e = true.
Proof. intros [cs ->]. reflexivity. Qed.
Lemma entryish_not_ws e : entryish e -> ws_elem e = false.
Proof. intros [cs ->]. reflexivity. Qed.
Lemma entryish_not_comma e : entryish e -> kind_is COMMA e = false.
Proof. intros [cs ->]. reflexivity. Qed.
Lemma relationish_is_relation e : relationish e -> is_relation e = true.
Proof. intros [cs ->]. reflexivity. Qed.
Lemma relationish_not_ws e : relationish e -> ws_elem e = false.
Proof. intros [cs ->]. reflexivity. Qed.

Lemma centry_entryish e : entryish (centry_tree e).
Proof. eexists. reflexivity. Qed.
Lemma crel_relationish r : relationish (crel_tree r).
Proof. eexists. reflexivity. Qed.

(* position of the n-th entry among ", e, e, ..." *)
Lemma nth_index_sepE n es : Forall entryish es ->
  nth_index is_entry n (sepE es) = if n <? length es then Some (3 * n + 2) else None.
Proof.
  intros H. revert n. induction H as [|e r He Hr IH]; intros n; [destruct n; reflexivity|].
  cbn [sepE flat_map app nth_index].
  change (is_entry t_comma) with false. change (is_entry t_space) with false. cbn iota.
  rewrite (entryish_is_entry _ He). destruct n as [|n]; [reflexivity|].
  change (flat_map (fun e0 => [t_comma; t_space; e0]) r) with (sepE r). rewrite IH.
  cbn [length]. destruct (n <? length r) eqn:E.
  - assert (S n <? S (length r) = true) as -> by (apply Nat.ltb_lt; apply Nat.ltb_lt in E; lia).
    cbn. f_equal. lia.
  - assert (S n <? S (length r) = false) as -> by (apply Nat.ltb_ge; apply Nat.ltb_ge in E; lia).
    reflexivity.
Qed.

Lemma nth_index_join_entries n es : Forall entryish es ->
  nth_index is_entry n (join_entries 0 es) = if n <? length es then Some (3 * n) else None.
Proof.
  intros H. destruct H as [|e r He Hr]; [destruct n; reflexivity|].
  rewrite join_entries_0. cbn [nth_index]. rewrite (entryish_is_entry _ He).
  destruct n as [|n]; [reflexivity|]. rewrite (nth_index_sepE _ _ Hr). cbn [length].
  destruct (n <? length r) eqn:E.
  - assert (S n <? S (length r) = true) as -> by (apply Nat.ltb_lt; apply Nat.ltb_lt in E; lia).
    cbn. f_equal. lia.
  - assert (S n <? S (length r) = false) as -> by (apply Nat.ltb_ge; apply Nat.ltb_ge in E; lia).
    reflexivity.
Qed.

Lemma count_entries_sepE es : Forall entryish es -> count_if is_entry (sepE es) = length es.
Proof.
  intros H. induction H as [|e r He Hr IH]; [reflexivity|].
  unfold count_if in *. cbn [sepE flat_map app filter].
  change (is_entry t_comma) with false. change (is_entry t_space) with false. cbn iota.
  rewrite (entryish_is_entry _ He). cbn [length]. f_equal. exact IH.
Qed.
Lemma count_entries_join es : Forall entryish es -> count_if is_entry (join_entries 0 es) = length es.
Proof.
  intros H. destruct H as [|e r He Hr]; [reflexivity|].
  rewrite join_entries_0. unfold count_if. cbn [filter]. rewrite (entryish_is_entry _ He).
  cbn [length]. f_equal. apply (count_entries_sepE _ Hr).
Qed.

Lemma join_entries_length es : length (join_entries 0 es) = 3 * length es - 2.
Proof.
  destruct es as [|e r]; [reflexivity|]. rewrite join_entries_0.
  change (length (e :: sepE r)) with (S (length (sepE r))). rewrite sepE_length.
  change (length (e :: r)) with (S (length r)). lia.
Qed.

(* inserting "e, " in front of the n-th entry *)
Lemma insert_sepE n eg es : n <= length es ->
  insert_at (3 * n) [t_comma; t_space; eg] (sepE es) = sepE (l_insert n eg es).
Proof.
  revert n; induction es as [|e r IH]; intros n H.
  - cbn in H. assert (n = 0) as -> by lia. reflexivity.
  - destruct n as [|n]; [reflexivity|].
    replace (3 * S n) with (S (S (S (3 * n)))) by lia.
    cbn [sepE flat_map app]. rewrite !insert_at_S.
    change (flat_map (fun e0 => [t_comma; t_space; e0]) r) with (sepE r).
    rewrite IH by (cbn in H; lia). reflexivity.
Qed.

Lemma insert_join_entries n eg es : n < length es ->
  insert_at (3 * n) [eg; t_comma; t_space] (join_entries 0 es) = join_entries 0 (l_insert n eg es).
Proof.
  intros H. destruct es as [|e r]; [cbn in H; lia|].
  destruct n as [|n].
  - cbn [Nat.mul]. rewrite insert_at_0. unfold l_insert. cbn [firstn skipn app].
    rewrite !join_entries_0. reflexivity.
  - rewrite join_entries_0. replace (3 * S n) with (S (3 * n + 2)) by lia. rewrite insert_at_S.
    unfold l_insert. cbn [firstn skipn app]. rewrite join_entries_0. f_equal.
    (* [eg; ","; " "] inserted at 3n+2 of ", e1, e2..." = ", " then eg ... *)
    cbn in H. assert (Hn : n < length r) by lia. clear H.
    revert n Hn. induction r as [|x r IH]; intros n Hn; [cbn in Hn; lia|].
    destruct n as [|n].
    + reflexivity.
    + replace (3 * S n + 2) with (S (S (S (3 * n + 2)))) by lia.
      cbn [sepE flat_map app]. rewrite !insert_at_S.
      change (flat_map (fun e0 => [t_comma; t_space; e0]) r) with (sepE r).
      rewrite IH by (cbn in Hn; lia). reflexivity.
Qed.

(* the last significant child of a non-empty constructor-built field is its last entry *)
Lemma join_entries_last es e : join_entries 0 (es ++ [e]) =
  join_entries 0 es ++ (match es with [] => [] | _ => [t_comma; t_space] end) ++ [e].
Proof.
  destruct es as [|x r]; [reflexivity|].
  cbn [app]. rewrite !join_entries_0. rewrite sepE_app. cbn [sepE flat_map app].
  rewrite <- ?app_assoc. reflexivity.
Qed.

Lemma last_significant_snoc cs e : ws_elem e = false -> last_significant (cs ++ [e]) = (Some e, 0).
Proof.
  intros H. unfold last_significant. rewrite rev_app_distr. cbn [rev app ws_prefix_len]. rewrite H. reflexivity.
Qed.

Lemma list_snoc_cases {A} (l : list A) : l = [] \/ exists a x, l = a ++ [x].
Proof.
  induction l as [|y r IH] using rev_ind; [now left|]. right. now exists r, y.
Qed.

(* Relations::insert / push on a constructor-built field *)
Lemma insert_plan_canon es idx eg : Forall entryish es ->
  let '(pos, new) := insert_plan fixed (join_entries 0 es) idx eg in
  insert_at pos new (join_entries 0 es) = join_entries 0 (l_insert idx eg es).
Proof.
  intros H. unfold insert_plan. rewrite (nth_index_join_entries _ _ H).
  destruct (idx <? length es) eqn:E.
  - apply Nat.ltb_lt in E. cbn [fx_insert_first fixed negb andb]. now apply insert_join_entries.
  - apply Nat.ltb_ge in E. cbn [fx_append_sep fixed].
    unfold l_insert. rewrite firstn_all2 by lia. rewrite skipn_all2 by lia.
    destruct (list_snoc_cases es) as [->|(a & x & ->)].
    + reflexivity.
    + apply Forall_app in H. destruct H as [Ha Hx]. inversion Hx as [|? ? Hx' _]; subst.
      rewrite (join_entries_last a x). rewrite !app_assoc.
      rewrite last_significant_snoc by now apply entryish_not_ws.
      rewrite (entryish_not_comma _ Hx'). rewrite insert_at_end by lia.
      rewrite <- !app_assoc. rewrite (app_assoc a [x] [eg]).
      rewrite (join_entries_last (a ++ [x]) eg). rewrite (join_entries_last a x).
      destruct a; cbn [app]; rewrite <- ?app_assoc; reflexivity.
Qed.

Lemma relations_insert_green_canon f idx e :
  relations_insert_green fixed (cfield_tree f) idx (centry_tree e) = cfield_tree (l_insert idx e f).
Proof.
  unfold relations_insert_green, cfield_tree, relations_from_entries. cbn [children set_children ekind].
  assert (H : Forall entryish (map centry_tree f)).
  { apply Forall_forall. intros x Hx. apply in_map_iff in Hx. destruct Hx as (y & <- & _). apply centry_entryish. }
  pose proof (insert_plan_canon (map centry_tree f) idx (centry_tree e) H) as P.
  destruct (insert_plan fixed (join_entries 0 (map centry_tree f)) idx (centry_tree e)) as [pos new].
  rewrite P. f_equal. f_equal. unfold l_insert. rewrite map_app. cbn [map]. now rewrite firstn_map, skipn_map.
Qed.

(* ------------------------------------------------------------------ splitting at a position *)
Lemma firstn_app_len {A} (a b : list A) : firstn (length a) (a ++ b) = a.
Proof. induction a as [|x r IH]; cbn; [now destruct b|]. now rewrite IH. Qed.
Lemma skipn_app_len {A} (a b : list A) : skipn (length a) (a ++ b) = b.
Proof. induction a as [|x r IH]; cbn; auto. Qed.
Lemma skipn_S_app_len {A} (a : list A) x b : skipn (S (length a)) (a ++ x :: b) = b.
Proof. induction a as [|y r IH]; cbn; auto. Qed.
Lemma nth_error_app_len {A} (a : list A) x b : nth_error (a ++ x :: b) (length a) = Some x.
Proof. induction a as [|y r IH]; cbn; auto. Qed.
Lemma remove_nth_app_len {A} (a : list A) x b : remove_nth (length a) (a ++ x :: b) = a ++ b.
Proof. unfold remove_nth. now rewrite firstn_app_len, skipn_S_app_len. Qed.
Lemma insert_at_app_len {A} (a new b : list A) : insert_at (length a) new (a ++ b) = a ++ new ++ b.
Proof. unfold insert_at. now rewrite firstn_app_len, skipn_app_len. Qed.
Lemma list_split_at {A} (l : list A) i : i < length l ->
  exists a x b, l = a ++ x :: b /\ length a = i.
Proof.
  intros H. destruct (nth_error l i) as [x|] eqn:E.
  - destruct (nth_error_split_eq _ _ _ E) as [E1 L]. now exists (firstn i l), x, (skipn (S i) l).
  - apply nth_error_None in E. lia.
Qed.

(* the entries in front of the i-th one, with the separator that follows them *)
Definition preE (a : list rtree) : list rtree :=
  match a with [] => [] | _ => join_entries 0 a ++ [t_comma; t_space] end.
Lemma join_entries_split a x b : join_entries 0 (a ++ x :: b) = preE a ++ x :: sepE b.
Proof.
  destruct a as [|y r]; [cbn [app preE]; now rewrite join_entries_0|].
  cbn [app preE]. rewrite !join_entries_0. rewrite sepE_app. cbn [sepE flat_map app].
  rewrite <- app_assoc. reflexivity.
Qed.
Lemma preE_length a : length (preE a) = 3 * length a.
Proof.
  destruct a as [|y r]; [reflexivity|]. unfold preE. rewrite app_length, join_entries_length.
  cbn [length]. lia.
Qed.
Lemma preE_snoc a x : preE (a ++ [x]) = preE a ++ [x; t_comma; t_space].
Proof.
  unfold preE at 1. destruct (a ++ [x]) eqn:E; [destruct a; discriminate|]. rewrite <- E.
  rewrite (join_entries_split a x []). cbn [sepE flat_map]. now rewrite <- app_assoc.
Qed.
Lemma join_entries_preE a : a <> [] -> preE a = join_entries 0 a ++ [t_comma; t_space].
Proof. destruct a; [congruence|reflexivity]. Qed.

(* Relations::replace: child 3i of the root replaced *)
Lemma replace_join_entries a x b eg :
  preE a ++ eg :: sepE b = join_entries 0 (l_replace (length a) eg (a ++ x :: b)).
Proof.
  unfold l_replace. rewrite firstn_app_len, skipn_S_app_len. now rewrite join_entries_split.
Qed.

(* ------------------------------------------------------------------ Entry::remove, as a list function *)
Lemma sepE_head_cases b : Forall entryish b ->
  (b = [] /\ entry_remove_scan_next (sepE b) = Ok (0, false)) \/
  (exists y b', b = y :: b' /\ entryish y /\ entry_remove_scan_next (sepE b) = Ok (1, true) /\
     skipn 1 (sepE b) = t_space :: y :: sepE b').
Proof.
  intros H. destruct H as [|y b' Hy Hb]; [left; split; reflexivity|].
  right. exists y, b'. repeat split; auto.
Qed.

Lemma ws_prefix_len_entry y l : entryish y -> ws_prefix_len (y :: l) = 0.
Proof. intros H. cbn [ws_prefix_len]. now rewrite (entryish_not_ws _ H). Qed.

Lemma existsb_preE a : Forall entryish a -> a <> [] ->
  existsb (fun c => is_entry c || (fx_first_substvar fixed && node_is SUBSTVAR c)) (preE a) = true.
Proof.
  intros H Hne. destruct H as [|y r Hy Hr]; [congruence|].
  unfold preE. rewrite join_entries_0. cbn [app existsb]. now rewrite (entryish_is_entry _ Hy).
Qed.

Lemma rev_preE_snoc a x : rev (preE (a ++ [x])) = t_space :: t_comma :: x :: rev (preE a).
Proof. rewrite preE_snoc, rev_app_distr. reflexivity. Qed.

Lemma entry_remove_cs_canon es i : Forall entryish es -> i < length es ->
  entry_remove_cs fixed (join_entries 0 es) (3 * i) = Ok (join_entries 0 (l_remove i es)).
Proof.
  intros H Hi. destruct (list_split_at es i Hi) as (a & x & b & -> & La).
  apply Forall_app in H. destruct H as [Ha Hxb]. inversion Hxb as [|? ? Hx Hb]; subst.
  rewrite join_entries_split. unfold entry_remove_cs, l_remove.
  rewrite <- (preE_length a). rewrite firstn_app_len, skipn_S_app_len.
  rewrite (preE_length a). rewrite firstn_app_len, skipn_S_app_len.
  destruct (list_snoc_cases a) as [->|(a' & z & ->)].
  - (* the first entry *)
    cbn [preE existsb negb app length Nat.mul].
    destruct (sepE_head_cases b Hb) as [[-> ->]|(y & b' & -> & Hy & -> & ->)].
    + reflexivity.
    + cbn [ws_prefix_len]. change (ws_elem t_space) with true. cbn iota.
      rewrite (entryish_not_ws _ Hy). cbn [skipn]. now rewrite join_entries_0.
  - (* a later entry *)
    rewrite existsb_preE by (auto; destruct a'; discriminate). cbn [negb].
    apply Forall_app in Ha. destruct Ha as [Ha' Hz]. inversion Hz as [|? ? Hz' _]; subst.
    destruct (sepE_head_cases b Hb) as [[-> ->]|(y & b' & -> & Hy & -> & ->)].
    + (* the last one: the separator in front goes *)
      unfold entry_remove_scan_prev. rewrite rev_preE_snoc.
      cbn [ws_prefix_len skipn negb andb]. change (ws_elem t_space) with true. cbn iota.
      change (ws_elem t_comma) with false. cbn iota. cbn [skipn]. change (kind_is COMMA t_comma) with true. cbn iota.
      rewrite preE_snoc. rewrite app_length. cbn [length].
      replace (3 * (length a' + 1) - 2) with (length (preE a' ++ [z])) by (rewrite app_length, preE_length; cbn [length]; lia).
      replace (preE a' ++ [z; t_comma; t_space]) with ((preE a' ++ [z]) ++ [t_comma; t_space]) by (now rewrite <- app_assoc).
      rewrite firstn_app_len. cbn [sepE flat_map]. rewrite !app_nil_r.
      rewrite (join_entries_split a' z []). reflexivity.
    + (* a middle one: the separator after it goes, and the blank in front of it *)
      unfold entry_remove_scan_prev. rewrite rev_preE_snoc.
      cbn [ws_prefix_len skipn negb andb]. change (ws_elem t_space) with true. cbn iota.
      change (ws_elem t_comma) with false. cbn iota. cbn [skipn negb andb].
      rewrite preE_snoc. rewrite app_length. cbn [length].
      replace (3 * (length a' + 1) - 1) with (length (preE a' ++ [z; t_comma])) by (rewrite app_length, preE_length; cbn [length]; lia).
      replace (preE a' ++ [z; t_comma; t_space]) with ((preE a' ++ [z; t_comma]) ++ [t_space]) by (now rewrite <- app_assoc).
      rewrite firstn_app_len.
      rewrite <- app_assoc. cbn [app].
      rewrite <- app_assoc. cbn [app]. rewrite (join_entries_split a' z (y :: b')). reflexivity.
Qed.

(* ------------------------------------------------------------------ reading a constructor-built field *)
Lemma filter_sepE es : Forall entryish es -> filter is_entry (sepE es) = es.
Proof.
  intros H. induction H as [|e r He Hr IH]; [reflexivity|].
  cbn [sepE flat_map app filter]. change (is_entry t_comma) with false. change (is_entry t_space) with false.
  cbn iota. rewrite (entryish_is_entry _ He). f_equal. exact IH.
Qed.
Lemma filter_join_entries es : Forall entryish es -> filter is_entry (join_entries 0 es) = es.
Proof.
  intros H. destruct H as [|e r He Hr]; [reflexivity|]. rewrite join_entries_0. cbn [filter].
  rewrite (entryish_is_entry _ He). f_equal. now apply filter_sepE.
Qed.
Lemma filter_sepR rs : Forall relationish rs -> filter is_relation (sepR rs) = rs.
Proof.
  intros H. induction H as [|e r He Hr IH]; [reflexivity|].
  cbn [sepR flat_map app filter]. change (is_relation t_pipe) with false. change (is_relation t_space) with false.
  cbn iota. rewrite (relationish_is_relation _ He). f_equal. exact IH.
Qed.
Lemma filter_join_relations rs : Forall relationish rs -> filter is_relation (join_relations fixed 0 rs) = rs.
Proof.
  intros H. destruct H as [|e r He Hr]; [reflexivity|]. rewrite join_relations_0. cbn [filter].
  rewrite (relationish_is_relation _ He). f_equal. now apply filter_sepR.
Qed.

Lemma Forall_entryish_map f : Forall entryish (map centry_tree f).
Proof. apply Forall_forall. intros x Hx. apply in_map_iff in Hx. destruct Hx as (y & <- & _). apply centry_entryish. Qed.
Lemma Forall_relationish_map e : Forall relationish (map crel_tree e).
Proof. apply Forall_forall. intros x Hx. apply in_map_iff in Hx. destruct Hx as (y & <- & _). apply crel_relationish. Qed.

Lemma entries_cfield f : entries (cfield_tree f) = map centry_tree f.
Proof. unfold entries, cfield_tree, relations_from_entries. cbn [children]. apply filter_join_entries, Forall_entryish_map. Qed.
Lemma relations_centry e : relations (centry_tree e) = map crel_tree e.
Proof. unfold relations, centry_tree, entry_from_relations. cbn [children]. apply filter_join_relations, Forall_relationish_map. Qed.

Lemma relrec_of_crel r : plain r = true -> relrec_of (crel_tree r) = Ok r.
Proof.
  unfold plain. destruct r as [n q v [ar|] [|g pr]]; cbn [rr_archs rr_profs rr_ver]; try discriminate.
  destruct v as [[vc [|c ver]]|]; cbn [ver_ok]; try discriminate; intros _;
    destruct q as [q|]; try destruct vc; cbn; rewrite ?app_nil_r; reflexivity.
Qed.

Lemma mapM_map_ok {A B} (f : A -> res B) (g : B -> A) l :
  (forall x, In x l -> f (g x) = Ok x) -> mapM f (map g l) = Ok l.
Proof.
  induction l as [|x r IH]; intros H; [reflexivity|]. cbn [map mapM].
  rewrite (H x (or_introl eq_refl)). rewrite IH by (intros y Hy; apply H; now right). reflexivity.
Qed.

Lemma structure_cfield f : plain_field f = true -> structure (cfield_tree f) = Ok f.
Proof.
  intros H. unfold structure. rewrite entries_cfield. apply mapM_map_ok. intros e He.
  rewrite relations_centry. apply mapM_map_ok. intros r Hr. apply relrec_of_crel.
  unfold plain_field in H. rewrite forallb_forall in H. specialize (H e He).
  unfold plain_entry in H. rewrite forallb_forall in H. now apply H.
Qed.

Lemma map_l_replace {A B} (g : A -> B) i x l : map g (l_replace i x l) = l_replace i (g x) (map g l).
Proof. unfold l_replace. rewrite map_app. cbn [map]. now rewrite firstn_map, skipn_map. Qed.
Lemma map_l_insert {A B} (g : A -> B) i x l : map g (l_insert i x l) = l_insert i (g x) (map g l).
Proof. unfold l_insert. rewrite map_app. cbn [map]. now rewrite firstn_map, skipn_map. Qed.
Lemma map_l_remove {A B} (g : A -> B) i l : map g (l_remove i l) = l_remove i (map g l).
Proof. unfold l_remove. rewrite map_app. now rewrite firstn_map, skipn_map. Qed.

(* ------------------------------------------------------------------ alternatives inside an entry *)
Definition preR (a : list rtree) : list rtree :=
  match a with [] => [] | _ => join_relations fixed 0 a ++ [t_space; t_pipe; t_space] end.
Lemma join_relations_split a x b : join_relations fixed 0 (a ++ x :: b) = preR a ++ x :: sepR b.
Proof.
  destruct a as [|y r]; [cbn [app preR]; now rewrite join_relations_0|].
  cbn [app preR]. rewrite !join_relations_0. rewrite sepR_app. cbn [sepR flat_map app].
  rewrite <- app_assoc. reflexivity.
Qed.
Lemma join_relations_length rs : length (join_relations fixed 0 rs) = 4 * length rs - 3.
Proof.
  destruct rs as [|e r]; [reflexivity|]. rewrite join_relations_0.
  change (length (e :: sepR r)) with (S (length (sepR r))). rewrite sepR_length.
  change (length (e :: r)) with (S (length r)). lia.
Qed.
Lemma preR_length a : length (preR a) = 4 * length a.
Proof.
  destruct a as [|y r]; [reflexivity|]. unfold preR. rewrite app_length, join_relations_length.
  cbn [length]. lia.
Qed.
Lemma preR_snoc a x : preR (a ++ [x]) = preR a ++ [x; t_space; t_pipe; t_space].
Proof.
  unfold preR at 1. destruct (a ++ [x]) eqn:E; [destruct a; discriminate|]. rewrite <- E.
  rewrite (join_relations_split a x []). cbn [sepR flat_map]. now rewrite <- app_assoc.
Qed.

Lemma nth_index_sepR n rs : Forall relationish rs ->
  nth_index is_relation n (sepR rs) = if n <? length rs then Some (4 * n + 3) else None.
Proof.
  intros H. revert n. induction H as [|e r He Hr IH]; intros n; [destruct n; reflexivity|].
  cbn [sepR flat_map app nth_index].
  change (is_relation t_pipe) with false. change (is_relation t_space) with false. cbn iota.
  rewrite (relationish_is_relation _ He). destruct n as [|n]; [reflexivity|].
  change (flat_map (fun e0 => [t_space; t_pipe; t_space; e0]) r) with (sepR r). rewrite IH.
  cbn [length]. destruct (n <? length r) eqn:E.
  - assert (S n <? S (length r) = true) as -> by (apply Nat.ltb_lt; apply Nat.ltb_lt in E; lia).
    cbn. f_equal. lia.
  - assert (S n <? S (length r) = false) as -> by (apply Nat.ltb_ge; apply Nat.ltb_ge in E; lia).
    reflexivity.
Qed.
Lemma nth_index_join_relations n rs : Forall relationish rs ->
  nth_index is_relation n (join_relations fixed 0 rs) = if n <? length rs then Some (4 * n) else None.
Proof.
  intros H. destruct H as [|e r He Hr]; [destruct n; reflexivity|].
  rewrite join_relations_0. cbn [nth_index]. rewrite (relationish_is_relation _ He).
  destruct n as [|n]; [reflexivity|]. rewrite (nth_index_sepR _ _ Hr). cbn [length].
  destruct (n <? length r) eqn:E.
  - assert (S n <? S (length r) = true) as -> by (apply Nat.ltb_lt; apply Nat.ltb_lt in E; lia).
    cbn. f_equal. lia.
  - assert (S n <? S (length r) = false) as -> by (apply Nat.ltb_ge; apply Nat.ltb_ge in E; lia).
    reflexivity.
Qed.
Lemma count_relations_sepR rs : Forall relationish rs -> count_if is_relation (sepR rs) = length rs.
Proof.
  intros H. induction H as [|e r He Hr IH]; [reflexivity|].
  unfold count_if in *. cbn [sepR flat_map app filter].
  change (is_relation t_pipe) with false. change (is_relation t_space) with false. cbn iota.
  rewrite (relationish_is_relation _ He). cbn [length]. f_equal. exact IH.
Qed.
Lemma count_relations_join rs : Forall relationish rs -> count_if is_relation (join_relations fixed 0 rs) = length rs.
Proof.
  intros H. destruct H as [|e r He Hr]; [reflexivity|].
  rewrite join_relations_0. unfold count_if. cbn [filter]. rewrite (relationish_is_relation _ He).
  cbn [length]. f_equal. apply (count_relations_sepR _ Hr).
Qed.

(* ------------------------------------------------------------------ paths into a constructor-built field *)
Lemma centry_children_split ra r0 rb :
  children (centry_tree (ra ++ r0 :: rb)) =
  preR (map crel_tree ra) ++ crel_tree r0 :: sepR (map crel_tree rb) /\
  length (preR (map crel_tree ra)) = 4 * length ra.
Proof.
  unfold centry_tree, entry_from_relations. cbn [children]. rewrite map_app. cbn [map].
  rewrite join_relations_split. split; [reflexivity|]. now rewrite preR_length, map_length.
Qed.
Lemma cfield_children_split' fa e0 fb :
  children (cfield_tree (fa ++ e0 :: fb)) =
  preE (map centry_tree fa) ++ centry_tree e0 :: sepE (map centry_tree fb) /\
  length (preE (map centry_tree fa)) = 3 * length fa.
Proof.
  unfold cfield_tree, relations_from_entries. cbn [children]. rewrite map_app. cbn [map].
  rewrite join_entries_split. split; [reflexivity|]. now rewrite preE_length, map_length.
Qed.

Lemma get_path_cfield_entry fa e0 fb :
  get_path (cfield_tree (fa ++ e0 :: fb)) [3 * length fa] = Some (centry_tree e0).
Proof.
  destruct (cfield_children_split' fa e0 fb) as [E L]. cbn [get_path]. rewrite E, <- L.
  now rewrite nth_error_app_len.
Qed.
Lemma get_path_centry_rel ra r0 rb :
  get_path (centry_tree (ra ++ r0 :: rb)) [4 * length ra] = Some (crel_tree r0).
Proof.
  destruct (centry_children_split ra r0 rb) as [E L]. cbn [get_path]. rewrite E, <- L.
  now rewrite nth_error_app_len.
Qed.
Lemma get_path_cfield_rel fa ra r0 rb fb :
  get_path (cfield_tree (fa ++ (ra ++ r0 :: rb) :: fb)) [3 * length fa; 4 * length ra] = Some (crel_tree r0).
Proof.
  change [3 * length fa; 4 * length ra] with ([3 * length fa] ++ [4 * length ra]).
  rewrite get_path_app, get_path_cfield_entry. apply get_path_centry_rel.
Qed.

(* replacing the i-th entry / the j-th alternative of the i-th entry *)
Lemma upd_cfield_entry fa e0 fb e' :
  upd_path (cfield_tree (fa ++ e0 :: fb)) [3 * length fa] (fun _ => centry_tree e') =
  cfield_tree (fa ++ e' :: fb).
Proof.
  destruct (cfield_children_split' fa e0 fb) as [E L]. destruct (cfield_children_split' fa e' fb) as [E' _].
  unfold cfield_tree, relations_from_entries in *. cbn [children upd_path] in *. f_equal.
  rewrite E, E', <- L. now rewrite upd_nth_app_r.
Qed.
Lemma upd_centry_rel ra r0 rb r' :
  upd_path (centry_tree (ra ++ r0 :: rb)) [4 * length ra] (fun _ => crel_tree r') =
  centry_tree (ra ++ r' :: rb).
Proof.
  destruct (centry_children_split ra r0 rb) as [E L]. destruct (centry_children_split ra r' rb) as [E' _].
  unfold centry_tree, entry_from_relations in *. cbn [children upd_path] in *. f_equal.
  rewrite E, E', <- L. now rewrite upd_nth_app_r.
Qed.
Lemma upd_path_cons_step t i r f c :
  nth_error (children t) i = Some c -> is_node t = true ->
  upd_path t (i :: r) f = upd_path t [i] (fun _ => upd_path c r f).
Proof.
  intros H N. destruct t as [k s|k cs]; [discriminate|]. cbn [upd_path children] in *. f_equal.
  eapply upd_nth_ext_at; [exact H|reflexivity].
Qed.
Lemma upd_cfield_rel fa ra r0 rb fb r' :
  upd_path (cfield_tree (fa ++ (ra ++ r0 :: rb) :: fb)) [3 * length fa; 4 * length ra] (fun _ => crel_tree r') =
  cfield_tree (fa ++ (ra ++ r' :: rb) :: fb).
Proof.
  pose proof (get_path_cfield_entry fa (ra ++ r0 :: rb) fb) as G. cbn [get_path] in G.
  destruct (nth_error (children (cfield_tree (fa ++ (ra ++ r0 :: rb) :: fb))) (3 * length fa)) as [c|] eqn:E; [|discriminate].
  inversion G; subst c.
  rewrite (upd_path_cons_step _ _ _ _ _ E eq_refl). rewrite upd_centry_rel. apply upd_cfield_entry.
Qed.

(* the list model's view of "apply g to alternative j of entry i" *)
Lemma l_on_relation_split {A} (g : A -> A) (fa : list (list A)) ra r0 rb fb :
  l_on_relation (length fa) (length ra) g (fa ++ (ra ++ r0 :: rb) :: fb) = fa ++ (ra ++ g r0 :: rb) :: fb.
Proof. unfold l_on_relation. rewrite upd_nth_app_r. now rewrite upd_nth_app_r. Qed.

(* ------------------------------------------------------------------ a node seen from its parent *)
Lemma get_path_snoc_inv T pp i N : get_path T (pp ++ [i]) = Some N ->
  exists kd pre post, get_path T pp = Some (Node kd (pre ++ N :: post)) /\ length pre = i.
Proof.
  rewrite get_path_app. destruct (get_path T pp) as [[k s|kd cs]|] eqn:E; try discriminate.
  - cbn. destruct i; discriminate.
  - cbn [get_path children]. destruct (nth_error cs i) as [c|] eqn:Ec; [|discriminate].
    intros [= <-]. destruct (nth_error_split_eq _ _ _ Ec) as [Ecs L].
    exists kd, (firstn i cs), (skipn (S i) cs). now rewrite <- Ecs.
Qed.
Lemma upd_path_app t p q f n :
  get_path t p = Some n -> upd_path t (p ++ q) f = upd_path t p (fun x => upd_path x q f).
Proof.
  revert t; induction p as [|i r IH]; intros t H; cbn in *; [reflexivity|].
  destruct t as [k s|k cs]; cbn in *; [destruct i; discriminate|].
  destruct (nth_error cs i) as [c|] eqn:E; [|discriminate].
  f_equal. eapply upd_nth_ext_at; [exact E|]. now apply IH.
Qed.
Lemma upd_path_snoc T pp kd pre N post C :
  get_path T pp = Some (Node kd (pre ++ N :: post)) ->
  upd_path T (pp ++ [length pre]) (fun _ => C) = upd_path T pp (fun _ => Node kd (pre ++ C :: post)).
Proof.
  intros H. rewrite (upd_path_app _ _ _ _ _ H). eapply upd_path_ext; [exact H|].
  cbn [upd_path]. now rewrite upd_nth_app_r.
Qed.

(* ------------------------------------------------------------------ Relation::remove, as a list function *)
Lemma existsb_preR a : Forall relationish a -> a <> [] -> existsb is_relation (preR a) = true.
Proof.
  intros H Hne. destruct H as [|y r Hy Hr]; [congruence|].
  unfold preR. rewrite join_relations_0. cbn [app existsb]. now rewrite (relationish_is_relation _ Hy).
Qed.
Lemma rev_preR_snoc a x : rev (preR (a ++ [x])) = t_space :: t_pipe :: t_space :: x :: rev (preR a).
Proof. rewrite preR_snoc, rev_app_distr. reflexivity. Qed.

Lemma relation_remove_cs_canon rs j : Forall relationish rs -> j < length rs ->
  relation_remove_cs (join_relations fixed 0 rs) (4 * j) = Ok (join_relations fixed 0 (l_remove j rs)).
Proof.
  intros H Hj. destruct (list_split_at rs j Hj) as (a & x & b & -> & La).
  apply Forall_app in H. destruct H as [Ha Hxb]. inversion Hxb as [|? ? Hx Hb]; subst.
  rewrite join_relations_split. unfold relation_remove_cs, l_remove.
  rewrite <- (preR_length a). rewrite firstn_app_len, skipn_S_app_len.
  rewrite (preR_length a). rewrite firstn_app_len, skipn_S_app_len.
  destruct (list_snoc_cases a) as [->|(a' & z & ->)].
  - (* the first alternative *)
    cbn [preR existsb negb app length Nat.mul].
    destruct Hb as [|y b' Hy Hb']; [reflexivity|].
    unfold relation_remove_scan_next. cbn [sepR flat_map app ws_prefix_len skipn].
    change (ws_elem t_space) with true. change (ws_elem t_pipe) with false. cbn iota. cbn [skipn].
    change (kind_is PIPE t_pipe) with true. cbn iota. cbn [ws_prefix_len].
    change (ws_elem t_space) with true. cbn iota. rewrite (relationish_not_ws _ Hy).
    cbn [Nat.add skipn]. now rewrite join_relations_0.
  - (* a later one *)
    rewrite existsb_preR by (auto; destruct a'; discriminate). cbn [negb].
    apply Forall_app in Ha. destruct Ha as [Ha' Hz]. inversion Hz as [|? ? Hz' _]; subst.
    unfold relation_remove_scan_prev. rewrite rev_preR_snoc.
    cbn [ws_prefix_len skipn]. change (ws_elem t_space) with true. change (ws_elem t_pipe) with false. cbn iota.
    cbn [skipn]. change (kind_is PIPE t_pipe) with true. cbn iota. cbn [ws_prefix_len].
    change (ws_elem t_space) with true. cbn iota. rewrite (relationish_not_ws _ Hz'). cbn [Nat.add].
    rewrite preR_snoc. rewrite app_length. cbn [length].
    replace (4 * (length a' + 1) - 3) with (length (preR a' ++ [z])) by (rewrite app_length, preR_length; cbn [length]; lia).
    replace (preR a' ++ [z; t_space; t_pipe; t_space]) with ((preR a' ++ [z]) ++ [t_space; t_pipe; t_space]) by (now rewrite <- app_assoc).
    rewrite firstn_app_len. rewrite <- !app_assoc. cbn [app].
    rewrite (join_relations_split a' z b). reflexivity.
Qed.

(* ------------------------------------------------------------------ the text of a constructor-built field *)
Lemma text_crel r : text (crel_tree r) = render_rel r.
Proof.
  destruct r as [n [q|] [[[] ver]|] ar pr]; unfold crel_tree, render_rel; rewrite text_node;
    cbn [rr_name rr_qual rr_ver texts flat_map text app vc_text vc_toks version_node archqual_node t_space];
    rewrite ?app_nil_r, <- ?app_assoc; reflexivity.
Qed.

Lemma texts_sepR rs : texts (sepR rs) = flat_map (fun r => [32; 124; 32]%N ++ text r) rs.
Proof. unfold sepR, texts. induction rs as [|r rs IH]; cbn; [reflexivity|]. now rewrite IH. Qed.
Lemma texts_sepE es : texts (sepE es) = flat_map (fun e => [44; 32]%N ++ text e) es.
Proof. unfold sepE, texts. induction es as [|e es IH]; cbn; [reflexivity|]. now rewrite IH. Qed.

Lemma join_with_cons sep x l :
  join_with sep (x :: l) = x ++ flat_map (fun y => sep ++ y) l.
Proof.
  revert x; induction l as [|y r IH]; intros x; [cbn; now rewrite app_nil_r|].
  change (join_with sep (x :: y :: r)) with (x ++ sep ++ join_with sep (y :: r)).
  rewrite IH. cbn [flat_map]. now rewrite <- app_assoc.
Qed.

Lemma text_centry e : text (centry_tree e) = render_entry e.
Proof.
  unfold centry_tree, entry_from_relations, render_entry. rewrite text_node.
  destruct e as [|r e]; [reflexivity|]. cbn [map]. rewrite join_relations_0, join_with_cons.
  rewrite texts_cons, texts_sepR, text_crel. f_equal.
  induction e as [|x e IH]; cbn [map flat_map]; [reflexivity|]. now rewrite IH, text_crel.
Qed.
Lemma text_cfield f : text (cfield_tree f) = render_field f.
Proof.
  unfold cfield_tree, relations_from_entries, render_field. rewrite text_node.
  destruct f as [|e f]; [reflexivity|]. cbn [map]. rewrite join_entries_0, join_with_cons.
  rewrite texts_cons, texts_sepE, text_centry. f_equal.
  induction f as [|x f IH]; cbn [map flat_map]; [reflexivity|]. now rewrite IH, text_centry.
Qed.

(* ------------------------------------------------------------------ bounds of the scans *)
Lemma ws_prefix_len_le l : ws_prefix_len l <= length l.
Proof. induction l as [|c r IH]; cbn; [lia|]. destruct (ws_elem c); lia. Qed.
Lemma skipn_length_le {A} n (l : list A) : length (skipn n l) = length l - n.
Proof. apply skipn_length. Qed.
Lemma entry_remove_scan_next_le post k rc : entry_remove_scan_next post = Ok (k, rc) -> k <= length post.
Proof.
  unfold entry_remove_scan_next. pose proof (ws_prefix_len_le post) as H.
  destruct (skipn (ws_prefix_len post) post) as [|c r] eqn:E.
  - intros [= <- <-]. exact H.
  - destruct (kind_is COMMA c); [|discriminate]. intros [= <- <-].
    assert (length (skipn (ws_prefix_len post) post) = S (length r)) by now rewrite E.
    rewrite skipn_length in H0. lia.
Qed.
Lemma entry_remove_scan_prev_le rc pre : entry_remove_scan_prev rc pre <= length pre.
Proof.
  unfold entry_remove_scan_prev. pose proof (ws_prefix_len_le (rev pre)) as H. rewrite rev_length in H.
  destruct (skipn (ws_prefix_len (rev pre)) (rev pre)) as [|c r] eqn:E; [exact H|].
  assert (length (skipn (ws_prefix_len (rev pre)) (rev pre)) = S (length r)) by now rewrite E.
  rewrite skipn_length, rev_length in H0. destruct (negb rc && kind_is COMMA c); lia.
Qed.


Lemma relation_remove_scan_next_le post k : relation_remove_scan_next post = Ok k -> k <= length post.
Proof.
  unfold relation_remove_scan_next. pose proof (ws_prefix_len_le post) as H.
  destruct (skipn (ws_prefix_len post) post) as [|c r] eqn:E.
  - intros [= <-]. exact H.
  - destruct (kind_is PIPE c); [|discriminate]. intros [= <-].
    assert (length (skipn (ws_prefix_len post) post) = S (length r)) by now rewrite E.
    rewrite skipn_length in H0. pose proof (ws_prefix_len_le r). lia.
Qed.
Lemma relation_remove_scan_prev_le pre : relation_remove_scan_prev pre <= length pre.
Proof.
  unfold relation_remove_scan_prev. pose proof (ws_prefix_len_le (rev pre)) as H. rewrite rev_length in H.
  destruct (skipn (ws_prefix_len (rev pre)) (rev pre)) as [|c r] eqn:E; [exact H|].
  assert (length (skipn (ws_prefix_len (rev pre)) (rev pre)) = S (length r)) by now rewrite E.
  rewrite skipn_length, rev_length in H0. pose proof (ws_prefix_len_le r).
  destruct (kind_is PIPE c); lia.
Qed.


(* ------------------------------------------------------------------ frame: what the list surgery touches, on ANY children list *)
Definition sep_tok (c : rtree) : Prop := ws_elem c = true \/ kind_is COMMA c = true.
Definition alt_sep_tok (c : rtree) : Prop := ws_elem c = true \/ kind_is PIPE c = true.

Lemma ws_prefix_split l : exists w rest, l = w ++ rest /\ length w = ws_prefix_len l /\
  Forall (fun c => ws_elem c = true) w.
Proof.
  induction l as [|c r IH]; [now exists [], []|]. cbn [ws_prefix_len].
  destruct (ws_elem c) eqn:E; [|now exists [], (c :: r)].
  destruct IH as (w & rest & -> & L & F). exists (c :: w), rest. cbn. repeat split; auto.
Qed.

Lemma Forall_ws_sep l : Forall (fun c => ws_elem c = true) l -> Forall sep_tok l.
Proof. apply Forall_impl. intros c H. now left. Qed.
Lemma Forall_ws_alt l : Forall (fun c => ws_elem c = true) l -> Forall alt_sep_tok l.
Proof. apply Forall_impl. intros c H. now left. Qed.

(* Entry::remove deletes the entry, white space and at most one comma next to it: every other
   child (other entries, substitution variables, their separators) stays, in order *)
Lemma entry_remove_cs_frame v pre x post cs' :
  entry_remove_cs v (pre ++ x :: post) (length pre) = Ok cs' ->
  exists a g1 g2 b, pre = a ++ g1 /\ post = g2 ++ b /\ cs' = a ++ b /\ Forall sep_tok (g1 ++ g2).
Proof.
  unfold entry_remove_cs. rewrite firstn_app_len, skipn_S_app_len.
  unfold entry_remove_scan_next.
  destruct (ws_prefix_split post) as (w & rest & Epost & Lw & Fw). rewrite <- Lw.
  rewrite Epost, skipn_app_len.
  assert (Hnext : forall k rc, (match rest with
                     | [] => Ok (length w, false)
                     | c :: _ => if kind_is COMMA c then Ok (S (length w), true) else Panic 42
                     end) = Ok (k, rc) ->
            exists g2 b, w ++ rest = g2 ++ b /\ skipn k (w ++ rest) = b /\ Forall sep_tok g2).
  { intros k rc H. destruct rest as [|c r].
    - inversion H; subst. exists w, []. rewrite skipn_app_len. auto using Forall_ws_sep.
    - destruct (kind_is COMMA c) eqn:Ec; [|discriminate]. inversion H; subst.
      exists (w ++ [c]), r. rewrite <- app_assoc. split; [reflexivity|]. split.
      + replace (S (length w)) with (length (w ++ [c])) by (rewrite app_length; cbn; lia).
        replace (w ++ c :: r) with ((w ++ [c]) ++ r) by (now rewrite <- app_assoc). apply skipn_app_len.
      + apply Forall_app. split; [now apply Forall_ws_sep|]. constructor; [now right|constructor]. }
  destruct (match rest with
            | [] => Ok (length w, false)
            | c :: _ => if kind_is COMMA c then Ok (S (length w), true) else Panic 42
            end) as [[k1 rc]| | |] eqn:Esc; try discriminate.
  destruct (Hnext k1 rc eq_refl) as (g2 & b & E2 & Sk & F2).
  destruct (negb (existsb _ pre)).
  - intros [= <-]. rewrite Sk.
    destruct (ws_prefix_split b) as (w' & rest' & Eb & Lw' & Fw'). rewrite <- Lw'. rewrite Eb, skipn_app_len.
    exists pre, [], (g2 ++ w'), rest'. rewrite app_nil_r. repeat split.
    + rewrite E2, Eb. now rewrite app_assoc.
    + cbn [app]. apply Forall_app. auto using Forall_ws_sep.
  - intros [= <-]. rewrite Sk.
    set (k2 := entry_remove_scan_prev rc pre).
    assert (Hk2 : k2 <= length pre) by apply entry_remove_scan_prev_le.
    exists (firstn (length pre - k2) pre), (skipn (length pre - k2) pre), g2, b.
    repeat split; auto using firstn_skipn.
    apply Forall_app. split; [|exact F2].
    (* the removed suffix of pre is white space, possibly preceded by a comma *)
    unfold k2, entry_remove_scan_prev.
    destruct (ws_prefix_split (rev pre)) as (wp & restp & Erev & Lwp & Fwp). rewrite <- Lwp.
    rewrite Erev, skipn_app_len.
    assert (Epre : pre = rev restp ++ rev wp) by (rewrite <- rev_app_distr, <- Erev; now rewrite rev_involutive).
    assert (Lpre : length pre = length restp + length wp) by (rewrite Epre, app_length, !rev_length; lia).
    destruct restp as [|c r].
    + replace (length pre - length wp) with 0 by (cbn in Lpre; lia). cbn [skipn].
      rewrite Epre. cbn [rev app]. apply Forall_ws_sep. now apply Forall_rev.
    + destruct (negb rc && kind_is COMMA c) eqn:Ec.
      * apply andb_prop in Ec. destruct Ec as [_ Ec].
        replace (length pre - S (length wp)) with (length (rev r)) by (rewrite rev_length; cbn in Lpre; lia).
        rewrite Epre. cbn [rev]. rewrite <- app_assoc. rewrite skipn_app_len. cbn [app].
        constructor; [now right|]. apply Forall_ws_sep. now apply Forall_rev.
      * replace (length pre - length wp) with (length (rev (c :: r))) by (rewrite rev_length; cbn in *; lia).
        rewrite Epre. rewrite skipn_app_len. apply Forall_ws_sep. now apply Forall_rev.
Qed.

(* Relation::remove deletes the alternative, white space and at most one pipe next to it *)
Lemma relation_remove_cs_frame pre x post cs' :
  relation_remove_cs (pre ++ x :: post) (length pre) = Ok cs' ->
  exists a g1 g2 b, pre = a ++ g1 /\ post = g2 ++ b /\ cs' = a ++ b /\ Forall alt_sep_tok (g1 ++ g2).
Proof.
  unfold relation_remove_cs. rewrite firstn_app_len, skipn_S_app_len.
  destruct (negb (existsb is_relation pre)).
  - unfold relation_remove_scan_next.
    destruct (ws_prefix_split post) as (w & rest & Epost & Lw & Fw). rewrite <- Lw.
    rewrite Epost, skipn_app_len. destruct rest as [|c r].
    + intros [= <-]. exists pre, [], w, []. rewrite skipn_app_len, !app_nil_r.
      repeat split; auto using Forall_ws_alt.
    + destruct (kind_is PIPE c) eqn:Ec; [|discriminate]. intros [= <-].
      destruct (ws_prefix_split r) as (w' & rest' & Er & Lw' & Fw'). rewrite <- Lw'.
      exists pre, [], (w ++ c :: w'), rest'. rewrite app_nil_r. repeat split.
      * rewrite Er. now rewrite <- app_assoc.
      * f_equal. rewrite Er.
        transitivity (skipn (length (w ++ c :: w')) ((w ++ c :: w') ++ rest')); [|apply skipn_app_len].
        rewrite app_length. cbn [length]. rewrite <- app_assoc. cbn [app].
        replace (length w + S (length w')) with (S (length w + length w')) by lia. reflexivity.
      * cbn [app]. apply Forall_app. split; [now apply Forall_ws_alt|].
        constructor; [now right|now apply Forall_ws_alt].
  - intros [= <-]. set (k2 := relation_remove_scan_prev pre).
    assert (Hk2 : k2 <= length pre) by apply relation_remove_scan_prev_le.
    exists (firstn (length pre - k2) pre), (skipn (length pre - k2) pre), [], post.
    rewrite app_nil_r. repeat split; auto using firstn_skipn.
    unfold k2, relation_remove_scan_prev.
    destruct (ws_prefix_split (rev pre)) as (wp & restp & Erev & Lwp & Fwp). rewrite <- Lwp.
    rewrite Erev, skipn_app_len.
    assert (Epre : pre = rev restp ++ rev wp) by (rewrite <- rev_app_distr, <- Erev; now rewrite rev_involutive).
    assert (Lpre : length pre = length restp + length wp) by (rewrite Epre, app_length, !rev_length; lia).
    destruct restp as [|c r].
    + replace (length pre - length wp) with 0 by (cbn in Lpre; lia). cbn [skipn].
      rewrite Epre. cbn [rev app]. apply Forall_ws_alt. now apply Forall_rev.
    + destruct (kind_is PIPE c) eqn:Ec.
      * destruct (ws_prefix_split r) as (w' & rest' & Er & Lw' & Fw'). rewrite <- Lw'.
        assert (Epre' : pre = rev rest' ++ (rev w' ++ [c] ++ rev wp)).
        { rewrite Epre. cbn [rev]. rewrite Er, rev_app_distr. now rewrite <- !app_assoc. }
        replace (length pre - (S (length wp) + length w')) with (length (rev rest')).
        2:{ rewrite rev_length. rewrite Lpre. cbn [length]. rewrite Er, app_length. lia. }
        rewrite Epre' at 1. rewrite skipn_app_len.
        apply Forall_app. split; [apply Forall_ws_alt; now apply Forall_rev|].
        constructor; [now right|apply Forall_ws_alt; now apply Forall_rev].
      * replace (length pre - length wp) with (length (rev (c :: r))) by (rewrite rev_length; cbn in *; lia).
        rewrite Epre. rewrite skipn_app_len. apply Forall_ws_alt. now apply Forall_rev.
Qed.

Lemma sep_tok_comma : sep_tok t_comma. Proof. now right. Qed.
Lemma sep_tok_space : sep_tok t_space. Proof. now left. Qed.
Lemma alt_sep_tok_pipe : alt_sep_tok t_pipe. Proof. now right. Qed.
Lemma alt_sep_tok_space : alt_sep_tok t_space. Proof. now left. Qed.
Ltac sep_list := cbn [app]; repeat (apply Forall_cons; [auto using sep_tok_comma, sep_tok_space, alt_sep_tok_pipe, alt_sep_tok_space|]); apply Forall_nil.

(* Relations::insert / push add the entry with separators only *)
Lemma insert_plan_frame v cs idx eg :
  let '(pos, new) := insert_plan v cs idx eg in
  pos <= length cs /\ exists s1 s2, new = s1 ++ eg :: s2 /\ Forall sep_tok (s1 ++ s2).
Proof.
  unfold insert_plan. destruct (nth_index is_entry idx cs) as [ci|] eqn:E.
  - split.
    + clear -E. revert idx ci E. induction cs as [|c r IH]; intros idx ci E; cbn in *; [discriminate|].
      destruct (is_entry c).
      * destruct idx; [inversion E; lia|]. destruct (nth_index is_entry idx r) eqn:E'; [|discriminate].
        cbn in E. inversion E; subst. specialize (IH _ _ E'). lia.
      * destruct (nth_index is_entry idx r) eqn:E'; [|discriminate]. cbn in E. inversion E; subst.
        specialize (IH _ _ E'). lia.
    + destruct (negb (fx_insert_first v) && (idx =? 0) && negb (has_kind COMMA cs)).
      * exists [], []. split; [reflexivity|sep_list].
      * exists [], [t_comma; t_space]. split; [reflexivity|sep_list].
  - split; [lia|]. destruct (fx_append_sep v).
    + destruct (last_significant cs) as [[c|] n].
      * destruct (kind_is COMMA c).
        -- destruct n; [exists [t_space], []|exists [], []]; (split; [reflexivity|sep_list]).
        -- exists [t_comma; t_space], []. split; [reflexivity|sep_list].
      * exists [], []. split; [reflexivity|sep_list].
    + destruct (idx =? 0).
      * exists [], []. split; [reflexivity|sep_list].
      * exists [t_comma; t_space], []. split; [reflexivity|sep_list].
Qed.

(* Entry::push adds the alternative with separators only *)
Lemma entry_push_plan_frame cs rg :
  let '(pos, new) := entry_push_plan cs rg in
  exists s1, new = s1 ++ [rg] /\ Forall alt_sep_tok s1.
Proof.
  unfold entry_push_plan. destruct (last_index is_relation cs);
    destruct (negb (existsb (fun c => kind_is PIPE c || kind_is RELATION c) cs)).
  - exists []. split; [reflexivity|sep_list].
  - exists [t_space; t_pipe; t_space]. split; [reflexivity|sep_list].
  - exists []. split; [reflexivity|sep_list].
  - exists [t_pipe; t_space]. split; [reflexivity|sep_list].
Qed.

(* the entries of a field after an insert: the list insert, whatever the layout around them *)
Lemma filter_insert_at_nth_index {A} (p : A -> bool) idx cs ci x s2 :
  nth_index p idx cs = Some ci -> p x = true -> forallb (fun c => negb (p c)) s2 = true ->
  filter p (insert_at ci (x :: s2) cs) = l_insert idx x (filter p cs).
Proof.
  revert idx ci; induction cs as [|c r IH]; intros idx ci E Hx Hs; cbn in E; [discriminate|].
  assert (Hf2 : filter p s2 = []).
  { clear -Hs. induction s2 as [|y s IH]; [reflexivity|]. cbn in *. apply andb_prop in Hs. destruct Hs as [H1 H2].
    destruct (p y); [discriminate|]. now apply IH. }
  destruct (p c) eqn:Pc.
  - destruct idx as [|idx].
    + inversion E; subst ci. rewrite insert_at_0. cbn [app filter]. rewrite Hx, filter_app, Hf2. cbn [app filter].
      rewrite Pc. reflexivity.
    + destruct (nth_index p idx r) as [j|] eqn:E'; [|discriminate]. cbn in E. inversion E; subst ci.
      rewrite insert_at_S. cbn [filter]. rewrite Pc. rewrite (IH _ _ E' Hx Hs). reflexivity.
  - destruct (nth_index p idx r) as [j|] eqn:E'; [|discriminate]. cbn in E. inversion E; subst ci.
    rewrite insert_at_S. cbn [filter]. rewrite Pc. now rewrite (IH _ _ E' Hx Hs).
Qed.
Lemma nth_index_none_length {A} (p : A -> bool) idx cs :
  nth_index p idx cs = None -> length (filter p cs) <= idx.
Proof.
  revert idx; induction cs as [|c r IH]; intros idx E; cbn in *; [lia|].
  destruct (p c).
  - destruct idx; [discriminate|]. destruct (nth_index p idx r) eqn:E'; [discriminate|].
    specialize (IH _ E'). cbn. lia.
  - destruct (nth_index p idx r) eqn:E'; [discriminate|]. now apply IH.
Qed.

Lemma entries_insert_green v t idx eg : is_entry eg = true ->
  entries (relations_insert_green v t idx eg) = l_insert idx eg (entries t).
Proof.
  intros He. unfold relations_insert_green, entries.
  destruct (insert_plan v (children t) idx eg) as [pos new] eqn:EP. cbn [children set_children].
  unfold insert_plan in EP. destruct (nth_index is_entry idx (children t)) as [ci|] eqn:E.
  - assert (exists s2, new = eg :: s2 /\ forallb (fun c => negb (is_entry c)) s2 = true) as (s2 & -> & Hs2).
    { destruct (negb (fx_insert_first v) && (idx =? 0) && negb (has_kind COMMA (children t)));
        inversion EP; subst; [now exists []|now exists [t_comma; t_space]]. }
    inversion EP; subst pos. destruct (negb (fx_insert_first v) && (idx =? 0) && negb (has_kind COMMA (children t)));
      now apply filter_insert_at_nth_index.
  - pose proof (nth_index_none_length _ _ _ E) as Hl.
    assert (pos = length (children t) /\ filter is_entry new = [eg]) as [-> Hn].
    { destruct (fx_append_sep v).
      - destruct (last_significant (children t)) as [[c|] n].
        + destruct (kind_is COMMA c); [destruct n|]; inversion EP; subst; cbn [filter];
            change (is_entry t_comma) with false; change (is_entry t_space) with false; rewrite He; auto.
        + inversion EP; subst. cbn [filter]. rewrite He. auto.
      - destruct (idx =? 0); inversion EP; subst; cbn [filter];
          change (is_entry t_comma) with false; change (is_entry t_space) with false; rewrite He; auto. }
    rewrite insert_at_end by lia. rewrite filter_app, Hn. unfold l_insert.
    rewrite firstn_all2 by exact Hl. rewrite skipn_all2 by exact Hl. reflexivity.
Qed.

(* ------------------------------------------------------------------ Entry::push on a constructor-built entry *)
Lemma last_index_sepR rs : Forall relationish rs -> rs <> [] ->
  last_index is_relation (sepR rs) = Some (4 * length rs - 1).
Proof.
  intros H Hne. induction H as [|x r Hx Hr IH]; [congruence|].
  cbn [sepR flat_map app last_index].
  change (flat_map (fun r0 => [t_space; t_pipe; t_space; r0]) r) with (sepR r).
  destruct r as [|y r'].
  - cbn [sepR flat_map last_index]. rewrite (relationish_is_relation _ Hx). reflexivity.
  - rewrite IH by discriminate. cbn [length]. f_equal. lia.
Qed.
Lemma last_index_join_relations rs : Forall relationish rs -> rs <> [] ->
  last_index is_relation (join_relations fixed 0 rs) = Some (length (join_relations fixed 0 rs) - 1).
Proof.
  intros H Hne. destruct H as [|x r Hx Hr]; [congruence|]. rewrite join_relations_length.
  rewrite join_relations_0. cbn [last_index]. destruct r as [|y r'].
  - cbn [sepR flat_map last_index]. now rewrite (relationish_is_relation _ Hx).
  - rewrite (last_index_sepR _ Hr) by discriminate. cbn [length]. f_equal. lia.
Qed.

Lemma entry_push_green_canon e r :
  entry_push_green (centry_tree e) (crel_tree r) = centry_tree (e ++ [r]).
Proof.
  unfold entry_push_green, entry_push_plan, centry_tree, entry_from_relations. cbn [children set_children ekind].
  set (rs := map crel_tree e). assert (H : Forall relationish rs) by apply Forall_relationish_map.
  rewrite map_app. cbn [map]. fold rs. destruct rs as [|x r'] eqn:E.
  - reflexivity.
  - rewrite <- E in *. assert (Hne : rs <> []) by (rewrite E; discriminate).
    rewrite (last_index_join_relations rs H Hne).
    assert (Hex : existsb (fun c => kind_is PIPE c || kind_is RELATION c) (join_relations fixed 0 rs) = true).
    { rewrite E. rewrite join_relations_0. cbn [existsb]. inversion H as [|? ? Hx _]; subst; try congruence.
      rewrite E in H. inversion H as [|? ? Hx' _]; subst. destruct Hx' as [cs ->]. reflexivity. }
    rewrite Hex. cbn [negb].
    assert (Hlen : length (join_relations fixed 0 rs) <> 0) by (rewrite E, join_relations_0; cbn; lia).
    replace (S (length (join_relations fixed 0 rs) - 1)) with (length (join_relations fixed 0 rs)) by lia.
    rewrite insert_at_end by lia. f_equal.
    rewrite E. cbn [app]. rewrite !join_relations_0. rewrite sepR_app. cbn [sepR flat_map app].
    reflexivity.
Qed.

(* a constructor-built relation has no white space at either end *)
Lemma crel_no_ws r : ws_prefix_len (children (crel_tree r)) = 0 /\
                     ws_prefix_len (rev (children (crel_tree r))) = 0.
Proof. destruct r as [n [q|] [[vc ver]|] ar pr]; split; reflexivity. Qed.
