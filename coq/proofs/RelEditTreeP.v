(* Lemmas about RelEdit.v (C11), part 7: the register machine computes the pure tree functions of
   model/RelEditTree.v, on ANY tree in the root register (no assumption on the layout). *)
From V.model Require Import Base RelLex RelParse RelEdit RelEditSpec RelEditTree.
From V.proofs Require Import BaseP RelEditP RelEditStP RelEditHistP.

(* ------------------------------------------------------------------ positions *)
Lemma nth_index_split {A} (p : A -> bool) n l i : nth_index p n l = Some i ->
  exists pre x post, l = pre ++ x :: post /\ length pre = i /\ p x = true.
Proof.
  revert n i; induction l as [|c r IH]; intros n i H; cbn in H; [discriminate|].
  destruct (p c) eqn:Pc.
  - destruct n as [|n].
    + inversion H; subst. now exists [], c, r.
    + destruct (nth_index p n r) as [j|] eqn:E; [|discriminate]. cbn in H. inversion H; subst.
      destruct (IH _ _ E) as (pre & x & post & -> & L & Px). exists (c :: pre), x, post. cbn. auto.
  - destruct (nth_index p n r) as [j|] eqn:E; [|discriminate]. cbn in H. inversion H; subst.
    destruct (IH _ _ E) as (pre & x & post & -> & L & Px). exists (c :: pre), x, post. cbn. auto.
Qed.
Lemma find_index_split {A} (p : A -> bool) l i : find_index p l = Some i ->
  exists pre x post, l = pre ++ x :: post /\ length pre = i /\ p x = true.
Proof.
  revert i; induction l as [|c r IH]; intros i H; cbn in H; [discriminate|].
  destruct (p c) eqn:Pc.
  - inversion H; subst. now exists [], c, r.
  - destruct (find_index p r) as [j|] eqn:E; [|discriminate]. cbn in H. inversion H; subst.
    destruct (IH _ eq_refl) as (pre & x & post & -> & L & Px). exists (c :: pre), x, post. cbn. auto.
Qed.
Lemma find_index_le {A} (p : A -> bool) l i : find_index p l = Some i -> i < length l.
Proof.
  intros H. destruct (find_index_split _ _ _ H) as (pre & x & post & -> & <- & _). rewrite app_length. cbn. lia.
Qed.
Lemma last_index_split {A} (p : A -> bool) l i : last_index p l = Some i ->
  exists pre x post, l = pre ++ x :: post /\ length pre = i.
Proof.
  revert i; induction l as [|c r IH]; intros i H; cbn in H; [discriminate|].
  destruct (last_index p r) as [j|] eqn:E.
  - inversion H; subst. destruct (IH _ eq_refl) as (pre & x & post & -> & L). exists (c :: pre), x, post. cbn. auto.
  - destruct (p c); [|discriminate]. inversion H; subst. now exists [], c, r.
Qed.
Lemma after_name_le cs : after_name cs <= length cs.
Proof.
  unfold after_name. destruct (find_index (kind_is IDENT) cs) as [i|] eqn:E; [|lia].
  apply find_index_le in E. lia.
Qed.
Lemma version_pos_le cs : version_pos fixed cs <= length cs.
Proof.
  unfold version_pos. cbn [fx_version_pos fixed].
  destruct (find_index (node_is ARCHQUAL) cs) as [i|] eqn:E; [apply find_index_le in E; lia|apply after_name_le].
Qed.
Lemma architectures_pos_le cs : architectures_pos cs <= length cs.
Proof.
  unfold architectures_pos. destruct (find_index (node_is PROFILES) cs) as [i|] eqn:E; [apply find_index_le in E|]; lia.
Qed.

Lemma is_entry_node e : is_entry e = true -> exists cs, e = Node ENTRY cs.
Proof.
  destruct e as [k s|k cs]; [discriminate|]. unfold is_entry, node_is, kind_is. cbn [is_node andb ekind].
  destruct k; try discriminate. intros _. now exists cs.
Qed.
Lemma is_relation_node e : is_relation e = true -> exists cs, e = Node RELATION cs.
Proof.
  destruct e as [k s|k cs]; [discriminate|]. unfold is_relation, node_is, kind_is. cbn [is_node andb ekind].
  destruct k; try discriminate. intros _. now exists cs.
Qed.

Lemma entry_pos_split T i ci : entry_pos T i = Some ci ->
  exists k pre E post, T = Node k (pre ++ E :: post) /\ length pre = ci /\ is_entry E = true.
Proof.
  unfold entry_pos. destruct T as [k s|k cs]; [destruct i; discriminate|]. cbn [children]. intros H.
  destruct (nth_index_split _ _ _ _ H) as (pre & x & post & -> & L & P). now exists k, pre, x, post.
Qed.

(* ------------------------------------------------------------------ root operations on any tree *)
Lemma holds_st5 ts tid ri T a b c d : nth_error ts tid = Some (mk_slot true ri T) ->
  holds (st5 ts (mk_hnd tid []) a b c d) T.
Proof. intros H. now exists ts, tid, ri, a, b, c, d. Qed.

Lemma replace_runs_gen k pre E post G ts tid ri a b d te re idx :
  nth_error ts tid = Some (mk_slot true ri (Node k (pre ++ E :: post))) ->
  nth_index is_entry idx (pre ++ E :: post) = Some (length pre) ->
  nth_error ts te = Some (mk_slot true re G) -> tid <> te ->
  exists ts' a' b' d',
    runs (run_op fixed (OReplace idx 1)) (st5 ts (mk_hnd tid []) a b (Some (mk_hnd te [])) d) (0%N, None)
         (st5 ts' (mk_hnd tid []) a' b' None d') /\
    nth_error ts' tid = Some (mk_slot true ri (Node k (pre ++ G :: post))).
Proof.
  intros HT Hn HE Hne. set (T := Node k (pre ++ E :: post)) in *.
  assert (HG : get_path T [] = Some (Node k (pre ++ E :: post))) by reflexivity.
  destruct (splice_replace_spec ts [Some (mk_hnd tid []); a; b; Some (mk_hnd te []); d] 0 3 tid ri T []
              k pre E post te re G eq_refl eq_refl HT HG HE Hne)
    as (ts' & F & R & L & T' & N & O & S1 & S2 & A).
  exists ts', (option_map F a), (option_map F b), (option_map F d). split.
  - cbn [run_op]. unfold st5. eapply runs_with_reg_some; [reflexivity|].
    rbind; [|rdone]. unfold relations_replace.
    rbind; [apply runs_get_reg; reflexivity|].
    rbind; [eapply runs_children_of; [exact HT|reflexivity]|].
    cbn [s_tree children T]. rewrite Hn. change (ereg 1) with 3.
    rbind; [exact R|]. cbn [map option_map].
    rewrite (A (mk_hnd tid [])) by (cbn [h_tid]; auto using above_root).
    eapply runs_eq; [apply runs_set_reg|reflexivity|]. reflexivity.
  - exact T'.
Qed.

Lemma remove_entry_runs_gen k pre E post cs' ts tid ri a b c d idx :
  nth_error ts tid = Some (mk_slot true ri (Node k (pre ++ E :: post))) ->
  nth_index is_entry idx (pre ++ E :: post) = Some (length pre) ->
  entry_remove_cs fixed (pre ++ E :: post) (length pre) = Ok cs' ->
  exists ts' a' b' c' d' txt,
    runs (run_op fixed (ORemoveEntry idx)) (st5 ts (mk_hnd tid []) a b c d) (0%N, Some txt)
         (st5 ts' (mk_hnd tid []) a' b' c' d') /\
    nth_error ts' tid = Some (mk_slot true ri (Node k cs')).
Proof.
  intros HT Hn Hcs. set (T := Node k (pre ++ E :: post)) in *.
  assert (HG : get_path T [] = Some (Node k (pre ++ E :: post))) by reflexivity.
  set (rs6 := [Some (mk_hnd tid []); a; b; c; d; Some (mk_hnd tid ([] ++ [length pre]))]).
  destruct (entry_remove_spec ts rs6 5 tid ri T [] k pre E post _ eq_refl HT HG Hcs)
    as (ts' & F & R & L & T' & O & (tn & rn & S1 & N1) & A).
  exists ts', (option_map F a), (option_map F b), (option_map F c), (option_map F d), (text E).
  split.
  - cbn [run_op]. unfold st5. rbind; [|rdone]. unfold relations_remove_entry.
    eapply runs_eq; [apply runs_scoped|reflexivity|].
    + rbind.
      { unfold nth_child_handle. rbind; [apply runs_get_reg; reflexivity|].
        rbind; [eapply runs_children_of; [exact HT|reflexivity]|]. rdone. }
      cbn [s_tree children T]. rewrite Hn. cbn [option_map]. unfold child_h. cbn [h_tid h_path].
      rbind; [apply runs_push_tmp|]. cbn [length app].
      rbind; [exact R|].
      unfold node_of_reg. rbind.
      { rbind; [apply runs_get_reg; unfold rs6; cbn [map nth_error option_map]; rewrite S1; reflexivity|].
        eapply runs_node_of; [exact N1|reflexivity]. }
      rdone.
    + unfold rs6. cbn [map option_map length firstn].
      rewrite (A (mk_hnd tid [])) by apply above_root. reflexivity.
  - exact T'.
Qed.

(* ------------------------------------------------------------------ obtaining handles, any tree *)
Lemma get_entry_runs_gen T i ci ts tid ri a b c d :
  nth_error ts tid = Some (mk_slot true ri T) -> entry_pos T i = Some ci ->
  runs (run_op fixed (OGetEntry 0 i)) (st5 ts (mk_hnd tid []) a b c d) (2%N, None)
       (st5 ts (mk_hnd tid []) (Some (mk_hnd tid [ci])) b c d).
Proof.
  intros HT Hp. cbn [run_op]. unfold st5, get_entry. change (ereg 0) with 1.
  rbind.
  { rbind.
    { unfold nth_child_handle. rbind; [apply runs_get_reg; reflexivity|].
      rbind; [eapply runs_children_of; [exact HT|reflexivity]|]. rdone. }
    cbn [s_tree]. unfold entry_pos in Hp. rewrite Hp. cbn [option_map child_h h_tid h_path app].
    rbind; [apply runs_set_reg|]. rdone. }
  rdone.
Qed.

Lemma get_rel_runs_gen T ci E j cj ts tid ri b c d :
  nth_error ts tid = Some (mk_slot true ri T) -> child_at T ci = Some E ->
  nth_index is_relation j (children E) = Some cj ->
  runs (run_op fixed (OGetRel 0 0 j)) (st5 ts (mk_hnd tid []) (Some (mk_hnd tid [ci])) b c d) (2%N, None)
       (st5 ts (mk_hnd tid []) (Some (mk_hnd tid [ci])) (Some (mk_hnd tid [ci; cj])) c d).
Proof.
  intros HT HE Hp. cbn [run_op]. unfold st5. change (ereg 0) with 1. change (rreg 0) with 2.
  rbind; [apply runs_has_reg|]. cbn [nth_error].
  unfold get_relation.
  assert (HG : get_path T [ci] = Some E) by (cbn [get_path]; unfold child_at in HE; now rewrite HE).
  rbind.
  { rbind.
    { unfold nth_child_handle. rbind; [apply runs_get_reg; reflexivity|].
      rbind; [eapply runs_children_of; [exact HT|exact HG]|]. rdone. }
    rewrite Hp. cbn [option_map child_h h_tid h_path app].
    rbind; [apply runs_set_reg|]. rdone. }
  rdone.
Qed.

(* ------------------------------------------------------------------ the local operations on any relation node *)
Lemma replace_at_split {A} (pre : list A) x post y : replace_at (length pre) y (pre ++ x :: post) = pre ++ y :: post.
Proof. unfold replace_at. now rewrite firstn_app_len, skipn_S_app_len. Qed.

Lemma set_archqual_node_op_gen q k cs :
  node_op (fun r => relation_set_archqual r q) (Node k cs) (Node k (set_archqual_cs q cs)).
Proof.
  apply node_op_from_F. intros ts rs r tid ri T p Hr HT HG.
  unfold set_archqual_cs.
  assert (Hhead : forall m st', runs m (mk_state ts rs) tt st' ->
            m = (match find_index (node_is ARCHQUAL) cs with
                 | Some i => splice_new r i (S i) (archqual_node q)
                 | None => let idx := after_name cs in splice_new r idx idx (archqual_node q)
                 end) ->
            runs (relation_set_archqual r q) (mk_state ts rs) tt st').
  { intros m st' H ->. unfold relation_set_archqual. rbind; [apply runs_get_reg; exact Hr|].
    rbind; [eapply runs_children_of; [exact HT|exact HG]|]. exact H. }
  destruct (find_index (node_is ARCHQUAL) cs) as [i|] eqn:E.
  - destruct (find_index_split _ _ _ E) as (pre & x & post & -> & <- & _).
    destruct (splice_new_replace_spec ts rs r tid ri T p k pre x post (archqual_node q) Hr HT HG) as (ts' & F & R & T' & A).
    exists ts', F. split; [|split; [|exact A]].
    + eapply Hhead; [exact R|reflexivity].
    + now rewrite replace_at_split.
  - destruct (splice_new_insert_spec_o ts rs r tid ri T p k cs (after_name cs) (archqual_node q) Hr HT HG (after_name_le cs))
      as (ts' & F & R & T' & A).
    exists ts', F. split; [|split; [exact T'|exact A]]. eapply Hhead; [exact R|reflexivity].
Qed.

Lemma drop_constraint_spec_gen k cs ts rs r tid ri T p :
  nth_error rs r = Some (Some (mk_hnd tid p)) -> nth_error ts tid = Some (mk_slot true ri T) ->
  get_path T p = Some (Node k cs) ->
  exists ts' F b,
    runs (relation_drop_constraint r) (mk_state ts rs) b (mk_state ts' (map (option_map F) rs)) /\
    nth_error ts' tid = Some (mk_slot true ri (upd_path T p (fun _ => Node k (drop_constraint_cs cs)))) /\
    (forall g, h_tid g < length ts -> above tid p g -> F g = g) /\
    (forall j, j <> tid -> j < length ts -> nth_error ts' j = nth_error ts j).
Proof.
  intros Hr HT HG. pose proof (nth_error_Some_lt _ _ _ HT) as Hlt. unfold drop_constraint_cs.
  destruct (find_index (node_is VERSION) cs) as [vi|] eqn:E.
  - destruct (find_index_split _ _ _ E) as (pre & x & post & -> & <- & _).
    rewrite firstn_app_len, skipn_S_app_len.
    set (kk := ws_prefix_len (rev pre)).
    assert (Hk : kk <= length pre) by (unfold kk; pose proof (ws_prefix_len_le (rev pre)) as H; now rewrite rev_length in H).
    set (pre0 := firstn (length pre - kk) pre). set (gone := skipn (length pre - kk) pre).
    assert (Epre : pre = pre0 ++ gone) by (symmetry; apply firstn_skipn).
    assert (Lgone : length gone = kk) by (unfold gone; rewrite skipn_length; lia).
    assert (Lpre : length pre = length pre0 + length gone) by (rewrite Epre at 1; apply app_length).
    assert (HG' : get_path T p = Some (Node k (pre0 ++ gone ++ x :: post))) by (rewrite app_assoc, <- Epre; exact HG).
    set (rs1 := rs ++ [Some (mk_hnd tid (p ++ [length pre0 + length gone]))]).
    destruct (detach_prev_repeat gone ts rs1 (length rs) tid ri T p k pre0 x post (nth_error_app_at _ _) HT HG')
      as (ts1 & F1 & R1 & L1 & T1 & O1 & S1 & A1).
    set (T1' := upd_path T p (fun _ => Node k (pre0 ++ x :: post))) in *.
    assert (HG1 : get_path T1' p = Some (Node k (pre0 ++ x :: post)))
      by (now apply get_path_upd_path with (n := Node k (pre ++ x :: post))).
    assert (Hr1 : nth_error (map (option_map F1) rs1) (length rs) = Some (Some (mk_hnd tid (p ++ [length pre0]))))
      by (unfold rs1; rewrite (nth_error_map_reg F1 _ _ _ (nth_error_app_at _ _)); now rewrite S1).
    destruct (detach_reg_spec ts1 _ (length rs) tid ri T1' p k pre0 x post Hr1 T1 HG1)
      as (ts2 & F2 & R2 & L2 & T2 & N2 & O2 & S2 & A2).
    exists ts2, (fun g => F2 (F1 g)), true. split; [|split; [|split]].
    4:{ intros j Hj Hl. rewrite O2 by lia. now apply O1. }
    + unfold relation_drop_constraint. rbind; [apply runs_get_reg; exact Hr|].
      rbind; [eapply runs_children_of; [exact HT|exact HG]|]. cbn [children]. rewrite E.
      rbind; [|rdone].
      eapply runs_eq; [apply runs_scoped|reflexivity|].
      * rbind; [apply runs_push_tmp|]. unfold child_h. cbn [h_tid h_path].
        rewrite firstn_app_len. fold kk. rewrite <- Lgone. rewrite Lpre.
        rbind; [exact R1|]. exact R2.
      * rewrite map_option_map_comp. unfold rs1. now rewrite firstn_map_app_len.
    + rewrite T2. f_equal. f_equal. unfold T1'. rewrite (upd_path_const2 _ _ _ _ _ HG).
      eapply upd_path_ext; [exact HG|]. f_equal. f_equal. unfold pre0. rewrite firstn_app.
      replace (length pre - kk - length pre) with 0 by lia. cbn [firstn]. now rewrite app_nil_r.
    + intros g Hg Ha. rewrite A1 by exact Ha. now apply A2.
  - exists ts, (fun g => g), false. rewrite map_option_map_id. split; [|split; [|auto]].
    + unfold relation_drop_constraint. rbind; [apply runs_get_reg; exact Hr|].
      rbind; [eapply runs_children_of; [exact HT|exact HG]|]. cbn [children]. rewrite E. rdone.
    + now rewrite (upd_path_same _ _ _ HG).
Qed.

Lemma set_version_node_op_gen v k cs :
  node_op (fun r => relation_set_version fixed r v) (Node k cs) (Node k (set_version_cs v cs)).
Proof.
  destruct v as [[vc ver]|]; cbn [set_version_cs].
  - destruct (find_index (node_is VERSION) cs) as [i|] eqn:E.
    + apply node_op_from_F. intros ts rs r tid ri T p Hr HT HG.
      destruct (find_index_split _ _ _ E) as (pre & x & post & -> & <- & _).
      destruct (splice_new_replace_spec ts rs r tid ri T p k pre x post (version_node vc ver) Hr HT HG) as (ts' & F & R & T' & A).
      exists ts', F. split; [|split; [|exact A]].
      * cbn [relation_set_version]. rbind; [apply runs_get_reg; exact Hr|].
        rbind; [eapply runs_node_of; [exact HT|exact HG]|]. cbn [children]. rewrite E. exact R.
      * now rewrite replace_at_split.
    + apply insert_fresh_node_op; [apply version_pos_le|]. intros ts rs r tid ri T p Hr HT HG st' R.
      cbn [relation_set_version]. rbind; [apply runs_get_reg; exact Hr|].
      rbind; [eapply runs_node_of; [exact HT|exact HG]|]. cbn [children]. rewrite E. cbn [fx_in_place fixed]. exact R.
  - apply node_op_from_F. intros ts rs r tid ri T p Hr HT HG.
    destruct (drop_constraint_spec_gen k cs ts rs r tid ri T p Hr HT HG) as (ts' & F & b & R & T' & A).
    exists ts', F. split; [|split; [exact T'|exact A]].
    cbn [relation_set_version]. rbind; [exact R|]. rdone.
Qed.

Lemma set_architectures_node_op_gen a k cs :
  node_op (fun r => relation_set_architectures_v fixed r a) (Node k cs) (Node k (set_architectures_cs a cs)).
Proof.
  unfold set_architectures_cs. destruct (find_index (node_is ARCHITECTURES) cs) as [i|] eqn:E.
  - apply node_op_from_F. intros ts rs r tid ri T p Hr HT HG.
    destruct (find_index_split _ _ _ E) as (pre & x & post & -> & <- & _).
    destruct (splice_new_replace_spec ts rs r tid ri T p k pre x post (architectures_node a) Hr HT HG) as (ts' & F & R & T' & A).
    exists ts', F. split; [|split; [|exact A]].
    + unfold relation_set_architectures_v. rbind; [apply runs_get_reg; exact Hr|].
      rbind; [eapply runs_node_of; [exact HT|exact HG]|]. cbn [children]. rewrite E. exact R.
    + now rewrite replace_at_split.
  - apply insert_fresh_node_op; [apply architectures_pos_le|]. intros ts rs r tid ri T p Hr HT HG st' R.
    unfold relation_set_architectures_v. rbind; [apply runs_get_reg; exact Hr|].
    rbind; [eapply runs_node_of; [exact HT|exact HG]|]. cbn [children]. rewrite E. cbn [fx_in_place fixed]. exact R.
Qed.

Lemma last_index_lt {A} (p : A -> bool) l i : last_index p l = Some i -> i < length l.
Proof.
  revert i; induction l as [|x r IH]; intros i H; [discriminate|]. cbn [last_index] in H.
  destruct (last_index p r) as [j|]; [injection H as <-; specialize (IH j eq_refl); cbn; lia|].
  destruct (p x); [injection H as <-; cbn; lia|discriminate].
Qed.
Lemma add_profile_node_op_gen g k cs :
  node_op (fun r => relation_add_profile_v fixed r g) (Node k cs) (Node k (add_profile_cs g cs)).
Proof.
  unfold add_profile_cs. apply insert_fresh_node_op.
  { destruct (last_index (node_is PROFILES) cs) as [i|] eqn:E; [apply last_index_lt in E; lia|lia]. }
  intros ts rs r tid ri T p Hr HT HG st' R.
  unfold relation_add_profile_v. rbind; [apply runs_get_reg; exact Hr|].
  rbind; [eapply runs_node_of; [exact HT|exact HG]|]. cbn [children fx_in_place fixed]. exact R.
Qed.

(* a local operation on the relation in register 2, after [OGetEntry 0 i; OGetRel 0 0 j] *)
Lemma rel_node_op_runs_gen m T ci cj N N' ts tid ri c d :
  node_op m N N' ->
  nth_error ts tid = Some (mk_slot true ri T) -> get_path T [ci; cj] = Some N ->
  exists ts' a' c' d',
    runs (m 2) (st5 ts (mk_hnd tid []) (Some (mk_hnd tid [ci])) (Some (mk_hnd tid [ci; cj])) c d) tt
         (st5 ts' (mk_hnd tid []) a' (Some (mk_hnd tid [ci; cj])) c' d') /\
    nth_error ts' tid = Some (mk_slot true ri (upd_path T [ci; cj] (fun _ => N'))).
Proof.
  intros Hop HT HG. pose proof (nth_error_Some_lt _ _ _ HT) as Hlt.
  destruct (node_op_regs _ _ _ Hop ts [Some (mk_hnd tid []); Some (mk_hnd tid [ci]); Some (mk_hnd tid [ci; cj]); c; d]
                2 tid ri T [ci] cj eq_refl HT HG) as (ts' & rs' & R3 & L3 & T3 & S3 & A3).
  destruct (list5 rs' L3) as (x0 & x1 & x2 & x3 & x4 & ->).
  pose proof (A3 0 (mk_hnd tid []) ltac:(lia) eq_refl Hlt (above_root _ _ _)) as E0.
  cbn [nth_error] in E0, S3. inversion E0; subst x0. inversion S3; subst x2.
  exists ts', x1, x3, x4. split; [exact R3|exact T3].
Qed.

Lemma rel_pos_inv T i j ci cj : rel_pos T i j = Some (ci, cj) ->
  exists E, entry_pos T i = Some ci /\ child_at T ci = Some E /\
            nth_index is_relation j (children E) = Some cj /\
            exists k cs, get_path T [ci; cj] = Some (Node k cs).
Proof.
  unfold rel_pos. destruct (entry_pos T i) as [ci'|] eqn:E1; [|discriminate].
  destruct (child_at T ci') as [E|] eqn:E2; [|discriminate].
  destruct (nth_index is_relation j (children E)) as [cj'|] eqn:E3; [|discriminate].
  intros [= <- <-]. exists E. repeat split; auto.
  destruct (nth_index_split _ _ _ _ E3) as (pre & x & post & Ecs & L & Px).
  destruct (is_relation_node _ Px) as (cs & ->). exists RELATION, cs.
  cbn [get_path]. unfold child_at in E2. rewrite E2, Ecs, <- L. now rewrite nth_error_app_len.
Qed.

(* [OGetEntry 0 i; OGetRel 0 0 j; X] with X a local operation on the relation *)
Lemma on_relation_step (m : nat -> M unit) X (f : list rtree -> list rtree) T i j T' st :
  wraps X m -> (forall k cs, node_op m (Node k cs) (Node k (f cs))) ->
  holds st T -> t_on_relation T i j f = Ok T' ->
  exists st', run_ops fixed [OGetEntry 0 i; OGetRel 0 0 j; X] st = Ok st' /\ holds st' T'.
Proof.
  intros HX Hop (ts & tid & ri & a & b & c & d & -> & HT) Ht. unfold t_on_relation in Ht.
  destruct (rel_pos T i j) as [[ci cj]|] eqn:Ep; [|discriminate].
  assert (ET' : T' = upd_path T [ci; cj] (fun n => set_children (f (children n)) n)) by congruence.
  clear Ht. subst T'.
  destruct (rel_pos_inv _ _ _ _ _ Ep) as (E & P1 & P2 & P3 & k & cs & HG).
  destruct (rel_node_op_runs_gen m T ci cj _ _ ts tid ri c d (Hop k cs) HT HG) as (ts' & a' & c' & d' & R3 & T3).
  assert (HG' : get_path (upd_path T [ci; cj] (fun _ => Node k (f cs))) [ci; cj] = Some (Node k (f cs)))
    by (now apply get_path_upd_path with (n := Node k cs)).
  destruct (HX _ _ _ _ _ _ _ _ _ _ _ _ _ R3 T3 HG') as (x & RX).
  eexists. split.
  - eapply run_ops_cons; [apply (get_entry_runs_gen T i ci ts tid ri a b c d HT P1)|].
    eapply run_ops_cons; [apply (get_rel_runs_gen T ci E j cj ts tid ri b c d HT P2 P3)|].
    eapply run_ops_cons; [exact RX|reflexivity].
  - apply holds_st5 with (ri := ri). rewrite T3. f_equal. f_equal.
    eapply upd_path_ext; [exact HG|reflexivity].
Qed.

(* ------------------------------------------------------------------ Relation::remove through Entry::remove_relation, any tree *)
Lemma remove_relation_runs_gen k epre epost pre x post cs' ecs' j ts tid ri b c d :
  nth_error ts tid = Some (mk_slot true ri (Node k (epre ++ Node ENTRY (pre ++ x :: post) :: epost))) ->
  nth_index is_relation j (pre ++ x :: post) = Some (length pre) ->
  relation_remove_cs (pre ++ x :: post) (length pre) = Ok cs' ->
  (if count_if is_relation cs' =? 0
   then entry_remove_cs fixed (epre ++ Node ENTRY cs' :: epost) (length epre)
   else Ok (epre ++ Node ENTRY cs' :: epost)) = Ok ecs' ->
  exists ts' a' b' c' d' xx,
    runs (run_op fixed (OERemoveRel 0 j))
         (st5 ts (mk_hnd tid []) (Some (mk_hnd tid [length epre])) b c d) xx
         (st5 ts' (mk_hnd tid []) a' b' c' d') /\
    nth_error ts' tid = Some (mk_slot true ri (Node k ecs')).
Proof.
  intros HT Hn Hcs Hecs.
  set (T := Node k (epre ++ Node ENTRY (pre ++ x :: post) :: epost)) in *.
  assert (HGp : get_path T [] = Some (Node k (epre ++ Node ENTRY (pre ++ x :: post) :: epost))) by reflexivity.
  assert (HGe : get_path T [length epre] = Some (Node ENTRY (pre ++ x :: post))).
  { cbn [get_path T children]. now rewrite nth_error_app_len. }
  set (rs6 := [Some (mk_hnd tid []); Some (mk_hnd tid ([] ++ [length epre])); b; c; d;
               Some (mk_hnd tid (([] ++ [length epre]) ++ [length pre]))]).
  destruct (relation_remove_spec ts rs6 5 tid ri T [] k epre epost pre x post cs' ecs'
              eq_refl HT HGp Hcs Hecs)
    as (ts' & F & R & L & T' & O & (tn & rn & S1 & N1) & (sl & Se1 & Se2) & A).
  destruct (F (mk_hnd tid ([] ++ [length epre]))) as [ht hp] eqn:EF. cbn [h_tid h_path] in Se1, Se2.
  exists ts', (Some (mk_hnd ht hp)), (option_map F b), (option_map F c), (option_map F d).
  eexists. split.
  - cbn [run_op]. change (ereg 0) with 1. unfold through, st5.
    eapply runs_with_reg_some; [reflexivity|].
    rbind.
    { rbind; [|rdone]. unfold entry_remove_relation.
      eapply runs_eq; [apply runs_scoped|reflexivity|].
      + rbind.
        { unfold nth_child_handle. rbind; [apply runs_get_reg; reflexivity|].
          rbind; [eapply runs_children_of; [exact HT|exact HGe]|]. rdone. }
        cbn [children]. rewrite Hn. cbn [option_map child_h h_tid h_path].
        rbind; [apply runs_push_tmp|]. cbn [length app].
        rbind; [exact R|].
        unfold node_of_reg. rbind.
        { rbind; [apply runs_get_reg; unfold rs6; cbn [map nth_error option_map]; rewrite S1; reflexivity|].
          eapply runs_node_of; [exact N1|reflexivity]. }
        rdone.
      + unfold rs6. cbn [map option_map length firstn].
        rewrite (A (mk_hnd tid [])) by apply above_root. rewrite EF. reflexivity. }
    unfold reg_text, node_of_reg.
    rbind.
    { rbind.
      { rbind; [apply runs_get_reg; reflexivity|]. eapply runs_node_of; [exact Se1|exact Se2]. }
      rdone. }
    rdone.
  - exact T'.
Qed.

(* ------------------------------------------------------------------ one abstract operation, on any tree *)
(* operands built by the constructors; (Entry::replace is treated separately below) *)
Definition operands_new (o : aop) : bool :=
  match o with
  | APush e | AInsert _ e | AReplace _ e => forallb new_only e
  | AEPush _ r => new_only r
  | AEReplace _ _ _ => false
  | _ => true
  end.

Lemma lift_res_ok {A B} (f : A -> B) r y : lift_res f r = Ok y -> exists a, r = Ok a /\ y = f a.
Proof. destruct r; cbn; try discriminate. intros [= <-]. now exists a. Qed.

Lemma entry_pos_nth_index k pre E post i : entry_pos (Node k (pre ++ E :: post)) i = Some (length pre) ->
  nth_index is_entry i (pre ++ E :: post) = Some (length pre).
Proof. intros H. exact H. Qed.

Lemma split_unique {A} (pre pre' : list A) x x' post post' :
  pre ++ x :: post = pre' ++ x' :: post' -> length pre = length pre' -> pre = pre' /\ x = x' /\ post = post'.
Proof.
  revert pre'; induction pre as [|a r IH]; intros [|a' r'] H L; cbn in *; try discriminate.
  - inversion H; auto.
  - inversion H; subst. destruct (IH r' H2 ltac:(lia)) as (-> & -> & ->). auto.
Qed.

Theorem op_step_tree o T T' st :
  operands_new o = true -> is_node T = true -> holds st T -> t_op o T = Ok T' ->
  exists st', run_ops fixed (compile o) st = Ok st' /\ holds st' T'.
Proof.
  intros Hn HnT (ts & tid & ri & a & b & c & d & -> & HT) Ht.
  destruct o; cbn [operands_new] in Hn; try discriminate; cbn [t_op] in Ht.
  - (* push *)
    injection Ht as <-. destruct T as [kT sT|kT csT]; [discriminate|].
    destruct (new_entry_runs e ts tid ri _ a b c d Hn HT) as (ts1 & te & txt & R1 & T1 & E1 & Ne).
    destruct (push_runs ts1 tid ri kT csT a b d te [] _ (centry_tree e) T1 E1 eq_refl) as (ts2 & a2 & b2 & d2 & R2 & T2).
    eexists. split.
    + cbn [compile]. eapply run_ops_cons; [exact R1|]. eapply run_ops_cons; [exact R2|reflexivity].
    + eapply holds_st5. exact T2.
  - (* insert *)
    injection Ht as <-. destruct T as [kT sT|kT csT]; [discriminate|].
    destruct (new_entry_runs e ts tid ri _ a b c d Hn HT) as (ts1 & te & txt & R1 & T1 & E1 & Ne).
    destruct (insert_runs i ts1 tid ri kT csT a b d te [] _ (centry_tree e) T1 E1 eq_refl) as (ts2 & a2 & b2 & d2 & R2 & T2).
    eexists. split.
    + cbn [compile]. eapply run_ops_cons; [exact R1|]. eapply run_ops_cons; [exact R2|reflexivity].
    + eapply holds_st5. exact T2.
  - (* replace *)
    destruct (entry_pos T i) as [ci|] eqn:Ep; [|discriminate]. injection Ht as <-.
    destruct (entry_pos_split _ _ _ Ep) as (k & pre & E & post & -> & <- & PE).
    destruct (new_entry_runs e ts tid ri _ a b c d Hn HT) as (ts1 & te & txt & R1 & T1 & E1 & Ne).
    destruct (replace_runs_gen k pre E post _ ts1 tid ri a b d te 0 i T1 Ep E1 ltac:(congruence))
      as (ts2 & a2 & b2 & d2 & R2 & T2).
    eexists. split.
    + cbn [compile]. eapply run_ops_cons; [exact R1|]. eapply run_ops_cons; [exact R2|reflexivity].
    + eapply holds_st5. rewrite T2. cbn [children set_children ekind]. now rewrite replace_at_split.
  - (* remove_entry *)
    destruct (entry_pos T i) as [ci|] eqn:Ep; [|discriminate].
    destruct (entry_pos_split _ _ _ Ep) as (k & pre & E & post & -> & <- & PE).
    unfold t_remove_entry_at in Ht. apply lift_res_ok in Ht. destruct Ht as (cs' & Hcs & ->).
    cbn [children] in Hcs.
    destruct (remove_entry_runs_gen k pre E post cs' ts tid ri a b c d i HT Ep Hcs)
      as (ts2 & a2 & b2 & c2 & d2 & txt & R2 & T2).
    eexists. split.
    + cbn [compile]. eapply run_ops_cons; [exact R2|reflexivity].
    + eapply holds_st5. exact T2.
  - (* Entry::push *)
    destruct (entry_pos T i) as [ci|] eqn:Ep; [|discriminate]. injection Ht as <-.
    destruct (entry_pos_split _ _ _ Ep) as (k & pre & E & post & -> & <- & PE).
    destruct (new_rel_runs r ts tid ri _ a b c d Hn HT) as (txt & R1 & Ne).
    pose proof (get_entry_runs_gen _ i (length pre) (ts ++ [mk_slot true 0 (crel_tree r)]) tid ri a b c
                  (Some (mk_hnd (length ts) [])) (nth_error_app_l _ _ _ _ HT) Ep) as R2.
    destruct (is_entry_node _ PE) as (ecs & ->).
    destruct (epush_runs_gen k pre ENTRY ecs post (crel_tree r) (ts ++ [mk_slot true 0 (crel_tree r)]) tid ri b c (length ts) [] _
                (nth_error_app_l _ _ _ _ HT) (nth_error_app_at _ _) eq_refl) as (ts3 & a3 & b3 & c3 & x & R3 & T3).
    eexists. split.
    + cbn [compile]. eapply run_ops_cons; [exact R1|]. eapply run_ops_cons; [exact R2|].
      eapply run_ops_cons; [exact R3|reflexivity].
    + eapply holds_st5. rewrite T3. f_equal. f_equal. cbn [upd_path]. now rewrite upd_nth_app_r.
  - (* remove_relation *)
    destruct (rel_pos T i j) as [[ci cj]|] eqn:Ep; [|destruct (entry_pos T i); discriminate].
    unfold t_remove_relation in Ht. rewrite Ep in Ht.
    destruct (rel_pos_inv _ _ _ _ _ Ep) as (E & P1 & P2 & P3 & _).
    rewrite P2 in Ht.
    destruct (entry_pos_split _ _ _ P1) as (k & epre & E' & epost & -> & <- & PE).
    unfold child_at in P2. cbn [children] in P2. rewrite nth_error_app_len in P2. injection P2 as <-.
    destruct (is_entry_node _ PE) as (ecs & ->). cbn [children] in *.
    destruct (nth_index_split _ _ _ _ P3) as (pre & x & post & -> & <- & Px).
    destruct (relation_remove_cs (pre ++ x :: post) (length pre)) as [cs'| | |] eqn:Hcs; try discriminate.
    assert (ET : upd_path (Node k (epre ++ Node ENTRY (pre ++ x :: post) :: epost)) [length epre] (fun _ => Node ENTRY cs')
                 = Node k (epre ++ Node ENTRY cs' :: epost)) by (cbn [upd_path]; now rewrite upd_nth_app_r).
    rewrite ET in Ht.
    assert (Hecs : exists ecs', (if count_if is_relation cs' =? 0
                    then entry_remove_cs fixed (epre ++ Node ENTRY cs' :: epost) (length epre)
                    else Ok (epre ++ Node ENTRY cs' :: epost)) = Ok ecs' /\ T' = Node k ecs').
    { destruct (count_if is_relation cs' =? 0).
      - unfold t_remove_entry_at in Ht. apply lift_res_ok in Ht. destruct Ht as (cs2 & H2 & ->).
        cbn [children] in H2. now exists cs2.
      - injection Ht as <-. now eexists. }
    destruct Hecs as (ecs' & Hecs & ->).
    destruct (remove_relation_runs_gen k epre epost pre x post cs' ecs' j ts tid ri b c d HT P3 Hcs Hecs)
      as (ts2 & a2 & b2 & c2 & d2 & xx & R2 & T2).
    eexists. split.
    + cbn [compile]. eapply run_ops_cons; [apply (get_entry_runs_gen _ i (length epre) ts tid ri a b c d HT P1)|].
      eapply run_ops_cons; [exact R2|reflexivity].
    + eapply holds_st5. exact T2.
  - (* set_version *)
    cbn [compile]. eapply (on_relation_step (fun r => relation_set_version fixed r v) (OSetVersion 0 v));
      eauto using holds_st5, set_version_node_op_gen.
    apply (wraps_through (OSetVersion 0 v) (fun r => relation_set_version fixed r v) eq_refl).
  - (* drop_constraint *)
    cbn [compile]. eapply (on_relation_step (fun r => relation_set_version fixed r None) (ODropConstraint 0));
      eauto using holds_st5, wraps_drop_constraint.
    intros k cs. apply (set_version_node_op_gen None).
  - (* set_archqual *)
    cbn [compile]. eapply (on_relation_step (fun r => relation_set_archqual r q) (OSetArchqual 0 q));
      eauto using holds_st5, set_archqual_node_op_gen.
    apply (wraps_through (OSetArchqual 0 q) (fun r => relation_set_archqual r q) eq_refl).
  - (* set_architectures *)
    cbn [compile]. eapply (on_relation_step (fun r => relation_set_architectures_v fixed r a0) (OSetArchs 0 a0));
      eauto using holds_st5, set_architectures_node_op_gen.
    apply (wraps_through (OSetArchs 0 a0) (fun r => relation_set_architectures_v fixed r a0) eq_refl).
  - (* add_profile *)
    cbn [compile]. eapply (on_relation_step (fun r => relation_add_profile_v fixed r g) (OAddProfile 0 g));
      eauto using holds_st5, add_profile_node_op_gen.
    apply (wraps_through (OAddProfile 0 g) (fun r => relation_add_profile_v fixed r g) eq_refl).
Qed.
