(* C11 on any well-formed field, operands obtained by PARSING the text of a well-formed entry /
   relation (Entry::from_str, Relation::from_str): the layers of RelLiveHistP.v for [pop], and
   histories that mix both kinds of operands ([gop]). *)
From V.model Require Import Base RelLex RelParse RelAcc RelGrammar.
From V.model Require Import RelEdit RelEditSpec RelEditTree RelLive.
From V.proofs Require Import BaseP RelEditP RelEditStP RelEditHistP RelEditTreeP RelEditReplaceP RelEditParsedP RelGrammarAccP.
From V.proofs Require Import RelLiveP RelLiveStepP RelLiveWfP RelLiveNormP RelLiveHistP.

(* ------------------------------------------------------------------ tree function -> abstract operation *)
Theorem a_pop_tree o l l' : a_pop o l = Some l' -> tt_op (ptop o) (ltree l) = Ok (ltree l').
Proof.
  intros H. destruct o; cbn [a_pop ptop tt_op] in *.
  - injection H as <-. rewrite <- lentry_tree_of. now rewrite push_commute.
  - injection H as <-. rewrite <- lentry_tree_of. now rewrite insert_commute.
  - rewrite <- lentry_tree_of. now apply replace_commute.
  - unfold a_on_entry in H. destruct (nth_entry l i) as [[ci e]|] eqn:He; [|discriminate]. injection H as <-.
    destruct (nth_entry_inv _ _ _ _ He) as (pre & post & -> & <- & Hi).
    rewrite entry_pos_ltree, Hi, <- lrel_tree_of.
    now rewrite (upd_entry pre e post _ (a_epush e (lrel_of r true))) by apply epush_commute.
  - destruct (nth_entry l i) as [[ci e]|] eqn:He; [|discriminate].
    destruct (j <? n_rels e) eqn:Hj; [|discriminate]. injection H as <-.
    destruct (rel_update_commute l i j (fun old => with_trail (l_trail old) (lrel_of r true))
                (fun old => dressed old (rel_tree r true)) ci e) as (cj & Hp & Hu); auto.
    { intros r0. rewrite <- lrel_tree_of. apply dressed_commute. }
    rewrite Hp, Hu. reflexivity.
Qed.

(* ------------------------------------------------------------------ entries, contents *)
Definition pestep (es : list lentry) (o : pop) : list lentry :=
  match o with
  | PPush _ r alts => es ++ [lentry_of r alts true]
  | PInsert i _ r alts => l_insert i (lentry_of r alts true) es
  | PReplace i _ r alts => l_replace i (lentry_of r alts true) es
  | PEPush i _ r => upd_nth i (fun e => a_epush e (lrel_of r true)) es
  | PEReplace i j _ r => upd_nth i (fun e => a_ereplace e j (lrel_of r true)) es
  end.
Definition pe_in_range (es : list lentry) (o : pop) : bool :=
  match o with
  | PPush _ _ _ | PInsert _ _ _ _ => true
  | PReplace i _ _ _ | PEPush i _ _ => i <? length es
  | PEReplace i j _ _ => match nth_error es i with Some e => j <? n_rels e | None => false end
  end.

Lemma insert_entries l i le : lentries (a_insert l i le) = l_insert i le (lentries l) /\ lsubsts (a_insert l i le) = lsubsts l.
Proof.
  unfold a_insert. destruct (nth_index is_re i l) as [ci|] eqn:E.
  - destruct (nth_index_re_split _ _ _ E) as (pre & e0 & post & -> & <- & <-).
    rewrite insert_at_app_len. cbn [app]. rewrite !lentries_split, l_insert_app_len. split; [reflexivity|].
    rewrite !lsubsts_app. reflexivity.
  - apply nth_index_re_none in E. rewrite l_insert_beyond by exact E. rewrite lentries_app, lsubsts_app.
    destruct (hd_error (skipn (wlen (rev l)) (rev l))) as [[| | |]|]; [| destruct (wlen (rev l)) | | |];
      (split; cbn; rewrite ?app_nil_r; reflexivity).
Qed.
Lemma push_entries l le : lentries (a_push l le) = lentries l ++ [le] /\ lsubsts (a_push l le) = lsubsts l.
Proof.
  unfold a_push. destruct (insert_entries l (count_if is_re l) le) as [H1 H2]. split; [|exact H2].
  rewrite H1. apply l_insert_beyond.
  assert (Hc : forall m, count_if is_re m = length (lentries m)).
  { intros m. unfold count_if. induction m as [|x r IH]; [reflexivity|]. destruct x; cbn [filter is_re]; try exact IH.
    change (lentries (RE e :: r)) with (e :: lentries r). cbn [length]. now rewrite IH. }
  rewrite Hc. lia.
Qed.

Theorem pentries_step o l l' : a_pop o l = Some l' ->
  lentries l' = pestep (lentries l) o /\ lsubsts l' = lsubsts l /\ pe_in_range (lentries l) o = true.
Proof.
  intros H. destruct o; cbn [a_pop pestep pe_in_range] in *.
  - injection H as <-. destruct (push_entries l (lentry_of r alts true)). auto.
  - injection H as <-. destruct (insert_entries l i (lentry_of r alts true)). auto.
  - unfold a_replace in H. destruct (nth_index is_re i l) as [ci|] eqn:E; [|discriminate]. injection H as <-.
    destruct (nth_index_re_split _ _ _ E) as (pre & e0 & post & -> & <- & <-).
    destruct (replace_entry_entries pre e0 post (lentry_of r alts true)) as [H1 H2]. rewrite H1, H2, lentries_split, l_replace_app_len.
    repeat split. rewrite app_length. cbn [length]. apply Nat.ltb_lt. lia.
  - unfold a_on_entry in H. destruct (nth_entry l i) as [[ci e]|] eqn:He; [|discriminate]. injection H as <-.
    destruct (nth_entry_entries _ _ _ _ He) as (pre & post & -> & <- & <-).
    destruct (replace_entry_entries pre e post (a_epush e (lrel_of r true))) as [H1 H2]. rewrite H1, H2, lentries_split, upd_nth_at.
    repeat split. rewrite app_length. cbn [length]. apply Nat.ltb_lt. lia.
  - destruct (nth_entry l i) as [[ci e]|] eqn:He; [|discriminate]. destruct (j <? n_rels e) eqn:Hj; [|discriminate].
    injection H as <-. destruct (nth_entry_entries _ _ _ _ He) as (pre & post & -> & <- & <-).
    destruct (replace_entry_entries pre e post (a_ereplace e j (lrel_of r true))) as [H1 H2].
    rewrite H1, H2, lentries_split, upd_nth_at, nth_error_app_len. auto.
Qed.

Lemma entry_content_of r alts : lentry_content (lentry_of r alts true) = entry_content r alts.
Proof. apply lentry_content_of. Qed.
Theorem pestep_content es o : pe_in_range es o = true ->
  map lentry_content (pestep es o) = pxstep (map lentry_content es) o.
Proof.
  intros H. destruct o; cbn [pe_in_range pestep pxstep] in *.
  - rewrite map_app. cbn [map]. now rewrite entry_content_of.
  - now rewrite map_l_insert, entry_content_of.
  - now rewrite map_l_replace, entry_content_of.
  - apply map_upd_nth. intros x. now rewrite content_epush, lrel_content_of.
  - destruct (nth_error es i) as [e|] eqn:E; [|discriminate].
    eapply map_upd_nth_at; [exact E|]. now rewrite content_ereplace, lrel_content_of.
Qed.
Lemma pe_in_range_x es o : pe_in_range es o = p_in_range (map lentry_content es) o.
Proof.
  destruct o; cbn [pe_in_range p_in_range]; rewrite ?map_length; try reflexivity.
  destruct (nth_error es i) as [e|] eqn:E; [rewrite (map_nth_error _ _ _ E), length_content; reflexivity|].
  apply nth_error_None in E. rewrite (proj2 (nth_error_None (map lentry_content es) i)) by (rewrite map_length; exact E). reflexivity.
Qed.
Theorem pcontent_step o l l' : a_pop o l = Some l' ->
  lcontent l' = (pxstep (fst (lcontent l)) o, snd (lcontent l)) /\ p_in_range (fst (lcontent l)) o = true.
Proof.
  intros H. destruct (pentries_step o l l' H) as (He & Hs & Hr).
  rewrite !lcontent_entries. cbn [fst snd]. rewrite He, Hs, (pestep_content _ _ Hr). split; [reflexivity|].
  now rewrite <- pe_in_range_x.
Qed.

(* ------------------------------------------------------------------ defined, well-formed *)
Lemma entry_field_ok lead r alts : wf_rfield false (entry_field lead r alts) = true ->
  lentry_ok (lentry_of r alts true) = true /\ lrel_ok (lrel_of r true) = true.
Proof.
  unfold wf_rfield, entry_field. cbn [f_lead f_first f_rest wf_item forallb]. intros H. andb_hyps.
  split; [now apply lentry_of_ok|now apply lrel_of_ok].
Qed.

Theorem a_pop_lwf b o l : lwf b l = true -> poperands_ok o = true -> p_in_range (fst (lcontent l)) o = true ->
  exists l', a_pop o l = Some l' /\ lwf b l' = true.
Proof.
  intros H Ho Hr. rewrite lcontent_entries in Hr. cbn [fst] in Hr.
  destruct o; cbn [a_pop poperands_ok p_in_range] in *; rewrite ?map_length in Hr;
    destruct (entry_field_ok _ _ _ Ho) as [Hle Hlr].
  - eexists. split; [reflexivity|]. now apply insert_lwf.
  - eexists. split; [reflexivity|]. now apply insert_lwf.
  - apply Nat.ltb_lt in Hr. destruct (nth_index_re_lt l i Hr) as (ci & Hci). unfold a_replace. rewrite Hci.
    eexists. split; [reflexivity|]. destruct (nth_index_re_split _ _ _ Hci) as (pre & e0 & post & -> & <- & _).
    now apply replace_entry_lwf.
  - apply Nat.ltb_lt in Hr. destruct (nth_error (lentries l) i) as [e|] eqn:E; [|apply nth_error_None in E; lia].
    destruct (nth_error_entries_some _ _ _ E) as (pre & post & -> & <-).
    unfold a_on_entry. rewrite nth_entry_at. eexists. split; [reflexivity|].
    apply replace_entry_lwf; [|exact H]. destruct (lwf_split _ _ H) as (Hok & _).
    apply epush_ok; [exact Hlr|now apply (entry_at_ok b pre e post)].
  - destruct (nth_error (lentries l) i) as [e|] eqn:E.
    2:{ rewrite (proj2 (nth_error_None (map lentry_content (lentries l)) i)) in Hr; [discriminate|]. rewrite map_length. now apply nth_error_None. }
    rewrite (map_nth_error _ _ _ E), length_content in Hr.
    destruct (nth_error_entries_some _ _ _ E) as (pre & post & -> & <-). rewrite nth_entry_at, Hr.
    eexists. split; [reflexivity|]. apply replace_entry_lwf; [|exact H]. destruct (lwf_split _ _ H) as (Hok & _).
    apply ereplace_ok; [exact Hlr|now apply (entry_at_ok b pre e post)].
Qed.

(* ------------------------------------------------------------------ one operation, histories *)
Lemma preplace_ready_ltree o l : preplace_ready o (ltree l).
Proof. destruct o; cbn [preplace_ready]; auto. exact (ereplace_ready_ltree (AEReplace i j (mk_relrec [] None None None [])) l). Qed.

Theorem g_step b o l st : lwf b l = true -> goperands_ok o = true ->
  g_in_range (fst (lcontent l)) o = true -> holds st (ltree l) ->
  exists l' st', g_op o l = Some l' /\
                 run_ops fixed (gcompile o) st = Ok st' /\ holds st' (ltree l') /\
                 lwf b l' = true /\
                 lcontent l' = (gxstep (fst (lcontent l)) o, snd (lcontent l)).
Proof.
  intros H Ho Hr Hst. destruct o as [o|o]; cbn [goperands_ok g_in_range g_op gcompile gxstep] in *.
  - destruct (live_step b o l st H Ho Hr Hst) as (l' & st' & Ha & R & Hst' & Hw & Hc & _). exists l', st'. auto.
  - destruct (a_pop_lwf b o l H Ho Hr) as (l' & Ha & Hw).
    pose proof (a_pop_tree o l l' Ha) as Ht.
    destruct (pop_step_tree o (ltree l) (ltree l') st Ho eq_refl (preplace_ready_ltree o l) Hst Ht) as (st' & R & Hst').
    exists l', st'. destruct (pcontent_step o l l' Ha) as [Hc _]. auto.
Qed.

Fixpoint gsteps_in_range (c : list (list relx)) (ops : list gop) : bool :=
  match ops with
  | [] => true
  | o :: r => g_in_range c o && gsteps_in_range (gxstep c o) r
  end.
Definition gcompile_all (ops : list gop) : list op := flat_map gcompile ops.

Theorem g_history b ops : forall l st, lwf b l = true -> forallb goperands_ok ops = true ->
  gsteps_in_range (fst (lcontent l)) ops = true -> holds st (ltree l) ->
  exists l' st', g_ops ops l = Some l' /\
                 run_ops fixed (gcompile_all ops) st = Ok st' /\ holds st' (ltree l') /\
                 lwf b l' = true /\
                 lcontent l' = (fold_left gxstep ops (fst (lcontent l)), snd (lcontent l)).
Proof.
  induction ops as [|o rest IH]; intros l st H Ho Hr Hst.
  - exists l, st. cbn. repeat split; auto; now destruct (lcontent l).
  - cbn [forallb gsteps_in_range] in *. andb_hyps.
    destruct (g_step b o l st) as (l1 & st1 & Ha & R1 & Hst1 & Hw1 & Hc1); auto.
    destruct (IH l1 st1) as (l' & st' & Ha' & R' & Hst' & Hw' & Hc'); auto.
    { rewrite Hc1. cbn [fst]. assumption. }
    exists l', st'. cbn [g_ops gcompile_all flat_map fold_left]. rewrite Ha.
    split; [exact Ha'|]. split; [eapply run_ops_app; [exact R1|exact R']|]. split; [exact Hst'|]. split; [exact Hw'|].
    rewrite Hc', Hc1. reflexivity.
Qed.

Theorem g_history_any_field b ops f st : wf_rfield b f = true -> forallb goperands_ok ops = true ->
  gsteps_in_range (fst (rcontent f)) ops = true -> holds st (rtree_of f) ->
  exists l' st',
    g_ops ops (live_of f) = Some l' /\
    run_ops fixed (gcompile_all ops) st = Ok st' /\
    root_tree st' = Ok (ltree l') /\ root_text st' = Ok (rrender (norm l')) /\
    wf_rfield b (norm l') = true /\
    rcontent (norm l') = (fold_left gxstep ops (fst (rcontent f)), snd (rcontent f)) /\
    exists a, parse_relaxed (rrender (norm l')) b = Ok (rtree_of (norm l'), 0) /\
              racc (rtree_of (norm l')) = Ok a /\
              racc_view a = (fold_left gxstep ops (fst (rcontent f)), snd (rcontent f)).
Proof.
  intros H Ho Hr Hst. pose proof (lwf_live_of b f H) as Hl. rewrite <- lcontent_live_of in Hr. rewrite <- ltree_live_of in Hst.
  destruct (g_history b ops (live_of f) st Hl Ho Hr Hst) as (l' & st' & Ha & R & Hst' & Hw & Hc).
  exists l', st'. destruct (holds_root_tree _ _ Hst') as [RT RX]. rewrite lcontent_live_of in Hc.
  split; [exact Ha|]. split; [exact R|]. split; [exact RT|]. split; [now rewrite (rrender_norm b l' Hw)|].
  split; [now apply wf_norm|]. split; [now rewrite (rcontent_norm b l' Hw)|].
  destruct (live_reread b l' Hw) as (a & P & _ & A & V). exists a. rewrite (rrender_norm b l' Hw). rewrite <- Hc. auto.
Qed.

Theorem g_history_from_text ops f : wf_rfield true f = true -> forallb goperands_ok ops = true ->
  gsteps_in_range (fst (rcontent f)) ops = true ->
  exists st0 l' st',
    init_state fixed (IRelaxed (rrender f)) = Ok st0 /\
    g_ops ops (live_of f) = Some l' /\
    run_ops fixed (gcompile_all ops) st0 = Ok st' /\
    root_tree st' = Ok (ltree l') /\ root_text st' = Ok (rrender (norm l')) /\
    wf_rfield true (norm l') = true /\
    rcontent (norm l') = (fold_left gxstep ops (fst (rcontent f)), snd (rcontent f)) /\
    exists a, parse_relaxed (rrender (norm l')) true = Ok (rtree_of (norm l'), 0) /\
              racc (rtree_of (norm l')) = Ok a /\
              racc_view a = (fold_left gxstep ops (fst (rcontent f)), snd (rcontent f)).
Proof.
  intros H Ho Hr. destruct (init_relaxed f H) as (st0 & I & Hst).
  destruct (g_history_any_field true ops f st0 H Ho Hr Hst) as (l' & st' & R). exists st0, l', st'. tauto.
Qed.
