(* C11 on ANY well-formed field (RelGrammar.wf_rfield): one operation, then histories, with the
   strict re-read after every step through C10.
     machine (RelEdit.run_ops, variant fixed)  --op_step_tree-->  tree function t_op (RelEditTree)
     t_op on the tree of a live layout          --a_op_tree---->  abstract operation a_op (RelLive)
     a_op on a well-formed live layout: defined, well-formed, list model on contents   (RelLiveWfP, RelLiveStepP)
     live_of f: the layout of the field f, same tree; norm l: the field with the text of l (RelLiveNormP)
   All twelve operations (the ten of the property, set_architectures, add_profile). *)
From V.model Require Import Base RelLex RelParse RelAcc RelGrammar.
From V.model Require Import RelEdit RelEditSpec RelEditTree RelLive.
From V.proofs Require Import BaseP RelEditP RelEditStP RelEditHistP RelEditTreeP RelEditReplaceP RelGrammarAccP.
From V.proofs Require Import RelLiveP RelLiveStepP RelLiveWfP RelLiveNormP.

Lemma operands_ok_plain o : operands_ok o = true -> operands_plain o = true.
Proof. destruct o; cbn [operands_ok operands_plain]; intros H; andb_hyps; auto. Qed.
Lemma operands_ok_new o : operands_ok o = true -> operands_new_all o = true.
Proof. destruct o; cbn [operands_ok operands_new_all]; intros H; andb_hyps; auto. Qed.

(* an alternative of a live layout begins with its name *)
Lemma relation_child_lrel e x : In x (lentry_children e) -> is_relation x = true -> exists r, x = lrel_tree r.
Proof.
  unfold lentry_children. intros [<-|Hin] Hx; [eauto|]. apply in_app_or in Hin as [Hin|Hin].
  - apply in_flat_map in Hin as ([[w1 w2] r] & _ & Hin). unfold alt_part in Hin. cbn [fst snd] in Hin.
    apply in_app_or in Hin as [Hin|[<-|Hin]].
    + apply in_map_iff in Hin as (w & <- & _). now rewrite is_relation_wtree in Hx.
    + discriminate.
    + apply in_app_or in Hin as [Hin|[<-|[]]]; [|eauto].
      apply in_map_iff in Hin as (w & <- & _). now rewrite is_relation_wtree in Hx.
  - apply in_map_iff in Hin as (w & <- & _). now rewrite is_relation_wtree in Hx.
Qed.
Lemma ereplace_ready_ltree o l : ereplace_ready o (ltree l).
Proof.
  destruct o; cbn [ereplace_ready]; auto. intros ci cj O Hp HG.
  destruct (rel_pos_inv _ _ _ _ _ Hp) as (E & P1 & P2 & P3 & _).
  rewrite entry_pos_ltree in P1. destruct (nth_index_re_split _ _ _ P1) as (pre & e & post & -> & <- & _).
  rewrite child_at_ltree in P2. injection P2 as <-. cbn [relem_tree lentry_tree children] in P3.
  destruct (nth_index_split _ _ _ _ P3) as (rp & x & rq & Ecs & <- & Px).
  assert (HO : O = x).
  { cbn [get_path] in HG. fold (child_at (ltree (pre ++ RE e :: post)) (length pre)) in HG. rewrite child_at_ltree in HG.
    cbn [relem_tree lentry_tree children] in HG. rewrite Ecs, nth_error_app_len in HG. congruence. }
  subst O. destruct (relation_child_lrel e x) as (r0 & ->); [rewrite Ecs; apply in_elt|exact Px|]. reflexivity.
Qed.

(* ------------------------------------------------------------------ (1) one operation *)
(* on the trees: any well-formed live layout, every operation *)
Theorem live_step_tree b o l : lwf b l = true -> operands_ok o = true -> x_in_range (fst (lcontent l)) o = true ->
  exists l', a_op o l = Some l' /\
             t_op o (ltree l) = Ok (ltree l') /\
             lwf b l' = true /\
             lcontent l' = (xstep (fst (lcontent l)) o, snd (lcontent l)) /\
             lentries l' = estep (lentries l) o.
Proof.
  intros H Ho Hr. destruct (a_op_lwf b o l H Ho Hr) as (l' & Ha & Hw). exists l'.
  split; [exact Ha|]. split; [apply a_op_tree; [now apply operands_ok_plain|exact Ha]|]. split; [exact Hw|].
  split; [now apply content_step|]. now apply entries_step.
Qed.

(* on the machine *)
Theorem live_step b o l st : lwf b l = true -> operands_ok o = true ->
  x_in_range (fst (lcontent l)) o = true -> holds st (ltree l) ->
  exists l' st', a_op o l = Some l' /\
                 run_ops fixed (compile o) st = Ok st' /\ holds st' (ltree l') /\
                 lwf b l' = true /\
                 lcontent l' = (xstep (fst (lcontent l)) o, snd (lcontent l)) /\
                 lentries l' = estep (lentries l) o.
Proof.
  intros H Ho Hr Hst. destruct (live_step_tree b o l H Ho Hr) as (l' & Ha & Ht & Hw & Hc & He).
  destruct (op_step_tree_all o (ltree l) (ltree l') st (operands_ok_new o Ho) eq_refl (ereplace_ready_ltree o l) Hst Ht) as (st' & R & Hst').
  exists l', st'. auto 10.
Qed.

(* (3) the strict re-read of a well-formed live layout, through C10 *)
Theorem live_reread b l : lwf b l = true ->
  exists a, parse_relaxed (text (ltree l)) b = Ok (rtree_of (norm l), 0) /\
            text (rtree_of (norm l)) = text (ltree l) /\
            racc (rtree_of (norm l)) = Ok a /\ racc_view a = lcontent l.
Proof.
  intros H. pose proof (wf_norm b l H) as Hw.
  destruct (C10_lossless_all b (norm l) Hw) as (_ & _ & P & T & A).
  pose proof (racc_view_content b (norm l) Hw) as V.
  rewrite (rrender_norm b l H) in P, T. rewrite (rcontent_norm b l H) in V. exists (rcontent_acc (norm l)). auto.
Qed.
Corollary live_reread_strict l : lwf false l = true ->
  relations_from_str (text (ltree l)) = Ok (rtree_of (norm l)).
Proof. intros H. rewrite <- (rrender_norm false l H). apply from_str_rrender. now apply wf_norm. Qed.

(* (1) stated on fields: the operation as a function on well-formed fields *)
Definition f_op (o : aop) (f : rfield) : option rfield := option_map norm (a_op o (live_of f)).

Theorem field_step b o f : wf_rfield b f = true -> operands_ok o = true -> x_in_range (fst (rcontent f)) o = true ->
  exists f' T', f_op o f = Some f' /\
                t_op o (rtree_of f) = Ok T' /\ text T' = rrender f' /\
                wf_rfield b f' = true /\
                rcontent f' = (xstep (fst (rcontent f)) o, snd (rcontent f)).
Proof.
  intros H Ho Hr. pose proof (lwf_live_of b f H) as Hl. rewrite <- lcontent_live_of in Hr.
  destruct (live_step_tree b o (live_of f) Hl Ho Hr) as (l' & Ha & Ht & Hw & Hc & _).
  exists (norm l'), (ltree l'). unfold f_op. rewrite Ha. cbn [option_map]. rewrite ltree_live_of in Ht.
  split; [reflexivity|]. split; [exact Ht|]. split; [symmetry; now apply (rrender_norm b)|]. split; [now apply wf_norm|].
  rewrite (rcontent_norm b l' Hw), Hc, lcontent_live_of. reflexivity.
Qed.

(* ------------------------------------------------------------------ (2) histories *)
Fixpoint xsteps_in_range (c : list (list relx)) (ops : list aop) : bool :=
  match ops with
  | [] => true
  | o :: r => x_in_range c o && xsteps_in_range (xstep c o) r
  end.

(* the layouts after each step of a history *)
Fixpoint a_trace (ops : list aop) (l : lroot) : option (list lroot) :=
  match ops with
  | [] => Some []
  | o :: rest => match a_op o l with
                 | Some l' => option_map (cons l') (a_trace rest l')
                 | None => None
                 end
  end.

Theorem live_history b ops : forall l st, lwf b l = true -> forallb operands_ok ops = true ->
  xsteps_in_range (fst (lcontent l)) ops = true -> holds st (ltree l) ->
  exists l' st', a_ops ops l = Some l' /\
                 run_ops fixed (compile_all ops) st = Ok st' /\ holds st' (ltree l') /\
                 lwf b l' = true /\
                 lcontent l' = (fold_left xstep ops (fst (lcontent l)), snd (lcontent l)).
Proof.
  induction ops as [|o rest IH]; intros l st H Ho Hr Hst.
  - exists l, st. cbn. repeat split; auto; now destruct (lcontent l).
  - cbn [forallb xsteps_in_range] in *. andb_hyps.
    destruct (live_step b o l st) as (l1 & st1 & Ha & R1 & Hst1 & Hw1 & Hc1 & _); auto.
    destruct (IH l1 st1) as (l' & st' & Ha' & R' & Hst' & Hw' & Hc'); auto.
    { rewrite Hc1. cbn [fst]. assumption. }
    exists l', st'. cbn [a_ops compile_all flat_map fold_left]. rewrite Ha.
    split; [exact Ha'|]. split; [eapply run_ops_app; [exact R1|exact R']|]. split; [exact Hst'|]. split; [exact Hw'|].
    rewrite Hc', Hc1. reflexivity.
Qed.

(* every intermediate state of a history: well-formed, its text reads back strictly to its content *)
Theorem live_history_all b ops : forall l, lwf b l = true -> forallb operands_ok ops = true ->
  xsteps_in_range (fst (lcontent l)) ops = true ->
  exists tr, a_trace ops l = Some tr /\ length tr = length ops /\
             Forall (fun l' => lwf b l' = true /\ snd (lcontent l') = snd (lcontent l)) tr.
Proof.
  induction ops as [|o rest IH]; intros l H Ho Hr.
  - exists []. cbn. auto.
  - cbn [forallb xsteps_in_range] in *. andb_hyps.
    destruct (live_step_tree b o l) as (l1 & Ha & _ & Hw1 & Hc1 & _); auto.
    destruct (IH l1) as (tr & Ht & Hl & HF); auto.
    { rewrite Hc1. cbn [fst]. assumption. }
    exists (l1 :: tr). cbn [a_trace a_ops]. rewrite Ha, Ht. cbn [option_map]. split; [reflexivity|]. split.
    + cbn [length]. now rewrite Hl.
    + constructor; [split; [exact Hw1|now rewrite Hc1]|]. eapply Forall_impl; [|exact HF].
      intros l' [A B]. split; [exact A|]. now rewrite B, Hc1.
Qed.

(* ------------------------------------------------------------------ the whole, from a well-formed field *)
Theorem history_any_field b ops f st : wf_rfield b f = true -> forallb operands_ok ops = true ->
  xsteps_in_range (fst (rcontent f)) ops = true -> holds st (rtree_of f) ->
  exists l' st',
    a_ops ops (live_of f) = Some l' /\
    run_ops fixed (compile_all ops) st = Ok st' /\
    root_tree st' = Ok (ltree l') /\ root_text st' = Ok (rrender (norm l')) /\
    wf_rfield b (norm l') = true /\
    rcontent (norm l') = (fold_left xstep ops (fst (rcontent f)), snd (rcontent f)) /\
    exists a, parse_relaxed (rrender (norm l')) b = Ok (rtree_of (norm l'), 0) /\
              racc (rtree_of (norm l')) = Ok a /\
              racc_view a = (fold_left xstep ops (fst (rcontent f)), snd (rcontent f)).
Proof.
  intros H Ho Hr Hst. pose proof (lwf_live_of b f H) as Hl. rewrite <- lcontent_live_of in Hr. rewrite <- ltree_live_of in Hst.
  destruct (live_history b ops (live_of f) st Hl Ho Hr Hst) as (l' & st' & Ha & R & Hst' & Hw & Hc).
  exists l', st'. destruct (holds_root_tree _ _ Hst') as [RT RX]. rewrite lcontent_live_of in Hc.
  split; [exact Ha|]. split; [exact R|]. split; [exact RT|]. split; [now rewrite (rrender_norm b l' Hw)|].
  split; [now apply wf_norm|]. split; [now rewrite (rcontent_norm b l' Hw)|].
  destruct (live_reread b l' Hw) as (a & P & _ & A & V). exists a. rewrite (rrender_norm b l' Hw). rewrite <- Hc. auto.
Qed.

(* ------------------------------------------------------------------ the initial states *)
(* a well-formed field read strictly (Relations::from_str), read with substitution variables
   allowed (Relations::parse_relaxed(s, true)), and the empty field (Relations::new) *)
Lemma init_strict f : wf_rfield false f = true ->
  exists st, init_state fixed (IStrict (rrender f)) = Ok st /\ holds st (rtree_of f).
Proof.
  intros H. unfold init_state, build_init, relations_parse. unfold mbind, lift. rewrite (from_str_rrender f H).
  eexists. split; [reflexivity|]. now exists [mk_slot true 0 (rtree_of f)], 0, 0, None, None, None, None.
Qed.
Lemma init_relaxed f : wf_rfield true f = true ->
  exists st, init_state fixed (IRelaxed (rrender f)) = Ok st /\ holds st (rtree_of f).
Proof.
  intros H. destruct (C10_lossless_all true f H) as (_ & _ & P & _).
  unfold init_state, build_init. unfold mbind, lift. rewrite P.
  eexists. split; [reflexivity|]. now exists [mk_slot true 0 (rtree_of f)], 0, 0, None, None, None, None.
Qed.
Definition empty_rfield : rfield := mk_rfield [] IEmpty [].
Lemma init_empty : exists st, init_state fixed INew = Ok st /\ holds st (rtree_of empty_rfield).
Proof. exact init_new. Qed.

Theorem history_from_text ops f : wf_rfield true f = true -> forallb operands_ok ops = true ->
  xsteps_in_range (fst (rcontent f)) ops = true ->
  exists st0 l' st',
    init_state fixed (IRelaxed (rrender f)) = Ok st0 /\
    a_ops ops (live_of f) = Some l' /\
    run_ops fixed (compile_all ops) st0 = Ok st' /\
    root_tree st' = Ok (ltree l') /\ root_text st' = Ok (rrender (norm l')) /\
    wf_rfield true (norm l') = true /\
    rcontent (norm l') = (fold_left xstep ops (fst (rcontent f)), snd (rcontent f)) /\
    exists a, parse_relaxed (rrender (norm l')) true = Ok (rtree_of (norm l'), 0) /\
              racc (rtree_of (norm l')) = Ok a /\
              racc_view a = (fold_left xstep ops (fst (rcontent f)), snd (rcontent f)).
Proof.
  intros H Ho Hr. destruct (init_relaxed f H) as (st0 & I & Hst).
  destruct (history_any_field true ops f st0 H Ho Hr Hst) as (l' & st' & R). exists st0, l', st'. tauto.
Qed.
Theorem history_from_strict_text ops f : wf_rfield false f = true -> forallb operands_ok ops = true ->
  xsteps_in_range (fst (rcontent f)) ops = true ->
  exists st0 l' st',
    init_state fixed (IStrict (rrender f)) = Ok st0 /\
    a_ops ops (live_of f) = Some l' /\
    run_ops fixed (compile_all ops) st0 = Ok st' /\
    root_text st' = Ok (rrender (norm l')) /\
    wf_rfield false (norm l') = true /\
    relations_from_str (rrender (norm l')) = Ok (rtree_of (norm l')) /\
    exists a, racc (rtree_of (norm l')) = Ok a /\
              racc_view a = (fold_left xstep ops (fst (rcontent f)), snd (rcontent f)).
Proof.
  intros H Ho Hr. destruct (init_strict f H) as (st0 & I & Hst).
  destruct (history_any_field false ops f st0 H Ho Hr Hst) as (l' & st' & Ha & R & RT & RX & Hw & Hc & a & P & A & V).
  exists st0, l', st'. repeat split; auto. - now apply from_str_rrender. - eauto.
Qed.
Theorem history_from_empty ops : forallb operands_ok ops = true -> xsteps_in_range [] ops = true ->
  exists st0 l' st',
    init_state fixed INew = Ok st0 /\
    a_ops ops [] = Some l' /\
    run_ops fixed (compile_all ops) st0 = Ok st' /\
    root_text st' = Ok (rrender (norm l')) /\
    wf_rfield false (norm l') = true /\
    relations_from_str (rrender (norm l')) = Ok (rtree_of (norm l')) /\
    exists a, racc (rtree_of (norm l')) = Ok a /\ racc_view a = (fold_left xstep ops [], []).
Proof.
  intros Ho Hr. destruct init_empty as (st0 & I & Hst).
  destruct (history_any_field false ops empty_rfield st0 eq_refl Ho Hr Hst) as (l' & st' & Ha & R & RT & RX & Hw & Hc & a & P & A & V).
  exists st0, l', st'. repeat split; auto. - now apply from_str_rrender. - eauto.
Qed.
