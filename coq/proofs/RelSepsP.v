(* Lemmas about RelEdit.v (C11): separators.  The slots of a field (RelEditSpec.tree_slots) under
   the green-level functions of the editing API, variant fixed, on ANY children list that has the
   shape of a field (RelEditSpec.sep_from):
     Relations::insert / push     insert_slots       = RelEditSpec.s_insert
     Entry::remove (remove_entry, and Relation::remove of the only alternative)
                                  remove_slots       = RelEditSpec.s_remove
     everything else keeps the kinds of the root's children, hence the slots (slots_same)
   and the count of empty slots the oracle uses never grows (sstep_never_more). *)
From V.model Require Import Base RelLex RelParse RelEdit RelEditSpec RelEditTree.
From V.proofs Require Import BaseP RelEditP.

(* ------------------------------------------------------------------ the kinds of children *)
Lemma ck_ws c : ws_elem c = true -> ck c = KOther.
Proof. destruct c as [k s|k cs]; destruct k; cbn; intros H; try reflexivity; discriminate. Qed.
Lemma ck_entry c : is_entry c = true -> ck c = KItem SEntry.
Proof. destruct c as [k s|k cs]; destruct k; cbn; intros H; try reflexivity; discriminate. Qed.
Lemma ck_is_entry c : is_entry c = match ck c with KItem SEntry => true | _ => false end.
Proof. destruct c as [k s|k cs]; destruct k; reflexivity. Qed.
Lemma ck_comma c : kind_is COMMA c = match ck c with KComma => true | _ => false end.
Proof. destruct c as [k s|k cs]; destruct k; reflexivity. Qed.
Lemma ck_item c : is_entry c || node_is SUBSTVAR c = match ck c with KItem _ => true | _ => false end.
Proof. destruct c as [k s|k cs]; destruct k; reflexivity. Qed.
Lemma ck_not_ws c : ws_elem c = false -> sep_from SEmpty [c] = true \/ True.
Proof. auto. Qed.

(* ------------------------------------------------------------------ scanning *)
Fixpoint scan (cur : fslot) (cs : list rtree) : list fslot * fslot :=
  match cs with
  | [] => ([], cur)
  | c :: r => match ck c with
              | KComma => (cur :: fst (scan SEmpty r), snd (scan SEmpty r))
              | KItem k => scan k r
              | KOther => scan cur r
              end
  end.
Lemma slots_scan cs : forall cur, slots_from cur cs = fst (scan cur cs) ++ [snd (scan cur cs)].
Proof. induction cs as [|c r IH]; intros cur; cbn [slots_from scan]; [reflexivity|]. destruct (ck c); cbn [fst snd app]; now rewrite IH. Qed.
Lemma scan_app a b : forall cur, scan cur (a ++ b) = (fst (scan cur a) ++ fst (scan (snd (scan cur a)) b), snd (scan (snd (scan cur a)) b)).
Proof.
  induction a as [|c r IH]; intros cur; cbn [app scan fst snd]; [now destruct (scan cur b)|].
  destruct (ck c); cbn [fst snd app]; now rewrite IH.
Qed.
Lemma slots_app a b cur : slots_from cur (a ++ b) = fst (scan cur a) ++ slots_from (snd (scan cur a)) b.
Proof. rewrite !slots_scan, scan_app. cbn [fst snd]. now rewrite app_assoc. Qed.
Lemma sep_app a b : forall cur, sep_from cur (a ++ b) = sep_from cur a && sep_from (snd (scan cur a)) b.
Proof.
  induction a as [|c r IH]; intros cur; cbn [app sep_from scan snd]; [reflexivity|].
  destruct (ck c); cbn [snd]; rewrite IH; [reflexivity|now rewrite andb_assoc|now rewrite andb_assoc].
Qed.
Definition all_ws (w : list rtree) : Prop := Forall (fun c => ws_elem c = true) w.
Lemma scan_ws w : all_ws w -> forall cur, scan cur w = ([], cur).
Proof. induction 1 as [|c r Hc _ IH]; intros cur; cbn [scan]; [reflexivity|]. now rewrite (ck_ws c Hc). Qed.
Lemma sep_ws w : all_ws w -> forall cur, sep_from cur w = true.
Proof. induction 1 as [|c r Hc _ IH]; intros cur; cbn [sep_from]; [reflexivity|]. now rewrite (ck_ws c Hc), Hc, IH. Qed.
Lemma slots_ws w b cur : all_ws w -> slots_from cur (w ++ b) = slots_from cur b.
Proof. intros H. now rewrite slots_app, (scan_ws w H). Qed.

(* white space at the front of a list *)
Lemma ws_split l : exists w r, l = w ++ r /\ all_ws w /\ ws_prefix_len l = length w /\ skipn (length w) l = r /\
  match r with [] => True | c :: _ => ws_elem c = false end.
Proof.
  induction l as [|c l IH]; [exists [], []; repeat split; constructor|]. cbn [ws_prefix_len].
  destruct (ws_elem c) eqn:E.
  - destruct IH as (w & r & -> & Hw & Hl & Hs & Hr). exists (c :: w), r. cbn [app length skipn]. repeat split; auto. now constructor.
  - exists [], (c :: l). repeat split; auto. constructor.
Qed.
(* white space at the end *)
Lemma ws_split_rev l : exists r w, l = r ++ w /\ all_ws w /\ ws_prefix_len (rev l) = length w /\ skipn (length w) (rev l) = rev r /\
  match rev r with [] => True | c :: _ => ws_elem c = false end.
Proof.
  destruct (ws_split (rev l)) as (w & r & E & Hw & Hl & Hs & Hr). exists (rev r), (rev w).
  rewrite rev_length, rev_involutive. repeat split; auto.
  - rewrite <- (rev_involutive l), E, rev_app_distr. reflexivity.
  - apply Forall_rev. exact Hw.
Qed.

(* ------------------------------------------------------------------ positions *)
Lemma count_cons {A} (p : A -> bool) x l : count_if p (x :: l) = (if p x then 1 else 0) + count_if p l.
Proof. unfold count_if. cbn [filter]. destruct (p x); reflexivity. Qed.
Lemma count_app {A} (p : A -> bool) a b : count_if p (a ++ b) = count_if p a + count_if p b.
Proof. unfold count_if. now rewrite filter_app, app_length. Qed.
Lemma nthi_split {A} (p : A -> bool) l : forall n i, nth_index p n l = Some i ->
  exists pre x post, l = pre ++ x :: post /\ length pre = i /\ p x = true /\ count_if p pre = n.
Proof.
  induction l as [|c r IH]; intros n i H; [discriminate|]. cbn [nth_index] in H. destruct (p c) eqn:Pc.
  - destruct n as [|n].
    + injection H as <-. exists [], c, r. auto.
    + destruct (nth_index p n r) as [j|] eqn:E; [|discriminate]. injection H as <-.
      destruct (IH _ _ E) as (pre & x & post & -> & L & Px & C). exists (c :: pre), x, post.
      rewrite count_cons, Pc. cbn. auto.
  - destruct (nth_index p n r) as [j|] eqn:E; [|discriminate]. injection H as <-.
    destruct (IH _ _ E) as (pre & x & post & -> & L & Px & C). exists (c :: pre), x, post.
    rewrite count_cons, Pc. cbn. auto.
Qed.
Lemma nthi_at {A} (p : A -> bool) pre x post : p x = true ->
  nth_index p (count_if p pre) (pre ++ x :: post) = Some (length pre).
Proof.
  intros Px. induction pre as [|c r IH]; cbn [app nth_index length]; [now rewrite Px|].
  rewrite count_cons. destruct (p c); cbn [Nat.add]; now rewrite IH.
Qed.
Lemma nthi_beyond {A} (p : A -> bool) l : forall n, count_if p l <= n -> nth_index p n l = None.
Proof.
  induction l as [|c r IH]; intros n H; [reflexivity|]. rewrite count_cons in H. cbn [nth_index].
  destruct (p c).
  - destruct n as [|n]; [cbn in H; lia|]. rewrite IH by (cbn in H; lia). reflexivity.
  - rewrite IH by (cbn in H; lia). reflexivity.
Qed.
Lemma nthi_none {A} (p : A -> bool) l : forall n, nth_index p n l = None -> count_if p l <= n.
Proof.
  induction l as [|c r IH]; intros n H; [cbn; lia|]. rewrite count_cons. cbn [nth_index] in H. destruct (p c).
  - destruct n as [|n]; [discriminate|]. destruct (nth_index p n r) eqn:E; [discriminate|]. specialize (IH _ E). lia.
  - destruct (nth_index p n r) eqn:E; [discriminate|]. specialize (IH _ E). cbn. lia.
Qed.

Definition b2n (b : bool) : nat := if b then 1 else 0.
(* under [sep_from], the entries among the children and the entry slots correspond *)
Lemma scan_count cs : forall cur, sep_from cur cs = true ->
  count_if is_sentry (fst (scan cur cs)) + b2n (is_sentry (snd (scan cur cs))) = b2n (is_sentry cur) + count_if is_entry cs.
Proof.
  induction cs as [|c r IH]; intros cur H; cbn [scan sep_from fst snd] in *; [cbn; lia|].
  rewrite count_cons, (ck_is_entry c). destruct (ck c) as [|k|] eqn:E; cbn [fst snd].
  - rewrite count_cons. specialize (IH SEmpty H). cbn [is_sentry] in IH. unfold b2n in *. destruct (is_sentry cur); lia.
  - apply andb_prop in H as [Hc H]. destruct cur; try discriminate. specialize (IH k H). cbn [is_sentry b2n]. destruct k; cbn [is_sentry b2n] in *; lia.
  - apply andb_prop in H as [_ H]. specialize (IH cur H). lia.
Qed.
(* a slot that holds an item stays that item's until the next comma *)
Lemma slots_full cs : forall cur, sep_from cur cs = true -> is_sempty cur = false -> exists R, slots_from cur cs = cur :: R.
Proof.
  induction cs as [|c r IH]; intros cur H Hc; cbn [slots_from sep_from] in *; [now exists []|].
  destruct (ck c).
  - eauto.
  - apply andb_prop in H as [H _]. congruence.
  - apply andb_prop in H as [_ H]. now apply IH.
Qed.
Lemma scan_snd_full cs : forall cur, sep_from cur cs = true -> is_sempty cur = false ->
  (fst (scan cur cs) = [] /\ snd (scan cur cs) = cur) \/ exists R, fst (scan cur cs) = cur :: R.
Proof.
  induction cs as [|c r IH]; intros cur H Hc; cbn [scan sep_from fst snd] in *; [now left|].
  destruct (ck c); cbn [fst snd].
  - right. eauto.
  - apply andb_prop in H as [H _]. congruence.
  - apply andb_prop in H as [_ H]. now apply IH.
Qed.

(* the i-th entry: its slot *)
Lemma entry_slot pre E0 post idx : sep_from SEmpty (pre ++ E0 :: post) = true -> is_entry E0 = true ->
  count_if is_entry pre = idx ->
  exists R, snd (scan SEmpty pre) = SEmpty /\ slots_from SEmpty (pre ++ E0 :: post) = fst (scan SEmpty pre) ++ SEntry :: R /\
            slots_from SEntry post = SEntry :: R /\ sep_from SEntry post = true /\ sep_from SEmpty pre = true /\
            count_if is_sentry (fst (scan SEmpty pre)) = idx /\
            nth_index is_sentry idx (slots_from SEmpty (pre ++ E0 :: post)) = Some (length (fst (scan SEmpty pre))).
Proof.
  intros H HE Hc. rewrite sep_app in H. apply andb_prop in H as [H1 H2]. cbn [sep_from] in H2. rewrite (ck_entry E0 HE) in H2.
  apply andb_prop in H2 as [H2 H3]. destruct (snd (scan SEmpty pre)) eqn:Es; try discriminate.
  destruct (slots_full post SEntry H3 eq_refl) as (R & HR). exists R.
  pose proof (scan_count pre SEmpty H1) as Hn. rewrite Es in Hn. cbn [is_sentry b2n] in Hn.
  assert (Hs : slots_from SEmpty (pre ++ E0 :: post) = fst (scan SEmpty pre) ++ SEntry :: R).
  { rewrite slots_app, Es. cbn [slots_from]. now rewrite (ck_entry E0 HE), HR. }
  repeat split; auto; try lia.
  rewrite Hs. replace idx with (count_if is_sentry (fst (scan SEmpty pre))) by lia. now apply nthi_at.
Qed.
Lemma entry_slot_none cs idx : sep_from SEmpty cs = true -> nth_index is_entry idx cs = None ->
  nth_index is_sentry idx (slots_from SEmpty cs) = None.
Proof.
  intros H Hn. apply nthi_beyond. apply nthi_none in Hn. pose proof (scan_count cs SEmpty H) as Hc.
  rewrite slots_scan, count_app, count_cons. cbn [is_sentry b2n] in Hc. unfold b2n in Hc.
  change (count_if is_sentry []) with 0. destruct (is_sentry (snd (scan SEmpty cs))); lia.
Qed.

(* ------------------------------------------------------------------ Relations::insert / push *)
Theorem insert_slots cs idx eg : sep_from SEmpty cs = true -> is_entry eg = true ->
  slots_from SEmpty (insert_at (fst (insert_plan fixed cs idx eg)) (snd (insert_plan fixed cs idx eg)) cs)
  = s_insert idx (slots_from SEmpty cs).
Proof.
  intros H HE. unfold insert_plan, s_insert. destruct (nth_index is_entry idx cs) as [ci|] eqn:En.
  - destruct (nthi_split _ _ _ _ En) as (pre & E0 & post & -> & <- & HE0 & Hc).
    destruct (entry_slot pre E0 post idx H HE0 Hc) as (R & Es & Hs & HR & _ & _ & _ & Hi).
    rewrite Hi. cbn [fst snd fx_insert_first fixed negb andb]. unfold insert_at. rewrite firstn_app_len, skipn_app_len.
    rewrite slots_app, Es. cbn [app slots_from]. rewrite (ck_entry eg HE), (ck_entry E0 HE0).
    change (ck t_comma) with KComma. change (ck t_space) with KOther. cbn iota. rewrite HR.
    rewrite Hs, firstn_app_len, skipn_app_len. reflexivity.
  - rewrite (entry_slot_none cs idx H En). cbn [fst snd fx_append_sep fixed]. rewrite insert_at_end by lia.
    unfold last_significant. destruct (ws_split_rev cs) as (r & w & -> & Hw & Hl & Hs & Hr).
    rewrite Hl, Hs. rewrite sep_app in H. apply andb_prop in H as [H1 _].
    assert (Hold : slots_from SEmpty (r ++ w) = fst (scan SEmpty r) ++ [snd (scan SEmpty r)]).
    { rewrite slots_app, (slots_scan w), (scan_ws w Hw). reflexivity. }
    assert (Hnew : forall new, slots_from SEmpty ((r ++ w) ++ new) = fst (scan SEmpty r) ++ slots_from (snd (scan SEmpty r)) new).
    { intros new. rewrite <- app_assoc, slots_app. now rewrite (slots_ws w new _ Hw). }
    rewrite Hold, Hnew. unfold s_push. rewrite rev_app_distr. cbn [rev app].
    destruct (rev r) as [|c rr] eqn:Er.
    + assert (r = []) by (apply (f_equal (@rev _)) in Er; now rewrite rev_involutive in Er). subst r. cbn [hd_error scan fst snd app rev slots_from].
      now rewrite (ck_entry eg HE).
    + assert (Er' : r = rev rr ++ [c]) by (apply (f_equal (@rev _)) in Er; now rewrite rev_involutive in Er). subst r.
      cbn [hd_error]. rewrite ck_comma. rewrite scan_app. cbn [scan fst snd].
      rewrite sep_app in H1. apply andb_prop in H1 as [H1 H2]. cbn [sep_from] in H2.
      destruct (ck c) as [|k|] eqn:Ec; cbn [fst snd].
      * (* the field ends with a comma: the new entry fills the slot *)
        rewrite rev_involutive.
        destruct (length w); cbn [slots_from]; change (ck t_space) with KOther; cbn iota; cbn [slots_from]; rewrite (ck_entry eg HE); cbn [rev app]; reflexivity.
      * (* it ends with an item: a new slot *)
        apply andb_prop in H2 as [H2 _]. destruct (snd (scan SEmpty (rev rr))); try discriminate.
        assert (Hk : is_sempty k = false).
        { clear -Ec. destruct c as [kk s|kk cs]; destruct kk; cbn in Ec; try discriminate; injection Ec as <-; reflexivity. }
        rewrite app_nil_r. cbn [slots_from]. change (ck t_comma) with KComma. change (ck t_space) with KOther. cbn iota. cbn [slots_from].
        rewrite (ck_entry eg HE). destruct k; try discriminate; rewrite <- app_assoc; reflexivity.
      * (* white space cannot be the last significant child *)
        exfalso. apply andb_prop in H2 as [H2 _]. congruence.
Qed.

(* ------------------------------------------------------------------ Entry::remove *)
Lemma ck_item_full c k : ck c = KItem k -> is_sempty k = false.
Proof. destruct c as [kk s|kk cs]; destruct kk; cbn; intros H; try discriminate; injection H as <-; reflexivity. Qed.
Lemma scan_items cs : forall cur, sep_from cur cs = true ->
  forallb is_sempty (fst (scan cur cs)) && is_sempty (snd (scan cur cs))
  = is_sempty cur && negb (existsb (fun c => is_entry c || node_is SUBSTVAR c) cs).
Proof.
  induction cs as [|c r IH]; intros cur H; cbn [scan sep_from fst snd existsb forallb] in *; [now rewrite andb_true_r|].
  rewrite (ck_item c). destruct (ck c) as [|k|] eqn:E; cbn [fst snd forallb orb].
  - rewrite <- andb_assoc, (IH SEmpty H). reflexivity.
  - apply andb_prop in H as [Hc H]. rewrite (IH k H), (ck_item_full c k E). cbn [negb andb]. now rewrite andb_false_r.
  - apply andb_prop in H as [_ H]. apply (IH cur H).
Qed.
Lemma slots_all_ws w cur : all_ws w -> slots_from cur w = [cur].
Proof. intros H. now rewrite slots_scan, (scan_ws w H). Qed.

Definition is_nil {A} (l : list A) : bool := match l with [] => true | _ => false end.
Lemma slots_nonnil cs : forall cur, is_nil (slots_from cur cs) = false.
Proof. induction cs as [|c r IH]; intros cur; cbn [slots_from]; [reflexivity|]. destruct (ck c); [reflexivity|apply IH|apply IH]. Qed.
Theorem remove_slots cs idx ci cs' : sep_from SEmpty cs = true -> nth_index is_entry idx cs = Some ci ->
  entry_remove_cs fixed cs ci = Ok cs' ->
  slots_from SEmpty cs' = s_remove idx (slots_from SEmpty cs).
Proof.
  intros H En Hrm. destruct (nthi_split _ _ _ _ En) as (pre & E0 & post & -> & <- & HE0 & Hc).
  destruct (entry_slot pre E0 post idx H HE0 Hc) as (R & Es & Hs & HR & Hsp & Hspre & Hcnt & Hi).
  set (o := fst (scan SEmpty pre)) in *.
  assert (Hspec : s_remove idx (slots_from SEmpty (pre ++ E0 :: post))
                  = if is_nil R && forallb is_sempty o then o ++ [SEmpty] else o ++ R).
  { unfold s_remove. rewrite Hi, Hs, firstn_app_len, skipn_S_app_len, app_length. cbn [length].
    replace (S (length o) =? length o + S (length R)) with (is_nil R); [reflexivity|].
    destruct R; cbn [is_nil length]; symmetry; [apply Nat.eqb_eq|apply Nat.eqb_neq]; lia. }
  rewrite Hspec. clear Hspec.
  assert (Hitems : existsb (fun c => is_entry c || (fx_first_substvar fixed && node_is SUBSTVAR c)) pre = negb (forallb is_sempty o)).
  { pose proof (scan_items pre SEmpty Hspre) as Hi'. fold o in Hi'. rewrite Es in Hi'. cbn [is_sempty] in Hi'.
    rewrite andb_true_r in Hi'. cbn [andb] in Hi'. rewrite Hi'. cbn [fx_first_substvar fixed andb]. now rewrite negb_involutive. }
  unfold entry_remove_cs in Hrm. rewrite firstn_app_len, skipn_S_app_len, Hitems, negb_involutive in Hrm.
  unfold entry_remove_scan_next in Hrm. destruct (ws_split post) as (w & r & -> & Hw & Hl & Hsk & Hr).
  rewrite Hl, Hsk in Hrm.
  assert (Hpre : slots_from SEmpty pre = o ++ [SEmpty]) by (rewrite slots_scan; fold o; now rewrite Es).
  (* the white space (and the comma) before the entry, as the second loop sees it *)
  destruct (ws_split_rev pre) as (p1 & w1 & E & Hw1 & Hl1 & Hs1 & Hr1).
  assert (Ep : scan SEmpty pre = scan SEmpty p1).
  { rewrite E, scan_app, (scan_ws w1 Hw1). cbn [fst snd]. rewrite app_nil_r. now destruct (scan SEmpty p1). }
  assert (Hprev : forall rc, entry_remove_scan_prev rc pre =
            match rev p1 with c :: _ => if negb rc && kind_is COMMA c then S (length w1) else length w1 | [] => length w1 end).
  { intros rc. unfold entry_remove_scan_prev. now rewrite Hl1, Hs1. }
  assert (Hcut : firstn (length pre - length w1) pre = p1).
  { rewrite E, app_length. replace (length p1 + length w1 - length w1) with (length p1) by lia. apply firstn_app_len. }
  destruct r as [|c r'].
  - (* nothing follows the entry *)
    rewrite app_nil_r in HR, Hrm. rewrite (slots_all_ws w SEntry Hw) in HR. injection HR as <-. cbn [is_nil andb].
    destruct (forallb is_sempty o) eqn:Eo.
    + injection Hrm as <-. rewrite skipn_all. cbn [ws_prefix_len skipn]. rewrite app_nil_r. exact Hpre.
    + injection Hrm as <-. rewrite skipn_all, app_nil_r, Hprev. cbn [negb andb].
      destruct (rev p1) as [|c rr] eqn:Er.
      * exfalso. assert (Hp1 : p1 = []) by (apply (f_equal (@rev _)) in Er; now rewrite rev_involutive in Er).
        rewrite Hp1 in Ep. unfold o in Eo. rewrite Ep in Eo. discriminate.
      * assert (E1 : p1 = rev rr ++ [c]) by (apply (f_equal (@rev _)) in Er; now rewrite rev_involutive in Er).
        rewrite ck_comma. assert (Hsp1 : sep_from SEmpty p1 = true) by (rewrite E, sep_app in Hspre; now apply andb_prop in Hspre as [? _]).
        rewrite E1, sep_app in Hsp1. apply andb_prop in Hsp1 as [Hq1 Hq2]. cbn [sep_from] in Hq2.
        assert (Esc : scan SEmpty pre = (fst (scan SEmpty (rev rr)) ++ fst (scan (snd (scan SEmpty (rev rr))) [c]), snd (scan (snd (scan SEmpty (rev rr))) [c])))
          by (rewrite Ep, E1; apply scan_app).
        cbn [scan fst snd] in Esc.
        destruct (ck c) as [|k|] eqn:Ec; cbn [fst snd] in Esc.
        -- (* the comma before the entry goes too *)
           replace (length pre - S (length w1)) with (length (rev rr)).
           2:{ rewrite E, E1, !app_length. cbn [length]. lia. }
           rewrite E, E1, <- !app_assoc, firstn_app_len. rewrite slots_scan. unfold o. rewrite Esc. cbn [fst]. now rewrite app_nil_r.
        -- exfalso. rewrite Esc in Es. cbn [snd] in Es. subst k. clear -Ec. destruct c as [kk s|kk cs]; destruct kk; discriminate.
        -- exfalso. apply andb_prop in Hq2 as [Hq2 _]. congruence.
  - (* something follows: it has to be a comma, which goes too *)
    rewrite ck_comma in Hrm. destruct (ck c) as [|k|] eqn:Ec; try discriminate.
    assert (ER : R = slots_from SEmpty r').
    { rewrite (slots_ws w (c :: r') SEntry Hw) in HR. cbn [slots_from] in HR. rewrite Ec in HR. now injection HR as <-. }
    assert (Hnn : is_nil R = false) by (rewrite ER; apply slots_nonnil).
    rewrite Hnn. cbn [andb].
    assert (Hsk' : skipn (S (length w)) (w ++ c :: r') = r') by apply skipn_S_app_len.
    rewrite Hsk' in Hrm.
    destruct (forallb is_sempty o) eqn:Eo.
    + injection Hrm as <-. destruct (ws_split r') as (w2 & r2 & E2 & Hw2 & Hl2 & Hsk2 & _). rewrite Hl2, Hsk2.
      rewrite slots_app. fold o. rewrite Es, ER, E2. now rewrite (slots_ws w2 r2 SEmpty Hw2).
    + injection Hrm as <-. rewrite Hprev. cbn [negb andb].
      replace (match rev p1 with [] => length w1 | _ :: _ => length w1 end) with (length w1) by (now destruct (rev p1)).
      rewrite Hcut. rewrite slots_app. rewrite <- Ep. fold o. now rewrite Es, ER.
Qed.

(* ------------------------------------------------------------------ everything else keeps the slots *)
Lemma slots_same cs : forall cs' cur, map ck cs = map ck cs' -> slots_from cur cs = slots_from cur cs'.
Proof.
  induction cs as [|c r IH]; intros [|c' r'] cur H; try discriminate; [reflexivity|]. cbn [map] in H. injection H as Hc Hr.
  cbn [slots_from]. rewrite <- Hc. destruct (ck c); now rewrite (IH r').
Qed.
Lemma ck_replace_at ci x cs c0 : nth_error cs ci = Some c0 -> ck x = ck c0 -> map ck (replace_at ci x cs) = map ck cs.
Proof.
  revert ci. induction cs as [|c r IH]; intros [|ci] H Hk; cbn [nth_error] in H; try discriminate.
  - injection H as ->. unfold replace_at. cbn. now rewrite Hk.
  - specialize (IH ci H Hk). unfold replace_at in *. change (skipn (S (S ci)) (c :: r)) with (skipn (S ci) r). cbn [firstn app map]. now rewrite IH.
Qed.

(* ------------------------------------------------------------------ the oracle's count never grows *)
Definition is_sfull (x : fslot) : bool := negb (is_sempty x).
Lemma n_empty_eq s : n_empty_slots s = (length s - 1) - (count_if is_sfull s - 1).
Proof. reflexivity. Qed.
Lemma count_le_length {A} (p : A -> bool) l : count_if p l <= length l.
Proof. induction l as [|x r IH]; [cbn; lia|]. rewrite count_cons. cbn [length]. destruct (p x); lia. Qed.
Lemma s_push_never_more s : n_empty_slots (s_push s) <= n_empty_slots s.
Proof.
  unfold s_push. destruct (rev s) as [|e q] eqn:Er.
  - assert (s = []) by (apply (f_equal (@rev _)) in Er; now rewrite rev_involutive in Er). subst s. cbn. lia.
  - assert (Es : s = rev q ++ [e]) by (apply (f_equal (@rev _)) in Er; now rewrite rev_involutive in Er).
    rewrite !n_empty_eq. destruct e; cbn [rev]; rewrite Es, ?count_app, ?app_length, ?count_cons; cbn [length is_sfull is_sempty negb];
      change (count_if is_sfull []) with 0; pose proof (count_le_length is_sfull (rev q)); lia.
Qed.
Lemma s_insert_never_more i s : n_empty_slots (s_insert i s) <= n_empty_slots s.
Proof.
  unfold s_insert. destruct (nth_index is_sentry i s) as [p|] eqn:E; [|apply s_push_never_more].
  destruct (nthi_split _ _ _ _ E) as (pre & x & post & -> & <- & Hx & _). destruct x; try discriminate.
  rewrite firstn_app_len, skipn_app_len, !n_empty_eq, !count_app, !app_length, !count_cons. cbn [length is_sfull is_sempty negb]. rewrite ?count_cons, ?app_length.
  cbn [length is_sfull is_sempty negb]. lia.
Qed.
Lemma forallb_empty_count s : forallb is_sempty s = true -> count_if is_sfull s = 0.
Proof. induction s as [|x r IH]; [reflexivity|]. cbn [forallb]. intros H. apply andb_prop in H as [Hx H]. rewrite count_cons. unfold is_sfull at 1. rewrite Hx. cbn. now apply IH. Qed.
Lemma s_remove_never_more i s : n_empty_slots (s_remove i s) <= n_empty_slots s.
Proof.
  unfold s_remove. destruct (nth_index is_sentry i s) as [p|] eqn:E; [|lia].
  destruct (nthi_split _ _ _ _ E) as (pre & x & post & -> & <- & Hx & _). destruct x; try discriminate.
  rewrite firstn_app_len, skipn_S_app_len.
  destruct ((S (length pre) =? length (pre ++ SEntry :: post)) && forallb is_sempty pre) eqn:Ec.
  - apply andb_prop in Ec as [E1 E2]. apply Nat.eqb_eq in E1. rewrite app_length in E1. cbn [length] in E1.
    assert (post = []) by (destruct post; [reflexivity|cbn in E1; lia]). subst post.
    rewrite !n_empty_eq, !count_app, !app_length, !count_cons. cbn [length is_sfull is_sempty negb]. rewrite (forallb_empty_count pre E2).
    change (count_if is_sfull []) with 0. lia.
  - rewrite !n_empty_eq, !count_app, !app_length, !count_cons. cbn [length is_sfull is_sempty negb].
    pose proof (count_le_length is_sfull pre). pose proof (count_le_length is_sfull post). lia.
Qed.
Theorem sstep_never_more {A} (f : list (list A)) s o : n_empty_slots (sstep f s o) <= n_empty_slots s.
Proof.
  destruct o; cbn [sstep]; try lia; try apply s_push_never_more; try apply s_insert_never_more; try apply s_remove_never_more.
  destruct (nth_error f i) as [[|x [|y e]]|]; try lia. apply s_remove_never_more.
Qed.
Theorem slots_after_never_more ops : forall f s, n_empty_slots (slots_after ops f s) <= n_empty_slots s.
Proof.
  unfold slots_after. induction ops as [|o rest IH]; intros f s; cbn [fold_left]; [cbn [snd]; lia|].
  unfold fs_step at 2. cbn [fst snd]. specialize (IH (astep f o) (sstep f s o)). pose proof (sstep_never_more f s o). lia.
Qed.
