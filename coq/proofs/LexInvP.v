(* What token sequences the deb822 lexer can produce: an abstract automaton over token kinds that
   every lexer output satisfies.  Used by the agreement theorem of C06 (proofs/AgreeP.v). *)
From V.model Require Import Base Deb822Lex Deb822Parse Grammar.
From V.model Require Import Lossy.
From V.proofs Require Import BaseP Deb822LexP GrammarLexP LossyP.

Inductive lstate := LS | AK | AKW | AC | ACW | EOLN | AI | JUNK.

(* next abstract state; None = this kind cannot come next *)
Definition lnext (q : lstate) (k : kind) : option lstate :=
  match q, k with
  | LS, NEWLINE => Some LS | LS, INDENT => Some AI | LS, COMMENT => Some EOLN | LS, KEY => Some AK
  | LS, COLON => Some JUNK | LS, ERROR => Some JUNK
  | AK, COLON => Some AC | AK, WHITESPACE => Some AKW | AK, VALUE => Some EOLN | AK, NEWLINE => Some LS
  | AKW, COLON => Some AC | AKW, VALUE => Some EOLN | AKW, NEWLINE => Some LS
  | AC, WHITESPACE => Some ACW | AC, VALUE => Some EOLN | AC, NEWLINE => Some LS
  | ACW, VALUE => Some EOLN | ACW, NEWLINE => Some LS
  | EOLN, NEWLINE => Some LS
  | AI, VALUE => Some EOLN | AI, COMMENT => Some EOLN | AI, NEWLINE => Some LS
  | JUNK, NEWLINE => Some LS
  | JUNK, (EMPTY_LINE | PARAGRAPH | ROOT | ENTRY) => None
  | JUNK, _ => Some JUNK
  | _, _ => None
  end.

(* token texts: a VALUE is a non-empty, newline-free piece that does not start with space/tab *)
Definition tok_text_ok (k : kind) (s : str) : bool :=
  match k with
  | VALUE => no_eol s && match s with c :: _ => negb (is_indent c) | [] => false end
  | _ => match s with [] => false | _ => true end
  end.

Fixpoint lexinv (q : lstate) (ts : list token) : Prop :=
  match ts with
  | [] => True
  | (k, s) :: r => match lnext q k with
                   | Some q' => (q = JUNK \/ tok_text_ok k s = true) /\ lexinv q' r
                   | None => False
                   end
  end.

(* the concrete lexer situation each abstract state stands for *)
Definition head_not (p : N -> bool) (s : str) : Prop := match s with [] => True | c :: _ => p c = false end.
Definition conc (q : lstate) (st : lst) (s : str) : Prop :=
  match q with
  | LS => st = st_init
  | AK => st = st_key /\ head_not is_valid_key_char s
  | AKW => st = st_key /\ head_not is_indent s
  | AC => st = st_val
  | ACW => st = st_val /\ head_not is_indent s
  | EOLN => head_not (fun c => negb (is_newline c)) s
  | AI => st = st_ind /\ head_not is_indent s
  | JUNK => True
  end.

Lemma span_head_not {A} (p : A -> bool) s a b : span p s = (a, b) -> match b with [] => True | c :: _ => p c = false end.
Proof. apply span_stop. Qed.

Lemma lex_step_conc q st c r k t st' r' :
  conc q st (c :: r) -> lex_step st c r = Ok ((k, t), st', r') ->
  exists q', lnext q k = Some q' /\ (q = JUNK \/ tok_text_ok k t = true) /\ conc q' st' r'.
Proof.
  intros Hc H. unfold lex_step in H.
  destruct q; cbn [conc] in Hc.
  - (* LS *) subst st. cbn [sol colon ind st_init negb andb orb] in H.
    destruct (c =? 58)%N eqn:E58; [inversion H; subst; exists JUNK; repeat split; right; reflexivity|]. cbn [andb] in H.
    destruct (is_newline c) eqn:Enl; [inversion H; subst; exists LS; repeat split; right; reflexivity|].
    destruct (is_indent c) eqn:Ein.
    { destruct (span is_indent r) as [w rr] eqn:Es. inversion H; subst. exists AI. repeat split; [right; reflexivity|].
      cbn. apply (span_stop _ _ _ _ Es). }
    destruct (c =? 35)%N eqn:E35; cbn [andb] in H.
    { destruct (span (fun x => negb (is_newline x)) r) as [w rr] eqn:Es. inversion H; subst. exists EOLN. repeat split; [right; reflexivity|].
      cbn. apply (span_stop _ _ _ _ Es). }
    destruct (is_valid_initial_key_char c) eqn:Ek; cbn [andb] in H.
    { destruct (span is_valid_key_char r) as [w rr] eqn:Es. inversion H; subst. exists AK. repeat split; [right; reflexivity|].
      cbn. apply (span_stop _ _ _ _ Es). }
    cbn [orb] in H. inversion H; subst. exists JUNK. repeat split. right; reflexivity.
  - (* AK *) destruct Hc as [-> Hh]. cbn [sol colon ind st_key negb andb orb] in H. cbn [head_not] in Hh.
    destruct (c =? 58)%N eqn:E58; [inversion H; subst; exists AC; repeat split; right; reflexivity|]. cbn [andb] in H.
    destruct (is_newline c) eqn:Enl; [inversion H; subst; exists LS; repeat split; right; reflexivity|].
    destruct (is_indent c) eqn:Ein.
    { destruct (span is_indent r) as [w rr] eqn:Es. inversion H; subst. exists AKW. repeat split; [right; reflexivity|].
      apply (span_stop _ _ _ _ Es). }
    rewrite !andb_false_r in H. cbn [orb] in H.
    destruct (span (fun x => negb (is_newline x)) r) as [w rr] eqn:Es. inversion H; subst. exists EOLN. repeat split.
    + right. cbn [tok_text_ok]. unfold no_eol. cbn [forallb]. rewrite Enl. cbn [negb andb]. rewrite (span_all _ _ _ _ Es), Ein. reflexivity.
    + cbn. apply (span_stop _ _ _ _ Es).
  - (* AKW *) destruct Hc as [-> Hh]. cbn [sol colon ind st_key negb andb orb] in H. cbn [head_not] in Hh.
    destruct (c =? 58)%N eqn:E58; [inversion H; subst; exists AC; repeat split; right; reflexivity|]. cbn [andb] in H.
    destruct (is_newline c) eqn:Enl; [inversion H; subst; exists LS; repeat split; right; reflexivity|].
    rewrite Hh in H. rewrite !andb_false_r in H. cbn [orb] in H.
    destruct (span (fun x => negb (is_newline x)) r) as [w rr] eqn:Es. inversion H; subst. exists EOLN. repeat split.
    + right. cbn [tok_text_ok]. unfold no_eol. cbn [forallb]. rewrite Enl. cbn [negb andb]. rewrite (span_all _ _ _ _ Es), Hh. reflexivity.
    + cbn. apply (span_stop _ _ _ _ Es).
  - (* AC *) subst st. cbn [sol colon ind st_val negb andb orb] in H. rewrite andb_false_r in H.
    destruct (is_newline c) eqn:Enl; [inversion H; subst; exists LS; repeat split; right; reflexivity|].
    destruct (is_indent c) eqn:Ein.
    { destruct (span is_indent r) as [w rr] eqn:Es. inversion H; subst. exists ACW. repeat split; [right; reflexivity|].
      apply (span_stop _ _ _ _ Es). }
    rewrite !andb_false_r in H. cbn [orb] in H.
    destruct (span (fun x => negb (is_newline x)) r) as [w rr] eqn:Es. inversion H; subst. exists EOLN. repeat split.
    + right. cbn [tok_text_ok]. unfold no_eol. cbn [forallb]. rewrite Enl. cbn [negb andb]. rewrite (span_all _ _ _ _ Es), Ein. reflexivity.
    + cbn. apply (span_stop _ _ _ _ Es).
  - (* ACW *) destruct Hc as [-> Hh]. cbn [sol colon ind st_val negb andb orb] in H. rewrite andb_false_r in H. cbn [head_not] in Hh.
    destruct (is_newline c) eqn:Enl; [inversion H; subst; exists LS; repeat split; right; reflexivity|].
    rewrite Hh in H. rewrite !andb_false_r in H. cbn [orb] in H.
    destruct (span (fun x => negb (is_newline x)) r) as [w rr] eqn:Es. inversion H; subst. exists EOLN. repeat split.
    + right. cbn [tok_text_ok]. unfold no_eol. cbn [forallb]. rewrite Enl. cbn [negb andb]. rewrite (span_all _ _ _ _ Es), Hh. reflexivity.
    + cbn. apply (span_stop _ _ _ _ Es).
  - (* EOLN *) cbn [head_not] in Hc. apply negb_false_iff in Hc.
    destruct ((c =? 58)%N && negb (colon st) && negb (ind st)) eqn:E1.
    { exfalso. apply andb_true_iff in E1. destruct E1 as [E1 _]. apply andb_true_iff in E1. destruct E1 as [E1 _].
      apply N.eqb_eq in E1. subst c. discriminate. }
    rewrite Hc in H. inversion H; subst. exists LS. repeat split. right; reflexivity.
  - (* AI *) destruct Hc as [-> Hh]. cbn [sol colon ind st_ind negb andb orb] in H. rewrite andb_false_r in H. cbn [head_not] in Hh.
    destruct (is_newline c) eqn:Enl; [inversion H; subst; exists LS; repeat split; right; reflexivity|].
    rewrite Hh in H.
    destruct (c =? 35)%N eqn:E35; cbn [andb] in H.
    { destruct (span (fun x => negb (is_newline x)) r) as [w rr] eqn:Es. inversion H; subst. exists EOLN. repeat split; [right; reflexivity|].
      cbn. apply (span_stop _ _ _ _ Es). }
    rewrite !andb_false_r in H. cbn [orb] in H.
    destruct (span (fun x => negb (is_newline x)) r) as [w rr] eqn:Es. inversion H; subst. exists EOLN. repeat split.
    + right. cbn [tok_text_ok]. unfold no_eol. cbn [forallb]. rewrite Enl. cbn [negb andb]. rewrite (span_all _ _ _ _ Es), Hh. reflexivity.
    + cbn. apply (span_stop _ _ _ _ Es).
  - (* JUNK *)
    assert (Hk : LossyP.token_kind k = true).
    { revert H. repeat match goal with
      | |- (if ?b then _ else _) = _ -> _ => destruct b
      | |- (let '(_, _) := span ?p ?s in _) = _ -> _ => destruct (span p s)
      end; intros H; inversion H; reflexivity. }
    destruct (is_newline c) eqn:Enl.
    + (* a newline character always gives a NEWLINE token (':' is no newline character) *)
      destruct ((c =? 58)%N && negb (colon st) && negb (ind st)) eqn:E1.
      { exfalso. apply andb_true_iff in E1. destruct E1 as [E1 _]. apply andb_true_iff in E1. destruct E1 as [E1 _].
        apply N.eqb_eq in E1. subst c. discriminate. }
      inversion H; subst. exists LS. repeat split. left; reflexivity.
    + assert (k <> NEWLINE).
      { destruct ((c =? 58)%N && negb (colon st) && negb (ind st)) eqn:E1; [inversion H; discriminate|].
        revert H. repeat match goal with
        | |- (if ?b then _ else _) = _ -> _ => destruct b
        | |- (let '(_, _) := span ?p ?s in _) = _ -> _ => destruct (span p s)
        end; intros H; inversion H; discriminate. }
      exists JUNK. destruct k; try congruence; try discriminate; repeat split; left; reflexivity.
Qed.

Lemma lex_go_inv fuel : forall q st s ts, conc q st s -> lex_go fuel st s = Ok ts -> lexinv q ts.
Proof.
  induction fuel as [|f IH]; intros q st s ts Hc H; destruct s as [|c r]; cbn [lex_go] in H; try discriminate.
  - injection H as <-. exact I.
  - injection H as <-. exact I.
  - destruct (lex_step st c r) as [[[[k t] st'] r']| | |] eqn:E; try discriminate.
    destruct (lex_go f st' r') as [ts'| | |] eqn:E2; try discriminate. injection H as <-.
    destruct (lex_step_conc _ _ _ _ _ _ _ _ Hc E) as (q' & Hq & Hok & Hc').
    cbn [lexinv]. rewrite Hq. split; [exact Hok|]. exact (IH _ _ _ _ Hc' E2).
Qed.

Theorem lex_inv s ts : lex s = Ok ts -> lexinv LS ts.
Proof. unfold lex, lex_. apply lex_go_inv. reflexivity. Qed.
