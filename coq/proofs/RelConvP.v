(* Lemmas about RelConv.v: the conversion clauses of C14.
   B. RelationBuilder::build (cone C11's store model) leaves the canonical tree [conv_tree]
   C. its text is the lossy text          D. the accessors on it return the lossy value
   E. the printed lossy field is the rendering of a well-formed abstract field of cone C10,
      hence the lossless reader reads it as the same structure
   F. entries and fields *)
From V.model Require Import Base RelLex RelParse.
From V.model Require RelAcc RelGrammar.
From V.model Require Import RelEdit.
From V.proofs Require Import BaseP RelEditP RelEditStP.
From V.model Require Import RelLossy RelConv.
From V.proofs Require Import RelLossyP.
From V.proofs Require RelGrammarAccP.
From Coq Require Import ZifyBool.

(* ================================================================== B. the builder (in-place splices, /repo 5517d72) *)
(* what Relation::new + set_archqual + set_architectures + add_profile* leave behind *)
Definition prof_elems (gs : list (list profile)) : list rtree := flat_map (fun g => [t_space; profiles_node g]) gs.
Definition conv_children (name : str) (ver : option (vcn * str)) (q : option str) (archs : option (list str))
           (gs : list (list profile)) : list rtree :=
  Tok IDENT name ::
  (match q with Some q => [archqual_node q] | None => [] end) ++
  (match ver with Some (vc, s) => [t_space; version_node vc s] | None => [] end) ++
  (match archs with Some a => [t_space; architectures_node a] | None => [] end) ++
  prof_elems gs.
Definition conv_node name ver q archs gs : rtree := Node RELATION (conv_children name ver q archs gs).

(* register [r] holds the root of a mutable tree T *)
Definition rootreg (st : state) (r : nat) (T : rtree) : Prop :=
  exists tid ri, nth_error (regs st) r = Some (Some (mk_hnd tid [])) /\
                 nth_error (trees st) tid = Some (mk_slot true ri T).

Lemma find_index_none {A} (p : A -> bool) l : forallb (fun x => negb (p x)) l = true -> find_index p l = None.
Proof.
  induction l as [|x r IH]; [reflexivity|]. cbn [forallb find_index]. intros H.
  apply andb_true_iff in H. destruct H as [Hx Hr]. apply negb_true_iff in Hx. rewrite Hx, (IH Hr). reflexivity.
Qed.
Lemma last_index_none {A} (p : A -> bool) l : forallb (fun x => negb (p x)) l = true -> last_index p l = None.
Proof.
  induction l as [|x r IH]; [reflexivity|]. cbn [forallb last_index]. intros H.
  apply andb_true_iff in H. destruct H as [Hx Hr]. apply negb_true_iff in Hx. rewrite Hx, (IH Hr). reflexivity.
Qed.
Lemma last_index_snoc {A} (p : A -> bool) l x : p x = true -> last_index p (l ++ [x]) = Some (length l).
Proof.
  intros Hx. induction l as [|y r IH]; [cbn; rewrite Hx; reflexivity|].
  cbn [app last_index length]. rewrite IH. reflexivity.
Qed.
Lemma insert_at_end {A} (new l : list A) : insert_at (length l) new l = l ++ new.
Proof. unfold insert_at. rewrite firstn_all, skipn_all, app_nil_r. reflexivity. Qed.

Lemma set_archqual_root st r n rest q : rootreg st r (Node RELATION (Tok IDENT n :: rest)) ->
  forallb (fun x => negb (node_is ARCHQUAL x)) rest = true ->
  exists st', runs (relation_set_archqual r q) st tt st' /\
              rootreg st' r (Node RELATION (Tok IDENT n :: archqual_node q :: rest)) /\
              length (regs st') = length (regs st).
Proof.
  destruct st as [ts rs]. intros (tid & ri & Hr & Ht) Hno. cbn [regs trees] in *.
  destruct (splice_new_insert_spec_o ts rs r tid ri (Node RELATION (Tok IDENT n :: rest)) [] RELATION
              (Tok IDENT n :: rest) 1 (archqual_node q) Hr Ht eq_refl ltac:(cbn; lia))
    as (ts' & F & R & T' & HF & _).
  exists (mk_state ts' (map (option_map F) rs)). split; [|split].
  - unfold relation_set_archqual. rbind; [apply runs_get_reg; exact Hr|].
    rbind; [eapply runs_children_of; [exact Ht|reflexivity]|]. cbn [children s_tree].
    assert (E : find_index (node_is ARCHQUAL) (Tok IDENT n :: rest) = None).
    { cbn [find_index]. change (node_is ARCHQUAL (Tok IDENT n)) with false. cbv iota.
      rewrite (find_index_none _ _ Hno). reflexivity. }
    rewrite E. change (after_name (Tok IDENT n :: rest)) with 1. exact R.
  - exists tid, ri. cbn [regs trees]. split; [|exact T'].
    rewrite nth_error_map, Hr. cbn [option_map]. rewrite HF; [reflexivity| |apply above_root].
    cbn [h_tid]. eapply nth_error_Some_lt; exact Ht.
  - cbn [regs]. apply map_length.
Qed.

(* splice_children(idx..idx, fresh tokens/nodes) at the end of the children of a root (in place, /repo 5517d72) *)
Lemma insert_fresh_root st r cs new : rootreg st r (Node RELATION cs) ->
  exists st', runs (m_insert_fresh r (length cs) new) st tt st' /\
              rootreg st' r (Node RELATION (cs ++ new)) /\ length (regs st') = length (regs st).
Proof.
  destruct st as [ts rs]. intros (tid & ri & Hr & Ht). cbn [regs trees] in *.
  destruct (m_insert_fresh_spec new ts rs r tid ri (Node RELATION cs) [] RELATION cs (length cs) Hr Ht eq_refl (le_n _))
    as (ts' & F & R & _ & T' & _ & HF & _).
  exists (mk_state ts' (map (option_map F) rs)). split; [exact R|]. split; [|cbn [regs]; apply map_length].
  exists tid, ri. cbn [regs trees]. split.
  - rewrite nth_error_map, Hr. cbn [option_map]. rewrite HF; [reflexivity| |apply above_root].
    cbn [h_tid]. eapply nth_error_Some_lt; exact Ht.
  - cbn [upd_path] in T'. rewrite insert_at_end in T'. exact T'.
Qed.

Lemma set_architectures_root st r cs a : rootreg st r (Node RELATION cs) ->
  forallb (fun x => negb (node_is ARCHITECTURES x)) cs = true ->
  forallb (fun x => negb (node_is PROFILES x)) cs = true ->
  exists st', runs (relation_set_architectures_v fixed r a) st tt st' /\
              rootreg st' r (Node RELATION (cs ++ [t_space; architectures_node a])).
Proof.
  intros Hroot Hna Hnp.
  destruct (insert_fresh_root st r cs [t_space; architectures_node a] Hroot) as (st' & R & Hr' & _).
  exists st'. split; [|exact Hr'].
  destruct st as [ts rs]. destruct Hroot as (tid & ri & Hr & Ht). cbn [regs trees] in *.
  unfold relation_set_architectures_v. rbind; [apply runs_get_reg; exact Hr|].
  rbind; [eapply runs_node_of; [exact Ht|reflexivity]|]. cbn [children s_tree].
  rewrite (find_index_none _ _ Hna). unfold architectures_pos. rewrite (find_index_none _ _ Hnp).
  change (fx_in_place fixed) with true. cbv iota. exact R.
Qed.

Lemma add_profile_root st r cs g : rootreg st r (Node RELATION cs) ->
  (match last_index (node_is PROFILES) cs with Some i => S i | None => length cs end) = length cs ->
  exists st', runs (relation_add_profile_v fixed r g) st tt st' /\
              rootreg st' r (Node RELATION (cs ++ [t_space; profiles_node g])).
Proof.
  intros Hroot Hidx.
  destruct (insert_fresh_root st r cs [t_space; profiles_node g] Hroot) as (st' & R & Hr' & _).
  exists st'. split; [|exact Hr'].
  destruct st as [ts rs]. destruct Hroot as (tid & ri & Hr & Ht). cbn [regs trees] in *.
  unfold relation_add_profile_v. rbind; [apply runs_get_reg; exact Hr|].
  rbind; [eapply runs_node_of; [exact Ht|reflexivity]|]. cbn [children s_tree].
  rewrite Hidx. change (fx_in_place fixed) with true. cbv iota. exact R.
Qed.

(* the position add_profile chooses is always the end: the groups added so far are the last children *)
Lemma profile_pos_end base gs : forallb (fun x => negb (node_is PROFILES x)) base = true ->
  (match last_index (node_is PROFILES) (base ++ prof_elems gs) with Some i => S i | None => length (base ++ prof_elems gs) end)
  = length (base ++ prof_elems gs).
Proof.
  intros Hb. destruct (exists_last_or_nil gs) as [->|(gs' & g & ->)].
  - cbn [prof_elems flat_map]. rewrite app_nil_r, (last_index_none _ _ Hb). reflexivity.
  - unfold prof_elems. rewrite flat_map_app. cbn [flat_map]. rewrite app_nil_r.
    change [t_space; profiles_node g] with ([t_space] ++ [profiles_node g]). rewrite !app_assoc.
    rewrite last_index_snoc by reflexivity. rewrite !app_length. cbn [length]. lia.
Qed.

Lemma prof_elems_snoc gs g : prof_elems (gs ++ [g]) = prof_elems gs ++ [t_space; profiles_node g].
Proof. unfold prof_elems. rewrite flat_map_app. cbn [flat_map]. rewrite app_nil_r. reflexivity. Qed.

Lemma add_profiles_root gs : forall st r base done, rootreg st r (Node RELATION (base ++ prof_elems done)) ->
  forallb (fun x => negb (node_is PROFILES x)) base = true ->
  exists st', runs (add_profiles_v fixed r gs) st tt st' /\ rootreg st' r (Node RELATION (base ++ prof_elems (done ++ gs))).
Proof.
  induction gs as [|g gs IH]; intros st r base done Hroot Hb.
  - exists st. rewrite app_nil_r. split; [apply runs_ret|exact Hroot].
  - destruct (add_profile_root st r _ g Hroot (profile_pos_end base done Hb)) as (st1 & R1 & H1).
    rewrite <- app_assoc, <- prof_elems_snoc in H1.
    destruct (IH st1 r base (done ++ [g]) H1 Hb) as (st2 & R2 & H2).
    exists st2. split; [|rewrite <- app_assoc in H2; exact H2].
    cbn [add_profiles_v]. rbind; [exact R1|exact R2].
Qed.

Lemma no_kind_base k name ver q : k = ARCHITECTURES \/ k = PROFILES ->
  forallb (fun x => negb (node_is k x))
          (Tok IDENT name :: (match q with Some q => [archqual_node q] | None => [] end) ++
           (match ver with Some (vc, s) => [t_space; version_node vc s] | None => [] end)) = true.
Proof. intros [-> | ->]; destruct q; destruct ver as [[vc s]|]; reflexivity. Qed.

Theorem builder_build_root ts rs dst name ver q archs gs :
  exists st', runs (builder_build_v fixed dst name ver q archs gs) (mk_state ts rs) tt st' /\
              rootreg st' dst (conv_node name ver q archs gs).
Proof.
  unfold builder_build_v.
  set (st0 := mk_state (ts ++ [mk_slot true 0 (relation_new name ver)]) (set_reg_l dst (Some (mk_hnd (length ts) [])) rs)).
  assert (H0 : rootreg st0 dst (relation_new name ver)).
  { exists (length ts), 0. cbn [st0 regs trees]. split; [apply nth_error_set_reg_l_eq|apply nth_error_app_at]. }
  (* archqual *)
  assert (H1 : exists st1, runs (match q with Some q0 => relation_set_archqual dst q0 | None => ret tt end) st0 tt st1 /\
               rootreg st1 dst (Node RELATION (Tok IDENT name :: (match q with Some q => [archqual_node q] | None => [] end) ++
                                               (match ver with Some (vc, s) => [t_space; version_node vc s] | None => [] end)))).
  { destruct q as [q0|].
    - destruct (set_archqual_root st0 dst name (match ver with Some (vc, s) => [t_space; version_node vc s] | None => [] end) q0)
        as (st1 & R & Hr & _); [exact H0|destruct ver as [[vc s]|]; reflexivity|].
      exists st1. split; [exact R|exact Hr].
    - exists st0. split; [apply runs_ret|exact H0]. }
  destruct H1 as (st1 & R1 & H1).
  set (base := Tok IDENT name :: (match q with Some q => [archqual_node q] | None => [] end) ++
               (match ver with Some (vc, s) => [t_space; version_node vc s] | None => [] end)) in *.
  (* architectures *)
  assert (H2 : exists st2, runs (match archs with Some a => relation_set_architectures_v fixed dst a | None => ret tt end) st1 tt st2 /\
               rootreg st2 dst (Node RELATION (base ++ (match archs with Some a => [t_space; architectures_node a] | None => [] end)))).
  { destruct archs as [a|].
    - destruct (set_architectures_root st1 dst base a H1) as (st2 & R & Hr);
        [apply no_kind_base; left; reflexivity|apply no_kind_base; right; reflexivity|].
      exists st2. split; [exact R|exact Hr].
    - exists st1. rewrite app_nil_r. split; [apply runs_ret|exact H1]. }
  destruct H2 as (st2 & R2 & H2).
  (* profiles *)
  destruct (add_profiles_root gs st2 dst (base ++ (match archs with Some a => [t_space; architectures_node a] | None => [] end)) [])
    as (st3 & R3 & H3).
  { cbn [prof_elems flat_map]. rewrite app_nil_r. exact H2. }
  { rewrite forallb_app. unfold base. rewrite (no_kind_base PROFILES name ver q (or_intror eq_refl)).
    destruct archs; reflexivity. }
  exists st3. split.
  - rbind; [apply runs_alloc|]. rbind; [apply runs_set_reg|]. fold st0.
    rbind; [exact R1|]. rbind; [exact R2|]. exact R3.
  - unfold conv_node, conv_children. unfold base in H3.
    repeat first [rewrite <- app_assoc in H3 | progress cbn [app] in H3]. exact H3.
Qed.

(* the tree a lossy relation converts to *)
Definition conv_tree (r : relation dversion) : rtree :=
  conv_node (r_name r) (verspec_of (r_version r)) (r_archqual r) (r_archs r) (map (map eprofile_of) (r_profiles r)).

Theorem to_lossless_tree r : to_lossless r = Ok (conv_tree r).
Proof.
  unfold to_lossless, to_lossless_m.
  destruct (builder_build_root [] [None; None; None; None; None] 0 (r_name r) (verspec_of (r_version r))
              (r_archqual r) (r_archs r) (map (map eprofile_of) (r_profiles r))) as (st' & R & (tid & ri & Hr & Ht)).
  unfold runs in R. unfold empty_state. rewrite R.
  unfold root_tree, node_of_reg. destruct st' as [ts' rs']. cbn [regs trees] in *.
  assert (N : runs (h <- get_reg 0 ;; node_of h) (mk_state ts' rs') (conv_tree r) (mk_state ts' rs')).
  { rbind; [apply runs_get_reg; exact Hr|]. eapply runs_node_of; [exact Ht|reflexivity]. }
  unfold runs in N. rewrite N. reflexivity.
Qed.

(* ================================================================== C. its text *)
Lemma join_flat sep x l : join sep (x :: l) = x ++ flat_map (fun y => sep ++ y) l.
Proof.
  revert x; induction l as [|y r IH]; intros x; [cbn; rewrite app_nil_r; reflexivity|].
  rewrite join_cons2 by discriminate. rewrite IH. cbn [flat_map]. rewrite <- app_assoc. reflexivity.
Qed.

Lemma texts_arch_toks_S l : forall i, texts (arch_toks (S i) l) = flat_map (fun a => [32%N] ++ a) l.
Proof.
  induction l as [|a r IH]; intros i; [reflexivity|]. cbn [arch_toks app flat_map].
  rewrite !texts_cons, IH. reflexivity.
Qed.
Lemma texts_arch_toks l : texts (arch_toks 0 l) = join [32%N] l.
Proof.
  destruct l as [|a r]; [reflexivity|]. cbn [arch_toks app]. rewrite texts_cons, texts_arch_toks_S, join_flat. reflexivity.
Qed.

Lemma flat_map_map {A B C} (f : B -> list C) (g : A -> B) l : flat_map f (map g l) = flat_map (fun x => f (g x)) l.
Proof. induction l as [|x r IH]; [reflexivity|]. cbn. rewrite IH. reflexivity. Qed.

Definition eprofile_text (p : profile) : str := match p with PEnabled n => n | PDisabled n => 33%N :: n end.
Lemma texts_profile_toks_S l : forall i, texts (profile_toks (S i) l) = flat_map (fun p => [32%N] ++ eprofile_text p) l.
Proof.
  induction l as [|p r IH]; intros i; [reflexivity|]. cbn [profile_toks flat_map].
  rewrite !texts_app, IH. destruct p; cbn [texts flat_map text app eprofile_text t_space]; rewrite ?app_nil_r; reflexivity.
Qed.
Lemma texts_profile_toks l : texts (profile_toks 0 l) = join [32%N] (map eprofile_text l).
Proof.
  destruct l as [|p r]; [reflexivity|]. cbn [profile_toks map app]. rewrite texts_app, texts_profile_toks_S, join_flat.
  rewrite flat_map_map. destruct p; cbn [texts flat_map text app eprofile_text]; rewrite ?app_nil_r; reflexivity.
Qed.
Lemma eprofile_text_of p : eprofile_text (eprofile_of p) = profile_print p.
Proof. destruct p; reflexivity. Qed.

Lemma text_version_node vc s : text (version_node vc s) = [40%N] ++ texts (vc_toks vc) ++ [32%N] ++ s ++ [41%N].
Proof.
  unfold version_node, t_space. rewrite text_node. unfold texts at 1. cbn [flat_map]. rewrite text_node.
  cbn [text app]. rewrite ?app_nil_r. reflexivity.
Qed.
Lemma texts_vc_toks c : texts (vc_toks (vcn_of c)) = vc_print c.
Proof. destruct c; reflexivity. Qed.

Lemma texts_prof_elems gs :
  texts (prof_elems (map (map eprofile_of) gs))
  = flat_map (fun g => [32; 60]%N ++ join [32%N] (map profile_print g) ++ [62%N]) gs.
Proof.
  induction gs as [|g r IH]; [reflexivity|]. cbn [map prof_elems flat_map]. fold (prof_elems (map (map eprofile_of) r)).
  rewrite texts_app, IH. f_equal. cbn [texts flat_map text app]. unfold profiles_node. rewrite text_node, app_nil_r.
  rewrite texts_cons, texts_app, texts_profile_toks. cbn [text texts flat_map app].
  rewrite map_map. rewrite (map_ext _ _ eprofile_text_of). reflexivity.
Qed.

Lemma texts_archqual q : texts [archqual_node q] = 58%N :: q.
Proof. unfold texts, archqual_node. cbn [flat_map]. rewrite text_node. cbn [texts flat_map text app]. rewrite !app_nil_r. reflexivity. Qed.

(* clause 1 at the level of one relation: the lossless value prints exactly the lossy text *)
Theorem conv_tree_text r : text (conv_tree r) = print_relation dv_print r.
Proof.
  destruct r as [n q a v ps]. unfold conv_tree, conv_node, conv_children, print_relation.
  cbn [r_name r_archqual r_archs r_version r_profiles]. rewrite text_node, texts_cons, !texts_app, texts_prof_elems.
  cbn [text]. f_equal. f_equal; [destruct q; [apply texts_archqual|reflexivity]|]. f_equal; [|f_equal].
  - destruct v as [[c x]|]; [|reflexivity]. cbn [verspec_of texts flat_map app]. rewrite text_version_node, texts_vc_toks, app_nil_r.
    reflexivity.
  - destruct a as [l|]; [|reflexivity]. cbn [texts flat_map app text]. unfold architectures_node.
    rewrite text_node, app_nil_r, texts_cons, texts_app, texts_arch_toks. reflexivity.
Qed.

(* ================================================================== D. the accessors on it *)
Lemma fn_prof_elems k gs : k <> PROFILES -> RelAcc.first_node_of_kind k (prof_elems gs) = None.
Proof.
  intros Hk. induction gs as [|g r IH]; [reflexivity|]. cbn [prof_elems flat_map app RelAcc.first_node_of_kind profiles_node].
  fold (prof_elems r). rewrite IH. destruct k; try reflexivity. congruence.
Qed.

Lemma conv_name n ver q a gs : RelAcc.relation_name (conv_node n ver q a gs) = Ok n.
Proof. reflexivity. Qed.

Lemma conv_qual n ver q a gs : RelAcc.relation_archqual (conv_node n ver q a gs) = q.
Proof.
  unfold RelAcc.relation_archqual, conv_node, conv_children. cbn [children RelAcc.first_node_of_kind].
  destruct q as [q|]; [reflexivity|]. cbn [app].
  rewrite !RelGrammarAccP.first_node_app, fn_prof_elems by discriminate.
  destruct ver as [[vc s]|]; destruct a; reflexivity.
Qed.

Lemma arch_fold_toks l : forall i X, RelAcc.arch_fold (arch_toks i l ++ X) false = l ++ RelAcc.arch_fold X false.
Proof.
  induction l as [|a r IH]; intros i X; [reflexivity|]. cbn [arch_toks].
  destruct i; cbn [app RelAcc.arch_fold rkind_eqb rkind_code N.eqb Pos.eqb t_space]; rewrite IH; reflexivity.
Qed.

Lemma conv_archs n ver q a gs : RelAcc.relation_architectures (conv_node n ver q a gs) = a.
Proof.
  unfold RelAcc.relation_architectures, conv_node, conv_children. cbn [children RelAcc.first_node_of_kind].
  rewrite !RelGrammarAccP.first_node_app, fn_prof_elems by discriminate.
  assert (Eq : RelAcc.first_node_of_kind ARCHITECTURES (match q with Some q0 => [archqual_node q0] | None => [] end) = None)
    by (destruct q; reflexivity).
  assert (Ev : RelAcc.first_node_of_kind ARCHITECTURES (match ver with Some (vc, s) => [t_space; version_node vc s] | None => [] end) = None)
    by (destruct ver as [[vc s]|]; reflexivity).
  rewrite Eq, Ev. destruct a as [l|]; [|reflexivity].
  unfold t_space, architectures_node.
  cbn [RelAcc.first_node_of_kind rkind_eqb rkind_code N.eqb Pos.eqb children RelAcc.arch_fold].
  rewrite arch_fold_toks. cbn [RelAcc.arch_fold rkind_eqb rkind_code N.eqb Pos.eqb]. rewrite app_nil_r. reflexivity.
Qed.

Lemma dv_canonical_print_nonempty v : dv_canonical v = true -> dv_print v <> [].
Proof.
  destruct v as [ep up rv]. unfold dv_canonical, dv_print. cbn [dv_epoch dv_upstream dv_revision]. intros H.
  apply andb_true_iff in H. destruct H as [H _]. apply andb_true_iff in H. destruct H as [H _].
  apply andb_true_iff in H. destruct H as [_ H]. destruct up as [|c u]; [discriminate|].
  destruct ep as [e|]; [|discriminate]. intros E. apply app_eq_nil in E. destruct E as [E _].
  apply app_eq_nil in E. destruct E as [_ E]. discriminate.
Qed.

Lemma conv_ver n v q a gs : match v with Some (_, x) => dv_canonical x = true | None => True end ->
  conv_version (conv_node n (verspec_of v) q a gs) = Ok v.
Proof.
  intros Hv. unfold conv_version, conv_node, conv_children. cbn [children RelAcc.first_node_of_kind].
  rewrite !RelGrammarAccP.first_node_app.
  assert (Eq : RelAcc.first_node_of_kind VERSION (match q with Some q0 => [archqual_node q0] | None => [] end) = None)
    by (destruct q; reflexivity).
  rewrite Eq. destruct v as [[c x]|]; cbn [verspec_of].
  - unfold version_node, t_space.
    cbn [RelAcc.first_node_of_kind rkind_eqb rkind_code N.eqb Pos.eqb children RelAcc.version_text_of flat_map app orb].
    rewrite app_nil_r. pose proof (dv_canonical_print_nonempty x Hv) as Hne.
    destruct (dv_print x) as [|c0 w] eqn:Ep; [congruence|]. rewrite <- Ep.
    replace (vc_of_str (text (Node CONSTRAINT (vc_toks (vcn_of c))))) with (Some c) by (destruct c; reflexivity).
    destruct (dv_canonical_ok x Hv) as [_ ->]. reflexivity.
  - rewrite fn_prof_elems by discriminate. destruct a; reflexivity.
Qed.

(* profiles *)
Definition pend (p : profile) : list str := match p with PDisabled n => [[33%N]; n] | PEnabled n => [n] end.
Definition term_toks_e (p : profile) : list rtree := match p with PDisabled n => [Tok NOT [33%N]; Tok IDENT n] | PEnabled n => [Tok IDENT n] end.
Definition acc_p (p : profile) : RelAcc.bprofile := RelAcc.bprofile_of_text (concat (pend p)).

Lemma profile_fold_term p X ret : RelAcc.profile_fold (term_toks_e p ++ X) [] ret = RelAcc.profile_fold X (pend p) ret.
Proof. destruct p; reflexivity. Qed.
Lemma profile_fold_space p X ret : RelAcc.profile_fold (t_space :: X) (pend p) ret = RelAcc.profile_fold X [] (ret ++ [acc_p p]).
Proof. destruct p; reflexivity. Qed.
Lemma profile_fold_close p ret : RelAcc.profile_fold [Tok R_ANGLE [62%N]] (pend p) ret = ret ++ [acc_p p].
Proof. destruct p; reflexivity. Qed.

Lemma profile_toks_S_cons i p g : profile_toks (S i) (p :: g) = t_space :: term_toks_e p ++ profile_toks (S (S i)) g.
Proof. destruct p; reflexivity. Qed.

Lemma profile_fold_rest g : forall i p ret,
  RelAcc.profile_fold (profile_toks (S i) g ++ [Tok R_ANGLE [62%N]]) (pend p) ret = ret ++ map acc_p (p :: g).
Proof.
  induction g as [|p' g IH]; intros i p ret.
  - cbn [profile_toks app map]. apply profile_fold_close.
  - rewrite profile_toks_S_cons. cbn [app]. rewrite profile_fold_space, <- app_assoc, profile_fold_term, IH.
    cbn [map]. rewrite <- app_assoc. reflexivity.
Qed.

Lemma profile_fold_node g : RelAcc.profile_fold (children (profiles_node g)) [] [] = map acc_p g.
Proof.
  unfold profiles_node. cbn [children]. change (RelAcc.profile_fold (Tok L_ANGLE [60%N] :: ?X) [] []) with (RelAcc.profile_fold X [] []).
  destruct g as [|p g]; [reflexivity|].
  replace (profile_toks 0 (p :: g)) with (term_toks_e p ++ profile_toks 1 g) by (destruct p; reflexivity).
  rewrite <- app_assoc, profile_fold_term, profile_fold_rest. reflexivity.
Qed.

Lemma acc_p_of p : profile_ok p = true -> lprofile_of (acc_p (eprofile_of p)) = p.
Proof.
  destruct p as [s|s]; cbn [profile_ok eprofile_of]; intros H; unfold acc_p, pend; cbn [concat app]; rewrite app_nil_r.
  - destruct (ident_ok_head s H) as (c & w & -> & Hc). unfold RelAcc.bprofile_of_text.
    destruct (N.eqb_spec c 33) as [->|_]; [discriminate|reflexivity].
  - reflexivity.
Qed.

Lemma nodes_prof_elems gs : RelGrammarAccP.nodes_of PROFILES (prof_elems gs) = map profiles_node gs.
Proof.
  induction gs as [|g r IH]; [reflexivity|]. cbn [map]. rewrite <- IH.
  change (prof_elems (g :: r)) with ([t_space; profiles_node g] ++ prof_elems r).
  rewrite RelGrammarAccP.nodes_of_app. reflexivity.
Qed.

Lemma conv_profs n ver q a ps : forallb (forallb profile_ok) ps = true ->
  map (map lprofile_of) (RelAcc.relation_profiles (conv_node n ver q a (map (map eprofile_of) ps))) = ps.
Proof.
  intros Hp. unfold RelAcc.relation_profiles, rnodes_of_kind.
  fold (RelGrammarAccP.nodes_of PROFILES (children (conv_node n ver q a (map (map eprofile_of) ps)))).
  unfold conv_node, conv_children. cbn [children].
  change (RelGrammarAccP.nodes_of PROFILES (Tok IDENT n :: ?x)) with (RelGrammarAccP.nodes_of PROFILES x).
  rewrite !RelGrammarAccP.nodes_of_app, nodes_prof_elems.
  assert (E1 : RelGrammarAccP.nodes_of PROFILES (match q with Some q0 => [archqual_node q0] | None => [] end) = []) by (destruct q; reflexivity).
  assert (E2 : RelGrammarAccP.nodes_of PROFILES (match ver with Some (vc, s) => [t_space; version_node vc s] | None => [] end) = [])
    by (destruct ver as [[vc s]|]; reflexivity).
  assert (E3 : RelGrammarAccP.nodes_of PROFILES (match a with Some l => [t_space; architectures_node l] | None => [] end) = [])
    by (destruct a; reflexivity).
  rewrite E1, E2, E3. cbn [app]. rewrite !map_map.
  induction ps as [|g r IH]; [reflexivity|]. cbn [forallb] in Hp. apply andb_true_iff in Hp. destruct Hp as [Hg Hr].
  cbn [map]. rewrite (IH Hr). f_equal. rewrite profile_fold_node, !map_map.
  clear -Hg. induction g as [|p g IH]; [reflexivity|]. cbn [forallb] in Hg. apply andb_true_iff in Hg. destruct Hg as [Hp Hg].
  cbn [map]. rewrite (acc_p_of p Hp), (IH Hg). reflexivity.
Qed.

(* clause 2 at the level of one relation *)
Theorem to_lossy_conv_tree r : relation_okb r = true -> to_lossy (conv_tree r) = Ok r.
Proof.
  destruct r as [n q a v ps]. unfold relation_okb. cbn [r_name r_archqual r_archs r_version r_profiles]. intros H.
  apply andb_true_iff in H. destruct H as [H Hp]. apply andb_true_iff in H. destruct H as [H _].
  apply andb_true_iff in H. destruct H as [_ Hv].
  unfold to_lossy, conv_tree. cbn [r_name r_archqual r_archs r_version r_profiles].
  rewrite conv_name, conv_ver by (destruct v as [[c x]|]; [exact Hv|exact I]).
  rewrite conv_qual, conv_archs, (conv_profs _ _ _ _ ps Hp). reflexivity.
Qed.

(* ================================================================== F. entries and fields *)
Lemma res_all_map {A B} (f : A -> res B) (g : A -> B) l : (forall x, In x l -> f x = Ok (g x)) ->
  RelAcc.res_all f l = Ok (map g l).
Proof.
  induction l as [|x r IH]; intros H; [reflexivity|]. cbn [RelAcc.res_all map].
  rewrite (H x (or_introl eq_refl)), IH by (intros y Hy; apply H; right; exact Hy). reflexivity.
Qed.

Theorem entry_to_lossless_tree e : entry_to_lossless e = Ok (entry_from_relations fixed (map conv_tree e)).
Proof.
  unfold entry_to_lossless. rewrite (res_all_map to_lossless conv_tree) by (intros; apply to_lossless_tree). reflexivity.
Qed.
Definition entry_tree (e : list (relation dversion)) : rtree := entry_from_relations fixed (map conv_tree e).
Definition field_tree (rs : list (list (relation dversion))) : rtree := relations_from_entries (map entry_tree rs).
Theorem field_to_lossless_tree rs : field_to_lossless rs = Ok (field_tree rs).
Proof.
  unfold field_to_lossless. rewrite (res_all_map entry_to_lossless entry_tree) by (intros; apply entry_to_lossless_tree).
  reflexivity.
Qed.

(* texts *)
Lemma texts_join_relations ts : forall i, texts (join_relations fixed (S i) ts) = flat_map (fun t => [32; 124; 32]%N ++ text t) ts.
Proof.
  induction ts as [|t r IH]; intros i; [reflexivity|]. cbn [join_relations flat_map].
  change (fx_pipe fixed) with true. cbv iota. rewrite texts_app, (texts_cons t), IH. reflexivity.
Qed.
Lemma text_entry_from ts : text (entry_from_relations fixed ts) = join [32; 124; 32]%N (map text ts).
Proof.
  unfold entry_from_relations. rewrite text_node. destruct ts as [|t r]; [reflexivity|].
  cbn [join_relations app map]. rewrite texts_cons, texts_join_relations, join_flat, flat_map_map. reflexivity.
Qed.
Lemma texts_join_entries es : forall i, texts (join_entries (S i) es) = flat_map (fun t => [44; 32]%N ++ text t) es.
Proof.
  induction es as [|t r IH]; intros i; [reflexivity|]. cbn [join_entries flat_map].
  rewrite texts_app, (texts_cons t), IH. reflexivity.
Qed.
Lemma text_relations_from es : text (relations_from_entries es) = join [44; 32]%N (map text es).
Proof.
  unfold relations_from_entries. rewrite text_node. destruct es as [|t r]; [reflexivity|].
  cbn [join_entries app map]. rewrite texts_cons, texts_join_entries, join_flat, flat_map_map. reflexivity.
Qed.

Theorem entry_tree_text e : text (entry_tree e) = print_entry dv_print e.
Proof.
  unfold entry_tree, print_entry. rewrite text_entry_from, map_map. f_equal. apply map_ext. apply conv_tree_text.
Qed.
Theorem field_tree_text rs : text (field_tree rs) = print_relations dv_print rs.
Proof.
  unfold field_tree, print_relations. rewrite text_relations_from, map_map. f_equal. apply map_ext. apply entry_tree_text.
Qed.

(* the relation nodes of a converted entry, the entry nodes of a converted field *)
Lemma rnodes_join_relations ts : (forall t, In t ts -> exists cs, t = Node RELATION cs) ->
  forall i, filter (fun e => is_node e && rkind_eqb (ekind e) RELATION) (join_relations fixed i ts) = ts.
Proof.
  induction ts as [|t r IH]; intros H i; [reflexivity|]. cbn [join_relations]. change (fx_pipe fixed) with true. cbv iota.
  rewrite filter_app. assert (E : filter (fun e => is_node e && rkind_eqb (ekind e) RELATION)
                                         match i with 0 => [] | S _ => [t_space; Tok PIPE [124%N]; t_space] end = [])
    by (destruct i; reflexivity).
  rewrite E. cbn [app filter]. destruct (H t (or_introl eq_refl)) as (cs & ->). cbn [is_node ekind rkind_eqb rkind_code N.eqb Pos.eqb andb].
  rewrite IH by (intros y Hy; apply H; right; exact Hy). reflexivity.
Qed.
Lemma rnodes_join_entries es : (forall t, In t es -> exists cs, t = Node ENTRY cs) ->
  forall i, filter (fun e => is_node e && rkind_eqb (ekind e) ENTRY) (join_entries i es) = es.
Proof.
  induction es as [|t r IH]; intros H i; [reflexivity|]. cbn [join_entries].
  rewrite filter_app. assert (E : filter (fun e => is_node e && rkind_eqb (ekind e) ENTRY)
                                         match i with 0 => [] | S _ => [t_comma; t_space] end = [])
    by (destruct i; reflexivity).
  rewrite E. cbn [app filter]. destruct (H t (or_introl eq_refl)) as (cs & ->). cbn [is_node ekind rkind_eqb rkind_code N.eqb Pos.eqb andb].
  rewrite IH by (intros y Hy; apply H; right; exact Hy). reflexivity.
Qed.

Lemma res_all_inv {A B} (f : B -> res A) (g : A -> B) l : (forall x, In x l -> f (g x) = Ok x) ->
  RelAcc.res_all f (map g l) = Ok l.
Proof.
  induction l as [|x r IH]; intros H; [reflexivity|]. cbn [RelAcc.res_all map].
  rewrite (H x (or_introl eq_refl)), IH by (intros y Hy; apply H; right; exact Hy). reflexivity.
Qed.

(* clause 2 for entries and fields *)
Theorem entry_to_lossy_tree e : forallb relation_okb e = true -> entry_to_lossy (entry_tree e) = Ok e.
Proof.
  intros H. unfold entry_to_lossy, RelAcc.entry_relations, r_relations, rnodes_of_kind, entry_tree, entry_from_relations.
  cbn [children]. rewrite rnodes_join_relations.
  - apply res_all_inv. intros x Hx. apply to_lossy_conv_tree. rewrite forallb_forall in H. apply H, Hx.
  - intros t Ht. apply in_map_iff in Ht. destruct Ht as (x & <- & _). eexists. reflexivity.
Qed.

Theorem field_to_lossy_tree rs : forallb (forallb relation_okb) rs = true -> field_to_lossy (field_tree rs) = Ok rs.
Proof.
  intros H. unfold field_to_lossy, RelAcc.relations_entries, r_entries, rnodes_of_kind, field_tree, relations_from_entries.
  cbn [children]. rewrite rnodes_join_entries.
  - apply res_all_inv. intros x Hx. apply entry_to_lossy_tree. rewrite forallb_forall in H. apply H, Hx.
  - intros t Ht. apply in_map_iff in Ht. destruct Ht as (x & <- & _). eexists. reflexivity.
Qed.
