(* C16: the external-codec law of proofs/DeriveP.v ([ext_rt_law]) discharged for the codecs of the
   shipped structs that are workspace code (model/DeriveExt.v), from the round-trip theorems of
   C18 (CodecsP, VcsP, EnumTabP), C14 (RelLossyP) and the two transcribed here. *)
From Coq Require Import ZArith.
From V.model Require Import Base Deb822Lex Deb822Parse Grammar Lossy LossySpec CodecStr EnumTab Codecs Vcs RelLex RelLossy Derive DeriveExt.
From V.gen Require Import Enums_gen Structs_gen.
From V.proofs Require Import BaseP LossyRtP CodecStrP EnumTabP CodecsP VcsP RelLossyP DeriveP.

(* ---- sort() of a sorted list ---- *)
Lemma isort_sorted {A} (key : A -> str) (l : list A) : sorted_by key l = true -> isort_by key l = l.
Proof.
  induction l as [|x r IH]; [reflexivity|]. cbn [sorted_by isort_by]. destruct r as [|y r'].
  - intros _. reflexivity.
  - intros H. apply andb_true_iff in H. destruct H as [Hxy Hr]. rewrite (IH Hr). cbn [insert_by]. rewrite Hxy. reflexivity.
Qed.
Lemma sorted_by_map {A} (key : A -> str) (l : list A) : sorted_by (fun k => k) (map key l) = sorted_by key l.
Proof.
  induction l as [|x r IH]; [reflexivity|]. cbn [map sorted_by]. destruct r as [|y r']; [reflexivity|].
  cbn [map] in *. rewrite IH. reflexivity.
Qed.

(* ================================================================== buildinfo Environment *)
(* the maps serialize_env / deserialize_env round-trip: keys without '=', keys and values without
   LF/CR, distinct keys; the representative is the one sorted by printed line *)
Definition env_entry_ok (kv : str * str) : bool :=
  negb (contains_char 61 (fst kv)) && no_eol (fst kv) && no_eol (snd kv).
Definition env_valid (m : list (str * str)) : bool :=
  forallb env_entry_ok m && nodup_keys (map fst m) && sorted_by env_line m.

Lemma no_eol_app a b : no_eol (a ++ b) = no_eol a && no_eol b.
Proof. unfold no_eol. apply forallb_app. Qed.
Lemma env_line_no_eol kv : env_entry_ok kv = true -> no_eol (env_line kv) = true.
Proof.
  unfold env_entry_ok, env_line. intros H. apply andb_true_iff in H. destruct H as [H Hv]. apply andb_true_iff in H. destruct H as [_ Hk].
  rewrite no_eol_app, Hk. cbn [no_eol forallb andb]. change (negb (is_newline 61)) with true. exact Hv.
Qed.

Lemma env_pairs_lines m2 : forall m1, forallb env_entry_ok m2 = true -> NoDup (map fst (m1 ++ m2)) ->
  env_pairs (map env_line m2) m1 = Some (m1 ++ m2).
Proof.
  induction m2 as [|[k v] r IH]; intros m1 Hok Hnd; [rewrite app_nil_r; reflexivity|].
  cbn [forallb] in Hok. apply andb_true_iff in Hok. destruct Hok as [Hkv Hr].
  cbn [map env_pairs]. unfold env_line at 1. cbn [fst snd].
  assert (Hc : contains_char 61 k = false).
  { unfold env_entry_ok in Hkv. cbn [fst] in Hkv. apply andb_true_iff in Hkv. destruct Hkv as [Hkv _].
    apply andb_true_iff in Hkv. destruct Hkv as [Hkv _]. apply negb_true_iff in Hkv. exact Hkv. }
  rewrite (split_once_app 61 k v Hc).
  assert (Hfresh : ~ In k (map fst m1)).
  { rewrite map_app in Hnd. cbn [map fst] in Hnd. apply NoDup_remove_2 in Hnd. intros Hin. apply Hnd. apply in_or_app. left. exact Hin. }
  rewrite (map_insert_fresh k v m1 Hfresh). rewrite IH; [rewrite <- app_assoc; reflexivity|exact Hr|].
  rewrite <- app_assoc. exact Hnd.
Qed.

Theorem env_roundtrip m : env_valid m = true -> env_parse (env_print m) = Some m.
Proof.
  unfold env_valid. intros H. apply andb_true_iff in H. destruct H as [H Hs]. apply andb_true_iff in H. destruct H as [Hok Hnd].
  unfold env_print, env_parse.
  rewrite (isort_sorted (fun l => l) (map env_line m)) by (rewrite sorted_by_map; exact Hs).
  change [10%N] with [LF]. rewrite lines_join.
  - rewrite (env_pairs_lines m [] Hok) by (apply nodup_keys_NoDup; exact Hnd). cbn [app].
    rewrite (isort_sorted env_line m Hs). reflexivity.
  - rewrite forallb_map'. apply forallb_forall. intros kv Hin. apply env_line_no_eol.
    rewrite forallb_forall in Hok. apply Hok. exact Hin.
  - clear. induction m as [|kv r IH]; [discriminate|]. cbn [map]. destruct r as [|kv2 r'].
    + cbn [last map]. unfold env_line. destruct (fst kv); discriminate.
    + exact IH.
Qed.

(* ================================================================== sources Types *)
(* four sets for the two repository types: by computation on the generated table *)
Definition types_rt_check (l : list N) : bool :=
  match types_parse (types_print l) with Some l' => list_eqb N.eqb l l' | None => false end.
Lemma list_eqb_N_eq a : forall b, list_eqb N.eqb a b = true -> a = b.
Proof.
  induction a as [|x a IH]; intros [|y b] H; cbn in H; try discriminate; [reflexivity|].
  apply andb_true_iff in H. destruct H as [H1 H2]. apply N.eqb_eq in H1. subst. f_equal. apply IH. exact H2.
Qed.
Theorem types_roundtrip l : In l types_values -> types_parse (types_print l) = Some l.
Proof.
  assert (Hall : forallb types_rt_check types_values = true) by (vm_compute; reflexivity).
  intros Hin. rewrite forallb_forall in Hall. specialize (Hall l Hin). unfold types_rt_check in Hall.
  destruct (types_parse (types_print l)) as [l'|]; [|discriminate]. apply list_eqb_N_eq in Hall. subst. reflexivity.
Qed.

(* ================================================================== the generated tables *)
Lemma priority_tab_ok : enum_ok Priority_tab = true. Proof. vm_compute. reflexivity. Qed.
Lemma multiarch_tab_ok : enum_ok MultiArch_tab = true. Proof. vm_compute. reflexivity. Qed.
Lemma yesnoforce_tab_ok : enum_ok YesNoForce_tab = true. Proof. vm_compute. reflexivity. Qed.
Lemma origin_cat_tab_ok : enum_ok OriginCategory_tab = true. Proof. vm_compute. reflexivity. Qed.
Lemma origin_tab_ok : origin_ok OriginCategory_tab parse_origin_tab = true. Proof. vm_compute. reflexivity. Qed.
Lemma sig_strip_ok : sig_keyblock_strip = true. Proof. vm_compute. reflexivity. Qed.

Lemma enum_of_ok i t : enum_of i = Some t -> enum_ok t = true.
Proof.
  unfold enum_of. destruct i as [|p]; [discriminate|].
  repeat (match goal with |- context [match ?q with xI _ => _ | xO _ => _ | xH => _ end] => is_var q; destruct q end);
    try discriminate; intros H; injection H as <-;
    first [exact priority_tab_ok | exact multiarch_tab_ok | exact yesnoforce_tab_ok].
Qed.

(* ================================================================== the law *)
Section Shipped.
Variable V : Type.
Variable vparse : str -> option V.
Variable vprint : V -> str.
Variable vdom : V -> Prop.                 (* the versions debversion reads back *)
Variable X : Type.
Variable xparse : N -> str -> option X.
Variable xprint : N -> X -> str.
Variable xdom : N -> X -> Prop.            (* the Url / Vec<Url> / NaiveDate values their parsers read back *)

Notation cval := (cval V X).

(* representable values of codec i: the validity predicates of the cones that own the codecs *)
Definition c_dom (i : N) (c : cval) : Prop :=
  match c with
  | CVersion v => i = 1%N /\ vdom v
  | CRelations r => i = 3%N /\ relations_ok vparse vprint r
  | CEnum n => exists t, enum_of i = Some t /\ (n < enum_size t)%N
  | CLicense l => i = 6%N /\ license_valid l = true
  | CSignature s => i = 7%N /\ signature_valid s = true
  | CForwarded f => i = 9%N /\ forwarded_valid f = true
  | CApplied a => i = 10%N /\ commit_or_valid a = true
  | CVcs p => i = 11%N /\ pvcs_valid p = true
  | COrigin cat o => i = 16%N /\ porigin_valid OriginCategory_tab parse_origin_tab cat o = true
  | CEnv m => i = 12%N /\ env_valid m = true
  | CTypes l => i = 13%N /\ In l types_values
  | COther x => (i = 2%N \/ i = 14%N \/ i = 15%N) /\ xdom i x
  end.

(* THE remaining assumptions: the three crates outside the workspace *)
Definition version_rt_law : Prop := forall v, vdom v -> vparse (vprint v) = Some v.
Definition other_rt_law : Prop := forall i x, (i = 2%N \/ i = 14%N \/ i = 15%N) -> xdom i x -> xparse i (xprint i x) = Some x.

Theorem shipped_ext_rt_law : version_rt_law -> other_rt_law ->
  ext_rt_law cval (c_print V vprint X xprint) (c_parse V vparse X xparse) c_dom.
Proof.
  intros Hv Hx i c Hd. destruct c; cbn [c_dom] in Hd.
  - destruct Hd as [-> Hd]. cbn [c_print c_parse]. rewrite (Hv _ Hd). reflexivity.
  - destruct Hd as [-> Hd]. cbn [c_print c_parse]. rewrite (relations_rt V vparse vprint r Hd). reflexivity.
  - destruct Hd as (t & Ht & Hn). pose proof (enum_of_ok i t Ht) as Hok.
    destruct (enum_roundtrip t Hok n Hn) as (k & Hp & Hq).
    cbn [c_print]. rewrite Ht, Hp. cbn [res_str].
    assert (Hi : c_parse V vparse X xparse i k = match enum_of i with Some t => option_map CEnum (res_opt (enum_parse t k)) | None => None end).
    { unfold enum_of in Ht. destruct i as [|p]; [discriminate|].
      repeat (match type of Ht with context [match ?q with xI _ => _ | xO _ => _ | xH => _ end] => is_var q; destruct q end);
        try discriminate; reflexivity. }
    rewrite Hi, Ht, Hq. reflexivity.
  - destruct Hd as [-> Hd]. cbn [c_print c_parse]. rewrite (license_roundtrip l Hd). reflexivity.
  - destruct Hd as [-> Hd]. cbn [c_print c_parse]. unfold sig_from_str. rewrite sig_strip_ok, (signature_roundtrip s Hd). reflexivity.
  - destruct Hd as [-> Hd]. cbn [c_print c_parse]. rewrite (forwarded_roundtrip f Hd). reflexivity.
  - destruct Hd as [-> Hd]. cbn [c_print c_parse]. rewrite (applied_roundtrip c Hd). reflexivity.
  - destruct Hd as [-> Hd]. cbn [c_print c_parse]. rewrite (pvcs_roundtrip p Hd). reflexivity.
  - destruct Hd as [-> Hd]. cbn [c_print c_parse].
    destruct (porigin_roundtrip OriginCategory_tab parse_origin_tab cat o origin_cat_tab_ok origin_tab_ok Hd) as (t & Hf & Hp).
    rewrite Hf. cbn [res_str]. rewrite Hp. reflexivity.
  - destruct Hd as [-> Hd]. cbn [c_print c_parse]. rewrite (env_roundtrip m Hd). reflexivity.
  - destruct Hd as [-> Hd]. cbn [c_print c_parse]. rewrite (types_roundtrip l Hd). reflexivity.
  - destruct Hd as [Hi Hd]. cbn [c_print]. pose proof (Hx i x Hi Hd) as Hr.
    destruct Hi as [->|[->| ->]]; cbn [c_parse]; rewrite Hr; reflexivity.
Qed.
End Shipped.
