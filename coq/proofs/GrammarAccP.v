(* Accessors on the tree of a well-formed document, and the list laws of the accessors on
   any tree. *)
From V.model Require Import Base Deb822Lex Deb822Parse Grammar.
From V.proofs Require Import BaseP Deb822LexP Deb822ParseP GrammarLexP GrammarParseP.

(* ---- general list laws of the accessors (any paragraph tree) ---- *)
Lemma keys_items p : keys p = map fst (items p).
Proof.
  unfold keys, items. induction (entries p) as [|e r IH]; [reflexivity|]. cbn [flat_map].
  rewrite map_app, IH. destruct (entry_key e); reflexivity.
Qed.

Lemma get_all_items p k :
  get_all p k = map snd (filter (fun kv => str_eqb (fst kv) k) (items p)).
Proof.
  unfold get_all. induction (items p) as [|[a b] r IH]; [reflexivity|]. cbn [flat_map filter fst snd].
  destruct (str_eqb a k); cbn [app map snd]; rewrite IH; reflexivity.
Qed.

Lemma get_items p k :
  get p k = match filter (fun kv => str_eqb (fst kv) k) (items p) with [] => None | kv :: _ => Some (snd kv) end.
Proof.
  unfold get, items. induction (entries p) as [|e r IH]; [reflexivity|]. cbn [filter flat_map].
  destruct (entry_key e) as [a|] eqn:Ek; cbn [opt_str_eqb app filter fst].
  - destruct (str_eqb a k); [reflexivity|exact IH].
  - exact IH.
Qed.

Lemma contains_key_items p k :
  contains_key p k = existsb (fun kv => str_eqb (fst kv) k) (items p).
Proof.
  unfold contains_key. rewrite get_items. induction (items p) as [|[a b] r IH]; [reflexivity|].
  cbn [filter existsb fst]. destruct (str_eqb a k); [reflexivity|exact IH].
Qed.

(* ---- the tree of a well-formed document ---- *)
Lemma tt_key_none (l : list tree) k :
  forallb (fun c => match c with Tok k' _ => negb (kind_eqb k' k) | Node _ _ => true end) l = true ->
  flat_map (fun c => match c with Tok k' s => if kind_eqb k' k then [s] else [] | Node _ _ => [] end) l = [].
Proof.
  induction l as [|c r IH]; [reflexivity|]. cbn [forallb flat_map]. intros H.
  apply andb_true_iff in H. destruct H as [Hc Hr]. rewrite (IH Hr), app_nil_r.
  destruct c as [k' s|k' cs]; [|reflexivity]. apply negb_true_iff in Hc. rewrite Hc. reflexivity.
Qed.

Lemma entry_key_field f : entry_key (field_tree f) = Some (f_name f).
Proof.
  unfold entry_key, token_texts_of_kind, field_tree. cbn [children flat_map kind_eqb kind_code N.eqb app].
  reflexivity.
Qed.

Lemma conts_values cs :
  flat_map (fun c => match c with Tok k' s => if kind_eqb k' VALUE then [s] else [] | Node _ _ => [] end)
           (flat_map cont_elems cs) = map snd cs.
Proof. induction cs as [|[i t] cs IH]; [reflexivity|]. cbn. rewrite IH. reflexivity. Qed.

Lemma entry_value_field f : entry_value (field_tree f) = field_value f.
Proof.
  unfold entry_value, token_texts_of_kind, field_tree, field_value. cbn [children]. f_equal.
  cbn [flat_map kind_eqb kind_code N.eqb Pos.eqb app]. rewrite !flat_map_app.
  assert (E1 : flat_map (fun c => match c with Tok k' s => if kind_eqb k' VALUE then [s] else [] | Node _ _ => [] end)
                 (opt_elem WHITESPACE (f_ws f)) = []) by (destruct (f_ws f); reflexivity).
  assert (E2 : flat_map (fun c => match c with Tok k' s => if kind_eqb k' VALUE then [s] else [] | Node _ _ => [] end)
                 (opt_elem VALUE (f_first f)) = match f_first f with [] => [] | s => [s] end) by (destruct (f_first f); reflexivity).
  assert (E3 : flat_map (fun c => match c with Tok k' s => if kind_eqb k' VALUE then [s] else [] | Node _ _ => [] end)
                 (nl_elem (f_nl f)) = []) by (destruct (f_nl f); reflexivity).
  rewrite E1, E2, E3, conts_values, app_nil_r. reflexivity.
Qed.

Lemma items_para f its :
  items (Node PARAGRAPH (field_tree f :: flat_map item_elems its)) = field_pair f :: flat_map item_pairs its.
Proof.
  unfold items, entries, node_children_of_kind. cbn [children filter].
  change (is_node (field_tree f) && is_kind ENTRY (field_tree f)) with true. cbn [flat_map].
  rewrite entry_key_field, entry_value_field. cbn [app]. unfold field_pair. f_equal.
  induction its as [|it r IH]; [reflexivity|]. cbn [flat_map]. rewrite filter_app, flat_map_app, IH. f_equal.
  destruct it as [g|c nl]; cbn [item_elems item_pairs].
  - cbn [filter]. change (is_node (field_tree g) && is_kind ENTRY (field_tree g)) with true. cbn [flat_map].
    rewrite entry_key_field, entry_value_field. reflexivity.
  - destruct nl; reflexivity.
Qed.

Lemma doc_items_tree_of d : doc_items (tree_of d) = content d.
Proof.
  unfold doc_items, paragraphs, node_children_of_kind, tree_of, content. cbn [children].
  induction d as [|b r IH]; [reflexivity|]. cbn [map filter flat_map].
  destruct b as [|c nl|f its]; cbn [block_tree block_content app].
  - exact IH.
  - exact IH.
  - change (is_node (Node PARAGRAPH (field_tree f :: flat_map item_elems its)) &&
            is_kind PARAGRAPH (Node PARAGRAPH (field_tree f :: flat_map item_elems its))) with true.
    cbn [map]. rewrite items_para, IH. reflexivity.
Qed.

Theorem C03_accept_all d : wf_doc d = true ->
  from_str (render d) = Ok (tree_of d) /\ text (tree_of d) = render d /\ doc_items (tree_of d) = content d.
Proof.
  intros Hwf.
  assert (E : parse (render d) = Ok (tree_of d, 0)).
  { unfold parse. rewrite (lex_render d Hwf). apply parse_doc_toks. exact Hwf. }
  split; [unfold from_str; rewrite E; reflexivity|]. split; [eapply parse_text; exact E|apply doc_items_tree_of].
Qed.

(* Paragraph::from_str returns the first paragraph *)
Lemma paragraph_from_str_first d : wf_doc d = true ->
  paragraph_from_str (render d) =
  match paragraphs (tree_of d) with p :: _ => Ok p | [] => Err 2%N end.
Proof. intros Hwf. unfold paragraph_from_str. destruct (C03_accept_all d Hwf) as (E & _). rewrite E. reflexivity. Qed.
