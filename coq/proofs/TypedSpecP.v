(* C20, part 4: what an accepted document is (paragraph roles by their distinguishing fields, each
   struct field = the deserialiser's image of what the deb822 reader shows), rejection of
   structurally invalid documents, totality, and the lossy readers' view of a well-formed
   document next to the lossless one. *)
From Coq Require Import ZArith.
From V.model Require Import Base Deb822Lex Deb822Parse Grammar Lossy LossySpec Derive TypedDocs.
From V.gen Require Import Structs_gen.
From V.proofs Require Import BaseP Deb822LexP Deb822ParseP GrammarAccP LossyP LossyRtP DeriveP TypedCodecP TypedCanonP TypedDocsP.

Definition has (p : tree) (k : str) : bool := match get p k with Some _ => true | None => false end.
(* roles by distinguishing fields *)
Definition is_binary (p : tree) : bool := has p k_Package.
Definition is_source (p : tree) : bool := negb (has p k_Package) && has p k_Source.
Definition is_files (p : tree) : bool := has p k_Files.
Definition is_license (p : tree) : bool := negb (has p k_Files) && has p k_License.

Definition tvalue {A} (r : tres A) : Prop := (exists a, r = TOk a) \/ (exists e, r = TErr e).

Lemma from_str_value s : (exists t, from_str s = Ok t) \/ from_str s = Err 1%N.
Proof. destruct (C01_all s) as (t & n & _ & _ & H0 & H1). destruct n; [left; exists t; apply H0; reflexivity|right; apply H1; discriminate]. Qed.

Opaque fs_control_source fs_control_binary fs_header fs_files fs_license fs_release fs_apt_source fs_apt_package
       fs_removal fs_buildinfo fs_dep3 fs_repository.

Section Ext.
Variable E : Type.
Variable ext_print : N -> E -> str.
Variable ext_parse : N -> str -> option E.
Notation sval := (list (option (uval E))).
Notation from_ll := (from_ll E ext_parse).
Notation from_lossy := (from_lossy E ext_parse).
Notation from_fields := (from_fields E ext_parse).
Notation reads := (field_reads_as E ext_parse).

(* every struct field = the deserialiser applied to what get returns for its key *)
Lemma from_ll_reads fs p v : from_ll fs p = DOk v -> Forall2 (reads (get p)) fs v.
Proof. apply from_fields_reads. Qed.
Lemma from_lossy_reads fs p v : from_lossy fs p = DOk v -> Forall2 (reads (l_get p)) fs v.
Proof. apply from_fields_reads. Qed.

Lemma read_mandatory_has get fs v k : from_fields get fs = DOk v -> mandatory_key fs k = true -> get k <> None.
Proof.
  intros Hv. apply from_fields_reads in Hv. induction Hv as [|f x fs v Hx _ IH]; cbn [mandatory_key existsb]; [discriminate|].
  intros H. apply orb_true_iff in H. destruct H as [H|H]; [|apply IH; exact H].
  apply andb_true_iff in H. destruct H as [Hk Ho]. apply str_eqb_eq in Hk. subst k. apply negb_true_iff in Ho.
  unfold field_reads_as in Hx. destruct (get (f_key f)); [discriminate|]. destruct Hx as [_ Ho']. congruence.
Qed.

(* ================================================================== control *)
Definition control_spec (ps : list tree) (c : control E) : Prop :=
  (exists sp, filter is_source ps = [sp] /\ from_ll fs_control_source sp = DOk (c_source c)) /\
  Forall2 (fun p b => from_ll fs_control_binary p = DOk b) (filter is_binary ps) (c_binaries c) /\
  forallb (fun p => is_binary p || is_source p) ps = true.

Lemma control_loop_sound ps : forall src bins c, control_loop E ext_parse ps src bins = TOk c ->
  match src with
  | Some s0 => filter is_source ps = [] /\ c_source c = s0
  | None => exists sp, filter is_source ps = [sp] /\ from_ll fs_control_source sp = DOk (c_source c)
  end /\
  (exists bs, c_binaries c = bins ++ bs /\ Forall2 (fun p b => from_ll fs_control_binary p = DOk b) (filter is_binary ps) bs) /\
  forallb (fun p => is_binary p || is_source p) ps = true.
Proof.
  induction ps as [|p r IH]; intros src bins c H; cbn [control_loop] in H.
  - destruct src as [s0|]; [|discriminate]. injection H as <-. cbn. split; [auto|]. split; [exists []; rewrite app_nil_r; split; [reflexivity|constructor]|reflexivity].
  - cbn [filter forallb]. destruct (get p k_Package) as [pk|] eqn:Ep.
    + assert (Hb : is_binary p = true) by (unfold is_binary, has; rewrite Ep; reflexivity).
      assert (Hs : is_source p = false) by (unfold is_source, has; rewrite Ep; reflexivity). rewrite Hb, Hs.
      destruct (from_ll fs_control_binary p) as [b|e] eqn:Eb; [|discriminate]. cbn [of_dres] in H.
      destruct (IH _ _ _ H) as (H1 & (bs & H2 & H3) & H4). cbn [negb andb orb]. split; [exact H1|]. split; [|exact H4].
      exists (b :: bs). rewrite H2, <- app_assoc. split; [reflexivity|]. constructor; assumption.
    + destruct (get p k_Source) as [sk|] eqn:Es; [|discriminate]. destruct src as [s0|]; [discriminate|].
      assert (Hb : is_binary p = false) by (unfold is_binary, has; rewrite Ep; reflexivity).
      assert (Hs : is_source p = true) by (unfold is_source, has; rewrite Ep, Es; reflexivity). rewrite Hb, Hs.
      destruct (from_ll fs_control_source p) as [s1|e] eqn:E1; [|discriminate]. cbn [of_dres] in H.
      destruct (IH _ _ _ H) as ((H1a & H1b) & H2 & H4). cbn [negb andb orb]. split; [|split; [exact H2|exact H4]].
      exists p. rewrite H1a, H1b. auto.
Qed.

Theorem control_sound s c : parse_control E ext_parse s = TOk c ->
  exists t, from_str s = Ok t /\ control_spec (paragraphs t) c.
Proof.
  unfold parse_control. destruct (from_str s) as [t| | |]; try discriminate. cbn [of_res]. intros H.
  exists t. split; [reflexivity|]. destruct (control_loop_sound _ _ _ _ H) as (H1 & (bs & H2 & H3) & H4).
  cbn [app] in H2. subst bs. split; [exact H1|]. split; assumption.
Qed.

Lemma control_loop_value ps : forall src bins, tvalue (control_loop E ext_parse ps src bins).
Proof.
  induction ps as [|p r IH]; intros src bins; cbn [control_loop].
  - destruct src; [left|right]; eexists; reflexivity.
  - destruct (get p k_Package).
    + destruct (from_ll fs_control_binary p); cbn [of_dres]; [apply IH|right; eexists; reflexivity].
    + destruct (get p k_Source); [|right; eexists; reflexivity]. destruct src; [right; eexists; reflexivity|].
      destruct (from_ll fs_control_source p); cbn [of_dres]; [apply IH|right; eexists; reflexivity].
Qed.
Theorem control_value s : tvalue (parse_control E ext_parse s).
Proof.
  unfold parse_control. destruct (from_str_value s) as [(t & ->)| ->]; cbn [of_res]; [apply control_loop_value|right; eexists; reflexivity].
Qed.

(* no or several source paragraphs, a paragraph of neither kind, a missing mandatory field => Err *)
Theorem control_reject s t :
  from_str s = Ok t ->
  (length (filter is_source (paragraphs t)) <> 1 \/
   (exists p, In p (paragraphs t) /\ is_binary p = false /\ is_source p = false) \/
   (exists p k, In p (paragraphs t) /\ is_binary p = true /\ mandatory_key fs_control_binary k = true /\ get p k = None) \/
   (exists p k, In p (paragraphs t) /\ is_source p = true /\ mandatory_key fs_control_source k = true /\ get p k = None)) ->
  exists e, parse_control E ext_parse s = TErr e.
Proof.
  intros Ht Hbad. destruct (control_value s) as [(c & Hc)|He]; [|exact He]. exfalso.
  destruct (control_sound _ _ Hc) as (t' & Ht' & (sp & Hs1 & Hs2) & Hb & Hall). rewrite Ht in Ht'. injection Ht' as <-.
  destruct Hbad as [H|[(p & Hp & H1 & H2)|[(p & k & Hp & H1 & H2 & H3)|(p & k & Hp & H1 & H2 & H3)]]].
  - rewrite Hs1 in H. apply H. reflexivity.
  - rewrite forallb_forall in Hall. specialize (Hall p Hp). rewrite H1, H2 in Hall. discriminate.
  - assert (Hin : In p (filter is_binary (paragraphs t))) by (apply filter_In; auto).
    clear -Hb Hin H2 H3. induction Hb as [|q b qs bs Hq _ IH]; [contradiction|]. destruct Hin as [->|Hin]; [|apply IH; exact Hin].
    rewrite from_ll_fields in Hq. apply (read_mandatory_has _ _ _ _ Hq H2). exact H3.
  - assert (Hin : In p (filter is_source (paragraphs t))) by (apply filter_In; auto).
    rewrite Hs1 in Hin. destruct Hin as [<-|[]]. rewrite from_ll_fields in Hs2. apply (read_mandatory_has _ _ _ _ Hs2 H2). exact H3.
Qed.

(* ================================================================== copyright *)
Definition copyright_spec (s : str) (ps : list tree) (c : copyright E) : Prop :=
  starts_with s s_Format_colon = true /\
  exists first rest, ps = first :: rest /\ from_ll fs_header first = DOk (cr_header c) /\
    Forall2 (fun p f => from_ll fs_files p = DOk f) (filter is_files rest) (cr_files c) /\
    Forall2 (fun p l => from_ll fs_license p = DOk l) (filter is_license rest) (cr_licenses c) /\
    forallb (fun p => is_files p || is_license p) rest = true.

Lemma copyright_loop_sound ps : forall files licenses fl, copyright_loop E ext_parse ps files licenses = TOk fl ->
  (exists fs', fst fl = files ++ fs' /\ Forall2 (fun p f => from_ll fs_files p = DOk f) (filter is_files ps) fs') /\
  (exists ls', snd fl = licenses ++ ls' /\ Forall2 (fun p l => from_ll fs_license p = DOk l) (filter is_license ps) ls') /\
  forallb (fun p => is_files p || is_license p) ps = true.
Proof.
  induction ps as [|p r IH]; intros files licenses fl H; cbn [copyright_loop] in H.
  - injection H as <-. cbn. split; [exists []; rewrite app_nil_r; split; [reflexivity|constructor]|].
    split; [exists []; rewrite app_nil_r; split; [reflexivity|constructor]|reflexivity].
  - cbn [filter forallb]. destruct (get p k_Files) as [fk|] eqn:Ef.
    + assert (Hb : is_files p = true) by (unfold is_files, has; rewrite Ef; reflexivity).
      assert (Hs : is_license p = false) by (unfold is_license, has; rewrite Ef; reflexivity). rewrite Hb, Hs.
      destruct (from_ll fs_files p) as [f|e] eqn:E1; [|discriminate]. cbn [of_dres] in H.
      destruct (IH _ _ _ H) as ((fs' & H1 & H2) & H3 & H4). cbn [negb andb orb]. split; [|split; [exact H3|exact H4]].
      exists (f :: fs'). rewrite H1, <- app_assoc. split; [reflexivity|constructor; assumption].
    + destruct (get p k_License) as [lk|] eqn:El; [|discriminate].
      assert (Hb : is_files p = false) by (unfold is_files, has; rewrite Ef; reflexivity).
      assert (Hs : is_license p = true) by (unfold is_license, has; rewrite Ef, El; reflexivity). rewrite Hb, Hs.
      destruct (from_ll fs_license p) as [l|e] eqn:E1; [|discriminate]. cbn [of_dres] in H.
      destruct (IH _ _ _ H) as (H1 & (ls' & H2 & H3) & H4). cbn [negb andb orb]. split; [exact H1|]. split; [|exact H4].
      exists (l :: ls'). rewrite H2, <- app_assoc. split; [reflexivity|constructor; assumption].
Qed.

Theorem copyright_sound s c : parse_copyright E ext_parse s = TOk c ->
  exists t, from_str s = Ok t /\ copyright_spec s (paragraphs t) c.
Proof.
  unfold parse_copyright. destruct (starts_with s s_Format_colon) eqn:Eg; cbn [negb]; [|discriminate].
  destruct (from_str s) as [t| | |]; try discriminate. cbn [of_res]. destruct (paragraphs t) as [|first rest] eqn:Ep; [discriminate|].
  destruct (from_ll fs_header first) as [h|] eqn:Eh; cbn [of_dres]; [|discriminate].
  destruct (copyright_loop E ext_parse rest [] []) as [fl| | |] eqn:El; cbn [tbind]; try discriminate.
  intros H. injection H as <-. exists t. split; [reflexivity|]. split; [exact Eg|]. exists first, rest.
  destruct (copyright_loop_sound _ _ _ _ El) as ((fs' & H1 & H2) & (ls' & H3 & H4) & H5). cbn [app] in H1, H3.
  cbn [cr_header cr_files cr_licenses fst snd] in *. subst. repeat split; try assumption; reflexivity.
Qed.

Lemma copyright_loop_value ps : forall files licenses, tvalue (copyright_loop E ext_parse ps files licenses).
Proof.
  induction ps as [|p r IH]; intros files licenses; cbn [copyright_loop]; [left; eexists; reflexivity|].
  destruct (get p k_Files).
  - destruct (from_ll fs_files p); cbn [of_dres]; [apply IH|right; eexists; reflexivity].
  - destruct (get p k_License); [|right; eexists; reflexivity].
    destruct (from_ll fs_license p); cbn [of_dres]; [apply IH|right; eexists; reflexivity].
Qed.
Theorem copyright_value s : tvalue (parse_copyright E ext_parse s).
Proof.
  unfold parse_copyright. destruct (negb (starts_with s s_Format_colon)); [right; eexists; reflexivity|].
  destruct (from_str_value s) as [(t & ->)| ->]; cbn [of_res]; [|right; eexists; reflexivity].
  destruct (paragraphs t) as [|first rest]; [right; eexists; reflexivity|].
  destruct (from_ll fs_header first); cbn [of_dres]; [|right; eexists; reflexivity].
  destruct (copyright_loop_value rest [] []) as [(fl & ->)|(e & ->)]; cbn [tbind]; [left|right]; eexists; reflexivity.
Qed.

Theorem copyright_reject s :
  (starts_with s s_Format_colon = false \/
   exists t, from_str s = Ok t /\
     (paragraphs t = [] \/
      (exists p, In p (tl (paragraphs t)) /\ is_files p = false /\ is_license p = false) \/
      (exists first k, hd_error (paragraphs t) = Some first /\ mandatory_key fs_header k = true /\ get first k = None) \/
      (exists p k, In p (tl (paragraphs t)) /\ is_files p = true /\ mandatory_key fs_files k = true /\ get p k = None) \/
      (exists p k, In p (tl (paragraphs t)) /\ is_license p = true /\ mandatory_key fs_license k = true /\ get p k = None))) ->
  exists e, parse_copyright E ext_parse s = TErr e.
Proof.
  intros Hbad. destruct (copyright_value s) as [(c & Hc)|He]; [|exact He]. exfalso.
  destruct (copyright_sound _ _ Hc) as (t' & Ht' & Hg & first & rest & Hps & Hh & HF & HL & Hall).
  destruct Hbad as [H|(t & Ht & H)]; [congruence|]. rewrite Ht in Ht'. injection Ht' as <-. rewrite Hps in H. cbn [tl hd_error] in H.
  destruct H as [H|[(p & Hp & H1 & H2)|[(f1 & k & Hf & H2 & H3)|[(p & k & Hp & H1 & H2 & H3)|(p & k & Hp & H1 & H2 & H3)]]]].
  - discriminate.
  - rewrite forallb_forall in Hall. specialize (Hall p Hp). rewrite H1, H2 in Hall. discriminate.
  - injection Hf as <-. rewrite from_ll_fields in Hh. apply (read_mandatory_has _ _ _ _ Hh H2). exact H3.
  - assert (Hin : In p (filter is_files rest)) by (apply filter_In; auto).
    clear -HF Hin H2 H3. induction HF as [|q b qs bs Hq _ IH]; [contradiction|]. destruct Hin as [->|Hin]; [|apply IH; exact Hin].
    rewrite from_ll_fields in Hq. apply (read_mandatory_has _ _ _ _ Hq H2). exact H3.
  - assert (Hin : In p (filter is_license rest)) by (apply filter_In; auto).
    clear -HL Hin H2 H3. induction HL as [|q b qs bs Hq _ IH]; [contradiction|]. destruct Hin as [->|Hin]; [|apply IH; exact Hin].
    rewrite from_ll_fields in Hq. apply (read_mandatory_has _ _ _ _ Hq H2). exact H3.
Qed.

(* ================================================================== one paragraph, lossless reader *)
Theorem ll1_sound fs s v : parse_ll1 E ext_parse fs s = TOk v ->
  exists t p r, from_str s = Ok t /\ paragraphs t = p :: r /\ from_ll fs p = DOk v.
Proof. apply parse_ll1_inv. Qed.

Theorem ll1_value fs s : tvalue (parse_ll1 E ext_parse fs s).
Proof.
  unfold parse_ll1, paragraph_from_str. destruct (from_str_value s) as [(t & ->)| ->]; cbn [of_res_para].
  - destruct (paragraphs t) as [|p r]; cbn [of_res_para]; [right; eexists; reflexivity|].
    destruct (from_ll fs p); cbn [of_dres]; [left|right]; eexists; reflexivity.
  - right; eexists; reflexivity.
Qed.

Theorem ll1_reject fs s :
  (forall t, from_str s <> Ok t) \/
  (exists t, from_str s = Ok t /\
     (paragraphs t = [] \/ exists p k, hd_error (paragraphs t) = Some p /\ mandatory_key fs k = true /\ get p k = None)) ->
  exists e, parse_ll1 E ext_parse fs s = TErr e.
Proof.
  intros Hbad. destruct (ll1_value fs s) as [(v & Hv)|He]; [|exact He]. exfalso.
  destruct (ll1_sound _ _ _ Hv) as (t' & p & r & Ht' & Hp & Hr).
  destruct Hbad as [H|(t & Ht & H)]; [apply (H t' Ht')|]. rewrite Ht in Ht'. injection Ht' as <-. rewrite Hp in H.
  destruct H as [H|(p' & k & Hf & H2 & H3)]; [discriminate|]. injection Hf as <-.
  rewrite from_ll_fields in Hr. apply (read_mandatory_has _ _ _ _ Hr H2). exact H3.
Qed.

(* DEP-3: the struct fields as read, with the two fallbacks *)
Theorem dep3_sound s v : parse_dep3 E ext_parse s = TOk v ->
  exists t p r h, from_str s = Ok t /\ paragraphs t = p :: r /\ from_ll fs_dep3 p = DOk h /\
    v = fallback E fs_dep3 (fallback E fs_dep3 h k_Author (get p k_From)) k_Description (get p k_Subject).
Proof.
  unfold parse_dep3, paragraph_from_str. destruct (from_str s) as [t|e| |] eqn:Es; cbn [of_res_para]; try discriminate.
  - destruct (paragraphs t) as [|p r] eqn:Ep; cbn [of_res_para]; [intros H; cbn in H; discriminate|].
    destruct (from_ll fs_dep3 p) as [h|] eqn:Eh; cbn [of_dres]; [|discriminate]. intros H. injection H as <-.
    exists t, p, r, h. auto.
  - intros H. destruct (e =? 2)%N; discriminate.
Qed.
Theorem dep3_value s : tvalue (parse_dep3 E ext_parse s).
Proof.
  unfold parse_dep3, paragraph_from_str. destruct (from_str_value s) as [(t & ->)| ->]; cbn [of_res_para].
  - destruct (paragraphs t) as [|p r]; cbn [of_res_para]; [right; eexists; reflexivity|].
    destruct (from_ll fs_dep3 p); cbn [of_dres]; [left|right]; eexists; reflexivity.
  - right; eexists; reflexivity.
Qed.

(* ================================================================== one paragraph, lossy reader *)
Theorem lossy1_sound fs s v : parse_lossy1 E ext_parse fs s = TOk v ->
  exists p, lossy_paragraph_from_str s = Ok p /\ from_lossy fs p = DOk v.
Proof.
  unfold parse_lossy1. destruct (lossy_paragraph_from_str s) as [p| | |]; cbn [of_res]; try discriminate.
  destruct (from_lossy fs p) as [v'|] eqn:Ev; cbn [of_dres]; [|discriminate]. intros H. injection H as <-. exists p. auto.
Qed.
Theorem lossy1_value fs s : tvalue (parse_lossy1 E ext_parse fs s).
Proof.
  unfold parse_lossy1. destruct (lossy_paragraph_total s) as [(p & ->)|(e & ->)]; cbn [of_res]; [|right; eexists; reflexivity].
  destruct (from_lossy fs p); cbn [of_dres]; [left|right]; eexists; reflexivity.
Qed.
Theorem lossy1_reject fs s :
  (forall p, lossy_paragraph_from_str s <> Ok p) \/
  (exists p k, lossy_paragraph_from_str s = Ok p /\ mandatory_key fs k = true /\ l_get p k = None) ->
  exists e, parse_lossy1 E ext_parse fs s = TErr e.
Proof.
  intros Hbad. destruct (lossy1_value fs s) as [(v & Hv)|He]; [|exact He]. exfalso.
  destruct (lossy1_sound _ _ _ Hv) as (p & Hp & Hr). destruct Hbad as [H|(p' & k & Hp' & H2 & H3)]; [apply (H p Hp)|].
  rewrite Hp in Hp'. injection Hp' as <-. rewrite from_lossy_fields in Hr. apply (read_mandatory_has _ _ _ _ Hr H2). exact H3.
Qed.

(* ================================================================== APT sources list *)
Lemma collect_sound fs ps : forall vs, collect_paras E ext_parse fs ps = TOk vs -> Forall2 (fun p v => from_ll fs p = DOk v) ps vs.
Proof.
  induction ps as [|p r IH]; intros vs H; cbn [collect_paras] in H; [injection H as <-; constructor|].
  destruct (from_ll fs p) as [v|] eqn:Ev; cbn [of_dres] in H; [|discriminate].
  destruct (collect_paras E ext_parse fs r) as [vs'| | |] eqn:Er; cbn [tbind] in H; try discriminate. injection H as <-.
  constructor; [exact Ev|apply IH; reflexivity].
Qed.
Theorem repositories_sound s rs : parse_repositories E ext_parse s = TOk rs ->
  exists t, from_str s = Ok t /\ Forall2 (fun p v => from_ll fs_repository p = DOk v) (paragraphs t) rs.
Proof.
  unfold parse_repositories. destruct (from_str s) as [t| | |]; try discriminate. cbn [of_res]. intros H.
  exists t. split; [reflexivity|apply collect_sound; exact H].
Qed.
Lemma collect_value fs ps : tvalue (collect_paras E ext_parse fs ps).
Proof.
  induction ps as [|p r IH]; cbn [collect_paras]; [left; eexists; reflexivity|].
  destruct (from_ll fs p); cbn [of_dres]; [|right; eexists; reflexivity].
  destruct IH as [(vs & ->)|(e & ->)]; cbn [tbind]; [left|right]; eexists; reflexivity.
Qed.
Theorem repositories_value s : tvalue (parse_repositories E ext_parse s).
Proof.
  unfold parse_repositories. destruct (from_str_value s) as [(t & ->)| ->]; cbn [of_res]; [apply collect_value|right; eexists; reflexivity].
Qed.
Theorem repositories_reject s :
  (forall t, from_str s <> Ok t) \/
  (exists t p k, from_str s = Ok t /\ In p (paragraphs t) /\ mandatory_key fs_repository k = true /\ get p k = None) ->
  exists e, parse_repositories E ext_parse s = TErr e.
Proof.
  intros Hbad. destruct (repositories_value s) as [(v & Hv)|He]; [|exact He]. exfalso.
  destruct (repositories_sound _ _ Hv) as (t' & Ht' & Hall). destruct Hbad as [H|(t & p & k & Ht & Hp & H2 & H3)]; [apply (H t' Ht')|].
  rewrite Ht in Ht'. injection Ht' as <-. clear -Hall Hp H2 H3. induction Hall as [|q b qs bs Hq _ IH]; [contradiction|].
  destruct Hp as [->|Hp]; [|apply IH; exact Hp]. rewrite from_ll_fields in Hq. apply (read_mandatory_has _ _ _ _ Hq H2). exact H3.
Qed.

End Ext.

(* ================================================================== well-formed documents: the two readers' views *)
(* every field has a non-empty first line or no continuation line *)
Definition field_first_present (f : field) : bool := match f_first f, f_cont f with [], _ :: _ => false | _, _ => true end.
Definition item_first_present (it : item) : bool := match it with IField f => field_first_present f | IComment _ _ => true end.
Definition doc_first_present (d : doc) : bool :=
  forallb (fun b => match b with BPara f its => field_first_present f && forallb item_first_present its | _ => true end) d.

Lemma lossy_value_field_value f : field_first_present f = true -> lossy_value f = field_value f.
Proof.
  unfold field_first_present, lossy_value, field_value. destruct (f_first f) as [|c l] eqn:Ef; destruct (f_cont f) as [|x cs] eqn:Ec; try discriminate; intros _.
  - reflexivity.
  - cbn. rewrite app_nil_r. reflexivity.
  - cbn [app map]. rewrite (join_cons2 [LF] (c :: l) (snd x :: map snd cs)) by discriminate. reflexivity.
Qed.

Lemma lossy_content_content d : doc_first_present d = true -> lossy_content d = content d.
Proof.
  unfold lossy_content, content. induction d as [|b r IH]; [reflexivity|]. cbn [doc_first_present forallb flat_map]. intros H.
  apply andb_true_iff in H. destruct H as [Hb Hr]. rewrite (IH Hr). f_equal. destruct b as [| |f its]; try reflexivity.
  apply andb_true_iff in Hb. destruct Hb as [Hf Hits]. cbn [lossy_block_content block_content]. f_equal.
  unfold lossy_pair, field_pair. rewrite (lossy_value_field_value _ Hf). f_equal.
  induction its as [|it its IHi]; [reflexivity|]. cbn [forallb] in Hits. apply andb_true_iff in Hits. destruct Hits as [H1 H2].
  cbn [flat_map]. rewrite (IHi H2). f_equal. destruct it as [g|]; [|reflexivity]. cbn [lossy_item_pairs item_pairs].
  unfold lossy_pair, field_pair. cbn in H1. rewrite (lossy_value_field_value _ H1). reflexivity.
Qed.

(* what the lossy reader reports for a well-formed document is canonical *)
Lemma wf_field_canon f more : wf_field f more = true -> canon_field (lossy_pair f) = true.
Proof.
  unfold wf_field. intros H. apply andb_true_iff in H. destruct H as [H _]. apply andb_true_iff in H. destruct H as [H Hcont].
  apply andb_true_iff in H. destruct H as [H Hfirst]. apply andb_true_iff in H. destruct H as [Hname _].
  unfold canon_field, lossy_pair. cbn [fst snd]. rewrite Hname. cbn [andb].
  assert (Hconts : forallb canon_cont (map snd (f_cont f)) = true).
  { rewrite forallb_map'. apply forallb_forall. intros [i t] Hin. rewrite forallb_forall in Hcont. specialize (Hcont _ Hin).
    cbn [cont_ok] in Hcont. cbn [snd]. apply andb_true_iff in Hcont. destruct Hcont as [Hc1 Hc3]. apply andb_true_iff in Hc1. destruct Hc1 as [_ Hc2].
    unfold canon_cont. rewrite Hc2. exact Hc3. }
  assert (Hfirst' : canon_first (f_first f) = true) by exact Hfirst.
  assert (Hn1 : no_lf (f_first f) = true) by (apply no_eol_no_lf; unfold first_ok in Hfirst; apply andb_true_iff in Hfirst; apply Hfirst).
  unfold canon_value, lossy_value. destruct (f_cont f) as [|x cs] eqn:Ec.
  - rewrite app_nil_r, (split_lf_nolf _ Hn1), Hfirst'. reflexivity.
  - rewrite <- Ec in *. change (f_first f ++ LF :: join [LF] (map snd (f_cont f))) with (f_first f ++ [LF] ++ join [LF] (map snd (f_cont f))).
    rewrite <- join_cons2 by (rewrite Ec; discriminate). rewrite split_lf_join_nolf; [rewrite Hfirst', Hconts; reflexivity|discriminate|].
    cbn [forallb]. rewrite Hn1. cbn [andb]. apply forallb_forall. intros l Hl. apply no_eol_no_lf.
    apply canon_cont_no_eol in Hconts. rewrite forallb_forall in Hconts. apply Hconts. exact Hl.
Qed.

Lemma wf_items_canon its more : wf_items its more = true -> forallb canon_field (flat_map lossy_item_pairs its) = true.
Proof.
  induction its as [|it r IH]; [reflexivity|]. cbn [wf_items]. intros H. apply andb_true_iff in H. destruct H as [H1 H2].
  cbn [flat_map]. rewrite forallb_app, (IH H2), andb_true_r. destruct it as [f|c nl]; [|reflexivity].
  cbn [lossy_item_pairs forallb]. rewrite (wf_field_canon _ _ H1). reflexivity.
Qed.

Theorem wf_lossy_content_canon d : wf_doc d = true -> canon_doc (lossy_content d) = true.
Proof.
  unfold lossy_content, canon_doc. induction d as [|b r IH]; [reflexivity|]. cbn [wf_doc]. intros H. apply andb_true_iff in H. destruct H as [Hb Hr].
  cbn [flat_map]. rewrite forallb_app, (IH Hr), andb_true_r. destruct b as [| |f its]; try reflexivity.
  apply andb_true_iff in Hb. destruct Hb as [Hb _]. apply andb_true_iff in Hb. destruct Hb as [Hf Hits].
  cbn [lossy_block_content forallb]. rewrite andb_true_r. unfold canon_para. cbn [forallb].
  rewrite (wf_field_canon _ _ Hf), (wf_items_canon _ _ Hits). reflexivity.
Qed.

(* ================================================================== the shape of the stability statements *)
Definition stable {V : Type} (parse : str -> tres V) (print : V -> option str) (v : V) : Prop :=
  exists t v', print v = Some t /\ parse t = TOk v' /\ v' = v /\ print v' = print v.
Lemma stable_intro {V} (parse : str -> tres V) (print : V -> option str) v :
  (exists t, print v = Some t /\ parse t = TOk v) -> stable parse print v.
Proof. intros (t & H1 & H2). exists t, v. auto. Qed.

(* the empty table (every external parser fails) satisfies the assumed law vacuously *)
Lemma empty_table_stable : forall ll ids, ext_stable str table_print (table_parse []) ll ids.
Proof. intros ll ids i x e _ _ _ H. discriminate. Qed.
