(* Soundness of the liberal layouts at token level:
   ashape allow g  ->  parse_tokens allow (atoks g) = Ok (atree_of g, 0).
   Same method as RelGrammarParseP.v (symbolic evaluation on explicit states); white space slots
   are token lists here. *)
From V.model Require Import Base RelLex RelParse RelAcc RelGrammar RelGrammarAll.
From V.proofs Require Import BaseP RelLexP RelParseP RelGrammarLexP RelGrammarParseP RelLexInvP.

Transparent bump skip_ws error expect in_node out_of_fuel version_text version_run cur_is_vtok.

(* ---- white space token lists ---- *)
Lemma wsk_Forall w : wsk w = true -> Forall (fun t => is_ws_kind (fst t) = true) w.
Proof. unfold wsk. intros H. apply Forall_forall. intros t Ht. rewrite forallb_forall in H. apply H, Ht. Qed.

Lemma skip_w w rest out n fl : wsk w = true -> nowsk rest ->
  skip_ws (mk_pst (w ++ rest) out n fl) = mk_pst rest (out ++ elems w) n fl.
Proof. intros Hw H. unfold skip_ws. cbn [toks]. rewrite (skip_ws_l_all _ rest (wsk_Forall w Hw) H). reflexivity. Qed.

Lemma skip_w_end w out n fl : wsk w = true -> skip_ws (mk_pst w out n fl) = mk_pst [] (out ++ elems w) n fl.
Proof. intros Hw. pose proof (skip_w w [] out n fl Hw I) as E. rewrite app_nil_r in E. exact E. Qed.

Lemma peek_w w rest : wsk w = true -> peek_past_ws_l (w ++ rest) = peek_past_ws_l rest.
Proof. intros Hw. apply peek_all, wsk_Forall, Hw. Qed.

Lemma hd_w_app w x : hd_kind (w ++ x) = match hd_kind w with Some k => Some k | None => hd_kind x end.
Proof. destruct w as [|[k s] t]; reflexivity. Qed.

Lemma hd_w_kind w k : wsk w = true -> hd_kind w = Some k -> is_ws_kind k = true.
Proof. destruct w as [|[k' s] t]; [discriminate|]. cbn. intros H E. injection E as <-. apply andb_true_iff in H. apply H. Qed.

Lemma cur_is_w_false w x out n fl k : wsk w = true ->
  is_ws_kind k = false -> cur_is (mk_pst x out n fl) k = false -> cur_is (mk_pst (w ++ x) out n fl) k = false.
Proof.
  intros Hw Hk Hx. rewrite cur_is_eq in *. rewrite hd_w_app.
  destruct (hd_kind w) as [k'|] eqn:E; [|exact Hx].
  apply (hd_w_kind w k' Hw) in E. destruct k'; try discriminate; destruct k; try discriminate; reflexivity.
Qed.

Lemma cur_is_vtok_w_false w x out n fl : wsk w = true ->
  cur_is_vtok (mk_pst x out n fl) = false -> cur_is_vtok (mk_pst (w ++ x) out n fl) = false.
Proof.
  intros Hw Hx. unfold cur_is_vtok in *. apply orb_false_iff in Hx. destruct Hx as [H1 H2].
  rewrite !cur_is_w_false by (assumption || reflexivity). reflexivity.
Qed.

(* ---- ( op version ) ---- *)
Lemma op_tok_kind c : fst (op_tok c) = L_ANGLE \/ fst (op_tok c) = R_ANGLE \/ fst (op_tok c) = EQUAL.
Proof. unfold op_tok. destruct (c =? 60)%N; [tauto|]. destruct (c =? 62)%N; tauto. Qed.

Lemma bump_constraint_ops op : forall Y,
  match hd_kind Y with Some L_ANGLE | Some R_ANGLE | Some EQUAL => False | _ => True end ->
  bump_constraint (map op_tok op ++ Y) = (elems (map op_tok op), Y).
Proof.
  induction op as [|c r IH]; intros Y HY.
  - cbn [map app elems]. destruct Y as [|[k s] t]; [reflexivity|]. cbn [hd_kind] in HY. cbn [bump_constraint].
    destruct k; try contradiction; reflexivity.
  - cbn [map app]. destruct (op_tok c) as [k s] eqn:E. pose proof (op_tok_kind c) as Hk. rewrite E in Hk. cbn [fst] in Hk.
    cbn [bump_constraint]. rewrite (IH Y HY).
    destruct Hk as [->|[->| ->]]; reflexivity.
Qed.

Lemma vpiece_kinds l : Forall (fun t => fst t = IDENT \/ fst t = COLON) (map vpiece_tok l).
Proof. induction l as [|p r IH]; [constructor|]. cbn [map]. constructor; [destruct p; cbn; tauto|exact IH]. Qed.

Lemma version_run_gen l : forall fuel Y out n fl,
  Forall (fun t => fst t = IDENT \/ fst t = COLON) l -> length l <= fuel ->
  cur_is_vtok (mk_pst Y out n fl) = false ->
  version_run fuel (mk_pst (l ++ Y) out n fl) = mk_pst Y (out ++ elems l) n fl.
Proof.
  induction l as [|[k s] t IH]; intros fuel Y out n fl Hl Hf HY.
  - cbn [app elems map]. rewrite app_nil_r. unfold cur_is_vtok in HY. rewrite !cur_is_eq in HY.
    destruct fuel; cbn [version_run]; unfold cur_is_vtok; rewrite !cur_is_eq; rewrite HY; reflexivity.
  - inversion Hl as [|? ? Hk Ht]; subst. cbn [fst] in Hk.
    destruct fuel as [|f]; [cbn in Hf; lia|]. cbn [app version_run]. rewrite cur_is_vtok_eq. cbn [hd_kind].
    assert (HY' : forall o, cur_is_vtok (mk_pst Y o n fl) = false) by (intros o; exact HY).
    destruct Hk as [-> | ->]; rewrite bump_cons, IH by (assumption || (cbn in Hf; lia) || apply HY');
      change (elems ((?k, s) :: t)) with (Tok k s :: elems t); rewrite <- app_assoc; reflexivity.
Qed.

Lemma hd_vpieces p ps x : exists k s r, (k = IDENT \/ k = COLON) /\ map vpiece_tok (p :: ps) ++ x = (k, s) :: r.
Proof. destruct p; cbn [map app vpiece_tok]; do 3 eexists; (split; [|reflexivity]); tauto. Qed.

Lemma nowsk_ops c cs x : nowsk (map op_tok (c :: cs) ++ x).
Proof. cbn [map app]. unfold nowsk. cbn [hd_kind]. destruct (op_tok_kind c) as [H|[H|H]]; destruct (op_tok c); cbn in *; subst; reflexivity. Qed.

Lemma aver_ok_inv v : aver_ok v = true ->
  wsk (av_ws0 v) = true /\ wsk (av_ws1 v) = true /\ wsk (av_ws2 v) = true /\ wsk (av_ws3 v) = true /\
  av_ver v <> [] /\ (av_op v = [] -> av_ws2 v = []).
Proof.
  unfold aver_ok. intros H. repeat (apply andb_true_iff in H; let H' := fresh "V" in destruct H as [H H']).
  repeat split; try assumption.
  - destruct (av_ver v); [discriminate|discriminate].
  - intros E. rewrite E in V. cbn in V. destruct (av_ws2 v); [reflexivity|discriminate].
Qed.

Lemma aver_hit w0 v rest out n fl : wsk w0 = true -> aver_ok v = true ->
  rel_version (mk_pst (w0 ++ aver_body_toks v ++ rest) out n fl) = mk_pst rest (out ++ elems w0 ++ [aver_node v]) n fl.
Proof.
  intros Hw0 Hv. destruct (aver_ok_inv v Hv) as (V0 & V1 & V2 & V3 & Hne & Hop). clear Hv.
  unfold rel_version, peek_is, peek_past_ws. cbn [toks]. rewrite (peek_w _ _ Hw0).
  unfold aver_body_toks at 1. cbn [app peek_past_ws_l is_ws_kind rkind_eqb rkind_code N.eqb Pos.eqb]. cbv zeta.
  rewrite skip_w by (assumption || reflexivity).
  rewrite app_assoc. apply in_node_to.
  unfold aver_body_toks, aver_node. cbn [app]. rewrite bump_cons. rewrite <- !app_assoc.
  destruct (av_ver v) as [|p ps] eqn:Ever; [congruence|].
  destruct (hd_vpieces p ps (av_ws3 v ++ [(R_PARENS, [41%N])] ++ rest)) as (k & s & r & Hk & E).
  set (VT := map vpiece_tok (p :: ps)) in *.
  assert (Hver : nowsk (VT ++ av_ws3 v ++ [(R_PARENS, [41%N])] ++ rest)) by (rewrite E; destruct Hk as [-> | ->]; reflexivity).
  assert (Hcons : match hd_kind (av_ws2 v ++ VT ++ av_ws3 v ++ [(R_PARENS, [41%N])] ++ rest) with
                  | Some L_ANGLE | Some R_ANGLE | Some EQUAL => False | _ => True end).
  { rewrite hd_w_app. destruct (hd_kind (av_ws2 v)) as [k'|] eqn:Eh.
    - apply (hd_w_kind _ _ V2) in Eh. destruct k'; try discriminate; exact I.
    - rewrite E. cbn. destruct Hk as [-> | ->]; exact I. }
  assert (Hrun : forall o, version_text (mk_pst (VT ++ av_ws3 v ++ [(R_PARENS, [41%N])] ++ rest) o n fl) =
                 mk_pst (av_ws3 v ++ [(R_PARENS, [41%N])] ++ rest) (o ++ elems VT) n fl).
  { intros o. unfold version_text. rewrite cur_is_vtok_eq. rewrite E. cbn [hd_kind].
    replace (match k with IDENT | COLON => true | _ => false end) with true by (destruct Hk as [-> | ->]; reflexivity).
    rewrite <- E. apply version_run_gen; [apply vpiece_kinds|unfold loop_fuel; cbn [toks]; rewrite app_length; lia|].
    apply cur_is_vtok_w_false; [exact V3|reflexivity]. }
  assert (Hend : forall o, expect R_PARENS (skip_ws (mk_pst (av_ws3 v ++ [(R_PARENS, [41%N])] ++ rest) o n fl)) =
                 mk_pst rest (o ++ elems (av_ws3 v) ++ [Tok R_PARENS [41%N]]) n fl).
  { intros o. rewrite skip_w by (assumption || reflexivity). cbn [app]. unfold expect. rewrite cur_is_eq.
    cbn [hd_kind rkind_eqb rkind_code N.eqb Pos.eqb]. rewrite bump_cons, <- app_assoc. reflexivity. }
  destruct (av_op v) as [|c cs] eqn:Eop.
  - rewrite (Hop eq_refl) in *. cbn [map app] in *.
    rewrite skip_w by (assumption || exact Hver).
    unfold constraint_node. erewrite in_node_to.
    2:{ cbn [toks RelParse.out nerr flag]. pose proof (bump_constraint_ops [] _ Hcons) as B. cbn [map app elems] in B. rewrite B. reflexivity. }
    rewrite skip_ws_none by exact Hver. rewrite Hrun, Hend. cbn [elems map app]. rewrite <- !app_assoc. reflexivity.
  - rewrite skip_w by (assumption || apply nowsk_ops).
    unfold constraint_node. erewrite in_node_to.
    2:{ cbn [toks RelParse.out nerr flag]. rewrite (bump_constraint_ops (c :: cs) _ Hcons). cbn [app]. reflexivity. }
    rewrite skip_w by (assumption || exact Hver). rewrite Hrun, Hend. rewrite <- !app_assoc. reflexivity.
Qed.

(* ---- [ ... ] ---- *)
Lemma nowsk_atom a x : nowsk (atom_tok a :: x).
Proof. destruct a; reflexivity. Qed.

Lemma arch_loop_atoms atoms : forall fuel w1 x rest out n fl,
  forallb (fun wa => wsk (fst wa)) atoms = true -> wsk w1 = true ->
  length (flat_map watom_toks atoms) < fuel ->
  arch_loop fuel (mk_pst (flat_map watom_toks atoms ++ w1 ++ (R_BRACKET, x) :: rest) out n fl) =
  mk_pst rest (out ++ elems (flat_map watom_toks atoms) ++ elems w1 ++ [Tok R_BRACKET x]) n fl.
Proof.
  induction atoms as [|[w a] r IH]; intros fuel w1 x rest out n fl Ha Hw1 Hf.
  - destruct fuel as [|f]; [cbn in Hf; lia|]. cbn [flat_map app arch_loop elems map]. cbv zeta.
    rewrite skip_w by (assumption || reflexivity). rewrite current_eq. cbn [hd_kind]. rewrite bump_cons.
    rewrite <- app_assoc. reflexivity.
  - cbn [forallb fst] in Ha. apply andb_true_iff in Ha. destruct Ha as [Hw Hr].
    cbn [flat_map] in Hf |- *. unfold watom_toks at 1 in Hf. unfold watom_toks at 1. cbn [fst snd] in Hf |- *.
    rewrite !app_length in Hf. cbn [length] in Hf.
    rewrite <- !app_assoc. destruct fuel as [|f]; [lia|]. cbn [arch_loop]. cbv zeta. cbn [app].
    rewrite skip_w by (assumption || apply nowsk_atom).
    rewrite current_eq. cbn [hd_kind].
    assert (E : arch_loop f (bump (mk_pst (atom_tok a :: flat_map watom_toks r ++ w1 ++ (R_BRACKET, x) :: rest) (out ++ elems w) n fl)) =
                mk_pst rest (out ++ elems ((w ++ [atom_tok a]) ++ flat_map watom_toks r) ++ elems w1 ++ [Tok R_BRACKET x]) n fl).
    { destruct (atom_tok a) as [k s] eqn:Ea. rewrite bump_cons. rewrite IH by (assumption || lia).
      rewrite !elems_app. cbn [elems map tk fst snd]. rewrite <- !app_assoc. reflexivity. }
    destruct a; cbn [atom_tok fst] in *; exact E.
Qed.

Lemma agroup_hit w0 g rest out n fl : wsk w0 = true ->
  forallb (fun wa => wsk (fst wa)) (ag_atoms g) = true -> wsk (ag_ws1 g) = true ->
  rel_archs (mk_pst (w0 ++ agroup_body_toks g ++ rest) out n fl) = mk_pst rest (out ++ elems w0 ++ [agroup_node g]) n fl.
Proof.
  intros Hw0 Ha Hw1. unfold rel_archs, peek_is, peek_past_ws. cbn [toks]. rewrite (peek_w _ _ Hw0).
  unfold agroup_body_toks at 1. cbn [app peek_past_ws_l is_ws_kind rkind_eqb rkind_code N.eqb Pos.eqb]. cbv zeta.
  rewrite skip_w by (assumption || reflexivity).
  rewrite app_assoc. apply in_node_to.
  unfold agroup_body_toks. cbn [app]. rewrite bump_cons. rewrite <- !app_assoc. cbn [app].
  rewrite arch_loop_atoms; try assumption.
  - cbn [elems map fst snd tk app]. rewrite !elems_app. cbn [elems map fst snd tk app]. reflexivity.
  - unfold loop_fuel. cbn [toks]. rewrite app_length. lia.
Qed.

(* ---- < ... > ---- *)
Lemma nowsk_pterm p x : nowsk (pterm_toks p ++ x).
Proof. destruct p; reflexivity. Qed.

Lemma profile_loop_terms terms : forall fuel w1 x rest out n fl,
  forallb (fun wp => wsk (fst wp) && pterm_ok (snd wp)) terms = true -> wsk w1 = true ->
  length (flat_map wpterm_toks terms) < fuel ->
  profile_loop fuel (mk_pst (flat_map wpterm_toks terms ++ w1 ++ (R_ANGLE, x) :: rest) out n fl) =
  mk_pst rest (out ++ elems (flat_map wpterm_toks terms) ++ elems w1 ++ [Tok R_ANGLE x]) n fl.
Proof.
  induction terms as [|[w p] r IH]; intros fuel w1 x rest out n fl Ht Hw1 Hf.
  - destruct fuel as [|f]; [cbn in Hf; lia|]. cbn [flat_map app profile_loop elems map]. cbv zeta.
    rewrite skip_w by (assumption || reflexivity). rewrite current_eq. cbn [hd_kind]. rewrite bump_cons.
    rewrite <- app_assoc. reflexivity.
  - cbn [forallb fst snd] in Ht. apply andb_true_iff in Ht. destruct Ht as [Hwp Hr]. apply andb_true_iff in Hwp. destruct Hwp as [Hw Hp].
    change (flat_map wpterm_toks ((w, p) :: r)) with ((w ++ pterm_toks p) ++ flat_map wpterm_toks r) in Hf |- *.
    rewrite !app_length in Hf.
    rewrite <- !app_assoc. destruct fuel as [|f]; [lia|]. cbn [profile_loop]. cbv zeta.
    rewrite skip_w by (assumption || apply nowsk_pterm).
    destruct p as [s|wn s]; cbn [pterm_toks app length pterm_ok] in *.
    + rewrite current_eq. cbn [hd_kind]. rewrite bump_cons. rewrite IH by (assumption || lia).
      rewrite !elems_app. cbn [elems map tk fst snd]. rewrite <- !app_assoc. reflexivity.
    + rewrite current_eq. cbn [hd_kind]. rewrite bump_cons. rewrite <- !app_assoc. cbn [app].
      rewrite skip_w by (assumption || reflexivity). unfold expect. rewrite cur_is_eq. cbn [hd_kind rkind_eqb rkind_code N.eqb].
      rewrite bump_cons. rewrite IH by (assumption || (rewrite app_length in Hf; cbn [length] in Hf; lia)).
      unfold elems. rewrite ?map_app. cbn [map tk fst snd app]. rewrite ?map_app. cbn [map tk fst snd app].
      repeat (rewrite <- app_assoc; cbn [app]). reflexivity.
Qed.

Lemma profiles_while_pgroups ps : forall fuel rest out n fl,
  length ps < fuel -> forallb pgroup_ok ps = true -> peek_past_ws_l rest <> Some L_ANGLE ->
  profiles_while fuel (mk_pst (flat_map pgroup_toks ps ++ rest) out n fl) =
  mk_pst rest (out ++ flat_map pgroup_elems ps) n fl.
Proof.
  induction ps as [|g r IH]; intros fuel rest out n fl Hf Hok Hp.
  - cbn [flat_map app]. rewrite app_nil_r.
    destruct fuel; cbn [profiles_while]; unfold peek_is, peek_past_ws; cbn [toks];
      (destruct (peek_past_ws_l rest) as [k|]; [|reflexivity]; destruct k; try reflexivity; congruence).
  - cbn [forallb] in Hok. apply andb_true_iff in Hok. destruct Hok as [Hg Hr]. unfold pgroup_ok in Hg. andb_split Hg.
    destruct fuel as [|f]; [cbn in Hf; lia|]. cbn [flat_map].
    unfold pgroup_toks at 1. rewrite <- !app_assoc. cbn [profiles_while].
    unfold peek_is, peek_past_ws. cbn [toks]. rewrite (peek_w _ _ Hg).
    unfold pgroup_body_toks at 1.
    cbn [app peek_past_ws_l is_ws_kind rkind_eqb rkind_code N.eqb Pos.eqb]. cbv zeta.
    rewrite skip_w by (assumption || reflexivity).
    erewrite in_node_to.
    2:{ unfold pgroup_body_toks. cbn [app]. rewrite bump_cons. rewrite <- !app_assoc. cbn [app].
        rewrite profile_loop_terms; [reflexivity|assumption|assumption|]. unfold loop_fuel. cbn [toks]. rewrite app_length. lia. }
    rewrite IH by (cbn in Hf; lia || assumption).
    unfold pgroup_elems at 2, pgroup_node, pgroup_body_toks. cbn [elems map fst snd tk app].
    rewrite !elems_app. cbn [elems map fst snd tk app]. rewrite <- !app_assoc. reflexivity.
Qed.

(* ---- the part of a relation after its name ---- *)
Definition aslot (c : bool) (w T : list rtoken) (out : list rtree) (n : nat) (fl : N) : pst :=
  if c then mk_pst T (out ++ elems w) n fl else mk_pst (w ++ T) out n fl.

Lemma aver_hit_c c w0 v rest out n fl : wsk w0 = true -> aver_ok v = true ->
  rel_version (aslot c w0 (aver_body_toks v ++ rest) out n fl) = mk_pst rest (out ++ elems w0 ++ [aver_node v]) n fl.
Proof.
  intros Hw Hv. destruct c; cbn [aslot]; [|apply aver_hit; assumption].
  change (aver_body_toks v ++ rest) with ([] ++ aver_body_toks v ++ rest). rewrite aver_hit by (reflexivity || assumption).
  cbn [elems map app]. rewrite <- app_assoc. reflexivity.
Qed.

Lemma agroup_hit_c c w0 g rest out n fl : wsk w0 = true ->
  forallb (fun wa => wsk (fst wa)) (ag_atoms g) = true -> wsk (ag_ws1 g) = true ->
  rel_archs (aslot c w0 (agroup_body_toks g ++ rest) out n fl) = mk_pst rest (out ++ elems w0 ++ [agroup_node g]) n fl.
Proof.
  intros Hw Ha H1. destruct c; cbn [aslot]; [|apply agroup_hit; assumption].
  change (agroup_body_toks g ++ rest) with ([] ++ agroup_body_toks g ++ rest). rewrite agroup_hit by (reflexivity || assumption).
  cbn [elems map app]. rewrite <- app_assoc. reflexivity.
Qed.

Lemma pgroups_hit_c c w0 g ps fuel rest out n fl : wsk w0 = true ->
  forallb (fun wp => wsk (fst wp) && pterm_ok (snd wp)) (pg_terms g) = true -> wsk (pg_ws1 g) = true ->
  forallb pgroup_ok ps = true ->
  S (length ps) < fuel -> peek_past_ws_l rest <> Some L_ANGLE ->
  profiles_while fuel (aslot c w0 (pgroup_body_toks g ++ flat_map pgroup_toks ps ++ rest) out n fl) =
  mk_pst rest (out ++ elems w0 ++ [pgroup_node g] ++ flat_map pgroup_elems ps) n fl.
Proof.
  intros Hw Ht H1 Hps Hf Hp. destruct c; cbn [aslot].
  - pose proof (profiles_while_pgroups (mk_pgroup [] (pg_terms g) (pg_ws1 g) :: ps) fuel rest (out ++ elems w0) n fl) as H.
    cbn [flat_map] in H. unfold pgroup_toks at 1, pgroup_elems at 1 in H. cbn [pg_ws0 elems map app] in H.
    rewrite <- !app_assoc in H. cbn [app] in H.
    apply H; [cbn; lia| |exact Hp]. cbn [forallb]. unfold pgroup_ok at 1. cbn [pg_ws0 pg_terms pg_ws1]. rewrite Ht, H1. exact Hps.
  - pose proof (profiles_while_pgroups (mk_pgroup w0 (pg_terms g) (pg_ws1 g) :: ps) fuel rest out n fl) as H.
    cbn [flat_map] in H. unfold pgroup_toks at 1, pgroup_elems at 1 in H. cbn [pg_ws0] in H.
    rewrite <- !app_assoc in H. cbn [app] in H.
    apply H; [cbn; lia| |exact Hp]. cbn [forallb]. unfold pgroup_ok at 1. cbn [pg_ws0 pg_terms pg_ws1]. rewrite Hw, Ht, H1. exact Hps.
Qed.

Lemma peek_aslot c w T out n fl : wsk w = true -> nowsk T -> peek_past_ws (aslot c w T out n fl) = hd_kind T.
Proof.
  intros Hw H. unfold peek_past_ws. destruct c; cbn [aslot toks]; [|rewrite (peek_w _ _ Hw)]; apply peek_nowsk, H.
Qed.

Lemma aver_miss_c c w T out n fl : wsk w = true -> nowsk T -> hd_kind T <> Some L_PARENS ->
  rel_version (aslot c w T out n fl) = aslot c w T out n fl.
Proof.
  intros Hw Hn Hh. pose proof (peek_aslot c w T out n fl Hw Hn) as P. unfold peek_past_ws in P.
  destruct c; cbn [aslot toks] in *; apply rel_version_miss; rewrite P; exact Hh.
Qed.
Lemma agroup_miss_c c w T out n fl : wsk w = true -> nowsk T -> hd_kind T <> Some L_BRACKET ->
  rel_archs (aslot c w T out n fl) = aslot c w T out n fl.
Proof.
  intros Hw Hn Hh. pose proof (peek_aslot c w T out n fl Hw Hn) as P. unfold peek_past_ws in P.
  destruct c; cbn [aslot toks] in *; apply rel_archs_miss; rewrite P; exact Hh.
Qed.
Lemma pgroups_miss_c c w T fuel out n fl : wsk w = true -> nowsk T -> hd_kind T <> Some L_ANGLE ->
  profiles_while fuel (aslot c w T out n fl) = aslot c w T out n fl.
Proof.
  intros Hw Hn Hh. pose proof (peek_aslot c w T out n fl Hw Hn) as P.
  destruct fuel; cbn [profiles_while]; unfold peek_is; rewrite P;
    (destruct (hd_kind T) as [k|]; [|reflexivity]; destruct k; try reflexivity; congruence).
Qed.

Lemma a_after_name_qual q w T out n fl : aqual_ok q = true -> wsk w = true -> nowsk T ->
  rel_after_name (mk_pst (aqual_toks q ++ w ++ T) out n fl) = aslot true w T (out ++ aqual_elems q) n fl.
Proof.
  intros Hq Hw Hn. unfold aqual_ok in Hq. apply andb_true_iff in Hq. destruct Hq as [Hq0 Hq1].
  unfold rel_after_name, peek_past_ws, aqual_toks. cbn [toks]. rewrite <- !app_assoc. rewrite (peek_w _ _ Hq0).
  cbn [app peek_past_ws_l is_ws_kind t_colon]. cbv zeta.
  rewrite skip_w by (assumption || reflexivity).
  erewrite in_node_to.
  2:{ unfold t_colon. rewrite bump_cons. rewrite <- !app_assoc. rewrite skip_w by (assumption || reflexivity). cbn [app]. rewrite expect_hit. reflexivity. }
  rewrite skip_w by assumption. cbn [aslot]. unfold aqual_elems, aqual_node. cbn [app].
  rewrite <- !app_assoc. reflexivity.
Qed.

Lemma a_after_name_open w T out n fl : wsk w = true -> nowsk T ->
  match hd_kind T with None | Some L_PARENS | Some L_BRACKET | Some L_ANGLE => True | _ => False end ->
  rel_after_name (mk_pst (w ++ T) out n fl) = aslot true w T out n fl.
Proof.
  intros Hw Hn Hh. unfold rel_after_name, peek_past_ws. cbn [toks]. rewrite (peek_w _ _ Hw), (peek_nowsk T Hn).
  destruct (hd_kind T) as [k|]; [destruct k; try contradiction|]; rewrite skip_w by assumption; reflexivity.
Qed.

Lemma a_after_name_sep w T out n fl : wsk w = true -> nowsk T ->
  match hd_kind T with Some PIPE | Some COMMA => True | _ => False end ->
  rel_after_name (mk_pst (w ++ T) out n fl) = aslot false w T out n fl.
Proof.
  intros Hw Hn Hh. unfold rel_after_name, peek_past_ws. cbn [toks]. rewrite (peek_w _ _ Hw), (peek_nowsk T Hn).
  destruct (hd_kind T) as [k|]; [destruct k; try contradiction|contradiction]; reflexivity.
Qed.

(* ---- a whole relation ---- *)
Lemma len_pgroups ps : length ps <= length (flat_map pgroup_toks ps).
Proof.
  induction ps as [|g r IH]; cbn [flat_map length]; [lia|]. rewrite app_length.
  assert (1 <= length (pgroup_toks g))
    by (unfold pgroup_toks, pgroup_body_toks; rewrite app_length; cbn [length]; lia).
  lia.
Qed.
Lemma len_pgroup_body g : 2 <= length (pgroup_body_toks g).
Proof. unfold pgroup_body_toks. cbn [length]. rewrite !app_length. cbn [length]. lia. Qed.

Lemma peek_pgroups_tail ps trail rest k : forallb pgroup_ok ps = true -> wsk trail = true ->
  sep_toks rest -> k <> PIPE -> k <> COMMA -> k <> L_ANGLE ->
  peek_past_ws_l (flat_map pgroup_toks ps ++ trail ++ rest) <> Some k.
Proof.
  intros Hps Ht Hs H1 H2 H3. destruct ps as [|g r]; cbn [flat_map app].
  - rewrite (peek_w _ _ Ht), (peek_nowsk rest (sep_nowsk _ Hs)). apply sep_hd; assumption.
  - cbn [forallb] in Hps. apply andb_true_iff in Hps. destruct Hps as [Hg _]. unfold pgroup_ok in Hg. andb_split Hg.
    unfold pgroup_toks at 1. rewrite <- !app_assoc. rewrite (peek_w _ _ Hg). cbn. congruence.
Qed.

Lemma a_archs_profiles a ps trail rest out n fl : opt_ok agroup_ok a = true -> forallb pgroup_ok ps = true ->
  wsk trail = true -> sep_toks rest ->
  profiles_while
    (loop_fuel (rel_archs (mk_pst (opt_toks agroup_toks a ++ flat_map pgroup_toks ps ++ trail ++ rest) out n fl)))
    (rel_archs (mk_pst (opt_toks agroup_toks a ++ flat_map pgroup_toks ps ++ trail ++ rest) out n fl)) =
  mk_pst (trail ++ rest) (out ++ opt_elems agroup_elems a ++ flat_map pgroup_elems ps) n fl.
Proof.
  intros Ha Hps Ht Hs.
  assert (Hp : peek_past_ws_l (trail ++ rest) <> Some L_ANGLE).
  { rewrite (peek_w _ _ Ht), (peek_nowsk rest (sep_nowsk _ Hs)). apply sep_hd; [exact Hs|discriminate|discriminate]. }
  destruct a as [g|]; cbn [opt_toks opt_elems app opt_ok] in *.
  - unfold agroup_ok in Ha. andb_split Ha. unfold agroup_toks. rewrite <- !app_assoc. rewrite agroup_hit by assumption.
    rewrite profiles_while_pgroups; [|unfold loop_fuel; cbn [toks]; rewrite app_length; pose proof (len_pgroups ps); lia|assumption|exact Hp].
    unfold agroup_elems. rewrite <- !app_assoc. reflexivity.
  - rewrite rel_archs_miss by (apply peek_pgroups_tail; [assumption|assumption|exact Hs|discriminate..]).
    rewrite profiles_while_pgroups; [reflexivity|unfold loop_fuel; cbn [toks]; rewrite app_length; pose proof (len_pgroups ps); lia|assumption|exact Hp].
Qed.

Lemma len_aslot c w T out n fl : length T <= length (toks (aslot c w T out n fl)).
Proof. destruct c; cbn [aslot toks]; [lia|rewrite app_length; lia]. Qed.

Definition atail_slot (v : option aver) (a : option agroup) (ps : list pgroup) (trail : list rtoken) : list rtoken :=
  match v, a, ps with
  | Some v, _, _ => av_ws0 v
  | None, Some g, _ => ag_ws0 g
  | None, None, g :: _ => pg_ws0 g
  | None, None, [] => trail
  end.
Definition atail_after (v : option aver) (a : option agroup) (ps : list pgroup) (trail rest : list rtoken) : list rtoken :=
  match v, a, ps with
  | Some v, _, _ => aver_body_toks v ++ opt_toks agroup_toks a ++ flat_map pgroup_toks ps ++ trail ++ rest
  | None, Some g, _ => agroup_body_toks g ++ flat_map pgroup_toks ps ++ trail ++ rest
  | None, None, g :: ps' => pgroup_body_toks g ++ flat_map pgroup_toks ps' ++ trail ++ rest
  | None, None, [] => rest
  end.
Definition a_no_comps (v : option aver) (a : option agroup) (ps : list pgroup) : bool :=
  match v, a, ps with None, None, [] => true | _, _, _ => false end.

Lemma atail_split v a ps trail rest :
  opt_toks aver_toks v ++ opt_toks agroup_toks a ++ flat_map pgroup_toks ps ++ trail ++ rest =
  atail_slot v a ps trail ++ atail_after v a ps trail rest.
Proof.
  destruct v as [v|]; [cbn [opt_toks atail_slot atail_after]; unfold aver_toks; rewrite <- !app_assoc; reflexivity|].
  destruct a as [g|]; [cbn [opt_toks atail_slot atail_after app]; unfold agroup_toks; rewrite <- !app_assoc; reflexivity|].
  destruct ps as [|g ps']; [reflexivity|].
  cbn [opt_toks atail_slot atail_after app flat_map]. unfold pgroup_toks at 1. rewrite <- !app_assoc. reflexivity.
Qed.

Lemma atail_after_nowsk v a ps trail rest : sep_toks rest -> nowsk (atail_after v a ps trail rest).
Proof.
  intros Hs. destruct v as [v|]; [reflexivity|]. destruct a as [g|]; [reflexivity|].
  destruct ps as [|g ps']; [apply sep_nowsk, Hs|reflexivity].
Qed.

Lemma atail_after_hd v a ps trail rest : a_no_comps v a ps = false ->
  match hd_kind (atail_after v a ps trail rest) with Some L_PARENS | Some L_BRACKET | Some L_ANGLE => True | _ => False end.
Proof.
  destruct v as [v|]; [intros _; exact I|]. destruct a as [g|]; [intros _; exact I|].
  destruct ps as [|g ps']; [discriminate|intros _; exact I].
Qed.

Lemma atail_slot_wsk v a ps trail : opt_ok aver_ok v = true -> opt_ok agroup_ok a = true -> forallb pgroup_ok ps = true ->
  wsk trail = true -> wsk (atail_slot v a ps trail) = true.
Proof.
  intros Hv Ha Hps Ht. destruct v as [v|]; cbn [atail_slot opt_ok] in *; [apply (aver_ok_inv v Hv)|].
  destruct a as [g|]; cbn [opt_ok] in *; [unfold agroup_ok in Ha; andb_split Ha; assumption|].
  destruct ps as [|g ps']; [exact Ht|]. cbn [forallb] in Hps. apply andb_true_iff in Hps. destruct Hps as [Hg _].
  unfold pgroup_ok in Hg. andb_split Hg. assumption.
Qed.

Lemma a_pipeline c v a ps trail rest out n fl :
  opt_ok aver_ok v = true -> opt_ok agroup_ok a = true -> forallb pgroup_ok ps = true -> wsk trail = true -> sep_toks rest ->
  rel_pipeline (aslot c (atail_slot v a ps trail) (atail_after v a ps trail rest) out n fl) =
  if a_no_comps v a ps then aslot c trail rest out n fl
  else mk_pst (trail ++ rest) (out ++ opt_elems aver_elems v ++ opt_elems agroup_elems a ++ flat_map pgroup_elems ps) n fl.
Proof.
  intros Hv Ha Hps Ht Hs. unfold rel_pipeline. cbv zeta.
  assert (Hp : peek_past_ws_l (trail ++ rest) <> Some L_ANGLE).
  { rewrite (peek_w _ _ Ht), (peek_nowsk rest (sep_nowsk _ Hs)). apply sep_hd; [exact Hs|discriminate|discriminate]. }
  destruct v as [v|]; cbn [atail_slot atail_after a_no_comps opt_elems opt_ok] in *.
  - rewrite aver_hit_c by (assumption || apply (aver_ok_inv v Hv)). rewrite (a_archs_profiles a ps trail rest _ n fl Ha Hps Ht Hs).
    unfold aver_elems. rewrite <- !app_assoc. reflexivity.
  - destruct a as [g|]; cbn [atail_slot atail_after a_no_comps opt_elems app opt_ok] in *.
    + unfold agroup_ok in Ha. andb_split Ha.
      rewrite aver_miss_c by (first [assumption|reflexivity|discriminate]).
      rewrite agroup_hit_c by assumption.
      rewrite profiles_while_pgroups; [|unfold loop_fuel; cbn [toks]; rewrite app_length; pose proof (len_pgroups ps); lia|assumption|exact Hp].
      unfold agroup_elems. rewrite <- !app_assoc. reflexivity.
    + destruct ps as [|g ps']; cbn [atail_slot atail_after a_no_comps flat_map].
      * pose proof (sep_nowsk _ Hs) as Hn.
        rewrite aver_miss_c by (first [assumption|apply sep_hd; [exact Hs|discriminate..]]).
        rewrite agroup_miss_c by (first [assumption|apply sep_hd; [exact Hs|discriminate..]]).
        rewrite pgroups_miss_c by (first [assumption|apply sep_hd; [exact Hs|discriminate..]]). reflexivity.
      * cbn [forallb] in Hps. apply andb_true_iff in Hps. destruct Hps as [Hg Hps']. unfold pgroup_ok in Hg. andb_split Hg.
        rewrite aver_miss_c by (first [assumption|reflexivity|discriminate]).
        rewrite agroup_miss_c by (first [assumption|reflexivity|discriminate]).
        rewrite pgroups_hit_c; try assumption.
        -- unfold pgroup_elems at 2. rewrite <- !app_assoc. reflexivity.
        -- unfold loop_fuel. pose proof (len_aslot c (pg_ws0 g) (pgroup_body_toks g ++ flat_map pgroup_toks ps' ++ trail ++ rest) out n fl) as L.
           rewrite !app_length in L. pose proof (len_pgroup_body g). pose proof (len_pgroups ps'). lia.
Qed.

Theorem parse_relation_arel r rest out n fl : arel_ok r = true -> sep_toks rest ->
  parse_relation (mk_pst (arel_toks r ++ rest) out n fl) =
  mk_pst (arel_left r (is_nil rest) ++ rest) (out ++ [arel_tree r (is_nil rest)]) n fl.
Proof.
  intros Hok Hs. destruct r as [name q v a ps trail]. unfold arel_ok in Hok. cbn [a_name a_qual a_ver a_archs a_profs a_trail] in Hok.
  andb_split Hok.
  unfold arel_toks, arel_core_toks, arel_left, arel_tree, a_owns_trail. cbn [a_name a_qual a_ver a_archs a_profs a_trail].
  rewrite parse_relation_pipeline. apply in_node_to.
  cbn [app]. rewrite expect_hit. rewrite <- !app_assoc. rewrite atail_split.
  pose proof (atail_after_nowsk v a ps trail rest Hs) as Hn.
  pose proof (atail_slot_wsk v a ps trail W2 W1 W0 W) as Hsl.
  destruct q as [q|]; cbn [opt_toks opt_elems app opt_ok] in *.
  - rewrite a_after_name_qual by assumption. rewrite a_pipeline by assumption.
    destruct v as [v|]; [|destruct a as [g|]; [|destruct ps as [|g ps']]];
      cbn [a_no_comps aslot opt_elems app flat_map]; rewrite <- ?app_assoc; cbn [app]; rewrite ?app_nil_r; reflexivity.
  - destruct (a_no_comps v a ps) eqn:Enc.
    + destruct v as [v|]; [discriminate|]. destruct a as [g|]; [discriminate|]. destruct ps as [|g ps']; [|discriminate].
      cbn [atail_slot atail_after opt_elems flat_map app] in *.
      destruct rest as [|[k s] rest']; cbn [is_nil].
      * rewrite a_after_name_open by (first [assumption|exact I]).
        pose proof (a_pipeline true None None [] trail [] [Tok IDENT name] n fl eq_refl eq_refl eq_refl W Hs) as P.
        cbn [atail_slot atail_after a_no_comps aslot app] in P |- *. rewrite P. reflexivity.
      * unfold sep_toks in Hs. cbn [hd_kind] in Hs.
        rewrite a_after_name_sep by (first [assumption|cbn [hd_kind]; destruct k; try contradiction; exact I]).
        pose proof (a_pipeline false None None [] trail ((k, s) :: rest') [Tok IDENT name] n fl eq_refl eq_refl eq_refl W) as P.
        cbn [atail_slot atail_after a_no_comps aslot app] in P |- *. rewrite P by (unfold sep_toks; cbn [hd_kind]; exact Hs).
        rewrite ?app_nil_r. reflexivity.
    + pose proof (atail_after_hd v a ps trail rest Enc) as Hh.
      rewrite a_after_name_open; [|assumption|exact Hn|destruct (hd_kind (atail_after v a ps trail rest)) as [k|]; [destruct k; try contradiction; exact I|contradiction]].
      rewrite a_pipeline by assumption. rewrite Enc.
      destruct v as [v|]; [|destruct a as [g|]; [|destruct ps as [|g ps']; [discriminate|]]];
        cbn [opt_elems app flat_map]; rewrite <- ?app_assoc; cbn [app]; rewrite ?app_nil_r; reflexivity.
Qed.

(* ---- entries, substitution variables, the field ---- *)
Lemma nowsk_arels r alts x : nowsk (arels_toks r alts ++ x).
Proof. destruct alts as [|[w r'] alts']; reflexivity. Qed.
Lemma hd_arels r alts x : hd_kind (arels_toks r alts ++ x) = Some IDENT.
Proof. destruct alts as [|[w r'] alts']; reflexivity. Qed.

Lemma arel_left_wsk r last : arel_ok r = true -> wsk (arel_left r last) = true.
Proof. intros H. unfold arel_left. destruct (a_owns_trail r last); [reflexivity|]. unfold arel_ok in H. andb_split H. assumption. Qed.

Lemma entry_loop_arels alts : forall r fuel rest out n fl,
  length alts < fuel -> arel_ok r = true -> forallb aalt_ok alts = true -> root_sep rest ->
  entry_loop fuel (mk_pst (arels_toks r alts ++ rest) out n fl) =
  mk_pst (arels_left r alts (is_nil rest) ++ rest) (out ++ arels_elems r alts (is_nil rest)) n fl.
Proof.
  induction alts as [|[w r'] alts IH]; intros r fuel rest out n fl Hf Hr Ha Hs;
    (destruct fuel as [|f]; [cbn in Hf; lia|]); cbn [entry_loop arels_toks arels_left arels_elems]; cbv zeta.
  - rewrite app_nil_r. rewrite parse_relation_arel by (assumption || apply root_sep_sep, Hs).
    unfold peek_past_ws. cbn [toks]. rewrite (peek_w _ _ (arel_left_wsk r _ Hr)), (peek_nowsk rest (sep_nowsk _ (root_sep_sep _ Hs))).
    destruct rest as [|[k s] rest']; cbn [hd_kind is_nil].
    + rewrite app_nil_r. rewrite skip_w_end by (apply arel_left_wsk, Hr). cbn [app]. rewrite <- app_assoc. reflexivity.
    + unfold root_sep in Hs. cbn [hd_kind] in Hs. destruct k; try contradiction. reflexivity.
  - cbn [forallb] in Ha. apply andb_true_iff in Ha. destruct Ha as [Hwr Ha]. unfold aalt_ok in Hwr. cbn [fst snd] in Hwr.
    apply andb_true_iff in Hwr. destruct Hwr as [Hw Hr'].
    rewrite <- app_assoc. cbn [app]. rewrite <- !app_assoc.
    rewrite parse_relation_arel by (assumption || exact I). cbn [is_nil].
    unfold peek_past_ws. cbn [toks]. rewrite (peek_w _ _ (arel_left_wsk r _ Hr)). cbn [peek_past_ws_l is_ws_kind].
    rewrite skip_w by (first [apply arel_left_wsk, Hr|reflexivity]). rewrite bump_cons.
    rewrite skip_w by (assumption || apply nowsk_arels).
    rewrite IH by (cbn in Hf; lia || assumption). rewrite <- !app_assoc. reflexivity.
Qed.

Lemma len_arels alts : forall r, length alts <= length (arels_toks r alts).
Proof.
  induction alts as [|[w r'] alts IH]; intros r; cbn [arels_toks length]; [lia|].
  rewrite app_length. cbn [length]. rewrite app_length. specialize (IH r'). lia.
Qed.

Lemma parse_entry_arels r alts rest out n fl : arel_ok r = true -> forallb aalt_ok alts = true -> root_sep rest ->
  parse_entry (mk_pst (arels_toks r alts ++ rest) out n fl) =
  mk_pst (arels_left r alts (is_nil rest) ++ rest) (out ++ [Node ENTRY (arels_elems r alts (is_nil rest))]) n fl.
Proof.
  intros Hr Ha Hs. unfold parse_entry. cbv zeta. rewrite skip_ws_none by apply nowsk_arels.
  apply in_node_to. cbn [toks]. rewrite entry_loop_arels; [reflexivity| |assumption|assumption|exact Hs].
  rewrite app_length. pose proof (len_arels alts r). lia.
Qed.

Lemma parse_substvar_asubst body rest out n fl :
  parse_substvar (mk_pst (asubst_toks body ++ rest) out n fl) = mk_pst rest (out ++ [asubst_node body]) n fl.
Proof.
  unfold parse_substvar. apply in_node_to. cbv zeta. unfold asubst_toks. cbn [app].
  rewrite bump_cons. rewrite cur_is_eq. cbn [hd_kind rkind_eqb rkind_code N.eqb Pos.eqb]. rewrite bump_cons.
  rewrite <- app_assoc. cbn [app].
  rewrite substvar_loop_inner; [|apply vpiece_kinds|unfold loop_fuel; cbn [toks]; rewrite app_length; lia].
  rewrite cur_is_eq. cbn [hd_kind rkind_eqb rkind_code N.eqb Pos.eqb]. rewrite bump_cons.
  cbn [elems map fst snd tk app]. rewrite elems_app. cbn [elems map fst snd tk app]. rewrite <- ?app_assoc. reflexivity.
Qed.

Lemma nowsk_aitems i more : nowsk (aitems_toks i more).
Proof.
  destruct i as [r alts|body trail|].
  - destruct more as [|[w i'] more']; cbn [aitems_toks aitem_toks]; apply nowsk_arels.
  - destruct more as [|[w i'] more']; reflexivity.
  - destruct more as [|[w i'] more']; reflexivity.
Qed.

Lemma arels_left_wsk alts : forall r last, arel_ok r = true -> forallb aalt_ok alts = true -> wsk (arels_left r alts last) = true.
Proof.
  induction alts as [|[w r'] alts IH]; intros r last Hr Ha; cbn [arels_left].
  - destruct last; [reflexivity|apply arel_left_wsk, Hr].
  - cbn [forallb] in Ha. apply andb_true_iff in Ha. destruct Ha as [Hwr Ha]. unfold aalt_ok in Hwr. cbn [fst snd] in Hwr.
    apply andb_true_iff in Hwr. apply IH; [apply Hwr|exact Ha].
Qed.

Lemma arels_left_last alts : forall r, arels_left r alts true = [].
Proof. induction alts as [|[w r'] alts IH]; intros r; cbn [arels_left]; [reflexivity|apply IH]. Qed.

Lemma root_loop_aitems a more : forall i fuel out n,
  length more < fuel -> aitem_ok a i = true -> forallb (amore_ok a) more = true ->
  root_loop a fuel (mk_pst (aitems_toks i more) out n 0%N) = mk_pst [] (out ++ aitems_elems i more) n 0%N.
Proof.
  induction more as [|[w i'] more IH]; intros i fuel out n Hf Hi Hm;
    (destruct fuel as [|f]; [cbn in Hf; lia|]); cbn [aitems_toks aitems_elems is_nil].
  - rewrite !app_nil_r. destruct i as [r alts|body trail|]; cbn [aitem_toks aitem_elems aitem_ok] in *.
    + apply andb_true_iff in Hi. destruct Hi as [Hr Ha].
      cbn [root_loop]. rewrite current_eq. rewrite <- (app_nil_r (arels_toks r alts)). rewrite hd_arels. cbv zeta.
      rewrite parse_entry_arels by (assumption || exact I). cbn [is_nil]. rewrite arels_left_last. cbn [app].
      rewrite skip_ws_none by exact I. rewrite current_eq. cbn [hd_kind elems map]. reflexivity.
    + apply andb_true_iff in Hi. destruct Hi as [Ha Ht]. subst a.
      cbn [root_loop]. rewrite current_eq. unfold asubst_toks at 1. cbn [app hd_kind]. cbv zeta.
      change ((DOLLAR, [36%N]) :: (L_CURLY, [123%N]) :: (map vpiece_tok body ++ [(R_CURLY, [125%N])]) ++ trail)
        with (asubst_toks body ++ trail).
      rewrite parse_substvar_asubst. rewrite skip_w_end by exact Ht. rewrite current_eq. cbn [hd_kind].
      rewrite <- app_assoc. reflexivity.
    + cbn [root_loop]. rewrite current_eq. cbn [hd_kind]. rewrite app_nil_r. reflexivity.
  - cbn [forallb] in Hm. apply andb_true_iff in Hm. destruct Hm as [Hwi Hm]. unfold amore_ok in Hwi. cbn [fst snd] in Hwi.
    apply andb_true_iff in Hwi. destruct Hwi as [Hw Hi'].
    assert (Tail : forall out', root_loop a f (skip_ws (bump (mk_pst ((COMMA, [44%N]) :: w ++ aitems_toks i' more) out' n 0%N))) =
                     mk_pst [] (out' ++ Tok COMMA [44%N] :: elems w ++ aitems_elems i' more) n 0%N).
    { intros out'. rewrite bump_cons. rewrite skip_w by (assumption || apply nowsk_aitems).
      rewrite IH by (cbn in Hf; lia || assumption). rewrite <- !app_assoc. reflexivity. }
    destruct i as [r alts|body trail|]; cbn [aitem_toks aitem_elems aitem_ok] in *.
    + apply andb_true_iff in Hi. destruct Hi as [Hr Ha].
      cbn [root_loop]. rewrite current_eq. rewrite hd_arels. cbv zeta.
      rewrite parse_entry_arels by (assumption || exact I). cbn [is_nil].
      rewrite skip_w by (first [apply arels_left_wsk; assumption|reflexivity]). rewrite current_eq. cbn [hd_kind].
      rewrite Tail. rewrite <- !app_assoc. reflexivity.
    + apply andb_true_iff in Hi. destruct Hi as [Ha Ht]. subst a.
      cbn [root_loop]. rewrite current_eq. unfold asubst_toks at 1. cbn [app hd_kind]. cbv zeta.
      rewrite <- !app_assoc. rewrite parse_substvar_asubst. rewrite skip_w by (assumption || reflexivity). rewrite current_eq. cbn [hd_kind].
      rewrite Tail. rewrite <- !app_assoc. reflexivity.
    + cbn [app root_loop]. rewrite current_eq. cbn [hd_kind]. cbv zeta.
      rewrite skip_ws_none by reflexivity. rewrite current_eq. cbn [hd_kind].
      rewrite Tail. reflexivity.
Qed.

Lemma len_aitems more : forall i, length more <= length (aitems_toks i more).
Proof.
  induction more as [|[w i'] more IH]; intros i; cbn [aitems_toks length]; [lia|].
  rewrite app_length. cbn [length]. rewrite app_length. specialize (IH i'). lia.
Qed.

Theorem parse_atoks a g : ashape a g = true -> parse_tokens a (atoks g) = Ok (atree_of g, 0).
Proof.
  intros H. unfold ashape in H. andb_split H. unfold parse_tokens, atoks.
  erewrite in_node_to.
  2:{ cbv zeta. rewrite skip_w by (assumption || apply nowsk_aitems). unfold loop_fuel. cbn [toks].
      rewrite (root_loop_aitems a); [reflexivity| |assumption|assumption].
      pose proof (len_aitems (af_rest g) (af_first g)). lia. }
  cbn [flag RelParse.out nerr app N.eqb]. reflexivity.
Qed.

(* soundness of the liberal layouts: a layout the lexer can produce is read back, without error,
   to its own tree *)
Theorem parse_arender a g : awf a g = true -> RelParse.parse (arender g) a = Ok (atree_of g, 0).
Proof.
  intros H. unfold awf in H. apply andb_true_iff in H. destruct H as [Hs Hl].
  unfold RelParse.parse, arender. rewrite (lexable_rlex _ Hl). apply parse_atoks, Hs.
Qed.
