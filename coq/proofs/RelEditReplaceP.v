(* Lemmas about RelEdit.v (C11), part 8: Entry::replace (variant fixed) on ANY entry of ANY tree
   whose old alternative does not begin with white space: the trailing white space tokens of the
   old alternative are moved, one by one, behind the children of the new one, then the new one
   takes the old one's place.  Result: RelEditTree.dressed. *)
From V.model Require Import Base RelLex RelParse RelEdit RelEditSpec RelEditTree.
From V.proofs Require Import BaseP RelEditP RelEditStP RelEditHistP RelEditTreeP.

(* ------------------------------------------------------------------ moving children from one tree to the end of another *)
(* registers crs hold, in order, handles of the consecutive children  length core, length core + 1, ..
   of the node at path q of tree tid; pr holds the root of tree tr *)
Lemma attach_all_move : forall (tl : list rtree) crs ts rs pr tid ri T q kO core tr rr' kN cs,
  nth_error rs pr = Some (Some (mk_hnd tr [])) ->
  nth_error ts tid = Some (mk_slot true ri T) -> get_path T q = Some (Node kO (core ++ tl)) ->
  nth_error ts tr = Some (mk_slot true rr' (Node kN cs)) -> tid <> tr ->
  length crs = length tl ->
  (forall m cr, nth_error crs m = Some cr -> nth_error rs cr = Some (Some (mk_hnd tid (q ++ [length core + m])))) ->
  exists ts' F,
    runs (m_attach_all pr (length cs) crs) (mk_state ts rs) tt (mk_state ts' (map (option_map F) rs)) /\
    length ts <= length ts' /\
    nth_error ts' tid = Some (mk_slot true ri (upd_path T q (fun _ => Node kO core))) /\
    nth_error ts' tr = Some (mk_slot true rr' (Node kN (cs ++ tl))) /\
    F (mk_hnd tr []) = mk_hnd tr [] /\
    (forall g, h_tid g < length ts -> h_tid g <> tr -> above tid q g -> F g = g) /\
    (forall j, j <> tid -> j <> tr -> j < length ts -> nth_error ts' j = nth_error ts j).
Proof.
  induction tl as [|x tl' IH]; intros crs ts rs pr tid ri T q kO core tr rr' kN cs Hpr HT HG HR Hne Hlen Hcrs.
  - destruct crs; [|discriminate]. exists ts, (fun g => g). rewrite map_option_map_id. split; [|split; [|split; [|split; [|split; [|split]]]]]; auto.
    + cbn [m_attach_all]. rdone.
    + rewrite app_nil_r in HG. now rewrite (upd_path_same _ _ _ HG).
    + now rewrite app_nil_r.
  - destruct crs as [|cr crs']; [discriminate|]. cbn [length] in Hlen.
    pose proof (nth_error_Some_lt _ _ _ HT) as Hlt. pose proof (nth_error_Some_lt _ _ _ HR) as Hlr.
    pose proof (Hcrs 0 cr eq_refl) as Hcr. rewrite Nat.add_0_r in Hcr.
    assert (HGx : get_path T (q ++ [length core]) = Some x) by (eapply get_path_child; [exact HG|apply nth_error_app_len]).
    destruct (detach_h_spec ts rs tid ri T q (length core) x HT HGx) as (ts1 & R1 & L1 & T1 & N1 & O1).
    set (F1 := rebase_detach tid q (length core) (length ts)) in *.
    assert (ET : upd_path T q (fun n => set_children (remove_nth (length core) (children n)) n)
                 = upd_path T q (fun _ => Node kO (core ++ tl'))).
    { eapply upd_path_ext; [exact HG|]. cbn [children set_children ekind]. now rewrite remove_nth_app_len. }
    rewrite ET in T1.
    assert (HR1 : nth_error ts1 tr = Some (mk_slot true rr' (Node kN cs))) by (rewrite O1 by (auto; lia); exact HR).
    assert (Hne2 : tr <> length ts) by lia.
    destruct (attach_h_spec ts1 (map (option_map F1) rs) tr rr' (Node kN cs) [] kN cs (length cs) (length ts) (length core) x
                HR1 eq_refl N1 Hne2 (le_n _)) as (ts2 & R2 & L2 & T2 & O2).
    set (F2 := rebase_attach tr [] (length cs) (length ts)) in *.
    cbn [upd_path children set_children ekind] in T2. rewrite insert_at_end in T2 by lia.
    set (T' := upd_path T q (fun _ => Node kO (core ++ tl'))) in *.
    assert (HT2 : nth_error ts2 tid = Some (mk_slot true ri T')) by (rewrite O2 by lia; exact T1).
    assert (HG2 : get_path T' q = Some (Node kO (core ++ tl'))) by (unfold T'; now apply get_path_upd_path with (n := Node kO (core ++ x :: tl'))).
    assert (Fab : forall g, h_tid g < length ts -> h_tid g <> tr -> above tid q g -> F2 (F1 g) = g).
    { intros g Hg Ht Ha. unfold F1. rewrite rebase_detach_above by exact Ha. unfold F2.
      apply rebase_attach_above; [lia|]. now apply above_other. }
    assert (Fr : F2 (F1 (mk_hnd tr [])) = mk_hnd tr []).
    { unfold F1. rewrite rebase_detach_other by (cbn; congruence). unfold F2.
      apply rebase_attach_above; [cbn; lia|apply above_root]. }
    assert (Hpr2 : nth_error (map (option_map F2) (map (option_map F1) rs)) pr = Some (Some (mk_hnd tr []))).
    { rewrite (nth_error_map_reg F2 _ _ (F1 (mk_hnd tr []))) by (now apply nth_error_map_reg).
      f_equal. f_equal. exact Fr. }
    assert (Hcrs2 : forall m cr', nth_error crs' m = Some cr' ->
              nth_error (map (option_map F2) (map (option_map F1) rs)) cr' = Some (Some (mk_hnd tid (q ++ [length core + m])))).
    { intros m cr' Hm. pose proof (Hcrs (S m) cr' Hm) as Hc.
      rewrite (nth_error_map_reg F2 _ _ (F1 (mk_hnd tid (q ++ [length core + S m])))) by (now apply nth_error_map_reg).
      f_equal. f_equal. unfold F1. rewrite rebase_detach_after by lia. unfold F2.
      rewrite rebase_attach_above; [f_equal; f_equal; f_equal; lia|cbn; lia|apply above_other; cbn; congruence]. }
    assert (HR2 : nth_error ts2 tr = Some (mk_slot true rr' (Node kN (cs ++ [x])))) by exact T2.
    destruct (IH crs' ts2 (map (option_map F2) (map (option_map F1) rs)) pr tid ri T' q kO core tr rr' kN (cs ++ [x])
                Hpr2 HT2 HG2 HR2 Hne ltac:(lia) Hcrs2) as (ts3 & F3 & R3 & L3 & T3 & N3 & Fr3 & A3 & O3).
    exists ts3, (fun g => F3 (F2 (F1 g))). replace (map (option_map (fun g => F3 (F2 (F1 g)))) rs)
      with (map (option_map F3) (map (option_map F2) (map (option_map F1) rs))) by (now rewrite !map_option_map_comp).
    split; [|split; [|split; [|split; [|split; [|split]]]]].
    7:{ intros j Hj1 Hj2 Hj3. rewrite O3 by lia. rewrite O2 by lia. apply O1; [exact Hj1|exact Hj3]. }
    + cbn [m_attach_all]. rbind.
      { unfold m_attach_child. rbind; [apply runs_get_reg; exact Hcr|].
        rbind; [exact R1|].
        rbind; [apply runs_get_reg; apply (nth_error_map_reg F1 _ _ _ Hpr)|].
        unfold F1 at 1. rewrite rebase_detach_other by (cbn; congruence).
        rbind; [apply runs_get_reg; apply (nth_error_map_reg F1 _ _ _ Hcr)|].
        unfold F1 at 1. replace (q ++ [length core]) with (q ++ length core :: []) by reflexivity. rewrite rebase_detach_at.
        exact R2. }
      rewrite app_length in R3. cbn [length] in R3. rewrite Nat.add_1_r in R3. exact R3.
    + lia.
    + rewrite T3. unfold T'. now rewrite (upd_path_const2 _ _ _ _ _ HG).
    + rewrite N3. now rewrite <- app_assoc.
    + now rewrite Fr, Fr3.
    + intros g Hg Ht Ha. rewrite (Fab g Hg Ht Ha). apply A3; [lia|exact Ht|exact Ha].
Qed.

(* ------------------------------------------------------------------ the temporary registers *)
Lemma nth_error_rev_seq n : forall base m cr, nth_error (rev (seq base n)) m = Some cr -> m < n /\ cr = base + (n - 1 - m).
Proof.
  induction n as [|n IH]; intros base m cr H; [destruct m; discriminate|].
  rewrite seq_S, rev_app_distr in H. cbn [rev app] in H. destruct m as [|m]; cbn [nth_error] in H.
  - injection H as <-. split; [lia|]. f_equal. lia.
  - apply IH in H as [H1 ->]. split; [lia|]. f_equal. lia.
Qed.

(* the shape of the old alternative *)
Lemma ws_tail_split cs : cs = firstn (length cs - ws_prefix_len (rev cs)) cs ++ ws_tail cs.
Proof. unfold ws_tail. now rewrite firstn_skipn. Qed.
Lemma ws_prefix_len_le cs : ws_prefix_len cs <= length cs.
Proof. induction cs as [|x r IH]; [cbn; lia|]. cbn [ws_prefix_len length]. destruct (ws_elem x); lia. Qed.

(* ------------------------------------------------------------------ Entry::replace *)
Lemma ereplace_runs_new k epre epost pre ocs post ncs j ts tid ri b c tr rr :
  nth_error ts tid = Some (mk_slot true ri (Node k (epre ++ Node ENTRY (pre ++ Node RELATION ocs :: post) :: epost))) ->
  nth_error ts tr = Some (mk_slot true rr (Node RELATION ncs)) -> tid <> tr ->
  nth_index is_relation j (pre ++ Node RELATION ocs :: post) = Some (length pre) ->
  ws_prefix_len ocs = 0 -> ws_prefix_len ncs = 0 -> ws_prefix_len (rev ncs) = 0 ->
  exists ts' a' b' c' x,
    runs (run_op fixed (OEReplace 0 j 1))
         (st5 ts (mk_hnd tid []) (Some (mk_hnd tid [length epre])) b c (Some (mk_hnd tr []))) x
         (st5 ts' (mk_hnd tid []) a' b' c' None) /\
    nth_error ts' tid = Some (mk_slot true ri
      (Node k (epre ++ Node ENTRY (pre ++ dressed (Node RELATION ocs) (Node RELATION ncs) :: post) :: epost))).
Proof.
  intros HT HR Hne Hidx Hh Wh Wt.
  set (O := Node RELATION ocs) in *. set (E := Node ENTRY (pre ++ O :: post)) in *.
  set (T := Node k (epre ++ E :: epost)) in *.
  set (ci := length epre) in *. set (oi := length pre) in *.
  set (kt := ws_prefix_len (rev ocs)). set (core := firstn (length ocs - kt) ocs). set (tl := ws_tail ocs).
  assert (Eocs : ocs = core ++ tl) by apply ws_tail_split.
  assert (Hkt : kt <= length ocs) by (unfold kt; rewrite <- (rev_length ocs); apply ws_prefix_len_le).
  assert (Lcore : length core = length ocs - kt) by (unfold core; rewrite firstn_length; lia).
  assert (Ltl : length tl = kt) by (unfold tl, ws_tail; fold kt; rewrite skipn_length; lia).
  assert (HGe : get_path T [ci] = Some E) by (cbn [get_path T children]; unfold ci; now rewrite nth_error_app_len).
  assert (HGo : get_path T ([ci] ++ [oi]) = Some O).
  { eapply get_path_child; [exact HGe|]. unfold oi. apply nth_error_app_len. }
  pose proof (nth_error_Some_lt _ _ _ HT) as Hlt. pose proof (nth_error_Some_lt _ _ _ HR) as Hlr.
  (* the registers after the handles are taken *)
  set (rs5 := [Some (mk_hnd tid []); Some (mk_hnd tid [ci]); b; c; Some (mk_hnd tr [])]).
  set (rs6 := rs5 ++ [Some (mk_hnd tid ([ci] ++ [oi]))]).
  set (hs := ws_tail_handles (mk_hnd tid ([ci] ++ [oi])) ocs).
  set (rsA := rs6 ++ map Some hs).
  assert (Lhs : length hs = kt) by (unfold hs, ws_tail_handles; now rewrite map_length, seq_length).
  assert (Hcrs : forall m cr, nth_error (rev (seq 6 kt)) m = Some cr ->
            nth_error rsA cr = Some (Some (mk_hnd tid (([ci] ++ [oi]) ++ [length core + m])))).
  { intros m cr Hm. apply nth_error_rev_seq in Hm as [Hm ->]. unfold rsA.
    rewrite nth_error_app2 by (cbn; lia). change (length rs6) with 6.
    replace (6 + (kt - 1 - m) - 6) with (kt - 1 - m) by lia. rewrite nth_error_map.
    unfold hs, ws_tail_handles. fold kt. rewrite nth_error_map_seq by lia. cbn [option_map]. unfold child_h. cbn [h_tid h_path].
    do 3 f_equal. cbn [app]. do 2 f_equal. f_equal. rewrite Lcore. lia. }
  assert (HGoc : get_path T ([ci] ++ [oi]) = Some (Node RELATION (core ++ tl))) by (rewrite HGo; unfold O; now rewrite <- Eocs).
  destruct (attach_all_move tl (rev (seq 6 kt)) ts rsA 4 tid ri T ([ci] ++ [oi]) RELATION core tr rr RELATION ncs
              eq_refl HT HGoc HR Hne ltac:(now rewrite rev_length, seq_length) Hcrs)
    as (ts1 & F1 & R1 & L1 & T1 & N1 & Fr1 & A1 & _).
  (* the tree after the white space has moved *)
  set (O1 := Node RELATION core) in *.
  assert (ET1 : upd_path T ([ci] ++ [oi]) (fun _ => O1) = Node k (epre ++ Node ENTRY (pre ++ O1 :: post) :: epost)).
  { unfold T, E. cbn [app upd_path]. unfold ci. rewrite upd_nth_app_r. cbn [upd_path]. unfold oi. now rewrite upd_nth_app_r. }
  rewrite ET1 in T1. set (T1' := Node k (epre ++ Node ENTRY (pre ++ O1 :: post) :: epost)) in *.
  assert (HGe1 : get_path T1' [ci] = Some (Node ENTRY (pre ++ O1 :: post))).
  { cbn [get_path T1' children]. unfold ci. now rewrite nth_error_app_len. }
  set (C := Node RELATION (ncs ++ tl)) in *.
  assert (F1r0 : F1 (mk_hnd tid []) = mk_hnd tid []) by (apply A1; [exact Hlt|cbn; congruence|apply above_root]).
  assert (F1r1 : F1 (mk_hnd tid [ci]) = mk_hnd tid [ci]) by (apply A1; [exact Hlt|cbn; congruence|apply above_prefix]).
  assert (F1r5 : F1 (mk_hnd tid ([ci] ++ [oi])) = mk_hnd tid ([ci] ++ [oi])) by (apply A1; [exact Hlt|cbn; congruence|apply above_self]).
  set (rsB := map (option_map F1) rsA) in *.
  assert (HB1 : nth_error rsB 1 = Some (Some (mk_hnd tid [ci]))) by (unfold rsB; cbn [rsA rs6 rs5 app map option_map nth_error]; now rewrite F1r1).
  assert (HB4 : nth_error rsB 4 = Some (Some (mk_hnd tr []))) by (unfold rsB; cbn [rsA rs6 rs5 app map option_map nth_error]; now rewrite Fr1).
  assert (HB5 : nth_error rsB 5 = Some (Some (mk_hnd tid ([ci] ++ [oi])))) by (unfold rsB; cbn [rsA rs6 rs5 app map option_map nth_error]; do 2 f_equal; exact F1r5).
  destruct (splice_replace_spec ts1 rsB 1 4 tid ri T1' [ci] ENTRY pre O1 post tr rr C HB1 HB4 T1 HGe1 N1 Hne)
    as (ts2 & F2 & R2 & L2 & T2 & N2 & O2 & S1 & S2 & A2).
  assert (ET2 : upd_path T1' [ci] (fun _ => Node ENTRY (pre ++ C :: post)) = Node k (epre ++ Node ENTRY (pre ++ C :: post) :: epost)).
  { unfold T1'. cbn [upd_path]. unfold ci. now rewrite upd_nth_app_r. }
  rewrite ET2 in T2.
  assert (EC : C = dressed O (Node RELATION ncs)).
  { unfold dressed, O, C. cbn [children set_children ekind]. unfold ws_head, strip_ws. rewrite Hh, Wh. cbn [firstn skipn app].
    rewrite Wt, Nat.sub_0_r, firstn_all. reflexivity. }
  assert (F2r0 : F2 (mk_hnd tid []) = mk_hnd tid []) by (apply A2; [cbn; congruence|apply above_root]).
  assert (F2r1 : F2 (mk_hnd tid [ci]) = mk_hnd tid [ci]) by (apply A2; [cbn; congruence|apply above_self]).
  exists ts2, (Some (mk_hnd tid [ci])), (option_map F2 (option_map F1 b)), (option_map F2 (option_map F1 c)). eexists. split.
  - cbn [run_op]. change (rreg 1) with 4. change (ereg 0) with 1. unfold st5. fold rs5.
    eapply runs_with_reg_some; [reflexivity|].
    rbind; [apply runs_has_reg|]. cbn [nth_error rs5].
    rbind.
    { unfold entry_replace. cbn [fx_replace_ws fixed]. unfold entry_replace_fixed.
      rbind; [|apply runs_set_reg].
      eapply runs_eq; [apply runs_scoped|reflexivity|].
      + rbind; [apply runs_get_reg; reflexivity|].
        rbind; [eapply runs_children_of; [exact HT|exact HGe]|].
        cbn [children E]. rewrite Hidx. unfold child_h. cbn [h_tid h_path]. fold oi.
        rbind; [apply runs_push_tmp|]. fold rs6. change (length rs5) with 5.
        rbind; [rbind; [apply runs_get_reg; reflexivity|]; eapply runs_children_of; [exact HR|reflexivity]|].
        cbn [s_tree children]. rewrite Wh. cbn [m_repeat skipn]. rbind; [rdone|]. rewrite Wt. cbn [m_repeat]. rbind; [rdone|].
        rbind; [apply runs_get_reg; reflexivity|].
        rbind; [eapply runs_children_of; [exact HT|exact HGo]|]. cbn [children O].
        unfold ws_head_handles. rewrite Hh. cbn [seq map push_tmps]. rbind; [rdone|].
        fold hs. rbind; [apply runs_push_tmps|]. fold rsA. change (length rs6) with 6. rewrite Lhs.
        rbind; [eapply splice_nil_runs; [reflexivity|exact HR|reflexivity|reflexivity]|].
        rbind; [rbind; [apply runs_get_reg; reflexivity|]; eapply runs_children_of; [exact HR|reflexivity]|].
        cbn [s_tree children].
        rbind.
        { unfold m_splice. rbind; [apply runs_get_reg; reflexivity|]. cbn [h_tid].
          rbind; [eapply runs_get_slot; exact HR|]. cbn [s_mut negb].
          rbind; [eapply runs_children_of; [exact HR|reflexivity]|]. cbn [s_tree children].
          rewrite Nat.ltb_irrefl. cbn [andb]. rbind; [rdone|]. exact R1. }
        fold rsB.
        rbind; [rbind; [apply runs_get_reg; exact HB5|]; unfold index_of; rewrite parent_h_app; rdone|].
        exact R2.
      + unfold rsB, rsA, rs6, rs5. cbn [map option_map length firstn app]. rewrite F1r0, F1r1, Fr1, F2r0, F2r1. reflexivity. }
    cbn [set_reg_l]. unfold reg_text, node_of_reg.
    rbind.
    { rbind.
      { rbind; [apply runs_get_reg; reflexivity|].
        eapply runs_node_of; [exact T2|]. cbn [s_tree get_path children]. unfold ci. rewrite nth_error_app_len. reflexivity. }
      rdone. }
    rdone.
  - rewrite T2, EC. reflexivity.
Qed.

Lemma ereplace_runs_gen k epre epost pre ocs post r j ts tid ri b c tr rr :
  nth_error ts tid = Some (mk_slot true ri (Node k (epre ++ Node ENTRY (pre ++ Node RELATION ocs :: post) :: epost))) ->
  nth_error ts tr = Some (mk_slot true rr (crel_tree r)) -> tid <> tr ->
  nth_index is_relation j (pre ++ Node RELATION ocs :: post) = Some (length pre) ->
  ws_prefix_len ocs = 0 ->
  exists ts' a' b' c' x,
    runs (run_op fixed (OEReplace 0 j 1))
         (st5 ts (mk_hnd tid []) (Some (mk_hnd tid [length epre])) b c (Some (mk_hnd tr []))) x
         (st5 ts' (mk_hnd tid []) a' b' c' None) /\
    nth_error ts' tid = Some (mk_slot true ri
      (Node k (epre ++ Node ENTRY (pre ++ dressed (Node RELATION ocs) (crel_tree r) :: post) :: epost))).
Proof.
  intros HT HR Hne Hidx Hh. destruct (crel_no_ws r) as [Wh Wt].
  exact (ereplace_runs_new k epre epost pre ocs post (children (crel_tree r)) j ts tid ri b c tr rr HT HR Hne Hidx Hh Wh Wt).
Qed.

(* ------------------------------------------------------------------ one abstract operation, on any tree: all twelve *)
Definition operands_new_all (o : aop) : bool :=
  match o with
  | APush e | AInsert _ e | AReplace _ e => forallb new_only e
  | AEPush _ r | AEReplace _ _ r => new_only r
  | _ => true
  end.
(* Entry::replace: the alternative it replaces does not begin with white space *)
Definition ereplace_ready (o : aop) (T : rtree) : Prop :=
  match o with
  | AEReplace i j _ => forall ci cj O, rel_pos T i j = Some (ci, cj) -> get_path T [ci; cj] = Some O ->
                                       ws_prefix_len (children O) = 0
  | _ => True
  end.

Theorem op_step_tree_all o T T' st :
  operands_new_all o = true -> is_node T = true -> ereplace_ready o T -> holds st T -> t_op o T = Ok T' ->
  exists st', run_ops fixed (compile o) st = Ok st' /\ holds st' T'.
Proof.
  intros Hn HnT Hready Hst Ht.
  destruct o; try (apply (op_step_tree _ T T' st); [exact Hn|exact HnT|exact Hst|exact Ht]).
  cbn [operands_new_all ereplace_ready] in *.
  destruct Hst as (ts & tid & ri & a & b & c & d & -> & HT). cbn [t_op] in Ht.
  destruct (rel_pos T i j) as [[ci cj]|] eqn:Ep; [|destruct (entry_pos T i); discriminate]. injection Ht as <-.
  destruct (rel_pos_inv _ _ _ _ _ Ep) as (E & P1 & P2 & P3 & _).
  destruct (entry_pos_split _ _ _ P1) as (k & epre & E' & epost & -> & <- & PE).
  unfold child_at in P2. cbn [children] in P2. rewrite nth_error_app_len in P2. injection P2 as <-.
  destruct (is_entry_node _ PE) as (ecs & ->). cbn [children] in *.
  destruct (nth_index_split _ _ _ _ P3) as (pre & x & post & -> & <- & Px).
  destruct (is_relation_node _ Px) as (ocs & ->).
  assert (Hh : ws_prefix_len ocs = 0).
  { apply (Hready (length epre) (length pre) (Node RELATION ocs) eq_refl).
    cbn [get_path children]. rewrite nth_error_app_len. cbn [children]. now rewrite nth_error_app_len. }
  destruct (new_rel_runs r ts tid ri _ a b c d Hn HT) as (txt & R1 & Ne).
  pose proof (get_entry_runs_gen _ i (length epre) (ts ++ [mk_slot true 0 (crel_tree r)]) tid ri a b c
                (Some (mk_hnd (length ts) [])) (nth_error_app_l _ _ _ _ HT) P1) as R2.
  destruct (ereplace_runs_gen k epre epost pre ocs post r j (ts ++ [mk_slot true 0 (crel_tree r)]) tid ri b c (length ts) 0
              (nth_error_app_l _ _ _ _ HT) (nth_error_app_at _ _) ltac:(congruence) P3 Hh) as (ts3 & a3 & b3 & c3 & xx & R3 & T3).
  eexists. split.
  - cbn [compile]. eapply run_ops_cons; [exact R1|]. eapply run_ops_cons; [exact R2|].
    eapply run_ops_cons; [exact R3|reflexivity].
  - eapply holds_st5. rewrite T3. f_equal. f_equal. cbn [upd_path]. rewrite upd_nth_app_r. cbn [upd_path].
    now rewrite upd_nth_app_r.
Qed.
