(* Lemmas about the byte-offset primitives of Utf8.v. *)
From V.model Require Import Base Utf8 CodecStr.
From V.proofs Require Import BaseP.

Lemma ulen_pos (c : char) : 1 <= ulen c.
Proof. unfold ulen. repeat match goal with |- context [if ?b then _ else _] => destruct b end; lia. Qed.

Lemma ulen_max (c : char) : ulen c <= 4.
Proof. unfold ulen. repeat match goal with |- context [if ?b then _ else _] => destruct b end; lia. Qed.

Lemma ulen_utf8_len (c : char) : ulen c = N.to_nat (utf8_len c).
Proof.
  unfold ulen, utf8_len.
  repeat match goal with |- context [if ?b then _ else _] => destruct b end; reflexivity.
Qed.

Lemma ulen_ascii (c : char) : (c < 128)%N <-> ulen c = 1.
Proof.
  unfold ulen. destruct (c <? 128)%N eqn:L.
  - apply N.ltb_lt in L. tauto.
  - apply N.ltb_ge in L. split; [lia|].
    repeat match goal with |- context [if ?b then _ else _] => destruct b end; discriminate.
Qed.

Lemma len_b_app (a b : str) : len_b (a ++ b) = len_b a + len_b b.
Proof. induction a as [|c a IH]; cbn [app len_b]; [reflexivity|rewrite IH; lia]. Qed.

Lemma len_b_length (s : str) : length s <= len_b s.
Proof. induction s as [|c s IH]; cbn [length len_b]; [lia|pose proof (ulen_pos c); lia]. Qed.

Lemma len_b_utf8_size (s : str) : len_b s = N.to_nat (utf8_size s).
Proof.
  induction s as [|c s IH]; [reflexivity|].
  cbn [len_b utf8_size fold_right]. fold (utf8_size s). rewrite N2Nat.inj_add, IH, ulen_utf8_len. reflexivity.
Qed.

Lemma len_b_enc (s : str) : length (enc s) = len_b s.
Proof.
  induction s as [|c s IH]; [reflexivity|].
  unfold enc in *. cbn [flat_map len_b]. rewrite app_length, IH. f_equal.
  unfold enc1, ulen. repeat match goal with |- context [if ?b then _ else _] => destruct b end; reflexivity.
Qed.

(* ------------------------------------------------------------------ split_at *)
Lemma split_at_b_0 (s : str) : split_at_b s 0 = Ok ([], s).
Proof. destruct s; reflexivity. Qed.

Lemma split_at_b_cons (c : char) (r : str) (off : nat) :
  ulen c <= off ->
  split_at_b (c :: r) off =
  match split_at_b r (off - ulen c) with
  | Ok (a, b) => Ok (c :: a, b)
  | Err e => Err e | Panic n => Panic n | OutOfFuel => OutOfFuel
  end.
Proof.
  intros H. pose proof (ulen_pos c) as Hp. destruct off as [|o]; [lia|].
  cbn [split_at_b]. apply Nat.leb_le in H. rewrite H. reflexivity.
Qed.

Lemma split_at_b_inside (c : char) (r : str) (off : nat) :
  0 < off -> off < ulen c -> split_at_b (c :: r) off = Panic site_not_boundary.
Proof.
  intros H0 H. destruct off as [|o]; [lia|]. cbn [split_at_b].
  apply Nat.leb_gt in H. rewrite H. reflexivity.
Qed.

(* slicing at the byte length of a prefix gives that prefix: every prefix length is a boundary *)
Lemma split_at_b_prefix (a b : str) : split_at_b (a ++ b) (len_b a) = Ok (a, b).
Proof.
  induction a as [|c a IH]; cbn [app len_b]; [apply split_at_b_0|].
  rewrite split_at_b_cons by lia. replace (ulen c + len_b a - ulen c) with (len_b a) by lia.
  rewrite IH. reflexivity.
Qed.

Lemma split_at_b_first (c : char) (r : str) : split_at_b (c :: r) (ulen c) = Ok ([c], r).
Proof.
  change (c :: r) with ([c] ++ r). replace (ulen c) with (len_b [c]) by (cbn [len_b]; lia).
  apply split_at_b_prefix.
Qed.

(* ... and nothing else is: a successful split is the split at the length of a prefix *)
Lemma split_at_b_ok (s : str) : forall off a b,
  split_at_b s off = Ok (a, b) -> a ++ b = s /\ len_b a = off.
Proof.
  induction s as [|c r IH]; intros off a b H.
  - destruct off; cbn in H; [|discriminate]. injection H as <- <-. split; reflexivity.
  - destruct off as [|o]; [cbn in H; injection H as <- <-; split; reflexivity|].
    cbn [split_at_b] in H. destruct (ulen c <=? S o) eqn:L; [|discriminate].
    destruct (split_at_b r (S o - ulen c)) as [[a' b']| | |] eqn:E; try discriminate.
    injection H as <- <-. apply IH in E. destruct E as [E1 E2]. apply Nat.leb_le in L.
    split; [cbn [app]; rewrite E1; reflexivity|cbn [len_b]; lia].
Qed.

Lemma split_at_b_boundary (s : str) : forall off,
  if is_boundary s off then exists a b, split_at_b s off = Ok (a, b)
  else exists n, split_at_b s off = Panic n.
Proof.
  induction s as [|c r IH]; intros off.
  - destruct off; cbn; [do 2 eexists; reflexivity|eexists; reflexivity].
  - destruct off as [|o]; [cbn; do 2 eexists; reflexivity|].
    cbn [is_boundary split_at_b]. destruct (ulen c <=? S o); [|eexists; reflexivity].
    specialize (IH (S o - ulen c)). destruct (is_boundary r (S o - ulen c)).
    + destruct IH as (a & b & ->). do 2 eexists; reflexivity.
    + destruct IH as (n & ->). eexists; reflexivity.
Qed.

Lemma is_boundary_iff (s : str) (off : nat) :
  is_boundary s off = true <-> exists a b, s = a ++ b /\ len_b a = off.
Proof.
  pose proof (split_at_b_boundary s off) as H. split.
  - intros E. rewrite E in H. destruct H as (a & b & H). apply split_at_b_ok in H.
    exists a, b. split; [symmetry|]; apply H.
  - intros (a & b & -> & <-). rewrite split_at_b_prefix in H.
    destruct (is_boundary (a ++ b) (len_b a)); [reflexivity|]. destruct H as [n H]. discriminate.
Qed.

(* ------------------------------------------------------------------ find *)
(* the offset str::find returns (or the length) is a boundary, and splitting there is `span` *)
Lemma split_at_find (p : char -> bool) (s : str) :
  split_at_b s (match find_b p s with Some n => n | None => len_b s end) =
  Ok (span (fun x => negb (p x)) s).
Proof.
  induction s as [|c r IH]; [reflexivity|].
  cbn [find_b span len_b]. destruct (p c); cbn [negb]; [reflexivity|].
  rewrite split_at_b_cons by (destruct (find_b p r); lia).
  replace (match match find_b p r with Some n => Some (ulen c + n) | None => None end with
           | Some n => n | None => ulen c + len_b r end - ulen c)
    with (match find_b p r with Some n => n | None => len_b r end)
    by (destruct (find_b p r); lia).
  rewrite IH. destruct (span (fun x => negb (p x)) r). reflexivity.
Qed.

Lemma span_ext {A} (p q : A -> bool) (s : list A) :
  (forall x, p x = q x) -> span p s = span q s.
Proof.
  intros H. induction s as [|c r IH]; [reflexivity|]. cbn [span]. rewrite H, IH. reflexivity.
Qed.

Lemma prefix_b_starts_with (pat s : str) : prefix_b pat s = starts_with pat s.
Proof.
  revert s. induction pat as [|a p IH]; intros s; [reflexivity|].
  destruct s as [|b s]; [reflexivity|]. cbn [prefix_b starts_with]. rewrite IH. reflexivity.
Qed.

(* str::find(&str) is the byte length of the text before the first occurrence *)
Lemma find_str_b_sub (pat s : str) :
  find_str_b pat s = match find_sub pat s with Some (a, _) => Some (len_b a) | None => None end.
Proof.
  induction s as [|c r IH].
  - cbn [find_str_b find_sub]. rewrite prefix_b_starts_with. destruct (starts_with pat []); reflexivity.
  - cbn [find_str_b find_sub]. rewrite prefix_b_starts_with.
    destruct (starts_with pat (c :: r)); [reflexivity|]. rewrite IH.
    destruct (find_sub pat r) as [[a b]|]; reflexivity.
Qed.

(* ------------------------------------------------------------------ the bytes *)
(* the first byte of an encoded character is not a continuation byte, the others are *)
Lemma enc1_bytes (c : char) :
  match enc1 c with
  | b0 :: rest => ((b0 <? 128) || (192 <=? b0) = true /\
                   Forall (fun b => (b <? 128) || (192 <=? b) = false) rest)%N
  | [] => False
  end.
Proof.
  assert (M : forall x, ((128 + x mod 64 <? 128) || (192 <=? 128 + x mod 64) = false)%N).
  { intros x. pose proof (N.mod_upper_bound x 64 ltac:(discriminate)) as U.
    generalize dependent (x mod 64)%N. intros m U.
    apply orb_false_iff. split; [apply N.ltb_ge|apply N.leb_gt]; lia. }
  unfold enc1.
  destruct (c <? 128)%N eqn:L1; [split; [rewrite L1; reflexivity|constructor]|].
  destruct (c <? 2048)%N;
    [split; [apply orb_true_iff; right; apply N.leb_le; match goal with |- (_ <= _ + ?q)%N => generalize q; intros; lia end|repeat constructor; apply M]|].
  destruct (c <? 65536)%N;
    (split; [apply orb_true_iff; right; apply N.leb_le; match goal with |- (_ <= _ + ?q)%N => generalize q; intros; lia end|repeat constructor; apply M]).
Qed.

Lemma enc1_length (c : char) : length (enc1 c) = ulen c.
Proof.
  unfold enc1, ulen. repeat match goal with |- context [if ?b then _ else _] => destruct b end; reflexivity.
Qed.

Lemma is_char_boundary_head (s : str) :
  match enc s with
  | b :: _ => ((b <? 128) || (192 <=? b))%N = true
  | [] => True
  end.
Proof.
  destruct s as [|c r]; [exact I|]. unfold enc. cbn [flat_map].
  pose proof (enc1_bytes c) as H. destruct (enc1 c); [contradiction|]. cbn [app]. apply H.
Qed.

(* is_boundary is the test core::str performs on the encoded bytes *)
Theorem is_boundary_bytes (s : str) : forall off,
  is_boundary s off = is_char_boundary_bytes (enc s) off.
Proof.
  induction s as [|c r IH]; intros off.
  - destruct off as [|o]; [reflexivity|]. cbn. destruct o; reflexivity.
  - destruct off as [|o]; [reflexivity|]. cbn [is_boundary].
    unfold enc. cbn [flat_map]. fold (enc r).
    pose proof (enc1_bytes c) as B. pose proof (enc1_length c) as Len.
    destruct (ulen c <=? S o) eqn:L.
    + apply Nat.leb_le in L. rewrite IH. unfold is_char_boundary_bytes.
      rewrite nth_error_app2 by lia. rewrite app_length, Len.
      destruct (S o - ulen c) as [|k] eqn:K.
      * replace (S o - length (enc1 c)) with 0 by lia.
        pose proof (is_char_boundary_head r) as Hh. destruct (enc r) as [|b t].
        -- cbn [nth_error length]. symmetry. apply Nat.eqb_eq. lia.
        -- cbn [nth_error]. symmetry. exact Hh.
      * replace (S o - length (enc1 c)) with (S k) by lia.
        destruct (nth_error (enc r) (S k)); [reflexivity|].
        destruct (Nat.eqb (S k) (length (enc r))) eqn:E.
        -- apply Nat.eqb_eq in E. symmetry. apply Nat.eqb_eq. lia.
        -- apply Nat.eqb_neq in E. symmetry. apply Nat.eqb_neq. lia.
    + apply Nat.leb_gt in L. unfold is_char_boundary_bytes.
      rewrite nth_error_app1 by lia.
      destruct (enc1 c) as [|b0 rest]; [contradiction|]. destruct B as [_ B].
      cbn [nth_error]. cbn [length] in Len.
      destruct (nth_error rest o) as [b|] eqn:E.
      * apply nth_error_In in E. rewrite Forall_forall in B. symmetry. apply B. exact E.
      * apply nth_error_None in E. lia.
Qed.
