(* Editing operations, part 1: refinement to list operations and frame, for EVERY tree
   (parsed, built, well-formed or not) and every name and value. *)
From V.model Require Import Base Deb822Lex Deb822Parse Grammar Lossy Deb822Edit.
From V.proofs Require Import BaseP GrammarAccP LossyRtP.

Definition pitems (cs : list tree) : list (str * str) := items (Node PARAGRAPH cs).
Definition is_entry (e : tree) : bool := is_node e && is_kind ENTRY e.

Lemma pitems_unfold cs :
  pitems cs = flat_map (fun e => match entry_key e with Some k => [(k, entry_value e)] | None => [] end) (filter is_entry cs).
Proof. reflexivity. Qed.

Lemma pitems_app a b : pitems (a ++ b) = pitems a ++ pitems b.
Proof. rewrite !pitems_unfold, filter_app, flat_map_app. reflexivity. Qed.

Lemma pitems_cons_entry e cs : is_entry e = true ->
  pitems (e :: cs) = match entry_key e with Some k => [(k, entry_value e)] | None => [] end ++ pitems cs.
Proof. intros H. rewrite !pitems_unfold. cbn [filter]. rewrite H. reflexivity. Qed.

Lemma pitems_cons_other e cs : is_entry e = false -> pitems (e :: cs) = pitems cs.
Proof. intros H. rewrite !pitems_unfold. cbn [filter]. rewrite H. reflexivity. Qed.

(* ---- Entry::new ---- *)
Lemma value_line_values i ls :
  flat_map (fun c => match c with Tok k' s => if kind_eqb k' VALUE then [s] else [] | Node _ _ => [] end)
           (value_line_elems i ls) = ls.
Proof.
  revert i. induction ls as [|l r IH]; intros i; [reflexivity|]. cbn [value_line_elems].
  rewrite flat_map_app. destruct i; cbn [flat_map app kind_eqb kind_code N.eqb Pos.eqb]; rewrite IH; reflexivity.
Qed.

Lemma entry_new_is_entry k v : is_entry (entry_new k v) = true.
Proof. reflexivity. Qed.
Lemma entry_new_key k v : entry_key (entry_new k v) = Some k.
Proof. reflexivity. Qed.
Lemma entry_new_value k v : entry_value (entry_new k v) = v.
Proof.
  unfold entry_value, token_texts_of_kind, entry_new. cbn [children flat_map kind_eqb kind_code N.eqb Pos.eqb app].
  rewrite value_line_values. apply join_split_lf.
Qed.
Lemma pitems_entry_new k v : pitems [entry_new k v] = [(k, v)].
Proof. rewrite pitems_cons_entry by reflexivity. rewrite entry_new_key, entry_new_value. reflexivity. Qed.

(* ---- ensure_trailing_newline changes no key and no value ---- *)
Definition tok_append_nl_ok := True.

Lemma ensure_nl_list_spec cs :
  ensure_nl_list cs = match rev cs with
                      | [] => []
                      | x :: r => rev r ++ match x with
                                           | Tok NEWLINE _ => [x]
                                           | Tok _ _ => [x; Tok NEWLINE [10%N]]
                                           | Node _ _ => [ensure_nl x]
                                           end
                      end.
Proof.
  unfold ensure_nl_list. cbn [ensure_nl children].
  induction cs as [|x r IH]; [reflexivity|].
  destruct r as [|y r'].
  - cbn [rev app]. reflexivity.
  - change (rev (x :: y :: r')) with (rev (y :: r') ++ [x]). rewrite IH.
    destruct (rev (y :: r')) as [|z w] eqn:E.
    + exfalso. assert (length (rev (y :: r')) = 0) by (rewrite E; reflexivity). rewrite rev_length in H. discriminate.
    + cbn [app rev]. rewrite rev_app_distr. cbn [rev app]. reflexivity.
Qed.

(* key/VALUE tokens of an entry are untouched by ensure_nl *)
Lemma ensure_nl_entry_tokens k e :
  (k = KEY \/ k = VALUE) ->
  token_texts_of_kind k (ensure_nl e) = token_texts_of_kind k e.
Proof.
  intros Hk. destruct e as [k' s|k' cs]; [reflexivity|]. unfold token_texts_of_kind. cbn [ensure_nl children].
  induction cs as [|x r IH]; [reflexivity|]. destruct r as [|y r'].
  - cbn [flat_map]. rewrite !app_nil_r. destruct x as [kx sx|kx cx].
    + destruct kx; cbn [flat_map app]; try rewrite app_nil_r; try reflexivity;
        destruct Hk as [-> | ->]; reflexivity.
    + reflexivity.
  - cbn [flat_map] in *. rewrite IH. reflexivity.
Qed.

Lemma ensure_nl_is_entry e : is_entry (ensure_nl e) = is_entry e.
Proof. destruct e; reflexivity. Qed.

Lemma pitems_ensure_nl_list cs : pitems (ensure_nl_list cs) = pitems cs.
Proof.
  rewrite ensure_nl_list_spec. rewrite <- (rev_involutive cs) at 2. destruct (rev cs) as [|x r]; [reflexivity|].
  cbn [rev]. rewrite !pitems_app. f_equal.
  destruct x as [k s|k c].
  - destruct k; rewrite ?pitems_cons_other by reflexivity; rewrite ?pitems_cons_other by reflexivity; reflexivity.
  - destruct (is_entry (Node k c)) eqn:E.
    + rewrite !pitems_cons_entry by (rewrite ?ensure_nl_is_entry; exact E).
      unfold entry_key, entry_value. rewrite !ensure_nl_entry_tokens by tauto. reflexivity.
    + rewrite !pitems_cons_other by (rewrite ?ensure_nl_is_entry; exact E). reflexivity.
Qed.

(* ---- insert / set / remove / rename refine the list operations ---- *)
Theorem para_insert_items cs k v : pitems (para_insert cs k v) = l_insert (pitems cs) k v.
Proof. unfold para_insert, l_insert. rewrite pitems_app, pitems_ensure_nl_list, pitems_entry_new. reflexivity. Qed.

Lemma entry_has_key_spec k e : entry_has_key k e = is_entry e && opt_str_eqb (entry_key e) k.
Proof. reflexivity. Qed.

Lemma replace_first_items k g cs :
  (forall e, is_entry (g e) = true) ->
  match replace_first (entry_has_key k) g cs with
  | Some cs' => exists a x b, pitems cs = a ++ (k, x) :: b /\ l_get a k = None /\
                              exists e, entry_has_key k e = true /\ entry_value e = x /\
                              pitems cs' = a ++ pitems [g e] ++ b
  | None => l_get (pitems cs) k = None
  end.
Proof.
  intros Hg. induction cs as [|e r IH]; [reflexivity|]. cbn [replace_first].
  destruct (entry_has_key k e) eqn:Eh.
  - rewrite entry_has_key_spec in Eh. apply andb_true_iff in Eh. destruct Eh as [He Hk].
    unfold opt_str_eqb in Hk. destruct (entry_key e) as [k'|] eqn:Ek; [|discriminate].
    apply str_eqb_eq in Hk. subst k'.
    exists [], (entry_value e), (pitems r). rewrite pitems_cons_entry by exact He. rewrite Ek.
    split; [reflexivity|]. split; [reflexivity|]. exists e. split.
    + rewrite entry_has_key_spec, He, Ek. cbn. apply str_eqb_refl.
    + split; [reflexivity|]. cbn [app]. change (g e :: r) with ([g e] ++ r). rewrite pitems_app. reflexivity.
  - destruct (replace_first (entry_has_key k) g r) as [r'|].
    + destruct IH as (a & x & b & E1 & E2 & e0 & E3 & E4 & E5).
      destruct (is_entry e) eqn:He.
      * rewrite entry_has_key_spec, He in Eh. cbn [andb] in Eh.
        rewrite !pitems_cons_entry by exact He.
        destruct (entry_key e) as [k'|] eqn:Ek.
        -- cbn [opt_str_eqb] in Eh. exists ((k', entry_value e) :: a), x, b. rewrite E1. split; [reflexivity|].
           split; [cbn [l_get]; rewrite Eh; exact E2|]. exists e0. split; [exact E3|]. split; [exact E4|]. rewrite E5. reflexivity.
        -- exists a, x, b. split; [exact E1|]. split; [exact E2|]. exists e0. split; [exact E3|]. split; [exact E4|exact E5].
      * rewrite !pitems_cons_other by exact He. exists a, x, b. split; [exact E1|]. split; [exact E2|].
        exists e0. split; [exact E3|]. split; [exact E4|exact E5].
    + destruct (is_entry e) eqn:He.
      * rewrite entry_has_key_spec, He in Eh. cbn [andb] in Eh. rewrite pitems_cons_entry by exact He.
        destruct (entry_key e) as [k'|]; [|exact IH]. cbn [opt_str_eqb] in Eh. cbn [app l_get]. rewrite Eh. exact IH.
      * rewrite pitems_cons_other by exact He. exact IH.
Qed.

Lemma first_occ_unique (a : list (str * str)) x b a' x' b' k :
  a ++ (k, x) :: b = a' ++ (k, x') :: b' -> l_get a k = None -> l_get a' k = None ->
  a = a' /\ x = x' /\ b = b'.
Proof.
  revert a'. induction a as [|[n y] a IH]; intros a' E Ha Ha'.
  - destruct a' as [|[n' y'] a'']; cbn in E; inversion E; subst; [repeat split|].
    cbn [l_get] in Ha'. rewrite str_eqb_refl in Ha'. discriminate.
  - cbn [l_get] in Ha. destruct (str_eqb n k) eqn:En; [discriminate|].
    destruct a' as [|[n' y'] a'']; cbn in E; inversion E; subst.
    + rewrite str_eqb_refl in En. discriminate.
    + cbn [l_get] in Ha'. rewrite En in Ha'. destruct (IH a'' H2 Ha Ha') as (-> & -> & ->). repeat split.
Qed.

Theorem para_set_items cs k v : pitems (para_set cs k v) = l_set (pitems cs) k v.
Proof.
  unfold para_set. pose proof (replace_first_items k (fun _ => entry_new k v) cs (fun _ => eq_refl)) as H.
  destruct (replace_first (entry_has_key k) (fun _ => entry_new k v) cs) as [cs'|].
  - destruct H as (a & x & b & E1 & E2 & e & _ & _ & E5). rewrite E5, E1, pitems_entry_new.
    destruct (l_set_spec (a ++ (k, x) :: b) k v) as [(a' & x' & b' & F1 & F2 & F3)|[F1 _]].
    + (* the first occurrence is unique: a' = a *)
      rewrite F3. clear F3.
      destruct (first_occ_unique _ _ _ _ _ _ _ F1 E2 F2) as (-> & _ & ->).
      reflexivity.
    + rewrite l_get_app, E2 in F1. cbn [l_get] in F1. rewrite str_eqb_refl in F1. discriminate.
  - rewrite para_insert_items. destruct (l_set_spec (pitems cs) k v) as [(a' & x' & b' & F1 & F2 & F3)|[F1 F2]].
    + rewrite F1, l_get_app, F2 in H. cbn [l_get] in H. rewrite str_eqb_refl in H. discriminate.
    + rewrite F2. reflexivity.
Qed.

Theorem para_remove_items cs k : pitems (para_remove cs k) = l_remove (pitems cs) k.
Proof.
  unfold para_remove, l_remove. induction cs as [|e r IH]; [reflexivity|]. cbn [filter].
  destruct (entry_has_key k e) eqn:Eh; cbn [negb].
  - rewrite IH. rewrite entry_has_key_spec in Eh. apply andb_true_iff in Eh. destruct Eh as [He Hk].
    rewrite pitems_cons_entry by exact He. unfold opt_str_eqb in Hk. destruct (entry_key e) as [k'|]; [|discriminate].
    cbn [app filter fst]. rewrite Hk. reflexivity.
  - destruct (is_entry e) eqn:He.
    + rewrite !pitems_cons_entry by exact He. rewrite entry_has_key_spec, He in Eh. cbn [andb] in Eh.
      destruct (entry_key e) as [k'|]; [|exact IH]. cbn [opt_str_eqb] in Eh. cbn [app filter fst]. rewrite Eh. cbn [negb]. rewrite IH. reflexivity.
    + rewrite !pitems_cons_other by exact He. exact IH.
Qed.

(* rename: the first field named [old] gets the name [new], same position, same value *)
Fixpoint l_rename (p : list (str * str)) (old new : str) : list (str * str) * bool :=
  match p with
  | [] => ([], false)
  | (n, v) :: r => if str_eqb n old then ((new, v) :: r, true)
                   else let '(r', b) := l_rename r old new in ((n, v) :: r', b)
  end.

Theorem para_rename_items cs old new :
  pitems (fst (para_rename cs old new)) = fst (l_rename (pitems cs) old new) /\
  snd (para_rename cs old new) = snd (l_rename (pitems cs) old new).
Proof.
  unfold para_rename. induction cs as [|e r IH]; [split; reflexivity|]. cbn [replace_first].
  destruct (entry_has_key old e) eqn:Eh.
  - rewrite entry_has_key_spec in Eh. apply andb_true_iff in Eh. destruct Eh as [He Hk].
    unfold opt_str_eqb in Hk. destruct (entry_key e) as [k'|] eqn:Ek; [|discriminate].
    cbn [fst snd]. rewrite (pitems_cons_entry e r He), Ek. cbn [app l_rename]. rewrite Hk. cbn [fst snd].
    rewrite pitems_cons_entry by reflexivity. rewrite entry_new_key, entry_new_value. split; reflexivity.
  - destruct (replace_first (entry_has_key old) (fun e0 => entry_new new (entry_value e0)) r) as [r'|]; cbn [fst snd] in *;
      destruct IH as [IH1 IH2].
    + destruct (is_entry e) eqn:He.
      * rewrite !pitems_cons_entry by exact He. rewrite entry_has_key_spec, He in Eh. cbn [andb] in Eh.
        destruct (entry_key e) as [k'|]; [|split; assumption]. cbn [opt_str_eqb] in Eh. cbn [app l_rename]. rewrite Eh.
        destruct (l_rename (pitems r) old new) as [q b]. cbn [fst snd] in *. rewrite IH1. split; [reflexivity|exact IH2].
      * rewrite !pitems_cons_other by exact He. split; assumption.
    + destruct (is_entry e) eqn:He.
      * rewrite !pitems_cons_entry by exact He. rewrite entry_has_key_spec, He in Eh. cbn [andb] in Eh.
        destruct (entry_key e) as [k'|]; [|split; assumption]. cbn [opt_str_eqb] in Eh. cbn [app l_rename]. rewrite Eh.
        destruct (l_rename (pitems r) old new) as [q b]. cbn [fst snd] in *. rewrite <- IH1. split; [reflexivity|exact IH2].
      * rewrite !pitems_cons_other by exact He. split; assumption.
Qed.

(* ================= document level: refinement and frame, for every tree ================= *)
Fixpoint upd_nth {A} (n : nat) (g : A -> A) (l : list A) : list A :=
  match l, n with
  | [], _ => []
  | x :: r, O => g x :: r
  | x :: r, S n' => x :: upd_nth n' g r
  end.

Lemma is_paragraph_items x : is_paragraph x = true -> items x = pitems (children x).
Proof. destruct x as [k s|k cs]; [discriminate|]. reflexivity. Qed.

Theorem on_para_items t n f g :
  (forall cs, pitems (f cs) = g (pitems cs)) ->
  doc_items (on_para t n f) = upd_nth n g (doc_items t).
Proof.
  intros H. unfold on_para, doc_items, paragraphs, node_children_of_kind. cbn [children].
  change (fun e : tree => is_node e && is_kind PARAGRAPH e) with is_paragraph.
  revert n. induction (children t) as [|x r IH]; intros n; [destruct n; reflexivity|].
  cbn [map_nth_para]. destruct (is_paragraph x) eqn:E.
  - destruct n as [|n'].
    + cbn [filter]. change (is_paragraph (Node PARAGRAPH (f (children x)))) with true. cbv iota. rewrite E.
      cbn [map upd_nth]. f_equal. change (items (Node PARAGRAPH (f (children x)))) with (pitems (f (children x))).
      rewrite H, (is_paragraph_items x E). reflexivity.
    + cbn [filter]. rewrite E. cbn [map upd_nth]. f_equal. apply IH.
  - cbn [filter]. rewrite E. apply IH.
Qed.

(* frame at the document level: everything outside the n-th paragraph node is untouched *)
Theorem on_para_frame t n f :
  (exists A P B, children t = A ++ P :: B /\ is_paragraph P = true /\
                 length (filter is_paragraph A) = n /\
                 on_para t n f = Node ROOT (A ++ Node PARAGRAPH (f (children P)) :: B)) \/
  (length (filter is_paragraph (children t)) <= n /\ on_para t n f = Node ROOT (children t)).
Proof.
  unfold on_para. revert n. induction (children t) as [|x r IH]; intros n.
  - right. split; [cbn; lia|reflexivity].
  - cbn [map_nth_para]. destruct (is_paragraph x) eqn:E.
    + destruct n as [|n'].
      * left. exists [], x, r. repeat split; assumption.
      * destruct (IH n') as [(A & P & B & E1 & E2 & E3 & E4)|[E1 E2]].
        -- left. exists (x :: A), P, B. inversion E4 as [E5]. rewrite E5. subst r. cbn [app filter]. rewrite E. cbn [length].
           repeat split; [exact E2|lia].
        -- right. cbn [filter]. rewrite E. cbn [length]. split; [lia|]. inversion E2 as [E3]. f_equal. f_equal. rewrite E3. exact E3.
    + destruct (IH n) as [(A & P & B & E1 & E2 & E3 & E4)|[E1 E2]].
      * left. exists (x :: A), P, B. inversion E4 as [E5]. rewrite E5. subst r. cbn [app filter]. rewrite E.
        repeat split; [exact E2|exact E3].
      * right. cbn [filter]. rewrite E. split; [exact E1|]. inversion E2 as [E3]. f_equal. f_equal. rewrite E3. exact E3.
Qed.

(* frame inside the paragraph: set either replaces exactly one child, or appends after
   terminating the last line; remove deletes exactly the matching entries *)
Lemma replace_first_split p g cs cs' : replace_first p g cs = Some cs' ->
  exists X e Y, cs = X ++ e :: Y /\ p e = true /\ forallb (fun x => negb (p x)) X = true /\ cs' = X ++ g e :: Y.
Proof.
  revert cs'. induction cs as [|x r IH]; intros cs' H; [discriminate|]. cbn [replace_first] in H.
  destruct (p x) eqn:E.
  - inversion H; subst. exists [], x, r. repeat split; assumption.
  - destruct (replace_first p g r) as [r'|]; [|discriminate]. inversion H; subst.
    destruct (IH r' eq_refl) as (X & e & Y & E1 & E2 & E3 & E4). exists (x :: X), e, Y. subst.
    repeat split; [exact E2|cbn [forallb]; rewrite E; exact E3].
Qed.

Theorem para_set_frame cs k v :
  (exists X e Y, cs = X ++ e :: Y /\ entry_has_key k e = true /\ para_set cs k v = X ++ entry_new k v :: Y) \/
  (para_set cs k v = ensure_nl_list cs ++ [entry_new k v]).
Proof.
  unfold para_set. destruct (replace_first (entry_has_key k) (fun _ => entry_new k v) cs) as [cs'|] eqn:E.
  - left. destruct (replace_first_split _ _ _ _ E) as (X & e & Y & E1 & E2 & _ & E4). exists X, e, Y. repeat split; assumption.
  - right. reflexivity.
Qed.

Lemma texts_ensure_nl_list cs : exists tl, (tl = [] \/ tl = [10%N]) /\ texts (ensure_nl_list cs) = texts cs ++ tl.
Proof.
  assert (G : forall t, exists tl, (tl = [] \/ tl = [10%N]) /\ text (ensure_nl t) = text t ++ tl).
  { induction t as [k s|k l IHl] using elem_ind2.
    - exists []. split; [left; reflexivity|]. cbn. rewrite app_nil_r. reflexivity.
    - cbn [ensure_nl]. rewrite !text_node.
      induction l as [|x r IHr]; [exists []; split; [left; reflexivity|reflexivity]|].
      inversion IHl as [|x' r' Hx Hr]; subst.
      destruct r as [|y r2].
      + destruct x as [kx sx|kx lx].
        * destruct kx; try (exists [10%N]; split; [right; reflexivity|cbn; rewrite ?app_nil_r; reflexivity]).
          exists []. split; [left; reflexivity|cbn; rewrite ?app_nil_r; reflexivity].
        * destruct Hx as (tl & Htl & E). exists tl. split; [exact Htl|].
          rewrite !texts_cons, !texts_nil, !app_nil_r. exact E.
      + destruct (IHr Hr) as (tl & Htl & E). exists tl. split; [exact Htl|].
        rewrite texts_cons. rewrite (texts_cons x (y :: r2)). rewrite <- app_assoc. f_equal. exact E. }
  destruct (G (Node ROOT cs)) as (tl & Htl & E). exists tl. split; [exact Htl|].
  unfold ensure_nl_list. rewrite (text_node ROOT cs) in E. rewrite <- E.
  destruct (ensure_nl (Node ROOT cs)) as [k s|k l] eqn:Ee; [cbn in Ee; discriminate|].
  cbn [children]. rewrite text_node. reflexivity.
Qed.
