(* Sorting lemmas for the C13 cone: the insertion sort of RelWrap.v (slice::sort up to 20
   elements) is a stable sort w.r.t. any total preorder; a stable sorted permutation is unique
   (so every stable sort -- Rust's driftsort beyond 20 elements -- returns the same list);
   the comparisons used by impl Ord for Relation / Entry are total preorders. *)
From Coq Require Import Permutation Sorted.
From V.model Require Import Base RelAcc RelWrap RelWrapSpec.
From V.model Require DebVersion.
From V.proofs Require Import BaseP DebVersionP.

(* ------------------------------------------------------------------ pinsert / psort *)
Section PSort.
  Context {A : Type}.
  Variable cmp : A -> A -> comparison.
  Notation le := (cmp_le cmp).
  (* descending: every element is >= its successor (the sorted prefix is kept reversed) *)
  Notation ge := (fun a b => cmp b a <> Gt).

  Lemma pinsert_perm x rpre : Permutation (x :: rpre) (pinsert cmp x rpre).
  Proof.
    induction rpre as [|e r IH]; [apply Permutation_refl|]. cbn [pinsert].
    destruct (cmp x e); try apply Permutation_refl.
    eapply Permutation_trans; [apply perm_swap|]. apply perm_skip, IH.
  Qed.

  Lemma psort_go_perm l : forall rpre, Permutation (rev rpre ++ l) (psort_go cmp rpre l).
  Proof.
    induction l as [|x r IH]; intros rpre; cbn [psort_go].
    - rewrite app_nil_r. apply Permutation_refl.
    - eapply Permutation_trans; [|apply IH].
      apply Permutation_trans with (rev (x :: rpre) ++ r).
      + cbn [rev]. rewrite <- app_assoc. apply Permutation_refl.
      + apply Permutation_app_tail.
        eapply Permutation_trans; [apply Permutation_sym, Permutation_rev|].
        eapply Permutation_trans; [apply pinsert_perm|apply Permutation_rev].
  Qed.

  Theorem psort_perm l : Permutation l (psort cmp l).
  Proof. exact (psort_go_perm l []). Qed.

  Hypothesis Hanti : forall x y, cmp y x = CompOpp (cmp x y).

  Lemma pinsert_hd x rpre : exists y r', pinsert cmp x rpre = y :: r' /\ (y = x \/ exists r, rpre = y :: r /\ cmp x y = Lt).
  Proof.
    destruct rpre as [|e r]; cbn [pinsert]; [exists x, []; auto|].
    destruct (cmp x e) eqn:E.
    - exists x, (e :: r). auto.
    - exists e, (pinsert cmp x r). split; [reflexivity|]. right. exists r. auto.
    - exists x, (e :: r). auto.
  Qed.

  Lemma pinsert_sorted x rpre : Sorted ge rpre -> Sorted ge (pinsert cmp x rpre).
  Proof.
    induction rpre as [|e r IH]; intros Hs; cbn [pinsert]; [repeat constructor|].
    inversion Hs as [|? ? Hr Hhd]; subst.
    destruct (cmp x e) eqn:E.
    - constructor; [exact Hs|]. constructor. rewrite (Hanti x e), E. discriminate.
    - constructor; [apply IH, Hr|].
      destruct (pinsert_hd x r) as (y & r' & Ep & [->|(r0 & -> & _)]); rewrite Ep; constructor.
      + rewrite E. discriminate.
      + inversion Hhd; subst. assumption.
    - constructor; [exact Hs|]. constructor. rewrite (Hanti x e), E. discriminate.
  Qed.

  Lemma sorted_rev_ge l : Sorted ge l -> Sorted le (rev l).
  Proof.
    induction l as [|a r IH]; intros Hs; [constructor|]. inversion Hs as [|? ? Hr Hhd]; subst. cbn [rev].
    specialize (IH Hr). clear Hs Hr.
    assert (G : forall m, Sorted le m -> (forall z, In z (match rev m with [] => [] | z :: _ => [z] end) -> cmp z a <> Gt) -> Sorted le (m ++ [a])).
    { induction m as [|b m IHm]; intros Hm Hl; [repeat constructor|].
      inversion Hm as [|? ? Hm' Hb]; subst. cbn [app]. constructor.
      - apply IHm; [exact Hm'|]. intros z Hz. apply Hl. cbn [rev].
        destruct (rev m) as [|z0 t]; [destruct Hz|]. cbn [app]. exact Hz.
      - destruct m as [|c m]; cbn [app]; constructor.
        + apply Hl. cbn. auto.
        + inversion Hb; subst. assumption. }
    apply G; [exact IH|]. rewrite rev_involutive. intros z Hz.
    destruct r as [|b r]; [destruct Hz|]. destruct Hz as [<-|[]]. inversion Hhd; subst. assumption.
  Qed.

  Lemma psort_go_sorted l : forall rpre, Sorted ge rpre -> Sorted le (psort_go cmp rpre l).
  Proof.
    induction l as [|x r IH]; intros rpre Hs; cbn [psort_go].
    - apply sorted_rev_ge, Hs.
    - apply IH, pinsert_sorted, Hs.
  Qed.

  (* the result is sorted: every element is <= its successor *)
  Theorem psort_sorted l : Sorted le (psort cmp l).
  Proof. apply psort_go_sorted. constructor. Qed.

  (* a sorted list is left alone *)
  Lemma psort_go_id l : forall pre, Sorted le (pre ++ l) -> psort_go cmp (rev pre) l = pre ++ l.
  Proof.
    induction l as [|x r IH]; intros pre Hs; cbn [psort_go].
    - rewrite rev_involutive, app_nil_r. reflexivity.
    - replace (pinsert cmp x (rev pre)) with (rev (pre ++ [x])).
      + rewrite IH; rewrite <- app_assoc; [reflexivity|exact Hs].
      + rewrite rev_app_distr. cbn [rev app].
        destruct (rev pre) as [|e p] eqn:Ep; [reflexivity|]. cbn [pinsert].
        assert (Hle : cmp e x <> Gt).
        { assert (Epre : pre = rev p ++ [e]) by (rewrite <- (rev_involutive pre), Ep; reflexivity).
          rewrite Epre, <- !app_assoc in Hs. cbn [app] in Hs. clear -Hs.
          induction (rev p) as [|z t IHt]; cbn [app] in Hs.
          - inversion Hs as [|? ? _ Hhd]; subst. inversion Hhd; subst. assumption.
          - inversion Hs; subst. apply IHt. assumption. }
        rewrite (Hanti e x). destruct (cmp e x); cbn [CompOpp]; try reflexivity. congruence.
  Qed.

  Theorem psort_id l : Sorted le l -> psort cmp l = l.
  Proof. intros H. exact (psort_go_id l [] H). Qed.

  Hypothesis Hcong : forall x y z, cmp x y = Eq -> cmp x z = cmp y z.

  (* stability: elements that compare equal keep their relative order *)
  Definition eqv (a y : A) : bool := match cmp a y with Eq => true | _ => false end.

  Lemma pinsert_stable a x rpre :
    filter (eqv a) (rev (pinsert cmp x rpre)) = filter (eqv a) (rev rpre ++ [x]).
  Proof.
    induction rpre as [|e r IH]; [reflexivity|]. cbn [pinsert].
    destruct (cmp x e) eqn:E; try reflexivity.
    cbn [rev]. rewrite !filter_app, IH, !filter_app, <- !app_assoc. f_equal.
    cbn [filter]. unfold eqv. destruct (cmp a x) eqn:Eax; [|rewrite app_nil_r; reflexivity|rewrite app_nil_r; reflexivity].
    destruct (cmp a e) eqn:Eae; [|reflexivity|reflexivity].
    exfalso. rewrite <- (Hcong a x e Eax), Eae in E. discriminate.
  Qed.

  Lemma psort_go_stable a l : forall rpre,
    filter (eqv a) (psort_go cmp rpre l) = filter (eqv a) (rev rpre ++ l).
  Proof.
    induction l as [|x r IH]; intros rpre; cbn [psort_go]; [rewrite app_nil_r; reflexivity|].
    rewrite IH, !filter_app, pinsert_stable, filter_app, <- app_assoc.
    change (x :: r) with ([x] ++ r). rewrite filter_app. reflexivity.
  Qed.

  Theorem psort_stable a l : filter (eqv a) (psort cmp l) = filter (eqv a) l.
  Proof. exact (psort_go_stable a l []). Qed.

  Hypothesis Htrans : forall x y z, cmp x y = Lt -> cmp y z = Lt -> cmp x z = Lt.

  Lemma cmp_ok_of : cmp_ok cmp.
  Proof. repeat split; assumption. Qed.

  Lemma le_trans x y z : le x y -> le y z -> le x z.
  Proof. apply (cle_trans cmp cmp_ok_of). Qed.

  Lemma sorted_strong l : Sorted le l -> StronglySorted le l.
  Proof. apply Sorted_StronglySorted. intros x y z. apply le_trans. Qed.

  (* Uniqueness: two sorted lists with the same elements in the same relative order inside every
     class of equal elements are the same list.  Hence ANY stable sort -- whatever comparisons it
     makes -- returns [psort cmp l]: Rust's slice::sort promises exactly "sorted, a permutation,
     equal elements not reordered", and needs exactly that the comparison is a total order. *)
  Theorem stable_sorted_unique l1 : forall l2,
    Sorted le l1 -> Sorted le l2 ->
    (forall a, filter (eqv a) l1 = filter (eqv a) l2) -> l1 = l2.
  Proof.
    pose proof (cmp_ok_refl cmp cmp_ok_of) as Hrefl.
    induction l1 as [|h1 t1 IH]; intros l2 H1 H2 Hf.
    - destruct l2 as [|h2 t2]; [reflexivity|]. specialize (Hf h2). cbn [filter] in Hf. unfold eqv in Hf.
      rewrite Hrefl in Hf. discriminate.
    - destruct l2 as [|h2 t2].
      + specialize (Hf h1). cbn [filter] in Hf. unfold eqv in Hf. rewrite Hrefl in Hf. discriminate.
      + apply sorted_strong in H1 as S1. apply sorted_strong in H2 as S2.
        inversion S1 as [|? ? S1' F1]; subst. inversion S2 as [|? ? S2' F2]; subst.
        assert (In2 : In h2 (h1 :: t1)).
        { pose proof (Hf h2) as E. assert (I : In h2 (filter (eqv h2) (h2 :: t2))).
          { apply filter_In. split; [left; reflexivity|]. unfold eqv. rewrite Hrefl. reflexivity. }
          rewrite <- E in I. apply filter_In in I. apply I. }
        assert (In1 : In h1 (h2 :: t2)).
        { pose proof (Hf h1) as E. assert (I : In h1 (filter (eqv h1) (h1 :: t1))).
          { apply filter_In. split; [left; reflexivity|]. unfold eqv. rewrite Hrefl. reflexivity. }
          rewrite E in I. apply filter_In in I. apply I. }
        assert (L12 : le h1 h2).
        { destruct In2 as [->|I]; [unfold cmp_le; rewrite Hrefl; discriminate|]. rewrite Forall_forall in F1. apply F1, I. }
        assert (L21 : le h2 h1).
        { destruct In1 as [->|I]; [unfold cmp_le; rewrite Hrefl; discriminate|]. rewrite Forall_forall in F2. apply F2, I. }
        assert (E12 : cmp h1 h2 = Eq).
        { unfold cmp_le in *. rewrite (Hanti h1 h2) in L21. destruct (cmp h1 h2); cbn in *; congruence. }
        assert (Eh : h1 = h2).
        { pose proof (Hf h1) as E. cbn [filter] in E.
          replace (eqv h1 h1) with true in E by (unfold eqv; rewrite Hrefl; reflexivity).
          replace (eqv h1 h2) with true in E by (unfold eqv; rewrite E12; reflexivity). congruence. }
        subst h2. f_equal. apply IH.
        * inversion H1; assumption.
        * inversion H2; assumption.
        * intros a. specialize (Hf a). cbn [filter] in Hf. destruct (eqv a h1); [congruence|exact Hf].
  Qed.

  Theorem stable_sort_unique l l' :
    Sorted le l' -> (forall a, filter (eqv a) l' = filter (eqv a) l) -> l' = psort cmp l.
  Proof.
    intros Hs Hst. apply stable_sorted_unique; [exact Hs|apply psort_sorted|].
    intros a. rewrite Hst, psort_stable. reflexivity.
  Qed.
End PSort.

(* sorting commutes with a map that respects the comparison *)
Lemma pinsert_map {A B} (g : B -> A) (cA : A -> A -> comparison) (cB : B -> B -> comparison) x rpre :
  (forall y, In y rpre -> cA (g x) (g y) = cB x y) ->
  pinsert cA (g x) (map g rpre) = map g (pinsert cB x rpre).
Proof.
  induction rpre as [|e r IH]; intros H; [reflexivity|]. cbn [map pinsert].
  rewrite (H e (or_introl eq_refl)). destruct (cB x e); try reflexivity.
  cbn [map]. f_equal. apply IH. intros y Hy. apply H. right. exact Hy.
Qed.

Lemma psort_go_map {A B} (g : B -> A) (cA : A -> A -> comparison) (cB : B -> B -> comparison) l : forall rpre,
  (forall x y, In x (rpre ++ l) -> In y (rpre ++ l) -> cA (g x) (g y) = cB x y) ->
  psort_go cA (map g rpre) (map g l) = map g (psort_go cB rpre l).
Proof.
  induction l as [|x r IH]; intros rpre H; cbn [map psort_go]; [rewrite map_rev; reflexivity|].
  rewrite (pinsert_map g cA cB).
  - apply IH. intros a b Ha Hb. apply H.
    + apply in_app_or in Ha. destruct Ha as [Ha|Ha]; [|apply in_or_app; right; right; exact Ha].
      apply (Permutation_in _ (Permutation_sym (pinsert_perm cB x rpre))) in Ha.
      destruct Ha as [<-|Ha]; apply in_or_app; [right; left; reflexivity|left; exact Ha].
    + apply in_app_or in Hb. destruct Hb as [Hb|Hb]; [|apply in_or_app; right; right; exact Hb].
      apply (Permutation_in _ (Permutation_sym (pinsert_perm cB x rpre))) in Hb.
      destruct Hb as [<-|Hb]; apply in_or_app; [right; left; reflexivity|left; exact Hb].
  - intros y Hy. apply H; apply in_or_app; [right; left; reflexivity|left; exact Hy].
Qed.

Theorem psort_map {A B} (g : B -> A) (cA : A -> A -> comparison) (cB : B -> B -> comparison) l :
  (forall x y, In x l -> In y l -> cA (g x) (g y) = cB x y) ->
  psort cA (map g l) = map g (psort cB l).
Proof. intros H. exact (psort_go_map g cA cB l [] H). Qed.

(* ------------------------------------------------------------------ sort_res: the same sort with a
   comparison that may panic; where it does not, it is psort *)
Lemma insert_tail_image {A B} (g : B -> A) (cA : A -> A -> res comparison) (cB : B -> B -> comparison) x rpre :
  (forall y, In y rpre -> cA (g x) (g y) = Ok (cB x y)) ->
  insert_tail (lt_of cA) (g x) (map g rpre) = Ok (map g (pinsert cB x rpre)).
Proof.
  induction rpre as [|e r IH]; intros H; [reflexivity|]. cbn [map insert_tail pinsert].
  unfold lt_of at 1. rewrite (H e (or_introl eq_refl)).
  destruct (cB x e); try reflexivity.
  rewrite IH; [reflexivity|]. intros y Hy. apply H. right. exact Hy.
Qed.

Lemma sort_go_image {A B} (g : B -> A) (cA : A -> A -> res comparison) (cB : B -> B -> comparison) l : forall rpre,
  (forall x y, In x (rpre ++ l) -> In y (rpre ++ l) -> cA (g x) (g y) = Ok (cB x y)) ->
  sort_go (lt_of cA) (map g rpre) (map g l) = Ok (map g (psort_go cB rpre l)).
Proof.
  induction l as [|x r IH]; intros rpre H; cbn [map sort_go psort_go]; [rewrite map_rev; reflexivity|].
  rewrite (insert_tail_image g cA cB).
  - apply IH. intros a b Ha Hb. apply H.
    + apply in_app_or in Ha. destruct Ha as [Ha|Ha]; [|apply in_or_app; right; right; exact Ha].
      apply (Permutation_in _ (Permutation_sym (pinsert_perm cB x rpre))) in Ha.
      destruct Ha as [<-|Ha]; apply in_or_app; [right; left; reflexivity|left; exact Ha].
    + apply in_app_or in Hb. destruct Hb as [Hb|Hb]; [|apply in_or_app; right; right; exact Hb].
      apply (Permutation_in _ (Permutation_sym (pinsert_perm cB x rpre))) in Hb.
      destruct Hb as [<-|Hb]; apply in_or_app; [right; left; reflexivity|left; exact Hb].
  - intros y Hy. apply H; apply in_or_app; [right; left; reflexivity|left; exact Hy].
Qed.

Theorem sort_res_image {A B} (g : B -> A) (cA : A -> A -> res comparison) (cB : B -> B -> comparison) l :
  (forall x y, In x l -> In y l -> cA (g x) (g y) = Ok (cB x y)) ->
  sort_res cA (map g l) = Ok (map g (psort cB l)).
Proof. intros H. exact (sort_go_image g cA cB l [] H). Qed.

(* ------------------------------------------------------------------ total preorders *)
Lemma str_cmp_ok : cmp_ok str_cmp.
Proof.
  repeat split.
  - induction x as [|a x IH]; destruct y as [|b y]; try reflexivity. cbn [str_cmp].
    rewrite (N.compare_antisym a b). destruct (N.compare a b); cbn [CompOpp]; [apply IH|reflexivity|reflexivity].
  - induction x as [|a x IH]; destruct y as [|b y]; intros z H; try discriminate; [reflexivity|].
    cbn [str_cmp] in H. destruct (N.compare a b) eqn:E; try discriminate. apply N.compare_eq in E. subst b.
    destruct z as [|c z]; [reflexivity|]. cbn [str_cmp]. rewrite (IH y z H). reflexivity.
  - induction x as [|a x IH]; destruct y as [|b y]; intros z H1 H2; try discriminate.
    + destruct z; [discriminate|reflexivity].
    + destruct z as [|c z]; [discriminate|]. cbn [str_cmp] in *.
      destruct (N.compare a b) eqn:E1; try discriminate.
      * apply N.compare_eq in E1. subst b. destruct (N.compare a c); try discriminate; [|reflexivity].
        eapply IH; eassumption.
      * destruct (N.compare b c) eqn:E2; try discriminate.
        -- apply N.compare_eq in E2. subst c. rewrite E1. reflexivity.
        -- rewrite N.compare_lt_iff in *. replace (N.compare a c) with Lt; [reflexivity|].
           symmetry. apply N.compare_lt_iff. lia.
Qed.

Lemma str_cmp_eq a b : str_cmp a b = Eq -> a = b.
Proof.
  revert b. induction a as [|x a IH]; destruct b as [|y b]; intros H; try discriminate; [reflexivity|].
  cbn [str_cmp] in H. destruct (N.compare x y) eqn:E; try discriminate. apply N.compare_eq in E. subst y.
  f_equal. apply IH, H.
Qed.

Lemma vop_cmp_ok : cmp_ok vop_cmp.
Proof. apply (cmp_ok_pull vop_rank N.compare Ncompare_ok). Qed.

Lemma vop_cmp_eq a b : vop_cmp a b = Eq -> a = b.
Proof. destruct a, b; cbn; intros H; try discriminate; reflexivity. Qed.

(* None < Some, Some compared by c *)
Definition opt_cmp {A} (c : A -> A -> comparison) (a b : option A) : comparison :=
  match a, b with
  | Some x, Some y => c x y
  | Some _, None => Gt
  | None, Some _ => Lt
  | None, None => Eq
  end.
Lemma opt_cmp_ok {A} (c : A -> A -> comparison) : cmp_ok c -> cmp_ok (opt_cmp c).
Proof.
  intros (Ha & He & Ht). repeat split.
  - intros [x|] [y|]; cbn; try reflexivity. apply Ha.
  - intros [x|] [y|] [z|]; cbn; intros H; try discriminate; try reflexivity. apply He, H.
  - intros [x|] [y|] [z|]; cbn; intros H1 H2; try discriminate; try reflexivity. eapply Ht; eassumption.
Qed.

Definition ver_key_cmp (a b : vop * DebVersion.version) : comparison :=
  match vop_cmp (fst a) (fst b) with Eq => DebVersion.vcmp (snd a) (snd b) | c => c end.
Lemma ver_key_cmp_ok : cmp_ok ver_key_cmp.
Proof.
  apply (cmp_ok_lex (fun a b => vop_cmp (fst a) (fst b)) (fun a b => DebVersion.vcmp (snd a) (snd b))).
  - apply (cmp_ok_pull fst vop_cmp vop_cmp_ok).
  - apply (cmp_ok_pull snd DebVersion.vcmp vcmp_ok).
Qed.

Lemma wrel_cmp_alt a b :
  wrel_cmp a b = match str_cmp (w_name a) (w_name b) with
                 | Eq => opt_cmp ver_key_cmp (w_ver a) (w_ver b)
                 | c => c end.
Proof.
  unfold wrel_cmp, opt_cmp, ver_key_cmp. destruct (str_cmp (w_name a) (w_name b)); try reflexivity.
  destruct (w_ver a) as [[oa xa]|], (w_ver b) as [[ob xb]|]; reflexivity.
Qed.

Theorem wrel_cmp_ok : cmp_ok wrel_cmp.
Proof.
  pose proof (cmp_ok_lex (fun a b => str_cmp (w_name a) (w_name b))
                (fun a b => opt_cmp ver_key_cmp (w_ver a) (w_ver b))
                (cmp_ok_pull w_name str_cmp str_cmp_ok)
                (cmp_ok_pull w_ver (opt_cmp ver_key_cmp) (opt_cmp_ok _ ver_key_cmp_ok))) as (Ha & He & Ht).
  repeat split.
  - intros x y. rewrite !wrel_cmp_alt. apply Ha.
  - intros x y z. rewrite !wrel_cmp_alt. apply He.
  - intros x y z. rewrite !wrel_cmp_alt. apply Ht.
Qed.

(* lexicographic order on lists, a proper prefix first *)
Theorem lex_cmp_ok {A} (c : A -> A -> comparison) : cmp_ok c -> cmp_ok (lex_cmp c).
Proof.
  intros Hc. pose proof Hc as (Ha & He & Ht). repeat split.
  - induction x as [|a x IH]; destruct y as [|b y]; try reflexivity. cbn [lex_cmp].
    rewrite (Ha a b). destruct (c a b); cbn [CompOpp]; [apply IH|reflexivity|reflexivity].
  - induction x as [|a x IH]; destruct y as [|b y]; intros z H; try discriminate; [reflexivity|].
    cbn [lex_cmp] in H. destruct (c a b) eqn:E; try discriminate.
    destruct z as [|d z]; [reflexivity|]. cbn [lex_cmp]. rewrite (He a b d E), (IH y z H). reflexivity.
  - induction x as [|a x IH]; destruct y as [|b y]; intros z H1 H2; try discriminate.
    + destruct z; [discriminate|reflexivity].
    + destruct z as [|d z]; [discriminate|]. cbn [lex_cmp] in *.
      destruct (c a b) eqn:E1; try discriminate.
      * rewrite (He a b d E1). destruct (c b d); try discriminate; [|reflexivity]. eapply IH; eassumption.
      * destruct (c b d) eqn:E2; try discriminate.
        -- rewrite (cmp_ok_lt_eq c Hc _ _ _ E1 E2). reflexivity.
        -- rewrite (Ht _ _ _ E1 E2). reflexivity.
Qed.

Theorem wentry_cmp_ok : cmp_ok wentry_cmp.
Proof. apply lex_cmp_ok, wrel_cmp_ok. Qed.

(* the comparison of the shipped code is not transitive on "equal": see props/C13.v *)

Theorem psort_contract : forall (A : Type) (cmp : A -> A -> comparison), cmp_ok cmp ->
  forall l,
  Permutation l (psort cmp l) /\ Sorted (cmp_le cmp) (psort cmp l) /\
  (forall a, filter (eqv cmp a) (psort cmp l) = filter (eqv cmp a) l) /\
  (forall l', Sorted (cmp_le cmp) l' -> (forall a, filter (eqv cmp a) l' = filter (eqv cmp a) l) -> l' = psort cmp l) /\
  (Sorted (cmp_le cmp) l -> psort cmp l = l).
Proof.
  intros A cmp (Ha & He & Ht) l. split; [apply psort_perm|]. split; [apply psort_sorted, Ha|].
  split; [intros a; apply psort_stable; assumption|]. split; [intros l'; apply stable_sort_unique; assumption|].
  apply psort_id, Ha.
Qed.
