(* The relations lexer on rendered well-formed relationship fields:
   rlex (rrender f) = Ok (rtoks f). *)
From V.model Require Import Base RelLex RelParse RelAcc RelGrammar.
From V.proofs Require Import BaseP RelLexP.

(* ---- fuel irrelevance, one-step unfolding ---- *)
Lemma rlex_go_fuel f1 : forall f2 s, length s <= f1 -> length s <= f2 -> rlex_go f1 s = rlex_go f2 s.
Proof.
  induction f1 as [|f1 IH]; intros f2 s H1 H2.
  - destruct s; [|cbn in H1; lia]. destruct f2; reflexivity.
  - destruct s as [|c r]; [destruct f2; reflexivity|].
    destruct f2 as [|f2]; [cbn in H2; lia|]. cbn [rlex_go].
    destruct (rlex_step c r) as [t r'] eqn:E. apply rlex_step_spec in E. destruct E as (_ & _ & Hr).
    rewrite (IH f2 r'); [reflexivity|cbn in H1; lia|cbn in H2; lia].
Qed.

Definition rlexf (s : str) : res (list rtoken) := rlex_go (length s) s.

Lemma rlex_is_rlexf s : rlex s = rlexf s.
Proof. reflexivity. Qed.

Lemma rlexf_nil : rlexf [] = Ok [].
Proof. reflexivity. Qed.

Lemma rlexf_cons c r :
  rlexf (c :: r) =
  match rlexf (snd (rlex_step c r)) with
  | Ok ts => Ok (fst (rlex_step c r) :: ts)
  | Err e => Err e | Panic n => Panic n | OutOfFuel => OutOfFuel
  end.
Proof.
  unfold rlexf. cbn [length rlex_go]. destruct (rlex_step c r) as [t r'] eqn:E. cbn [fst snd].
  apply rlex_step_spec in E. destruct E as (_ & _ & Hr).
  rewrite (rlex_go_fuel (length r) (length r') r'); [reflexivity|lia|lia].
Qed.

(* ---- spans that stop exactly where a token ends ---- *)
Definition stops {A} (p : A -> bool) (rest : list A) : Prop :=
  match rest with [] => True | x :: _ => p x = false end.

Lemma span_app_stop {A} (p : A -> bool) (w rest : list A) :
  forallb p w = true -> stops p rest -> span p (w ++ rest) = (w, rest).
Proof.
  induction w as [|c w IH]; intros Hw Hs; cbn [app span].
  - destruct rest as [|x r]; [reflexivity|]. cbn in Hs. cbn [span]. rewrite Hs. reflexivity.
  - cbn in Hw. apply andb_true_iff in Hw. destruct Hw as [Hc Hw]. rewrite Hc, (IH Hw Hs). reflexivity.
Qed.

Lemma stops_app {A} (p : A -> bool) (x y : list A) : stops p x -> stops p y -> stops p (x ++ y).
Proof. destruct x; cbn; auto. Qed.

Lemma stops_cons {A} (p : A -> bool) c (y : list A) : p c = false -> stops p (c :: y).
Proof. intros H; exact H. Qed.

(* ---- character classes ---- *)
Lemma single_not_ident c k : single_char_kind c = Some k -> is_ident_char c = false.
Proof.
  unfold single_char_kind. intros H.
  repeat match type of H with
  | context [(c =? ?v)%N] => destruct (N.eqb_spec c v) as [->|_]; [reflexivity|]
  end. discriminate.
Qed.

Lemma ident_not_single c : is_ident_char c = true -> single_char_kind c = None.
Proof.
  intros H. destruct (single_char_kind c) as [k|] eqn:E; [|reflexivity].
  apply single_not_ident in E. congruence.
Qed.

Lemma ident_not_ws c : is_ident_char c = true -> is_rel_ws c = false.
Proof.
  intros H. unfold is_rel_ws.
  destruct (N.eqb_spec c 32) as [->|_]; [discriminate|].
  destruct (N.eqb_spec c 9) as [->|_]; [discriminate|].
  destruct (N.eqb_spec c 13) as [->|_]; [discriminate|]. reflexivity.
Qed.

Lemma fws_cases c : is_fws c = true -> c = 32%N \/ c = 9%N \/ c = 10%N.
Proof.
  unfold is_fws. intros H.
  destruct (N.eqb_spec c 32); [tauto|]. destruct (N.eqb_spec c 9); [tauto|].
  destruct (N.eqb_spec c 10); [tauto|]. discriminate.
Qed.

Lemma fws_not_ident c : is_fws c = true -> is_ident_char c = false.
Proof. intros H. destruct (fws_cases c H) as [->|[->| ->]]; reflexivity. Qed.

Lemma digit_ident c : is_digit c = true -> is_ident_char c = true.
Proof.
  unfold is_digit, is_ident_char, is_ascii_alnum. intros H. rewrite H. reflexivity.
Qed.

Lemma ident_ok_inv s : ident_ok s = true -> exists c w, s = c :: w /\ is_ident_char c = true /\ forallb is_ident_char w = true.
Proof.
  unfold ident_ok. destruct s as [|c w]; [discriminate|]. cbn [nonempty forallb andb].
  intros H. apply andb_true_iff in H. exists c, w. tauto.
Qed.

Lemma epoch_ident e : epoch_ok e = true -> ident_ok e = true.
Proof.
  unfold epoch_ok, ident_ok. intros H.
  repeat (apply andb_true_iff in H; let H' := fresh "E" in destruct H as [H H']).
  rewrite H. cbn [andb]. clear -E1. induction e as [|c r IH]; [reflexivity|].
  cbn [forallb] in *. apply andb_true_iff in E1. destruct E1 as [Hc Hr].
  rewrite (digit_ident c Hc), (IH Hr). reflexivity.
Qed.

(* ---- stops facts ---- *)
Lemma stops_ident_ws w : ws_ok w = true -> stops is_ident_char w.
Proof.
  destruct w as [|c r]; [intros _; exact I|]. cbn [ws_ok forallb stops]. intros H.
  apply andb_true_iff in H. apply fws_not_ident, H.
Qed.

Lemma stops_ws_ident s x : ident_ok s = true -> stops is_rel_ws (s ++ x).
Proof.
  intros H. destruct (ident_ok_inv s H) as (c & w & -> & Hc & _). cbn. apply ident_not_ws, Hc.
Qed.

(* ---- tokens ---- *)
Lemma lex_single c k rest ts :
  single_char_kind c = Some k -> rlexf rest = Ok ts -> rlexf (c :: rest) = Ok ((k, [c]) :: ts).
Proof. intros Hk Hr. rewrite rlexf_cons. unfold rlex_step. rewrite Hk. cbn [fst snd]. rewrite Hr. reflexivity. Qed.

Lemma lex_ident s rest ts :
  ident_ok s = true -> stops is_ident_char rest ->
  rlexf rest = Ok ts -> rlexf (s ++ rest) = Ok ((IDENT, s) :: ts).
Proof.
  intros Hs Hst Hr. destruct (ident_ok_inv s Hs) as (c & w & -> & Hc & Hw).
  cbn [app]. rewrite rlexf_cons. unfold rlex_step.
  rewrite (ident_not_single c Hc), (ident_not_ws c Hc), Hc, (span_app_stop _ w rest Hw Hst).
  cbn [fst snd]. rewrite Hr. reflexivity.
Qed.

Lemma ws_toks_nonempty c r : ws_toks (c :: r) <> [].
Proof.
  cbn [ws_toks]. destruct (c =? 10)%N; [discriminate|].
  destruct (ws_toks r) as [|[k w] ts]; [discriminate|]. destruct k; discriminate.
Qed.

Lemma blank_facts c : is_fws c = true -> (c =? 10)%N = false ->
  single_char_kind c = None /\ is_rel_ws c = true.
Proof.
  intros H H10. destruct (fws_cases c H) as [->|[->| ->]]; [split; reflexivity|split; reflexivity|discriminate].
Qed.

Lemma lex_blank_step c x : single_char_kind c = None -> is_rel_ws c = true ->
  rlexf (c :: x) =
  match rlexf (snd (span is_rel_ws x)) with
  | Ok ts => Ok ((WHITESPACE, c :: fst (span is_rel_ws x)) :: ts)
  | Err e => Err e | Panic n => Panic n | OutOfFuel => OutOfFuel
  end.
Proof.
  intros H1 H2. rewrite rlexf_cons. unfold rlex_step. rewrite H1, H2.
  destruct (span is_rel_ws x) as [w rr]. reflexivity.
Qed.

Lemma lex_lf x :
  rlexf (10%N :: x) =
  match rlexf x with
  | Ok ts => Ok ((NEWLINE, [10%N]) :: ts)
  | Err e => Err e | Panic n => Panic n | OutOfFuel => OutOfFuel
  end.
Proof. rewrite rlexf_cons. reflexivity. Qed.

Lemma span_cons_true {A} (p : A -> bool) c x : p c = true ->
  span p (c :: x) = (c :: fst (span p x), snd (span p x)).
Proof. intros H. cbn [span]. rewrite H. destruct (span p x). reflexivity. Qed.

Lemma Ok_inj {A} (a b : A) : Ok a = Ok b -> a = b.
Proof. intros H. injection H as H. exact H. Qed.

Lemma lex_ws s : forall rest ts,
  ws_ok s = true -> stops is_rel_ws rest ->
  rlexf rest = Ok ts -> rlexf (s ++ rest) = Ok (ws_toks s ++ ts).
Proof.
  induction s as [|c r IH]; intros rest ts Hs Hst Hr; [exact Hr|].
  cbn [ws_ok forallb] in Hs. apply andb_true_iff in Hs. destruct Hs as [Hc Hs]. fold (ws_ok r) in Hs.
  specialize (IH rest ts Hs Hst Hr).
  cbn [app ws_toks]. destruct (c =? 10)%N eqn:E10.
  - apply N.eqb_eq in E10. subst c. rewrite lex_lf, IH. reflexivity.
  - destruct (blank_facts c Hc E10) as [Hk Hw]. rewrite (lex_blank_step c _ Hk Hw).
    destruct r as [|c' r'].
    + cbn [app ws_toks]. pose proof (span_app_stop is_rel_ws [] rest eq_refl Hst) as Hsp. cbn [app] in Hsp.
      rewrite Hsp. cbn [fst snd]. rewrite Hr. reflexivity.
    + cbn [ws_ok forallb] in Hs. apply andb_true_iff in Hs. destruct Hs as [Hc' Hs'].
      change ((c' :: r') ++ rest) with (c' :: r' ++ rest) in IH |- *.
      destruct (c' =? 10)%N eqn:E10'.
      * apply N.eqb_eq in E10'. subst c'. cbn [span]. change (is_rel_ws 10) with false. cbv iota. cbn [fst snd].
        rewrite IH. cbn [ws_toks N.eqb Pos.eqb app]. reflexivity.
      * destruct (blank_facts c' Hc' E10') as [Hk' Hw']. rewrite (lex_blank_step c' _ Hk' Hw') in IH.
        rewrite (span_cons_true _ c' _ Hw'). destruct (span is_rel_ws (r' ++ rest)) as [w rr]. cbv beta iota delta [fst snd] in IH |- *.
        destruct (rlexf rr) as [ts'| | |]; try discriminate. apply Ok_inj in IH.
        destruct (ws_toks (c' :: r')) as [|[k0 w0] t0] eqn:Ew; [destruct (ws_toks_nonempty _ _ Ew)|].
        change (((k0, w0) :: t0) ++ ts) with ((k0, w0) :: t0 ++ ts) in IH. injection IH as E1 E2 E3. subst k0 w0 ts'. reflexivity.
Qed.

(* ---- composition: [lexes x t P]: in front of any text satisfying P, x is lexed as t ---- *)
Definition lexes (x : str) (t : list rtoken) (P : str -> Prop) : Prop :=
  forall rest ts, P rest -> rlexf rest = Ok ts -> rlexf (x ++ rest) = Ok (t ++ ts).
Definition any (rest : str) : Prop := True.
Definition noid (rest : str) : Prop := stops is_ident_char rest.
Definition nows (rest : str) : Prop := stops is_rel_ws rest.
Definition sepd (rest : str) : Prop := noid rest /\ nows rest.

Lemma lexes_nil : lexes [] [] any.
Proof. intros rest ts _ H. exact H. Qed.

Lemma lexes_weaken x t (P Q : str -> Prop) : lexes x t P -> (forall r, Q r -> P r) -> lexes x t Q.
Proof. intros H HQ rest ts Hr. apply H, HQ, Hr. Qed.

Lemma lexes_app x t y u (P Q : str -> Prop) :
  lexes x t P -> lexes y u Q -> (forall rest, Q rest -> P (y ++ rest)) -> lexes (x ++ y) (t ++ u) Q.
Proof.
  intros Hx Hy HP rest ts Hq Hr. rewrite <- !app_assoc. apply Hx; [apply HP, Hq|]. apply Hy; assumption.
Qed.

Lemma lexes_cons c k x t (P : str -> Prop) :
  single_char_kind c = Some k -> lexes x t P -> lexes (c :: x) ((k, [c]) :: t) P.
Proof. intros Hk Hx rest ts Hp Hr. cbn [app]. apply lex_single; [exact Hk|]. apply Hx; assumption. Qed.

Lemma lexes_single c k : single_char_kind c = Some k -> lexes [c] [(k, [c])] any.
Proof. intros Hk. apply lexes_cons; [exact Hk|apply lexes_nil]. Qed.

Lemma lexes_ident s : ident_ok s = true -> lexes s [(IDENT, s)] noid.
Proof. intros Hs rest ts Hp Hr. apply lex_ident; assumption. Qed.

Lemma lexes_ws s : ws_ok s = true -> lexes s (ws_toks s) nows.
Proof. intros Hs rest ts Hp Hr. apply lex_ws; assumption. Qed.

(* ws then something that does not start with whitespace *)
Lemma lexes_ws_app w y u (Q : str -> Prop) :
  ws_ok w = true -> lexes y u Q -> (forall rest, Q rest -> nows (y ++ rest)) -> lexes (w ++ y) (ws_toks w ++ u) Q.
Proof. intros Hw Hy HQ. eapply lexes_app; [apply lexes_ws, Hw|exact Hy|exact HQ]. Qed.

Lemma lexes_ident_app s y u (Q : str -> Prop) :
  ident_ok s = true -> lexes y u Q -> (forall rest, Q rest -> noid (y ++ rest)) -> lexes (s ++ y) ((IDENT, s) :: u) Q.
Proof. intros Hs Hy HQ. change ((IDENT, s) :: u) with ([(IDENT, s)] ++ u). eapply lexes_app; [apply lexes_ident, Hs|exact Hy|exact HQ]. Qed.

Lemma noid_ws_app w y : ws_ok w = true -> noid y -> noid (w ++ y).
Proof. intros Hw Hy. apply stops_app; [apply stops_ident_ws, Hw|exact Hy]. Qed.

Ltac andb_split H :=
  repeat match type of H with
  | (_ && _)%bool = true => let H' := fresh "W" in apply andb_true_iff in H; destruct H as [H H']
  end.

(* ---- terms and bracketed groups ---- *)
Lemma lexes_term first t : term_ok first t = true -> lexes (term_text t) (term_toks t) noid.
Proof.
  intros H. unfold term_ok in H. andb_split H. unfold term_text, term_toks.
  apply lexes_ws_app; [exact H| |].
  - destruct (t_neg t); cbn [neg_text neg_toks app].
    + apply lexes_cons; [reflexivity|]. apply lexes_ident, W.
    + apply lexes_ident, W.
  - intros rest _. destruct (t_neg t); cbn [neg_text app]; [reflexivity|]. apply stops_ws_ident, W.
Qed.

Lemma noid_term_nonfirst t x : term_ok false t = true -> noid (term_text t ++ x).
Proof.
  intros H. unfold term_ok in H. andb_split H. cbn [orb] in W0. unfold term_text.
  destruct (t_ws t) as [|c w]; [discriminate|]. cbn [ws_ok forallb] in H. apply andb_true_iff in H.
  cbn. apply fws_not_ident, H.
Qed.

Lemma lexes_terms_rest l : forallb (term_ok false) l = true ->
  lexes (flat_map term_text l) (flat_map term_toks l) noid.
Proof.
  induction l as [|t r IH]; intros H; cbn [flat_map].
  - eapply lexes_weaken; [apply lexes_nil|intros; exact I].
  - cbn [forallb] in H. apply andb_true_iff in H. destruct H as [Ht Hr].
    eapply lexes_app; [eapply lexes_term, Ht|apply IH, Hr|].
    intros rest Hq. destruct r as [|t' r']; [exact Hq|]. cbn [flat_map forallb] in *.
    apply andb_true_iff in Hr. rewrite <- app_assoc. apply noid_term_nonfirst, Hr.
Qed.

Lemma lexes_terms l : terms_ok l = true -> lexes (flat_map term_text l) (flat_map term_toks l) noid.
Proof.
  destruct l as [|t r]; [discriminate|]. cbn [terms_ok flat_map]. intros H. apply andb_true_iff in H. destruct H as [Ht Hr].
  eapply lexes_app; [eapply lexes_term, Ht|apply lexes_terms_rest, Hr|].
  intros rest Hq. destruct r as [|t' r']; [exact Hq|]. cbn [flat_map forallb] in *.
  apply andb_true_iff in Hr. rewrite <- app_assoc. apply noid_term_nonfirst, Hr.
Qed.

Lemma lexes_group_body ok ck o c g :
  single_char_kind o = Some ok -> single_char_kind c = Some ck ->
  terms_ok (g_terms g) = true -> ws_ok (g_ws1 g) = true ->
  lexes (group_body_text o c g) (group_body_toks ok ck o c g) any.
Proof.
  intros Ho Hc Ht Hw. unfold group_body_text, group_body_toks.
  apply lexes_cons; [exact Ho|].
  eapply lexes_app; [apply lexes_terms, Ht| |].
  - apply lexes_ws_app; [exact Hw|apply lexes_single, Hc|].
    intros rest _. cbn [app]. unfold nows. cbn. unfold single_char_kind in Hc.
    unfold is_rel_ws. destruct (N.eqb_spec c 32) as [->|_]; [discriminate|].
    destruct (N.eqb_spec c 9) as [->|_]; [discriminate|]. destruct (N.eqb_spec c 13) as [->|_]; [discriminate|]. reflexivity.
  - intros rest _. rewrite <- app_assoc. apply noid_ws_app; [exact Hw|]. cbn [app]. unfold noid. cbn.
    eapply single_not_ident, Hc.
Qed.

Lemma lexes_arch g : group_ok g = true -> lexes (arch_text g) (arch_toks g) any.
Proof.
  intros H. unfold group_ok in H. andb_split H. unfold arch_text, group_text, arch_toks.
  apply lexes_ws_app; [exact H|apply lexes_group_body; try reflexivity; assumption|].
  intros rest _. reflexivity.
Qed.

Lemma lexes_prof g : group_ok g = true -> lexes (prof_text g) (prof_toks g) any.
Proof.
  intros H. unfold group_ok in H. andb_split H. unfold prof_text, group_text, prof_toks.
  apply lexes_ws_app; [exact H|apply lexes_group_body; try reflexivity; assumption|].
  intros rest _. reflexivity.
Qed.

Lemma lexes_profs l : forallb group_ok l = true -> lexes (flat_map prof_text l) (flat_map prof_toks l) any.
Proof.
  induction l as [|g r IH]; intros H; cbn [flat_map]; [apply lexes_nil|].
  cbn [forallb] in H. apply andb_true_iff in H. destruct H as [Hg Hr].
  eapply lexes_app; [apply lexes_prof, Hg|apply IH, Hr|intros; exact I].
Qed.

(* ---- version clause ---- *)
Lemma lexes_vop o : lexes (vop_text o) (vop_toks o) any.
Proof. destruct o; cbn [vop_text vop_toks]; repeat (apply lexes_cons; [reflexivity|]); apply lexes_nil. Qed.

Lemma nows_vop o x : nows (vop_text o ++ x).
Proof. destruct o; reflexivity. Qed.

Lemma lexes_colon_pieces ps : forallb ident_ok ps = true ->
  lexes (flat_map (fun s => 58%N :: s) ps) (flat_map (fun s => [(COLON, [58%N]); (IDENT, s)]) ps) noid.
Proof.
  induction ps as [|s r IH]; intros H; cbn [flat_map].
  - eapply lexes_weaken; [apply lexes_nil|intros; exact I].
  - cbn [forallb] in H. apply andb_true_iff in H. destruct H as [Hs Hr]. cbn [app].
    apply lexes_cons; [reflexivity|].
    apply lexes_ident_app; [exact Hs|apply IH, Hr|].
    intros rest Hq. destruct r as [|s' r']; [exact Hq|reflexivity].
Qed.

Lemma vclause_ok_inv v : vclause_ok v = true ->
  ws_ok (v_ws0 v) = true /\ ws_ok (v_ws1 v) = true /\ ws_ok (v_ws2 v) = true /\ ws_ok (v_ws3 v) = true /\
  opt_ok epoch_ok (v_epoch v) = true /\ ident_ok (v_ver v) = true /\ forallb ident_ok (v_more v) = true /\
  (v_epoch v = None -> v_more v = []).
Proof.
  unfold vclause_ok. intros H.
  repeat (apply andb_true_iff in H; let H' := fresh "V" in destruct H as [H H']).
  repeat split; try assumption.
  intros E. rewrite E in V. destruct (v_more v); [reflexivity|discriminate].
Qed.

Lemma noid_pieces ps x : noid x -> noid (flat_map (fun s => 58%N :: s) ps ++ x).
Proof. intros Hx. destruct ps as [|s r]; [exact Hx|reflexivity]. Qed.

Lemma lexes_vtext v : opt_ok epoch_ok (v_epoch v) = true -> ident_ok (v_ver v) = true ->
  forallb ident_ok (v_more v) = true -> lexes (vtext v) (vtext_toks v) noid.
Proof.
  intros He Hv Hm. unfold vtext, vtext_toks.
  assert (Hbody : lexes (v_ver v ++ flat_map (fun p => 58%N :: p) (v_more v))
                        ((IDENT, v_ver v) :: flat_map (fun p => [(COLON, [58%N]); (IDENT, p)]) (v_more v)) noid).
  { apply lexes_ident_app; [exact Hv|apply lexes_colon_pieces, Hm|]. intros rest Hq. apply noid_pieces, Hq. }
  destruct (v_epoch v) as [e|]; cbn [opt_ok] in He.
  - rewrite <- app_assoc. cbn [app]. apply lexes_ident_app; [apply epoch_ident, He| |intros rest _; reflexivity].
    apply lexes_cons; [reflexivity|]. exact Hbody.
  - cbn [app]. exact Hbody.
Qed.

Lemma nows_vtext v x : opt_ok epoch_ok (v_epoch v) = true -> ident_ok (v_ver v) = true -> nows (vtext v ++ x).
Proof.
  intros He Hv. unfold vtext. destruct (v_epoch v) as [e|]; cbn [opt_ok] in He.
  - rewrite <- !app_assoc. apply stops_ws_ident, epoch_ident, He.
  - cbn [app]. rewrite <- !app_assoc. apply stops_ws_ident, Hv.
Qed.

Lemma lexes_vclause v : vclause_ok v = true -> lexes (vclause_text v) (vclause_toks v) any.
Proof.
  intros H. destruct (vclause_ok_inv v H) as (W0 & W1 & W2 & W3 & He & Hv & Hm & _).
  unfold vclause_text, vclause_toks, vbody_text, vbody_toks.
  apply lexes_ws_app; [exact W0| |intros rest _; reflexivity].
  apply lexes_cons; [reflexivity|].
  apply lexes_ws_app; [exact W1| |intros rest _; rewrite <- app_assoc; apply nows_vop].
  eapply lexes_app; [apply lexes_vop| |intros; exact I].
  apply lexes_ws_app; [exact W2| |intros rest _; rewrite <- app_assoc; apply nows_vtext; assumption].
  eapply lexes_app; [apply lexes_vtext; assumption| |].
  - apply lexes_ws_app; [exact W3|apply lexes_single; reflexivity|intros rest _; reflexivity].
  - intros rest _. rewrite <- app_assoc. apply noid_ws_app; [exact W3|reflexivity].
Qed.

Lemma lexes_qual q : qual_ok q = true -> lexes (qual_text q) (qual_toks q) noid.
Proof.
  intros H. unfold qual_ok in H. andb_split H. unfold qual_text, qual_toks.
  apply lexes_ws_app; [exact H| |intros rest _; reflexivity].
  apply lexes_cons; [reflexivity|].
  apply lexes_ws_app; [exact W0|apply lexes_ident, W|intros rest _; apply stops_ws_ident, W].
Qed.

(* ---- what may follow an identifier inside a relation ---- *)
Lemma noid_qual q x : qual_ok q = true -> noid (qual_text q ++ x).
Proof.
  intros H. unfold qual_ok in H. andb_split H. unfold qual_text. rewrite <- app_assoc.
  apply noid_ws_app; [exact H|reflexivity].
Qed.
Lemma noid_vclause v x : vclause_ok v = true -> noid (vclause_text v ++ x).
Proof.
  intros H. destruct (vclause_ok_inv v H) as (W0 & _). unfold vclause_text. rewrite <- app_assoc.
  apply noid_ws_app; [exact W0|reflexivity].
Qed.
Lemma noid_group o c g x : is_ident_char o = false -> group_ok g = true -> noid (group_text o c g ++ x).
Proof.
  intros Ho H. unfold group_ok in H. andb_split H. unfold group_text. rewrite <- app_assoc.
  apply noid_ws_app; [exact H|exact Ho].
Qed.
Lemma noid_profs l x : forallb group_ok l = true -> noid x -> noid (flat_map prof_text l ++ x).
Proof.
  destruct l as [|g r]; [intros _ Hx; exact Hx|]. cbn [forallb flat_map]. intros H _. apply andb_true_iff in H.
  rewrite <- app_assoc. apply noid_group; [reflexivity|apply H].
Qed.
Lemma noid_opt {A} (f : A -> str) (o : option A) x :
  (forall a y, o = Some a -> noid (f a ++ y)) -> noid x -> noid (opt_text f o ++ x).
Proof. intros H Hx. destruct o as [a|]; cbn [opt_text app]; [apply (H a x eq_refl)|exact Hx]. Qed.

Lemma lexes_opt {A} (f : A -> str) (g : A -> list rtoken) (o : option A) (P : str -> Prop) :
  (forall a, o = Some a -> lexes (f a) (g a) P) -> lexes (opt_text f o) (opt_toks g o) P.
Proof.
  intros H. destruct o as [a|]; cbn [opt_text opt_toks]; [apply H; reflexivity|].
  intros rest ts _ Hr. exact Hr.
Qed.

(* ---- a relation ---- *)
Lemma lexes_rel r : wf_rel r = true -> lexes (rel_text r) (rel_toks r) sepd.
Proof.
  intros H. unfold wf_rel in H. andb_split H. unfold rel_text, rel_toks, rel_core_toks.
  assert (Ht : forall rest, sepd rest -> noid (r_trail r ++ rest)).
  { intros rest [Hq _]. apply noid_ws_app; assumption. }
  assert (Hp : forall rest, sepd rest -> noid (flat_map prof_text (r_profs r) ++ r_trail r ++ rest)).
  { intros rest Hq. apply noid_profs; [exact W0|apply Ht, Hq]. }
  assert (Ha : forall rest, sepd rest ->
            noid (opt_text arch_text (r_archs r) ++ flat_map prof_text (r_profs r) ++ r_trail r ++ rest)).
  { intros rest Hq. apply noid_opt; [|apply Hp, Hq]. intros g y E. rewrite E in W1. apply noid_group; [reflexivity|exact W1]. }
  assert (Hv : forall rest, sepd rest ->
            noid (opt_text vclause_text (r_ver r) ++ opt_text arch_text (r_archs r) ++ flat_map prof_text (r_profs r) ++ r_trail r ++ rest)).
  { intros rest Hq. apply noid_opt; [|apply Ha, Hq]. intros v y E. rewrite E in W2. apply noid_vclause, W2. }
  cbn [app]. rewrite <- !app_assoc.
  apply lexes_ident_app; [exact H| |].
  2:{ intros rest Hq. rewrite <- !app_assoc. apply noid_opt; [|apply Hv, Hq]. intros q y E. rewrite E in W3. apply noid_qual, W3. }
  eapply lexes_app; [apply lexes_opt; intros q E; rewrite E in W3; apply lexes_qual, W3| |].
  2:{ intros rest Hq. rewrite <- !app_assoc. apply Hv, Hq. }
  eapply lexes_app; [apply lexes_opt; intros v E; rewrite E in W2; apply lexes_vclause, W2| |intros; exact I].
  eapply lexes_app; [apply lexes_opt; intros g E; rewrite E in W1; apply lexes_arch, W1| |intros; exact I].
  eapply lexes_app; [apply lexes_profs, W0| |intros; exact I].
  eapply lexes_weaken; [apply lexes_ws, W|]. intros rest [_ Hq]. exact Hq.
Qed.

Lemma sepd_cons c x : is_ident_char c = false -> is_rel_ws c = false -> sepd (c :: x).
Proof. intros H1 H2. split; assumption. Qed.

Lemma wf_rel_name r : wf_rel r = true -> ident_ok (r_name r) = true.
Proof. intros H. unfold wf_rel in H. andb_split H. exact H. Qed.

Lemma nows_rels r alts x : wf_rel r = true -> nows (rels_text r alts ++ x).
Proof.
  intros H. destruct alts as [|[w r'] alts']; cbn [rels_text]; unfold rel_text; rewrite <- !app_assoc;
    apply stops_ws_ident, wf_rel_name, H.
Qed.

Lemma lexes_rels alts : forall r, wf_rel r = true -> forallb wf_alt alts = true ->
  lexes (rels_text r alts) (rels_toks r alts) sepd.
Proof.
  induction alts as [|[w r'] alts IH]; intros r Hr Ha; cbn [rels_text rels_toks].
  - rewrite !app_nil_r. apply lexes_rel, Hr.
  - cbn [forallb] in Ha. apply andb_true_iff in Ha. destruct Ha as [Hwr Ha]. unfold wf_alt in Hwr. cbn [fst snd] in Hwr.
    apply andb_true_iff in Hwr. destruct Hwr as [Hw Hr'].
    eapply lexes_app; [apply lexes_rel, Hr| |intros rest _; apply sepd_cons; reflexivity].
    apply lexes_cons; [reflexivity|].
    apply lexes_ws_app; [exact Hw|apply IH; assumption|intros rest _; apply nows_rels, Hr'].
Qed.

(* ---- substitution variables ---- *)
Lemma lexes_subst_segs segs : forallb ident_ok segs = true ->
  lexes (flat_map (fun s => 58%N :: s) segs) (flat_map (fun s => [(COLON, [58%N]); (IDENT, s)]) segs) noid.
Proof.
  induction segs as [|s r IH]; intros H; cbn [flat_map].
  - eapply lexes_weaken; [apply lexes_nil|intros; exact I].
  - cbn [forallb] in H. apply andb_true_iff in H. destruct H as [Hs Hr]. cbn [app].
    apply lexes_cons; [reflexivity|].
    apply lexes_ident_app; [exact Hs|apply IH, Hr|].
    intros rest Hq. destruct r as [|s' r']; [exact Hq|reflexivity].
Qed.

Lemma lexes_subst seg segs : ident_ok seg = true -> forallb ident_ok segs = true ->
  lexes (subst_text seg segs) (subst_toks seg segs) any.
Proof.
  intros Hs Hss. unfold subst_text, subst_toks, subst_inner_toks.
  apply lexes_cons; [reflexivity|]. apply lexes_cons; [reflexivity|]. cbn [app].
  apply lexes_ident_app; [exact Hs| |].
  - eapply lexes_app; [apply lexes_subst_segs, Hss|apply lexes_single; reflexivity|intros rest _; reflexivity].
  - intros rest _. rewrite <- app_assoc. destruct segs as [|s r]; reflexivity.
Qed.

(* ---- items and the field ---- *)
Lemma lexes_item a i : wf_item a i = true -> lexes (item_text i) (item_toks i) sepd.
Proof.
  intros H. destruct i as [r alts|seg segs trail|]; cbn [wf_item item_text item_toks] in *.
  - apply andb_true_iff in H. destruct H as [Hr Ha]. apply lexes_rels; assumption.
  - andb_split H. eapply lexes_app; [apply lexes_subst; assumption| |intros; exact I].
    eapply lexes_weaken; [apply lexes_ws, W|]. intros rest [_ Hq]. exact Hq.
  - eapply lexes_weaken; [apply lexes_nil|intros; exact I].
Qed.

Lemma nows_items a i more : wf_item a i = true -> nows (items_text i more).
Proof.
  intros H. destruct i as [r alts|seg segs trail|]; cbn [wf_item] in H.
  - apply andb_true_iff in H. destruct H as [Hr _].
    destruct more as [|[w i'] more']; cbn [items_text item_text].
    + rewrite app_nil_r. rewrite <- (app_nil_r (rels_text r alts)). apply nows_rels, Hr.
    + apply nows_rels, Hr.
  - destruct more as [|[w i'] more']; reflexivity.
  - destruct more as [|[w i'] more']; [exact I|reflexivity].
Qed.

Lemma lexes_items a more : forall i, wf_item a i = true -> forallb (wf_more a) more = true ->
  rlexf (items_text i more) = Ok (items_toks i more).
Proof.
  induction more as [|[w i'] more IH]; intros i Hi Hm; cbn [items_text items_toks].
  - rewrite !app_nil_r. pose proof (lexes_item a i Hi [] [] (conj I I) rlexf_nil) as H.
    rewrite !app_nil_r in H. exact H.
  - cbn [forallb] in Hm. apply andb_true_iff in Hm. destruct Hm as [Hwi Hm]. unfold wf_more in Hwi. cbn [fst snd] in Hwi.
    apply andb_true_iff in Hwi. destruct Hwi as [Hw Hi'].
    apply (lexes_item a i Hi); [apply sepd_cons; reflexivity|].
    apply lex_single; [reflexivity|].
    apply lex_ws; [exact Hw|apply (nows_items a), Hi'|apply IH; assumption].
Qed.

Theorem rlex_rrender a f : wf_rfield a f = true -> rlex (rrender f) = Ok (rtoks f).
Proof.
  intros H. unfold wf_rfield in H. andb_split H. rewrite rlex_is_rlexf. unfold rrender, rtoks.
  rewrite <- (app_nil_r (items_toks (f_first f) (f_rest f))).
  rewrite <- (app_nil_r (items_text (f_first f) (f_rest f))) at 1. rewrite app_assoc.
  rewrite <- (app_nil_r (f_lead f ++ items_text (f_first f) (f_rest f))).
  rewrite <- app_assoc. rewrite app_nil_r.
  apply lex_ws; [exact H|apply (nows_items a), W0|].
  rewrite app_nil_r. apply (lexes_items a); assumption.
Qed.
