(* Lemmas about the typed-value codecs of Codecs.v (C18): validity predicates (what "a value of
   the type whose text form is its own" means), round trips, canonical texts, and witnesses that
   every guard is needed. *)
From Coq Require Import Permutation.
From V.model Require Import Base CodecStr EnumTab Codecs.
From V.proofs Require Import BaseP CodecStrP EnumTabP.

Local Open Scope N_scope.

Lemma bind_ok {A B} (r : res A) (f : A -> res B) (b : B) :
  bind r f = Ok b -> exists a, r = Ok a /\ f a = Ok b.
Proof. destruct r; cbn; intros H; try discriminate. eexists; split; [reflexivity|exact H]. Qed.

Lemma Ok_eq {A} (a b : A) : @Ok A a = Ok b -> a = b.
Proof. intros H. injection H. auto. Qed.

(* ================================================================== checksum records *)
Definition cksum_valid (v : cksum) : bool :=
  is_token (ck_hash v) && is_token (ck_file v) && (ck_size v <? usize_limit).

Lemma print_usize_token (n : N) : is_token (print_usize n) = true.
Proof. apply canon_dec_token. apply print_usize_spec. Qed.

Theorem cksum_roundtrip (k : ck_kind) (v : cksum) :
  cksum_valid v = true -> cksum_from_str k (cksum_to_string k v) = Ok v.
Proof.
  unfold cksum_valid. intros H. apply andb_prop in H. destruct H as [H Hs].
  apply andb_prop in H. destruct H as [Hh Hf]. apply N.ltb_lt in Hs.
  unfold cksum_from_str, cksum_to_string.
  rewrite split_ws_join by (repeat constructor; auto using print_usize_token).
  rewrite usize_roundtrip by exact Hs. cbn [bind]. destruct v; reflexivity.
Qed.

(* canonical text: three tokens separated by single spaces, the size in canonical decimal *)
Definition cksum_canon (s : str) : bool :=
  match split_ws s with
  | [a; b; c] => str_eqb s (join_sp [a; b; c]) && canon_dec b
  | _ => false
  end.

Theorem cksum_canonical (k : ck_kind) (s : str) (v : cksum) :
  cksum_canon s = true -> cksum_from_str k s = Ok v -> cksum_to_string k v = s.
Proof.
  unfold cksum_canon, cksum_from_str. intros Hc Hp.
  destruct (split_ws s) as [|a [|b [|c [|d r]]]]; try discriminate Hc.
  apply andb_prop in Hc. destruct Hc as [He Hd]. apply str_eqb_eq in He.
  apply bind_ok in Hp. destruct Hp as [n [Hn Hv]]. inversion Hv; subst v. clear Hv.
  unfold cksum_to_string. cbn [ck_hash ck_size ck_file].
  rewrite (usize_canonical b n Hd Hn). symmetry. exact He.
Qed.

(* a canonical text whose size fits in a usize is accepted *)
Theorem cksum_canon_accepted (k : ck_kind) (s : str) :
  cksum_canon s = true ->
  (forall a b c, split_ws s = [a; b; c] -> dval 0 b < usize_limit) ->
  exists v, cksum_from_str k s = Ok v.
Proof.
  unfold cksum_canon, cksum_from_str. intros Hc Hb.
  destruct (split_ws s) as [|a [|b [|c [|d r]]]]; try discriminate Hc.
  apply andb_prop in Hc. destruct Hc as [_ Hd].
  rewrite (parse_usize_digits b Hd (Hb a b c eq_refl)). cbn [bind]. eexists. reflexivity.
Qed.

(* the token guard is needed: a hash containing a space does not read back *)
Lemma cksum_token_guard_needed :
  exists v, cksum_valid v = false /\ cksum_from_str Md5 (cksum_to_string Md5 v) <> Ok v.
Proof.
  exists {| ck_hash := [97; 32; 98]; ck_size := 1; ck_file := [102] |}.
  split; [reflexivity|]. vm_compute. discriminate.
Qed.
(* so is the size bound: 2^64 is printed but not read *)
Lemma cksum_size_guard_needed :
  exists v, cksum_from_str Md5 (cksum_to_string Md5 v) = Err 12.
Proof. exists {| ck_hash := [97]; ck_size := usize_limit; ck_file := [102] |}. vm_compute. reflexivity. Qed.

(* ================================================================== changes::File *)
Definition file_valid (prio : enum_tab) (v : cfile) : bool :=
  is_token (cf_md5 v) && is_token (cf_section v) && is_token (cf_file v) &&
  (cf_size v <? usize_limit) && (cf_priority v <? enum_size prio).

Lemma enum_tokens_ok_token (t : enum_tab) (v : N) (k : str) :
  enum_tokens_ok t = true -> v < enum_size t -> enum_print t v = Ok k -> is_token k = true.
Proof.
  unfold enum_tokens_ok. intros H Hv Hk. rewrite forallb_forall in H.
  apply enum_values_in in Hv. specialize (H v Hv). rewrite Hk in H. exact H.
Qed.

Theorem file_roundtrip (prio : enum_tab) (v : cfile) :
  enum_ok prio = true -> enum_tokens_ok prio = true -> file_valid prio v = true ->
  exists text, file_to_string prio v = Ok text /\ file_from_str prio text = Ok v.
Proof.
  intros Hok Htk H. unfold file_valid in H.
  apply andb_prop in H. destruct H as [H H0]. apply andb_prop in H. destruct H as [H H1].
  apply andb_prop in H. destruct H as [H H2]. apply andb_prop in H. destruct H as [H4 H3].
  apply N.ltb_lt in H0. apply N.ltb_lt in H1.
  destruct (enum_roundtrip prio Hok _ H0) as [kw [Hpr Hpa]].
  pose proof (enum_tokens_ok_token prio _ kw Htk H0 Hpr) as Hkw.
  unfold file_to_string. rewrite Hpr. cbn [bind]. eexists. split; [reflexivity|].
  unfold file_from_str.
  rewrite split_ws_join by (repeat constructor; auto using print_usize_token).
  rewrite usize_roundtrip by exact H1. cbn [bind]. rewrite Hpa. cbn [bind]. destruct v; reflexivity.
Qed.

Definition file_canon (s : str) : bool :=
  match split_ws s with
  | [a; b; c; d; e] => str_eqb s (join_sp [a; b; c; d; e]) && canon_dec b
  | _ => false
  end.

Theorem file_canonical (prio : enum_tab) (s : str) (v : cfile) :
  enum_ok prio = true -> et_pre prio = PreNone ->
  file_canon s = true -> file_from_str prio s = Ok v -> file_to_string prio v = Ok s.
Proof.
  unfold file_canon, file_from_str. intros Hok Hpre Hc Hp.
  destruct (split_ws s) as [|a [|b [|c [|d [|e [|f r]]]]]]; try discriminate Hc.
  apply andb_prop in Hc. destruct Hc as [He Hd]. apply str_eqb_eq in He.
  apply bind_ok in Hp. destruct Hp as [n [Hn Hp]].
  apply bind_ok in Hp. destruct Hp as [pv [Hpv Hv]]. inversion Hv; subst v. clear Hv.
  destruct (enum_canonical prio Hok d pv Hpv) as [d' [Hd' [Hpr _]]].
  unfold enum_pre in Hd'. rewrite Hpre in Hd'. inversion Hd'; subst d'.
  unfold file_to_string. cbn [cf_md5 cf_size cf_section cf_priority cf_file]. rewrite Hpr. cbn [bind].
  rewrite (usize_canonical b n Hd Hn). f_equal. symmetry. exact He.
Qed.

(* ================================================================== PackageListEntry *)
Definition kv_piece (t : str) : bool := nows t && negb (contains_char 61 t).
Fixpoint nodupb (l : list str) : bool :=
  match l with
  | [] => true
  | x :: r => negb (existsb (str_eqb x) r) && nodupb r
  end.

Definition ple_valid (prio : enum_tab) (v : ple) : bool :=
  is_token (pl_package v) && is_token (pl_type v) && is_token (pl_section v) &&
  (pl_priority v <? enum_size prio) &&
  forallb (fun kv => kv_piece (fst kv) && kv_piece (snd kv)) (pl_extra v) &&
  nodupb (map fst (pl_extra v)).

Lemma nodupb_NoDup (l : list str) : nodupb l = true -> NoDup l.
Proof.
  induction l as [|x r IH]; intros H; [constructor|].
  cbn [nodupb] in H. apply andb_prop in H. destruct H as [Hx Hr]. constructor; [|apply IH; exact Hr].
  intros Hin. apply negb_true_iff in Hx.
  assert (existsb (str_eqb x) r = true) by (apply existsb_exists; exists x; split; [exact Hin|apply str_eqb_refl]).
  congruence.
Qed.

Lemma map_insert_fresh (k v : str) (m : list (str * str)) :
  ~ In k (map fst m) -> map_insert k v m = m ++ [(k, v)].
Proof.
  induction m as [|[k' v'] m IH]; intros H; [reflexivity|].
  cbn [map fst In] in H. cbn [map_insert].
  destruct (str_eqb k k') eqn:E.
  - apply str_eqb_eq in E. exfalso. apply H. left. symmetry. exact E.
  - cbn [app]. f_equal. apply IH. intros Hin. apply H. right. exact Hin.
Qed.

Definition kv_text (kv : str * str) : str := fst kv ++ 61 :: snd kv.

Lemma ple_extra_text_map (order : list (str * str)) :
  ple_extra_text order = flat_map (fun x => 32 :: x) (map kv_text order).
Proof.
  unfold ple_extra_text. induction order as [|kv r IH]; [reflexivity|].
  cbn [flat_map map]. rewrite IH. reflexivity.
Qed.

Lemma kv_text_token (kv : str * str) :
  kv_piece (fst kv) && kv_piece (snd kv) = true -> is_token (kv_text kv) = true.
Proof.
  intros H. apply andb_prop in H. destruct H as [Hk Hv]. unfold kv_piece in Hk, Hv.
  apply andb_prop in Hk. destruct Hk as [Hk _]. apply andb_prop in Hv. destruct Hv as [Hv _].
  unfold is_token, kv_text. apply andb_true_intro. split.
  - destruct (fst kv); reflexivity.
  - rewrite nows_app. rewrite Hk. cbn [nows forallb andb]. exact Hv.
Qed.

Lemma ple_extras_fresh (ord : list (str * str)) : forall m,
  forallb (fun kv => kv_piece (fst kv) && kv_piece (snd kv)) ord = true ->
  NoDup (map fst (m ++ ord)) ->
  ple_extras (map kv_text ord) m = Ok (m ++ ord).
Proof.
  induction ord as [|[k v] r IH]; intros m Hp Hn.
  - cbn. rewrite app_nil_r. reflexivity.
  - cbn [forallb fst snd] in Hp. apply andb_prop in Hp. destruct Hp as [Hkv Hr].
    apply andb_prop in Hkv. destruct Hkv as [Hk Hv]. unfold kv_piece in Hk, Hv.
    apply andb_prop in Hk. destruct Hk as [_ Hk]. apply andb_prop in Hv. destruct Hv as [_ Hv].
    apply negb_true_iff in Hk. apply negb_true_iff in Hv.
    cbn [map ple_extras]. unfold kv_text at 1. cbn [fst snd].
    rewrite (split_char_app 61 k v Hk), (split_char_plain 61 v Hv).
    assert (Hfresh : ~ In k (map fst m)).
    { rewrite map_app in Hn. cbn [map fst] in Hn. apply NoDup_remove_2 in Hn.
      intros Hin. apply Hn. apply in_or_app. left. exact Hin. }
    rewrite (map_insert_fresh k v m Hfresh).
    rewrite IH; [rewrite <- app_assoc; reflexivity|exact Hr|].
    rewrite <- app_assoc. exact Hn.
Qed.

(* Display iterates the HashMap in some order: whatever permutation [order] of the extras is
   printed, the text reads back as the same entry, with the extras in that order. *)
Theorem ple_roundtrip (prio : enum_tab) (v : ple) (order : list (str * str)) :
  enum_ok prio = true -> enum_tokens_ok prio = true -> ple_valid prio v = true ->
  Permutation order (pl_extra v) ->
  exists text, ple_to_string prio v order = Ok text /\
    ple_from_str prio text =
      Ok {| pl_package := pl_package v; pl_type := pl_type v; pl_section := pl_section v;
            pl_priority := pl_priority v; pl_extra := order |}.
Proof.
  intros Hok Htk H Hperm. unfold ple_valid in H.
  apply andb_prop in H. destruct H as [H H0]. apply andb_prop in H. destruct H as [H H1].
  apply andb_prop in H. destruct H as [H H2]. apply andb_prop in H. destruct H as [H H3].
  apply andb_prop in H. destruct H as [H5 H4].
  apply N.ltb_lt in H2.
  destruct (enum_roundtrip prio Hok _ H2) as [kw [Hpr Hpa]].
  pose proof (enum_tokens_ok_token prio _ kw Htk H2 Hpr) as Hkw.
  assert (Hpieces : forallb (fun kv => kv_piece (fst kv) && kv_piece (snd kv)) order = true).
  { rewrite forallb_forall in H1 |- *. intros kv Hin. apply H1. eapply Permutation_in; eassumption. }
  assert (Hnd : NoDup (map fst order)).
  { apply nodupb_NoDup in H0. eapply Permutation_NoDup; [|exact H0].
    apply Permutation_map. apply Permutation_sym. exact Hperm. }
  unfold ple_to_string. rewrite Hpr. cbn [bind]. eexists. split; [reflexivity|].
  rewrite ple_extra_text_map, <- join_sp_app by discriminate.
  unfold ple_from_str. rewrite split_ws_join.
  - cbn [app]. rewrite Hpa. cbn [bind]. rewrite (ple_extras_fresh order [] Hpieces Hnd). reflexivity.
  - apply Forall_app. split; [repeat constructor; assumption|].
    apply Forall_forall. intros x Hx. apply in_map_iff in Hx. destruct Hx as [kv [<- Hin]].
    apply kv_text_token. rewrite forallb_forall in Hpieces. apply Hpieces. exact Hin.
Qed.

(* canonical text: at least four tokens separated by single spaces, every extra token with
   exactly one '=', all keys different *)
Definition kv_of (e : str) : str * str :=
  match split_char 61 e with k :: v :: _ => (k, v) | _ => ([], []) end.
Definition ple_canon (s : str) : bool :=
  let ts := split_ws s in
  str_eqb s (join_sp ts) && (4 <=? length ts)%nat &&
  forallb (fun e => match split_char 61 e with [_; _] => true | _ => false end) (skipn 4 ts) &&
  nodupb (map (fun e => fst (kv_of e)) (skipn 4 ts)).

Lemma ple_extras_canon (es : list str) : forall m,
  forallb (fun e => match split_char 61 e with [_; _] => true | _ => false end) es = true ->
  NoDup (map fst m ++ map (fun e => fst (kv_of e)) es) ->
  ple_extras es m = Ok (m ++ map kv_of es).
Proof.
  induction es as [|e r IH]; intros m Hs Hn.
  - cbn. rewrite app_nil_r. reflexivity.
  - cbn [forallb] in Hs. apply andb_prop in Hs. destruct Hs as [He Hr].
    cbn [ple_extras map] in Hn |- *.
    destruct (split_char 61 e) as [|k [|v [|w l]]] eqn:S; try discriminate He.
    assert (K : kv_of e = (k, v)) by (unfold kv_of; rewrite S; reflexivity).
    rewrite K in Hn |- *. cbn [fst] in Hn.
    assert (Hfresh : ~ In k (map fst m)).
    { apply NoDup_remove_2 in Hn. intros Hin. apply Hn. apply in_or_app. left. exact Hin. }
    rewrite (map_insert_fresh k v m Hfresh).
    rewrite IH; [rewrite <- app_assoc; reflexivity|exact Hr|].
    rewrite map_app. cbn [map fst]. rewrite <- app_assoc. exact Hn.
Qed.

Lemma kv_text_of (e : str) :
  match split_char 61 e with [_; _] => true | _ => false end = true -> kv_text (kv_of e) = e.
Proof.
  intros H. pose proof (join_split_char 61 e) as J. unfold kv_of, kv_text.
  destruct (split_char 61 e) as [|k [|v [|w l]]]; try discriminate H. cbn [fst snd]. exact J.
Qed.

Theorem ple_canonical (prio : enum_tab) (s : str) (v : ple) :
  enum_ok prio = true -> et_pre prio = PreNone ->
  ple_canon s = true -> ple_from_str prio s = Ok v -> ple_to_string prio v (pl_extra v) = Ok s.
Proof.
  unfold ple_canon, ple_from_str. intros Hok Hpre Hc Hp.
  apply andb_prop in Hc. destruct Hc as [Hc Hc0]. apply andb_prop in Hc. destruct Hc as [Hc Hc2].
  apply andb_prop in Hc. destruct Hc as [Hc Hc1].
  apply str_eqb_eq in Hc.
  destruct (split_ws s) as [|a [|b [|c [|d es]]]]; try discriminate Hc1.
  cbn [skipn] in Hc0, Hc2.
  apply bind_ok in Hp. destruct Hp as [pv [Hpv Hp]].
  apply bind_ok in Hp. destruct Hp as [ex [Hex Hv]]. inversion Hv; subst v. clear Hv.
  destruct (enum_canonical prio Hok d pv Hpv) as [d' [Hd' [Hpr _]]].
  unfold enum_pre in Hd'. rewrite Hpre in Hd'. inversion Hd'; subst d'.
  rewrite (ple_extras_canon es [] Hc2) in Hex by (cbn [map app]; apply nodupb_NoDup; exact Hc0).
  inversion Hex; subst ex. cbn [app].
  unfold ple_to_string. cbn [pl_package pl_type pl_section pl_priority pl_extra]. rewrite Hpr. cbn [bind].
  f_equal. rewrite ple_extra_text_map, <- join_sp_app by discriminate.
  rewrite map_map. rewrite (map_ext_in _ (fun e => e)).
  - rewrite map_id. cbn [app]. symmetry. exact Hc.
  - intros e Hin. apply kv_text_of. rewrite forallb_forall in Hc2. apply Hc2. exact Hin.
Qed.

(* the guards are needed *)
Lemma ple_key_guard_needed :       (* a key containing '=' *)
  exists prio v, enum_ok prio = true /\ ple_valid prio v = false /\
    forall text, ple_to_string prio v (pl_extra v) = Ok text -> ple_from_str prio text <> Ok v.
Proof.
  exists {| et_name := []; et_variants := [[79]]; et_display := [(0, [111])]; et_pre := PreNone;
            et_fromstr := [([111], 0)]; et_default := DefErr; et_recognised := true |}.
  exists {| pl_package := [112]; pl_type := [116]; pl_section := [115]; pl_priority := 0;
            pl_extra := [([97; 61; 98], [99])] |}.
  split; [reflexivity|]. split; [reflexivity|].
  intros text H. vm_compute in H. inversion H; subst text. vm_compute. discriminate.
Qed.

(* ================================================================== BuildProfile *)
Definition profile_valid (v : build_profile) : bool :=
  match v with Enabled s => negb (starts_with [33] s) | Disabled _ => true end.

Theorem profile_roundtrip (v : build_profile) :
  profile_valid v = true -> profile_from_str (profile_to_string v) = Ok v.
Proof.
  destruct v as [s|s]; cbn [profile_valid profile_to_string]; intros H; unfold profile_from_str.
  - apply negb_true_iff in H. apply strip_prefix_starts in H. rewrite H. reflexivity.
  - change (33 :: s) with ([33] ++ s). rewrite strip_prefix_app. reflexivity.
Qed.

Theorem profile_canonical (s : str) (v : build_profile) :
  profile_from_str s = Ok v -> profile_to_string v = s.
Proof.
  unfold profile_from_str. destruct (strip_prefix [33] s) as [r|] eqn:E; intros H; inversion H; subst v.
  - apply strip_prefix_some in E. symmetry. exact E.
  - reflexivity.
Qed.

Lemma profile_guard_needed :
  exists v, profile_valid v = false /\ profile_from_str (profile_to_string v) <> Ok v.
Proof. exists (Enabled [33; 120]). split; [reflexivity|]. vm_compute. discriminate. Qed.

(* ================================================================== Forwarded *)
Definition forwarded_valid (v : forwarded) : bool :=
  match v with FwYes s => negb (str_eqb s lit_no) && negb (str_eqb s lit_not_needed) | _ => true end.

Theorem forwarded_roundtrip (v : forwarded) :
  forwarded_valid v = true -> forwarded_from_str (forwarded_to_string v) = Ok v.
Proof.
  destruct v as [| |s]; cbn [forwarded_valid forwarded_to_string]; intros H; [reflexivity|reflexivity|].
  apply andb_prop in H. destruct H as [H1 H2]. apply negb_true_iff in H1. apply negb_true_iff in H2.
  unfold forwarded_from_str. rewrite H1, H2. reflexivity.
Qed.

Theorem forwarded_canonical (s : str) (v : forwarded) :
  forwarded_from_str s = Ok v -> forwarded_to_string v = s.
Proof.
  unfold forwarded_from_str. destruct (str_eqb s lit_no) eqn:E1.
  - intros H. inversion H. apply str_eqb_eq in E1. symmetry. exact E1.
  - destruct (str_eqb s lit_not_needed) eqn:E2; intros H; inversion H.
    + apply str_eqb_eq in E2. symmetry. exact E2.
    + reflexivity.
Qed.

Lemma forwarded_guard_needed :
  exists v, forwarded_valid v = false /\ forwarded_from_str (forwarded_to_string v) <> Ok v.
Proof. exists (FwYes lit_no). split; [reflexivity|]. vm_compute. discriminate. Qed.

(* ================================================================== Origin, AppliedUpstream *)
Definition commit_or_valid (v : commit_or) : bool :=
  match v with Other s => negb (starts_with lit_commit s) | Commit _ => true end.

Theorem origin_roundtrip (v : commit_or) :
  commit_or_valid v = true -> origin_from_str (origin_to_string v) = Ok v.
Proof.
  destruct v as [s|s]; cbn [commit_or_valid origin_to_string]; intros H; unfold origin_from_str.
  - rewrite strip_prefix_app. reflexivity.
  - apply negb_true_iff in H. apply strip_prefix_starts in H. rewrite H. reflexivity.
Qed.

Theorem origin_canonical (s : str) (v : commit_or) :
  origin_from_str s = Ok v -> origin_to_string v = s.
Proof.
  unfold origin_from_str. destruct (strip_prefix lit_commit s) as [r|] eqn:E; intros H; inversion H; subst v.
  - apply strip_prefix_some in E. symmetry. exact E.
  - reflexivity.
Qed.

Theorem applied_roundtrip (v : commit_or) :
  commit_or_valid v = true -> applied_from_str (applied_to_string v) = Ok v.
Proof. exact (origin_roundtrip v). Qed.

Theorem applied_canonical (s : str) (v : commit_or) :
  applied_from_str s = Ok v -> applied_to_string v = s.
Proof. exact (origin_canonical s v). Qed.

Lemma origin_guard_needed :
  exists v, commit_or_valid v = false /\ origin_from_str (origin_to_string v) <> Ok v
            /\ applied_from_str (applied_to_string v) <> Ok v.
Proof. exists (Other (lit_commit ++ [120])). split; [reflexivity|]. split; vm_compute; discriminate. Qed.

(* ================================================================== parse_origin / format_origin *)
(* the first `sep`-separated piece of a text *)
Definition first_piece (o : origin_tab) (s : str) : str :=
  match split_once_str (ot_sep_parse o) s with Some (a, _) => a | None => s end.

Definition porigin_valid (cat : enum_tab) (o : origin_tab) (c : option N) (v : commit_or) : bool :=
  commit_or_valid v &&
  match c with
  | Some c => c <? enum_size cat
  | None => match assoc_s (first_piece o (origin_to_string v)) (ot_arms o) with None => true | Some _ => false end
  end.

Lemma origin_dispatch (body : str) (v : commit_or) :
  commit_or_valid v = true -> body = origin_to_string v ->
  match strip_prefix lit_commit body with Some r => Commit r | None => Other body end = v.
Proof.
  intros Hv ->. pose proof (origin_roundtrip v Hv) as R. unfold origin_from_str in R.
  destruct (strip_prefix lit_commit (origin_to_string v)); inversion R; reflexivity.
Qed.

Lemma dispatch_pair {C} (cat : C) (body : str) :
  match strip_prefix lit_commit body with Some r => (cat, Commit r) | None => (cat, Other body) end =
  (cat, match strip_prefix lit_commit body with Some r => Commit r | None => Other body end).
Proof. destruct (strip_prefix lit_commit body); reflexivity. Qed.

Lemma skipn_app_length {A} (a b : list A) : skipn (length a) (a ++ b) = b.
Proof. induction a; [reflexivity|exact IHa]. Qed.

Theorem porigin_roundtrip (cat : enum_tab) (o : origin_tab) (c : option N) (v : commit_or) :
  enum_ok cat = true -> origin_ok cat o = true -> porigin_valid cat o c v = true ->
  exists text, format_origin cat o c v = Ok text /\ parse_origin o text = (c, v).
Proof.
  intros Hok Ho H. destruct (origin_ok_facts cat o Ho) as [Hsep Hne Hkw Harm].
  unfold porigin_valid in H. apply andb_prop in H. destruct H as [Hv Hc].
  destruct c as [c|].
  - apply N.ltb_lt in Hc. destruct (Hkw c Hc) as [k [Hpr [Has Hfs]]].
    unfold format_origin. rewrite Hpr. cbn [bind]. eexists. split; [reflexivity|].
    unfold parse_origin, split_once_str. rewrite <- Hsep.
    rewrite (find_sub_extend _ _ (origin_to_string v) Hfs).
    rewrite skipn_app_length. rewrite Has. cbv beta iota.
    rewrite dispatch_pair, (origin_dispatch _ v Hv eq_refl). reflexivity.
  - unfold format_origin. eexists. split; [reflexivity|].
    unfold parse_origin. unfold first_piece in Hc.
    destruct (split_once_str (ot_sep_parse o) (origin_to_string v)) as [[a b]|];
      destruct (assoc_s _ (ot_arms o)); try discriminate Hc; cbv beta iota;
      rewrite dispatch_pair, (origin_dispatch _ v Hv eq_refl); reflexivity.
Qed.

(* printing a parsed text returns it, unless the text is a bare category keyword (its printed
   form gets the separator appended) *)
Definition porigin_canon (o : origin_tab) (s : str) : bool :=
  match split_once_str (ot_sep_parse o) s with
  | Some _ => true
  | None => match assoc_s s (ot_arms o) with None => true | Some _ => false end
  end.

Lemma origin_dispatch_text (body : str) :
  origin_to_string (match strip_prefix lit_commit body with Some r => Commit r | None => Other body end) = body.
Proof.
  destruct (strip_prefix lit_commit body) as [r|] eqn:E; cbn [origin_to_string]; [|reflexivity].
  apply strip_prefix_some in E. symmetry. exact E.
Qed.

Theorem porigin_canonical (cat : enum_tab) (o : origin_tab) (s : str) (c : option N) (v : commit_or) :
  enum_ok cat = true -> origin_ok cat o = true ->
  porigin_canon o s = true -> parse_origin o s = (c, v) -> format_origin cat o c v = Ok s.
Proof.
  intros Hok Ho Hcan Hp. destruct (origin_ok_facts cat o Ho) as [Hsep Hne Hkw Harm].
  unfold porigin_canon in Hcan. unfold parse_origin in Hp.
  destruct (split_once_str (ot_sep_parse o) s) as [[a b]|] eqn:S.
  - unfold split_once_str in S.
    destruct (find_sub (ot_sep_parse o) s) as [[a' b']|] eqn:F; [|discriminate S].
    inversion S; subst a' b. clear S.
    destruct (find_sub_some _ _ _ _ F) as [Es Hst]. apply starts_with_split in Hst.
    destruct (assoc_s a (ot_arms o)) as [c'|] eqn:A; cbv beta iota in Hp; rewrite dispatch_pair in Hp.
    + apply pair_equal_spec in Hp; destruct Hp as [Hc' Hv']; subst c v. destruct (Harm a c' A) as [_ Hpr].
      unfold format_origin. rewrite Hpr. cbn [bind]. f_equal.
      rewrite origin_dispatch_text. rewrite <- Hsep. rewrite Es. f_equal. symmetry. exact Hst.
    + apply pair_equal_spec in Hp; destruct Hp as [Hc' Hv']; subst c v. unfold format_origin. f_equal. apply origin_dispatch_text.
  - destruct (assoc_s s (ot_arms o)) eqn:A; [discriminate Hcan|].
    cbv beta iota in Hp. rewrite dispatch_pair in Hp. apply pair_equal_spec in Hp; destruct Hp as [Hc' Hv']; subst c v. unfold format_origin. f_equal. apply origin_dispatch_text.
Qed.

(* ================================================================== License *)
Definition license_valid (v : license) : bool :=
  match v with
  | LName n => negb (contains_char 10 n)
  | LText _ => true
  | LNamed n _ => negb (is_empty n) && negb (contains_char 10 n)
  end.

Theorem license_roundtrip (v : license) :
  license_valid v = true -> license_from_str (license_to_string v) = Ok v.
Proof.
  destruct v as [n|t|n t]; cbn [license_valid license_to_string]; intros H; unfold license_from_str.
  - apply negb_true_iff in H. apply split_once_none in H. rewrite H. reflexivity.
  - change (10 :: t) with ([] ++ 10 :: t). rewrite (split_once_app 10 [] t eq_refl). reflexivity.
  - apply andb_prop in H. destruct H as [Hn Hc]. apply negb_true_iff in Hc.
    rewrite (split_once_app 10 n t Hc). destruct n; [discriminate Hn|reflexivity].
Qed.

Theorem license_canonical (s : str) (v : license) :
  license_from_str s = Ok v -> license_to_string v = s.
Proof.
  unfold license_from_str. destruct (split_once 10 s) as [[name rest]|] eqn:E.
  - apply split_once_some in E. destruct E as [-> _].
    destruct name; intros H; inversion H; reflexivity.
  - intros H; inversion H; reflexivity.
Qed.

Lemma license_guard_needed :
  (exists v, license_valid v = false /\ license_from_str (license_to_string v) <> Ok v) /\
  (exists t, license_from_str (license_to_string (LNamed [] t)) <> Ok (LNamed [] t)).
Proof.
  split.
  - exists (LName [97; 10; 98]). split; [reflexivity|]. vm_compute. discriminate.
  - exists [116]. vm_compute. discriminate.
Qed.

(* ================================================================== Signature *)
Definition signature_valid (v : signature) : bool :=
  match v with KeyBlock _ => true | KeyPath p => negb (contains_char 10 p) end.

Lemma contains_false_no_prefix (p : str) :
  contains_char 10 p = false -> strip_prefix [10] p = None.
Proof.
  destruct p as [|c p]; [reflexivity|]. cbn [contains_char existsb strip_prefix]. intros H.
  apply orb_false_iff in H. destruct H as [H _]. rewrite N.eqb_sym. rewrite H. reflexivity.
Qed.

Theorem signature_roundtrip (v : signature) :
  signature_valid v = true -> signature_from_str (signature_to_string v) = Ok v.
Proof.
  destruct v as [t|p]; cbn [signature_valid signature_to_string]; intros H; unfold signature_from_str.
  - change (10 :: t) with ([10] ++ t). rewrite strip_prefix_app. reflexivity.
  - apply negb_true_iff in H. rewrite (contains_false_no_prefix p H), H. reflexivity.
Qed.

(* canonical texts: what Display can write — a text that starts with "\n", or a single line *)
Definition signature_canon (s : str) : bool := starts_with [10] s || negb (contains_char 10 s).

Theorem signature_canonical (s : str) (v : signature) :
  signature_canon s = true -> signature_from_str s = Ok v -> signature_to_string v = s.
Proof.
  unfold signature_canon, signature_from_str. intros Hc Hp.
  destruct (strip_prefix [10] s) as [r|] eqn:E.
  - inversion Hp; subst v. apply strip_prefix_some in E. symmetry. exact E.
  - apply strip_prefix_starts in E. rewrite E in Hc. cbn [orb] in Hc. apply negb_true_iff in Hc.
    rewrite Hc in Hp. inversion Hp; reflexivity.
Qed.

Lemma signature_guard_needed :
  exists v, signature_valid v = false /\ signature_from_str (signature_to_string v) <> Ok v.
Proof. exists (KeyPath [47; 10; 97]). split; [reflexivity|]. vm_compute. discriminate. Qed.

(* the reader as it is in the tree before proposed_fixes/C18-signature-keyblock.patch:
   NO key block reads back as itself *)
Lemma signature_unfixed_refuted :
  forall t, signature_from_str_unfixed (signature_to_string (KeyBlock t)) = Ok (KeyBlock (10 :: t)) /\
            signature_from_str_unfixed (signature_to_string (KeyBlock t)) <> Ok (KeyBlock t).
Proof.
  intros t. assert (E : signature_from_str_unfixed (signature_to_string (KeyBlock t)) = Ok (KeyBlock (10 :: t))).
  { unfold signature_from_str_unfixed. cbn [signature_to_string contains_char existsb]. rewrite N.eqb_refl. reflexivity. }
  split; [exact E|]. rewrite E. intros H. inversion H as [H1].
  apply (f_equal (@length N)) in H1. cbn [length] in H1. lia.
Qed.

Lemma signature_unfixed_witness :
  signature_valid (KeyBlock [97; 10; 98]) = true /\
  signature_from_str_unfixed (signature_to_string (KeyBlock [97; 10; 98])) = Ok (KeyBlock [10; 97; 10; 98]).
Proof. split; reflexivity. Qed.

(* the two readers differ only on texts that start with "\n" *)
Lemma signature_fix_scope (s : str) :
  starts_with [10] s = false -> signature_from_str s = signature_from_str_unfixed s.
Proof.
  intros H. unfold signature_from_str, signature_from_str_unfixed.
  apply strip_prefix_starts in H. rewrite H. reflexivity.
Qed.

(* ================================================================== parse_identity *)
Definition identity_valid (name email : str) : bool :=
  negb (contains_char 60 name) && no_lead_ws name && no_trail_ws name &&
  no_lead_ws email && no_trail_ws email.

Theorem identity_roundtrip (name email : str) :
  identity_valid name email = true ->
  parse_identity (name ++ [32; 60] ++ email ++ [62]) = Ok (name, email).
Proof.
  unfold identity_valid. intros H.
  apply andb_prop in H. destruct H as [H H0]. apply andb_prop in H. destruct H as [H H1].
  apply andb_prop in H. destruct H as [H H2]. apply andb_prop in H. destruct H as [H H3].
  apply negb_true_iff in H.
  assert (Hc : contains_char 60 (name ++ [32]) = false).
  { unfold contains_char. rewrite existsb_app. unfold contains_char in H. rewrite H. reflexivity. }
  unfold parse_identity.
  replace (name ++ [32; 60] ++ email ++ [62]) with ((name ++ [32]) ++ 60 :: (email ++ [62]))
    by (rewrite <- app_assoc; reflexivity).
  rewrite (split_once_app 60 _ _ Hc). rewrite strip_suffix_char_snoc.
  f_equal. f_equal.
  - destruct name as [|c name]; [reflexivity|].
    unfold trim. rewrite trim_start_id by exact H3.
    rewrite trim_end_snoc_ws by reflexivity. apply trim_end_id. exact H2.
  - apply trim_id; assumption.
Qed.

(* ================================================================== the guards of the open types are exact:
   a value reads back from its text form if AND ONLY IF it satisfies the guard *)
Lemma contains_char_split (d : char) (n : str) :
  contains_char d n = true -> exists a b, n = a ++ d :: b /\ contains_char d a = false.
Proof.
  induction n as [|c n IH]; cbn [contains_char existsb]; [discriminate|].
  destruct (c =? d) eqn:E.
  - intros _. apply N.eqb_eq in E. subst c. exists [], n. split; reflexivity.
  - cbn [orb]. intros H. destruct (IH H) as [a [b [-> Ha]]]. exists (c :: a), b. split; [reflexivity|].
    cbn [contains_char existsb]. rewrite E. exact Ha.
Qed.

Theorem profile_guard_exact (v : build_profile) :
  profile_from_str (profile_to_string v) = Ok v <-> profile_valid v = true.
Proof.
  split; [|apply profile_roundtrip].
  destruct v as [s|s]; cbn [profile_valid profile_to_string]; [|reflexivity].
  unfold profile_from_str. destruct (strip_prefix [33] s) as [r|] eqn:E; [discriminate|].
  intros _. apply strip_prefix_starts in E. rewrite E. reflexivity.
Qed.

Theorem forwarded_guard_exact (v : forwarded) :
  forwarded_from_str (forwarded_to_string v) = Ok v <-> forwarded_valid v = true.
Proof.
  split; [|apply forwarded_roundtrip].
  destruct v as [| |s]; cbn [forwarded_valid forwarded_to_string]; [reflexivity|reflexivity|].
  unfold forwarded_from_str. destruct (str_eqb s lit_no); [discriminate|].
  destruct (str_eqb s lit_not_needed); [discriminate|]. reflexivity.
Qed.

Theorem origin_guard_exact (v : commit_or) :
  (origin_from_str (origin_to_string v) = Ok v <-> commit_or_valid v = true) /\
  (applied_from_str (applied_to_string v) = Ok v <-> commit_or_valid v = true).
Proof.
  assert (G : origin_from_str (origin_to_string v) = Ok v <-> commit_or_valid v = true).
  { split; [|apply origin_roundtrip].
    destruct v as [s|s]; cbn [commit_or_valid origin_to_string]; [reflexivity|].
    unfold origin_from_str. destruct (strip_prefix lit_commit s) as [r|] eqn:E; [discriminate|].
    intros _. apply strip_prefix_starts in E. rewrite E. reflexivity. }
  split; exact G.
Qed.

Theorem license_guard_exact (v : license) :
  license_from_str (license_to_string v) = Ok v <-> license_valid v = true.
Proof.
  split; [|apply license_roundtrip].
  destruct v as [n|t|n t]; cbn [license_valid license_to_string]; [| reflexivity |].
  - unfold license_from_str. destruct (split_once 10 n) as [[a b]|] eqn:E.
    + destruct a; discriminate.
    + intros _. apply split_once_none in E. rewrite E. reflexivity.
  - intros H. destruct n as [|c n].
    + exfalso. cbn [app] in H. unfold license_from_str in H.
      change (10 :: t) with ([] ++ 10 :: t) in H. rewrite (split_once_app 10 [] t eq_refl) in H.
      cbn [is_empty] in H. discriminate H.
    + cbn [is_empty negb andb]. destruct (contains_char 10 (c :: n)) eqn:C; [|reflexivity]. exfalso.
      destruct (contains_char_split 10 _ C) as [a [b [En Ha]]].
      unfold license_from_str in H. rewrite En, <- app_assoc in H. cbn [app] in H.
      rewrite (split_once_app 10 a (b ++ 10 :: t) Ha) in H.
      destruct a as [|x a]; cbn [is_empty] in H; [discriminate H|].
      apply Ok_eq in H.
      apply (f_equal (fun l => match l with LNamed n _ => length n | _ => O end)) in H.
      cbn [app length] in H. rewrite app_length in H. cbn [length] in H. lia.
Qed.

Theorem signature_guard_exact (v : signature) :
  signature_from_str (signature_to_string v) = Ok v <-> signature_valid v = true.
Proof.
  split; [|apply signature_roundtrip].
  destruct v as [t|p]; cbn [signature_valid signature_to_string]; [reflexivity|].
  unfold signature_from_str. destruct (strip_prefix [10] p); [discriminate|].
  destruct (contains_char 10 p); [discriminate|reflexivity].
Qed.
