(* Lemmas about model/Glob.v: glob_to_regex is total exactly on patterns with valid escapes, and
   the regex it builds accepts exactly the paths the DEP-5 reading of the pattern accepts. *)
From V.model Require Import Base Glob.
From V.proofs Require Import BaseP.

Local Open Scope N_scope.

(* ---------------------------------------------------------------- unfolding lemmas *)
Lemma rmatch_star d r p :
  rmatch d (RAnyStar :: r) p =
  rmatch d r p || match p with x :: p' => any_ok d x && rmatch d (RAnyStar :: r) p' | [] => false end.
Proof. destruct p; reflexivity. Qed.

Lemma spec_match_star g p :
  spec_match (42 :: g) p =
  spec_match g p || match p with _ :: p' => spec_match (42 :: g) p' | [] => false end.
Proof. destruct p; reflexivity. Qed.

Lemma spec_match_one g p :
  spec_match (63 :: g) p = match p with _ :: p' => spec_match g p' | [] => false end.
Proof. reflexivity. Qed.

Lemma spec_match_esc x g p :
  spec_match (92 :: x :: g) p = match p with y :: p' => (y =? x) && spec_match g p' | [] => false end.
Proof. reflexivity. Qed.

Lemma spec_match_lit c g p : is_glob_special c = false ->
  spec_match (c :: g) p = match p with y :: p' => (y =? c) && spec_match g p' | [] => false end.
Proof.
  unfold is_glob_special. intro H.
  apply orb_false_iff in H. destruct H as [H H92]. apply orb_false_iff in H. destruct H as [H63 H42].
  cbn [spec_match]. rewrite H42, H63, H92. reflexivity.
Qed.

Lemma special_cases c : is_glob_special c = true -> c = 63 \/ c = 42 \/ c = 92.
Proof.
  unfold is_glob_special. intro H. apply orb_true_iff in H. destruct H as [H|H].
  - apply orb_true_iff in H. destruct H as [H|H]; apply N.eqb_eq in H; auto.
  - apply N.eqb_eq in H. auto.
Qed.

(* ---------------------------------------------------------------- totality / panics *)
(* recursion in the model skips two characters at an escape: induct on a length bound *)
Lemma glob_to_regex_cases_n n : forall g, (length g <= n)%nat ->
  (valid_escapes g = true /\ exists r, glob_to_regex g = Ok r) \/
  (valid_escapes g = false /\ exists k, glob_to_regex g = Panic k).
Proof.
  induction n as [|n IH]; intros g Hl.
  - destruct g; [|cbn in Hl; lia]. left. split; [reflexivity|]. exists []. reflexivity.
  - destruct g as [|c g]; [left; split; [reflexivity|exists []; reflexivity]|].
    cbn [length] in Hl. assert (Hg : (length g <= n)%nat) by lia.
    cbn [glob_to_regex valid_escapes].
    destruct (c =? 42) eqn:E42.
    { assert (c =? 92 = false) as -> by (apply N.eqb_eq in E42; subst; reflexivity).
      destruct (IH g Hg) as [[V [r E]]|[V [k E]]]; rewrite E; [left|right]; split; auto.
      - exists (RAnyStar :: r). reflexivity.
      - exists k. reflexivity. }
    destruct (c =? 63) eqn:E63.
    { assert (c =? 92 = false) as -> by (apply N.eqb_eq in E63; subst; reflexivity).
      destruct (IH g Hg) as [[V [r E]]|[V [k E]]]; rewrite E; [left|right]; split; auto.
      - exists (RAny :: r). reflexivity.
      - exists k. reflexivity. }
    destruct (c =? 92) eqn:E92.
    { destruct g as [|x g']; [right; split; [reflexivity|exists 2; reflexivity]|].
      cbn [length] in Hg. assert (Hg' : (length g' <= n)%nat) by lia.
      destruct (is_glob_special x) eqn:Sx.
      - cbn [andb]. destruct (IH g' Hg') as [[V [r E]]|[V [k E]]]; rewrite E; [left|right]; split; auto.
        + exists (RLit x :: r). reflexivity.
        + exists k. reflexivity.
      - right. split; [reflexivity|]. exists 1. reflexivity. }
    destruct (IH g Hg) as [[V [r E]]|[V [k E]]]; rewrite E; [left|right]; split; auto.
    + exists (RLit c :: r). reflexivity.
    + exists k. reflexivity.
Qed.

Lemma glob_to_regex_cases g :
  (valid_escapes g = true /\ exists r, glob_to_regex g = Ok r) \/
  (valid_escapes g = false /\ exists k, glob_to_regex g = Panic k).
Proof. exact (glob_to_regex_cases_n (length g) g (le_n _)). Qed.

Lemma glob_to_regex_ok g : valid_escapes g = true -> exists r, glob_to_regex g = Ok r.
Proof.
  intro V. destruct (glob_to_regex_cases g) as [[_ H]|[V' _]]; [exact H|congruence].
Qed.

Lemma glob_panics_iff g : (exists k, glob_to_regex g = Panic k) <-> valid_escapes g = false.
Proof.
  destruct (glob_to_regex_cases g) as [[V [r E]]|[V [k E]]]; split; intro H; auto.
  - destruct H as [k H]. congruence.
  - congruence.
  - exists k. exact E.
Qed.

(* ---------------------------------------------------------------- regex = reference matcher *)
Lemma rmatch_spec_n n : forall g r, (length g <= n)%nat -> glob_to_regex g = Ok r ->
  forall p, rmatch true r p = spec_match g p.
Proof.
  induction n as [|n IH]; intros g r Hl E p.
  - destruct g; [|cbn in Hl; lia]. cbn in E. injection E as <-. reflexivity.
  - destruct g as [|c g]; [cbn in E; injection E as <-; reflexivity|].
    cbn [length] in Hl. assert (Hg : (length g <= n)%nat) by lia.
    cbn [glob_to_regex] in E.
    destruct (c =? 42) eqn:E42.
    { apply N.eqb_eq in E42. subst c.
      destruct (glob_to_regex g) as [r'| | |] eqn:Eg; cbn in E; try discriminate. injection E as <-.
      pose proof (IH g r' Hg Eg) as IHg.
      induction p as [|x p IHp].
      - rewrite rmatch_star, spec_match_star, IHg. reflexivity.
      - rewrite rmatch_star, spec_match_star, IHg, IHp. reflexivity. }
    destruct (c =? 63) eqn:E63.
    { apply N.eqb_eq in E63. subst c.
      destruct (glob_to_regex g) as [r'| | |] eqn:Eg; cbn in E; try discriminate. injection E as <-.
      rewrite spec_match_one. cbn [rmatch]. destruct p as [|x p]; [reflexivity|].
      cbn [any_ok orb andb]. apply (IH g r' Hg Eg). }
    destruct (c =? 92) eqn:E92.
    { apply N.eqb_eq in E92. subst c.
      destruct g as [|x g']; [discriminate|].
      cbn [length] in Hg. assert (Hg' : (length g' <= n)%nat) by lia.
      destruct (is_glob_special x) eqn:Sx; [|discriminate].
      destruct (glob_to_regex g') as [r'| | |] eqn:Eg; cbn in E; try discriminate. injection E as <-.
      rewrite spec_match_esc. cbn [rmatch]. destruct p as [|y p]; [reflexivity|].
      rewrite (IH g' r' Hg' Eg). reflexivity. }
    destruct (glob_to_regex g) as [r'| | |] eqn:Eg; cbn in E; try discriminate. injection E as <-.
    rewrite spec_match_lit by (unfold is_glob_special; rewrite E42, E63, E92; reflexivity).
    cbn [rmatch]. destruct p as [|y p]; [reflexivity|].
    rewrite (IH g r' Hg Eg). reflexivity.
Qed.

Lemma rmatch_spec g r : glob_to_regex g = Ok r -> forall p, rmatch true r p = spec_match g p.
Proof. exact (rmatch_spec_n (length g) g r (le_n _)). Qed.

(* ---------------------------------------------------------------- reference matcher = relation *)
Lemma glob_matches_valid g p : glob_matches g p -> valid_escapes g = true.
Proof.
  induction 1 as [|g run p _ IH|g x p _ IH|g c p S _ IH|g c p S _ IH]; cbn [valid_escapes]; auto.
  - rewrite S. exact IH.
  - destruct (c =? 92) eqn:E; [|exact IH].
    apply N.eqb_eq in E. subst c. discriminate.
Qed.

Lemma spec_match_star_app g run p : spec_match g p = true -> spec_match (42 :: g) (run ++ p) = true.
Proof.
  intro H. induction run as [|x run IH]; cbn [app]; rewrite spec_match_star.
  - rewrite H. reflexivity.
  - rewrite IH. apply orb_true_r.
Qed.

Lemma glob_matches_spec g p : glob_matches g p -> spec_match g p = true.
Proof.
  induction 1 as [|g run p _ IH|g x p _ IH|g c p S _ IH|g c p S _ IH].
  - reflexivity.
  - apply spec_match_star_app. exact IH.
  - rewrite spec_match_one. exact IH.
  - rewrite spec_match_esc, N.eqb_refl. exact IH.
  - rewrite (spec_match_lit c g _ S), N.eqb_refl. exact IH.
Qed.

Lemma spec_glob_matches_n n : forall g p, (length g <= n)%nat ->
  valid_escapes g = true -> spec_match g p = true -> glob_matches g p.
Proof.
  induction n as [|n IH]; intros g p Hl V M.
  - destruct g; [|cbn in Hl; lia]. destruct p; [constructor|discriminate].
  - destruct g as [|c g]; [destruct p; [constructor|discriminate]|].
    cbn [length] in Hl. assert (Hg : (length g <= n)%nat) by lia.
    cbn [valid_escapes] in V.
    destruct (c =? 42) eqn:E42.
    { apply N.eqb_eq in E42. subst c. cbn in V.
      induction p as [|x p IHp]; rewrite spec_match_star in M.
      - rewrite orb_false_r in M. apply (gm_star g [] []). apply IH; auto.
      - apply orb_true_iff in M. destruct M as [M|M].
        + apply (gm_star g [] (x :: p)). apply IH; auto.
        + specialize (IHp M). inversion IHp as [|g0 run p0 Hm Eg Ep| | |]; subst.
          * apply (gm_star g (x :: run) p0). exact Hm.
          * discriminate. }
    destruct (c =? 63) eqn:E63.
    { apply N.eqb_eq in E63. subst c. cbn in V.
      rewrite spec_match_one in M. destruct p as [|x p]; [discriminate|].
      constructor. apply IH; auto. }
    destruct (c =? 92) eqn:E92.
    { apply N.eqb_eq in E92. subst c.
      destruct g as [|x g']; [discriminate|].
      cbn [length] in Hg. assert (Hg' : (length g' <= n)%nat) by lia.
      apply andb_true_iff in V. destruct V as [Sx V].
      rewrite spec_match_esc in M. destruct p as [|y p]; [discriminate|].
      apply andb_true_iff in M. destruct M as [Eyx M]. apply N.eqb_eq in Eyx. subst y.
      apply gm_esc; auto. }
    assert (S : is_glob_special c = false) by (unfold is_glob_special; rewrite E42, E63, E92; reflexivity).
    rewrite (spec_match_lit c g p S) in M. destruct p as [|y p]; [discriminate|].
    apply andb_true_iff in M. destruct M as [Eyc M]. apply N.eqb_eq in Eyc. subst y.
    apply gm_lit; auto.
Qed.

Lemma spec_match_iff g p : valid_escapes g = true -> (spec_match g p = true <-> glob_matches g p).
Proof.
  intro V. split.
  - exact (spec_glob_matches_n (length g) g p (le_n _) V).
  - apply glob_matches_spec.
Qed.

(* ---------------------------------------------------------------- the result about glob.rs *)
Theorem glob_correct g : valid_escapes g = true ->
  exists r, glob_to_regex g = Ok r /\
    forall p, (rmatch true r p = true <-> glob_matches g p) /\
              glob_match true g p = Ok (spec_match g p).
Proof.
  intro V. destruct (glob_to_regex_ok g V) as [r E]. exists r. split; [exact E|].
  intro p. split.
  - rewrite (rmatch_spec g r E p). apply spec_match_iff. exact V.
  - unfold glob_match. rewrite E. cbn [bind]. rewrite (rmatch_spec g r E p). reflexivity.
Qed.

(* without (?s) the regex agrees with the specification on paths that contain no newline *)
Lemma rmatch_nodot_nolf r : forall p, ~ In 10 p -> rmatch false r p = rmatch true r p.
Proof.
  induction r as [|a r IH]; intros p Hp; [reflexivity|].
  destruct a.
  - cbn [rmatch]. destruct p as [|x p]; [reflexivity|]. rewrite IH; [reflexivity|].
    intro H. apply Hp. right. exact H.
  - cbn [rmatch]. destruct p as [|x p]; [reflexivity|]. rewrite IH by (intro H; apply Hp; right; exact H).
    unfold any_ok. cbn [orb]. destruct (x =? 10) eqn:E; [|reflexivity].
    apply N.eqb_eq in E. subst x. exfalso. apply Hp. left. reflexivity.
  - induction p as [|x p IHp].
    + rewrite !rmatch_star. rewrite IH by exact Hp. reflexivity.
    + rewrite (rmatch_star false), (rmatch_star true). rewrite IH by exact Hp.
      rewrite IHp by (intro H; apply Hp; right; exact H).
      unfold any_ok. cbn [orb]. destruct (x =? 10) eqn:E; [|reflexivity].
      apply N.eqb_eq in E. subst x. exfalso. apply Hp. left. reflexivity.
Qed.

Theorem glob_correct_shipped_nolf g p : valid_escapes g = true -> ~ In 10 p ->
  exists b, glob_match false g p = Ok b /\ (b = true <-> glob_matches g p).
Proof.
  intros V Hp. destruct (glob_to_regex_ok g V) as [r E].
  exists (rmatch false r p). unfold glob_match. rewrite E. split; [reflexivity|].
  rewrite (rmatch_nodot_nolf r p Hp), (rmatch_spec g r E p). apply spec_match_iff. exact V.
Qed.

(* glob_match never produces an error value or runs out of fuel *)
Lemma glob_match_shape d g p :
  (exists b, glob_match d g p = Ok b) \/ (exists k, glob_match d g p = Panic k).
Proof.
  unfold glob_match. destruct (glob_to_regex_cases g) as [[_ [r E]]|[_ [k E]]]; rewrite E; cbn [bind].
  - left. eexists. reflexivity.
  - right. eexists. reflexivity.
Qed.
