(* Two transcriptions of the read accessors of lossless/relations.rs exist: RelAcc.racc (cone C10;
   the version goes through debversion and comes back as its Display text) and RelEdit.structure
   (cone C11; the version text as written).  On EVERY tree -- parsed with or without errors, edited,
   built by hand -- whenever racc yields a value, structure yields the same list of entries of
   alternatives, field by field (the version up to debversion's re-printing). *)
From V.model Require Import Base RelLex RelParse RelAcc.
From V.model Require RelEdit.
From V.proofs Require Import BaseP.

Module ED := RelEdit.

Definition vop_of_vcn (v : ED.vcn) : vop :=
  match v with ED.VGe => VGe | ED.VLe => VLe | ED.VEq => VEq | ED.VGt => VGt | ED.VLt => VLt end.
Definition bprofile_of_profile (p : ED.profile) : bprofile :=
  match p with ED.PEnabled n => Enabled n | ED.PDisabled n => Disabled n end.

(* a record of RelEdit.structure and a record of RelAcc.racc say the same *)
Definition rel_agree (x : ED.relrec) (c : relc) : Prop :=
  ED.rr_name x = c_name c /\ ED.rr_qual x = c_qual c /\ ED.rr_archs x = c_archs c /\
  map (map bprofile_of_profile) (ED.rr_profs x) = c_profs c /\
  match ED.rr_ver x with
  | None => c_ver c = None
  | Some (vc, raw) => exists v', debversion_roundtrip raw = Ok v' /\ c_ver c = Some (vop_of_vcn vc, v')
  end.

(* ---- the helper searches coincide ---- *)
Lemma first_tok_same k cs : ED.first_tok_text k cs = first_tok_of_kind k cs.
Proof.
  unfold ED.first_tok_text. induction cs as [|c r IH]; [reflexivity|]. cbn [find first_tok_of_kind].
  destruct c as [k' s|k' l]; unfold ED.tok_is, ED.kind_is; cbn [is_node negb andb ekind].
  - destruct (rkind_eqb k' k); [reflexivity|exact IH].
  - exact IH.
Qed.

Lemma first_node_same k cs : find (ED.node_is k) cs = first_node_of_kind k cs.
Proof.
  induction cs as [|c r IH]; [reflexivity|]. cbn [find first_node_of_kind].
  destruct c as [k' s|k' l]; unfold ED.node_is, ED.kind_is; cbn [is_node andb ekind].
  - exact IH.
  - destruct (rkind_eqb k' k); [reflexivity|exact IH].
Qed.

Lemma version_text_same cs : ED.version_text_of cs = version_text_of cs.
Proof.
  unfold ED.version_text_of, version_text_of. induction cs as [|c r IH]; [reflexivity|]. cbn [flat_map]. rewrite IH. f_equal.
  destruct c as [k s|k l]; unfold ED.tok_is, ED.kind_is; cbn [is_node negb andb ekind text orb]; reflexivity.
Qed.

Lemma parse_vc_same s : option_map vop_of_vcn (ED.parse_vc s) = vop_of_text s.
Proof.
  unfold ED.parse_vc, vop_of_text.
  repeat match goal with |- context [str_eqb s ?v] => destruct (str_eqb s v); [reflexivity|] end. reflexivity.
Qed.

Lemma arch_names_same cs : forall b, ED.arch_names cs b = arch_fold cs b.
Proof.
  induction cs as [|c r IH]; intros b; [reflexivity|]. cbn [ED.arch_names arch_fold].
  destruct c as [k s|k l]; unfold ED.tok_is, ED.kind_is; cbn [is_node negb andb ekind text].
  - destruct (rkind_eqb k NOT); [apply IH|]. destruct (rkind_eqb k IDENT); [|apply IH]. rewrite IH. destruct b; reflexivity.
  - apply IH.
Qed.

Lemma profile_text_same s : bprofile_of_profile (ED.profile_of_text s) = bprofile_of_text s.
Proof. destruct s as [|c r]; [reflexivity|]. cbn. destruct (c =? 33)%N; reflexivity. Qed.

Lemma profile_group_same cs : forall curl ret,
  profile_fold cs curl ret =
  ret ++ map bprofile_of_profile (ED.profile_group cs (concat curl) (match curl with [] => false | _ => true end)).
Proof.
  induction cs as [|c r IH]; intros curl ret; cbn [profile_fold ED.profile_group].
  - destruct curl as [|x l]; [cbn; rewrite app_nil_r; reflexivity|]. cbn [map]. rewrite profile_text_same. reflexivity.
  - unfold ED.ws_elem, ED.kind_is. destruct (is_ws_kind (ekind c)) eqn:Ew.
    + destruct curl as [|x l].
      * rewrite IH. reflexivity.
      * rewrite IH. cbn [map concat]. rewrite profile_text_same, <- app_assoc. reflexivity.
    + assert (Ea : is_angle (ekind c) = rkind_eqb (ekind c) L_ANGLE || rkind_eqb (ekind c) R_ANGLE) by (destruct (ekind c); reflexivity).
      rewrite <- Ea. destruct (is_angle (ekind c)); [apply IH|].
      rewrite IH. rewrite concat_app. cbn [concat]. rewrite app_nil_r.
      destruct curl; reflexivity.
Qed.

Lemma nodes_same k t : filter (ED.node_is k) (children t) = rnodes_of_kind k t.
Proof. reflexivity. Qed.

(* ---- one relation ---- *)
Lemma relation_agree r c : relation_acc r = Ok c -> exists x, ED.relrec_of r = Ok x /\ rel_agree x c.
Proof.
  unfold relation_acc, ED.relrec_of. unfold relation_name, ED.rel_name. rewrite first_tok_same.
  destruct (first_tok_of_kind IDENT (children r)) as [n|]; [|discriminate].
  unfold relation_version, ED.rel_version. rewrite first_node_same.
  assert (Hrest : forall (v : option (vop * str)) (ev : option (ED.vcn * str)),
            match ev with None => v = None | Some (vc, raw) => exists v', debversion_roundtrip raw = Ok v' /\ v = Some (vop_of_vcn vc, v') end ->
            rel_agree (ED.mk_relrec n (ED.rel_archqual r) ev (ED.rel_architectures r) (ED.rel_profiles r))
                      (mk_relc n (relation_archqual r) v (relation_architectures r) (relation_profiles r))).
  { intros v ev Hv. unfold rel_agree. cbn [ED.rr_name ED.rr_qual ED.rr_ver ED.rr_archs ED.rr_profs c_name c_qual c_ver c_archs c_profs].
    split; [reflexivity|]. split.
    { unfold ED.rel_archqual, relation_archqual. rewrite first_node_same.
      destruct (first_node_of_kind ARCHQUAL (children r)); [apply first_tok_same|reflexivity]. }
    split.
    { unfold ED.rel_architectures, relation_architectures. rewrite first_node_same.
      destruct (first_node_of_kind ARCHITECTURES (children r)); [rewrite arch_names_same|]; reflexivity. }
    split; [|exact Hv].
    unfold ED.rel_profiles, relation_profiles. rewrite nodes_same, map_map. apply map_ext. intros p.
    rewrite profile_group_same. reflexivity. }
  destruct (first_node_of_kind VERSION (children r)) as [vn|].
  2:{ intros H. injection H as <-. eexists. split; [reflexivity|]. apply Hrest. reflexivity. }
  rewrite first_node_same, version_text_same.
  destruct (first_node_of_kind CONSTRAINT (children vn)) as [cn|].
  2:{ intros H. injection H as <-. eexists. split; [reflexivity|]. apply Hrest. reflexivity. }
  destruct (version_text_of (children vn)) as [|v0 vr] eqn:Ev.
  { intros H. injection H as <-. eexists. split; [reflexivity|]. apply Hrest. reflexivity. }
  pose proof (parse_vc_same (text cn)) as Hvc.
  destruct (vop_of_text (text cn)) as [o|]; [|discriminate].
  destruct (ED.parse_vc (text cn)) as [vc|]; [|discriminate]. cbn [option_map] in Hvc. injection Hvc as <-.
  destruct (debversion_roundtrip (v0 :: vr)) as [v'| | |] eqn:Er; try discriminate.
  intros H. injection H as <-. eexists. split; [reflexivity|]. apply Hrest. exists v'. split; [exact Er|reflexivity].
Qed.

(* ---- entries and the field ---- *)
Lemma res_all_mapM {A} (f : A -> res relc) (g : A -> res ED.relrec) (l : list A) cs :
  (forall a c, f a = Ok c -> exists x, g a = Ok x /\ rel_agree x c) ->
  res_all f l = Ok cs -> exists xs, ED.mapM g l = Ok xs /\ Forall2 rel_agree xs cs.
Proof.
  intros Hfg. revert cs. induction l as [|a r IH]; intros cs H; cbn [res_all ED.mapM] in *.
  - injection H as <-. exists []. split; [reflexivity|constructor].
  - destruct (f a) as [c| | |] eqn:Ea; try discriminate. destruct (res_all f r) as [cr| | |] eqn:Er; try discriminate.
    injection H as <-. destruct (Hfg a c Ea) as (x & Ex & Hx). destruct (IH cr eq_refl) as (xs & Exs & Hxs).
    rewrite Ex, Exs. exists (x :: xs). split; [reflexivity|constructor; assumption].
Qed.

Theorem racc_structure t a : racc t = Ok a ->
  exists S, ED.structure t = Ok S /\ Forall2 (Forall2 rel_agree) S (fst a).
Proof.
  unfold racc, ED.structure. destruct (res_all entry_acc (relations_entries t)) as [es| | |] eqn:Ee; try discriminate.
  intros H. injection H as <-. cbn [fst].
  change (ED.entries t) with (relations_entries t).
  revert es Ee. induction (relations_entries t) as [|e r IH]; intros es Ee; cbn [res_all ED.mapM] in *.
  - injection Ee as <-. exists []. split; [reflexivity|constructor].
  - destruct (entry_acc e) as [c| | |] eqn:Ea; try discriminate. destruct (res_all entry_acc r) as [cr| | |] eqn:Er; try discriminate.
    injection Ee as <-. destruct (IH cr eq_refl) as (xs & Exs & Hxs).
    unfold entry_acc in Ea. change (ED.relations e) with (entry_relations e).
    destruct (res_all_mapM relation_acc ED.relrec_of (entry_relations e) c relation_agree Ea) as (x & Ex & Hx).
    rewrite Ex, Exs. exists (x :: xs). split; [reflexivity|constructor; assumption].
Qed.

(* same shape: as many entries, as many alternatives in each *)
Corollary racc_structure_shape t a S : racc t = Ok a -> ED.structure t = Ok S ->
  map (@length _) S = map (@length _) (fst a).
Proof.
  intros Ha HS. destruct (racc_structure t a Ha) as (S' & E & H). rewrite E in HS. injection HS as <-. clear E Ha.
  induction H as [|x c xs cs Hx _ IH]; [reflexivity|]. cbn [map]. f_equal; [|exact IH].
  clear -Hx. induction Hx; [reflexivity|]. cbn [length]. f_equal. assumption.
Qed.
