(* C11, handles obtained at ANY earlier time (RelHandles.v): the register machine of RelEdit.v, variant
   fixed (= with proposed_fixes/C11-10: every edit is an in-place splice), run on ANY program of
   operations through arbitrary registers, refines the list model: the root tree stays the tree
   of a well-formed live layout whose content follows RelLive.xstep, and every register keeps
   denoting what RelHandles.h_op says (the i-th entry, the j-th alternative of the i-th entry,
   positions shifted by the edits in front of them).
     machine lemmas for an arbitrary register file      (this file, on RelEditStP's *_spec lemmas)
     positions in live layouts under the edits          (this file)
     one operation, then programs                       (handles_step, handles_history) *)
From V.model Require Import Base RelLex RelParse RelAcc RelGrammar.
From V.model Require Import RelEdit RelEditSpec RelEditTree RelLive RelHandles.
From V.proofs Require Import BaseP RelEditP RelEditStP RelEditHistP RelEditTreeP RelEditReplaceP RelGrammarAccP.
From V.proofs Require Import RelLiveP RelLiveStepP RelLiveWfP RelLiveNormP RelLiveHistP.

(* ------------------------------------------------------------------ registers *)
Definition reg_at (rs : list (option hnd)) (q : nat) : option hnd :=
  match nth_error rs q with Some o => o | None => None end.
Lemma reg_at_nth rs q g : reg_at rs q = Some g -> nth_error rs q = Some (Some g).
Proof. unfold reg_at. destruct (nth_error rs q) as [[h|]|]; congruence. Qed.
Lemma reg_at_map F rs q : reg_at (map (option_map F) rs) q = option_map F (reg_at rs q).
Proof. unfold reg_at. rewrite nth_error_map. destruct (nth_error rs q) as [[h|]|]; reflexivity. Qed.
Lemma reg_at_nil q : reg_at [] q = None.
Proof. unfold reg_at. destruct q; reflexivity. Qed.
Lemma reg_at_set r o : forall rs q, reg_at (set_reg_l r o rs) q = if q =? r then o else reg_at rs q.
Proof.
  induction r as [|r IH]; intros [|x rs] [|q]; cbn [set_reg_l Nat.eqb]; try reflexivity.
  - change (reg_at [o] (S q)) with (reg_at [] q). now rewrite !reg_at_nil.
  - change (reg_at (None :: set_reg_l r o []) (S q)) with (reg_at (set_reg_l r o []) q). rewrite IH. now rewrite !reg_at_nil.
  - change (reg_at (x :: set_reg_l r o rs) (S q)) with (reg_at (set_reg_l r o rs) q). now rewrite IH.
Qed.
Lemma reg_at_has ts rs r :
  runs (has_reg r) (mk_state ts rs) (match reg_at rs r with Some _ => true | None => false end) (mk_state ts rs).
Proof. eapply runs_eq; [apply runs_has_reg| |reflexivity]. unfold reg_at. destruct (nth_error rs r) as [[h|]|]; reflexivity. Qed.

(* ------------------------------------------------------------------ positions by counting *)
Lemma count_if_app {A} (p : A -> bool) a b : count_if p (a ++ b) = count_if p a + count_if p b.
Proof. unfold count_if. now rewrite filter_app, app_length. Qed.
Lemma count_if_cons {A} (p : A -> bool) x l : count_if p (x :: l) = (if p x then 1 else 0) + count_if p l.
Proof. unfold count_if. cbn [filter]. destruct (p x); reflexivity. Qed.
Lemma nth_index_at {A} (p : A -> bool) pre x post : p x = true ->
  nth_index p (count_if p pre) (pre ++ x :: post) = Some (length pre).
Proof.
  intros Hx. induction pre as [|y r IH]; cbn [app nth_index].
  - now rewrite Hx.
  - rewrite count_if_cons. destruct (p y); cbn [Nat.add]; now rewrite IH.
Qed.
Lemma nth_index_count {A} (p : A -> bool) n l i : nth_index p n l = Some i ->
  exists pre x post, l = pre ++ x :: post /\ length pre = i /\ p x = true /\ count_if p pre = n.
Proof.
  revert n i; induction l as [|c r IH]; intros n i H; cbn in H; [discriminate|].
  destruct (p c) eqn:Pc.
  - destruct n as [|n].
    + inversion H; subst. now exists [], c, r.
    + destruct (nth_index p n r) as [j|] eqn:E; [|discriminate]. cbn in H. inversion H; subst.
      destruct (IH _ _ E) as (pre & x & post & -> & L & Px & C). exists (c :: pre), x, post.
      rewrite count_if_cons, Pc. cbn. auto.
  - destruct (nth_index p n r) as [j|] eqn:E; [|discriminate]. cbn in H. inversion H; subst.
    destruct (IH _ _ E) as (pre & x & post & -> & L & Px & C). exists (c :: pre), x, post.
    rewrite count_if_cons, Pc. cbn. auto.
Qed.
Lemma nth_index_beyond {A} (p : A -> bool) l : forall n, count_if p l <= n -> nth_index p n l = None.
Proof.
  induction l as [|c r IH]; intros n H; [reflexivity|]. rewrite count_if_cons in H. cbn [nth_index].
  destruct (p c).
  - destruct n as [|n]; [lia|]. rewrite IH by lia. reflexivity.
  - rewrite IH by lia. reflexivity.
Qed.
Lemma nth_index_lt {A} (p : A -> bool) l : forall n, n < count_if p l -> exists i, nth_index p n l = Some i.
Proof.
  induction l as [|c r IH]; intros n H; [cbn in H; lia|]. rewrite count_if_cons in H. cbn [nth_index].
  destruct (p c).
  - destruct n as [|n]; [eauto|]. destruct (IH n ltac:(lia)) as (i & ->). cbn. eauto.
  - destruct (IH n ltac:(lia)) as (i & ->). cbn. eauto.
Qed.

(* ------------------------------------------------------------------ the refinement relation *)
(* what a register holds, against the reference the abstract state gives it *)
Definition ref_ok (ts : list slot) (tid : nat) (l : lroot) (o : option hnd) (x : option ref) : Prop :=
  match x, o with
  | None, None => True
  | Some Root, Some g => g = mk_hnd tid []
  | Some (ELive i), Some g => exists ci e, nth_entry l i = Some (ci, e) /\ g = mk_hnd tid [ci]
  | Some (RLive i j), Some g =>
      exists ci e cj, nth_entry l i = Some (ci, e) /\
                      nth_index is_relation j (lentry_children e) = Some cj /\ g = mk_hnd tid [ci; cj]
  | Some (ENew e), Some g =>
      exists te, g = mk_hnd te [] /\ te <> tid /\ nth_error ts te = Some (mk_slot true 0 (centry_tree e)) /\
                 forallb new_only e = true
  | Some (RNew r), Some g =>
      exists te, g = mk_hnd te [] /\ te <> tid /\ nth_error ts te = Some (mk_slot true 0 (crel_tree r)) /\
                 new_only r = true
  | Some Gone, Some g => True
  | _, _ => False
  end.
Definition is_new (x : ref) : bool := match x with ENew _ | RNew _ => true | _ => false end.
(* two operands are two trees *)
Definition new_uniq (rs : list (option hnd)) (h : nat -> option ref) : Prop :=
  forall q q' x x' g g', q <> q' -> h q = Some x -> h q' = Some x' -> is_new x = true -> is_new x' = true ->
    reg_at rs q = Some g -> reg_at rs q' = Some g' -> h_tid g <> h_tid g'.

(* the machine state [st] against the abstract state [a]: the root register holds the tree of a
   well-formed live layout with content (h_f a, sv), every register holds what [a] says *)
Definition Rel (b : bool) (sv : list str) (st : state) (a : hstate) : Prop :=
  exists tid ri l,
    nth_error (trees st) tid = Some (mk_slot true ri (ltree l)) /\
    lwf b l = true /\ lcontent l = (h_f a, sv) /\
    h_reg a 0 = Some Root /\
    (forall q, ref_ok (trees st) tid l (reg_at (regs st) q) (h_reg a q)) /\
    new_uniq (regs st) (h_reg a).

(* ------------------------------------------------------------------ the content and the layout *)
Lemma content_entries l f sv : lcontent l = (f, sv) -> f = map lentry_content (lentries l).
Proof. rewrite lcontent_entries. congruence. Qed.
Lemma nth_entry_lt l i : i < length (lentries l) -> exists ci e, nth_entry l i = Some (ci, e).
Proof.
  intros H. destruct (nth_index_re_lt l i H) as (ci & E). destruct (nth_index_re_split _ _ _ E) as (pre & e & post & -> & <- & <-).
  exists (length pre), e. apply nth_entry_at.
Qed.
Lemma nth_index_re_ge l i : length (lentries l) <= i -> nth_index is_re i l = None.
Proof.
  intros H. destruct (nth_index is_re i l) as [ci|] eqn:E; [|reflexivity]. exfalso.
  destruct (nth_index_re_split _ _ _ E) as (pre & e & post & -> & _ & <-). rewrite lentries_split, app_length in H. cbn in H. lia.
Qed.
Lemma nth_entry_content l f sv i ci e : lcontent l = (f, sv) -> nth_entry l i = Some (ci, e) ->
  i < length f /\ n_alts f i = n_rels e.
Proof.
  intros Hc He. rewrite (content_entries _ _ _ Hc). destruct (nth_entry_entries _ _ _ _ He) as (pre & post & -> & _ & <-).
  rewrite lentries_split, map_app, app_length. cbn [map length]. split; [rewrite map_length; lia|].
  unfold n_alts. rewrite <- (map_length lentry_content (lentries pre)), nth_error_app_len. apply length_content.
Qed.
Lemma count_relations e : count_if is_relation (lentry_children e) = n_rels e.
Proof.
  unfold count_if, lentry_children, n_rels. cbn [filter]. rewrite is_relation_lrel. cbn [length]. f_equal.
  rewrite filter_app, filter_relations_alts, filter_relation_wtrees, app_nil_r. apply map_length.
Qed.
Lemma rel_slot_lt e j : j < n_rels e -> exists cj, nth_index is_relation j (lentry_children e) = Some cj.
Proof. intros H. apply nth_index_lt. now rewrite count_relations. Qed.
Lemma rel_slot_ge e j : n_rels e <= j -> nth_index is_relation j (lentry_children e) = None.
Proof. intros H. apply nth_index_beyond. now rewrite count_relations. Qed.
Lemma rel_slot_inv e j cj : nth_index is_relation j (lentry_children e) = Some cj -> j < n_rels e.
Proof.
  intros H. destruct (Nat.lt_ge_cases j (n_rels e)) as [L|L]; [exact L|]. rewrite (rel_slot_ge _ _ L) in H. discriminate.
Qed.

(* ------------------------------------------------------------------ moving the relation along *)
Lemma refs_set ts tid l rs h r o x : (forall q, ref_ok ts tid l (reg_at rs q) (h q)) -> ref_ok ts tid l o x ->
  forall q, ref_ok ts tid l (reg_at (set_reg_l r o rs) q) (upd r x h q).
Proof. intros H Hx q. rewrite reg_at_set. unfold upd. destruct (q =? r); auto. Qed.
Lemma uniq_set_plain rs h r o x : new_uniq rs h -> match x with Some y => is_new y = false | None => True end ->
  new_uniq (set_reg_l r o rs) (upd r x h).
Proof.
  intros U Hx q q' y y' g g' Hq Hy Hy' Ny Ny'. rewrite !reg_at_set. unfold upd in Hy, Hy'.
  destruct (q =? r); [destruct x; [injection Hy as <-; congruence|discriminate]|].
  destruct (q' =? r); [destruct x; [injection Hy' as <-; congruence|discriminate]|].
  now apply (U q q' y y').
Qed.
(* a freshly allocated operand *)
Lemma uniq_set_new ts tid l rs h r x : new_uniq rs h -> (forall q, ref_ok ts tid l (reg_at rs q) (h q)) ->
  new_uniq (set_reg_l r (Some (mk_hnd (length ts) [])) rs) (upd r (Some x) h).
Proof.
  intros U Hok q q' y y' g g' Hq Hy Hy' Ny Ny'. rewrite !reg_at_set. unfold upd in Hy, Hy'.
  assert (Hold : forall q0 y0 g0, h q0 = Some y0 -> is_new y0 = true -> reg_at rs q0 = Some g0 -> h_tid g0 < length ts).
  { intros q0 y0 g0 H0 N0 G0. specialize (Hok q0). rewrite H0, G0 in Hok. destruct y0; try discriminate; cbn in Hok;
      destruct Hok as (te & -> & _ & Ht & _); cbn [h_tid]; eapply nth_error_Some_lt; exact Ht. }
  destruct (q =? r) eqn:E1, (q' =? r) eqn:E2.
  - apply Nat.eqb_eq in E1, E2. congruence.
  - intros [= <-] G'. cbn [h_tid]. pose proof (Hold _ _ _ Hy' Ny' G'). lia.
  - intros G [= <-]. cbn [h_tid]. pose proof (Hold _ _ _ Hy Ny G). lia.
  - now apply (U q q' y y').
Qed.
Lemma ref_ok_ext ts ts' tid l o x :
  (forall j sl, nth_error ts j = Some sl -> j <> tid -> nth_error ts' j = Some sl) ->
  ref_ok ts tid l o x -> ref_ok ts' tid l o x.
Proof.
  intros H. destruct x as [[]|], o as [g|]; cbn; auto.
  - intros (te & -> & Hn & Ht & He). exists te. auto.
  - intros (te & -> & Hn & Ht & He). exists te. auto.
Qed.

(* a mutation of the main tree: every handle goes through F, every reference through phi *)
Definition keeps (phi : ref -> ref) : Prop :=
  forall x, match x with ELive _ | RLive _ _ => is_new (phi x) = false | _ => phi x = x end.
Lemma refs_transport ts ts' rs F tid l l' phi h :
  keeps phi ->
  (forall j sl, nth_error ts j = Some sl -> j <> tid -> nth_error ts' j = Some sl) ->
  (forall g, h_tid g < length ts -> h_tid g <> tid -> F g = g) ->
  F (mk_hnd tid []) = mk_hnd tid [] ->
  (forall i ci e, nth_entry l i = Some (ci, e) ->
     ref_ok ts' tid l' (Some (F (mk_hnd tid [ci]))) (Some (phi (ELive i)))) ->
  (forall i j ci e cj, nth_entry l i = Some (ci, e) -> nth_index is_relation j (lentry_children e) = Some cj ->
     ref_ok ts' tid l' (Some (F (mk_hnd tid [ci; cj]))) (Some (phi (RLive i j)))) ->
  (forall q, ref_ok ts tid l (reg_at rs q) (h q)) ->
  forall q, ref_ok ts' tid l' (reg_at (map (option_map F) rs) q) (remap phi h q).
Proof.
  intros K Hts HF H0 HE HR Hok q. rewrite reg_at_map. unfold remap. specialize (Hok q).
  destruct (h q) as [x|], (reg_at rs q) as [g|]; cbn [option_map]; try exact Hok; try (destruct x; cbn in Hok; contradiction).
  pose proof (K x) as Kx. destruct x; cbn [ref_ok] in Hok.
  - rewrite Kx. subst g. cbn [ref_ok]. exact H0.
  - destruct Hok as (ci & e & Hn & ->). eapply HE; exact Hn.
  - destruct Hok as (ci & e & cj & Hn & Hj & ->). eapply HR; eauto.
  - rewrite Kx. destruct Hok as (te & -> & Hn & Ht & He). cbn [ref_ok].
    rewrite HF; [exists te; auto|cbn [h_tid]; eapply nth_error_Some_lt; exact Ht|exact Hn].
  - rewrite Kx. destruct Hok as (te & -> & Hn & Ht & He). cbn [ref_ok].
    rewrite HF; [exists te; auto|cbn [h_tid]; eapply nth_error_Some_lt; exact Ht|exact Hn].
  - rewrite Kx. exact I.
Qed.
Lemma uniq_transport ts rs F tid l phi h :
  keeps phi ->
  (forall g, h_tid g < length ts -> h_tid g <> tid -> F g = g) ->
  (forall q, ref_ok ts tid l (reg_at rs q) (h q)) ->
  new_uniq rs h -> new_uniq (map (option_map F) rs) (remap phi h).
Proof.
  intros K HF Hok U q q' y y' g g' Hq Hy Hy' Ny Ny'. rewrite !reg_at_map. unfold remap in Hy, Hy'.
  assert (Hnew : forall q0 y0, option_map phi (h q0) = Some y0 -> is_new y0 = true ->
            h q0 = Some y0 /\ forall g0, option_map F (reg_at rs q0) = Some g0 -> reg_at rs q0 = Some g0).
  { intros q0 y0 H0 N0. destruct (h q0) as [x0|] eqn:E0; [|discriminate]. cbn in H0. injection H0 as <-.
    pose proof (K x0) as K0. specialize (Hok q0). rewrite E0 in Hok.
    destruct x0; try (rewrite K0 in N0; discriminate); try congruence.
    all: rewrite K0; split; [reflexivity|]; intros g0 G0; destruct (reg_at rs q0) as [g1|]; [|discriminate];
      cbn in Hok; destruct Hok as (te & -> & Hn & Ht & _); cbn in G0;
      rewrite HF in G0; [exact G0|cbn [h_tid]; eapply nth_error_Some_lt; exact Ht|exact Hn]. }
  destruct (Hnew _ _ Hy Ny) as (H1 & G1). destruct (Hnew _ _ Hy' Ny') as (H2 & G2).
  intros Hg Hg'. apply (U q q' y y' g g'); auto.
Qed.

(* ------------------------------------------------------------------ reading the relation *)
Lemma rel_root ts rs a tid l : h_reg a 0 = Some Root ->
  (forall q, ref_ok ts tid l (reg_at rs q) (h_reg a q)) -> reg_at rs 0 = Some (mk_hnd tid []).
Proof. intros H0 Hok. specialize (Hok 0). rewrite H0 in Hok. destruct (reg_at rs 0); cbn in Hok; [now subst|contradiction]. Qed.
Lemma ref_none ts tid l o : ref_ok ts tid l o None -> o = None.
Proof. destruct o; cbn; [contradiction|reflexivity]. Qed.
Lemma ref_some ts tid l o x : ref_ok ts tid l o (Some x) -> exists g, o = Some g.
Proof. destruct o as [g|]; [eauto|]. destruct x; cbn; contradiction. Qed.
Lemma get_path_entry l i ci e : nth_entry l i = Some (ci, e) -> get_path (ltree l) [ci] = Some (lentry_tree e).
Proof.
  intros H. destruct (nth_entry_entries _ _ _ _ H) as (pre & post & -> & <- & _).
  cbn [get_path]. fold (child_at (ltree (pre ++ RE e :: post)) (length pre)). now rewrite child_at_ltree.
Qed.
Lemma ereg_neq0 k : 0 <> ereg k. Proof. unfold ereg. lia. Qed.
Lemma rreg_neq0 k : 0 <> rreg k. Proof. unfold rreg. lia. Qed.
Lemma ereg_rreg k m : ereg k <> rreg m. Proof. unfold ereg, rreg. lia. Qed.
Lemma upd_other q r x h : q <> r -> upd r x h q = h q.
Proof. intros H. unfold upd. apply Nat.eqb_neq in H. now rewrite H. Qed.
Lemma upd_same r x h : upd r x h r = x.
Proof. unfold upd. now rewrite Nat.eqb_refl. Qed.

Lemma runs_intro {A} (m : M A) st x st' : runs m st x st' -> m st = Ok (x, st').
Proof. exact (fun H => H). Qed.

(* the node a child handle is made for: `children().filter(p).nth(idx)` of the node in register src *)
Lemma nth_child_runs p src idx ts rs tid pth sl n :
  reg_at rs src = Some (mk_hnd tid pth) -> nth_error ts tid = Some sl -> get_path (s_tree sl) pth = Some n ->
  runs (nth_child_handle p src idx) (mk_state ts rs)
       (option_map (fun c => mk_hnd tid (pth ++ [c])) (nth_index p idx (children n))) (mk_state ts rs).
Proof.
  intros Hr HT HG. unfold nth_child_handle. rbind; [apply runs_get_reg; apply reg_at_nth; exact Hr|].
  rbind; [eapply runs_children_of; eauto|]. eapply runs_eq; [rdone| |reflexivity].
  destruct (nth_index p idx (children n)); reflexivity.
Qed.

(* ------------------------------------------------------------------ OGetEntry / OGetRel *)
Lemma step_get_entry b sv st a k i a' tr : Rel b sv st a -> h_op (OGetEntry k i) a = Some (a', tr) ->
  exists out st', run_op fixed (OGetEntry k i) st = Ok (out, st') /\ Rel b sv st' a' /\ tr = [].
Proof.
  destruct st as [ts rs]. intros (tid & ri & l & HT & Hw & Hc & H0 & Hok & U) Ha. cbn [trees regs] in *.
  cbn [h_op] in Ha. injection Ha as <- <-.
  pose proof (rel_root ts rs a tid l H0 Hok) as Hr0.
  set (o := option_map (fun c => mk_hnd tid ([] ++ [c])) (nth_index is_entry i (children (ltree l)))).
  exists (if match o with Some _ => true | None => false end then 2%N else 3%N, @None str), (mk_state ts (set_reg_l (ereg k) o rs)).
  split; [|split; [|reflexivity]].
  - apply runs_intro. cbn [run_op].
    rbind; [|rdone]. unfold get_entry. rbind; [eapply nth_child_runs; [exact Hr0|exact HT|reflexivity]|].
    fold o. rbind; [apply runs_set_reg|]. rdone.
  - exists tid, ri, l. cbn [trees regs h_f h_reg]. split; [exact HT|]. split; [exact Hw|]. split; [exact Hc|].
    split; [rewrite upd_other by apply ereg_neq0; exact H0|]. split.
    + apply refs_set; [exact Hok|]. unfold o, ltree. cbn [children].
      rewrite (nth_index_map rt is_entry is_re) by apply is_entry_rt.
      rewrite (content_entries _ _ _ Hc), map_length.
      destruct (i <? length (lentries l)) eqn:Ei.
      * apply Nat.ltb_lt in Ei. destruct (nth_entry_lt l i Ei) as (ci & e & He).
        destruct (nth_entry_inv _ _ _ _ He) as (_ & _ & _ & _ & Hi). rewrite Hi. cbn [option_map app ref_ok]. eauto.
      * apply Nat.ltb_ge in Ei. rewrite (nth_index_re_ge _ _ Ei). exact I.
    + apply uniq_set_plain; [exact U|]. destruct (i <? length (h_f a)); [reflexivity|exact I].
Qed.

Lemma step_get_rel b sv st a k m j a' tr : Rel b sv st a -> h_op (OGetRel k m j) a = Some (a', tr) ->
  exists out st', run_op fixed (OGetRel k m j) st = Ok (out, st') /\ Rel b sv st' a' /\ tr = [].
Proof.
  destruct st as [ts rs]. intros (tid & ri & l & HT & Hw & Hc & H0 & Hok & U) Ha. cbn [trees regs] in *.
  cbn [h_op] in Ha. pose proof (Hok (ereg m)) as Hm.
  destruct (h_reg a (ereg m)) as [x|] eqn:Ex.
  - destruct x; try discriminate. injection Ha as <- <-.
    destruct (reg_at rs (ereg m)) as [g|] eqn:Eg; [|contradiction]. cbn [ref_ok] in Hm.
    destruct Hm as (ci & e & He & ->).
    set (o := option_map (fun c => mk_hnd tid ([ci] ++ [c])) (nth_index is_relation j (children (lentry_tree e)))).
    exists (if match o with Some _ => true | None => false end then 2%N else 3%N, @None str), (mk_state ts (set_reg_l (rreg k) o rs)).
    split; [|split; [|reflexivity]].
    + apply runs_intro. cbn [run_op].
      rbind; [apply reg_at_has|]. rewrite Eg. rbind; [|rdone]. unfold get_relation.
      rbind; [eapply nth_child_runs; [exact Eg|exact HT|apply (get_path_entry _ _ _ _ He)]|].
      fold o. rbind; [apply runs_set_reg|]. rdone.
    + exists tid, ri, l. cbn [trees regs h_f h_reg]. split; [exact HT|]. split; [exact Hw|]. split; [exact Hc|].
      split; [rewrite upd_other by apply rreg_neq0; exact H0|]. split.
      * apply refs_set; [exact Hok|]. unfold o. cbn [lentry_tree children].
        destruct (nth_entry_content _ _ _ _ _ _ Hc He) as (_ & ->).
        destruct (j <? n_rels e) eqn:Ej.
        -- apply Nat.ltb_lt in Ej. destruct (rel_slot_lt e j Ej) as (cj & Hj). rewrite Hj. cbn [option_map app ref_ok]. eauto 6.
        -- apply Nat.ltb_ge in Ej. rewrite (rel_slot_ge _ _ Ej). exact I.
      * apply uniq_set_plain; [exact U|]. destruct (j <? n_alts (h_f a) i); [reflexivity|exact I].
  - injection Ha as <- <-. apply ref_none in Hm.
    exists (3%N, @None str), (mk_state ts (set_reg_l (rreg k) None rs)). split; [|split; [|reflexivity]].
    + apply runs_intro. cbn [run_op].
      rbind; [apply reg_at_has|]. rewrite Hm. rbind; [apply runs_set_reg|]. rdone.
    + exists tid, ri, l. cbn [trees regs h_f h_reg]. split; [exact HT|]. split; [exact Hw|]. split; [exact Hc|].
      split; [rewrite upd_other by apply rreg_neq0; exact H0|]. split.
      * apply refs_set; [exact Hok|exact I].
      * apply uniq_set_plain; [exact U|exact I].
Qed.

(* ------------------------------------------------------------------ ONewEntry / ONewRel *)
Lemma spec_relrec_inv sp r : spec_relrec sp = Some r -> sp = rel_spec r /\ new_only r = true.
Proof.
  destruct sp; try discriminate. cbn [spec_relrec]. destruct (new_only _) eqn:E; [|discriminate]. intros [= <-]. auto.
Qed.
Lemma spec_entry_inv sp e : spec_entry sp = Some e -> sp = entry_spec e /\ forallb new_only e = true.
Proof.
  destruct sp as [s|l|l|l]; try discriminate. cbn [spec_entry]. unfold entry_spec. revert e.
  induction l as [|x l IH]; intros e H; cbn [map all_some] in H.
  - injection H as <-. auto.
  - destruct (spec_relrec x) as [r|] eqn:Ex; [|discriminate]. destruct (all_some (map spec_relrec l)) as [e'|]; [|discriminate].
    injection H as <-. destruct (spec_relrec_inv _ _ Ex) as (-> & Hr). destruct (IH e' eq_refl) as (E & He).
    injection E as ->. cbn [map forallb]. rewrite Hr, He. auto.
Qed.
Lemma ref_ok_grow ts ts2 tid l o x : ref_ok ts tid l o x -> ref_ok (ts ++ ts2) tid l o x.
Proof. apply ref_ok_ext. intros j sl H _. now apply nth_error_app_l. Qed.

Lemma step_new_entry b sv st a k sp a' tr : Rel b sv st a -> h_op (ONewEntry k sp) a = Some (a', tr) ->
  exists out st', run_op fixed (ONewEntry k sp) st = Ok (out, st') /\ Rel b sv st' a' /\ tr = [].
Proof.
  destruct st as [ts rs]. intros (tid & ri & l & HT & Hw & Hc & H0 & Hok & U) Ha. cbn [trees regs] in *.
  cbn [h_op] in Ha. destruct (spec_entry sp) as [e|] eqn:Esp; [|discriminate]. injection Ha as <- <-.
  destruct (spec_entry_inv _ _ Esp) as (-> & He).
  destruct (build_relation_greens_new e He ts rs) as (junk & R).
  pose proof (nth_error_Some_lt _ _ _ HT) as Hlt.
  set (ts0 := ts ++ junk). set (te := length ts0).
  exists (4%N, Some (text (centry_tree e))), (mk_state (ts0 ++ [mk_slot true 0 (centry_tree e)]) (set_reg_l (ereg k) (Some (mk_hnd te [])) rs)).
  split; [|split; [|reflexivity]].
  - apply runs_intro. cbn [run_op]. eapply runs_try_build.
    + unfold build_entry, entry_spec. rbind; [exact R|]. rbind; [apply runs_alloc|]. apply runs_set_reg.
    + unfold reg_text, node_of_reg.
      rbind; [rbind; [apply runs_get_reg; apply nth_error_set_reg_l_eq|]; eapply runs_node_of; [apply nth_error_app_at|reflexivity]|].
      rdone.
  - exists tid, ri, l. cbn [trees regs h_f h_reg]. split; [apply nth_error_app_l; apply nth_error_app_l; exact HT|].
    split; [exact Hw|]. split; [exact Hc|]. split; [rewrite upd_other by apply ereg_neq0; exact H0|].
    assert (Hok0 : forall q, ref_ok ts0 tid l (reg_at rs q) (h_reg a q)) by (intros q; apply ref_ok_grow, Hok).
    split.
    + apply refs_set; [intros q; apply ref_ok_grow, Hok0|]. cbn [ref_ok]. exists te. split; [reflexivity|].
      split; [unfold te, ts0; rewrite app_length; lia|]. split; [apply nth_error_app_at|exact He].
    + eapply uniq_set_new; [exact U|exact Hok0].
Qed.

Lemma step_new_rel b sv st a k sp a' tr : Rel b sv st a -> h_op (ONewRel k sp) a = Some (a', tr) ->
  exists out st', run_op fixed (ONewRel k sp) st = Ok (out, st') /\ Rel b sv st' a' /\ tr = [].
Proof.
  destruct st as [ts rs]. intros (tid & ri & l & HT & Hw & Hc & H0 & Hok & U) Ha. cbn [trees regs] in *.
  cbn [h_op] in Ha. destruct (spec_relrec sp) as [r|] eqn:Esp; [|discriminate]. injection Ha as <- <-.
  destruct (spec_relrec_inv _ _ Esp) as (-> & Hr).
  pose proof (nth_error_Some_lt _ _ _ HT) as Hlt.
  exists (4%N, Some (text (crel_tree r))), (mk_state (ts ++ [mk_slot true 0 (crel_tree r)]) (set_reg_l (rreg k) (Some (mk_hnd (length ts) [])) rs)).
  split; [|split; [|reflexivity]].
  - apply runs_intro. cbn [run_op]. eapply runs_try_build.
    + rewrite (rel_spec_new _ Hr). cbn [build_relation]. rewrite (crel_tree_new _ Hr).
      rbind; [apply runs_alloc|]. apply runs_set_reg.
    + unfold reg_text, node_of_reg.
      rbind; [rbind; [apply runs_get_reg; apply nth_error_set_reg_l_eq|]; eapply runs_node_of; [apply nth_error_app_at|reflexivity]|].
      rdone.
  - exists tid, ri, l. cbn [trees regs h_f h_reg]. split; [apply nth_error_app_l; exact HT|].
    split; [exact Hw|]. split; [exact Hc|]. split; [rewrite upd_other by apply rreg_neq0; exact H0|].
    split.
    + apply refs_set; [intros q; apply ref_ok_grow, Hok|]. cbn [ref_ok]. exists (length ts). split; [reflexivity|].
      split; [lia|]. split; [apply nth_error_app_at|exact Hr].
    + eapply uniq_set_new; [exact U|exact Hok].
Qed.

(* ------------------------------------------------------------------ Relations::insert / push *)
Lemma lentries_firstn_le n l : length (lentries (firstn n l)) <= length (lentries l).
Proof. rewrite <- (firstn_skipn n l) at 2. rewrite lentries_app, app_length. lia. Qed.
Lemma lentries_firstn_skipn n l : length (lentries (firstn n l)) + length (lentries (skipn n l)) = length (lentries l).
Proof. rewrite <- (firstn_skipn n l) at 3. now rewrite lentries_app, app_length. Qed.

(* where an entry is after an insert: the splice (pos, new) of the code against the layout *)
Lemma insert_entry_pos l i le G pos new i0 ci e0 :
  insert_plan fixed (map rt l) i G = (pos, new) -> nth_entry l i0 = Some (ci, e0) ->
  nth_entry (a_insert l i le) (if i <=? i0 then S i0 else i0)
  = Some ((if pos <=? ci then ci + length new else ci), e0).
Proof.
  intros Hp He. destruct (nth_entry_entries _ _ _ _ He) as (pre & post & -> & <- & <-).
  unfold insert_plan in Hp. rewrite (nth_index_map rt is_entry is_re) in Hp by apply is_entry_rt. unfold a_insert.
  destruct (nth_index is_re i (pre ++ RE e0 :: post)) as [ci0|] eqn:E.
  - cbn [fx_insert_first fixed negb andb] in Hp. injection Hp as <- <-. cbn [length].
    destruct (nth_index_re_split _ _ _ E) as (pre0 & ex & post0 & El & L0 & Li).
    assert (Epre0 : pre0 = firstn ci0 (pre ++ RE e0 :: post)) by (rewrite El, <- L0; now rewrite firstn_app_len).
    destruct (ci0 <=? length pre) eqn:Ec.
    + apply Nat.leb_le in Ec.
      assert (Ef : firstn ci0 (pre ++ RE e0 :: post) = firstn ci0 pre).
      { rewrite firstn_app. replace (ci0 - length pre) with 0 by lia. cbn [firstn]. now rewrite app_nil_r. }
      assert (Es : skipn ci0 (pre ++ RE e0 :: post) = skipn ci0 pre ++ RE e0 :: post).
      { rewrite skipn_app. replace (ci0 - length pre) with 0 by lia. reflexivity. }
      assert (Hi : i <=? length (lentries pre) = true).
      { apply Nat.leb_le. rewrite <- Li, Epre0, Ef. apply lentries_firstn_le. }
      rewrite Hi. unfold insert_at. rewrite Ef, Es.
      replace (firstn ci0 pre ++ [RE le; RC; RW w_sp] ++ skipn ci0 pre ++ RE e0 :: post)
        with ((firstn ci0 pre ++ [RE le; RC; RW w_sp] ++ skipn ci0 pre) ++ RE e0 :: post)
        by (now rewrite <- !app_assoc).
      replace (S (length (lentries pre))) with (length (lentries (firstn ci0 pre ++ [RE le; RC; RW w_sp] ++ skipn ci0 pre))).
      2:{ rewrite !lentries_app, !app_length. change (length (lentries [RE le; RC; RW w_sp])) with 1.
          pose proof (lentries_firstn_skipn ci0 pre). lia. }
      rewrite nth_entry_at. f_equal. f_equal. rewrite !app_length, firstn_length, skipn_length. cbn [length]. lia.
    + apply Nat.leb_gt in Ec.
      assert (Ef : firstn ci0 (pre ++ RE e0 :: post) = pre ++ RE e0 :: firstn (ci0 - length pre - 1) post).
      { rewrite firstn_app. rewrite (firstn_all2 (n := ci0)) by lia.
        destruct (ci0 - length pre) as [|d] eqn:Ed; [lia|]. cbn [firstn]. replace (S d - 1) with d by lia. reflexivity. }
      assert (Hi : i <=? length (lentries pre) = false).
      { apply Nat.leb_gt. rewrite <- Li, Epre0, Ef, lentries_split, app_length. cbn [length]. lia. }
      rewrite Hi. unfold insert_at. rewrite Ef. rewrite <- app_assoc. cbn [app]. apply nth_entry_at.
  - injection Hp as Hpos _.
    assert (Hc : pos <=? length pre = false).
    { apply Nat.leb_gt. rewrite <- Hpos, map_length, app_length. cbn [length]. lia. }
    rewrite Hc. apply nth_index_re_none in E. rewrite lentries_split, app_length in E. cbn [length] in E.
    assert (Hi : i <=? length (lentries pre) = false) by (apply Nat.leb_gt; lia).
    rewrite Hi. rewrite <- app_assoc. cbn [app]. apply nth_entry_at.
Qed.

Lemma remap_id h q : remap (fun x => x) h q = h q.
Proof. unfold remap. now destruct (h q). Qed.
Lemma keeps_id : keeps (fun x => x).
Proof. intros []; reflexivity. Qed.
Lemma keeps_ins p : keeps (ins_ref p).
Proof. intros []; reflexivity. Qed.

Lemma nth_entry_bound l i ci e : nth_entry l i = Some (ci, e) -> i < length (lentries l).
Proof.
  intros H. destruct (nth_entry_entries _ _ _ _ H) as (pre & post & -> & _ & <-). rewrite lentries_split, app_length. cbn. lia.
Qed.
Lemma Rel_ext b sv st a a' : h_f a = h_f a' -> (forall q, h_reg a q = h_reg a' q) -> Rel b sv st a -> Rel b sv st a'.
Proof.
  intros Ef Er (tid & ri & l & HT & Hw & Hc & H0 & Hok & U). exists tid, ri, l. rewrite <- Ef, <- Er.
  split; [exact HT|]. split; [exact Hw|]. split; [exact Hc|]. split; [exact H0|]. split.
  - intros q. rewrite <- Er. apply Hok.
  - intros q q' x x' g g' Hq Hx Hx'. rewrite <- Er in Hx, Hx'. now apply (U q q' x x').
Qed.

(* the machine: Relations::insert with an operand that is the root of its own tree *)
Lemma insert_machine ts rs tid ri l idx re te G :
  reg_at rs 0 = Some (mk_hnd tid []) -> nth_error ts tid = Some (mk_slot true ri (ltree l)) ->
  reg_at rs re = Some (mk_hnd te []) -> nth_error ts te = Some (mk_slot true 0 G) ->
  exists ts' F pos new,
    insert_plan fixed (map rt l) idx G = (pos, new) /\
    runs (relations_insert fixed 0 idx re) (mk_state ts rs) tt
         (mk_state ts' (set_reg_l re None (map (option_map F) rs))) /\
    nth_error ts' tid = Some (mk_slot true ri (relations_insert_green fixed (ltree l) idx G)) /\
    (forall j sl, nth_error ts j = Some sl -> j <> tid -> nth_error ts' j = Some sl) /\
    (forall g, h_tid g < length ts -> above tid [] g -> F g = g) /\
    (forall c rest, F (mk_hnd tid (c :: rest)) = mk_hnd tid ((if pos <=? c then c + length new else c) :: rest)).
Proof.
  intros H0 HT Hre HE.
  pose proof (insert_plan_frame fixed (map rt l) idx G) as Hpl.
  destruct (insert_plan fixed (map rt l) idx G) as [pos new] eqn:Epl. destruct Hpl as [Hpos _].
  destruct (m_insert_fresh_spec new ts rs 0 tid ri (ltree l) [] ROOT (map rt l) pos (reg_at_nth _ _ _ H0) HT eq_refl Hpos)
    as (ts' & F & R & L & T' & O & A & B).
  exists ts', F, pos, new. split; [reflexivity|]. split; [|split; [|split; [|split; [exact A|exact B]]]].
  - unfold relations_insert. rbind; [apply runs_get_reg; apply reg_at_nth; exact H0|].
    rbind; [eapply runs_node_of; [exact HT|reflexivity]|].
    rbind; [unfold node_of_reg; rbind; [apply runs_get_reg; apply reg_at_nth; exact Hre|]; eapply runs_node_of; [exact HE|reflexivity]|].
    cbn [fx_in_place fixed s_tree children ltree]. rewrite Epl.
    rbind; [exact R|]. apply runs_set_reg.
  - rewrite T'. unfold relations_insert_green, ltree. cbn [children]. rewrite Epl. reflexivity.
  - intros j sl Hj Hn. rewrite O; [exact Hj|exact Hn|eapply nth_error_Some_lt; exact Hj].
Qed.

(* the relation after an insert: [phi] is what the abstract state does to the references *)
Lemma insert_core b sv ts rs a tid ri l k e idx o' phi :
  nth_error ts tid = Some (mk_slot true ri (ltree l)) -> lwf b l = true -> lcontent l = (h_f a, sv) ->
  h_reg a 0 = Some Root -> (forall q, ref_ok ts tid l (reg_at rs q) (h_reg a q)) -> new_uniq rs (h_reg a) ->
  h_reg a (ereg k) = Some (ENew e) ->
  operands_ok o' = true -> x_in_range (h_f a) o' = true ->
  a_op o' l = option_map (a_insert l idx) (operand_lentry e) ->
  keeps phi ->
  (forall i0, i0 < length (lentries l) -> phi (ELive i0) = ELive (if idx <=? i0 then S i0 else i0)) ->
  (forall i0 j, i0 < length (lentries l) -> phi (RLive i0 j) = RLive (if idx <=? i0 then S i0 else i0) j) ->
  exists ts' rs',
    runs (relations_insert fixed 0 idx (ereg k)) (mk_state ts rs) tt (mk_state ts' rs') /\
    Rel b sv (mk_state ts' rs') (mk_hstate (xstep (h_f a) o') (upd (ereg k) None (remap phi (h_reg a)))).
Proof.
  intros HT Hw Hc H0 Hok U Hk Ho Hx Hop K Pe Pr.
  pose proof (rel_root ts rs a tid l H0 Hok) as Hr0.
  pose proof (Hok (ereg k)) as Hek. rewrite Hk in Hek. destruct (reg_at rs (ereg k)) as [g|] eqn:Eg; [|contradiction].
  cbn [ref_ok] in Hek. destruct Hek as (te & -> & Hte & HE & Hnew).
  assert (Hx' : x_in_range (fst (lcontent l)) o' = true) by (rewrite Hc; exact Hx).
  destruct (live_step_tree b o' l Hw Ho Hx') as (l' & Ha & _ & Hw' & Hc' & _).
  rewrite Hop in Ha. destruct (operand_lentry e) as [le|] eqn:Ele; [|discriminate]. cbn [option_map] in Ha. injection Ha as <-.
  assert (EG : centry_tree e = lentry_tree le).
  { destruct e as [|r rs0]; [discriminate|]. cbn [operand_lentry] in Ele. injection Ele as <-. now apply centry_is_lentry. }
  destruct (insert_machine ts rs tid ri l idx (ereg k) te (centry_tree e) Hr0 HT Eg HE)
    as (ts' & F & pos & new & Epl & R & T' & O & A & B).
  pose proof (nth_error_Some_lt _ _ _ HT) as Hlt.
  exists ts', (set_reg_l (ereg k) None (map (option_map F) rs)). split; [exact R|].
  exists tid, ri, (a_insert l idx le). cbn [trees regs h_f h_reg].
  split; [rewrite T', EG; f_equal; f_equal; apply insert_commute|]. split; [exact Hw'|].
  split; [rewrite Hc', Hc; reflexivity|].
  split; [rewrite upd_other by apply ereg_neq0; unfold remap; rewrite H0; cbn; now rewrite (K Root)|].
  assert (HF : forall g, h_tid g < length ts -> h_tid g <> tid -> F g = g)
    by (intros g Hg Hn; apply A; [exact Hg|now apply above_other]).
  split.
  - apply refs_set; [|exact I].
    eapply refs_transport; [exact K|exact O|exact HF|apply A; [exact Hlt|apply above_root]| | |exact Hok].
    + intros i0 ci e0 He0. rewrite B, (Pe i0) by (eapply nth_entry_bound; exact He0). cbn [ref_ok].
      exists (if pos <=? ci then ci + length new else ci), e0. split; [|reflexivity].
      rewrite EG in Epl. now apply (insert_entry_pos l idx le (lentry_tree le)).
    + intros i0 j ci e0 cj He0 Hj. rewrite B, (Pr i0 j) by (eapply nth_entry_bound; exact He0). cbn [ref_ok].
      exists (if pos <=? ci then ci + length new else ci), e0, cj. split; [|split; [exact Hj|reflexivity]].
      rewrite EG in Epl. now apply (insert_entry_pos l idx le (lentry_tree le)).
  - apply uniq_set_plain; [|exact I]. eapply uniq_transport; [exact K|exact HF|exact Hok|exact U].
Qed.

Lemma step_insert b sv st a i k a' tr : Rel b sv st a -> h_op (OInsert i k) a = Some (a', tr) ->
  forallb operands_ok tr = true ->
  exists out st', run_op fixed (OInsert i k) st = Ok (out, st') /\ Rel b sv st' a'.
Proof.
  destruct st as [ts rs]. intros HR Ha Ho. pose proof HR as (tid & ri & l & HT & Hw & Hc & H0 & Hok & U). cbn [trees regs] in *.
  cbn [h_op] in Ha. pose proof (Hok (ereg k)) as Hk. destruct (h_reg a (ereg k)) as [x|] eqn:Ex.
  - destruct x; try discriminate. injection Ha as <- <-. cbn [forallb] in Ho. rewrite andb_true_r in Ho.
    destruct (insert_core b sv ts rs a tid ri l k e i (AInsert i e) (ins_ref i) HT Hw Hc H0 Hok U Ex Ho eq_refl eq_refl
                (keeps_ins i) ltac:(reflexivity) ltac:(reflexivity)) as (ts' & rs' & R & HR').
    exists (0%N, @None str), (mk_state ts' rs'). split; [|exact HR'].
    apply runs_intro. cbn [run_op]. unfold with_reg. rbind; [apply reg_at_has|].
    destruct (ref_some _ _ _ _ _ Hk) as (g & ->). rbind; [exact R|]. rdone.
  - injection Ha as <- <-. apply ref_none in Hk. exists (1%N, @None str), (mk_state ts rs). split; [|exact HR].
    apply runs_intro. cbn [run_op]. unfold with_reg. rbind; [apply reg_at_has|]. rewrite Hk. rdone.
Qed.

Lemma step_push b sv st a k a' tr : Rel b sv st a -> h_op (OPush k) a = Some (a', tr) ->
  forallb operands_ok tr = true ->
  exists out st', run_op fixed (OPush k) st = Ok (out, st') /\ Rel b sv st' a'.
Proof.
  destruct st as [ts rs]. intros HR Ha Ho. pose proof HR as (tid & ri & l & HT & Hw & Hc & H0 & Hok & U). cbn [trees regs] in *.
  cbn [h_op] in Ha. pose proof (Hok (ereg k)) as Hk. destruct (h_reg a (ereg k)) as [x|] eqn:Ex.
  - destruct x; try discriminate. injection Ha as <- <-. cbn [forallb] in Ho. rewrite andb_true_r in Ho.
    assert (Hn : count_if is_re l = length (lentries l)).
    { clear. induction l as [|x r IH]; [reflexivity|]. rewrite count_if_cons, IH. destruct x; reflexivity. }
    destruct (insert_core b sv ts rs a tid ri l k e (count_if is_re l) (APush e) (fun x => x) HT Hw Hc H0 Hok U Ex Ho eq_refl eq_refl
                keeps_id) as (ts' & rs' & R & HR').
    { intros i0 Hi. replace (count_if is_re l <=? i0) with false by (symmetry; apply Nat.leb_gt; lia). reflexivity. }
    { intros i0 j Hi. replace (count_if is_re l <=? i0) with false by (symmetry; apply Nat.leb_gt; lia). reflexivity. }
    exists (0%N, @None str), (mk_state ts' rs'). split.
    + apply runs_intro. cbn [run_op]. unfold with_reg. rbind; [apply reg_at_has|].
      destruct (ref_some _ _ _ _ _ Hk) as (g & ->). rbind; [|rdone]. unfold relations_push.
      rbind; [apply runs_get_reg; apply reg_at_nth; apply (rel_root ts rs a tid l H0 Hok)|].
      rbind; [eapply runs_children_of; [exact HT|reflexivity]|]. cbn [s_tree ltree children].
      rewrite (count_if_map rt is_entry is_re) by apply is_entry_rt. exact R.
    + eapply Rel_ext; [| |exact HR']; [reflexivity|]. intros q. cbn [h_reg]. unfold upd. destruct (q =? ereg k); [reflexivity|apply remap_id].
  - injection Ha as <- <-. apply ref_none in Hk. exists (1%N, @None str), (mk_state ts rs). split; [|exact HR].
    apply runs_intro. cbn [run_op]. unfold with_reg. rbind; [apply reg_at_has|]. rewrite Hk. rdone.
Qed.

(* ------------------------------------------------------------------ an entry or a relation edited in place *)
Lemma nth_index_replace_same {A} (p : A -> bool) x x' post n : p x = p x' -> forall pre,
  nth_index p n (pre ++ x :: post) = nth_index p n (pre ++ x' :: post).
Proof.
  intros Hx pre. revert n. induction pre as [|y r IH]; intros n; cbn [app nth_index].
  - now rewrite Hx.
  - destruct (p y); [destruct n; [reflexivity|]|]; now rewrite IH.
Qed.
Lemma nth_error_replace_neq {A} (pre : list A) x y post c : c <> length pre ->
  nth_error (pre ++ y :: post) c = nth_error (pre ++ x :: post) c.
Proof.
  intros H. destruct (Nat.lt_ge_cases c (length pre)) as [L|L].
  - now rewrite !nth_error_app1 by exact L.
  - rewrite !nth_error_app2 by exact L. destruct (c - length pre) as [|d] eqn:E; [lia|reflexivity].
Qed.
Lemma app_inj_length {A} (a a' : list A) : forall b b', a ++ b = a' ++ b' -> length a = length a' -> a = a' /\ b = b'.
Proof.
  revert a'. induction a as [|x r IH]; intros [|y r'] b b' H L; cbn in *; try discriminate; [auto|].
  injection H as -> H. destruct (IH r' b b' H ltac:(lia)) as [-> ->]. auto.
Qed.
Lemma nth_entry_inj l i i0 ci e e0 : nth_entry l i = Some (ci, e) -> nth_entry l i0 = Some (ci, e0) -> i0 = i /\ e0 = e.
Proof.
  intros H H'. destruct (nth_entry_entries _ _ _ _ H) as (pre & post & -> & L & <-).
  destruct (nth_entry_entries _ _ _ _ H') as (pre' & post' & E & L' & <-).
  apply app_inj_length in E; [|congruence]. destruct E as [-> E]. injection E as -> _. auto.
Qed.
(* entry i edited in place: every entry stays where it is *)
Lemma nth_entry_replace l i ci e e' i0 ci0 e0 : nth_entry l i = Some (ci, e) -> nth_entry l i0 = Some (ci0, e0) ->
  nth_entry (replace_at ci (RE e') l) i0 = Some (ci0, if i0 =? i then e' else e0).
Proof.
  intros H H'. destruct (nth_entry_entries _ _ _ _ H) as (pre & post & -> & <- & <-). rewrite replace_at_split.
  destruct (i0 =? length (lentries pre)) eqn:Ei.
  - apply Nat.eqb_eq in Ei. subst i0. rewrite nth_entry_at in H'. injection H' as <- <-. apply nth_entry_at.
  - apply Nat.eqb_neq in Ei. unfold nth_entry in *.
    rewrite (nth_index_replace_same is_re (RE e') (RE e) post i0 eq_refl pre).
    destruct (nth_index is_re i0 (pre ++ RE e :: post)) as [c|] eqn:Ec; [|discriminate].
    assert (Hc : c <> length pre).
    { intros ->. destruct (nth_index_re_split _ _ _ Ec) as (p0 & ex & q0 & E & L & Li).
      apply app_inj_length in E; [|congruence]. destruct E as [<- _]. congruence. }
    rewrite (nth_error_replace_neq pre (RE e) (RE e') post c Hc). exact H'.
Qed.

Lemma nth_index_le_last {A} (p : A -> bool) l : forall n i, nth_index p n l = Some i ->
  exists li, last_index p l = Some li /\ i <= li.
Proof.
  induction l as [|c r IH]; intros n i H; cbn in H; [discriminate|]. cbn [last_index].
  destruct (p c) eqn:Pc.
  - destruct n as [|n].
    + injection H as <-. destruct (last_index p r) as [j|]; eexists; split; try reflexivity; lia.
    + destruct (nth_index p n r) as [j|] eqn:E; [|discriminate]. injection H as <-.
      destruct (IH _ _ E) as (li & -> & Hl). eexists; split; [reflexivity|lia].
  - destruct (nth_index p n r) as [j|] eqn:E; [|discriminate]. injection H as <-.
    destruct (IH _ _ E) as (li & -> & Hl). eexists; split; [reflexivity|lia].
Qed.
(* something inserted behind position i *)
Lemma nth_index_insert_after {A} (p : A -> bool) n l i pos new : nth_index p n l = Some i -> i < pos ->
  nth_index p n (insert_at pos new l) = Some i.
Proof.
  intros H Hp. destruct (nth_index_count p n l i H) as (pre & x & post & -> & <- & Px & <-).
  unfold insert_at. rewrite firstn_app. rewrite (firstn_all2 (n := pos)) by lia.
  destruct (pos - length pre) as [|d] eqn:E; [lia|]. cbn [firstn]. rewrite <- app_assoc. cbn [app].
  now apply nth_index_at.
Qed.

Lemma epush_children e r : exists pos new,
  entry_push_plan (lentry_children e) (lrel_tree r) = (pos, new) /\
  lentry_children (a_epush e r) = insert_at pos new (lentry_children e) /\
  (forall j cj, nth_index is_relation j (lentry_children e) = Some cj -> cj < pos).
Proof.
  pose proof (epush_commute e r) as H. unfold entry_push_green in H. cbn [lentry_tree children] in H.
  destruct (entry_push_plan (lentry_children e) (lrel_tree r)) as [pos new] eqn:Ep. exists pos, new.
  split; [reflexivity|]. split; [cbn [set_children] in H; now injection H|].
  intros j cj Hj. destruct (nth_index_le_last _ _ _ _ Hj) as (li & Hl & Hle).
  unfold entry_push_plan in Ep. rewrite Hl in Ep. injection Ep as <- _. lia.
Qed.

Lemma uniq_remap_id rs h : new_uniq rs (remap (fun x => x) h) -> new_uniq rs h.
Proof. intros U q q' x x' g g' Hq Hx Hx'. apply (U q q' x x' g g' Hq); now rewrite remap_id. Qed.
Lemma upd_entry_at l i ci e F e' : nth_entry l i = Some (ci, e) -> F (lentry_tree e) = lentry_tree e' ->
  upd_path (ltree l) [ci] F = ltree (replace_at ci (RE e') l).
Proof.
  intros H HF. destruct (nth_entry_entries _ _ _ _ H) as (pre & post & -> & <- & _). now apply upd_entry.
Qed.

(* entry i edited in place (it becomes e'); the alternatives it had keep their slots *)
Lemma entry_edit_refs ts ts' rs F tid l i ci e e' h :
  nth_entry l i = Some (ci, e) ->
  (forall j sl, nth_error ts j = Some sl -> j <> tid -> nth_error ts' j = Some sl) ->
  (forall g, h_tid g < length ts -> above tid [ci] g -> F g = g) ->
  tid < length ts ->
  (forall j cj, nth_index is_relation j (lentry_children e) = Some cj ->
     F (mk_hnd tid [ci; cj]) = mk_hnd tid [ci; cj] /\ nth_index is_relation j (lentry_children e') = Some cj) ->
  (forall q, ref_ok ts tid l (reg_at rs q) (h q)) ->
  forall q, ref_ok ts' tid (replace_at ci (RE e') l) (reg_at (map (option_map F) rs) q) (h q).
Proof.
  intros He O A Hlt Hs Hok q. rewrite <- (remap_id h q).
  eapply refs_transport; [exact keeps_id|exact O| | | | |exact Hok].
  - intros g Hg Hn. apply A; [exact Hg|now apply above_other].
  - apply A; [exact Hlt|apply above_root].
  - intros i0 ci0 e0 H0. cbn [ref_ok]. exists ci0, (if i0 =? i then e' else e0). split; [now apply (nth_entry_replace l i ci e)|].
    f_equal. apply A; [exact Hlt|]. destruct (Nat.eq_dec ci0 ci) as [->|Hn]; [apply above_self|].
    apply (above_sibling tid [] ci ci0 [] []). congruence.
  - intros i0 j ci0 e0 cj H0 Hj. cbn [ref_ok]. destruct (Nat.eq_dec ci0 ci) as [->|Hn].
    + destruct (nth_entry_inj _ _ _ _ _ _ He H0) as [-> ->]. destruct (Hs _ _ Hj) as [HF Hj'].
      exists ci, e', cj. split; [|split; [exact Hj'|now rewrite HF]].
      rewrite (nth_entry_replace l i ci e e' i ci e He He). now rewrite Nat.eqb_refl.
    + exists ci0, e0, cj. split; [|split; [exact Hj|]].
      * rewrite (nth_entry_replace l i ci e e' i0 ci0 e0 He H0).
        destruct (i0 =? i) eqn:Ei; [|reflexivity]. apply Nat.eqb_eq in Ei. subst i0. congruence.
      * f_equal. apply A; [exact Hlt|]. apply (above_sibling tid [] ci ci0 [] [cj]). congruence.
Qed.

(* ------------------------------------------------------------------ Entry::push *)
Lemma epush_machine ts rs tid ri l i ci e rk rr te G :
  reg_at rs rk = Some (mk_hnd tid [ci]) -> nth_error ts tid = Some (mk_slot true ri (ltree l)) ->
  nth_entry l i = Some (ci, e) ->
  reg_at rs rr = Some (mk_hnd te []) -> nth_error ts te = Some (mk_slot true 0 G) ->
  exists ts' F pos new,
    entry_push_plan (lentry_children e) G = (pos, new) /\
    runs (entry_push fixed rk rr) (mk_state ts rs) tt (mk_state ts' (set_reg_l rr None (map (option_map F) rs))) /\
    nth_error ts' tid = Some (mk_slot true ri (upd_path (ltree l) [ci] (fun _ => Node ENTRY (insert_at pos new (lentry_children e))))) /\
    (forall j sl, nth_error ts j = Some sl -> j <> tid -> nth_error ts' j = Some sl) /\
    (forall g, h_tid g < length ts -> above tid [ci] g -> F g = g) /\
    (forall c rest, F (mk_hnd tid ([ci] ++ c :: rest)) = mk_hnd tid ([ci] ++ (if pos <=? c then c + length new else c) :: rest)).
Proof.
  intros Hk HT He Hr HE. pose proof (get_path_entry _ _ _ _ He) as HG.
  pose proof (entry_push_plan_pos (lentry_children e) G) as Hpos.
  destruct (entry_push_plan (lentry_children e) G) as [pos new] eqn:Epl. cbn [fst] in Hpos.
  destruct (m_insert_fresh_spec new ts rs rk tid ri (ltree l) [ci] ENTRY (lentry_children e) pos (reg_at_nth _ _ _ Hk) HT HG Hpos)
    as (ts' & F & R & L & T' & O & A & B).
  exists ts', F, pos, new. split; [reflexivity|]. split; [|split; [exact T'|split; [|split; [exact A|exact B]]]].
  - unfold entry_push. rbind; [apply runs_get_reg; apply reg_at_nth; exact Hk|].
    rbind; [eapply runs_node_of; [exact HT|exact HG]|].
    rbind; [unfold node_of_reg; rbind; [apply runs_get_reg; apply reg_at_nth; exact Hr|]; eapply runs_node_of; [exact HE|reflexivity]|].
    cbn [fx_in_place fixed s_tree children lentry_tree]. rewrite Epl.
    rbind; [exact R|]. apply runs_set_reg.
  - intros j sl Hj Hn. rewrite O; [exact Hj|exact Hn|eapply nth_error_Some_lt; exact Hj].
Qed.

Lemma reg_text_runs ts rs r tid p sl n : reg_at rs r = Some (mk_hnd tid p) -> nth_error ts tid = Some sl ->
  get_path (s_tree sl) p = Some n -> runs (reg_text r) (mk_state ts rs) (Some (text n)) (mk_state ts rs).
Proof.
  intros Hr HT HG. unfold reg_text, node_of_reg.
  rbind; [rbind; [apply runs_get_reg; apply reg_at_nth; exact Hr|]; eapply runs_node_of; [exact HT|exact HG]|]. rdone.
Qed.

Lemma step_epush b sv st a k m a' tr : Rel b sv st a -> h_op (OEPush k m) a = Some (a', tr) ->
  forallb operands_ok tr = true ->
  exists out st', run_op fixed (OEPush k m) st = Ok (out, st') /\ Rel b sv st' a'.
Proof.
  destruct st as [ts rs]. intros HR Ha Ho. pose proof HR as (tid & ri & l & HT & Hw & Hc & H0 & Hok & U). cbn [trees regs] in *.
  cbn [h_op] in Ha. pose proof (Hok (rreg m)) as Hm. pose proof (Hok (ereg k)) as Hk.
  destruct (h_reg a (rreg m)) as [x|] eqn:Ex.
  2:{ injection Ha as <- <-. apply ref_none in Hm. exists (1%N, @None str), (mk_state ts rs). split; [|exact HR].
      apply runs_intro. cbn [run_op]. unfold with_reg. rbind; [apply reg_at_has|]. rewrite Hm. rdone. }
  destruct x; try discriminate. destruct (reg_at rs (rreg m)) as [gm|] eqn:Egm; [|contradiction].
  cbn [ref_ok] in Hm. destruct Hm as (te & -> & Hte & HE & Hnew).
  destruct (h_reg a (ereg k)) as [y|] eqn:Ey.
  2:{ injection Ha as <- <-. apply ref_none in Hk.
      exists (1%N, @None str), (mk_state ts (set_reg_l (rreg m) None rs)). split.
      - apply runs_intro. cbn [run_op]. unfold with_reg. rbind; [apply reg_at_has|]. rewrite Egm.
        rbind; [apply reg_at_has|]. rewrite Hk. rbind; [apply runs_set_reg|]. rdone.
      - exists tid, ri, l. cbn [trees regs h_f h_reg]. split; [exact HT|]. split; [exact Hw|]. split; [exact Hc|].
        split; [rewrite upd_other by apply rreg_neq0; exact H0|]. split.
        + apply refs_set; [exact Hok|exact I].
        + apply uniq_set_plain; [exact U|exact I]. }
  destruct y; try discriminate. injection Ha as <- <-. cbn [forallb] in Ho. rewrite andb_true_r in Ho.
  destruct (reg_at rs (ereg k)) as [gk|] eqn:Egk; [|contradiction]. cbn [ref_ok] in Hk. destruct Hk as (ci & e & He & ->).
  pose proof (nth_error_Some_lt _ _ _ HT) as Hlt.
  destruct (nth_entry_content _ _ _ _ _ _ Hc He) as (Hi & _).
  assert (Hx' : x_in_range (fst (lcontent l)) (AEPush i r) = true) by (rewrite Hc; cbn; now apply Nat.ltb_lt).
  destruct (live_step_tree b (AEPush i r) l Hw Ho Hx') as (l' & Hal & _ & Hw' & Hc' & _).
  cbn [a_op] in Hal. unfold a_on_entry in Hal. rewrite He in Hal. injection Hal as <-.
  destruct (epush_machine ts rs tid ri l i ci e (ereg k) (rreg m) te (crel_tree r) Egk HT He Egm HE)
    as (ts' & F & pos & new & Epl & R & T' & O & A & B).
  rewrite (crel_is_lrel _ Hnew) in Epl.
  destruct (epush_children e (lrel_new r)) as (pos' & new' & Epl' & Ech & Hslots). rewrite Epl in Epl'. injection Epl' as <- <-.
  assert (ET : upd_path (ltree l) [ci] (fun _ => Node ENTRY (insert_at pos new (lentry_children e)))
               = ltree (replace_at ci (RE (a_epush e (lrel_new r))) l)).
  { apply (upd_entry_at l i ci e); [exact He|]. unfold lentry_tree. now rewrite Ech. }
  rewrite ET in T'.
  assert (Fk : F (mk_hnd tid [ci]) = mk_hnd tid [ci]) by (apply A; [exact Hlt|apply above_self]).
  assert (Hne : ereg k <> rreg m) by apply ereg_rreg.
  eexists (0%N, _), (mk_state ts' (set_reg_l (rreg m) None (map (option_map F) rs))). split.
  - apply runs_intro. cbn [run_op]. unfold with_reg. rbind; [apply reg_at_has|]. rewrite Egm.
    rbind; [apply reg_at_has|]. rewrite Egk. rbind; [exact R|].
    rbind; [|rdone]. eapply reg_text_runs; [|exact T'|].
    + rewrite reg_at_set. apply Nat.eqb_neq in Hne. rewrite Hne. rewrite reg_at_map, Egk. cbn [option_map]. now rewrite Fk.
    + cbn [s_tree]. rewrite <- ET. eapply get_path_upd_path. apply (get_path_entry _ _ _ _ He).
  - exists tid, ri, (replace_at ci (RE (a_epush e (lrel_new r))) l). cbn [trees regs h_f h_reg].
    split; [exact T'|]. split; [exact Hw'|]. split; [rewrite Hc', Hc; reflexivity|].
    split; [rewrite upd_other by apply rreg_neq0; exact H0|]. split.
    + apply refs_set; [|exact I]. eapply (entry_edit_refs ts ts' rs F tid l i ci e); [exact He|exact O|exact A|exact Hlt| |exact Hok].
      intros j cj Hj. pose proof (Hslots _ _ Hj) as Hlt'. split.
      * change [ci; cj] with ([ci] ++ cj :: []). rewrite B. replace (pos <=? cj) with false by (symmetry; apply Nat.leb_gt; lia). reflexivity.
      * rewrite Ech. now apply nth_index_insert_after.
    + apply uniq_set_plain; [|exact I]. apply uniq_remap_id.
      eapply uniq_transport; [exact keeps_id| |exact Hok|exact U].
      intros g Hg Hn. apply A; [exact Hg|now apply above_other].
Qed.

(* ------------------------------------------------------------------ the operations on one relation *)
Lemma x_in_range_rel (f : list (list relx)) i j : i < length f -> j < n_alts f i ->
  match nth_error f i with Some e => j <? length e | None => false end = true.
Proof.
  unfold n_alts. intros Hi Hj. destruct (nth_error f i) as [e|] eqn:E; [now apply Nat.ltb_lt|].
  apply nth_error_None in E. lia.
Qed.

Lemma rel_op_core b sv ts rs a tid ri l m i j o' (mop : nat -> M unit) f g :
  nth_error ts tid = Some (mk_slot true ri (ltree l)) -> lwf b l = true -> lcontent l = (h_f a, sv) ->
  h_reg a 0 = Some Root -> (forall q, ref_ok ts tid l (reg_at rs q) (h_reg a q)) -> new_uniq rs (h_reg a) ->
  h_reg a (rreg m) = Some (RLive i j) ->
  (forall k cs, node_op mop (Node k cs) (Node k (f cs))) ->
  (forall r, f (lrel_children r) = lrel_children (g r)) ->
  a_op o' l = a_on_relation l i j g ->
  (i < length (h_f a) -> j < n_alts (h_f a) i -> x_in_range (h_f a) o' = true) ->
  operands_ok o' = true ->
  exists ts' rs' (n' : rtree),
    runs (mop (rreg m)) (mk_state ts rs) tt (mk_state ts' rs') /\
    runs (reg_text (rreg m)) (mk_state ts' rs') (Some (text n')) (mk_state ts' rs') /\
    Rel b sv (mk_state ts' rs') (mk_hstate (xstep (h_f a) o') (h_reg a)).
Proof.
  intros HT Hw Hc H0 Hok U Hm Hop Hfg Hao Hxr Ho.
  pose proof (Hok (rreg m)) as Hrm. rewrite Hm in Hrm. destruct (reg_at rs (rreg m)) as [gm|] eqn:Egm; [|contradiction].
  cbn [ref_ok] in Hrm. destruct Hrm as (ci & e & cj & He & Hj & ->).
  pose proof (nth_error_Some_lt _ _ _ HT) as Hlt.
  pose proof (rel_slot_inv _ _ _ Hj) as Hjn.
  destruct (nth_rel_some e j ltac:(now apply Nat.ltb_lt)) as (r & Hr).
  destruct (entry_rel_split e j r Hr) as (rp & rq & Ech & Hn & Hupd).
  assert (cj = length rp) by congruence. subst cj.
  destruct (nth_entry_content _ _ _ _ _ _ Hc He) as (Hi & Hna).
  assert (Hx' : x_in_range (fst (lcontent l)) o' = true) by (rewrite Hc; apply Hxr; [exact Hi|now rewrite Hna]).
  destruct (live_step_tree b o' l Hw Ho Hx') as (l' & Hal & _ & Hw' & Hc' & _).
  rewrite Hao in Hal. unfold a_on_relation in Hal. rewrite He in Hal.
  assert (Hjb : j <? n_rels e = true) by now apply Nat.ltb_lt. rewrite Hjb in Hal. injection Hal as <-.
  assert (HGe : get_path (ltree l) [ci] = Some (lentry_tree e)) by apply (get_path_entry _ _ _ _ He).
  assert (HG : get_path (ltree l) ([ci] ++ [length rp]) = Some (Node RELATION (lrel_children r))).
  { rewrite get_path_app, HGe. cbn [get_path lentry_tree children]. rewrite Ech, nth_error_app_len. reflexivity. }
  destruct (Hop RELATION (lrel_children r) ts rs (rreg m) tid ri (ltree l) [ci] (length rp) (reg_at_nth _ _ _ Egm) HT HG)
    as (ts' & F & R & T' & A & O).
  assert (ET : upd_path (ltree l) ([ci] ++ [length rp]) (fun _ => Node RELATION (f (lrel_children r)))
               = ltree (replace_at ci (RE (upd_rel e j g)) l)).
  { rewrite (upd_path_app _ _ _ _ _ HGe). apply (upd_entry_at l i ci e); [exact He|].
    unfold lentry_tree. cbn [upd_path]. rewrite Ech, upd_nth_app_r, Hupd, Hfg. reflexivity. }
  rewrite ET in T'.
  assert (Fm : F (mk_hnd tid [ci; length rp]) = mk_hnd tid [ci; length rp]) by (apply A; [exact Hlt|apply (above_self tid ([ci] ++ [length rp]))]).
  exists ts', (map (option_map F) rs), (Node RELATION (f (lrel_children r))). split; [exact R|]. split.
  - eapply reg_text_runs; [rewrite reg_at_map, Egm; cbn [option_map]; now rewrite Fm|exact T'|].
    cbn [s_tree]. rewrite <- ET. exact (get_path_upd_path _ _ (fun _ => Node RELATION (f (lrel_children r))) _ HG).
  - exists tid, ri, (replace_at ci (RE (upd_rel e j g)) l). cbn [trees regs h_f h_reg].
    split; [exact T'|]. split; [exact Hw'|]. split; [rewrite Hc', Hc; reflexivity|]. split; [exact H0|].
    assert (O' : forall j0 sl, nth_error ts j0 = Some sl -> j0 <> tid -> nth_error ts' j0 = Some sl).
    { intros j0 sl Hj0 Hn0. rewrite O; [exact Hj0|exact Hn0|eapply nth_error_Some_lt; exact Hj0]. }
    assert (A' : forall g0, h_tid g0 < length ts -> above tid [ci] g0 -> F g0 = g0).
    { intros g0 Hg0 Ha0. apply A; [exact Hg0|now apply above_deeper]. }
    split.
    + eapply (entry_edit_refs ts ts' rs F tid l i ci e); [exact He|exact O'|exact A'|exact Hlt| |exact Hok].
      intros j0 cj0 Hj0. split.
      * apply A; [exact Hlt|]. destruct (Nat.eq_dec cj0 (length rp)) as [->|Hne]; [apply (above_self tid ([ci] ++ [length rp]))|].
        apply (above_sibling tid [ci] (length rp) cj0 [] []). congruence.
      * rewrite Hupd. rewrite Ech in Hj0. rewrite <- Hj0. symmetry. apply nth_index_replace_same. reflexivity.
    + apply uniq_remap_id. eapply uniq_transport; [exact keeps_id| |exact Hok|exact U].
      intros g0 Hg0 Hn0. apply A; [exact Hg0|now apply above_other].
Qed.

(* the wrappers of run_op *)
Lemma through_gen r (mop : M unit) ts rs ts' rs' (n' : rtree) g :
  reg_at rs r = Some g -> runs mop (mk_state ts rs) tt (mk_state ts' rs') ->
  runs (reg_text r) (mk_state ts' rs') (Some (text n')) (mk_state ts' rs') ->
  runs (through r mop) (mk_state ts rs) (0%N, Some (text n')) (mk_state ts' rs').
Proof.
  intros Hr R Rt. unfold through, with_reg. rbind; [apply reg_at_has|]. rewrite Hr.
  rbind; [exact R|]. rbind; [exact Rt|]. rdone.
Qed.
Lemma through_none r (mop : M unit) ts rs : reg_at rs r = None ->
  runs (through r mop) (mk_state ts rs) (1%N, None) (mk_state ts rs).
Proof. intros Hr. unfold through, with_reg. rbind; [apply reg_at_has|]. rewrite Hr. rdone. Qed.

Lemma step_on_relation b sv st a m X (mk : nat -> nat -> aop) (mop : nat -> M unit) f g a' tr :
  run_op fixed X = through (rreg m) (mop (rreg m)) ->
  h_op X a = match h_reg a (rreg m) with
             | None => Some (a, [])
             | Some (RLive i j) => Some (mk_hstate (xstep (h_f a) (mk i j)) (h_reg a), [mk i j])
             | _ => None
             end ->
  (forall k cs, node_op mop (Node k cs) (Node k (f cs))) ->
  (forall r, f (lrel_children r) = lrel_children (g r)) ->
  (forall l i j, a_op (mk i j) l = a_on_relation l i j g) ->
  (forall fc i j, x_in_range fc (mk i j) = match nth_error fc i with Some e => j <? length e | None => false end) ->
  Rel b sv st a -> h_op X a = Some (a', tr) -> forallb operands_ok tr = true ->
  exists out st', run_op fixed X st = Ok (out, st') /\ Rel b sv st' a'.
Proof.
  intros HX Hh Hop Hfg Hao Hxr HR Ha Ho. destruct st as [ts rs].
  pose proof HR as (tid & ri & l & HT & Hw & Hc & H0 & Hok & U). cbn [trees regs] in *.
  rewrite Hh in Ha. pose proof (Hok (rreg m)) as Hm. destruct (h_reg a (rreg m)) as [x|] eqn:Ex.
  - destruct x; try discriminate. injection Ha as <- <-. cbn [forallb] in Ho. rewrite andb_true_r in Ho.
    destruct (rel_op_core b sv ts rs a tid ri l m i j (mk i j) mop f g HT Hw Hc H0 Hok U Ex Hop Hfg (Hao l i j))
      as (ts' & rs' & n' & R & Rt & HR'); [|exact Ho|].
    { intros Hi Hj. rewrite Hxr. now apply x_in_range_rel. }
    destruct (ref_some _ _ _ _ _ Hm) as (gm & Egm).
    exists (0%N, Some (text n')), (mk_state ts' rs'). split; [|exact HR'].
    apply runs_intro. rewrite HX. eapply through_gen; eauto.
  - injection Ha as <- <-. apply ref_none in Hm. exists (1%N, @None str), (mk_state ts rs). split; [|exact HR].
    apply runs_intro. rewrite HX. now apply through_none.
Qed.

Lemma step_set_version b sv st a m v a' tr : Rel b sv st a -> h_op (OSetVersion m v) a = Some (a', tr) ->
  forallb operands_ok tr = true -> exists out st', run_op fixed (OSetVersion m v) st = Ok (out, st') /\ Rel b sv st' a'.
Proof.
  apply (step_on_relation b sv st a m (OSetVersion m v) (fun i j => ASetVersion i j v)
           (fun r => relation_set_version fixed r v) (set_version_cs v) (a_set_version v)); try reflexivity.
  - intros k cs. apply set_version_node_op_gen.
  - apply set_version_commute.
Qed.
Lemma step_set_archqual b sv st a m q a' tr : Rel b sv st a -> h_op (OSetArchqual m q) a = Some (a', tr) ->
  forallb operands_ok tr = true -> exists out st', run_op fixed (OSetArchqual m q) st = Ok (out, st') /\ Rel b sv st' a'.
Proof.
  apply (step_on_relation b sv st a m (OSetArchqual m q) (fun i j => ASetArchqual i j q)
           (fun r => relation_set_archqual r q) (set_archqual_cs q) (a_set_archqual q)); try reflexivity.
  - intros k cs. apply set_archqual_node_op_gen.
  - apply set_archqual_commute.
Qed.
Lemma step_set_archs b sv st a m x a' tr : Rel b sv st a -> h_op (OSetArchs m x) a = Some (a', tr) ->
  forallb operands_ok tr = true -> exists out st', run_op fixed (OSetArchs m x) st = Ok (out, st') /\ Rel b sv st' a'.
Proof.
  apply (step_on_relation b sv st a m (OSetArchs m x) (fun i j => ASetArchs i j x)
           (fun r => relation_set_architectures_v fixed r x) (set_architectures_cs x) (a_set_archs x)); try reflexivity.
  - intros k cs. apply set_architectures_node_op_gen.
  - apply set_archs_commute.
Qed.
Lemma step_add_profile b sv st a m x a' tr : Rel b sv st a -> h_op (OAddProfile m x) a = Some (a', tr) ->
  forallb operands_ok tr = true -> exists out st', run_op fixed (OAddProfile m x) st = Ok (out, st') /\ Rel b sv st' a'.
Proof.
  apply (step_on_relation b sv st a m (OAddProfile m x) (fun i j => AAddProfile i j x)
           (fun r => relation_add_profile_v fixed r x) (add_profile_cs x) (a_add_profile x)); try reflexivity.
  - intros k cs. apply add_profile_node_op_gen.
  - apply add_profile_commute.
Qed.
Lemma step_drop_constraint b sv st a m a' tr : Rel b sv st a -> h_op (ODropConstraint m) a = Some (a', tr) ->
  forallb operands_ok tr = true -> exists out st', run_op fixed (ODropConstraint m) st = Ok (out, st') /\ Rel b sv st' a'.
Proof.
  intros HR Ha Ho. destruct st as [ts rs].
  pose proof HR as (tid & ri & l & HT & Hw & Hc & H0 & Hok & U). cbn [trees regs] in *.
  cbn [h_op] in Ha. pose proof (Hok (rreg m)) as Hm. destruct (h_reg a (rreg m)) as [x|] eqn:Ex.
  - destruct x; try discriminate. injection Ha as <- <-. cbn [forallb] in Ho. rewrite andb_true_r in Ho.
    destruct (rel_op_core b sv ts rs a tid ri l m i j (ADropConstraint i j) (fun r => relation_set_version fixed r None)
                (set_version_cs None) (a_set_version None) HT Hw Hc H0 Hok U Ex
                (fun k cs => set_version_node_op_gen None k cs) (set_version_commute None) eq_refl)
      as (ts' & rs' & n' & R & Rt & HR'); [|exact Ho|].
    { intros Hi Hj. cbn [x_in_range]. now apply x_in_range_rel. }
    destruct (ref_some _ _ _ _ _ Hm) as (gm & Egm).
    cbn [relation_set_version] in R. destruct (runs_bind_inv _ _ _ _ _ R) as (bb & st1 & R1 & R2).
    apply runs_ret_inv in R2. destruct R2 as [_ ->].
    exists (if bb then 6%N else 7%N, Some (text n')), (mk_state ts' rs'). split; [|exact HR'].
    apply runs_intro. cbn [run_op]. unfold with_reg. rbind; [apply reg_at_has|]. rewrite Egm.
    rbind; [exact R1|]. rbind; [exact Rt|]. rdone.
  - injection Ha as <- <-. apply ref_none in Hm. exists (1%N, @None str), (mk_state ts rs). split; [|exact HR].
    apply runs_intro. cbn [run_op]. unfold with_reg. rbind; [apply reg_at_has|]. rewrite Hm. rdone.
Qed.

(* ------------------------------------------------------------------ one operation, programs: the additive operations *)
Theorem handles_step_additive b sv st a o a' tr : additive o = true ->
  Rel b sv st a -> h_op o a = Some (a', tr) -> forallb operands_ok tr = true ->
  exists out st', run_op fixed o st = Ok (out, st') /\ Rel b sv st' a'.
Proof.
  intros Hadd HR Ha Ho. destruct o; try discriminate.
  - destruct (step_get_entry _ _ _ _ _ _ _ _ HR Ha) as (out & st' & H1 & H2 & _). eauto.
  - destruct (step_get_rel _ _ _ _ _ _ _ _ _ HR Ha) as (out & st' & H1 & H2 & _). eauto.
  - destruct (step_new_entry _ _ _ _ _ _ _ _ HR Ha) as (out & st' & H1 & H2 & _). eauto.
  - destruct (step_new_rel _ _ _ _ _ _ _ _ HR Ha) as (out & st' & H1 & H2 & _). eauto.
  - eapply step_push; eauto.
  - eapply step_insert; eauto.
  - eapply step_epush; eauto.
  - eapply step_set_version; eauto.
  - eapply step_drop_constraint; eauto.
  - eapply step_set_archqual; eauto.
  - eapply step_set_archs; eauto.
  - eapply step_add_profile; eauto.
Qed.

(* ------------------------------------------------------------------ removals: the range the code removes, on layouts *)
Lemma skipn_skipn_ {A} a : forall b (l : list A), skipn a (skipn b l) = skipn (b + a) l.
Proof.
  intros b; induction b as [|b IH]; intros l; [reflexivity|]. destruct l as [|x l]; [now rewrite !skipn_nil|].
  cbn [skipn Nat.add]. apply IH.
Qed.
(* Entry::remove of the element at ci: what is left, by the range of RelEditTree.entry_remove_range *)
Local Opaque skipn.
Lemma remove_at_range l ci l' : a_remove_at l ci = Some l' ->
  l' = firstn (fst (entry_remove_range fixed (map rt l) ci)) l ++ skipn (snd (entry_remove_range fixed (map rt l) ci)) l.
Proof.
  unfold entry_remove_range, a_remove_at, entry_remove_scan_next, entry_remove_scan_prev.
  rewrite firstn_map, skipn_map. set (pre := firstn ci l). set (post := skipn (S ci) l).
  rewrite ws_prefix_len_rt, skipn_map.
  assert (Ef : existsb (fun c => is_entry c || (fx_first_substvar fixed && node_is SUBSTVAR c)) (map rt pre)
               = existsb is_item pre).
  { apply existsb_map. intros x. cbn [fx_first_substvar fixed andb]. apply is_item_rt. }
  rewrite Ef.
  assert (Hprev : forall rc,
    (let rp := rev (map rt pre) in let n := ws_prefix_len rp in
     match skipn n rp with
     | c :: _ => if negb rc && kind_is COMMA c then S n else n
     | [] => n
     end) =
    (let rp := rev pre in let m := wlen rp in
     match skipn m rp with RC :: _ => if rc then m else S m | _ => m end)).
  { intros rc. cbv zeta. rewrite <- map_rev, ws_prefix_len_rt, skipn_map.
    destruct (skipn (wlen (rev pre)) (rev pre)) as [|y r']; [reflexivity|]. cbn [map]. rewrite is_comma_rt.
    destruct y, rc; reflexivity. }
  assert (Hpre : forall k, firstn (ci - k) pre = firstn (ci - k) l).
  { intros k. unfold pre. rewrite firstn_firstn. f_equal. lia. }
  destruct (skipn (wlen post) post) as [|x r] eqn:E.
  - cbn [map]. destruct (negb (existsb is_item pre)); intros [= <-]; cbn [fst snd].
    + rewrite skipn_map, ws_prefix_len_rt. f_equal. unfold post. rewrite !skipn_skipn_. f_equal. lia.
    + cbv zeta in Hprev. rewrite (Hprev false), Hpre. f_equal. unfold post. rewrite skipn_skipn_. reflexivity.
  - cbn [map]. rewrite is_comma_rt. destruct x; cbn [is_rc]; try discriminate.
    destruct (negb (existsb is_item pre)); intros [= <-]; cbn [fst snd].
    + rewrite skipn_map, ws_prefix_len_rt. f_equal. unfold post. rewrite !skipn_skipn_. f_equal. lia.
    + cbv zeta in Hprev. rewrite (Hprev true), Hpre. f_equal. unfold post. rewrite skipn_skipn_. reflexivity.
Qed.
Local Transparent skipn.

(* the entries in front of a position *)
Definition cnt (l : lroot) (k : nat) : nat := length (lentries (firstn k l)).
Lemma cnt_mono l a b : a <= b -> cnt l a <= cnt l b.
Proof.
  intros H. unfold cnt. replace (firstn a l) with (firstn a (firstn b l)) by (rewrite firstn_firstn; f_equal; lia).
  apply lentries_firstn_le.
Qed.
Lemma cnt_entry l i ci e : nth_entry l i = Some (ci, e) -> cnt l ci = i /\ cnt l (S ci) = S i.
Proof.
  intros H. destruct (nth_entry_entries _ _ _ _ H) as (pre & post & -> & <- & <-). unfold cnt. split.
  - now rewrite firstn_app_len.
  - replace (pre ++ RE e :: post) with ((pre ++ [RE e]) ++ post) by (now rewrite <- app_assoc).
    replace (S (length pre)) with (length (pre ++ [RE e])) by (rewrite app_length; cbn; lia).
    rewrite firstn_app_len, lentries_app, app_length. cbn. lia.
Qed.
Lemma cnt_skipn l k : length (lentries (skipn k l)) = length (lentries l) - cnt l k.
Proof. unfold cnt. pose proof (lentries_firstn_skipn k l). lia. Qed.

(* the children [lo, hi) of the root go, exactly one entry (number i) among them: where the
   other entries are afterwards *)
Lemma cut_entry_pos l i ci e lo hi i0 c0 e0 :
  nth_entry l i = Some (ci, e) -> lo <= ci -> ci < hi ->
  length (lentries (firstn lo l ++ skipn hi l)) + 1 = length (lentries l) ->
  nth_entry l i0 = Some (c0, e0) -> i0 <> i ->
  (c0 < lo \/ hi <= c0) /\
  nth_entry (firstn lo l ++ skipn hi l) (if i <? i0 then i0 - 1 else i0)
  = Some ((if hi <=? c0 then c0 - (hi - lo) else c0), e0).
Proof.
  intros He Hlo Hhi Hn H0 Hne.
  destruct (cnt_entry _ _ _ _ He) as (Ci & Ci'). destruct (cnt_entry _ _ _ _ H0) as (C0 & C0').
  rewrite lentries_app, app_length, cnt_skipn in Hn. fold (cnt l lo) in Hn.
  pose proof (cnt_mono l lo ci Hlo) as M1. pose proof (cnt_mono l (S ci) hi ltac:(lia)) as M2.
  assert (Hle : cnt l hi <= length (lentries l)) by (unfold cnt; apply lentries_firstn_le).
  assert (Clo : cnt l lo = i) by lia. assert (Chi : cnt l hi = S i) by lia.
  destruct (nth_entry_entries _ _ _ _ H0) as (pre0 & post0 & El & L0 & N0).
  assert (Hci : ci < length l) by (destruct (nth_entry_entries _ _ _ _ He) as (p1 & q1 & -> & <- & _); rewrite app_length; cbn; lia).
  destruct (Nat.lt_ge_cases c0 lo) as [Hc|Hc]; [|destruct (Nat.lt_ge_cases c0 hi) as [Hc'|Hc']].
  - split; [now left|]. pose proof (cnt_mono l (S c0) lo ltac:(lia)).
    replace (i <? i0) with false by (symmetry; apply Nat.ltb_ge; lia).
    replace (hi <=? c0) with false by (symmetry; apply Nat.leb_gt; lia).
    subst l. rewrite firstn_app. rewrite (firstn_all2 (n := lo)) by lia.
    destruct (lo - length pre0) as [|d] eqn:Ed; [lia|]. cbn [firstn]. rewrite <- !app_assoc. cbn [app].
    rewrite <- L0, <- N0. apply nth_entry_at.
  - exfalso. pose proof (cnt_mono l lo c0 Hc). pose proof (cnt_mono l (S c0) hi ltac:(lia)). lia.
  - split; [now right|]. pose proof (cnt_mono l hi c0 Hc').
    replace (i <? i0) with true by (symmetry; apply Nat.ltb_lt; lia).
    replace (hi <=? c0) with true by (symmetry; apply Nat.leb_le; lia).
    assert (Es : skipn hi l = skipn hi pre0 ++ RE e0 :: post0).
    { rewrite El, skipn_app. replace (hi - length pre0) with 0 by lia. reflexivity. }
    assert (Ef : firstn hi pre0 = firstn hi l).
    { rewrite El, firstn_app. replace (hi - length pre0) with 0 by lia. cbn [firstn]. now rewrite app_nil_r. }
    rewrite Es, app_assoc.
    replace (i0 - 1) with (length (lentries (firstn lo l ++ skipn hi pre0))).
    2:{ rewrite lentries_app, app_length. fold (cnt l lo). pose proof (lentries_firstn_skipn hi pre0) as Hs.
        rewrite Ef in Hs. fold (cnt l hi) in Hs. lia. }
    rewrite nth_entry_at. f_equal. f_equal. rewrite app_length, firstn_length, skipn_length. lia.
Qed.

(* ------------------------------------------------------------------ Entry::remove / Relations::remove_entry *)
Lemma keeps_del_entry p : keeps (del_entry_ref p).
Proof. intros []; cbn; try reflexivity; destruct (_ =? p); reflexivity. Qed.

(* the relation after the children [lo, hi) of the root are gone, entry i (and nothing else of
   the content) among them; X is the new content *)
Lemma rel_after_entry_cut b sv ts ts' rs F a tid ri l i ci e l' X :
  nth_error ts tid = Some (mk_slot true ri (ltree l)) ->
  h_reg a 0 = Some Root -> (forall q, ref_ok ts tid l (reg_at rs q) (h_reg a q)) -> new_uniq rs (h_reg a) ->
  nth_entry l i = Some (ci, e) ->
  a_remove_at l ci = Some l' -> lwf b l' = true -> lcontent l' = (X, sv) ->
  nth_error ts' tid = Some (mk_slot true ri (ltree l')) ->
  (forall j sl, nth_error ts j = Some sl -> j <> tid -> nth_error ts' j = Some sl) ->
  (forall g, above tid [] g -> F g = g) ->
  cut_map F tid [] (fst (entry_remove_range fixed (map rt l) ci)) (snd (entry_remove_range fixed (map rt l) ci)) ->
  fst (entry_remove_range fixed (map rt l) ci) <= ci -> ci < snd (entry_remove_range fixed (map rt l) ci) ->
  Rel b sv (mk_state ts' (map (option_map F) rs)) (mk_hstate X (remap (del_entry_ref i) (h_reg a))).
Proof.
  intros HT H0 Hok U He Hal Hw' Hc' T' O' A C Blo Bhi.
  destruct (nth_entry_entries _ _ _ _ He) as (lp & lq & El & Lp & Li).
  set (lo := fst (entry_remove_range fixed (map rt l) ci)) in *. set (hi := snd (entry_remove_range fixed (map rt l) ci)) in *.
  pose proof (remove_at_range l ci l' Hal) as El'. fold lo hi in El'.
  assert (Hn : length (lentries (firstn lo l ++ skipn hi l)) + 1 = length (lentries l)).
  { rewrite <- El'. rewrite El in Hal. rewrite <- Lp in Hal. destruct (remove_at_entries _ _ _ _ Hal) as [-> _].
    rewrite El, lentries_split, !app_length. cbn [length]. lia. }
  exists tid, ri, l'. cbn [trees regs h_f h_reg]. split; [exact T'|]. split; [exact Hw'|]. split; [exact Hc'|].
  split; [unfold remap; rewrite H0; reflexivity|].
  assert (HF : forall g, h_tid g < length ts -> h_tid g <> tid -> F g = g) by (intros g _ Hn0; apply A; now apply above_other).
  destruct C as [Ca Cb].
  split.
  - eapply refs_transport; [apply keeps_del_entry|exact O'|exact HF|apply A, above_root| | |exact Hok].
    + intros i0 c0 e0 H1. cbn [del_entry_ref]. destruct (i0 =? i) eqn:Ei; [exact I|]. apply Nat.eqb_neq in Ei.
      destruct (cut_entry_pos l i ci e lo hi i0 c0 e0 He Blo Bhi Hn H1 Ei) as (Hside & Hpos). rewrite <- El' in Hpos.
      cbn [ref_ok]. eexists _, e0. split; [exact Hpos|]. change [c0] with ([] ++ c0 :: []).
      destruct Hside as [Hs|Hs].
      * rewrite Ca by exact Hs. replace (hi <=? c0) with false by (symmetry; apply Nat.leb_gt; lia). reflexivity.
      * rewrite Cb by exact Hs. replace (hi <=? c0) with true by (symmetry; apply Nat.leb_le; lia). reflexivity.
    + intros i0 j c0 e0 cj H1 Hj. cbn [del_entry_ref]. destruct (i0 =? i) eqn:Ei; [exact I|]. apply Nat.eqb_neq in Ei.
      destruct (cut_entry_pos l i ci e lo hi i0 c0 e0 He Blo Bhi Hn H1 Ei) as (Hside & Hpos). rewrite <- El' in Hpos.
      cbn [ref_ok]. eexists _, e0, cj. split; [exact Hpos|]. split; [exact Hj|]. change [c0; cj] with ([] ++ c0 :: [cj]).
      destruct Hside as [Hs|Hs].
      * rewrite Ca by exact Hs. replace (hi <=? c0) with false by (symmetry; apply Nat.leb_gt; lia). reflexivity.
      * rewrite Cb by exact Hs. replace (hi <=? c0) with true by (symmetry; apply Nat.leb_le; lia). reflexivity.
  - eapply uniq_transport; [apply keeps_del_entry|exact HF|exact Hok|exact U].
Qed.

(* the entry goes, through ANY register that holds its handle (a temporary one included) *)
Lemma entry_remove_core b sv ts rs extra a tid ri l i ci e r l' :
  nth_error ts tid = Some (mk_slot true ri (ltree l)) -> lwf b l = true -> lcontent l = (h_f a, sv) ->
  h_reg a 0 = Some Root -> (forall q, ref_ok ts tid l (reg_at rs q) (h_reg a q)) -> new_uniq rs (h_reg a) ->
  nth_entry l i = Some (ci, e) ->
  nth_error (rs ++ extra) r = Some (Some (mk_hnd tid [ci])) ->
  a_remove_at l ci = Some l' -> lwf b l' = true -> lcontent l' = (xstep (h_f a) (ARemoveEntry i), sv) ->
  exists ts' F tn rn,
    runs (entry_remove fixed r) (mk_state ts (rs ++ extra)) tt (mk_state ts' (map (option_map F) (rs ++ extra))) /\
    F (mk_hnd tid [ci]) = mk_hnd tn [] /\ nth_error ts' tn = Some (mk_slot true rn (lentry_tree e)) /\
    Rel b sv (mk_state ts' (map (option_map F) rs))
        (mk_hstate (xstep (h_f a) (ARemoveEntry i)) (remap (del_entry_ref i) (h_reg a))).
Proof.
  intros HT Hw Hc H0 Hok U He Hr Hal Hw' Hc'.
  destruct (nth_entry_entries _ _ _ _ He) as (lp & lq & El & Lp & Li).
  assert (Ecs : map rt l = map rt lp ++ lentry_tree e :: map rt lq) by (rewrite El, map_app; reflexivity).
  assert (Lmp : length (map rt lp) = ci) by (now rewrite map_length).
  assert (HG : get_path (ltree l) [] = Some (Node ROOT (map rt lp ++ lentry_tree e :: map rt lq))) by (cbn [get_path]; unfold ltree; now rewrite Ecs).
  assert (Hcs : entry_remove_cs fixed (map rt lp ++ lentry_tree e :: map rt lq) (length (map rt lp)) = Ok (map rt l')).
  { rewrite <- Ecs, Lmp, remove_at_commute, Hal. reflexivity. }
  assert (Hr' : nth_error (rs ++ extra) r = Some (Some (mk_hnd tid ([] ++ [length (map rt lp)])))) by (rewrite Lmp; exact Hr).
  destruct (entry_remove_spec_x ts (rs ++ extra) r tid ri (ltree l) [] ROOT (map rt lp) (lentry_tree e) (map rt lq) (map rt l') Hr' HT HG Hcs)
    as (ts' & F & R & L & T' & O & (tn & rn & S1 & N1) & A & C & Blo & Bhi).
  rewrite <- Ecs, Lmp in C, Blo, Bhi.
  exists ts', F, tn, rn. split; [exact R|]. split; [rewrite Lmp in S1; exact S1|]. split; [exact N1|].
  eapply (rel_after_entry_cut b sv ts ts' rs F a tid ri l i ci e l'); eauto.
  intros j sl Hj Hn0. rewrite O; [exact Hj|exact Hn0|eapply nth_error_Some_lt; exact Hj].
Qed.

Lemma remove_entry_layout b l f sv i ci e : lwf b l = true -> lcontent l = (f, sv) -> nth_entry l i = Some (ci, e) ->
  exists l', a_remove_at l ci = Some l' /\ lwf b l' = true /\ lcontent l' = (xstep f (ARemoveEntry i), sv).
Proof.
  intros Hw Hc He. destruct (nth_entry_content _ _ _ _ _ _ Hc He) as (Hi & _).
  assert (Hx : x_in_range (fst (lcontent l)) (ARemoveEntry i) = true) by (rewrite Hc; cbn; now apply Nat.ltb_lt).
  destruct (live_step_tree b (ARemoveEntry i) l Hw eq_refl Hx) as (l' & Ha & _ & Hw' & Hc' & _).
  cbn [a_op] in Ha. unfold a_remove_entry in Ha. destruct (nth_entry_inv _ _ _ _ He) as (_ & _ & _ & _ & Hn). rewrite Hn in Ha.
  exists l'. rewrite Hc', Hc. auto.
Qed.

Lemma step_remove_entry b sv st a i a' tr : Rel b sv st a -> h_op (ORemoveEntry i) a = Some (a', tr) ->
  exists out st', run_op fixed (ORemoveEntry i) st = Ok (out, st') /\ Rel b sv st' a'.
Proof.
  destruct st as [ts rs]. intros HR Ha. pose proof HR as (tid & ri & l & HT & Hw & Hc & H0 & Hok & U). cbn [trees regs] in *.
  cbn [h_op] in Ha. destruct (i <? length (h_f a)) eqn:Ei; [|discriminate]. injection Ha as <- <-.
  apply Nat.ltb_lt in Ei. rewrite (content_entries _ _ _ Hc), map_length in Ei.
  destruct (nth_entry_lt l i Ei) as (ci & e & He).
  destruct (remove_entry_layout b l _ sv i ci e Hw Hc He) as (l' & Hal & Hw' & Hc').
  pose proof (rel_root ts rs a tid l H0 Hok) as Hr0.
  destruct (entry_remove_core b sv ts rs [Some (mk_hnd tid [ci])] a tid ri l i ci e (length rs) l' HT Hw Hc H0 Hok U He
              (nth_error_app_at _ _) Hal Hw' Hc') as (ts' & F & tn & rn & R & S1 & N1 & HR').
  exists (0%N, Some (text (lentry_tree e))), (mk_state ts' (map (option_map F) rs)). split; [|exact HR'].
  apply runs_intro. cbn [run_op]. rbind; [|rdone]. unfold relations_remove_entry.
  eapply runs_eq; [apply runs_scoped|reflexivity|].
  - rbind; [eapply nth_child_runs; [exact Hr0|exact HT|reflexivity]|].
    cbn [s_tree ltree children]. rewrite (nth_index_map rt is_entry is_re) by apply is_entry_rt.
    destruct (nth_entry_inv _ _ _ _ He) as (_ & _ & _ & _ & Hn). rewrite Hn. cbn [option_map app].
    rbind; [apply runs_push_tmp|]. rbind; [exact R|].
    unfold node_of_reg. rbind.
    { rbind; [apply runs_get_reg; rewrite nth_error_map, nth_error_app_at; cbn [option_map]; rewrite S1; reflexivity|].
      eapply runs_node_of; [exact N1|reflexivity]. }
    rdone.
  - cbn [regs]. now rewrite firstn_map_app_len.
Qed.

Lemma step_eremove b sv st a k a' tr : Rel b sv st a -> h_op (OERemove k) a = Some (a', tr) ->
  exists out st', run_op fixed (OERemove k) st = Ok (out, st') /\ Rel b sv st' a'.
Proof.
  destruct st as [ts rs]. intros HR Ha. pose proof HR as (tid & ri & l & HT & Hw & Hc & H0 & Hok & U). cbn [trees regs] in *.
  cbn [h_op] in Ha. pose proof (Hok (ereg k)) as Hk. destruct (h_reg a (ereg k)) as [x|] eqn:Ex.
  - destruct x; try discriminate. injection Ha as <- <-.
    destruct (reg_at rs (ereg k)) as [gk|] eqn:Egk; [|contradiction]. cbn [ref_ok] in Hk. destruct Hk as (ci & e & He & ->).
    destruct (remove_entry_layout b l _ sv i ci e Hw Hc He) as (l' & Hal & Hw' & Hc').
    assert (Hr : nth_error (rs ++ []) (ereg k) = Some (Some (mk_hnd tid [ci]))) by (rewrite app_nil_r; now apply reg_at_nth).
    destruct (entry_remove_core b sv ts rs [] a tid ri l i ci e (ereg k) l' HT Hw Hc H0 Hok U He Hr Hal Hw' Hc')
      as (ts' & F & tn & rn & R & S1 & N1 & HR'). rewrite app_nil_r in R.
    exists (0%N, Some (text (lentry_tree e))), (mk_state ts' (map (option_map F) rs)). split; [|exact HR'].
    apply runs_intro. cbn [run_op]. eapply through_gen; [exact Egk|exact R|].
    eapply reg_text_runs; [rewrite reg_at_map, Egk; cbn [option_map]; rewrite S1; reflexivity|exact N1|reflexivity].
  - injection Ha as <- <-. apply ref_none in Hk. exists (1%N, @None str), (mk_state ts rs). split; [|exact HR].
    apply runs_intro. cbn [run_op]. now apply through_none.
Qed.

(* ------------------------------------------------------------------ Relation::remove / Entry::remove_relation *)
(* a cut of a list with exactly one p-element in it: where the other p-elements are afterwards *)
Lemma count_firstn_le {A} (p : A -> bool) n l : count_if p (firstn n l) <= count_if p l.
Proof. rewrite <- (firstn_skipn n l) at 2. rewrite count_if_app. lia. Qed.
Lemma count_firstn_mono {A} (p : A -> bool) l a b : a <= b -> count_if p (firstn a l) <= count_if p (firstn b l).
Proof.
  intros H. replace (firstn a l) with (firstn a (firstn b l)) by (rewrite firstn_firstn; f_equal; lia). apply count_firstn_le.
Qed.
Lemma count_at {A} (p : A -> bool) n l i : nth_index p n l = Some i ->
  count_if p (firstn i l) = n /\ count_if p (firstn (S i) l) = S n /\ i < length l.
Proof.
  intros H. destruct (nth_index_count p n l i H) as (pre & x & post & -> & <- & Px & <-). split; [|split].
  - now rewrite firstn_app_len.
  - replace (pre ++ x :: post) with ((pre ++ [x]) ++ post) by (now rewrite <- app_assoc).
    replace (S (length pre)) with (length (pre ++ [x])) by (rewrite app_length; cbn; lia).
    rewrite firstn_app_len, count_if_app, count_if_cons, Px. cbn. lia.
  - rewrite app_length. cbn. lia.
Qed.
Lemma cut_nth_index {A} (p : A -> bool) l j cj lo hi j0 c0 :
  nth_index p j l = Some cj -> lo <= cj -> cj < hi ->
  count_if p (firstn lo l ++ skipn hi l) + 1 = count_if p l ->
  nth_index p j0 l = Some c0 -> j0 <> j ->
  (c0 < lo \/ hi <= c0) /\
  nth_index p (if j <? j0 then j0 - 1 else j0) (firstn lo l ++ skipn hi l)
  = Some (if hi <=? c0 then c0 - (hi - lo) else c0).
Proof.
  intros Hj Hlo Hhi Hn H0 Hne.
  destruct (count_at p _ _ _ Hj) as (Cj & Cj' & Lj). destruct (count_at p _ _ _ H0) as (C0 & C0' & L0).
  rewrite count_if_app in Hn.
  assert (Hsk : count_if p (skipn hi l) = count_if p l - count_if p (firstn hi l)).
  { rewrite <- (firstn_skipn hi l) at 2. rewrite count_if_app. lia. }
  pose proof (count_firstn_mono p l lo cj Hlo) as M1. pose proof (count_firstn_mono p l (S cj) hi ltac:(lia)) as M2.
  pose proof (count_firstn_le p hi l) as Hle.
  assert (Clo : count_if p (firstn lo l) = j) by lia. assert (Chi : count_if p (firstn hi l) = S j) by lia.
  destruct (nth_index_count p j0 l c0 H0) as (pre0 & x0 & post0 & El & Lp0 & Px0 & N0).
  destruct (Nat.lt_ge_cases c0 lo) as [Hc|Hc]; [|destruct (Nat.lt_ge_cases c0 hi) as [Hc'|Hc']].
  - split; [now left|]. pose proof (count_firstn_mono p l (S c0) lo ltac:(lia)).
    replace (j <? j0) with false by (symmetry; apply Nat.ltb_ge; lia).
    replace (hi <=? c0) with false by (symmetry; apply Nat.leb_gt; lia).
    subst l. rewrite firstn_app. rewrite (firstn_all2 (n := lo)) by lia.
    destruct (lo - length pre0) as [|d] eqn:Ed; [lia|]. cbn [firstn]. rewrite <- !app_assoc. cbn [app].
    rewrite <- Lp0, <- N0. now apply nth_index_at.
  - exfalso. pose proof (count_firstn_mono p l lo c0 Hc). pose proof (count_firstn_mono p l (S c0) hi ltac:(lia)). lia.
  - split; [now right|]. pose proof (count_firstn_mono p l hi c0 Hc').
    replace (j <? j0) with true by (symmetry; apply Nat.ltb_lt; lia).
    replace (hi <=? c0) with true by (symmetry; apply Nat.leb_le; lia).
    assert (Es : skipn hi l = skipn hi pre0 ++ x0 :: post0).
    { rewrite El, skipn_app. replace (hi - length pre0) with 0 by lia. reflexivity. }
    assert (Ef : firstn hi pre0 = firstn hi l).
    { rewrite El, firstn_app. replace (hi - length pre0) with 0 by lia. cbn [firstn]. now rewrite app_nil_r. }
    rewrite Es, app_assoc.
    replace (j0 - 1) with (count_if p (firstn lo l ++ skipn hi pre0)).
    2:{ rewrite count_if_app. assert (count_if p (skipn hi pre0) = count_if p pre0 - count_if p (firstn hi pre0)).
        { rewrite <- (firstn_skipn hi pre0) at 2. rewrite count_if_app. lia. }
        rewrite Ef in H1. lia. }
    rewrite (nth_index_at p _ x0 post0 Px0). f_equal. rewrite app_length, firstn_length, skipn_length. lia.
Qed.

Local Opaque skipn.
Lemma relation_remove_cs_range cs i cs' : relation_remove_cs cs i = Ok cs' ->
  cs' = firstn (fst (relation_remove_range cs i)) cs ++ skipn (snd (relation_remove_range cs i)) cs.
Proof.
  unfold relation_remove_cs, relation_remove_range.
  destruct (negb (existsb is_relation (firstn i cs))).
  - destruct (relation_remove_scan_next (skipn (S i) cs)) as [k| | |]; try discriminate. intros [= <-]. cbn [fst snd].
    f_equal. now rewrite skipn_skipn_.
  - intros [= <-]. cbn [fst snd]. f_equal. rewrite firstn_firstn. f_equal. lia.
Qed.
Local Transparent skipn.
Lemma entry_remove_range_hole v pre x y post :
  entry_remove_range v (pre ++ x :: post) (length pre) = entry_remove_range v (pre ++ y :: post) (length pre).
Proof. unfold entry_remove_range. now rewrite !firstn_app_len, !skipn_S_app_len. Qed.
Lemma keeps_del_rel p q : keeps (del_rel_ref p q).
Proof. intros []; cbn; try reflexivity. destruct (_ =? p); [destruct (_ =? q)|]; reflexivity. Qed.
Lemma remove_rel_count e j e' : j < n_rels e -> a_remove_rel e j = Some e' -> n_rels e = S (n_rels e').
Proof.
  unfold a_remove_rel, n_rels. intros Hj. destruct j as [|j].
  - destruct (e_alts e) as [|[[w1 w2] r] rest]; [discriminate|]. intros [= <-]. reflexivity.
  - intros [= <-]. cbn [e_alts]. unfold remove_nth. rewrite app_length, firstn_length, skipn_length. lia.
Qed.
Lemma remove_rel_none e j : j < n_rels e -> a_remove_rel e j = None -> n_rels e = 1.
Proof.
  unfold a_remove_rel, n_rels. intros Hj. destruct j as [|j]; [|discriminate].
  destruct (e_alts e) as [|[[w1 w2] r] rest]; [reflexivity|discriminate].
Qed.

Lemma remove_relation_layout b l f sv i j ci e : lwf b l = true -> lcontent l = (f, sv) -> nth_entry l i = Some (ci, e) ->
  j < n_rels e ->
  exists l', a_remove_relation l i j = Some l' /\ lwf b l' = true /\ lcontent l' = (xstep f (ARemoveRelation i j), sv).
Proof.
  intros Hw Hc He Hj. destruct (nth_entry_content _ _ _ _ _ _ Hc He) as (Hi & Hna).
  assert (Hx : x_in_range (fst (lcontent l)) (ARemoveRelation i j) = true).
  { rewrite Hc. cbn [fst x_in_range]. apply x_in_range_rel; [exact Hi|now rewrite Hna]. }
  destruct (live_step_tree b (ARemoveRelation i j) l Hw eq_refl Hx) as (l' & Ha & _ & Hw' & Hc' & _).
  exists l'. rewrite Hc', Hc. auto.
Qed.

(* the alternative goes (and the entry with it when it was the only one), through ANY register
   that holds its handle *)
Lemma relation_remove_core b sv ts rs extra a tid ri l i j ci e cj r l' :
  nth_error ts tid = Some (mk_slot true ri (ltree l)) -> lwf b l = true -> lcontent l = (h_f a, sv) ->
  h_reg a 0 = Some Root -> (forall q, ref_ok ts tid l (reg_at rs q) (h_reg a q)) -> new_uniq rs (h_reg a) ->
  nth_entry l i = Some (ci, e) -> nth_index is_relation j (lentry_children e) = Some cj ->
  nth_error (rs ++ extra) r = Some (Some (mk_hnd tid [ci; cj])) ->
  a_remove_relation l i j = Some l' -> lwf b l' = true -> lcontent l' = (xstep (h_f a) (ARemoveRelation i j), sv) ->
  exists ts' F tn rn x esl ecs,
    runs (relation_remove fixed r) (mk_state ts (rs ++ extra)) tt (mk_state ts' (map (option_map F) (rs ++ extra))) /\
    F (mk_hnd tid [ci; cj]) = mk_hnd tn [] /\ nth_error ts' tn = Some (mk_slot true rn x) /\
    nth_error ts' (h_tid (F (mk_hnd tid [ci]))) = Some esl /\
    get_path (s_tree esl) (h_path (F (mk_hnd tid [ci]))) = Some (Node ENTRY ecs) /\
    Rel b sv (mk_state ts' (map (option_map F) rs))
        (mk_hstate (xstep (h_f a) (ARemoveRelation i j))
                   (remap (if n_alts (h_f a) i =? 1 then del_entry_ref i else del_rel_ref i j) (h_reg a))).
Proof.
  intros HT Hw Hc H0 Hok U He Hj Hr Hal Hw' Hc'.
  destruct (nth_entry_entries _ _ _ _ He) as (lp & lq & El & Lp & Li).
  pose proof (nth_error_Some_lt _ _ _ HT) as Hlt.
  pose proof (rel_slot_inv _ _ _ Hj) as Hjn.
  assert (Hjb : j <? n_rels e = true) by now apply Nat.ltb_lt.
  destruct (nth_rel_some e j Hjb) as (r0 & Hr0).
  destruct (entry_rel_split e j r0 Hr0) as (rp & rq & Ech & Hn & Hupd).
  assert (cj = length rp) by congruence. subst cj.
  destruct (nth_entry_content _ _ _ _ _ _ Hc He) as (Hi & Hna). rewrite Hna.
  unfold a_remove_relation in Hal. rewrite He, Hjb in Hal.
  assert (Lmp : length (map rt lp) = ci) by (now rewrite map_length).
  assert (HGp : get_path (ltree l) [] = Some (Node ROOT (map rt lp ++ Node ENTRY (rp ++ lrel_tree r0 :: rq) :: map rt lq))).
  { cbn [get_path]. unfold ltree. rewrite El, map_app. cbn [map relem_tree]. unfold lentry_tree. now rewrite Ech. }
  pose proof (remove_rel_commute e j r0 rp rq Hr0 Ech Hn) as Hcs. rewrite Ech in Hcs.
  assert (Hr' : nth_error (rs ++ extra) r = Some (Some (mk_hnd tid (([] ++ [length (map rt lp)]) ++ [length rp]))))
    by (rewrite Lmp; exact Hr).
  destruct (a_remove_rel e j) as [e'|] eqn:Erm.
  - (* alternatives remain *)
    injection Hal as <-.
    assert (Hecs : (if count_if is_relation (lentry_children e') =? 0
                    then entry_remove_cs fixed (map rt lp ++ Node ENTRY (lentry_children e') :: map rt lq) (length (map rt lp))
                    else Ok (map rt lp ++ Node ENTRY (lentry_children e') :: map rt lq))
                   = Ok (map rt lp ++ Node ENTRY (lentry_children e') :: map rt lq))
      by (now rewrite count_relations_lentry).
    destruct (relation_remove_spec_x ts (rs ++ extra) r tid ri (ltree l) [] ROOT (map rt lp) (map rt lq) rp (lrel_tree r0) rq _ _ Hr' HT HGp Hcs Hecs)
      as (ts' & F & R & L & T' & O & (tn & rn & S1 & N1) & (esl & Es1 & Es2) & A & X).
    rewrite count_relations_lentry in X. destruct X as (C & Blo & Bhi & Ae). rewrite Lmp in *. cbn [app] in *.
    assert (ET : upd_path (ltree l) [] (fun _ => Node ROOT (map rt lp ++ Node ENTRY (lentry_children e') :: map rt lq))
                 = ltree (replace_at ci (RE e') l)).
    { cbn [upd_path]. rewrite El, <- Lp, replace_at_split. unfold ltree. rewrite map_app. reflexivity. }
    rewrite ET in T'.
    exists ts', F, tn, rn, (lrel_tree r0), esl, (lentry_children e').
    split; [exact R|]. split; [exact S1|]. split; [exact N1|]. split; [exact Es1|]. split; [exact Es2|].
    pose proof (remove_rel_count e j e' Hjn Erm) as Hcount.
    replace (n_rels e =? 1) with false by (symmetry; apply Nat.eqb_neq; unfold n_rels in *; lia).
    exists tid, ri, (replace_at ci (RE e') l). cbn [trees regs h_f h_reg].
    split; [exact T'|]. split; [exact Hw'|]. split; [exact Hc'|]. split; [unfold remap; rewrite H0; reflexivity|].
    assert (HF : forall g, h_tid g < length ts -> h_tid g <> tid -> F g = g) by (intros g _ Hn0; apply A; now apply above_other).
    assert (O' : forall j0 sl, nth_error ts j0 = Some sl -> j0 <> tid -> nth_error ts' j0 = Some sl).
    { intros j0 sl Hj0 Hn0. rewrite O; [exact Hj0|exact Hn0|eapply nth_error_Some_lt; exact Hj0]. }
    pose proof (relation_remove_cs_range _ _ _ Hcs) as Ecs'.
    set (lo := fst (relation_remove_range (rp ++ lrel_tree r0 :: rq) (length rp))) in *.
    set (hi := snd (relation_remove_range (rp ++ lrel_tree r0 :: rq) (length rp))) in *.
    rewrite <- Ech in Ecs'.
    assert (Hcnt : count_if is_relation (firstn lo (lentry_children e) ++ skipn hi (lentry_children e)) + 1
                   = count_if is_relation (lentry_children e)).
    { rewrite <- Ecs', !count_relations. lia. }
    destruct C as [Ca Cb].
    split.
    + eapply refs_transport; [apply keeps_del_rel|exact O'|exact HF|apply A, above_root| | |exact Hok].
      * intros i0 c0 e0 H1. cbn [del_rel_ref ref_ok]. exists c0, (if i0 =? i then e' else e0).
        split; [now apply (nth_entry_replace l i ci e)|]. f_equal. apply Ae.
        destruct (Nat.eq_dec c0 ci) as [->|Hne]; [apply above_self|]. apply (above_sibling tid [] ci c0 [] []). congruence.
      * intros i0 j0 c0 e0 cj0 H1 Hj0. cbn [del_rel_ref]. destruct (Nat.eq_dec c0 ci) as [->|Hne].
        -- destruct (nth_entry_inj _ _ _ _ _ _ He H1) as [-> ->]. rewrite Nat.eqb_refl.
           destruct (j0 =? j) eqn:Ej; [exact I|]. apply Nat.eqb_neq in Ej.
           destruct (cut_nth_index is_relation (lentry_children e) j (length rp) lo hi j0 cj0 Hn Blo Bhi Hcnt Hj0 Ej) as (Hside & Hpos).
           rewrite <- Ecs' in Hpos. cbn [ref_ok]. eexists ci, e', _. split; [|split; [exact Hpos|]].
           ++ rewrite (nth_entry_replace l i ci e e' i ci e He He). now rewrite Nat.eqb_refl.
           ++ change [ci; cj0] with ([ci] ++ cj0 :: []). destruct Hside as [Hs|Hs].
              ** rewrite Ca by exact Hs. replace (hi <=? cj0) with false by (symmetry; apply Nat.leb_gt; lia). reflexivity.
              ** rewrite Cb by exact Hs. replace (hi <=? cj0) with true by (symmetry; apply Nat.leb_le; lia). reflexivity.
        -- assert (Ei : i0 =? i = false).
           { apply Nat.eqb_neq. intros ->. rewrite He in H1. congruence. }
           rewrite Ei. cbn [ref_ok]. exists c0, e0, cj0. split; [|split; [exact Hj0|]].
           ++ rewrite (nth_entry_replace l i ci e e' i0 c0 e0 He H1). now rewrite Ei.
           ++ f_equal. apply Ae. apply (above_sibling tid [] ci c0 [] [cj0]). congruence.
    + eapply uniq_transport; [apply keeps_del_rel|exact HF|exact Hok|exact U].
  - (* the only alternative: the entry goes as well *)
    assert (Hecs : (if count_if is_relation [] =? 0
                    then entry_remove_cs fixed (map rt lp ++ Node ENTRY [] :: map rt lq) (length (map rt lp))
                    else Ok (map rt lp ++ Node ENTRY [] :: map rt lq)) = Ok (map rt l')).
    { cbn [count_if filter length Nat.eqb].
      rewrite (entry_remove_cs_hole fixed (map rt lp) (Node ENTRY []) (rt (RE e)) (map rt lq)).
      change (map rt lp ++ rt (RE e) :: map rt lq) with (map rt lp ++ map rt (RE e :: lq)). rewrite <- map_app, <- El.
      rewrite map_length, Lp, remove_at_commute, Hal. reflexivity. }
    destruct (relation_remove_spec_x ts (rs ++ extra) r tid ri (ltree l) [] ROOT (map rt lp) (map rt lq) rp (lrel_tree r0) rq _ _ Hr' HT HGp Hcs Hecs)
      as (ts' & F & R & L & T' & O & (tn & rn & S1 & N1) & (esl & Es1 & Es2) & A & X).
    cbn [count_if filter length Nat.eqb] in X. destruct X as (C & Blo & Bhi). rewrite Lmp in *. cbn [app] in *.
    rewrite <- Lmp in C, Blo, Bhi.
    rewrite (entry_remove_range_hole fixed (map rt lp) (Node ENTRY []) (rt (RE e)) (map rt lq)) in C, Blo, Bhi.
    change (map rt lp ++ rt (RE e) :: map rt lq) with (map rt lp ++ map rt (RE e :: lq)) in C, Blo, Bhi.
    rewrite <- map_app, <- El, Lmp in C, Blo, Bhi.
    exists ts', F, tn, rn, (lrel_tree r0), esl, [].
    split; [exact R|]. split; [exact S1|]. split; [exact N1|]. split; [exact Es1|]. split; [exact Es2|].
    rewrite (remove_rel_none e j Hjn Erm). cbn [Nat.eqb].
    eapply (rel_after_entry_cut b sv ts ts' rs F a tid ri l i ci e l'); eauto.
    intros j0 sl Hj0 Hn0. rewrite O; [exact Hj0|exact Hn0|eapply nth_error_Some_lt; exact Hj0].
Qed.

Lemma step_rremove b sv st a m a' tr : Rel b sv st a -> h_op (ORRemove m) a = Some (a', tr) ->
  exists out st', run_op fixed (ORRemove m) st = Ok (out, st') /\ Rel b sv st' a'.
Proof.
  destruct st as [ts rs]. intros HR Ha. pose proof HR as (tid & ri & l & HT & Hw & Hc & H0 & Hok & U). cbn [trees regs] in *.
  cbn [h_op] in Ha. pose proof (Hok (rreg m)) as Hm. destruct (h_reg a (rreg m)) as [x|] eqn:Ex.
  - destruct x; try discriminate.
    destruct (reg_at rs (rreg m)) as [gm|] eqn:Egm; [|contradiction]. cbn [ref_ok] in Hm. destruct Hm as (ci & e & cj & He & Hj & ->).
    pose proof (rel_slot_inv _ _ _ Hj) as Hjn. destruct (nth_entry_content _ _ _ _ _ _ Hc He) as (Hi & Hna).
    rewrite Hna in Ha. replace (j <? n_rels e) with true in Ha by (symmetry; now apply Nat.ltb_lt). injection Ha as <- <-.
    destruct (remove_relation_layout b l _ sv i j ci e Hw Hc He Hjn) as (l' & Hal & Hw' & Hc').
    assert (Hr : nth_error (rs ++ []) (rreg m) = Some (Some (mk_hnd tid [ci; cj]))) by (rewrite app_nil_r; now apply reg_at_nth).
    destruct (relation_remove_core b sv ts rs [] a tid ri l i j ci e cj (rreg m) l' HT Hw Hc H0 Hok U He Hj Hr Hal Hw' Hc')
      as (ts' & F & tn & rn & x & esl & ecs & R & S1 & N1 & _ & _ & HR'). rewrite app_nil_r in R. rewrite Hna in HR'.
    exists (0%N, Some (text x)), (mk_state ts' (map (option_map F) rs)). split; [|exact HR'].
    apply runs_intro. cbn [run_op]. eapply through_gen; [exact Egm|exact R|].
    eapply reg_text_runs; [rewrite reg_at_map, Egm; cbn [option_map]; rewrite S1; reflexivity|exact N1|reflexivity].
  - injection Ha as <- <-. apply ref_none in Hm. exists (1%N, @None str), (mk_state ts rs). split; [|exact HR].
    apply runs_intro. cbn [run_op]. now apply through_none.
Qed.

Lemma step_eremove_rel b sv st a k j a' tr : Rel b sv st a -> h_op (OERemoveRel k j) a = Some (a', tr) ->
  exists out st', run_op fixed (OERemoveRel k j) st = Ok (out, st') /\ Rel b sv st' a'.
Proof.
  destruct st as [ts rs]. intros HR Ha. pose proof HR as (tid & ri & l & HT & Hw & Hc & H0 & Hok & U). cbn [trees regs] in *.
  cbn [h_op] in Ha. pose proof (Hok (ereg k)) as Hk. destruct (h_reg a (ereg k)) as [x|] eqn:Ex.
  - destruct x; try discriminate.
    destruct (reg_at rs (ereg k)) as [gk|] eqn:Egk; [|contradiction]. cbn [ref_ok] in Hk. destruct Hk as (ci & e & He & ->).
    destruct (nth_entry_content _ _ _ _ _ _ Hc He) as (Hi & Hna).
    destruct (j <? n_alts (h_f a) i) eqn:Ej; [|discriminate]. injection Ha as <- <-.
    apply Nat.ltb_lt in Ej. rewrite Hna in Ej. destruct (rel_slot_lt e j Ej) as (cj & Hj).
    destruct (remove_relation_layout b l _ sv i j ci e Hw Hc He Ej) as (l' & Hal & Hw' & Hc').
    destruct (relation_remove_core b sv ts rs [Some (mk_hnd tid [ci; cj])] a tid ri l i j ci e cj (length rs) l' HT Hw Hc H0 Hok U He Hj
                (nth_error_app_at _ _) Hal Hw' Hc')
      as (ts' & F & tn & rn & x & esl & ecs & R & S1 & N1 & Es1 & Es2 & HR').
    exists (0%N, Some (text (Node ENTRY ecs))), (mk_state ts' (map (option_map F) rs)). split; [|exact HR'].
    apply runs_intro. cbn [run_op]. eapply through_gen; [exact Egk| |].
    + rbind; [|rdone]. unfold entry_remove_relation. eapply runs_eq; [apply runs_scoped|reflexivity|].
      * rbind; [eapply nth_child_runs; [exact Egk|exact HT|apply (get_path_entry _ _ _ _ He)]|].
        cbn [lentry_tree children]. rewrite Hj. cbn [option_map app].
        rbind; [apply runs_push_tmp|]. rbind; [exact R|].
        unfold node_of_reg. rbind.
        { rbind; [apply runs_get_reg; rewrite nth_error_map, nth_error_app_at; cbn [option_map]; rewrite S1; reflexivity|].
          eapply runs_node_of; [exact N1|reflexivity]. }
        rdone.
      * cbn [regs]. now rewrite firstn_map_app_len.
    + destruct (F (mk_hnd tid [ci])) as [et ep] eqn:EF. cbn [h_tid h_path] in Es1, Es2.
      eapply reg_text_runs; [rewrite reg_at_map, Egk; cbn [option_map]; rewrite EF; reflexivity|exact Es1|exact Es2].
  - injection Ha as <- <-. apply ref_none in Hk. exists (1%N, @None str), (mk_state ts rs). split; [|exact HR].
    apply runs_intro. cbn [run_op]. now apply through_none.
Qed.

(* ------------------------------------------------------------------ Relations::replace *)
(* a mutation that consumes the operand in register qc (its tree tc becomes part of the main tree) *)
Lemma refs_transport_x ts ts' rs F tid tc l l' phi h qc :
  keeps phi ->
  (forall j sl, nth_error ts j = Some sl -> j <> tid -> j <> tc -> nth_error ts' j = Some sl) ->
  (forall g, h_tid g < length ts -> h_tid g <> tid -> h_tid g <> tc -> F g = g) ->
  F (mk_hnd tid []) = mk_hnd tid [] ->
  (forall i ci e, nth_entry l i = Some (ci, e) ->
     ref_ok ts' tid l' (Some (F (mk_hnd tid [ci]))) (Some (phi (ELive i)))) ->
  (forall i j ci e cj, nth_entry l i = Some (ci, e) -> nth_index is_relation j (lentry_children e) = Some cj ->
     ref_ok ts' tid l' (Some (F (mk_hnd tid [ci; cj]))) (Some (phi (RLive i j)))) ->
  (forall q x g, q <> qc -> h q = Some x -> is_new x = true -> reg_at rs q = Some g -> h_tid g <> tc) ->
  (forall q, ref_ok ts tid l (reg_at rs q) (h q)) ->
  forall q, q <> qc -> ref_ok ts' tid l' (reg_at (map (option_map F) rs) q) (remap phi h q).
Proof.
  intros K Hts HF H0 HE HR Hn Hok q Hq. rewrite reg_at_map. unfold remap. specialize (Hok q). specialize (Hn q).
  destruct (h q) as [x|], (reg_at rs q) as [g|]; cbn [option_map]; try exact Hok; try (destruct x; cbn in Hok; contradiction).
  pose proof (K x) as Kx. specialize (Hn x g Hq eq_refl). destruct x; cbn [ref_ok] in Hok.
  - rewrite Kx. subst g. cbn [ref_ok]. exact H0.
  - destruct Hok as (ci & e & He & ->). eapply HE; exact He.
  - destruct Hok as (ci & e & cj & He & Hj & ->). eapply HR; eauto.
  - rewrite Kx. destruct Hok as (te & -> & Hne & Ht & He). cbn [ref_ok]. specialize (Hn eq_refl eq_refl). cbn [h_tid] in Hn.
    rewrite HF; [exists te; auto|cbn [h_tid]; eapply nth_error_Some_lt; exact Ht|exact Hne|exact Hn].
  - rewrite Kx. destruct Hok as (te & -> & Hne & Ht & He). cbn [ref_ok]. specialize (Hn eq_refl eq_refl). cbn [h_tid] in Hn.
    rewrite HF; [exists te; auto|cbn [h_tid]; eapply nth_error_Some_lt; exact Ht|exact Hne|exact Hn].
  - rewrite Kx. exact I.
Qed.
Lemma uniq_consume ts rs F tid tc l phi h qc :
  keeps phi ->
  (forall g, h_tid g < length ts -> h_tid g <> tid -> h_tid g <> tc -> F g = g) ->
  (forall q x g, q <> qc -> h q = Some x -> is_new x = true -> reg_at rs q = Some g -> h_tid g <> tc) ->
  (forall q, ref_ok ts tid l (reg_at rs q) (h q)) ->
  new_uniq rs h -> new_uniq (set_reg_l qc None (map (option_map F) rs)) (upd qc None (remap phi h)).
Proof.
  intros K HF Hn Hok U q q' y y' g g' Hq Hy Hy' Ny Ny'. rewrite !reg_at_set, !reg_at_map. unfold upd, remap in Hy, Hy'.
  destruct (q =? qc) eqn:E1; [discriminate|]. destruct (q' =? qc) eqn:E2; [discriminate|].
  apply Nat.eqb_neq in E1, E2.
  assert (Hnew : forall q0 y0, q0 <> qc -> option_map phi (h q0) = Some y0 -> is_new y0 = true ->
            h q0 = Some y0 /\ forall g0, option_map F (reg_at rs q0) = Some g0 -> reg_at rs q0 = Some g0).
  { intros q0 y0 Hq0 H0 N0. destruct (h q0) as [x0|] eqn:E0; [|discriminate]. cbn in H0. injection H0 as <-.
    pose proof (K x0) as K0. pose proof (Hok q0) as Hok0. rewrite E0 in Hok0. pose proof (Hn q0 x0) as Hn0.
    destruct x0; try (rewrite K0 in N0; discriminate); try congruence.
    all: rewrite K0; split; [reflexivity|]; intros g0 G0; destruct (reg_at rs q0) as [g1|] eqn:Eg1; [|discriminate];
      cbn in Hok0; destruct Hok0 as (te & -> & Hne & Ht & _); cbn in G0;
      specialize (Hn0 _ Hq0 E0 eq_refl eq_refl); cbn [h_tid] in Hn0;
      rewrite HF in G0; [exact G0|cbn [h_tid]; eapply nth_error_Some_lt; exact Ht|exact Hne|exact Hn0]. }
  destruct (Hnew _ _ E1 Hy Ny) as (H1 & G1). destruct (Hnew _ _ E2 Hy' Ny') as (H2 & G2).
  intros Hg Hg'. apply (U q q' y y' g g'); auto.
Qed.
Lemma keeps_gone_entry p : keeps (gone_entry_ref p).
Proof. intros []; cbn; try reflexivity; destruct (_ =? p); reflexivity. Qed.

Lemma step_replace b sv st a i k a' tr : Rel b sv st a -> h_op (OReplace i k) a = Some (a', tr) ->
  forallb operands_ok tr = true ->
  exists out st', run_op fixed (OReplace i k) st = Ok (out, st') /\ Rel b sv st' a'.
Proof.
  destruct st as [ts rs]. intros HR Ha Ho. pose proof HR as (tid & ri & l & HT & Hw & Hc & H0 & Hok & U). cbn [trees regs] in *.
  cbn [h_op] in Ha. pose proof (Hok (ereg k)) as Hk. destruct (h_reg a (ereg k)) as [x|] eqn:Ex.
  2:{ injection Ha as <- <-. apply ref_none in Hk. exists (1%N, @None str), (mk_state ts rs). split; [|exact HR].
      apply runs_intro. cbn [run_op]. unfold with_reg. rbind; [apply reg_at_has|]. rewrite Hk. rdone. }
  destruct x; try discriminate. destruct (i <? length (h_f a)) eqn:Ei; [|discriminate]. injection Ha as <- <-.
  cbn [forallb] in Ho. rewrite andb_true_r in Ho.
  destruct (reg_at rs (ereg k)) as [gk|] eqn:Egk; [|contradiction]. cbn [ref_ok] in Hk. destruct Hk as (tc & -> & Htc & HE & Hnew).
  pose proof (rel_root ts rs a tid l H0 Hok) as Hr0. pose proof (nth_error_Some_lt _ _ _ HT) as Hlt.
  assert (Hx' : x_in_range (fst (lcontent l)) (AReplace i e) = true) by (rewrite Hc; exact Ei).
  destruct (live_step_tree b (AReplace i e) l Hw Ho Hx') as (l' & Hal & _ & Hw' & Hc' & _).
  cbn [a_op] in Hal. destruct (operand_lentry e) as [le|] eqn:Ele; [|discriminate].
  assert (EG : centry_tree e = lentry_tree le).
  { destruct e as [|r0 rs0]; [discriminate|]. cbn [operand_lentry] in Ele. injection Ele as <-. now apply centry_is_lentry. }
  unfold a_replace in Hal. destruct (nth_index is_re i l) as [ci|] eqn:Eni; [|discriminate]. injection Hal as <-.
  destruct (nth_index_re_split _ _ _ Eni) as (lp & e0 & lq & El & Lp & Li).
  assert (He0 : nth_entry l i = Some (ci, e0)) by (rewrite El, <- Lp, <- Li; apply nth_entry_at).
  assert (Lmp : length (map rt lp) = ci) by (now rewrite map_length).
  assert (HG : get_path (ltree l) [] = Some (Node ROOT (map rt lp ++ lentry_tree e0 :: map rt lq))).
  { cbn [get_path]. unfold ltree. rewrite El, map_app. reflexivity. }
  destruct (splice_replace_spec_x ts rs 0 (ereg k) tid ri (ltree l) [] ROOT (map rt lp) (lentry_tree e0) (map rt lq) tc 0 (centry_tree e)
              (reg_at_nth _ _ _ Hr0) (reg_at_nth _ _ _ Egk) HT HG HE (not_eq_sym Htc))
    as (ts' & F & R & L & T' & N & O & S1 & S2 & A & B).
  rewrite Lmp in *. cbn [app] in *.
  assert (ET : upd_path (ltree l) [] (fun _ => Node ROOT (map rt lp ++ centry_tree e :: map rt lq)) = ltree (replace_at ci (RE le) l)).
  { cbn [upd_path]. rewrite El, <- Lp, replace_at_split, EG. unfold ltree. rewrite map_app. reflexivity. }
  rewrite ET in T'.
  exists (0%N, @None str), (mk_state ts' (set_reg_l (ereg k) None (map (option_map F) rs))). split.
  - apply runs_intro. cbn [run_op]. unfold with_reg. rbind; [apply reg_at_has|]. rewrite Egk. rbind; [|rdone].
    unfold relations_replace. rbind; [apply runs_get_reg; apply reg_at_nth; exact Hr0|].
    rbind; [eapply runs_children_of; [exact HT|reflexivity]|]. cbn [s_tree ltree children].
    rewrite (nth_index_map rt is_entry is_re) by apply is_entry_rt. rewrite Eni.
    rbind; [exact R|]. apply runs_set_reg.
  - exists tid, ri, (replace_at ci (RE le) l). cbn [trees regs h_f h_reg].
    split; [exact T'|]. split; [exact Hw'|]. split; [rewrite Hc', Hc; reflexivity|].
    split; [rewrite upd_other by apply ereg_neq0; unfold remap; rewrite H0; reflexivity|].
    assert (Hnc : forall q x g, q <> ereg k -> h_reg a q = Some x -> is_new x = true -> reg_at rs q = Some g -> h_tid g <> tc).
    { intros q x g Hq Hx Nx Hg. apply (U q (ereg k) x (ENew e) g (mk_hnd tc []) Hq Hx Ex Nx eq_refl Hg Egk). }
    assert (HF : forall g, h_tid g < length ts -> h_tid g <> tid -> h_tid g <> tc -> F g = g).
    { intros g _ Hn1 Hn2. apply A; [exact Hn2|now apply above_other]. }
    split.
    + intros q. rewrite reg_at_set. unfold upd. destruct (q =? ereg k) eqn:Eq; [exact I|]. apply Nat.eqb_neq in Eq.
      eapply (refs_transport_x ts ts' rs F tid tc l); [apply keeps_gone_entry| |exact HF| | | |exact Hnc|exact Hok|exact Eq].
      * intros j sl Hj Hn1 Hn2. rewrite O; [exact Hj|exact Hn1|exact Hn2|eapply nth_error_Some_lt; exact Hj].
      * apply A; [cbn [h_tid]; congruence|apply above_root].
      * intros i0 c0 e1 H1. cbn [gone_entry_ref]. destruct (i0 =? i) eqn:Ei0; [exact I|]. apply Nat.eqb_neq in Ei0.
        assert (Hc0 : c0 <> ci) by (intros ->; destruct (nth_entry_inj _ _ _ _ _ _ He0 H1); congruence).
        cbn [ref_ok]. exists c0, e1. split.
        -- rewrite (nth_entry_replace l i ci e0 le i0 c0 e1 He0 H1). apply Nat.eqb_neq in Ei0. now rewrite Ei0.
        -- now rewrite B.
      * intros i0 j0 c0 e1 cj H1 Hj. cbn [gone_entry_ref]. destruct (i0 =? i) eqn:Ei0; [exact I|]. apply Nat.eqb_neq in Ei0.
        assert (Hc0 : c0 <> ci) by (intros ->; destruct (nth_entry_inj _ _ _ _ _ _ He0 H1); congruence).
        cbn [ref_ok]. exists c0, e1, cj. split; [|split; [exact Hj|]].
        -- rewrite (nth_entry_replace l i ci e0 le i0 c0 e1 He0 H1). apply Nat.eqb_neq in Ei0. now rewrite Ei0.
        -- now rewrite B.
    + eapply uniq_consume; [apply keeps_gone_entry|exact HF|exact Hnc|exact Hok|exact U].
Qed.

(* ------------------------------------------------------------------ Entry::replace *)
Lemma firstn_map_app {A B} (f : A -> B) (l x : list A) : firstn (length l) (map f (l ++ x)) = map f l.
Proof. rewrite map_app, <- (map_length f l). apply firstn_app_len. Qed.

(* the machine, for an arbitrary register file: entry handle in rk, the new relation (the root of
   its own tree, as Relation::new builds it) in rm *)
Lemma ereplace_machine ts rs rk rm tid ri T ci pre ocs post r j tr rr :
  nth_error rs rk = Some (Some (mk_hnd tid [ci])) -> nth_error rs rm = Some (Some (mk_hnd tr [])) ->
  nth_error ts tid = Some (mk_slot true ri T) ->
  get_path T [ci] = Some (Node ENTRY (pre ++ Node RELATION ocs :: post)) ->
  nth_error ts tr = Some (mk_slot true rr (crel_tree r)) -> tid <> tr ->
  nth_index is_relation j (pre ++ Node RELATION ocs :: post) = Some (length pre) -> ws_prefix_len ocs = 0 ->
  exists ts' F,
    runs (entry_replace fixed rk j rm) (mk_state ts rs) tt (mk_state ts' (set_reg_l rm None (map (option_map F) rs))) /\
    nth_error ts' tid = Some (mk_slot true ri
      (upd_path T [ci] (fun _ => Node ENTRY (pre ++ dressed (Node RELATION ocs) (crel_tree r) :: post)))) /\
    (forall j0, j0 <> tid -> j0 <> tr -> j0 < length ts -> nth_error ts' j0 = nth_error ts j0) /\
    (forall g, h_tid g < length ts -> h_tid g <> tr -> above tid [ci] g -> F g = g) /\
    (forall c rest, c <> length pre -> F (mk_hnd tid ([ci] ++ c :: rest)) = mk_hnd tid ([ci] ++ c :: rest)).
Proof.
  intros Hk Hm HT HGe HR Hne Hidx Hh.
  set (O := Node RELATION ocs) in *. set (E := Node ENTRY (pre ++ O :: post)) in *.
  set (oi := length pre) in *. set (n := length rs).
  set (kt := ws_prefix_len (rev ocs)). set (core := firstn (length ocs - kt) ocs). set (tl := ws_tail ocs).
  assert (Eocs : ocs = core ++ tl) by apply ws_tail_split.
  assert (Hkt : kt <= length ocs) by (unfold kt; rewrite <- (rev_length ocs); apply ws_prefix_len_le).
  assert (Lcore : length core = length ocs - kt) by (unfold core; rewrite firstn_length; lia).
  assert (Ltl : length tl = kt) by (unfold tl, ws_tail; fold kt; rewrite skipn_length; lia).
  assert (HGo : get_path T ([ci] ++ [oi]) = Some O).
  { eapply get_path_child; [exact HGe|]. unfold oi. apply nth_error_app_len. }
  destruct (crel_no_ws r) as [Wh Wt].
  assert (HRn : exists ncs, crel_tree r = Node RELATION ncs) by (eexists; reflexivity). destruct HRn as (ncs & Encs).
  rewrite Encs in HR, Wh, Wt. cbn [children] in Wh, Wt.
  pose proof (nth_error_Some_lt _ _ _ HT) as Hlt. pose proof (nth_error_Some_lt _ _ _ HR) as Hlr.
  pose proof (nth_error_Some_lt _ _ _ Hk) as Hlk. pose proof (nth_error_Some_lt _ _ _ Hm) as Hlm.
  set (rs6 := rs ++ [Some (mk_hnd tid ([ci] ++ [oi]))]).
  set (hs := ws_tail_handles (mk_hnd tid ([ci] ++ [oi])) ocs).
  set (rsA := rs6 ++ map Some hs).
  assert (L6 : length rs6 = S n) by (unfold rs6, n; rewrite app_length; cbn; lia).
  assert (Lhs : length hs = kt) by (unfold hs, ws_tail_handles; now rewrite map_length, seq_length).
  assert (Hcrs : forall m cr, nth_error (rev (seq (S n) kt)) m = Some cr ->
            nth_error rsA cr = Some (Some (mk_hnd tid (([ci] ++ [oi]) ++ [length core + m])))).
  { intros m cr Hmm. apply nth_error_rev_seq in Hmm as [Hmm ->]. unfold rsA.
    rewrite nth_error_app2 by lia. rewrite L6.
    replace (S n + (kt - 1 - m) - S n) with (kt - 1 - m) by lia. rewrite nth_error_map.
    unfold hs, ws_tail_handles. fold kt. rewrite nth_error_map_seq by lia. cbn [option_map]. unfold child_h. cbn [h_tid h_path].
    do 3 f_equal. cbn [app]. do 2 f_equal. f_equal. rewrite Lcore. lia. }
  assert (HGoc : get_path T ([ci] ++ [oi]) = Some (Node RELATION (core ++ tl))) by (rewrite HGo; unfold O; now rewrite <- Eocs).
  assert (HmA : nth_error rsA rm = Some (Some (mk_hnd tr []))) by (unfold rsA, rs6; now apply nth_error_app_l, nth_error_app_l).
  destruct (attach_all_move tl (rev (seq (S n) kt)) ts rsA rm tid ri T ([ci] ++ [oi]) RELATION core tr rr RELATION ncs
              HmA HT HGoc HR Hne ltac:(now rewrite rev_length, seq_length) Hcrs)
    as (ts1 & F1 & R1 & L1 & T1 & N1 & Fr1 & A1 & O1).
  set (O1' := Node RELATION core) in *.
  assert (ET1 : upd_path T ([ci] ++ [oi]) (fun _ => O1') = upd_path T [ci] (fun _ => Node ENTRY (pre ++ O1' :: post))).
  { rewrite (upd_path_app _ _ _ _ _ HGe). eapply upd_path_ext; [exact HGe|]. unfold E. cbn [upd_path]. unfold oi. now rewrite upd_nth_app_r. }
  rewrite ET1 in T1. set (T1' := upd_path T [ci] (fun _ => Node ENTRY (pre ++ O1' :: post))) in *.
  assert (HGe1 : get_path T1' [ci] = Some (Node ENTRY (pre ++ O1' :: post)))
    by (exact (get_path_upd_path _ _ (fun _ => Node ENTRY (pre ++ O1' :: post)) _ HGe)).
  set (C := Node RELATION (ncs ++ tl)) in *.
  assert (F1r1 : F1 (mk_hnd tid [ci]) = mk_hnd tid [ci]) by (apply A1; [exact Hlt|cbn; congruence|apply above_prefix]).
  assert (F1r5 : F1 (mk_hnd tid ([ci] ++ [oi])) = mk_hnd tid ([ci] ++ [oi])) by (apply A1; [exact Hlt|cbn; congruence|apply above_self]).
  set (rsB := map (option_map F1) rsA) in *.
  assert (HB1 : nth_error rsB rk = Some (Some (mk_hnd tid [ci]))).
  { unfold rsB. rewrite (nth_error_map_reg F1 _ _ (mk_hnd tid [ci])); [now rewrite F1r1|]. unfold rsA, rs6. now apply nth_error_app_l, nth_error_app_l. }
  assert (HB4 : nth_error rsB rm = Some (Some (mk_hnd tr []))).
  { unfold rsB. rewrite (nth_error_map_reg F1 _ _ _ HmA). now rewrite Fr1. }
  assert (HA5 : nth_error rsA n = Some (Some (mk_hnd tid ([ci] ++ [oi])))) by (unfold rsA, rs6; apply nth_error_app_l, nth_error_app_at).
  assert (HB5 : nth_error rsB n = Some (Some (mk_hnd tid ([ci] ++ [oi])))).
  { unfold rsB. rewrite (nth_error_map_reg F1 _ _ _ HA5). now rewrite F1r5. }
  destruct (splice_replace_spec_x ts1 rsB rk rm tid ri T1' [ci] ENTRY pre O1' post tr rr C HB1 HB4 T1 HGe1 N1 Hne)
    as (ts2 & F2 & R2 & L2 & T2 & N2 & O2 & S1 & S2 & A2 & B2).
  assert (ET2 : upd_path T1' [ci] (fun _ => Node ENTRY (pre ++ C :: post)) = upd_path T [ci] (fun _ => Node ENTRY (pre ++ C :: post))).
  { unfold T1'. now rewrite (upd_path_const2 _ _ _ _ _ HGe). }
  rewrite ET2 in T2.
  assert (EC : C = dressed O (crel_tree r)).
  { unfold dressed, O, C. rewrite Encs. cbn [children set_children ekind]. unfold ws_head, strip_ws. rewrite Hh, Wh. cbn [firstn skipn app].
    rewrite Wt, Nat.sub_0_r, firstn_all. reflexivity. }
  exists ts2, (fun g => F2 (F1 g)). split; [|split; [|split; [|split]]].
  - unfold entry_replace. cbn [fx_replace_ws fixed]. unfold entry_replace_fixed.
    rbind; [|apply runs_set_reg].
    eapply runs_eq; [apply runs_scoped|reflexivity|].
    + rbind; [apply runs_get_reg; exact Hk|].
      rbind; [eapply runs_children_of; [exact HT|exact HGe]|].
      cbn [children E]. rewrite Hidx. unfold child_h. cbn [h_tid h_path]. fold oi.
      rbind; [apply runs_push_tmp|]. fold rs6. fold n.
      rbind; [rbind; [apply runs_get_reg; unfold rs6; apply nth_error_app_l; exact Hm|]; eapply runs_children_of; [exact HR|reflexivity]|].
      cbn [s_tree children]. rewrite Wh. cbn [m_repeat skipn]. rbind; [rdone|]. rewrite Wt. cbn [m_repeat]. rbind; [rdone|].
      rbind; [apply runs_get_reg; unfold rs6; apply nth_error_app_at|].
      rbind; [eapply runs_children_of; [exact HT|exact HGo]|]. cbn [children O].
      unfold ws_head_handles. rewrite Hh. cbn [seq map push_tmps]. rbind; [rdone|].
      fold hs. rbind; [apply runs_push_tmps|]. fold rsA. rewrite L6, Lhs.
      rbind; [eapply splice_nil_runs; [exact HmA|exact HR|reflexivity|reflexivity]|].
      rbind; [rbind; [apply runs_get_reg; exact HmA|]; eapply runs_children_of; [exact HR|reflexivity]|].
      cbn [s_tree children].
      rbind.
      { unfold m_splice. rbind; [apply runs_get_reg; exact HmA|]. cbn [h_tid].
        rbind; [eapply runs_get_slot; exact HR|]. cbn [s_mut negb].
        rbind; [eapply runs_children_of; [exact HR|reflexivity]|]. cbn [s_tree children].
        rewrite Nat.ltb_irrefl. cbn [andb]. rbind; [rdone|]. exact R1. }
      fold rsB.
      rbind; [rbind; [apply runs_get_reg; exact HB5|]; unfold index_of; rewrite parent_h_app; rdone|].
      exact R2.
    + cbn [regs]. unfold rsB, rsA, rs6. rewrite <- app_assoc. rewrite map_option_map_comp. f_equal. apply firstn_map_app.
  - rewrite T2, EC. reflexivity.
  - intros j0 Hj1 Hj2 Hj3. rewrite O2 by lia. now apply O1.
  - intros g Hg Ht Ha. rewrite A1 by (auto; now apply above_deeper). apply A2; [exact Ht|exact Ha].
  - intros c rest Hc. rewrite A1; [now apply B2|exact Hlt|cbn; congruence|]. apply (above_sibling tid [ci] oi c [] rest). congruence.
Qed.

Lemma keeps_gone_rel p q : keeps (gone_rel_ref p q).
Proof. intros []; cbn; try reflexivity. destruct (_ && _); reflexivity. Qed.
Lemma nth_index_inj {A} (p : A -> bool) l a b c : nth_index p a l = Some c -> nth_index p b l = Some c -> a = b.
Proof. intros Ha Hb. destruct (count_at p _ _ _ Ha) as (<- & _). destruct (count_at p _ _ _ Hb) as (<- & _). reflexivity. Qed.

Lemma step_ereplace b sv st a k j m a' tr : Rel b sv st a -> h_op (OEReplace k j m) a = Some (a', tr) ->
  forallb operands_ok tr = true ->
  exists out st', run_op fixed (OEReplace k j m) st = Ok (out, st') /\ Rel b sv st' a'.
Proof.
  destruct st as [ts rs]. intros HR Ha Ho. pose proof HR as (tid & ri & l & HT & Hw & Hc & H0 & Hok & U). cbn [trees regs] in *.
  cbn [h_op] in Ha. pose proof (Hok (rreg m)) as Hm. pose proof (Hok (ereg k)) as Hk.
  destruct (h_reg a (rreg m)) as [x|] eqn:Ex.
  2:{ injection Ha as <- <-. apply ref_none in Hm. exists (1%N, @None str), (mk_state ts rs). split; [|exact HR].
      apply runs_intro. cbn [run_op]. unfold with_reg. rbind; [apply reg_at_has|]. rewrite Hm. rdone. }
  destruct x; try discriminate. destruct (reg_at rs (rreg m)) as [gm|] eqn:Egm; [|contradiction].
  cbn [ref_ok] in Hm. destruct Hm as (tc & -> & Htc & HE & Hnew).
  destruct (h_reg a (ereg k)) as [y|] eqn:Ey.
  2:{ injection Ha as <- <-. apply ref_none in Hk.
      exists (1%N, @None str), (mk_state ts (set_reg_l (rreg m) None rs)). split.
      - apply runs_intro. cbn [run_op]. unfold with_reg. rbind; [apply reg_at_has|]. rewrite Egm.
        rbind; [apply reg_at_has|]. rewrite Hk. rbind; [apply runs_set_reg|]. rdone.
      - exists tid, ri, l. cbn [trees regs h_f h_reg]. split; [exact HT|]. split; [exact Hw|]. split; [exact Hc|].
        split; [rewrite upd_other by apply rreg_neq0; exact H0|]. split.
        + apply refs_set; [exact Hok|exact I].
        + apply uniq_set_plain; [exact U|exact I]. }
  destruct y; try discriminate.
  destruct (reg_at rs (ereg k)) as [gk|] eqn:Egk; [|contradiction]. cbn [ref_ok] in Hk. destruct Hk as (ci & e & He & ->).
  destruct (nth_entry_content _ _ _ _ _ _ Hc He) as (Hi & Hna).
  destruct (j <? n_alts (h_f a) i) eqn:Ej; [|discriminate]. injection Ha as <- <-.
  cbn [forallb] in Ho. rewrite andb_true_r in Ho.
  apply Nat.ltb_lt in Ej. pose proof Ej as Ej'. rewrite Hna in Ej'.
  assert (Hjb : j <? n_rels e = true) by now apply Nat.ltb_lt.
  pose proof (nth_error_Some_lt _ _ _ HT) as Hlt.
  assert (Hx' : x_in_range (fst (lcontent l)) (AEReplace i j r) = true) by (rewrite Hc; cbn [fst x_in_range]; now apply x_in_range_rel).
  destruct (live_step_tree b (AEReplace i j r) l Hw Ho Hx') as (l' & Hal & _ & Hw' & Hc' & _).
  cbn [a_op] in Hal. rewrite He, Hjb in Hal. injection Hal as <-.
  destruct (nth_rel_some e j Hjb) as (r0 & Hr0).
  destruct (entry_rel_split e j r0 Hr0) as (rp & rq & Ech & Hn & Hupd).
  assert (HGe : get_path (ltree l) [ci] = Some (Node ENTRY (rp ++ Node RELATION (lrel_children r0) :: rq))).
  { rewrite (get_path_entry _ _ _ _ He). unfold lentry_tree. now rewrite Ech. }
  assert (Hidx : nth_index is_relation j (rp ++ Node RELATION (lrel_children r0) :: rq) = Some (length rp)) by (rewrite <- Hn, Ech; reflexivity).
  destruct (ereplace_machine ts rs (ereg k) (rreg m) tid ri (ltree l) ci rp (lrel_children r0) rq r j tc 0
              (reg_at_nth _ _ _ Egk) (reg_at_nth _ _ _ Egm) HT HGe HE (not_eq_sym Htc) Hidx eq_refl)
    as (ts' & F & R & T' & O & A & B).
  set (e' := a_ereplace e j (lrel_new r)) in *.
  assert (ET : upd_path (ltree l) [ci] (fun _ => Node ENTRY (rp ++ dressed (Node RELATION (lrel_children r0)) (crel_tree r) :: rq))
               = ltree (replace_at ci (RE e') l)).
  { apply (upd_entry_at l i ci e); [exact He|]. unfold lentry_tree, e', a_ereplace. rewrite Hupd.
    rewrite (crel_is_lrel _ Hnew). change (Node RELATION (lrel_children r0)) with (lrel_tree r0). now rewrite dressed_commute. }
  rewrite ET in T'.
  assert (Fk : F (mk_hnd tid [ci]) = mk_hnd tid [ci]) by (apply A; [exact Hlt|cbn; congruence|apply above_self]).
  assert (Hne : ereg k <> rreg m) by apply ereg_rreg.
  eexists (0%N, _), (mk_state ts' (set_reg_l (rreg m) None (map (option_map F) rs))). split.
  - apply runs_intro. cbn [run_op]. unfold with_reg. rbind; [apply reg_at_has|]. rewrite Egm.
    rbind; [apply reg_at_has|]. rewrite Egk. rbind; [exact R|].
    rbind; [|rdone]. eapply reg_text_runs; [|exact T'|].
    + rewrite reg_at_set. apply Nat.eqb_neq in Hne. rewrite Hne. rewrite reg_at_map, Egk. cbn [option_map]. now rewrite Fk.
    + cbn [s_tree]. rewrite <- ET. eapply get_path_upd_path. exact HGe.
  - exists tid, ri, (replace_at ci (RE e') l). cbn [trees regs h_f h_reg].
    split; [exact T'|]. split; [exact Hw'|]. split; [rewrite Hc', Hc; reflexivity|].
    split; [rewrite upd_other by apply rreg_neq0; unfold remap; rewrite H0; reflexivity|].
    assert (Hnc : forall q x g, q <> rreg m -> h_reg a q = Some x -> is_new x = true -> reg_at rs q = Some g -> h_tid g <> tc).
    { intros q x g Hq Hx Nx Hg. apply (U q (rreg m) x (RNew r) g (mk_hnd tc []) Hq Hx Ex Nx eq_refl Hg Egm). }
    assert (HF : forall g, h_tid g < length ts -> h_tid g <> tid -> h_tid g <> tc -> F g = g).
    { intros g Hg Hn1 Hn2. apply A; [exact Hg|exact Hn2|now apply above_other]. }
    split.
    + intros q. rewrite reg_at_set. unfold upd. destruct (q =? rreg m) eqn:Eq; [exact I|]. apply Nat.eqb_neq in Eq.
      eapply (refs_transport_x ts ts' rs F tid tc l); [apply keeps_gone_rel| |exact HF| | | |exact Hnc|exact Hok|exact Eq].
      * intros j0 sl Hj0 Hn1 Hn2. rewrite O; [exact Hj0|exact Hn1|exact Hn2|eapply nth_error_Some_lt; exact Hj0].
      * apply A; [exact Hlt|cbn; congruence|apply above_root].
      * intros i0 c0 e0 H1. cbn [gone_rel_ref ref_ok]. exists c0, (if i0 =? i then e' else e0).
        split; [now apply (nth_entry_replace l i ci e)|]. f_equal. apply A; [exact Hlt|cbn; congruence|].
        destruct (Nat.eq_dec c0 ci) as [->|Hn0]; [apply above_self|]. apply (above_sibling tid [] ci c0 [] []). congruence.
      * intros i0 j0 c0 e0 cj0 H1 Hj0. cbn [gone_rel_ref]. destruct (Nat.eq_dec c0 ci) as [->|Hn0].
        -- destruct (nth_entry_inj _ _ _ _ _ _ He H1) as [-> ->]. rewrite Nat.eqb_refl. cbn [andb].
           destruct (j0 =? j) eqn:Ej0; [exact I|]. apply Nat.eqb_neq in Ej0.
           assert (Hcj : cj0 <> length rp) by (intros ->; apply Ej0; eapply nth_index_inj; [exact Hj0|exact Hn]).
           cbn [ref_ok]. exists ci, e', cj0. split; [|split].
           ++ rewrite (nth_entry_replace l i ci e e' i ci e He He). now rewrite Nat.eqb_refl.
           ++ unfold e', a_ereplace. rewrite Hupd. rewrite Ech in Hj0. rewrite <- Hj0. symmetry. apply nth_index_replace_same. reflexivity.
           ++ change [ci; cj0] with ([ci] ++ cj0 :: []). now rewrite B.
        -- assert (Ei : i0 =? i = false).
           { apply Nat.eqb_neq. intros ->. rewrite He in H1. congruence. }
           rewrite Ei. cbn [andb ref_ok]. exists c0, e0, cj0. split; [|split; [exact Hj0|]].
           ++ rewrite (nth_entry_replace l i ci e e' i0 c0 e0 He H1). now rewrite Ei.
           ++ f_equal. apply A; [exact Hlt|cbn; congruence|]. apply (above_sibling tid [] ci c0 [] [cj0]). congruence.
    + eapply uniq_consume; [apply keeps_gone_rel|exact HF|exact Hnc|exact Hok|exact U].
Qed.

(* ------------------------------------------------------------------ one operation: all of them *)
Theorem handles_step b sv st a o a' tr :
  Rel b sv st a -> h_op o a = Some (a', tr) -> forallb operands_ok tr = true ->
  exists out st', run_op fixed o st = Ok (out, st') /\ Rel b sv st' a'.
Proof.
  intros HR Ha Ho. destruct o.
  - destruct (step_get_entry _ _ _ _ _ _ _ _ HR Ha) as (out & st' & H1 & H2 & _). eauto.
  - destruct (step_get_rel _ _ _ _ _ _ _ _ _ HR Ha) as (out & st' & H1 & H2 & _). eauto.
  - destruct (step_new_entry _ _ _ _ _ _ _ _ HR Ha) as (out & st' & H1 & H2 & _). eauto.
  - destruct (step_new_rel _ _ _ _ _ _ _ _ HR Ha) as (out & st' & H1 & H2 & _). eauto.
  - eapply step_push; eauto.
  - eapply step_insert; eauto.
  - eapply step_replace; eauto.
  - eapply step_remove_entry; eauto.
  - eapply step_epush; eauto.
  - eapply step_ereplace; eauto.
  - eapply step_eremove_rel; eauto.
  - eapply step_eremove; eauto.
  - eapply step_rremove; eauto.
  - eapply step_set_version; eauto.
  - eapply step_drop_constraint; eauto.
  - eapply step_set_archqual; eauto.
  - eapply step_set_archs; eauto.
  - eapply step_add_profile; eauto.
Qed.

(* ------------------------------------------------------------------ programs *)
Lemma h_ops_content ops : forall a a' tr, h_ops ops a = Some (a', tr) -> h_f a' = fold_left xstep tr (h_f a).
Proof.
  induction ops as [|o rest IH]; intros a a' tr H; cbn [h_ops] in H.
  - injection H as <- <-. reflexivity.
  - destruct (h_op o a) as [[a1 t1]|] eqn:E1; [|discriminate].
    destruct (h_ops rest a1) as [[a2 t2]|] eqn:E2; [|discriminate]. injection H as <- <-.
    rewrite fold_left_app, (IH _ _ _ E2). f_equal.
    clear -E1. destruct o; cbn [h_op] in E1;
      repeat match type of E1 with
             | match ?x with _ => _ end = _ => destruct x; try discriminate
             | (if ?x then _ else _) = _ => destruct x; try discriminate
             end; injection E1 as <- <-; reflexivity.
Qed.

Theorem handles_history b sv ops : forall st a a' tr,
  Rel b sv st a -> h_ops ops a = Some (a', tr) -> forallb operands_ok tr = true ->
  exists st', run_ops fixed ops st = Ok st' /\ Rel b sv st' a'.
Proof.
  induction ops as [|o rest IH]; intros st a a' tr HR H Ho; cbn [h_ops] in H.
  - injection H as <- <-. exists st. auto.
  - destruct (h_op o a) as [[a1 t1]|] eqn:E1; [|discriminate].
    destruct (h_ops rest a1) as [[a2 t2]|] eqn:E2; [|discriminate]. injection H as <- <-.
    rewrite forallb_app in Ho. apply andb_prop in Ho as [Ho1 Ho2].
    destruct (handles_step b sv st a o a1 t1 HR E1 Ho1) as (out & st1 & R1 & HR1).
    destruct (IH st1 a1 a2 t2 HR1 E2 Ho2) as (st' & R' & HR').
    exists st'. split; [|exact HR']. cbn [run_ops]. now rewrite R1.
Qed.

(* what the relation says about the root: the tree of a well-formed layout with the content of
   the abstract state, which reads back (C10) to that content *)
Theorem Rel_reread b sv st a : Rel b sv st a ->
  exists l, root_tree st = Ok (ltree l) /\ root_text st = Ok (text (ltree l)) /\
            lwf b l = true /\ lcontent l = (h_f a, sv) /\
            exists acc, parse_relaxed (text (ltree l)) b = Ok (rtree_of (norm l), 0) /\
                        text (rtree_of (norm l)) = text (ltree l) /\
                        racc (rtree_of (norm l)) = Ok acc /\ racc_view acc = (h_f a, sv).
Proof.
  destruct st as [ts rs]. intros (tid & ri & l & HT & Hw & Hc & H0 & Hok & U). cbn [trees regs] in *.
  pose proof (rel_root ts rs a tid l H0 Hok) as Hr0. exists l.
  assert (Hn : node_of_reg 0 (mk_state ts rs) = Ok (ltree l, mk_state ts rs)).
  { apply runs_intro. unfold node_of_reg. rbind; [apply runs_get_reg; apply reg_at_nth; exact Hr0|].
    eapply runs_node_of; [exact HT|reflexivity]. }
  split; [unfold root_tree; now rewrite Hn|]. split; [unfold root_text; now rewrite Hn|].
  split; [exact Hw|]. split; [exact Hc|].
  destruct (live_reread b l Hw) as (acc & P & T & A & V). exists acc. rewrite <- Hc. auto.
Qed.

(* ------------------------------------------------------------------ the start *)
(* whatever the other registers hold at the start is "a node outside the field" *)
Definition h_of (st : state) : nat -> option ref :=
  fun q => if q =? 0 then Some Root else option_map (fun _ => Gone) (reg_at (regs st) q).
Lemma Rel_of_holds b st l : holds st (ltree l) -> lwf b l = true ->
  Rel b (snd (lcontent l)) st (mk_hstate (fst (lcontent l)) (h_of st)).
Proof.
  intros (ts & tid & ri & x1 & x2 & x3 & x4 & -> & HT) Hw. exists tid, ri, l. cbn [trees regs h_f h_reg st5].
  split; [exact HT|]. split; [exact Hw|]. split; [now destruct (lcontent l)|]. split; [reflexivity|]. split.
  - intros q. unfold h_of. cbn [regs st5]. destruct q as [|q]; [reflexivity|]. cbn [Nat.eqb].
    destruct (reg_at _ (S q)); exact I.
  - intros q q' x x' g g' _ Hx _ Nx. unfold h_of in Hx. destruct (q =? 0); [injection Hx as <-; discriminate|].
    destruct (reg_at _ q); [injection Hx as <-; discriminate|discriminate].
Qed.

(* the whole: ANY program of the eighteen operations through ANY registers, from a state whose
   root holds a well-formed field *)
Theorem handles_history_field b f st ops a' tr :
  wf_rfield b f = true -> holds st (rtree_of f) ->
  h_ops ops (mk_hstate (fst (rcontent f)) (h_of st)) = Some (a', tr) -> forallb operands_ok tr = true ->
  exists st' l',
    run_ops fixed ops st = Ok st' /\
    Rel b (snd (rcontent f)) st' a' /\
    h_f a' = fold_left xstep tr (fst (rcontent f)) /\
    root_tree st' = Ok (ltree l') /\ root_text st' = Ok (text (ltree l')) /\
    lwf b l' = true /\ lcontent l' = (fold_left xstep tr (fst (rcontent f)), snd (rcontent f)) /\
    exists acc, parse_relaxed (text (ltree l')) b = Ok (rtree_of (norm l'), 0) /\
                text (rtree_of (norm l')) = text (ltree l') /\
                racc (rtree_of (norm l')) = Ok acc /\
                racc_view acc = (fold_left xstep tr (fst (rcontent f)), snd (rcontent f)).
Proof.
  intros Hwf Hst Hh Ho. pose proof (lwf_live_of b f Hwf) as Hl. rewrite <- ltree_live_of in Hst.
  pose proof (Rel_of_holds b st (live_of f) Hst Hl) as HR. rewrite lcontent_live_of in HR.
  destruct (handles_history b _ ops st _ a' tr HR Hh Ho) as (st' & R & HR').
  pose proof (h_ops_content _ _ _ _ Hh) as Hf. cbn [h_f] in Hf.
  destruct (Rel_reread _ _ _ _ HR') as (l' & RT & RX & Hw' & Hc' & acc & P & T & A & V).
  exists st', l'. rewrite <- Hf. repeat (split; [assumption || reflexivity|]). exists acc. auto.
Qed.

(* ------------------------------------------------------------------ what a handle shows *)
(* an Entry handle that denotes entry i shows the i-th entry of the field as it is now
   (Entry::to_string() through the old handle = the text of that entry in the root) *)
Lemma nth_entry_lentries l i ci e : nth_entry l i = Some (ci, e) -> nth_error (lentries l) i = Some e.
Proof.
  intros H. destruct (nth_entry_entries _ _ _ _ H) as (pre & post & -> & _ & <-). rewrite lentries_split. apply nth_error_app_len.
Qed.
Theorem Rel_entry_handle b sv st a k i : Rel b sv st a -> h_reg a (ereg k) = Some (ELive i) ->
  exists l e, root_tree st = Ok (ltree l) /\ lcontent l = (h_f a, sv) /\
              nth_error (lentries l) i = Some e /\
              reg_text (ereg k) st = Ok (Some (text (lentry_tree e)), st).
Proof.
  destruct st as [ts rs]. intros (tid & ri & l & HT & Hw & Hc & H0 & Hok & U) Hk. cbn [trees regs] in *.
  pose proof (rel_root ts rs a tid l H0 Hok) as Hr0. pose proof (Hok (ereg k)) as Hek. rewrite Hk in Hek.
  destruct (reg_at rs (ereg k)) as [g|] eqn:Eg; [|contradiction]. cbn [ref_ok] in Hek. destruct Hek as (ci & e & He & ->).
  exists l, e. split.
  - unfold root_tree. replace (node_of_reg 0 (mk_state ts rs)) with (Ok (ltree l, mk_state ts rs)); [reflexivity|].
    symmetry. apply runs_intro. unfold node_of_reg. rbind; [apply runs_get_reg; apply reg_at_nth; exact Hr0|].
    eapply runs_node_of; [exact HT|reflexivity].
  - split; [exact Hc|]. split; [now apply (nth_entry_lentries l i ci)|].
    apply runs_intro. eapply reg_text_runs; [exact Eg|exact HT|apply (get_path_entry _ _ _ _ He)].
Qed.
(* a Relation handle that denotes alternative j of entry i shows that alternative *)
Theorem Rel_relation_handle b sv st a m i j : Rel b sv st a -> h_reg a (rreg m) = Some (RLive i j) ->
  exists l e r, root_tree st = Ok (ltree l) /\ lcontent l = (h_f a, sv) /\
                nth_error (lentries l) i = Some e /\ nth_rel e j = Some r /\
                reg_text (rreg m) st = Ok (Some (text (lrel_tree r)), st).
Proof.
  destruct st as [ts rs]. intros (tid & ri & l & HT & Hw & Hc & H0 & Hok & U) Hm. cbn [trees regs] in *.
  pose proof (rel_root ts rs a tid l H0 Hok) as Hr0. pose proof (Hok (rreg m)) as Hrm. rewrite Hm in Hrm.
  destruct (reg_at rs (rreg m)) as [g|] eqn:Eg; [|contradiction]. cbn [ref_ok] in Hrm. destruct Hrm as (ci & e & cj & He & Hj & ->).
  pose proof (rel_slot_inv _ _ _ Hj) as Hjn. destruct (nth_rel_some e j ltac:(now apply Nat.ltb_lt)) as (r & Hr).
  destruct (entry_rel_split e j r Hr) as (rp & rq & Ech & Hn & _). assert (cj = length rp) by congruence. subst cj.
  exists l, e, r. split.
  - unfold root_tree. replace (node_of_reg 0 (mk_state ts rs)) with (Ok (ltree l, mk_state ts rs)); [reflexivity|].
    symmetry. apply runs_intro. unfold node_of_reg. rbind; [apply runs_get_reg; apply reg_at_nth; exact Hr0|].
    eapply runs_node_of; [exact HT|reflexivity].
  - split; [exact Hc|]. split; [now apply (nth_entry_lentries l i ci)|]. split; [exact Hr|].
    apply runs_intro. eapply reg_text_runs; [exact Eg|exact HT|].
    cbn [s_tree]. change [ci; length rp] with ([ci] ++ [length rp]). rewrite get_path_app, (get_path_entry _ _ _ _ He).
    cbn [get_path lentry_tree children]. now rewrite Ech, nth_error_app_len.
Qed.
