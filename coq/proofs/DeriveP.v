(* C16: lemmas about the model of the derive macros (model/Derive.v). *)
From Coq Require Import ZArith Decimal DecimalPos DecimalN DecimalZ.
From V.model Require Import Base Deb822Lex Deb822Parse Grammar Lossy LossySpec Derive.
From V.proofs Require Import BaseP LossyRtP.
Set Default Timeout 60.

(* ================================================================== 1. std functions of the codecs *)
(* ---- decimal numerals ---- *)
Lemma chars_uint_chars u : chars_uint (uint_chars u) = Some u.
Proof. induction u; cbn [uint_chars chars_uint]; try reflexivity; rewrite IHu; reflexivity. Qed.

Definition is_digit (c : N) : bool := (48 <=? c)%N && (c <=? 57)%N.
Lemma uint_chars_digits u : forallb is_digit (uint_chars u) = true.
Proof. induction u; cbn [uint_chars forallb]; try reflexivity; rewrite IHu; reflexivity. Qed.
Lemma uint_chars_nonnil u : u <> Nil -> uint_chars u <> [].
Proof. destruct u; cbn; congruence. Qed.

Lemma N_to_uint_nonnil n : N.to_uint n <> Nil.
Proof. destruct n as [|p]; cbn; [discriminate|apply Unsigned.to_uint_nonnil]. Qed.

(* stripping an optional sign leaves a digit string untouched *)
Lemma digits_no_sign s : forallb is_digit s = true ->
  match s with 43%N :: (_ :: _) as r => r | _ => s end = s.
Proof.
  destruct s as [|c r]; [reflexivity|]. cbn [forallb]. intros H. apply andb_true_iff in H. destruct H as [Hc _].
  unfold is_digit in Hc. destruct c as [|p]; [reflexivity|].
  repeat (match goal with |- context [match ?q with xI _ => _ | xO _ => _ | xH => _ end] => is_var q; destruct q end);
    try reflexivity; vm_compute in Hc; discriminate.
Qed.

Lemma parse_print_dec bits n : (n < 2 ^ bits)%N -> parse_udec bits (print_dec n) = Some n.
Proof.
  intros Hn. unfold parse_udec, print_dec.
  rewrite (digits_no_sign _ (uint_chars_digits _)).
  pose proof (uint_chars_nonnil _ (N_to_uint_nonnil n)) as Hne.
  destruct (uint_chars (N.to_uint n)) as [|c r] eqn:Ec; [congruence|]. rewrite <- Ec.
  rewrite chars_uint_chars. cbv zeta. rewrite DecimalN.Unsigned.of_to.
  apply N.ltb_lt in Hn. rewrite Hn. reflexivity.
Qed.

Lemma digits_no_sign2 s : forallb is_digit s = true ->
  match s with
  | 43%N :: (_ :: _) as r => (false, r)
  | 45%N :: (_ :: _) as r => (true, r)
  | _ => (false, s)
  end = (false, s).
Proof.
  destruct s as [|c r]; [reflexivity|]. cbn [forallb]. intros H. apply andb_true_iff in H. destruct H as [Hc _].
  unfold is_digit in Hc. destruct c as [|p]; [reflexivity|].
  repeat (match goal with |- context [match ?q with xI _ => _ | xO _ => _ | xH => _ end] => is_var q; destruct q end);
    try reflexivity; vm_compute in Hc; discriminate.
Qed.

Definition int_in_range (bits : N) (z : Z) : Prop := (- Z.of_N (2 ^ (bits - 1)) <= z < Z.of_N (2 ^ (bits - 1)))%Z.

Lemma parse_print_int bits z : int_in_range bits z -> parse_int bits (print_int z) = Some z.
Proof.
  intros [Hlo Hhi]. unfold parse_int, print_int.
  assert (Hz : Z.of_int (Z.to_int z) = z) by apply DecimalZ.of_to.
  destruct (Z.to_int z) as [u|u] eqn:Eu.
  - assert (Hu : u <> Nil).
    { destruct z as [|p|p]; cbn in Eu; inversion Eu; [discriminate|apply Unsigned.to_uint_nonnil]. }
    rewrite (digits_no_sign2 _ (uint_chars_digits _)).
    pose proof (uint_chars_nonnil _ Hu) as Hne.
    destruct (uint_chars u) as [|c r] eqn:Ec; [congruence|]. rewrite <- Ec.
    rewrite chars_uint_chars. cbv zeta. rewrite Hz.
    apply Z.leb_le in Hlo. apply Z.ltb_lt in Hhi. rewrite Hlo, Hhi. reflexivity.
  - assert (Hu : u <> Nil).
    { destruct z as [|p|p]; cbn in Eu; inversion Eu. apply Unsigned.to_uint_nonnil. }
    pose proof (uint_chars_nonnil _ Hu) as Hne.
    destruct (uint_chars u) as [|c r] eqn:Ec; [congruence|].
    change (match 45%N :: c :: r with
            | 43%N :: (_ :: _) as r0 => (false, r0)
            | 45%N :: (_ :: _) as r0 => (true, r0)
            | _ => (false, 45%N :: c :: r)
            end) with (true, c :: r).
    cbv iota beta. rewrite <- Ec. rewrite chars_uint_chars. cbv zeta. rewrite Hz.
    apply Z.leb_le in Hlo. apply Z.ltb_lt in Hhi. rewrite Hlo, Hhi. reflexivity.
Qed.

(* ---- split_whitespace ∘ join " " ---- *)
Definition ws_free (s : str) : bool := forallb (fun c => negb (is_ws c)) s.
Definition ws_item (s : str) : bool := match s with [] => false | _ => ws_free s end.

Lemma split_ws_go_app l : forall s acc, ws_free l = true -> split_ws_go (l ++ s) acc = split_ws_go s (acc ++ l).
Proof.
  induction l as [|c r IH]; intros s acc H; [rewrite app_nil_r; reflexivity|].
  cbn [ws_free forallb] in H. apply andb_true_iff in H. destruct H as [Hc Hr]. apply negb_true_iff in Hc.
  cbn [app split_ws_go]. rewrite Hc, (IH s (acc ++ [c]) Hr), <- app_assoc. reflexivity.
Qed.

Lemma split_ws_join_sep c l : is_ws c = true -> forallb ws_item l = true -> split_ws (join [c] l) = l.
Proof.
  intros Hc. unfold split_ws. induction l as [|x r IH]; [reflexivity|]. intros H.
  cbn [forallb] in H. apply andb_true_iff in H. destruct H as [Hx Hr].
  assert (Hne : x <> []) by (destruct x; [discriminate|congruence]).
  assert (Hf : ws_free x = true) by (destruct x; [discriminate|exact Hx]).
  destruct r as [|y r'].
  - cbn [join]. rewrite <- (app_nil_r x) at 1. rewrite split_ws_go_app by exact Hf.
    cbn [split_ws_go app]. destruct x; [congruence|reflexivity].
  - rewrite join_cons2 by discriminate. rewrite split_ws_go_app by exact Hf.
    cbn [app split_ws_go]. rewrite Hc.
    destruct x as [|c0 x']; [congruence|]. cbn [app]. rewrite IH by exact Hr. reflexivity.
Qed.
Lemma split_ws_join l : forallb ws_item l = true -> split_ws (join [32%N] l) = l.
Proof. apply split_ws_join_sep. reflexivity. Qed.
Lemma split_ws_join_lf l : forallb ws_item l = true -> split_ws (join [10%N] l) = l.
Proof. apply split_ws_join_sep. reflexivity. Qed.

(* ---- split('\n') ∘ join "\n" ---- *)
Lemma split_lf_join_nolf ls : ls <> [] -> forallb no_lf ls = true -> split_lf (join [LF] ls) = ls.
Proof.
  unfold split_lf. induction ls as [|l r IH]; [congruence|]. intros _ H.
  cbn [forallb] in H. apply andb_true_iff in H. destruct H as [Hl Hr].
  destruct r as [|l2 r2].
  - cbn [join]. rewrite <- (app_nil_r l) at 1. rewrite split_lf_go_app by exact Hl. reflexivity.
  - rewrite join_cons2 by discriminate. rewrite split_lf_go_app by exact Hl.
    cbn [app split_lf_go]. change (LF =? 10)%N with true. cbv iota. rewrite IH; [reflexivity|discriminate|exact Hr].
Qed.

(* ================================================================== 2. list-level facts *)
Lemma str_eqb_neq a b : a <> b -> str_eqb a b = false.
Proof. intros H. destruct (str_eqb a b) eqn:E; [apply str_eqb_eq in E; contradiction|reflexivity]. Qed.
Lemma str_eqb_sym a b : str_eqb a b = str_eqb b a.
Proof.
  destruct (str_eqb a b) eqn:E.
  - apply str_eqb_eq in E. subst. symmetry. apply str_eqb_refl.
  - destruct (str_eqb b a) eqn:E2; [|reflexivity]. apply str_eqb_eq in E2. subst. rewrite str_eqb_refl in E. discriminate.
Qed.

Lemma existsb_str_In k l : existsb (str_eqb k) l = true <-> In k l.
Proof.
  rewrite existsb_exists. split.
  - intros (x & Hx & E). apply str_eqb_eq in E. subst. exact Hx.
  - intros H. exists k. split; [exact H|apply str_eqb_refl].
Qed.
Lemma nodup_keys_NoDup ks : nodup_keys ks = true <-> NoDup ks.
Proof.
  induction ks as [|k r IH]; cbn [nodup_keys]; [split; [constructor|reflexivity]|].
  rewrite andb_true_iff, negb_true_iff, IH. split.
  - intros [H1 H2]. constructor; [|exact H2]. intros Hin. apply existsb_str_In in Hin. congruence.
  - intros H. inversion H as [|? ? Hn Hr]; subst. split; [|exact Hr].
    destruct (existsb (str_eqb k) r) eqn:E; [|reflexivity]. apply existsb_str_In in E. contradiction.
Qed.

Lemma l_get_none_iff l k : l_get l k = None <-> ~ In k (map fst l).
Proof.
  induction l as [|[n v] r IH]; cbn [l_get map fst In]; [tauto|].
  destruct (str_eqb n k) eqn:E.
  - apply str_eqb_eq in E. subst. split; [discriminate|intros H; exfalso; apply H; left; reflexivity].
  - rewrite IH. split; [intros H [H1|H1]; [subst; rewrite str_eqb_refl in E; discriminate|contradiction]|tauto].
Qed.

Lemma l_get_cons_other k v l k' : str_eqb k k' = false -> l_get ((k, v) :: l) k' = l_get l k'.
Proof. intros H. cbn [l_get]. rewrite H. reflexivity. Qed.

(* filtering by a predicate on names that rejects k is blind to set k / remove k *)
Lemma filter_l_set (P : str -> bool) l k v : P k = false ->
  filter (fun f => P (fst f)) (l_set l k v) = filter (fun f => P (fst f)) l.
Proof.
  intros HP. destruct (l_set_spec l k v) as [(a & x & b & E1 & E2 & E3)|[E1 E2]].
  - rewrite E3, E1, !filter_app. cbn [filter fst]. rewrite HP. reflexivity.
  - rewrite E2, filter_app. cbn [filter fst]. rewrite HP, app_nil_r. reflexivity.
Qed.
Lemma filter_l_remove (P : str -> bool) l k : P k = false ->
  filter (fun f => P (fst f)) (l_remove l k) = filter (fun f => P (fst f)) l.
Proof.
  intros HP. unfold l_remove. induction l as [|[n v] r IH]; [reflexivity|]. cbn [filter fst].
  destruct (str_eqb n k) eqn:E; cbn [negb].
  - apply str_eqb_eq in E. subst n. rewrite HP. exact IH.
  - cbn [filter fst]. rewrite IH. reflexivity.
Qed.

(* ================================================================== 3. the expansion, over any codecs *)
Section Ext.
Variable E : Type.
Variable ext_print : N -> E -> str.
Variable ext_parse : N -> str -> option E.
(* the values of each external codec for which printing then parsing is claimed to be the identity *)
Variable ext_dom : N -> E -> Prop.

Notation uval := (uval E).
Notation sval := (list (option (Derive.uval E))).
Notation ser := (ser E ext_print).
Notation de := (de E ext_parse).
Notation from_field := (from_field E ext_parse).
Notation from_fields := (from_fields E ext_parse).
Notation to_items := (to_items E ext_print).

(* THE assumption about external codecs (validated by the `derive` stream on the real functions) *)
Definition ext_rt_law : Prop := forall i e, ext_dom i e -> ext_parse i (ext_print i e) = Some e.

(* the representable values of a (serialiser, deserialiser) pair: those the pair round-trips *)
Definition val_dom (s : ser_id) (d : de_id) (v : uval) : Prop :=
  match s, d, v with
  | SStr, DStr, VStr _ => True
  | SBool, DBool, VBool _ => True
  | SYesNo, DYesNo, VBool _ => True
  | SJaNee, DJa, VBool _ => True
  | SNum, DNum bits, VNum n => (n < 2 ^ bits)%N
  | SInt, DInt bits, VInt z => int_in_range bits z
  | SJoinWs, DSplitWs, VList l => forallb ws_item l = true          (* items non-empty, no white space *)
  | SJoinNl, DSplitWs, VList l => forallb ws_item l = true          (* one item per line, read back by split_whitespace *)
  | SJoinNl, DSplitNl, VList l => l <> [] /\ forallb no_lf l = true   (* at least one item, no LF inside *)
  | SJoinNl, DLines, VList l => forallb no_eol l = true /\ last l [1%N] <> []   (* no LF/CR, last item non-empty *)
  | SExt i, DExt j, VExt e => i = j /\ ext_dom i e
  | _, _, _ => False
  end.

Lemma val_dom_rt_pair s d v : val_dom s d v -> rt_pair s d = true.
Proof.
  destruct s, d; cbn; try contradiction; try reflexivity; destruct v; try contradiction.
  intros [-> _]. apply N.eqb_refl.
Qed.

Theorem codec_rt s d v : ext_rt_law -> val_dom s d v -> exists t, ser s v = Some t /\ de d t = Some v.
Proof.
  intros Hext. destruct s, d; cbn [val_dom]; try contradiction; destruct v; try contradiction; intros H; cbn [Derive.ser Derive.de].
  - eexists; split; reflexivity.
  - eexists; split; [reflexivity|]. destruct b; reflexivity.
  - eexists; split; [reflexivity|]. destruct b; reflexivity.
  - eexists; split; [reflexivity|]. destruct b; reflexivity.
  - eexists; split; [reflexivity|]. rewrite parse_print_dec by exact H. reflexivity.
  - eexists; split; [reflexivity|]. rewrite parse_print_int by exact H. reflexivity.
  - eexists; split; [reflexivity|]. rewrite split_ws_join by exact H. reflexivity.
  - eexists; split; [reflexivity|]. rewrite split_ws_join_lf by exact H. reflexivity.
  - destruct H as [H1 H2]. eexists; split; [reflexivity|]. change [10%N] with [LF]. rewrite split_lf_join_nolf by assumption. reflexivity.
  - destruct H as [H1 H2]. eexists; split; [reflexivity|]. change [10%N] with [LF]. rewrite lines_join by assumption. reflexivity.
  - destruct H as [<- H]. eexists; split; [reflexivity|]. rewrite (Hext _ _ H). reflexivity.
Qed.

(* ---- struct values ---- *)
(* typed: every present value is accepted by its serialiser; mandatory fields are present *)
Definition fval_typed (f : fieldspec) (x : option uval) : Prop :=
  match x with None => f_opt f = true | Some u => exists t, ser (f_ser f) u = Some t end.
(* representable: additionally in the round-trip domain of the field's codec pair *)
Definition fval_ok (f : fieldspec) (x : option uval) : Prop :=
  match x with None => f_opt f = true | Some u => val_dom (f_ser f) (f_de f) u end.
Definition val_typed (fs : list fieldspec) (v : sval) : Prop := Forall2 fval_typed fs v.
Definition val_ok (fs : list fieldspec) (v : sval) : Prop := Forall2 fval_ok fs v.

(* what a field prints to *)
Definition fprint (f : fieldspec) (x : option uval) : option str :=
  match x with None => None | Some u => ser (f_ser f) u end.

Lemma val_ok_typed fs v : ext_rt_law -> val_ok fs v -> val_typed fs v.
Proof.
  intros Hext H. induction H as [|f x fs v Hx _ IH]; constructor; [|exact IH].
  destruct x as [u|]; [|exact Hx]. destruct (codec_rt _ _ _ Hext Hx) as (t & Ht & _). exists t. exact Ht.
Qed.

(* the items to_paragraph builds: present fields, in declaration order *)
Fixpoint present_items (fs : list fieldspec) (v : sval) : list (str * str) :=
  match fs, v with
  | f :: r, x :: xs => match fprint f x with Some s => (f_key f, s) :: present_items r xs | None => present_items r xs end
  | _, _ => []
  end.
Fixpoint present_keys (fs : list fieldspec) (v : sval) : list str :=
  match fs, v with
  | f :: r, x :: xs => match x with Some _ => f_key f :: present_keys r xs | None => present_keys r xs end
  | _, _ => []
  end.

Lemma to_items_typed fs v : val_typed fs v -> to_items fs v = Some (present_items fs v).
Proof.
  intros H. induction H as [|f x fs v Hx _ IH]; [reflexivity|]. cbn [Derive.to_items present_items fprint].
  destruct x as [u|]; cbn [fprint].
  - destruct Hx as (t & Ht). rewrite Ht, IH. reflexivity.
  - cbn in Hx. rewrite Hx. exact IH.
Qed.
Lemma present_items_keys fs v : val_typed fs v -> map fst (present_items fs v) = present_keys fs v.
Proof.
  intros H. induction H as [|f x fs v Hx _ IH]; [reflexivity|]. cbn [present_items present_keys fprint].
  destruct x as [u|]; cbn [fprint]; [|exact IH]. destruct Hx as (t & Ht). rewrite Ht. cbn [map fst]. rewrite IH. reflexivity.
Qed.
Lemma present_keys_incl fs v k : In k (present_keys fs v) -> In k (map f_key fs).
Proof.
  revert v. induction fs as [|f r IH]; intros [|x xs]; cbn [present_keys map]; try contradiction.
  destruct x; cbn [In]; [intros [H|H]; [left; exact H|right; eapply IH; exact H]|intros H; right; eapply IH; exact H].
Qed.
Lemma present_items_incl fs v k : In k (map fst (present_items fs v)) -> In k (map f_key fs).
Proof.
  revert v. induction fs as [|f r IH]; intros [|x xs]; cbn [present_items map]; try contradiction.
  destruct (fprint f x); cbn [map fst In]; [intros [H|H]; [left; exact H|right; eapply IH; exact H]|intros H; right; eapply IH; exact H].
Qed.

(* ---- reading: from_fields is determined by what get returns for the struct's keys ---- *)
Lemma from_fields_ext get1 get2 fs : (forall k, In k (map f_key fs) -> get1 k = get2 k) ->
  from_fields get1 fs = from_fields get2 fs.
Proof.
  induction fs as [|f r IH]; intros H; [reflexivity|]. cbn [Derive.from_fields].
  unfold Derive.from_field. rewrite (H (f_key f)) by (left; reflexivity).
  rewrite IH by (intros k Hk; apply H; right; exact Hk). reflexivity.
Qed.

Lemma from_fields_of_gets get fs v : ext_rt_law -> val_ok fs v ->
  Forall2 (fun f x => get (f_key f) = fprint f x) fs v -> from_fields get fs = DOk v.
Proof.
  intros Hext Hok Hg. induction Hok as [|f x fs v Hx _ IH]; [reflexivity|].
  inversion Hg as [|? ? ? ? Hgx Hgr]; subst. cbn [Derive.from_fields]. unfold Derive.from_field. rewrite Hgx.
  destruct x as [u|]; cbn [fprint].
  - destruct (codec_rt _ _ _ Hext Hx) as (t & Ht & Hd). rewrite Ht, Hd, (IH Hgr). reflexivity.
  - cbn in Hx. rewrite Hx, (IH Hgr). reflexivity.
Qed.

Lemma Forall2_get_cons k s (L : list (str * str)) fs (v : sval) :
  Forall (fun g => str_eqb k (f_key g) = false) fs ->
  Forall2 (fun f x => l_get L (f_key f) = fprint f x) fs v ->
  Forall2 (fun f x => l_get ((k, s) :: L) (f_key f) = fprint f x) fs v.
Proof.
  intros Hne H. induction H as [|g y r0 xs0 Hgy _ IH2]; constructor.
  - inversion Hne; subst. rewrite l_get_cons_other by assumption. exact Hgy.
  - inversion Hne; subst. apply IH2. assumption.
Qed.

(* what l_get returns on the items of to_paragraph *)
Lemma present_items_get fs v : NoDup (map f_key fs) -> length fs = length v ->
  Forall2 (fun f x => l_get (present_items fs v) (f_key f) = fprint f x) fs v.
Proof.
  revert v. induction fs as [|f r IH]; intros [|x xs] Hnd Hlen; try discriminate; [constructor|].
  cbn [map] in Hnd. inversion Hnd as [|? ? Hn Hr]; subst. cbn [length] in Hlen. injection Hlen as Hlen.
  specialize (IH xs Hr Hlen). cbn [present_items]. constructor.
  - destruct (fprint f x) as [s|] eqn:Ep.
    + cbn [l_get]. rewrite str_eqb_refl. reflexivity.
    + apply l_get_none_iff. intros Hin. apply Hn. eapply present_items_incl. exact Hin.
  - assert (Hne : Forall (fun g => str_eqb (f_key f) (f_key g) = false) r).
    { apply Forall_forall. intros g Hg. apply str_eqb_neq. intros E0. apply Hn. rewrite E0. apply in_map. exact Hg. }
    destruct (fprint f x) as [s|]; [|exact IH].
    apply Forall2_get_cons; assumption.
Qed.

Lemma Forall2_length_eq {A B} (R : A -> B -> Prop) l1 l2 : Forall2 R l1 l2 -> length l1 = length l2.
Proof. induction 1; cbn; congruence. Qed.

(* ---- errors: the first field, in declaration order, that cannot be read decides ---- *)
Definition field_reads (get : str -> option str) (f : fieldspec) : Prop := exists x, from_field get f = DOk x.

Lemma from_fields_first_error get a f b e : Forall (field_reads get) a -> from_field get f = DErr e ->
  from_fields get (a ++ f :: b) = DErr e.
Proof.
  intros Ha Hf. induction Ha as [|g a (x & Hx) _ IH]; cbn [app Derive.from_fields].
  - rewrite Hf. reflexivity.
  - rewrite Hx, IH. reflexivity.
Qed.
Lemma from_fields_error_inv get fs e : from_fields get fs = DErr e ->
  exists a f b, fs = a ++ f :: b /\ Forall (field_reads get) a /\ from_field get f = DErr e.
Proof.
  induction fs as [|f r IH]; cbn [Derive.from_fields]; [discriminate|].
  destruct (from_field get f) as [x|e0] eqn:Ef.
  - destruct (from_fields get r) as [xs|e1] eqn:Er; [discriminate|]. intros H. injection H as <-.
    destruct (IH eq_refl) as (a & g & b & E1 & E2 & E3). exists (f :: a), g, b. subst r. repeat split; [|exact E3].
    constructor; [exists x; exact Ef|exact E2].
  - intros H. injection H as <-. exists [], f, r. repeat split; [constructor|exact Ef].
Qed.
Lemma from_field_error get f e : from_field get f = DErr e ->
  (e = Missing (f_key f) /\ f_opt f = false /\ get (f_key f) = None) \/
  (e = Parsing (f_key f) /\ exists s, get (f_key f) = Some s /\ de (f_de f) s = None).
Proof.
  unfold Derive.from_field. destruct (get (f_key f)) as [s|].
  - destruct (de (f_de f) s) eqn:Ed; [discriminate|]. intros H. injection H as <-. right. split; [reflexivity|]. exists s. split; [reflexivity|exact Ed].
  - destruct (f_opt f); [discriminate|]. intros H. injection H as <-. left. repeat split.
Qed.
Lemma from_fields_ok_iff get fs : (exists v, from_fields get fs = DOk v) <-> Forall (field_reads get) fs.
Proof.
  induction fs as [|f r IH]; cbn [Derive.from_fields]; [split; [constructor|exists []; reflexivity]|]. split.
  - intros (v & Hv). destruct (from_field get f) as [x|] eqn:Ef; [|discriminate].
    destruct (from_fields get r) as [xs|] eqn:Er; [|discriminate]. constructor; [exists x; exact Ef|apply IH; exists xs; reflexivity].
  - intros H. inversion H as [|? ? (x & Hx) Hr]; subst. apply IH in Hr. destruct Hr as (xs & Hxs). rewrite Hx, Hxs. eexists; reflexivity.
Qed.

(* ---- update on the list model ---- *)
Fixpoint l_update (fs : list fieldspec) (v : sval) (l : list (str * str)) : option (list (str * str)) :=
  match fs, v with
  | [], [] => Some l
  | f :: r, x :: xs =>
    match x with
    | None => if f_opt f then l_update r xs (l_remove l (f_key f)) else None
    | Some u => match ser (f_ser f) u with Some s => l_update r xs (l_set l (f_key f) s) | None => None end
    end
  | _, _ => None
  end.

Definition owned (fs : list fieldspec) (k : str) : bool := existsb (str_eqb k) (map f_key fs).
Definition not_owned_items (fs : list fieldspec) (l : list (str * str)) : list (str * str) :=
  filter (fun kv => negb (owned fs (fst kv))) l.

Lemma owned_In fs k : owned fs k = true <-> In k (map f_key fs).
Proof. apply existsb_str_In. Qed.

Lemma l_update_spec fs : forall v l, NoDup (map f_key fs) -> val_typed fs v ->
  exists l', l_update fs v l = Some l' /\
    Forall2 (fun f x => l_get l' (f_key f) = fprint f x) fs v /\
    (forall k, ~ In k (map f_key fs) -> l_get l' k = l_get l k) /\
    (forall P : str -> bool, (forall k, In k (map f_key fs) -> P k = false) ->
        filter (fun kv => P (fst kv)) l' = filter (fun kv => P (fst kv)) l).
Proof.
  induction fs as [|f r IH]; intros v l Hnd Hty; inversion Hty as [|? x ? xs Hx Hr]; subst.
  - exists l. split; [reflexivity|]. split; [constructor|]. split; reflexivity.
  - cbn [map] in Hnd. inversion Hnd as [|? ? Hn Hnr]; subst.
    set (l1 := match x with
               | None => l_remove l (f_key f)
               | Some u => match ser (f_ser f) u with Some s => l_set l (f_key f) s | None => l end
               end).
    destruct (IH xs l1 Hnr Hr) as (l' & Hu & Hget & Hother & Hfilt).
    assert (Hstep : l_update (f :: r) (x :: xs) l = l_update r xs l1).
    { cbn [l_update]. unfold l1. destruct x as [u|]; [destruct Hx as (t & Ht); rewrite Ht; reflexivity|cbn in Hx; rewrite Hx; reflexivity]. }
    assert (Hk1 : l_get l1 (f_key f) = fprint f x).
    { unfold l1. destruct x as [u|]; cbn [fprint].
      - destruct Hx as (t & Ht). rewrite Ht. apply l_get_set_same.
      - apply l_remove_spec. }
    assert (Hk2 : forall k, k <> f_key f -> l_get l1 k = l_get l k).
    { intros k Hne. unfold l1. destruct x as [u|].
      - destruct (ser (f_ser f) u); [|reflexivity]. apply l_get_set_other. apply str_eqb_neq. congruence.
      - apply l_remove_spec. apply str_eqb_neq. exact Hne. }
    assert (Hk3 : forall P : str -> bool, P (f_key f) = false ->
                  filter (fun kv => P (fst kv)) l1 = filter (fun kv => P (fst kv)) l).
    { intros P HP. unfold l1. destruct x as [u|].
      - destruct (ser (f_ser f) u); [|reflexivity]. apply filter_l_set. exact HP.
      - apply filter_l_remove. exact HP. }
    exists l'. rewrite Hstep. split; [exact Hu|]. split; [|split].
    + constructor; [|exact Hget]. rewrite Hother by exact Hn. exact Hk1.
    + intros k Hk. cbn [map In] in Hk. rewrite Hother by tauto. apply Hk2. intros ->. apply Hk. left. reflexivity.
    + intros P HP. rewrite Hfilt by (intros k Hk; apply HP; right; exact Hk). apply Hk3. apply HP. left. reflexivity.
Qed.

(* ================================================================== 4. over any paragraph back-end *)
(* The laws a back-end has to satisfy: its observer [pl_items] maps get / set / remove / collect
   onto the list operations of the lossy paragraph (proved for the list in proofs/LossyRtP.v). *)
Record ParaLaws (PL : ParaLike) : Prop := mk_para_laws {
  law_get : forall p k, pl_get PL p k = l_get (pl_items PL p) k;
  law_set : forall p k v, pl_items PL (pl_set PL p k v) = l_set (pl_items PL p) k v;
  law_remove : forall p k, pl_items PL (pl_remove PL p k) = l_remove (pl_items PL p) k;
  law_of_list : forall l, pl_items PL (pl_of_list PL l) = l }.

Section Backend.
Variable PL : ParaLike.
Hypothesis laws : ParaLaws PL.
Notation from_paragraph := (from_paragraph E ext_parse PL).
Notation to_paragraph := (to_paragraph E ext_print PL).
Notation update_paragraph := (update_paragraph E ext_print PL).

Lemma from_paragraph_items fs p : from_paragraph fs p = from_fields (l_get (pl_items PL p)) fs.
Proof. unfold Derive.from_paragraph. apply from_fields_ext. intros k _. apply (law_get _ laws). Qed.

Lemma update_paragraph_items fs : forall v p,
  match update_paragraph fs v p with
  | Some p' => l_update fs v (pl_items PL p) = Some (pl_items PL p')
  | None => l_update fs v (pl_items PL p) = None
  end.
Proof.
  induction fs as [|f r IH]; intros [|x xs] p; cbn [Derive.update_paragraph l_update]; try reflexivity.
  destruct x as [u|].
  - destruct (ser (f_ser f) u) as [s|]; [|reflexivity]. specialize (IH xs (pl_set PL p (f_key f) s)).
    rewrite (law_set _ laws) in IH. exact IH.
  - destruct (f_opt f); [|reflexivity]. specialize (IH xs (pl_remove PL p (f_key f))).
    rewrite (law_remove _ laws) in IH. exact IH.
Qed.

(* round trip; the paragraph lists the present fields in declaration order under their keys *)
Theorem derive_rt_order fs v : ext_rt_law -> NoDup (map f_key fs) -> val_ok fs v ->
  exists p, to_paragraph fs v = Some p /\
            from_paragraph fs p = DOk v /\
            pl_items PL p = present_items fs v /\
            map fst (pl_items PL p) = present_keys fs v.
Proof.
  intros Hext Hnd Hok. pose proof (val_ok_typed _ _ Hext Hok) as Hty.
  unfold Derive.to_paragraph. rewrite (to_items_typed _ _ Hty). eexists. split; [reflexivity|].
  rewrite from_paragraph_items, (law_of_list _ laws). split; [|split; [reflexivity|apply present_items_keys; exact Hty]].
  apply from_fields_of_gets; [exact Hext|exact Hok|].
  apply present_items_get; [exact Hnd|eapply Forall2_length_eq; exact Hok].
Qed.

(* to_paragraph alone (structs deriving only ToDeb822): order and omission *)
Theorem derive_order fs v : val_typed fs v ->
  exists p, to_paragraph fs v = Some p /\ pl_items PL p = present_items fs v /\
            map fst (pl_items PL p) = present_keys fs v.
Proof.
  intros Hty. unfold Derive.to_paragraph. rewrite (to_items_typed _ _ Hty). eexists. split; [reflexivity|].
  rewrite (law_of_list _ laws). split; [reflexivity|apply present_items_keys; exact Hty].
Qed.

Theorem derive_update fs v p : ext_rt_law -> NoDup (map f_key fs) -> val_ok fs v ->
  exists p', update_paragraph fs v p = Some p' /\
    from_paragraph fs p' = DOk v /\
    (forall k, ~ In k (map f_key fs) -> pl_get PL p' k = pl_get PL p k) /\
    not_owned_items fs (pl_items PL p') = not_owned_items fs (pl_items PL p) /\
    Forall2 (fun f x => x = None -> ~ In (f_key f) (map fst (pl_items PL p'))) fs v /\
    Forall2 (fun f x => pl_get PL p' (f_key f) = fprint f x) fs v.
Proof.
  intros Hext Hnd Hok. pose proof (val_ok_typed _ _ Hext Hok) as Hty.
  destruct (l_update_spec fs v (pl_items PL p) Hnd Hty) as (l' & Hu & Hget & Hother & Hfilt).
  pose proof (update_paragraph_items fs v p) as Hh. destruct (update_paragraph fs v p) as [p'|]; [|congruence].
  rewrite Hu in Hh. injection Hh as Hl'. exists p'. split; [reflexivity|].
  assert (Hget' : Forall2 (fun f x => pl_get PL p' (f_key f) = fprint f x) fs v).
  { clear - Hget Hl' laws. subst l'. induction Hget; constructor; [rewrite (law_get _ laws); assumption|assumption]. }
  split; [|split; [|split; [|split]]].
  - rewrite from_paragraph_items, <- Hl'. apply from_fields_of_gets; assumption.
  - intros k Hk. rewrite !(law_get _ laws), <- Hl'. apply Hother. exact Hk.
  - unfold not_owned_items. rewrite <- Hl'. apply (Hfilt (fun k => negb (owned fs k))).
    intros k Hk. apply negb_false_iff, owned_In. exact Hk.
  - rewrite <- Hl'. clear - Hget. induction Hget as [|f x fs v Hx _ IH]; constructor; [|exact IH].
    intros ->. cbn [fprint] in Hx. apply l_get_none_iff. exact Hx.
  - exact Hget'.
Qed.

(* only typedness is needed for the part of update that does not read back *)
Theorem derive_update_frame fs v p : NoDup (map f_key fs) -> val_typed fs v ->
  exists p', update_paragraph fs v p = Some p' /\
    (forall k, ~ In k (map f_key fs) -> pl_get PL p' k = pl_get PL p k) /\
    not_owned_items fs (pl_items PL p') = not_owned_items fs (pl_items PL p) /\
    Forall2 (fun f x => pl_get PL p' (f_key f) = fprint f x) fs v.
Proof.
  intros Hnd Hty.
  destruct (l_update_spec fs v (pl_items PL p) Hnd Hty) as (l' & Hu & Hget & Hother & Hfilt).
  pose proof (update_paragraph_items fs v p) as Hh. destruct (update_paragraph fs v p) as [p'|]; [|congruence].
  rewrite Hu in Hh. injection Hh as Hl'. exists p'. split; [reflexivity|]. split; [|split].
  - intros k Hk. rewrite !(law_get _ laws), <- Hl'. apply Hother. exact Hk.
  - unfold not_owned_items. rewrite <- Hl'. apply (Hfilt (fun k => negb (owned fs k))).
    intros k Hk. apply negb_false_iff, owned_In. exact Hk.
  - clear - Hget Hl' laws. subst l'. induction Hget; constructor; [rewrite (law_get _ laws); assumption|assumption].
Qed.

(* errors name the field: the first field in declaration order that cannot be read *)
Theorem derive_missing a f b p : Forall (field_reads (pl_get PL p)) a ->
  f_opt f = false -> pl_get PL p (f_key f) = None ->
  from_paragraph (a ++ f :: b) p = DErr (Missing (f_key f)).
Proof.
  intros Ha Ho Hg. apply from_fields_first_error; [exact Ha|]. unfold Derive.from_field. rewrite Hg, Ho. reflexivity.
Qed.
Theorem derive_parse_error a f b p s : Forall (field_reads (pl_get PL p)) a ->
  pl_get PL p (f_key f) = Some s -> de (f_de f) s = None ->
  from_paragraph (a ++ f :: b) p = DErr (Parsing (f_key f)).
Proof.
  intros Ha Hg Hd. apply from_fields_first_error; [exact Ha|]. unfold Derive.from_field. rewrite Hg, Hd. reflexivity.
Qed.
Theorem derive_error_sound fs p e : from_paragraph fs p = DErr e ->
  exists a f b, fs = a ++ f :: b /\ Forall (field_reads (pl_get PL p)) a /\
    ((e = Missing (f_key f) /\ f_opt f = false /\ pl_get PL p (f_key f) = None) \/
     (e = Parsing (f_key f) /\ exists s, pl_get PL p (f_key f) = Some s /\ de (f_de f) s = None)).
Proof.
  intros H. destruct (from_fields_error_inv _ _ _ H) as (a & f & b & E1 & E2 & E3).
  exists a, f, b. split; [exact E1|]. split; [exact E2|]. apply from_field_error. exact E3.
Qed.
Theorem derive_total fs p : (exists v, from_paragraph fs p = DOk v) <-> Forall (field_reads (pl_get PL p)) fs.
Proof. apply from_fields_ok_iff. Qed.
End Backend.

(* ---- both back-ends behave alike: everything factors through pl_items ---- *)
Theorem derive_backend_independent PL1 PL2 : ParaLaws PL1 -> ParaLaws PL2 -> forall fs v,
  (match Derive.to_paragraph E ext_print PL1 fs v, Derive.to_paragraph E ext_print PL2 fs v with
   | Some p1, Some p2 => pl_items PL1 p1 = pl_items PL2 p2
   | None, None => True
   | _, _ => False
   end) /\
  (forall p1 p2, pl_items PL1 p1 = pl_items PL2 p2 ->
     Derive.from_paragraph E ext_parse PL1 fs p1 = Derive.from_paragraph E ext_parse PL2 fs p2 /\
     match Derive.update_paragraph E ext_print PL1 fs v p1, Derive.update_paragraph E ext_print PL2 fs v p2 with
     | Some q1, Some q2 => pl_items PL1 q1 = pl_items PL2 q2
     | None, None => True
     | _, _ => False
     end).
Proof.
  intros L1 L2 fs v. split.
  - unfold Derive.to_paragraph. destruct (to_items fs v); [|exact I]. rewrite (law_of_list _ L1), (law_of_list _ L2). reflexivity.
  - intros p1 p2 Hp. split.
    + rewrite (from_paragraph_items PL1 L1), (from_paragraph_items PL2 L2), Hp. reflexivity.
    + pose proof (update_paragraph_items PL1 L1 fs v p1) as H1. pose proof (update_paragraph_items PL2 L2 fs v p2) as H2.
      rewrite Hp in H1.
      destruct (Derive.update_paragraph E ext_print PL1 fs v p1), (Derive.update_paragraph E ext_print PL2 fs v p2); try congruence; exact I.
Qed.
End Ext.

(* ================================================================== 5. the lossy back-end satisfies the laws *)
Theorem lossy_laws : ParaLaws lossy_para_like.
Proof. constructor; reflexivity. Qed.
